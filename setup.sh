#!/bin/bash
# Build the framework offline from files on disk: regenerate QibGen from /repo, build the models, the property modules of every
# claimed check (each property is its own build target: property files never import one another) and the driver executables.
set -e
DIR="$(cd "$(dirname "$0")" && pwd)"
export PYTHONDONTWRITEBYTECODE=1 PYTHONWARNINGS=ignore PATH="/opt/veriftools/lean/bin:$PATH" OMP_NUM_THREADS=1 OPENBLAS_NUM_THREADS=1
cd "$DIR/harness" && /venv/bin/python -W ignore -c "import translate; translate.regenerate(translate.ALL)" || echo "setup: translator failed (checks will report it)"
cd "$DIR/harness"
TARGETS=$(/venv/bin/python -W ignore - <<'PY'
import importlib, sys
sys.path.insert(0, ".")
ready = open("READY").read().split()
seen = []
for pid in ready:
    try:
        m = importlib.import_module("props." + pid.lower())
    except Exception as e:
        print("setup: cannot import props." + pid.lower(), e, file=sys.stderr)
        continue
    for f in m.LEAN_FILES:
        t = f[:-5].replace("/", ".")
        if t not in seen:
            seen.append(t)
print(" ".join(seen))
PY
)
cd "$DIR/lean"
EXES=$(/venv/bin/python - <<'PY'
import re, os
t = open("lakefile.toml").read()
for m in re.finditer(r'\[\[lean_exe\]\]\s*name = "(\w+)"\s*root = "([\w.]+)"', t):
    if os.path.exists(m.group(2).replace(".", "/") + ".lean"):
        print(m.group(1))
PY
)
lake build QibModel
for t in $TARGETS; do lake build $t || echo "setup: property module $t does not build (its check will report it)"; done
for e in $EXES; do lake build $e || echo "setup: driver $e does not build (its check will report it)"; done
