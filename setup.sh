#!/bin/bash
# Build the framework offline from files on disk: regenerate QibGen from /repo, build model, proofs, drivers.
set -e
DIR="$(cd "$(dirname "$0")" && pwd)"
export PYTHONDONTWRITEBYTECODE=1 PYTHONWARNINGS=ignore PATH="/opt/veriftools/lean/bin:$PATH"
cd "$DIR/harness" && /venv/bin/python -W ignore -c "import translate; translate.regenerate(translate.ALL)" || echo "setup: translator failed (checks will report it)"
cd "$DIR/lean"
EXES=$(/venv/bin/python - <<'PY'
import re, os
t = open("lakefile.toml").read()
for m in re.finditer(r'\[\[lean_exe\]\]\s*name = "(\w+)"\s*root = "([\w.]+)"', t):
    if os.path.exists(m.group(2).replace(".", "/") + ".lean"):
        print(m.group(1))
PY
)
lake build QibModel QibProofs
for e in $EXES; do lake build $e || echo "setup: driver $e does not build (its check will report it)"; done
