#!/bin/bash
# Build the framework offline from files on disk: regenerate QibGen from /repo, build model, proofs, driver.
set -e
DIR="$(cd "$(dirname "$0")" && pwd)"
export PYTHONDONTWRITEBYTECODE=1 PYTHONWARNINGS=ignore PATH="/opt/veriftools/lean/bin:$PATH"
cd "$DIR/harness" && /venv/bin/python -W ignore -c "import translate; translate.regenerate(translate.ALL)" || echo "setup: translator failed (checks will report it)"
cd "$DIR/lean" && lake build QibModel QibProofs qibdriver
