import QibProofs.Lemmas.TNetSurgerySum
/-!
Helper lemmas for C08, part 9: the value of a network after fusing the bonds of two open axes (one step of the join
loop of `merge`) and after the whole join loop (no property statements).
-/
namespace Qib.TNet
variable {α : Type} [CommSemiring α]

/-! ### fusing two open labels at the level of `sem` -/

theorem upd_comp_rep {b1 b2 l : Int} (h1 : l ≠ b1) (h2 : l ≠ b2) (σ : Int → Nat) (v : Nat) :
    (upd σ l v) ∘ (rep b2 b1) = upd (σ ∘ rep b2 b1) l v := by
  funext x
  simp only [Function.comp, upd, rep]
  by_cases hx : x = b2
  · subst hx
    have t1 : ¬ x = l := fun e => h2 e.symm
    have t2 : ¬ b1 = l := fun e => h1 e.symm
    simp [t1, t2]
  · have hb : (x == b2) = false := by simpa using hx
    simp [hb]

theorem sumOver_comp_rep (dim : Int → Nat) (ls : List Int) (b1 b2 : Int) (hls : ∀ l ∈ ls, l ≠ b1 ∧ l ≠ b2)
    (f : (Int → Nat) → α) (σ : Int → Nat) :
    sumOver dim ls (fun τ => f (τ ∘ rep b2 b1)) σ = sumOver dim ls f (σ ∘ rep b2 b1) := by
  induction ls generalizing σ with
  | nil => rfl
  | cons l ls ih =>
    simp only [sumOver_cons]
    congr 1
    apply List.map_congr_left
    intro v _
    rw [ih (fun x hx => hls x (List.mem_cons_of_mem _ hx)),
      upd_comp_rep (hls l List.mem_cons_self).1 (hls l List.mem_cons_self).2]

theorem pinsOK_fuse (opn : List Int) (z : List Nat) (b1 b2 : Int) (p q : Nat) (hp : opn[p]? = some b1)
    (hq : opn[q]? = some b2) :
    pinsOK (opn.map (rep b2 b1)) z = (pinsOK opn z && (z[p]? == z[q]?)) := by
  have hpl : p < opn.length := by
    by_contra hc; rw [List.getElem?_eq_none (by omega)] at hp; cases hp
  have hql : q < opn.length := by
    by_contra hc; rw [List.getElem?_eq_none (by omega)] at hq; cases hq
  rw [Bool.eq_iff_iff, Bool.and_eq_true, pinsOK_iff, pinsOK_iff, beq_iff_eq]
  simp only [List.length_map, List.getElem?_map]
  constructor
  · rintro ⟨h1, h2⟩
    refine ⟨⟨h1, fun k k' hk hk' he => h2 k k' hk hk' (by rw [he])⟩, ?_⟩
    apply h2 p q hpl hql
    rw [hp, hq]; simp [rep]
  · rintro ⟨⟨h1, h2⟩, h3⟩
    refine ⟨h1, fun k k' hk hk' he => ?_⟩
    rw [List.getElem?_eq_getElem hk, List.getElem?_eq_getElem hk'] at he
    simp only [Option.map_some, Option.some.injEq] at he
    -- every axis on `b2` reads like axis `q`, every axis on `b1` like axis `p`
    have hb2 : ∀ m (hm : m < opn.length), opn[m] = b2 → z[m]? = z[q]? := fun m hm e =>
      h2 m q hm hql (by rw [List.getElem?_eq_getElem hm, hq, e])
    have hb1 : ∀ m (hm : m < opn.length), opn[m] = b1 → z[m]? = z[p]? := fun m hm e =>
      h2 m p hm hpl (by rw [List.getElem?_eq_getElem hm, hp, e])
    unfold rep at he
    by_cases e1 : opn[k] = b2 <;> by_cases e2 : opn[k'] = b2
    · rw [hb2 k hk e1, hb2 k' hk' e2]
    · have : (opn[k'] == b2) = false := by simpa using e2
      simp only [e1, beq_self_eq_true, if_true, this, Bool.false_eq_true, if_false] at he
      rw [hb2 k hk e1, hb1 k' hk' he.symm, h3]
    · have : (opn[k] == b2) = false := by simpa using e1
      simp only [e2, beq_self_eq_true, if_true, this, Bool.false_eq_true, if_false] at he
      rw [hb2 k' hk' e2, hb1 k hk he, h3]
    · have t1 : (opn[k] == b2) = false := by simpa using e1
      have t2 : (opn[k'] == b2) = false := by simpa using e2
      simp only [t1, t2, Bool.false_eq_true, if_false] at he
      exact h2 k k' hk hk' (by rw [List.getElem?_eq_getElem hk, List.getElem?_eq_getElem hk', he])

/-- **fusing the labels of two open axes inserts a Kronecker delta between the two axes** -/
theorem sem_fuse (dim : Int → Nat) (opn intl : List Int) (ts : List (Option Int × List Int))
    (D : Option Int → List Nat → α) (z : List Nat) (b1 b2 : Int) (p q : Nat) (hp : opn[p]? = some b1)
    (hq : opn[q]? = some b2) (hint : ∀ l ∈ intl, l ≠ b1 ∧ l ≠ b2) :
    sem dim (opn.map (rep b2 b1)) intl (relabelTs (rep b2 b1) ts) D z =
      if z[p]? == z[q]? then sem dim opn intl ts D z else 0 := by
  unfold sem
  rw [pinsOK_fuse opn z b1 b2 p q hp hq]
  by_cases hok : pinsOK opn z = true
  · by_cases hz : (z[p]? == z[q]?) = true
    · simp only [hok, hz, Bool.and_self, if_true]
      have hok' : pinsOK (opn.map (rep b2 b1)) z = true := by
        rw [pinsOK_fuse opn z b1 b2 p q hp hq, hok, hz]; rfl
      rw [show tensorTerm D (relabelTs (rep b2 b1) ts) = fun τ => tensorTerm D ts (τ ∘ rep b2 b1) from
        funext (tensorTerm_relabel D _ ts)]
      rw [sumOver_comp_rep dim intl b1 b2 hint]
      apply sumOver_agree
      intro x _
      simp only [Function.comp]
      by_cases hx : x ∈ opn
      · obtain ⟨k, hk, rfl⟩ := List.getElem_of_mem hx
        have h1 := pin_of_pinsOK opn z (fun _ => 0) hok k hk
        have hk' : k < (opn.map (rep b2 b1)).length := by simpa using hk
        have h2 := pin_of_pinsOK (opn.map (rep b2 b1)) z (fun _ => 0) hok' k hk'
        simp only [List.getElem_map] at h2
        rw [← h1] at h2
        exact Option.some.inj h2
      · have hxb2 : x ≠ b2 := fun e => hx (e ▸ List.mem_of_getElem? hq)
        rw [rep_of_ne hxb2, pin_notMem _ _ _ _ hx, pin_notMem]
        intro hm
        obtain ⟨y, hy, hyx⟩ := List.mem_map.mp hm
        by_cases hyb : y = b2
        · subst hyb; rw [rep_self] at hyx
          exact hx (hyx ▸ List.mem_of_getElem? hp)
        · rw [rep_of_ne hyb] at hyx; exact hx (hyx ▸ hy)
    · simp only [hok, hz, Bool.and_false, Bool.false_eq_true, if_false]
  · simp only [hok, Bool.false_and, Bool.false_eq_true, if_false]
    split <;> rfl

/-- two axes on the same label already read the same index -/
theorem sem_same (dim : Int → Nat) (opn intl : List Int) (ts : List (Option Int × List Int))
    (D : Option Int → List Nat → α) (z : List Nat) (b : Int) (p q : Nat) (hp : opn[p]? = some b)
    (hq : opn[q]? = some b) :
    sem dim opn intl ts D z = if z[p]? == z[q]? then sem dim opn intl ts D z else 0 := by
  by_cases hz : (z[p]? == z[q]?) = true
  · rw [if_pos hz]
  · rw [if_neg hz]
    unfold sem
    by_cases hok : pinsOK opn z = true
    · exfalso
      apply hz
      have hpl : p < opn.length := by
        by_contra hc; rw [List.getElem?_eq_none (by omega)] at hp; cases hp
      have hql : q < opn.length := by
        by_contra hc; rw [List.getElem?_eq_none (by omega)] at hq; cases hq
      rw [beq_iff_eq]
      exact ((pinsOK_iff _ _).mp hok).2 p q hpl hql (by rw [hp, hq])
    · rw [if_neg hok]

end Qib.TNet
