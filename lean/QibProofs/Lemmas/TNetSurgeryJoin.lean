import QibProofs.Lemmas.TNetSurgerySum
/-!
Helper lemmas for C08, part 9: the value of a network after fusing the bonds of two open axes (one step of the join
loop of `merge`) and after the whole join loop (no property statements).
-/
namespace Qib.TNet
variable {α : Type} [CommSemiring α]

/-! ### fusing two open labels at the level of `sem` -/

theorem upd_comp_rep {b1 b2 l : Int} (h1 : l ≠ b1) (h2 : l ≠ b2) (σ : Int → Nat) (v : Nat) :
    (upd σ l v) ∘ (rep b2 b1) = upd (σ ∘ rep b2 b1) l v := by
  funext x
  simp only [Function.comp, upd, rep]
  by_cases hx : x = b2
  · subst hx
    have t1 : ¬ x = l := fun e => h2 e.symm
    have t2 : ¬ b1 = l := fun e => h1 e.symm
    simp [t1, t2]
  · have hb : (x == b2) = false := by simpa using hx
    simp [hb]

theorem sumOver_comp_rep (dim : Int → Nat) (ls : List Int) (b1 b2 : Int) (hls : ∀ l ∈ ls, l ≠ b1 ∧ l ≠ b2)
    (f : (Int → Nat) → α) (σ : Int → Nat) :
    sumOver dim ls (fun τ => f (τ ∘ rep b2 b1)) σ = sumOver dim ls f (σ ∘ rep b2 b1) := by
  induction ls generalizing σ with
  | nil => rfl
  | cons l ls ih =>
    simp only [sumOver_cons]
    congr 1
    apply List.map_congr_left
    intro v _
    rw [ih (fun x hx => hls x (List.mem_cons_of_mem _ hx)),
      upd_comp_rep (hls l List.mem_cons_self).1 (hls l List.mem_cons_self).2]

theorem pinsOK_fuse (opn : List Int) (z : List Nat) (b1 b2 : Int) (p q : Nat) (hp : opn[p]? = some b1)
    (hq : opn[q]? = some b2) :
    pinsOK (opn.map (rep b2 b1)) z = (pinsOK opn z && (z[p]? == z[q]?)) := by
  have hpl : p < opn.length := by
    by_contra hc; rw [List.getElem?_eq_none (by omega)] at hp; cases hp
  have hql : q < opn.length := by
    by_contra hc; rw [List.getElem?_eq_none (by omega)] at hq; cases hq
  rw [Bool.eq_iff_iff, Bool.and_eq_true, pinsOK_iff, pinsOK_iff, beq_iff_eq]
  simp only [List.length_map, List.getElem?_map]
  constructor
  · rintro ⟨h1, h2⟩
    refine ⟨⟨h1, fun k k' hk hk' he => h2 k k' hk hk' (by rw [he])⟩, ?_⟩
    apply h2 p q hpl hql
    rw [hp, hq]; simp [rep]
  · rintro ⟨⟨h1, h2⟩, h3⟩
    refine ⟨h1, fun k k' hk hk' he => ?_⟩
    rw [List.getElem?_eq_getElem hk, List.getElem?_eq_getElem hk'] at he
    simp only [Option.map_some, Option.some.injEq] at he
    -- every axis on `b2` reads like axis `q`, every axis on `b1` like axis `p`
    have hb2 : ∀ m (hm : m < opn.length), opn[m] = b2 → z[m]? = z[q]? := fun m hm e =>
      h2 m q hm hql (by rw [List.getElem?_eq_getElem hm, hq, e])
    have hb1 : ∀ m (hm : m < opn.length), opn[m] = b1 → z[m]? = z[p]? := fun m hm e =>
      h2 m p hm hpl (by rw [List.getElem?_eq_getElem hm, hp, e])
    unfold rep at he
    by_cases e1 : opn[k] = b2 <;> by_cases e2 : opn[k'] = b2
    · rw [hb2 k hk e1, hb2 k' hk' e2]
    · have : (opn[k'] == b2) = false := by simpa using e2
      simp only [e1, beq_self_eq_true, if_true, this, Bool.false_eq_true, if_false] at he
      rw [hb2 k hk e1, hb1 k' hk' he.symm, h3]
    · have : (opn[k] == b2) = false := by simpa using e1
      simp only [e2, beq_self_eq_true, if_true, this, Bool.false_eq_true, if_false] at he
      rw [hb2 k' hk' e2, hb1 k hk he, h3]
    · have t1 : (opn[k] == b2) = false := by simpa using e1
      have t2 : (opn[k'] == b2) = false := by simpa using e2
      simp only [t1, t2, Bool.false_eq_true, if_false] at he
      exact h2 k k' hk hk' (by rw [List.getElem?_eq_getElem hk, List.getElem?_eq_getElem hk', he])

/-- **fusing the labels of two open axes inserts a Kronecker delta between the two axes** -/
theorem sem_fuse (dim : Int → Nat) (opn intl : List Int) (ts : List (Option Int × List Int))
    (D : Option Int → List Nat → α) (z : List Nat) (b1 b2 : Int) (p q : Nat) (hp : opn[p]? = some b1)
    (hq : opn[q]? = some b2) (hint : ∀ l ∈ intl, l ≠ b1 ∧ l ≠ b2) :
    sem dim (opn.map (rep b2 b1)) intl (relabelTs (rep b2 b1) ts) D z =
      if z[p]? == z[q]? then sem dim opn intl ts D z else 0 := by
  unfold sem
  rw [pinsOK_fuse opn z b1 b2 p q hp hq]
  by_cases hok : pinsOK opn z = true
  · by_cases hz : (z[p]? == z[q]?) = true
    · simp only [hok, hz, Bool.and_self, if_true]
      have hok' : pinsOK (opn.map (rep b2 b1)) z = true := by
        rw [pinsOK_fuse opn z b1 b2 p q hp hq, hok, hz]; rfl
      rw [show tensorTerm D (relabelTs (rep b2 b1) ts) = fun τ => tensorTerm D ts (τ ∘ rep b2 b1) from
        funext (tensorTerm_relabel D _ ts)]
      rw [sumOver_comp_rep dim intl b1 b2 hint]
      apply sumOver_agree
      intro x _
      simp only [Function.comp]
      by_cases hx : x ∈ opn
      · obtain ⟨k, hk, rfl⟩ := List.getElem_of_mem hx
        have h1 := pin_of_pinsOK opn z (fun _ => 0) hok k hk
        have hk' : k < (opn.map (rep b2 b1)).length := by simpa using hk
        have h2 := pin_of_pinsOK (opn.map (rep b2 b1)) z (fun _ => 0) hok' k hk'
        simp only [List.getElem_map] at h2
        rw [← h1] at h2
        exact Option.some.inj h2
      · have hxb2 : x ≠ b2 := fun e => hx (e ▸ List.mem_of_getElem? hq)
        rw [rep_of_ne hxb2, pin_notMem _ _ _ _ hx, pin_notMem]
        intro hm
        obtain ⟨y, hy, hyx⟩ := List.mem_map.mp hm
        by_cases hyb : y = b2
        · subst hyb; rw [rep_self] at hyx
          exact hx (hyx ▸ List.mem_of_getElem? hp)
        · rw [rep_of_ne hyb] at hyx; exact hx (hyx ▸ hy)
    · simp only [hok, hz, Bool.and_false, Bool.false_eq_true, if_false]
  · simp only [hok, Bool.false_and, Bool.false_eq_true, if_false]
    split <;> rfl

/-- two axes on the same label already read the same index -/
theorem sem_same (dim : Int → Nat) (opn intl : List Int) (ts : List (Option Int × List Int))
    (D : Option Int → List Nat → α) (z : List Nat) (b : Int) (p q : Nat) (hp : opn[p]? = some b)
    (hq : opn[q]? = some b) :
    sem dim opn intl ts D z = if z[p]? == z[q]? then sem dim opn intl ts D z else 0 := by
  by_cases hz : (z[p]? == z[q]?) = true
  · rw [if_pos hz]
  · rw [if_neg hz]
    unfold sem
    by_cases hok : pinsOK opn z = true
    · exfalso
      apply hz
      have hpl : p < opn.length := by
        by_contra hc; rw [List.getElem?_eq_none (by omega)] at hp; cases hp
      have hql : q < opn.length := by
        by_contra hc; rw [List.getElem?_eq_none (by omega)] at hq; cases hq
      rw [beq_iff_eq]
      exact ((pinsOK_iff _ _).mp hok).2 p q hpl hql (by rw [hp, hq])
    · rw [if_neg hok]

/-! ### one step of the join loop, on networks -/

theorem WF0.bondDim_of_leg {net : Net} (h : WF0 net) {l : Int} {d : Nat} (hp : (l, d) ∈ legDims net) :
    bondDim net l = d := by
  obtain ⟨d', h1, h2⟩ := lookup_of_mem hp
  have := h.dims _ hp _ h2 rfl
  simp only at this
  simp [bondDim, h1, this]

/-- every bond has a leg on some tensor -/
theorem WF0.exists_leg {net : Net} (h : WF0 net) {l : Int} (hl : l ∈ dkeys net.bonds) : ∃ d, (l, d) ∈ legDims net := by
  obtain ⟨B, hB⟩ := exists_mem_of_mem_dkeys hl
  have hlen := h.blen _ hB
  simp only at hlen
  obtain ⟨t, ht⟩ := List.exists_mem_of_length_pos (by omega : 0 < B.tids.length)
  obtain ⟨T, hT⟩ := h.tensor_of_ref (dget_of_mem h.bnodup hB) ht
  have hm := mem_of_dget_eq_some _ hT
  have hc : 0 < T.bids.count l := by
    rw [← h.mult hT (dget_of_mem h.bnodup hB)]
    exact List.count_pos_iff.mpr ht
  obtain ⟨ax, hax, he⟩ := List.getElem_of_mem (List.count_pos_iff.mp hc)
  have hsh : T.shape.length = T.bids.length := h.tshape _ hm
  have hax' : ax < T.shape.length := by omega
  exact ⟨T.shape[ax], mem_legDims (e := (t, T)) hm (ax := ax)
    (by show T.bids[ax]? = some l; rw [List.getElem?_eq_getElem hax, he])
    (by show T.shape[ax]? = some T.shape[ax]; exact List.getElem?_eq_getElem hax')⟩

theorem realTs_relTensors (ρ : Int → Int) (ts : List (Int × STensor)) (bs bs' : List (Int × SBond)) :
    realTs ⟨relTensors ρ ts, bs'⟩ = relabelTs ρ (realTs ⟨ts, bs⟩) := by
  simp only [realTs, realTensors, relTensors, relabelTs, List.filter_map, List.map_map]
  rfl

theorem joinStep_full {S : List Nat} {orig : Nat} {st st' : Net × List Nat} {ja : Nat × Nat} (h : JInv S st.1)
    (hdim : S[ja.1]? = S[orig + ja.2]?) (hok : joinStep orig st ja = .ok st') (D : Option Int → List Nat → α)
    (z : List Nat) :
    full st'.1 D z = if z[ja.1]? == z[orig + ja.2]? then full st.1 D z else 0 := by
  have hinv' := joinStep_inv h hdim hok
  obtain ⟨toa, b1, b2, hv, hb1, hb2, hm, _⟩ := joinStep_ok hok
  have hw := h.1
  by_cases hb : b1 = b2
  · subst hb
    rw [mergeBonds_eq] at hm
    simp only [beq_self_eq_true, if_true] at hm
    rw [← Except.ok.inj hm, full_eq_sem _ D z hv]
    exact sem_same _ _ _ _ D z b1 _ _ hb1 hb2
  · obtain ⟨B1, B2, hB1, hB2, heq⟩ := mergeBonds_spec hw.toWF0 hb hm
    have hw' := hinv'.1
    rw [heq] at hw' ⊢
    have hv' : dget (relTensors (rep b2 b1) st.1.tensors) (-1) = some { toa with bids := toa.bids.map (rep b2 b1) } := by
      rw [dget_relTensors, hv]; rfl
    rw [full_eq_sem _ D z hv', full_eq_sem _ D z hv]
    have hreal : realTs ⟨relTensors (rep b2 b1) st.1.tensors, dmodify (dpop st.1.bonds b2) b1 (fun b => catBond b B2)⟩
        = relabelTs (rep b2 b1) (realTs st.1) := realTs_relTensors _ _ st.1.bonds _
    have hb1m : b1 ∈ toa.bids := List.mem_of_getElem? hb1
    have hb2m : b2 ∈ toa.bids := List.mem_of_getElem? hb2
    have hint : internalBids ⟨relTensors (rep b2 b1) st.1.tensors, dmodify (dpop st.1.bonds b2) b1 (fun b => catBond b B2)⟩
        { toa with bids := toa.bids.map (rep b2 b1) } = internalBids st.1 toa := by
      simp only [internalBids, dkeys_dmodify, dkeys_dpop, List.filter_filter]
      apply List.filter_congr
      intro x _
      rw [Bool.eq_iff_iff]
      simp only [Bool.and_eq_true, Bool.not_eq_true', bne_iff_ne, ne_eq, List.contains_eq_mem, decide_eq_false_iff_not,
        List.mem_map, not_exists, not_and]
      constructor
      · rintro ⟨h1, h2⟩ hx
        exact h1 x hx (rep_of_ne h2)
      · intro hx
        refine ⟨fun y hy hyx => ?_, fun e => hx (e ▸ hb2m)⟩
        by_cases hyb : y = b2
        · subst hyb; rw [rep_self] at hyx; exact hx (hyx ▸ hb1m)
        · rw [rep_of_ne hyb] at hyx; exact hx (hyx ▸ hy)
    have hintl : ∀ l ∈ internalBids st.1 toa, l ≠ b1 ∧ l ≠ b2 := by
      intro l hl
      have : l ∉ toa.bids := by
        simp only [internalBids, List.mem_filter, Bool.not_eq_true', List.contains_eq_mem, decide_eq_false_iff_not] at hl
        exact hl.2
      exact ⟨fun e => this (e ▸ hb1m), fun e => this (e ▸ hb2m)⟩
    have hd : ∀ l ∈ internalBids st.1 toa,
        bondDim ⟨relTensors (rep b2 b1) st.1.tensors, dmodify (dpop st.1.bonds b2) b1 (fun b => catBond b B2)⟩ l
          = bondDim st.1 l := by
      intro l hl
      have hlk : l ∈ dkeys st.1.bonds := by
        simp only [internalBids, List.mem_filter] at hl; exact hl.1
      obtain ⟨d, hd⟩ := hw.toWF0.exists_leg hlk
      rw [hw.toWF0.bondDim_of_leg hd]
      apply hw'.toWF0.bondDim_of_leg
      have := legDims_relB (rep b2 b1) st.1.tensors st.1.bonds (dmodify (dpop st.1.bonds b2) b1 (fun b => catBond b B2))
      rw [show relTensors (rep b2 b1) st.1.tensors = st.1.tensors.map (fun e => (e.1, { e.2 with bids := e.2.bids.map (rep b2 b1) })) from rfl, this]
      refine List.mem_map.mpr ⟨(l, d), hd, ?_⟩
      simp only [rep_of_ne (hintl l hl).2]
    rw [hreal, hint]
    rw [sem_congr D z (List.Perm.refl _) (List.Perm.refl _) hd]
    exact sem_fuse (bondDim st.1) toa.bids (internalBids st.1 toa) (realTs st.1) D z b1 b2 _ _ hb1 hb2 hintl

/-- the whole join loop multiplies the value by the indicator of all joins -/
theorem join_fold_full {S : List Nat} {orig : Nat} {joinN : List (Nat × Nat)} {st st' : Net × List Nat}
    (h : JInv S st.1) (hdim : ∀ ja ∈ joinN, S[ja.1]? = S[orig + ja.2]?)
    (hf : joinN.foldlM (joinStep orig) st = .ok st') (D : Option Int → List Nat → α) (z : List Nat) :
    full st'.1 D z = if (joinN.all fun ja => z[ja.1]? == z[orig + ja.2]?) then full st.1 D z else 0 := by
  induction joinN generalizing st with
  | nil =>
    have := foldlM_nil_ok _ _ _ hf
    subst this
    simp
  | cons ja js ih =>
    obtain ⟨s1, hs, hrest⟩ := foldlM_cons_ok _ _ _ _ _ hf
    have h1 := joinStep_inv h (hdim ja List.mem_cons_self) hs
    rw [ih h1 (fun x hx => hdim x (List.mem_cons_of_mem _ hx)) hrest,
      joinStep_full h (hdim ja List.mem_cons_self) hs D z]
    simp only [List.all_cons, Bool.and_eq_true]
    by_cases c1 : (z[ja.1]? == z[orig + ja.2]?) = true <;>
      by_cases c2 : (js.all fun ja => z[ja.1]? == z[orig + ja.2]?) = true <;> simp [c1, c2]

end Qib.TNet
