import QibModel.Qubitization
import Mathlib.Algebra.Group.Defs
import Mathlib.Data.Real.Basic
import Mathlib.Algebra.FreeMonoid.Basic
import Mathlib.Algebra.BigOperators.Group.List.Basic
import Mathlib.Tactic.Ring
/-!
Helper lemmas for C19 about the loops of `EigenvalueTransformation.as_matrix` / `as_circuit`
(`evtLoop`, `evtCircuitLoop` of `QibModel/Qubitization.lean`) over an arbitrary monoid. No property statements here.
-/
namespace Qib.Qubitization

section Loop
variable {α M : Type} [Monoid M]

theorem getElem?_append_len (pre : List α) (a : α) (rest : List α) : (pre ++ a :: rest)[pre.length]? = some a := by
  simp

theorem getElem?_append_len_succ (pre : List α) (a b : α) (rest : List α) :
    (pre ++ a :: b :: rest)[pre.length + 1]? = some b := by
  rw [List.getElem?_append_right (by omega)]; simp

/-- the pairing loop started at iteration `s` with `2s - start` angles already consumed multiplies the accumulator by
the defining product of the remaining (even number of) angles -/
theorem evtLoop_spec (P : α → M) (U Ui : M) (start : ℕ) :
    ∀ (k : ℕ) (rest pre : List α) (s : ℕ) (acc : M), rest.length = 2 * k → 2 * s - start = pre.length → start ≤ 2 * s →
      evtLoop P U Ui (pre ++ rest) start acc (List.range' s k) = .ok (acc * evtSpec P U Ui rest) := by
  intro k
  induction k with
  | zero =>
    intro rest pre s acc hr _ _
    have : rest = [] := List.length_eq_zero_iff.mp (by omega)
    subst this
    simp [evtLoop, evtSpec]
  | succ k ih =>
    intro rest pre s acc hr hs hle
    match rest, hr with
    | a :: b :: rest', hr =>
      have hr' : rest'.length = 2 * k := by simp at hr; omega
      have i1 : 2 * s - start = pre.length := hs
      have i2 : 2 * s + 1 - start = pre.length + 1 := by omega
      have hstep : evtBody P U Ui (pre ++ a :: b :: rest') start acc s = .ok (acc * P a * Ui * P b * U) := by
        simp only [evtBody, i1, i2, getElem?_append_len, getElem?_append_len_succ]
      rw [List.range'_succ]
      simp only [evtLoop, hstep]
      have happ : pre ++ a :: b :: rest' = (pre ++ [a, b]) ++ rest' := by simp
      rw [happ, ih rest' (pre ++ [a, b]) (s + 1) _ hr' (by simp; omega) (by omega)]
      congr 1
      have e1 : (b :: rest').length % 2 = 1 := by simp only [List.length_cons, hr']; omega
      have e2 : rest'.length % 2 = 0 := by omega
      simp only [evtSpec, e1, e2, if_true, one_ne_zero, if_false, mul_assoc]

end Loop

section CircuitLoop
variable {M : Type} [Monoid M]

/-- denotation of a gate list under any map into a monoid, first gate applied first (= rightmost factor):
this is the fold of `Circuit.as_matrix` (`C05_circuitMat_eq_prod`) -/
def circuitDen {G : Type} (den : G → M) (c : List G) : M := (c.map den).reverse.prod

theorem circuitDen_nil {G : Type} (den : G → M) : circuitDen den ([] : List G) = 1 := by simp [circuitDen]

theorem circuitDen_cons {G : Type} (den : G → M) (g : G) (c : List G) : circuitDen den (g :: c) = circuitDen den c * den g := by
  simp [circuitDen]

theorem circuitDen_append {G : Type} (den : G → M) (c₁ c₂ : List G) :
    circuitDen den (c₁ ++ c₂) = circuitDen den c₂ * circuitDen den c₁ := by
  simp [circuitDen, List.prod_append]

theorem circuitDen_map {G H : Type} (den : H → M) (f : G → H) (c : List G) :
    circuitDen den (c.map f) = circuitDen (den ∘ f) c := by
  simp [circuitDen, List.map_map]

variable (pc : Pcps ℝ) (den : EvtItem ℝ → M)

/-- gate list of the processing circuit for the angle `θ` (empty if `as_circuit` refuses) -/
noncomputable def pcGates (pc : Pcps ℝ) (θ : ℝ) : List (GateDesc ℝ) :=
  match (pc.setTheta θ).asCircuit with
  | .ok l => l
  | .error _ => []

/-- denotation of the processing circuit for the angle `θ` -/
noncomputable def subDen (θ : ℝ) : M := circuitDen (den ∘ EvtItem.gate) (pcGates pc θ)

theorem evtPrepend_den {θ : ℝ} {g : EvtItem ℝ} {circ c' : List (EvtItem ℝ)} (h : evtPrepend pc θ g circ = .ok c') :
    circuitDen den c' = circuitDen den circ * subDen pc den θ * den g := by
  unfold evtPrepend at h
  cases hs : (pc.setTheta θ).asCircuit with
  | error e => simp [hs] at h
  | ok sub =>
    simp only [hs] at h
    cases h
    simp only [circuitDen_cons, circuitDen_append, circuitDen_map, subDen, pcGates, hs]

theorem evtCircuitLoop_spec :
    ∀ (k : ℕ) (rest pre : List ℝ) (s start : ℕ) (circ out : List (EvtItem ℝ)), rest.length = 2 * k → 2 * s - start = pre.length →
      start ≤ 2 * s → evtCircuitLoop pc (pre ++ rest) start circ (List.range' s k) = .ok out →
      circuitDen den out = circuitDen den circ * evtSpec (subDen pc den) (den .enc) (den .encInv) rest := by
  intro k
  induction k with
  | zero =>
    intro rest pre s start circ out hr _ _ h
    have : rest = [] := List.length_eq_zero_iff.mp (by omega)
    subst this
    simp only [List.range'_zero, evtCircuitLoop] at h
    cases h
    simp [evtSpec]
  | succ k ih =>
    intro rest pre s start circ out hr hs hle h
    match rest, hr with
    | a :: b :: rest', hr =>
      have hr' : rest'.length = 2 * k := by simp at hr; omega
      have i1 : 2 * s - start = pre.length := hs
      have i2 : 2 * s + 1 - start = pre.length + 1 := by omega
      rw [List.range'_succ] at h
      simp only [evtCircuitLoop] at h
      cases hb : evtCircuitBody pc (pre ++ a :: b :: rest') start circ s with
      | error e => simp [hb] at h
      | ok c2 =>
        simp only [hb] at h
        simp only [evtCircuitBody, i1, i2, getElem?_append_len, getElem?_append_len_succ] at hb
        cases h1 : evtPrepend pc a .encInv circ with
        | error e => simp [h1] at hb
        | ok c1 =>
          simp only [h1] at hb
          have d1 := evtPrepend_den pc den h1
          have d2 := evtPrepend_den pc den hb
          have happ : pre ++ a :: b :: rest' = (pre ++ [a, b]) ++ rest' := by simp
          rw [happ] at h
          rw [ih rest' (pre ++ [a, b]) (s + 1) start c2 out hr' (by simp; omega) (by omega) h, d2, d1]
          have e1 : (b :: rest').length % 2 = 1 := by simp only [List.length_cons, hr']; omega
          have e2 : rest'.length % 2 = 0 := by omega
          simp only [evtSpec, e1, e2, if_true, one_ne_zero, if_false, mul_assoc]

end CircuitLoop

/-! ### the loop run in the free monoid -/

/-- letters of the free monoid: `inl θ` = the phase shift by `θ`, `inr true` = the encoding, `inr false` = its inverse -/
abbrev Letter := ℝ ⊕ Bool

/-- the product in the free monoid: the *word* the loop writes down, before any matrix is substituted -/
def evtWord (θs : List ℝ) : FreeMonoid Letter :=
  evtSpec (fun a => FreeMonoid.of (Sum.inl a)) (FreeMonoid.of (Sum.inr true)) (FreeMonoid.of (Sum.inr false)) θs

theorem evtWord_cons (a : ℝ) (rest : List ℝ) :
    (evtWord (a :: rest)).toList = Sum.inl a :: Sum.inr (decide (rest.length % 2 = 0)) :: (evtWord rest).toList := by
  unfold evtWord
  rw [evtSpec]
  by_cases h : rest.length % 2 = 0 <;> simp [h, FreeMonoid.toList_mul, FreeMonoid.toList_of]


end Qib.Qubitization
