import QibProofs.Lemmas.CircuitNetTotalLoop
import QibProofs.Lemmas.TNetEinsumTotal
/-!
Helper lemmas for C05 (totality of `TensorNetworkSimulator.run`), part 8: `contract_einsum` of a `TensorNetwork` over
any scalar type (`CircuitNet.contractEinsum`) never fails on a consistent network with consistent data that has at least
one real tensor (the proof of `TNetEinsumTotal.lean` with the data dictionary of a `TN α`; without any operand
`np.einsum` raises `ValueError`, which the model reproduces). No property statements.
-/
set_option linter.unusedSimpArgs false
set_option linter.unusedSectionVars false
namespace Qib.CircuitNet
open Qib.TNet Qib.GateNet

section Einsum
variable {α : Type} [CommSemiring α] [DecidableEq α]

/-- every label seen by the einsum call belongs to a bond (scalar-generic form of `EinsumCert.dims_bond`) -/
theorem dims_bond_gen {net : Net} {v : STensor} {e : EinsumSpec} (hc : EinsumCert net v e) {dt : Int → DT α}
    {ones : List (DT α × List Nat)} (hones : OnesOK v e ones) {l d : Nat}
    (h : (l, d) ∈ einsumDims (eArgs dt e ++ ones)) : ∃ b, (b, l) ∈ eAll net v e := by
  rcases mem_einsumDims_eArgs.mp h with ⟨q, hq, hp⟩ | ⟨a, ha, hp⟩
  · obtain ⟨a, hax⟩ := List.mem_iff_getElem?.mp hp
    rw [List.getElem?_zip_eq_some] at hax
    obtain ⟨T, b, _, _, hm⟩ := hc.leg hq hax.1
    exact ⟨b, hm⟩
  · obtain ⟨j, d', p, rfl, hj, _⟩ := hones a ha
    have hld : l = j ∧ d = d' := by
      have : (l, d) ∈ [j].zip [d'] := hp
      simpa using this
    obtain ⟨rfl, rfl⟩ := hld
    have hp' : p < v.bids.length := by
      rw [← hc.vlab_len]
      by_contra h; rw [List.getElem?_eq_none (by omega)] at hj; cases hj
    refine ⟨v.bids[p], ?_⟩
    unfold eAll
    apply List.mem_append_right
    rw [List.mem_iff_getElem?]
    exact ⟨p, by rw [List.getElem?_zip_eq_some]; exact ⟨List.getElem?_eq_getElem hp', hj⟩⟩

/-- **`contract_einsum` of a `TensorNetwork` never fails** on a consistent network with consistent data and at least
one real tensor -/
theorem contractEinsumTN_total {tn : TN α} (hinv : C08.Inv tn.net) (hcd : GateNet.isConsistentData tn = .ok true)
    (hreal : ∃ t ∈ dkeys tn.net.tensors, t ≠ -1) : ∃ r am, contractEinsum tn = .ok (r, am) := by
  have hwf : WF tn.net := (C08.C08_inv_iff_wf _).mp hinv
  obtain ⟨v, hvm⟩ := exists_mem_of_mem_dkeys hwf.virt
  have hv := dget_of_mem hwf.tnodup hvm
  simp only at hv
  obtain ⟨e, he⟩ := asEinsum_total hwf
  have hc := asEinsum_cert hwf hv he
  have hdt := dataOK_dataOfTN hwf.tkey hcd
  have hvlen : v.shape.length = v.bids.length := hwf.tshape _ hvm
  -- the ones-vectors
  set onesF : Nat → Option (DT α × List Nat) := fun k =>
    if e.tidx.any (·.contains e.idxout[k]!) then none
    else some (DT.ofFn [v.shape[e.axesMap.idxOf k]?.getD 0] (fun _ => (1 : α)), [e.idxout[k]!]) with honesF
  set ones := (List.range e.idxout.length).filterMap onesF with hones
  have hsurj : ∀ k, k < e.idxout.length → k ∈ e.axesMap := by
    intro k hk
    obtain ⟨j, hj⟩ := List.mem_iff_getElem?.mp (hc.outv _ (List.getElem_mem hk))
    have hjl : j < v.bids.length := by
      rw [← hc.vlab_len]
      by_contra h; rw [List.getElem?_eq_none (by omega)] at hj; cases hj
    obtain ⟨h1, h2, h3⟩ := hc.vlab_get hjl
    rw [hj] at h3
    have := (List.Nodup.getElem_inj_iff hc.nodup).mp (Option.some.inj h3)
    rw [this]; exact List.getElem_mem h1
  have hO : OnesOK v e ones := by
    intro a ha
    rw [hones, List.mem_filterMap] at ha
    obtain ⟨k, hk, hfk⟩ := ha
    have hk' := List.mem_range.mp hk
    simp only [honesF] at hfk
    split at hfk
    · cases hfk
    · cases hfk
      have hmem := hsurj k hk'
      have hlt := List.idxOf_lt_length_of_mem hmem
      have hg : e.axesMap[e.axesMap.idxOf k] = k := List.getElem_idxOf hlt
      have hps : e.axesMap.idxOf k < v.shape.length := by rw [hvlen, ← hc.amlen]; exact hlt
      refine ⟨e.idxout[k]!, _, e.axesMap.idxOf k, rfl, ?_, ?_⟩
      · simp [eVLabels, hlt, hg, hk']
      · rw [List.getElem?_eq_getElem hps]; simp
  -- the einsum call succeeds
  have hE : ∃ r, einsumEval (eArgs (dataOfTN tn) e ++ ones) e.idxout = .ok r := by
    refine ⟨_, einsumEval_ok_of ?_ ?_ hc.nodup ?_⟩
    · intro a ha
      rcases List.mem_append.mp ha with ha | ha
      · obtain ⟨q, hq, rfl⟩ := List.mem_map.mp ha
        obtain ⟨T, hT, hrow⟩ := hc.rows q hq
        have hne : q.1 ≠ -1 := hc.tid_ne hwf.tnodup (List.of_mem_zip hq).1
        simp only
        rw [(hdt q.1 T hne hT).1, hwf.tshape _ (mem_of_dget_eq_some _ hT), hrow]
      · obtain ⟨j, d, p, rfl, _, _⟩ := hO a ha
        rfl
    · intro p hp q hq hpq
      obtain ⟨b, hb⟩ := dims_bond_gen hc hO (l := p.1) (d := p.2) hp
      have h1 := hc.dims hwf hv hdt hO (l := p.1) (d := p.2) hp hb
      have h2 := hc.dims hwf hv hdt hO (l := q.1) (d := q.2) hq (by rw [← hpq]; exact hb)
      rw [h1, h2]
    · intro l hl
      obtain ⟨k, hk, rfl⟩ := List.getElem_of_mem hl
      by_cases hany : e.tidx.any (·.contains e.idxout[k]) = true
      · rw [List.any_eq_true] at hany
        obtain ⟨row, hrow, hcon⟩ := hany
        have hlm := List.contains_iff_mem.mp hcon
        obtain ⟨i, hi, rfl⟩ := List.getElem_of_mem hrow
        have hi' : i < e.tids.length := by rw [← hc.len]; exact hi
        have hq : (e.tids[i], e.tidx[i]) ∈ e.tids.zip e.tidx := by
          rw [List.mem_iff_getElem?]
          exact ⟨i, by rw [List.getElem?_zip_eq_some, List.getElem?_eq_getElem hi, List.getElem?_eq_getElem hi']; exact ⟨rfl, rfl⟩⟩
        obtain ⟨T, hT, hrl⟩ := hc.rows _ hq
        simp only at hT hrl
        have hne : e.tids[i] ≠ -1 := hc.tid_ne hwf.tnodup (List.getElem_mem hi')
        obtain ⟨a, ha, hae⟩ := List.getElem_of_mem hlm
        have hsh : a < (dataOfTN tn e.tids[i]).shape.length := by
          rw [(hdt _ T hne hT).1, hwf.tshape _ (mem_of_dget_eq_some _ hT), hrl]; exact ha
        apply List.mem_map.mpr
        refine ⟨(e.idxout[k], (dataOfTN tn e.tids[i]).shape[a]), ?_, rfl⟩
        rw [mem_einsumDims_eArgs]
        left
        refine ⟨_, hq, ?_⟩
        rw [List.mem_iff_getElem?]
        exact ⟨a, by rw [List.getElem?_zip_eq_some, List.getElem?_eq_getElem ha, List.getElem?_eq_getElem hsh, hae]; exact ⟨rfl, rfl⟩⟩
      · have hval : onesF k = some (DT.ofFn [v.shape[e.axesMap.idxOf k]?.getD 0] (fun _ => (1 : α)), [e.idxout[k]]) := by
          simp only [honesF]
          have hkk : e.idxout[k]! = e.idxout[k] := by simp [hk]
          rw [hkk, if_neg hany]
        have hin : (DT.ofFn [v.shape[e.axesMap.idxOf k]?.getD 0] (fun _ => (1 : α)), [e.idxout[k]]) ∈ ones := by
          rw [hones, List.mem_filterMap]
          exact ⟨k, List.mem_range.mpr hk, hval⟩
        apply List.mem_map.mpr
        refine ⟨(e.idxout[k], v.shape[e.axesMap.idxOf k]?.getD 0), ?_, rfl⟩
        rw [mem_einsumDims_eArgs]
        right
        exact ⟨_, hin, by simp [DT.ofFn]⟩
  obtain ⟨r, hr⟩ := hE
  -- at least one operand
  have hne : (eArgs (dataOfTN tn) e ++ ones).isEmpty = false := by
    obtain ⟨t, ht, htne⟩ := hreal
    have hns : (isort (dkeys tn.net.tensors)).Nodup := (isort_perm _).nodup_iff.mpr hwf.tnodup
    have htm : t ∈ e.tids := by
      rw [hc.tids, hns.mem_erase_iff]
      exact ⟨htne, mem_isort.mpr ht⟩
    have h1 : 0 < e.tids.length := List.length_pos_of_mem htm
    have h2 : 0 < (eArgs (dataOfTN tn) e).length := by
      simp only [eArgs, List.length_map, List.length_zip, hc.len, Nat.min_self]; exact h1
    cases hea : eArgs (dataOfTN tn) e with
    | nil => rw [hea] at h2; simp at h2
    | cons x xs => rfl
  refine ⟨r, e.axesMap, ?_⟩
  unfold contractEinsum
  simp only [bind, Except.bind, he]
  have hshape : netShape tn.net = .ok v.shape := by
    simp [netShape, virt, hv, bind, Except.bind, pure, Except.pure]
  generalize hm1 : List.mapM (m := Except TNet.Err) (β := DT α × List Nat) _ (e.tids.zip e.tidx) = res1
  have hres1 : res1 = .ok (eArgs (dataOfTN tn) e) := by
    rw [← hm1]
    unfold eArgs
    apply mapM_ok_of_forall
    intro q hq
    obtain ⟨T, hT, _⟩ := hc.rows q hq
    have hne : q.1 ≠ -1 := hc.tid_ne hwf.tnodup (List.of_mem_zip hq).1
    have hm := mem_of_dget_eq_some _ hT
    have hne' : T.tid ≠ -1 := by rw [hwf.tkey _ hm]; exact hne
    obtain ⟨r0, d, hr0, hd, _⟩ := (isConsistentDataTN_ok hcd).2 _ hm hne'
    simp only at hr0 hd
    have hb : (q.1 == -1) = false := by simpa using hne
    simp [hT, hr0, hd, pure, Except.pure, dataOfTN, hb]
  rw [hres1, hshape]
  simp only
  generalize hm2 : List.filterMapM (m := Except TNet.Err) (β := DT α × List Nat) _ (List.range e.idxout.length) = res2
  have hres2 : res2 = .ok ones := by
    rw [← hm2, hones]
    apply filterMapM_ok_of_forall
    intro k hk
    have hk' := List.mem_range.mp hk
    simp only [honesF]
    by_cases hany : e.tidx.any (·.contains e.idxout[k]!) = true
    · rw [if_pos hany, if_pos hany]; rfl
    · have hmem := hsurj k hk'
      have hlt := List.idxOf_lt_length_of_mem hmem
      have hps : e.axesMap.idxOf k < v.shape.length := by rw [hvlen, ← hc.amlen]; exact hlt
      rw [if_neg hany, if_neg hany]
      simp [indexOf?, hmem, List.getElem?_eq_getElem hps, pure, Except.pure]
  rw [hres2]
  simp only [hne, Bool.false_eq_true, if_false]
  rw [hr]
  rfl

end Einsum

end Qib.CircuitNet
