import QibProofs.Lemmas.Embed
import Mathlib.Algebra.BigOperators.Group.List.Basic
open Matrix
/-!
Helper lemmas for C04/C05: the public path `as_circuit_matrix` through the algorithmic mirror, wire lookup,
the left-multiplication fold of `Circuit.as_matrix`, builder histories. No property statements here.
-/
namespace Qib.Embed

/-! ### the public path `Gate.as_circuit_matrix(fields)` -/

section publicPath
variable {α : Type} [AddMonoid α] [DecidableEq α]

/-- what a successful `as_circuit_matrix` call guarantees -/
structure GateOK (fields : List FieldSpec) (ps : List ParticleSpec) (d : Nat) : Prop where
  localDim : ∀ f ∈ fields, f.localDim = 2
  bound : ps ≠ []
  found : ∀ p ∈ ps, 0 ≤ mapParticleToWire fields p
  nodup : (ps.map fun p => (mapParticleToWire fields p).toNat).Nodup
  inRange : ∀ p ∈ ps, (mapParticleToWire fields p).toNat < numWires fields
  dim : d = 2 ^ ps.length

/-- the wires of the particles (natural numbers; meaningful when all particles are found) -/
def wiresOfParticles (fields : List FieldSpec) (ps : List ParticleSpec) : List Nat :=
  ps.map fun p => (mapParticleToWire fields p).toNat

omit [DecidableEq α] in
theorem distributeToWires_ok_imp {n : Nat} {iw : List Nat} {r c : Nat} {coo out : Coo α}
    (h : distributeToWires n iw r c coo = .ok out) :
    (iw.Nodup ∧ ∀ w ∈ iw, w < n) ∧ r = 2 ^ iw.length ∧ c = 2 ^ iw.length := by
  constructor
  · by_contra hc
    rw [distribute_reject n iw r c coo hc] at h; cases h
  · by_contra hc
    rw [distribute_reject_shape n iw r c coo hc] at h; cases h

theorem gateCircuitMatrix_spec (fields : List FieldSpec) (ps : List ParticleSpec) (d : Nat) (g : Nat → Nat → α)
    (n' : Nat) (out : Coo α) (h : gateCircuitMatrix fields ps d g = .ok (n', out)) :
    n' = numWires fields ∧ GateOK fields ps d ∧
      ((out.map fun e => (e.1, e.2.1)).Nodup) ∧
      ∀ R C, R < 2 ^ numWires fields → C < 2 ^ numWires fields →
        denote out R C = embedEntry (numWires fields) (wiresOfParticles fields ps) g R C := by
  unfold gateCircuitMatrix at h
  by_cases h1 : fields.any (fun f => f.localDim != 2) = true
  · simp [h1] at h
  by_cases h2 : ps.isEmpty = true
  · simp [h1, h2] at h
  by_cases h3 : (ps.map (mapParticleToWire fields)).any (· < 0) = true
  · simp [h1, h2, h3] at h
  simp only [h1, h2, h3, Bool.false_eq_true, if_false, distributeToWiresI] at h
  simp only [List.map_map] at h
  have h1' : ∀ x ∈ fields, x.localDim = 2 := by simpa using h1
  have h3' : ∀ p ∈ ps, 0 ≤ mapParticleToWire fields p := by simpa using h3
  cases hd : distributeToWires (numWires fields) (List.map (Int.toNat ∘ mapParticleToWire fields) ps) d d (cooOfDense d g) with
  | error e => rw [hd] at h; cases h
  | ok o =>
    rw [hd] at h
    simp only [Except.ok.injEq, Prod.mk.injEq] at h
    obtain ⟨rfl, rfl⟩ := h
    have hw : List.map (Int.toNat ∘ mapParticleToWire fields) ps = wiresOfParticles fields ps := rfl
    rw [hw] at hd
    obtain ⟨⟨hnd, hr⟩, hdim, _⟩ := distributeToWires_ok_imp hd
    have hlen : (wiresOfParticles fields ps).length = ps.length := by simp [wiresOfParticles]
    refine ⟨rfl, ⟨?_, ?_, ?_, hnd, ?_, by rw [hdim, hlen]⟩, ?_, ?_⟩
    · exact h1'
    · intro hc; simp [hc] at h2
    · exact h3'
    · intro p hp
      exact hr _ (List.mem_map.mpr ⟨p, hp, rfl⟩)
    · have hcoo : ∀ e ∈ cooOfDense d g, e.1 < 2 ^ (wiresOfParticles fields ps).length ∧
          e.2.1 < 2 ^ (wiresOfParticles fields ps).length := by
        intro e he; rw [← hdim]; exact ⟨(mem_cooOfDense he).1, (mem_cooOfDense he).2.1⟩
      have hb := distribute_eq_blocks hnd hr (cooOfDense d g)
      rw [← hdim, hd] at hb
      simp only [Except.ok.injEq] at hb
      rw [hb]
      exact blocks_nodup hnd hr _ hcoo (cooOfDense_pos_nodup d g)
    · have hcoo : ∀ e ∈ cooOfDense d g, e.1 < 2 ^ (wiresOfParticles fields ps).length ∧
          e.2.1 < 2 ^ (wiresOfParticles fields ps).length := by
        intro e he; rw [← hdim]; exact ⟨(mem_cooOfDense he).1, (mem_cooOfDense he).2.1⟩
      obtain ⟨out', ho, hden⟩ := distribute_denote hnd hr (cooOfDense d g) hcoo
      rw [← hdim, hd] at ho
      simp only [Except.ok.injEq] at ho
      subst ho
      intro R C hR hC
      rw [hden R C hR hC]
      unfold embedEntry
      by_cases ha : agreeOff (numWires fields) (wiresOfParticles fields ps) R C = true
      · simp only [ha, if_true]
        apply denote_cooOfDense <;> rw [hdim] <;> exact gateIdx_lt _ _ _
      · simp [ha]

end publicPath


/-! ### wire lookup -/

theorem mapParticleToWireGo_found (pf : Nat) (pidx : Int) (pre post : List FieldSpec) (f : FieldSpec)
    (hpre : ∀ g ∈ pre, g.id ≠ pf) (hf : f.id = pf) (i : Int) :
    mapParticleToWireGo pf pidx i (pre ++ f :: post) = i + ((pre.map fun g => (g.nsites : Int)).sum) + pidx := by
  induction pre generalizing i with
  | nil => simp [mapParticleToWireGo, hf]
  | cons g pre ih =>
    have hg : g.id ≠ pf := hpre g (by simp)
    have hg' : (pf == g.id) = false := by simp [Ne.symm hg]
    simp only [List.cons_append, mapParticleToWireGo, hg', Bool.false_eq_true, if_false, List.map_cons, List.sum_cons]
    rw [ih (fun g' hg'' => hpre g' (by simp [hg'']))]
    ring

theorem mapParticleToWireGo_notfound (pf : Nat) (pidx : Int) (fields : List FieldSpec)
    (h : ∀ g ∈ fields, g.id ≠ pf) (i : Int) : mapParticleToWireGo pf pidx i fields = -1 := by
  induction fields generalizing i with
  | nil => rfl
  | cons g fs ih =>
    have hg' : (pf == g.id) = false := by simp [Ne.symm (h g (by simp))]
    simp only [mapParticleToWireGo, hg', Bool.false_eq_true, if_false]
    exact ih (fun g' hg'' => h g' (by simp [hg''])) _

theorem numWires_eq_sum (fields : List FieldSpec) : numWires fields = (fields.map (·.nsites)).sum := by
  unfold numWires
  rw [List.sum_eq_foldl]

/-! ### the left-multiplication fold -/

section fold
variable {M : Type} [Monoid M]

theorem foldl_leftmul (gs : List M) (a : M) : gs.foldl (fun acc h => h * acc) a = gs.reverse.prod * a := by
  induction gs generalizing a with
  | nil => simp
  | cons g gs ih => simp [ih, mul_assoc]

theorem circuitMatOf_cons (g : M) (gs : List M) :
    circuitMatOf (· * ·) (g :: gs) = some ((g :: gs).reverse.prod) := by
  simp [circuitMatOf, foldl_leftmul]

theorem circuitMatOf_eq_some_iff (gs : List M) (P : M) :
    circuitMatOf (· * ·) gs = some P ↔ gs ≠ [] ∧ P = gs.reverse.prod := by
  cases gs with
  | nil => simp [circuitMatOf]
  | cons g gs => rw [circuitMatOf_cons]; simp [eq_comm]

end fold

/-- a multiplicative map commutes with the fold -/
theorem circuitMatOf_map {A B : Type} (mulA : A → A → A) (mulB : B → B → B) (φ : A → B)
    (hφ : ∀ x y, φ (mulA x y) = mulB (φ x) (φ y)) (gs : List A) :
    (circuitMatOf mulA gs).map φ = circuitMatOf mulB (gs.map φ) := by
  cases gs with
  | nil => rfl
  | cons g gs =>
    simp only [circuitMatOf, Option.map_some, List.map_cons, Option.some.injEq]
    induction gs generalizing g with
    | nil => rfl
    | cons h gs ih => simp only [List.foldl_cons, List.map_cons]; rw [ih, hφ]

/-! ### `Circuit.as_matrix` = fold over the gate matrices, errors in order -/

section circ
variable {α : Type} [Add α] [Zero α] [Mul α] [DecidableEq α]

/-- the matrices of the gates of an instruction list (control instructions skipped), first error wins -/
def gateMats (fields : List FieldSpec) : List (Instr α) → Except Err (List (DMat α (2 ^ numWires fields)))
  | [] => .ok []
  | .ctrl :: is => gateMats fields is
  | .gate ps d g :: is =>
    match placedMat fields ps d g with
    | .error e => .error e
    | .ok M => match gateMats fields is with
      | .error e => .error e
      | .ok Ms => .ok (M :: Ms)

/-- the accumulator of the loop after the matrices `Ms` -/
def accAfter {N : Nat} (acc : Option (DMat α N)) (Ms : List (DMat α N)) : Option (DMat α N) :=
  Ms.foldl (fun a M => some (match a with | none => M | some A => M.mul A)) acc

theorem circuitMatrixLoop_spec (fields : List FieldSpec) (instrs : List (Instr α))
    (acc : Option (DMat α (2 ^ numWires fields))) :
    circuitMatrixLoop fields acc instrs =
      match gateMats fields instrs with
      | .error e => .error e
      | .ok Ms => .ok (accAfter acc Ms) := by
  induction instrs generalizing acc with
  | nil => simp [circuitMatrixLoop, gateMats, accAfter]
  | cons i is ih =>
    cases i with
    | ctrl => simp only [circuitMatrixLoop, circuitMatrixStep, gateMats]; exact ih acc
    | gate ps d g =>
      simp only [circuitMatrixLoop, circuitMatrixStep, gateMats]
      cases hp : placedMat fields ps d g with
      | error e => simp
      | ok M =>
        simp only [ih]
        cases hg : gateMats fields is with
        | error e => simp
        | ok Ms => simp only [accAfter, List.foldl_cons]; cases acc <;> rfl

omit [DecidableEq α] in
theorem accAfter_none {N : Nat} (Ms : List (DMat α N)) : accAfter none Ms = circuitMatOf DMat.mul Ms := by
  cases Ms with
  | nil => rfl
  | cons M Ms =>
    simp only [accAfter, List.foldl_cons, circuitMatOf]
    induction Ms generalizing M with
    | nil => rfl
    | cons M' Ms ih => simp only [List.foldl_cons]; exact ih _

/-- `Circuit.as_matrix` succeeds exactly when the list is non-empty, every gate embeds, and at least one gate is
present; its value is the left-multiplication fold of the gate matrices. -/
theorem circuitMatrix_eq_ok_iff (fields : List FieldSpec) (instrs : List (Instr α))
    (P : DMat α (2 ^ numWires fields)) :
    circuitMatrix fields instrs = .ok P ↔
      ∃ Ms, gateMats fields instrs = .ok Ms ∧ circuitMatOf DMat.mul Ms = some P := by
  unfold circuitMatrix
  by_cases he : instrs.isEmpty = true
  · have : instrs = [] := by simpa using he
    subst this
    simp [gateMats, circuitMatOf]
  · simp only [he, Bool.false_eq_true, if_false, circuitMatrixLoop_spec, accAfter_none]
    cases hg : gateMats fields instrs with
    | error e => simp
    | ok Ms =>
      cases hc : circuitMatOf DMat.mul Ms with
      | none => simp [hc]
      | some Q => simp [hc]

end circ

/-! ### builder histories -/

section hist
variable {G : Type}

theorem step_circ_frame (s : BState G) (o : Op G) :
    ∃ pre post, (step s o).circ = pre ++ s.circ ++ post ∧
      ∀ c', (step { s with circ := c' } o).circ = pre ++ c' ++ post ∧
        (step { s with circ := c' } o).objs = (step s o).objs := by
  cases o with
  | append h => exact ⟨[], lookup s.objs [h], by simp [step], fun c' => by simp [step]⟩
  | prepend h => exact ⟨lookup s.objs [h], [], by simp [step], fun c' => by simp [step]⟩
  | appendCircuit hs => exact ⟨[], lookup s.objs hs, by simp [step], fun c' => by simp [step]⟩
  | prependCircuit hs => exact ⟨lookup s.objs hs, [], by simp [step], fun c' => by simp [step]⟩
  | mutate h v => exact ⟨[], [], by simp [step], fun c' => by simp [step]⟩

/-- whatever the caller does later (further builder calls, mutations of any of its objects), the gates already in
the circuit stay in it unchanged, as one contiguous block -/
theorem foldl_step_frame (ops : List (Op G)) (s : BState G) :
    ∃ pre post, (ops.foldl step s).circ = pre ++ s.circ ++ post ∧
      ∀ c', (ops.foldl step { s with circ := c' }).circ = pre ++ c' ++ post := by
  induction ops generalizing s with
  | nil => exact ⟨[], [], by simp, fun c' => by simp⟩
  | cons o ops ih =>
    obtain ⟨p1, q1, h1, h1'⟩ := step_circ_frame s o
    obtain ⟨p2, q2, h2, h2'⟩ := ih (step s o)
    refine ⟨p2 ++ p1, q1 ++ q2, ?_, fun c' => ?_⟩
    · simp only [List.foldl_cons, h2, h1, List.append_assoc]
    · simp only [List.foldl_cons]
      have e : step { s with circ := c' } o = { step s o with circ := p1 ++ c' ++ q1 } := by
        have := h1' c'
        cases hs : step { s with circ := c' } o
        rw [hs] at this
        simp only at this
        rw [this.1, this.2]
      rw [e, h2' (p1 ++ c' ++ q1)]
      simp only [List.append_assoc]

end hist

/-! ### products of isometries -/

section norm
variable {α : Type*} [CommRing α] [StarRing α] {n : ℕ}

/-- a gate placed on wires of an `n`-wire register (bit-function indices) -/
structure Placed (α : Type*) (n : ℕ) where
  m : ℕ
  iw : Fin m ↪ Fin n
  g : Matrix (Fin m → Bool) (Fin m → Bool) α

def Placed.mat (p : Placed α n) : Matrix (Fin n → Bool) (Fin n → Bool) α := embed p.iw p.g

theorem prod_isometry {ι : Type*} [Fintype ι] [DecidableEq ι] (Us : List (Matrix ι ι α))
    (hu : ∀ U ∈ Us, Uᴴ * U = 1) : (Us.reverse.prod)ᴴ * Us.reverse.prod = 1 := by
  induction Us with
  | nil => simp
  | cons U Us ih =>
    have h1 := ih (fun V hV => hu V (by simp [hV]))
    have h2 := hu U (by simp)
    simp only [List.reverse_cons, List.prod_append, List.prod_cons, List.prod_nil, mul_one,
      Matrix.conjTranspose_mul]
    calc Uᴴ * (Us.reverse.prod)ᴴ * (Us.reverse.prod * U)
        = Uᴴ * ((Us.reverse.prod)ᴴ * Us.reverse.prod) * U := by simp only [Matrix.mul_assoc]
      _ = 1 := by rw [h1, Matrix.mul_one, h2]

end norm

end Qib.Embed
