import QibProofs.Lemmas.EncodeLadder
/-!
Encoders (C11, C12): adjoints of the encoded ladder operators; the parity strings are not the Jordan-Wigner
strings. Helper lemmas only.
-/
set_option linter.unusedVariables false
set_option linter.unusedSimpArgs false
open Complex Matrix
namespace Qib.Encode
open Qib.Pauli

theorem mat_conjTranspose_of_q0 (n : ℕ) (P : PS) (h : P.q = 0) : (P.mat n)ᴴ = P.mat n := by
  rw [mat_conjTranspose, mat_eq_smul_body, h]; simp

/-- the encoded creation operator is the adjoint of the encoded annihilation operator -/
theorem encLadder_adjoint (enc : Enc) (L i : ℕ) : (encLadder enc L i false)ᴴ = encLadder enc L i true := by
  rw [encLadder_create, encLadder_annihil, Matrix.conjTranspose_smul, Matrix.conjTranspose_add,
    Matrix.conjTranspose_smul, mat_conjTranspose_of_q0 L _ (show (s0 enc L i).q = 0 from rfl),
    mat_conjTranspose_of_q0 L _ (show (tS enc L i).q = 0 from rfl)]
  simp [sub_eq_add_neg]

theorem xf_ne_of (P R : PS) (k : ℕ) (h : P.xf k ≠ R.xf k) : P ≠ R := fun e => h (by rw [e])
theorem zf_ne_of (P R : PS) (k : ℕ) (h : P.zf k ≠ R.zf k) : P ≠ R := fun e => h (by rw [e])

/-- on two or more sites no parity string pair is the Jordan-Wigner pair of the same ladder operator: already the first
strings differ (at the last site in `x`, or for `i = L-1` at site `L-2` in `z`) -/
theorem parity_s0_ne_jw (L i : ℕ) (hL : 2 ≤ L) (hi : i < L) : s0 .parity L i ≠ s0 .jw L i := by
  by_cases h : i = L - 1
  · apply zf_ne_of _ _ (L - 2)
    rw [par_s0_zf L i (L - 2) hi (by omega), jw_s0_zf L i (L - 2) hi (by omega)]
    have h1 : L - 2 + 1 = i := by omega
    have h2 : ¬ i < L - 2 := by omega
    simp [h1, h2]
  · apply xf_ne_of _ _ (L - 1)
    rw [par_s0_xf L i (L - 1) hi (by omega), jw_s0_xf L i (L - 1) hi (by omega)]
    have h1 : i ≤ L - 1 := by omega
    have h2 : ¬ L - 1 = i := by omega
    simp [h1, h2]

theorem parity_pair_ne_jw (L i : ℕ) (hL : 2 ≤ L) (hi : i < L) (create : Bool) :
    ladderPair .parity L i create ≠ ladderPair .jw L i create := by
  intro h
  exact parity_s0_ne_jw L i hL hi (congrArg Prod.fst h)

/-! ### the executable reference ladder entries (driver) are the entries of `ladder` -/

theorem ladderSite_eq (i : ℕ) (create : Bool) (k : ℕ) (rb cb : Bool) :
    ((ladderSite i create k rb cb : ℤ) : ℂ) =
      (if k < i then (1 : Matrix Bool Bool ℂ) else if k = i then (if create then createM else annihilM) else pauliZ) rb cb := by
  unfold ladderSite
  by_cases h1 : k < i
  · simp only [h1, if_true, Matrix.one_apply]; split <;> simp
  · by_cases h2 : k = i
    · simp only [h1, h2, if_true, if_false]
      cases create <;> cases rb <;> cases cb <;> simp [createM, annihilM]
    · simp only [h1, h2, if_false]
      cases rb <;> cases cb <;> simp [pauliZ]

/-- bridge: the dense entry computed by the driver at the flat indices of `r`, `c` (site 0 most significant) is the entry of
the reference ladder matrix at the bit functions -/
theorem ladderEntry_eq (L i : ℕ) (create : Bool) (r c : Fin L → Bool) :
    ((ladderEntry L i create (natOfBits L r) (natOfBits L c) : ℤ) : ℂ) = ladder L i create r c := by
  simp only [ladder, tens, ladderEntry]
  rw [Int.cast_list_prod, List.map_map]
  have h := Fin.prod_univ_eq_prod_range
    (fun k => ((ladderSite i create k (bitAt L k (natOfBits L r)) (bitAt L k (natOfBits L c)) : ℤ) : ℂ)) L
  rw [← list_range_prod] at h
  simp only [Function.comp_def]
  rw [← h]
  apply Finset.prod_congr rfl
  intro k _
  rw [bitAt_natOfBits, bitAt_natOfBits, ladderSite_eq]

end Qib.Encode
