import QibProofs.Lemmas.CompactBridge
import QibProofs.Lemmas.PauliFlags
/-!
C13 helper lemmas, part 9: every (string, weight) pair of the operator returned by the model of
`compact_encode_field_operator` is *good*: the weighted string answers Hermitian, has the length of the encoding
register, and commutes with the loop product of every face. The invariant is carried through merge-on-insert
(`PauliOp.add`) and through the monadic loops of the encoder.
-/
set_option linter.unusedSimpArgs false
namespace Qib.Compact
open Qib.Pauli Qib.Lattice QibGen.Pauli

/-- what is proved about each weighted string of the encoded operator -/
def Good (n0 n1 : Nat) (e : PS × GQ) : Prop :=
  wpsIsHermitian e.1 e.2 = true ∧ e.1.HasLen (ofcNsites n0 n1) ∧
    ∀ x y, FaceIn n0 n1 x y → anti (loopStr n0 n1 x y) e.1 = false

def AllGood (n0 n1 : Nat) (op : PauliOp GQ) : Prop := ∀ e ∈ op, Good n0 n1 e

theorem allGood_nil (n0 n1 : Nat) : AllGood n0 n1 [] := fun _ h => by cases h

theorem wpsHerm_add (P : PS) (v w : GQ) (hv : wpsIsHermitian P v = true) (hw : wpsIsHermitian P w = true) :
    wpsIsHermitian P (v + w) = true := by
  unfold wpsIsHermitian at *
  simp only [beq_iff_eq] at *
  generalize GQ.ofInts (phaseWeightedHerm.getD P.q.val (0, 0)) = a at *
  have e : (a * (v + w)).im = (a * v).im + (a * w).im := by
    show a.re * (v + w).im + a.im * (v + w).re = (a.re * v.im + a.im * v.re) + (a.re * w.im + a.im * w.re)
    rw [GQ.add_def]; ring
  rw [e, hv, hw]; simp

/-- merge-on-insert keeps every entry good -/
theorem allGood_add (n0 n1 : Nat) (op : PauliOp GQ) (P : PS) (w : GQ) (h : AllGood n0 n1 op) (hP : Good n0 n1 (P, w)) :
    AllGood n0 n1 (op.add P w) := by
  induction op with
  | nil =>
    intro e he
    simp only [PauliOp.add, List.mem_singleton] at he
    subst he; exact hP
  | cons a rest ih =>
    obtain ⟨Q, v⟩ := a
    have ha : Good n0 n1 (Q, v) := h _ (by simp)
    have hr : AllGood n0 n1 rest := fun e he => h e (by simp [he])
    by_cases hq : Q = P
    · subst hq
      intro e he
      simp only [PauliOp.add, if_true, List.mem_cons] at he
      rcases he with rfl | he
      · exact ⟨wpsHerm_add Q v w ha.1 hP.1, ha.2.1, ha.2.2⟩
      · exact hr e he
    · intro e he
      simp only [PauliOp.add, if_neg hq, List.mem_cons] at he
      rcases he with rfl | he
      · exact ha
      · exact ih hr e he

/-! ### the three kinds of inserted strings -/

theorem wpsHerm_real (P : PS) (r : Rat) (hq : P.q = 0) : wpsIsHermitian P (realW r) = true := by
  unfold wpsIsHermitian
  rw [hq]
  simp only [phaseWeightedHerm, beq_iff_eq]
  show (1 : Rat) * 0 + 0 * r = 0
  ring

theorem wpsHerm_imag (P : PS) (r : Rat) (hq : P.q.val % 2 = 1) : wpsIsHermitian P (imagW r) = true := by
  unfold wpsIsHermitian
  obtain ⟨z, x, q⟩ := P
  simp only at hq
  simp only [beq_iff_eq]
  fin_cases q
  · simp at hq
  · show (((0 : Int) : Rat)) * r + (((-1 : Int) : Rat)) * 0 = 0
    simp
  · simp at hq
  · show (((0 : Int) : Rat)) * r + (((1 : Int) : Rat)) * 0 = 0
    simp

theorem vertexStr_q (n0 n1 x y : Nat) : (vertexStr n0 n1 x y).q = 0 := rfl

theorem good_vertex (n0 n1 x y : Nat) (hx : x < n0) (hy : y < n1) (r : Rat) :
    Good n0 n1 (vertexStr n0 n1 x y, realW r) :=
  ⟨wpsHerm_real _ r (vertexStr_q n0 n1 x y), vertexStr_hasLen n0 n1 x y, fun _ _ hf => anti_loop_vertex hf hx hy⟩

theorem good_identity (n0 n1 : Nat) (r : Rat) : Good n0 n1 (PS.identity (ofcNsites n0 n1), realW r) :=
  ⟨wpsHerm_real _ r rfl, identity_hasLen _, fun _ _ _ => anti_identity_right _ _⟩

/-- `E_ij · V_k` for an endpoint `k` of the edge, with an imaginary weight -/
theorem good_edge_vertex (n0 n1 ix iy jx jy a b : Nat) (h : EdgeOk n0 n1 ix iy jx jy) (ha : a < n0) (hb : b < n1)
    (hab : (a = ix ∧ b = iy) ∨ (a = jx ∧ b = jy)) (r : Rat) :
    Good n0 n1 ((edgeStr n0 n1 ix iy jx jy).mul (vertexStr n0 n1 a b), imagW r) := by
  have lE := edgeStr_hasLen h
  have lV := vertexStr_hasLen n0 n1 a b
  have hanti : anti (edgeStr n0 n1 ix iy jx jy) (vertexStr n0 n1 a b) = true := by
    rw [anti_edge_vertex _ _ _ _ _ _ _ _ h ha hb]; simpa using hab
  have hq := mul_q_parity (edgeStr n0 n1 ix iy jx jy) (vertexStr n0 n1 a b) (by rw [lE.1, lV.1]) (by rw [lE.2, lV.2])
  rw [hanti, vertexStr_q] at hq
  have hE := edgeStr_q_even h
  have hodd : ((edgeStr n0 n1 ix iy jx jy).mul (vertexStr n0 n1 a b)).q.val % 2 = 1 := by
    simp only [Bool.toNat_true, Fin.val_zero, Nat.add_zero] at hq
    omega
  refine ⟨wpsHerm_imag _ r hodd, mul_hasLen _ _ _ lE lV, fun x y hf => ?_⟩
  rw [anti_mul_right _ _ _ (by rw [lE.1, lV.1]) (by rw [lE.2, lV.2]), anti_loop_edge hf h, anti_loop_vertex hf ha hb]
  rfl

/-! ### the loops of the encoder -/

theorem foldlM_inv {α β ε : Type} (f : β → α → Except ε β) (Inv : β → Prop)
    (hf : ∀ b a b', Inv b → f b a = .ok b' → Inv b') :
    ∀ (l : List α) (b b' : β), Inv b → l.foldlM f b = .ok b' → Inv b' := by
  intro l
  induction l with
  | nil => intro b b' hb h; simp only [List.foldlM_nil, pure, Except.pure] at h; cases h; exact hb
  | cons a l ih =>
    intro b b' hb h
    simp only [List.foldlM_cons, bind, Except.bind] at h
    cases hfa : f b a with
    | error e => rw [hfa] at h; cases h
    | ok b1 => rw [hfa] at h; exact ih b1 b' (hf b a b1 hb hfa) h

theorem div_mod_lt {n0 n1 i : Nat} (hi : i < n0 * n1) : i / n1 < n0 ∧ i % n1 < n1 := by
  have hn1 : 0 < n1 := by
    rcases Nat.eq_zero_or_pos n1 with h | h
    · subst h; simp at hi
    · exact h
  exact ⟨(Nat.div_lt_iff_lt_mul hn1).mpr hi, Nat.mod_lt _ hn1⟩

theorem onsiteStep_good (n0 n1 : Nat) (c : List (List Rat)) (st st' : PauliOp GQ × Rat) (i : Nat)
    (h : AllGood n0 n1 st.1) (hs : onsiteStep n0 n1 c st i = .ok st') : AllGood n0 n1 st'.1 := by
  unfold onsiteStep at hs
  by_cases hb : ∃ x y : Nat, (((i / n1 : Nat) : Int), ((i % n1 : Nat) : Int)) = ((x : Int), (y : Int)) ∧ x < n0 ∧ y < n1
  · obtain ⟨x, y, e, hx, hy⟩ := hb
    simp only [Prod.mk.injEq, Int.natCast_inj] at e
    obtain ⟨rfl, rfl⟩ := e
    rw [vertexOp_ok hx hy] at hs
    simp only [bind, Except.bind, pure, Except.pure] at hs
    cases hs
    exact allGood_add _ _ _ _ _ h (good_vertex _ _ _ _ hx hy _)
  · rw [vertexOp_err _ _ _ hb] at hs
    simp only [bind, Except.bind] at hs
    cases hs

theorem hopStep_good (n0 n1 : Nat) (c : List (List Rat)) (op op' : PauliOp GQ) (ij : Nat × Nat)
    (h : AllGood n0 n1 op) (hs : hopStep n0 n1 c op ij = .ok op') : AllGood n0 n1 op' := by
  unfold hopStep at hs
  simp only [bind, Except.bind, pure, Except.pure] at hs
  by_cases h0 : (cget c ij.1 ij.2 == 0) = true
  · rw [if_pos h0] at hs; cases hs; exact h
  · rw [if_neg h0] at hs
    by_cases hadj : (!gridAdj [n0, n1] [false, false] ij.1 ij.2) = true
    · rw [if_pos hadj] at hs
      simp only [throw, throwThe, MonadExceptOf.throw] at hs
      cases hs
    · rw [if_neg hadj] at hs
      cases hE : edgeOp n0 n1 (((ij.1 / n1 : Nat) : Int), ((ij.1 % n1 : Nat) : Int))
          (((ij.2 / n1 : Nat) : Int), ((ij.2 % n1 : Nat) : Int)) with
      | error e => rw [hE] at hs; cases hs
      | ok E =>
        rw [hE] at hs
        obtain ⟨ix, iy, jx, jy, e1, e2, hok, rfl⟩ := edgeOp_ok_imp _ _ _ _ _ hE
        simp only [Prod.mk.injEq, Int.natCast_inj] at e1 e2
        obtain ⟨e1a, e1b⟩ := e1
        obtain ⟨e2a, e2b⟩ := e2
        rw [e1a, e1b, e2a, e2b] at hs
        obtain ⟨h1, h2, h3, h4, hnn⟩ := hok
        have lE := edgeStr_hasLen (n0 := n0) (n1 := n1) ⟨h1, h2, h3, h4, hnn⟩
        rw [vertexOp_ok h1 h2, vertexOp_ok h3 h4] at hs
        simp only [mulE_ok _ _ _ lE (vertexStr_hasLen n0 n1 ix iy), mulE_ok _ _ _ lE (vertexStr_hasLen n0 n1 jx jy),
          liftP] at hs
        cases hs
        exact allGood_add _ _ _ _ _
          (allGood_add _ _ _ _ _ h (good_edge_vertex _ _ _ _ _ _ _ _ ⟨h1, h2, h3, h4, hnn⟩ h3 h4 (Or.inr ⟨rfl, rfl⟩) _))
          (good_edge_vertex _ _ _ _ _ _ _ _ ⟨h1, h2, h3, h4, hnn⟩ h1 h2 (Or.inl ⟨rfl, rfl⟩) _)

theorem encodeTerm_good (n0 n1 : Nat) (op op' : PauliOp GQ) (t : Term)
    (h : AllGood n0 n1 op) (hs : encodeTerm n0 n1 op t = .ok op') : AllGood n0 n1 op' := by
  unfold encodeTerm at hs
  cases h1 : t.hop <;> cases h2 : t.isFloat <;> cases h3 : allcloseT (n0 * n1) t.coeffs <;>
    simp only [h1, h2, h3, bind, Except.bind, throw, throwThe, MonadExceptOf.throw, Bool.not_true, Bool.not_false,
      if_true, if_false, Bool.false_eq_true, pure, Except.pure, reduceCtorEq] at hs
  cases hf : List.foldlM (onsiteStep n0 n1 t.coeffs) (op, (0 : Rat)) (List.range (n0 * n1)) with
  | error e => rw [hf] at hs; cases hs
  | ok st =>
    rw [hf] at hs
    have g1 : AllGood n0 n1 st.1 :=
      foldlM_inv (onsiteStep n0 n1 t.coeffs) (fun st => AllGood n0 n1 st.1)
        (fun b a b' hb hfa => onsiteStep_good n0 n1 t.coeffs b b' a hb hfa) _ _ _ h hf
    have g2 : AllGood n0 n1 (st.1.add (PS.identity (ofcNsites n0 n1)) (realW st.2)) :=
      allGood_add _ _ _ _ _ g1 (good_identity n0 n1 _)
    exact foldlM_inv (hopStep n0 n1 t.coeffs) (AllGood n0 n1)
      (fun b a b' hb hfa => hopStep_good n0 n1 t.coeffs b b' a hb hfa) _ _ _ g2 hs

/-- **every weighted string of the encoded operator is good**; the operator lives on the encoding register -/
theorem encode_good (inp : Input) (op : PauliOp GQ) (n : Nat) (hs : encode inp = .ok (op, n)) :
    ∃ n0 n1, inp.shape = [n0, n1] ∧ n = ofcNsites n0 n1 ∧ AllGood n0 n1 op := by
  unfold encode at hs
  by_cases c1 : (inp.nfields != 1 || !inp.fermion) = true
  · simp only [c1, if_true, bind, Except.bind, throw, throwThe, MonadExceptOf.throw, reduceCtorEq] at hs
  · by_cases c2 : (!inp.integerLattice) = true
    · simp only [c1, c2, if_true, if_false, bind, Except.bind, throw, throwThe, MonadExceptOf.throw, pure, Except.pure,
        reduceCtorEq, Bool.false_eq_true] at hs
    · simp only [c1, c2, if_false, bind, Except.bind, pure, Except.pure, Bool.false_eq_true] at hs
      split at hs
      · rename_i n0 n1 hshape
        by_cases c3 : inp.pbc.any id = true
        · simp only [c3, if_true, throw, throwThe, MonadExceptOf.throw, reduceCtorEq] at hs
        · simp only [c3, if_false, Bool.false_eq_true] at hs
          cases hf : List.foldlM (encodeTerm n0 n1) [] inp.terms with
          | error e => rw [hf] at hs; cases hs
          | ok op1 =>
            rw [hf] at hs
            simp only [Except.ok.injEq, Prod.mk.injEq] at hs
            obtain ⟨rfl, rfl⟩ := hs
            exact ⟨n0, n1, hshape, rfl, foldlM_inv (encodeTerm n0 n1) (AllGood n0 n1)
              (fun b a b' hb hfa => encodeTerm_good n0 n1 b b' a hb hfa) _ _ _ (allGood_nil n0 n1) hf⟩
      · simp only [throw, throwThe, MonadExceptOf.throw, reduceCtorEq] at hs

end Qib.Compact
