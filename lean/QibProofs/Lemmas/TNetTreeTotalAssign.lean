import QibProofs.Lemmas.TNetTreeTotalScan
/-!
Helper lemmas for C07 totality, part 2: the label assignment of `_build_contraction_tree` never refuses – one entry of a
bond map (`assignStep_total`), one bond (`assignBond_total`), all bonds (`assign_total`): the index look-ups are in
range and `idxout.remove` always finds the label of the first leg of a fully contracted bond (no property statements).
-/
namespace Qib.TNet

/-- the leg index of an entry is within the label list of its side -/
def inRange (st : IdxState) : Side × Nat → Prop
  | (.L, k) => k < st.idxL.length
  | (.R, k) => k < st.idxR.length

theorem inRange_congr {st st' : IdxState} (h1 : st'.idxL.length = st.idxL.length)
    (h2 : st'.idxR.length = st.idxR.length) (e : Side × Nat) : inRange st' e ↔ inRange st e := by
  obtain ⟨s, k⟩ := e
  cases s <;> simp [inRange, h1, h2]

theorem lbl_j (st : IdxState) (o : Option Nat) (e : Side × Nat) : lbl { st with j := o } e = lbl st e := by
  obtain ⟨s, k⟩ := e
  cases s <;> rfl

/-- **one entry of a bond map returns**: the index is in range, and `idxout.remove` is only reached without its
membership guard for the first entry of a fully contracted bond -/
theorem assignStep_total {fully : Bool} {st : IdxState} {e : Side × Nat} (hk : inRange st e)
    (hrem : st.j = none → fully = true → lbl st e ∈ st.idxout) : ∃ st', assignStep fully st (some e) = .ok st' := by
  obtain ⟨side, k⟩ := e
  cases side with
  | L =>
    have hk' : k < st.idxL.length := hk
    have hlbl : lbl st (Side.L, k) = st.idxL[k] := by simp [lbl, hk']
    rw [hlbl] at hrem
    unfold assignStep
    simp only [List.getElem?_eq_getElem hk', bind, Except.bind]
    cases hj : st.j with
    | some J =>
      simp only
      by_cases hc : (st.idxout.contains st.idxL[k] && st.idxL[k] != J) = true
      · have hm : st.idxout.contains st.idxL[k] = true := by
          simp only [Bool.and_eq_true] at hc; exact hc.1
        rw [if_pos hc]
        simp only [removeFirst, hm, if_true, pure, Except.pure]
        exact ⟨_, rfl⟩
      · rw [if_neg hc]
        simp only [pure, Except.pure]
        exact ⟨_, rfl⟩
    | none =>
      simp only
      by_cases hf : fully = true
      · have hm : st.idxout.contains st.idxL[k] = true := List.contains_iff_mem.mpr (hrem hj hf)
        rw [if_pos hf]
        simp only [removeFirst, hm, if_true, pure, Except.pure]
        exact ⟨_, rfl⟩
      · rw [if_neg hf]
        simp only [pure, Except.pure]
        exact ⟨_, rfl⟩
  | R =>
    have hk' : k < st.idxR.length := hk
    have hlbl : lbl st (Side.R, k) = st.idxR[k] := by simp [lbl, hk']
    rw [hlbl] at hrem
    unfold assignStep
    simp only [List.getElem?_eq_getElem hk', bind, Except.bind]
    cases hj : st.j with
    | some J =>
      simp only
      by_cases hc : (st.idxout.contains st.idxR[k] && st.idxR[k] != J) = true
      · have hm : st.idxout.contains st.idxR[k] = true := by
          simp only [Bool.and_eq_true] at hc; exact hc.1
        rw [if_pos hc]
        simp only [removeFirst, hm, if_true, pure, Except.pure]
        exact ⟨_, rfl⟩
      · rw [if_neg hc]
        simp only [pure, Except.pure]
        exact ⟨_, rfl⟩
    | none =>
      simp only
      by_cases hf : fully = true
      · have hm : st.idxout.contains st.idxR[k] = true := List.contains_iff_mem.mpr (hrem hj hf)
        rw [if_pos hf]
        simp only [removeFirst, hm, if_true, pure, Except.pure]
        exact ⟨_, rfl⟩
      · rw [if_neg hf]
        simp only [pure, Except.pure]
        exact ⟨_, rfl⟩

/-- the entries after the first one never refuse -/
theorem assignTail_total (fully : Bool) : ∀ (bm : BMap) (cur : IdxState) (J : Nat), cur.j = some J →
    (∀ e, some e ∈ bm → inRange cur e) → ∃ st', bm.foldlM (assignStep fully) cur = .ok st' := by
  intro bm
  induction bm with
  | nil => intro cur _ _ _; exact ⟨cur, rfl⟩
  | cons x rest ih =>
    intro cur J hj hr
    rw [List.foldlM_cons]
    cases x with
    | none =>
      rw [assignStep_none]
      exact ih cur J hj (fun e he => hr e (List.mem_cons_of_mem _ he))
    | some e =>
      obtain ⟨cur', hs⟩ := assignStep_total (fully := fully) (hr e List.mem_cons_self) (fun hn => by rw [hj] at hn; cases hn)
      rw [hs]
      obtain ⟨a1, a2, a3, _⟩ := assignStep_spec hs
      obtain ⟨b1, _, _⟩ := a3 J hj
      exact ih cur' J b1 (fun e' he' => (inRange_congr a1 a2 e').mpr (hr e' (List.mem_cons_of_mem _ he')))

/-- the entries of one bond map, starting without a shared label -/
theorem assignHead_total (fully : Bool) : ∀ (bm : BMap) (cur : IdxState), cur.j = none →
    (∀ e, some e ∈ bm → inRange cur e) →
    (fully = true → ∀ e1, bm.findSome? id = some e1 → lbl cur e1 ∈ cur.idxout) →
    ∃ st', bm.foldlM (assignStep fully) cur = .ok st' := by
  intro bm
  induction bm with
  | nil => intro cur _ _ _; exact ⟨cur, rfl⟩
  | cons x rest ih =>
    intro cur hj hr hfirst
    rw [List.foldlM_cons]
    cases x with
    | none =>
      rw [assignStep_none]
      exact ih cur hj (fun e he => hr e (List.mem_cons_of_mem _ he)) (fun hf e1 he1 => hfirst hf e1 (by simpa using he1))
    | some e =>
      obtain ⟨cur', hs⟩ := assignStep_total (fully := fully) (hr e List.mem_cons_self)
        (fun _ hf => hfirst hf e (by simp))
      rw [hs]
      obtain ⟨a1, a2, _, a4⟩ := assignStep_spec hs
      obtain ⟨b1, _, _⟩ := a4 hj
      exact assignTail_total fully rest cur' _ b1
        (fun e' he' => (inRange_congr a1 a2 e').mpr (hr e' (List.mem_cons_of_mem _ he')))

/-- **one bond of the label assignment returns** -/
theorem assignBond_total {st : IdxState} {bm : BMap} (hr : ∀ e, some e ∈ bm → inRange st e)
    (hfirst : bm.all Option.isSome = true → ∀ e1, bm.findSome? id = some e1 → lbl st e1 ∈ st.idxout) :
    ∃ st', assignBond st bm = .ok st' := by
  obtain ⟨st2, hst2⟩ := assignHead_total (bm.all Option.isSome) bm { st with j := none } rfl
    (fun e he => hr e he) (fun hf e1 he1 => by rw [lbl_j]; exact hfirst hf e1 he1)
  exact ⟨{ st2 with j := none }, by simp only [assignBond, hst2, bind, Except.bind, pure, Except.pure]⟩

/-- **the label assignment over all bonds met by the scan returns** -/
theorem assign_total {net : Net} (hwf : WF net) {nL nR : NodeInfo} (hL : InfoCert net nL) (hR : InfoCert net nR)
    (hdisj : ∀ ta ∈ nL.openaxes, ta ∉ nR.openaxes) (bidlist : List Int) (hnd : bidlist.Nodup)
    (hent : ∀ b ∈ bidlist, ∃ e, some e ∈ bmapOf net nL nR b) :
    ∃ st, (bidlist.map (bmapOf net nL nR)).foldlM assignBond (idxState0 nL.idxout.length nR.idxout.length) = .ok st := by
  rw [List.foldlM_map]
  apply foldlM_total_of_prefix'
  intro pre b post st hdec hpre
  -- the invariant after the prefix
  have hndp : pre.Nodup := by rw [hdec] at hnd; exact (List.nodup_append.mp hnd).1
  have hbnot : b ∉ pre := by
    rw [hdec] at hnd
    intro hb
    exact (List.nodup_append.mp hnd).2.2 b hb b List.mem_cons_self rfl
  have hpsub : ∀ b' ∈ pre, b' ∈ bidlist := fun b' hb' => by rw [hdec]; exact List.mem_append_left _ hb'
  have hbmem : b ∈ bidlist := by rw [hdec]; simp
  have AI : AssignInv net nL nR pre st :=
    assign_inv hwf hL hR hdisj pre hndp (fun b' hb' => hent b' (hpsub b' hb')) (by rw [List.foldlM_map]; exact hpre)
  -- entries of `b` still carry their initial labels
  have hlab0 : ∀ e, some e ∈ bmapOf net nL nR b → lbl st e = lam0 nL.idxout.length e := by
    intro e he
    obtain ⟨hv, hb⟩ := entry_spec hwf hL hR he
    rw [AI.lab e hv, hb, if_neg hbnot]
  apply assignBond_total
  · intro e he
    obtain ⟨hv, _⟩ := entry_spec hwf hL hR he
    obtain ⟨s, k⟩ := e
    cases s with
    | L => show k < st.idxL.length; rw [AI.lenL]; exact hv
    | R => show k < st.idxR.length; rw [AI.lenR]; exact hv
  · intro _ e1 he1
    have he1m : some e1 ∈ bmapOf net nL nR b := (findSome_id_spec _).2 e1 he1
    obtain ⟨hv1, hb1⟩ := entry_spec hwf hL hR he1m
    rw [hlab0 e1 he1m, AI.out]
    refine ⟨mem_idxout0.mpr ⟨e1, hv1, rfl⟩, ?_⟩
    intro b' hb' hrem
    -- the first entry of the earlier bond `b'`
    have hfirst' : validLeg nL nR (firstEnt net nL nR b') ∧ legBe net nL nR (firstEnt net nL nR b') = b' := by
      obtain ⟨e0, he0⟩ := hent b' (hpsub b' hb')
      cases hfs : (bmapOf net nL nR b').findSome? id with
      | none => exact absurd he0 ((findSome_id_spec _).1.mp hfs e0)
      | some e2 =>
        have : firstEnt net nL nR b' = e2 := by simp [firstEnt, hfs]
        rw [this]
        exact entry_spec hwf hL hR ((findSome_id_spec _).2 e2 hfs)
    have hne : b ≠ b' := fun h => hbnot (h ▸ hb')
    rcases hrem with ⟨_, hJ⟩ | ⟨_, e, he, hl⟩
    · have := lam0_inj hv1 hfirst'.1 hJ
      rw [this, hfirst'.2] at hb1
      exact hne hb1.symm
    · obtain ⟨hv, hbe⟩ := entry_spec hwf hL hR he
      have := lam0_inj hv hv1 hl
      rw [this, hb1] at hbe
      exact hne hbe

end Qib.TNet
