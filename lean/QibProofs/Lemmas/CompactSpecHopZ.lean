import QibProofs.Lemmas.CompactSpecSum
/-!
C13, spectral part — helper lemmas, part 8: hopping between sites `i < j` that are not consecutive in the Jordan-Wigner order
(vertical edges of a lattice with more than one row).  `tens2z n i j A B` is `A` on site `i`, `B` on site `j`, `Z` on the sites
strictly between and the identity elsewhere; `a†_i a_j + a†_j a_i = ½ (X_i Z…Z X_j + Y_i Z…Z Y_j)` for the reference ladder
matrices, and this equals `(i/2)(T Z_j − T Z_i)` for `T = Y_i Z…Z X_j`.  `dk_core`: the Derby–Klassen image with vertex matrices
`Z_i` and edge matrices of this form is the quadratic fermionic operator on the first `L` of `N` modes.
-/
set_option linter.unusedSimpArgs false
set_option linter.unusedVariables false
set_option linter.unreachableTactic false
set_option linter.unusedTactic false
open Complex Matrix
namespace Qib.Compact
open Qib.Pauli Qib.Lattice

/-- `A` on site `i`, `B` on site `j`, `Z` strictly between, identity elsewhere -/
def tens2z (n i j : ℕ) (A B : Matrix Bool Bool ℂ) : Matrix (Fin n → Bool) (Fin n → Bool) ℂ :=
  tens (fun k : Fin n => if k.val = i then A else if k.val = j then B else if i < k.val ∧ k.val < j then pauliZ else 1)

def restz (n i j : ℕ) (r c : Fin n → Bool) : ℂ :=
  ∏ k ∈ (Finset.univ : Finset (Fin n)).filter (fun k => k.val ≠ i ∧ k.val ≠ j),
    (if i < k.val ∧ k.val < j then pauliZ else (1 : Matrix Bool Bool ℂ)) (r k) (c k)

theorem tens2z_apply (n i j : ℕ) (hi : i < n) (hj : j < n) (hij : i ≠ j) (A B : Matrix Bool Bool ℂ) (r c : Fin n → Bool) :
    tens2z n i j A B r c = A (r ⟨i, hi⟩) (c ⟨i, hi⟩) * B (r ⟨j, hj⟩) (c ⟨j, hj⟩) * restz n i j r c := by
  have hne : (⟨j, hj⟩ : Fin n) ≠ ⟨i, hi⟩ := fun h => hij (by simpa using (congrArg Fin.val h).symm)
  simp only [tens2z, tens, restz]
  rw [← Finset.mul_prod_erase Finset.univ _ (Finset.mem_univ (⟨i, hi⟩ : Fin n)),
    ← Finset.mul_prod_erase _ _ (Finset.mem_erase.mpr ⟨hne, Finset.mem_univ (⟨j, hj⟩ : Fin n)⟩)]
  have e1 : ((Finset.univ : Finset (Fin n)).erase ⟨i, hi⟩).erase ⟨j, hj⟩ =
      (Finset.univ : Finset (Fin n)).filter (fun k => k.val ≠ i ∧ k.val ≠ j) := by
    ext k
    simp only [Finset.mem_erase, Finset.mem_univ, and_true, Finset.mem_filter, true_and, ne_eq, Fin.ext_iff]
    tauto
  rw [e1, mul_assoc]
  simp only [if_true, if_neg hij.symm]
  congr 1; congr 1
  apply Finset.prod_congr rfl
  intro k hk
  simp only [Finset.mem_filter, Finset.mem_univ, true_and] at hk
  simp only [if_neg hk.1, if_neg hk.2]

/-- `½ (X_i Z…Z X_j + Y_i Z…Z Y_j)` -/
noncomputable def hopTz (n i j : ℕ) : Matrix (Fin n → Bool) (Fin n → Bool) ℂ :=
  (1 / 2 : ℂ) • (tens2z n i j pauliX pauliX + tens2z n i j pauliY pauliY)

open Qib.Encode in
theorem hop_jw_sites_z (n i j : ℕ) (hi : i < n) (hj : j < n) (hij : i ≠ j) :
    tens2z n i j createM (pauliZ * annihilM) + tens2z n i j annihilM (createM * pauliZ) = hopTz n i j := by
  ext r c
  simp only [hopTz, Matrix.add_apply, Matrix.smul_apply, smul_eq_mul, tens2z_apply n i j hi hj hij]
  generalize restz n i j r c = R
  cases r ⟨i, hi⟩ <;> cases c ⟨i, hi⟩ <;> cases r ⟨j, hj⟩ <;> cases c ⟨j, hj⟩ <;>
    simp [createM, annihilM, pauliX, pauliY, pauliZ, Matrix.mul_apply] <;> ring_nf <;> simp <;> ring

theorem hop_compact_sites_z (n i j : ℕ) (hi : i < n) (hj : j < n) (hij : i ≠ j) :
    (I / 2) • (tens2z n i j pauliY (pauliX * pauliZ) - tens2z n i j (pauliY * pauliZ) pauliX) = hopTz n i j := by
  ext r c
  simp only [hopTz, Matrix.add_apply, Matrix.sub_apply, Matrix.smul_apply, smul_eq_mul, tens2z_apply n i j hi hj hij]
  generalize restz n i j r c = R
  cases r ⟨i, hi⟩ <;> cases c ⟨i, hi⟩ <;> cases r ⟨j, hj⟩ <;> cases c ⟨j, hj⟩ <;>
    simp [pauliX, pauliY, pauliZ, Matrix.mul_apply] <;> ring_nf <;> simp <;> ring

open Qib.Encode in
/-- `a†_i a_j` for `i < j` -/
theorem ladder_hop_up_z (n i j : ℕ) (hij : i < j) :
    ladder n i true * ladder n j false = tens2z n i j createM (pauliZ * annihilM) := by
  simp only [ladder, tens2z, tens_mul]
  congr 1; funext k
  by_cases h1 : k.val < i
  · simp [h1, show k.val < j by omega, show k.val ≠ i by omega, show k.val ≠ j by omega, show ¬ (i < k.val) by omega]
  · by_cases h2 : k.val = i
    · simp [h2, hij]
    · by_cases h3 : k.val = j
      · have : ¬ j < i := by omega
        have h4 : ¬ j = i := by omega
        simp [h3, this, h4]
      · by_cases h4 : k.val < j
        · simp [h1, h2, h3, h4, show i < k.val by omega]
        · simp [h1, h2, h3, h4, pauliZ_sq]

open Qib.Encode in
/-- `a†_j a_i` for `i < j` -/
theorem ladder_hop_down_z (n i j : ℕ) (hij : i < j) :
    ladder n j true * ladder n i false = tens2z n i j annihilM (createM * pauliZ) := by
  simp only [ladder, tens2z, tens_mul]
  congr 1; funext k
  by_cases h1 : k.val < i
  · simp [h1, show k.val < j by omega, show k.val ≠ i by omega, show k.val ≠ j by omega, show ¬ (i < k.val) by omega]
  · by_cases h2 : k.val = i
    · simp [h2, hij]
    · by_cases h3 : k.val = j
      · have : ¬ j < i := by omega
        have h4 : ¬ j = i := by omega
        simp [h3, this, h4]
      · by_cases h4 : k.val < j
        · simp [h1, h2, h3, h4, show i < k.val by omega]
        · simp [h1, h2, h3, h4, pauliZ_sq]

open Qib.Encode in
/-- **Jordan-Wigner hopping between any two sites** `i < j` -/
theorem ladder_hop_z (n i j : ℕ) (hij : i < j) (hj : j < n) :
    ladder n i true * ladder n j false + ladder n j true * ladder n i false = hopTz n i j := by
  rw [ladder_hop_up_z n i j hij, ladder_hop_down_z n i j hij, hop_jw_sites_z n i j (by omega) hj (by omega)]

theorem tens2z_mul_zSite_right (n i j : ℕ) (hij : i ≠ j) (A B : Matrix Bool Bool ℂ) :
    tens2z n i j A B * zSite n j = tens2z n i j A (B * pauliZ) := by
  simp only [tens2z, zSite, tens_mul]
  congr 1; funext k
  by_cases h : k.val = i
  · have : ¬ i = j := hij
    simp [h, this]
  · by_cases h' : k.val = j
    · simp [h, h', show ¬ j = i from fun e => hij e.symm]
    · simp [h, h']

theorem tens2z_mul_zSite_left (n i j : ℕ) (hij : i ≠ j) (A B : Matrix Bool Bool ℂ) :
    tens2z n i j A B * zSite n i = tens2z n i j (A * pauliZ) B := by
  simp only [tens2z, zSite, tens_mul]
  congr 1; funext k
  by_cases h : k.val = i
  · simp [h]
  · simp [h]

open Qib.Encode in
/-- the hopping term `(i/2)(T Z_j − T Z_i)` for `T = Y_i Z…Z X_j` is the Jordan-Wigner hopping operator -/
theorem hop_of_edge_z (n i j : ℕ) (hij : i < j) (hj : j < n) (T : Matrix (Fin n → Bool) (Fin n → Bool) ℂ)
    (hT : T = tens2z n i j pauliY pauliX) :
    (I / 2) • (T * zSite n j - T * zSite n i) =
      ladder n i true * ladder n j false + ladder n j true * ladder n i false := by
  have hne : i ≠ j := by omega
  rw [ladder_hop_z n i j hij hj, hT, tens2z_mul_zSite_right n i j hne, tens2z_mul_zSite_left n i j hne,
    hop_compact_sites_z n i j (by omega) hj hne]

/-- a string with `Y` on site `i`, `Z` strictly between `i` and `j`, `X` on site `j` -/
theorem mat_YZX (n i j : ℕ) (hij : i < j) (P : PS)
    (hz : ∀ k, k < n → P.zf k = (decide (k = i) || decide (i < k ∧ k < j)))
    (hx : ∀ k, k < n → P.xf k = (decide (k = i) || decide (k = j))) :
    P.mat n = (-I) ^ P.q.val • tens2z n i j pauliY pauliX := by
  simp only [PS.mat, tens2z]
  congr 2; funext k
  rw [hz k k.isLt, hx k k.isLt]
  by_cases h : k.val = i
  · simp [h, letter_Y]
  · by_cases h' : k.val = j
    · have hji : ¬ j = i := by omega
      have : ¬ (i < j ∧ j < j) := by omega
      simp [h, h', hji, letter_X]
    · by_cases h2 : i < k.val ∧ k.val < j
      · simp [h, h', h2, letter_Z]
      · simp [h, h', h2, letter_I]

/-! ### the Derby–Klassen image with `V_i = Z_i` and Jordan-Wigner type edge matrices -/

open Qib.Encode in
/-- the quadratic fermionic operator on the first `L` of `N` modes -/
noncomputable def quadFN (N L : ℕ) (c : ℕ → ℕ → ℂ) : Matrix (Fin N → Bool) (Fin N → Bool) ℂ :=
  ∑ i ∈ Finset.range L, ∑ j ∈ Finset.range L, c i j • (ladder N i true * ladder N j false)

theorem quadFN_self (n : ℕ) (c : ℕ → ℕ → ℂ) : quadFN n n c = quadF n c := rfl

open Qib.Encode in
theorem dk_core (N L : ℕ) (hL : L ≤ N) (c : ℕ → ℕ → ℂ) (V : ℕ → Matrix (Fin N → Bool) (Fin N → Bool) ℂ)
    (E : ℕ → ℕ → Matrix (Fin N → Bool) (Fin N → Bool) ℂ)
    (hsym : ∀ i j, i < L → j < L → c i j = c j i)
    (hV : ∀ i, i < L → V i = zSite N i)
    (hE : ∀ i j, i < j → j < L → c i j ≠ 0 → (I / 2) • (E i j * V j - E i j * V i) =
      ladder N i true * ladder N j false + ladder N j true * ladder N i false) :
    quadDK N L c V E = quadFN N L c := by
  unfold quadDK quadFN
  rw [sum_sum_split L (fun i j => c i j • (ladder N i true * ladder N j false))]
  congr 1
  · apply Finset.sum_congr rfl
    intro i hi
    have hi' : i < L := Finset.mem_range.mp hi
    rw [ladder_number' N i (by omega), hV i hi']
  · apply Finset.sum_congr rfl; intro i hi
    apply Finset.sum_congr rfl; intro j hj
    have hi' : i < L := Finset.mem_range.mp hi
    have hj' : j < L := Finset.mem_range.mp hj
    by_cases hij : i < j
    · rw [if_pos hij, if_pos hij]
      by_cases h0 : c i j = 0
      · rw [← hsym i j hi' hj', h0]; simp
      · rw [← hsym i j hi' hj', ← smul_add, hE i j hij hj' h0]
    · rw [if_neg hij, if_neg hij]

/-- conjugation distributes over the Derby–Klassen image -/
theorem quadDK_conj (N L : ℕ) (c : ℕ → ℕ → ℂ) (V : ℕ → Matrix (Fin N → Bool) (Fin N → Bool) ℂ)
    (E : ℕ → ℕ → Matrix (Fin N → Bool) (Fin N → Bool) ℂ) (W W' : Matrix (Fin N → Bool) (Fin N → Bool) ℂ)
    (h1 : W * W' = 1) (h2 : W' * W = 1) :
    W * quadDK N L c V E * W' = quadDK N L c (fun i => W * V i * W') (fun i j => W * E i j * W') := by
  unfold quadDK
  rw [Matrix.mul_add, Matrix.add_mul, Finset.mul_sum, Finset.sum_mul, Finset.mul_sum, Finset.sum_mul]
  congr 1
  · apply Finset.sum_congr rfl; intro i _
    rw [Matrix.mul_smul, Matrix.smul_mul, Matrix.mul_smul, Matrix.smul_mul, Matrix.mul_sub, Matrix.sub_mul, Matrix.mul_one, h1]
  · apply Finset.sum_congr rfl; intro i _
    rw [Finset.mul_sum, Finset.sum_mul]
    apply Finset.sum_congr rfl; intro j _
    split
    · have e : ∀ A B : Matrix (Fin N → Bool) (Fin N → Bool) ℂ, W * (A * B) * W' = (W * A * W') * (W * B * W') := by
        intro A B
        calc W * (A * B) * W' = W * A * (1 * (B * W')) := by rw [Matrix.one_mul]; simp only [Matrix.mul_assoc]
          _ = W * A * ((W' * W) * (B * W')) := by rw [h2]
          _ = _ := by simp only [Matrix.mul_assoc]
      rw [Matrix.mul_smul, Matrix.smul_mul, Matrix.mul_smul, Matrix.smul_mul, Matrix.mul_sub, Matrix.sub_mul, e, e]
    · simp

end Qib.Compact
