import QibProofs.Lemmas.LatticeRadix
/-! Helper lemmas for C14: `index_to_coord` / `coord_to_index` of the grid-indexed classes (integer, triangular,
fully connected, customized) with their assertion loop and `ravel_multi_index` checks. -/
namespace Qib.Lattice
open Lat

theorem assertLoop_ok {shape c : List Nat} (h : validCoord shape c = true) :
    assertLoop shape (c.map Int.ofNat) = .ok () := by
  induction shape generalizing c with
  | nil => simp [assertLoop]
  | cons n ns ih =>
    cases c with
    | nil => simp [validCoord] at h
    | cons x xs =>
      simp only [validCoord, Bool.and_eq_true, decide_eq_true_eq] at h
      simp only [List.map_cons, assertLoop]
      rw [if_pos (show Int.ofNat x < (n : Int) from Int.ofNat_lt.mpr h.1)]
      exact ih h.2

theorem zip_all_ok {shape c : List Nat} (h : validCoord shape c = true) :
    (List.zip (c.map Int.ofNat) shape).all (fun (v, n) => decide (0 ≤ v) && decide (v < (n : Int))) = true := by
  induction shape generalizing c with
  | nil => cases c <;> simp
  | cons n ns ih =>
    cases c with
    | nil => simp
    | cons x xs =>
      simp only [validCoord, Bool.and_eq_true, decide_eq_true_eq] at h
      simp only [List.map_cons, List.zip_cons_cons, List.all_cons, Bool.and_eq_true, decide_eq_true_eq]
      exact ⟨⟨Int.natCast_nonneg x, Int.ofNat_lt.mpr h.1⟩, ih h.2⟩

theorem ravelChecked_ok {shape c : List Nat} (h : validCoord shape c = true) :
    ravelChecked shape (c.map Int.ofNat) = .ok (ravel shape c : Int) := by
  unfold ravelChecked
  have hl := validCoord_length h
  have hz := zip_all_ok h
  rw [if_pos]
  · simp [List.map_map, Function.comp_def]
  · simp only [List.length_map, hl, decide_true, Bool.true_and]
    exact hz

theorem gridC2i_ok {shape c : List Nat} (h : validCoord shape c = true) :
    gridC2i shape (c.map Int.ofNat) = .ok (some (ravel shape c : Int)) := by
  simp [gridC2i, assertLoop_ok h, ravelChecked_ok h, bind, Except.bind, pure, Except.pure]

theorem gridI2c_ok {shape : List Nat} {i : Nat} (h : i < sprod shape) :
    gridI2c shape (i : Int) = .ok ((unravel shape i).map Int.ofNat) := by
  unfold gridI2c
  rw [if_neg (by omega), if_neg (by omega)]
  simp

/-- index → coordinate → index on a grid-indexed lattice -/
theorem grid_roundtrip {shape : List Nat} {i : Nat} (h : i < sprod shape) :
    ∃ c, gridI2c shape (i : Int) = .ok c ∧ gridC2i shape c = .ok (some (i : Int)) := by
  refine ⟨_, gridI2c_ok h, ?_⟩
  rw [gridC2i_ok (validCoord_unravel shape i h), ravel_unravel shape i h]

theorem grid_coord_injective {shape : List Nat} {i j : Nat} (hi : i < sprod shape) (hj : j < sprod shape)
    (h : gridI2c shape (i : Int) = gridI2c shape (j : Int)) : i = j := by
  rw [gridI2c_ok hi, gridI2c_ok hj] at h
  have h' := Except.ok.inj h
  apply unravel_injective hi hj
  have := congrArg (List.map Int.toNat) h'
  simpa [List.map_map, Function.comp_def] using this

/-- rejections: an index `≥ nsites` fails the assertion, a negative one is refused by `np.unravel_index` -/
theorem gridI2c_reject (shape : List Nat) (i : Int) :
    (i ≥ sprod shape → gridI2c shape i = .error .assertion) ∧ (i < 0 → gridI2c shape i = .error .valueError) := by
  unfold gridI2c
  constructor
  · intro h; rw [if_pos h]
  · intro h; rw [if_neg (by omega), if_pos h]

end Qib.Lattice
