import Mathlib.Tactic.Module
import Mathlib.Algebra.BigOperators.Group.Finset.Basic
import QibProofs.Lemmas.EncodeStrings
/-!
Encoders (C11, C12): matrices of the encoded ladder operators.

* `ladder L i create`  : the reference ladder matrix of `field_operator.py:201-217` – identity on earlier sites,
  `U = [[0,0],[1,0]]` (creation) or its adjoint on site `i`, `Z` on LATER sites.
* `encLadder enc L i create = ½ (s₀.mat + s₁.mat)` : what the encoder substitutes for a ladder operator.
* `jw_ladder`           : for Jordan-Wigner the two agree.
* Majorana strings `S i = s₀`, `T i` (`s₁` without its phase): squares, pairwise anticommutation (from the
  code's commutation test on the indicator vectors), hence the canonical anticommutation relations for both encoders;
  vacuum annihilation and number operators.
Helper lemmas only.
-/
set_option linter.unusedVariables false
set_option linter.unnecessarySeqFocus false
open Complex Matrix
namespace Qib.Encode
open Qib.Pauli

/-! ### linear combinations of tensor products that differ at one site -/

theorem tens_split {n : ℕ} (i : Fin n) (A : Fin n → Matrix Bool Bool ℂ) (r c : Fin n → Bool) :
    tens A r c = A i (r i) (c i) * ∏ k ∈ Finset.univ.erase i, A k (r k) (c k) := by
  simp only [tens]
  rw [Finset.mul_prod_erase Finset.univ (fun k => A k (r k) (c k)) (Finset.mem_univ i)]

/-- entrywise: two tensor products whose factors agree (at the entry looked at) away from site `i` -/
theorem tens_lincomb_entry {n : ℕ} (i : Fin n) (A B : Fin n → Matrix Bool Bool ℂ) (a b : ℂ) (r c : Fin n → Bool)
    (hAB : ∀ k, k ≠ i → A k (r k) (c k) = B k (r k) (c k)) :
    a * tens A r c + b * tens B r c =
      (a * A i (r i) (c i) + b * B i (r i) (c i)) * ∏ k ∈ Finset.univ.erase i, A k (r k) (c k) := by
  rw [tens_split i A, tens_split i B]
  have : ∏ k ∈ Finset.univ.erase i, B k (r k) (c k) = ∏ k ∈ Finset.univ.erase i, A k (r k) (c k) :=
    Finset.prod_congr rfl (fun k hk => (hAB k (Finset.ne_of_mem_erase hk)).symm)
  rw [this]; ring

/-- `a • tens A + b • tens B = tens C` when all three agree away from site `i` and `a • A i + b • B i = C i` -/
theorem tens_lincomb {n : ℕ} (i : Fin n) (A B C : Fin n → Matrix Bool Bool ℂ) (a b : ℂ)
    (hA : ∀ k, k ≠ i → A k = C k) (hB : ∀ k, k ≠ i → B k = C k) (hi : a • A i + b • B i = C i) :
    a • tens A + b • tens B = tens C := by
  ext r c
  simp only [Matrix.add_apply, Matrix.smul_apply, smul_eq_mul]
  rw [tens_lincomb_entry i A B a b r c (fun k hk => by rw [hA k hk, hB k hk]), tens_split i C]
  have h1 : a * A i (r i) (c i) + b * B i (r i) (c i) = C i (r i) (c i) := by
    rw [← hi]; simp [Matrix.add_apply, Matrix.smul_apply]
  rw [h1]
  congr 1
  exact Finset.prod_congr rfl (fun k hk => by rw [hA k (Finset.ne_of_mem_erase hk)])

/-! ### reference ladder operators -/

/-- `U = [[0,0],[1,0]]` -/
def createM : Matrix Bool Bool ℂ := fun r c => if r = true ∧ c = false then 1 else 0
/-- `Uᴴ = [[0,1],[0,0]]` -/
def annihilM : Matrix Bool Bool ℂ := fun r c => if r = false ∧ c = true then 1 else 0

theorem createM_conjTranspose : createMᴴ = annihilM := by
  ext r c; cases r <;> cases c <;> simp [createM, annihilM, Matrix.conjTranspose_apply]

/-- `1 ⊗ … ⊗ 1 ⊗ U ⊗ Z ⊗ … ⊗ Z` with `U` (creation) or `Uᴴ` (annihilation) on site `i` -/
def ladder (L i : ℕ) (create : Bool) : Matrix (Fin L → Bool) (Fin L → Bool) ℂ :=
  tens (fun k : Fin L => if k.val < i then 1 else if k.val = i then (if create then createM else annihilM) else pauliZ)

theorem ladder_conjTranspose (L i : ℕ) : (ladder L i true)ᴴ = ladder L i false := by
  simp only [ladder, tens_conjTranspose]
  congr 1; funext k
  split
  · simp
  · split
    · simp [createM_conjTranspose]
    · ext r c; cases r <;> cases c <;> simp [pauliZ, Matrix.conjTranspose_apply]

/-- what the encoder substitutes for `a†_i` (create) / `a_i`: half the sum of the two strings -/
noncomputable def encLadder (enc : Enc) (L i : ℕ) (create : Bool) : Matrix (Fin L → Bool) (Fin L → Bool) ℂ :=
  (1 / 2 : ℂ) • ((ladderPair enc L i create).1.mat L + (ladderPair enc L i create).2.mat L)

theorem half_X_sub_iY : (1 / 2 : ℂ) • letter false true + ((1 / 2 : ℂ) * (-I) ^ 1) • letter true true = createM := by
  ext r c; cases r <;> cases c <;> simp [letter, zx, createM] <;> (try (simp only [mul_assoc, I_mul_I]; norm_num))
theorem half_X_add_iY : (1 / 2 : ℂ) • letter false true + ((1 / 2 : ℂ) * (-I) ^ 3) • letter true true = annihilM := by
  ext r c; cases r <;> cases c <;> simp [letter, zx, annihilM, pow_succ] <;> (try (simp only [mul_assoc, I_mul_I]; norm_num))

/-- Jordan-Wigner: `½ (s₀ + s₁)` with the code's phases is the reference ladder operator -/
theorem jw_ladder (L i : ℕ) (hi : i < L) (create : Bool) : encLadder .jw L i create = ladder L i create := by
  have key : ∀ (q : Fin 4) (s1 : PS), s1.q = q → (∀ k : Fin L, s1.zf k = decide (i ≤ k.val) ∧ s1.xf k = decide (k.val = i)) →
      ((1 / 2 : ℂ) • letter false true + ((1 / 2 : ℂ) * (-I) ^ q.val) • letter true true =
        (if create then createM else annihilM)) →
      (1 / 2 : ℂ) • ((s0 .jw L i).mat L + s1.mat L) = ladder L i create := by
    intro q s1 hq hs1 hsite
    simp only [PS.mat, smul_add, smul_smul, ladder]
    have e0 : (s0 .jw L i).q.val = 0 := rfl
    rw [e0, pow_zero, mul_one, hq]
    apply tens_lincomb ⟨i, hi⟩
    · intro k hk
      have hk' : k.val ≠ i := fun h => hk (Fin.ext h)
      rw [jw_s0_zf L i k hi k.isLt, jw_s0_xf L i k hi k.isLt]
      by_cases h : k.val < i
      · simp [h, hk', letter_I, show ¬ i < k.val by omega]
      · simp [h, hk', letter_Z, show i < k.val by omega]
    · intro k hk
      have hk' : k.val ≠ i := fun h => hk (Fin.ext h)
      rw [(hs1 k).1, (hs1 k).2]
      by_cases h : k.val < i
      · simp [h, hk', letter_I, show ¬ i ≤ k.val by omega]
      · simp [h, hk', letter_Z, show i ≤ k.val by omega]
    · rw [jw_s0_zf L i i hi hi, jw_s0_xf L i i hi hi, (hs1 ⟨i, hi⟩).1, (hs1 ⟨i, hi⟩).2]
      simpa using hsite
  cases create
  · exact key 3 (s1a .jw L i) rfl (fun k => ⟨jw_s1a_zf L i k hi k.isLt, jw_s1a_xf L i k hi k.isLt⟩) (by simpa using half_X_add_iY)
  · exact key 1 (s1c .jw L i) rfl (fun k => ⟨jw_s1c_zf L i k hi k.isLt, jw_s1c_xf L i k hi k.isLt⟩) (by simpa using half_X_sub_iY)

/-! ### Majorana strings: squares and anticommutation -/

/-- `s₁` without its phase: the second Majorana string of site `i` -/
def tS (enc : Enc) (L i : ℕ) : PS := { s1c enc L i with q := 0 }

theorem tS_hasLen (enc : Enc) (L i : ℕ) (hi : i < L) : (tS enc L i).HasLen L := s1c_hasLen enc L i hi

theorem s1c_mat (enc : Enc) (L i : ℕ) : (s1c enc L i).mat L = (-I) • (tS enc L i).mat L := by
  simp [PS.mat, tS, s1c, PS.zf, PS.xf]
theorem s1a_mat (enc : Enc) (L i : ℕ) : (s1a enc L i).mat L = I • (tS enc L i).mat L := by
  simp [PS.mat, tS, s1c, s1a, PS.zf, PS.xf, pow_succ]

theorem encLadder_create (enc : Enc) (L i : ℕ) :
    encLadder enc L i true = (1 / 2 : ℂ) • ((s0 enc L i).mat L - I • (tS enc L i).mat L) := by
  simp only [encLadder, ladderPair, if_true, s1c_mat]; module
theorem encLadder_annihil (enc : Enc) (L i : ℕ) :
    encLadder enc L i false = (1 / 2 : ℂ) • ((s0 enc L i).mat L + I • (tS enc L i).mat L) := by
  simp only [encLadder, ladderPair, Bool.false_eq_true, if_false, s1a_mat]

theorem mat_sq_of_q0 (n : ℕ) (P : PS) (h : P.q = 0) : P.mat n * P.mat n = 1 := by
  simp only [PS.mat, h, Fin.val_zero, pow_zero, one_smul, tens_mul, letter_mul_self, tens_one]

theorem commutesWith_iff (P R : PS) : P.commutesWith R = true ↔ (dot P.x R.z + dot P.z R.x) % 2 = 0 := by
  simp only [PS.commutesWith, evalTerms, mulEnv, QibGen.Pauli.commTerms, List.map_cons, List.map_nil,
    List.sum_cons, List.sum_nil, beq_iff_eq]
  omega

/-- strings for which the code's `commutes_with` test is odd anticommute as matrices -/
theorem anticomm_of_odd (n : ℕ) (P R : PS) (hP : P.HasLen n) (hR : R.HasLen n)
    (h : (dot P.x R.z + dot P.z R.x) % 2 = 1) : P.mat n * R.mat n = -(R.mat n * P.mat n) := by
  rw [← mat_mul n P R hP hR, ← mat_mul n R P hR hP, mat_eq_smul_body, mat_eq_smul_body,
    body_mul_comm n P R hP hR, ← neg_smul]
  congr 1
  have hq : (P.mul R).q.val % 4 = ((R.mul P).q.val + 2) % 4 := by
    simp only [PS.mul, qOfInt, evalTerms, mulEnv, QibGen.Pauli.mulPhaseTerms, List.map_cons, List.map_nil,
      List.sum_cons, List.sum_nil]
    rw [zipWith_xor_comm R.z P.z, zipWith_xor_comm R.x P.x, dot_comm R.x P.z]
    omega
  rw [negI_pow_congr hq, pow_add]
  simp [pow_succ]

theorem toNat_decide (p : Prop) [Decidable p] : (decide p).toNat = if p then 1 else 0 := by
  by_cases h : p <;> simp [h]

/-- number of sites where both indicator functions are true -/
def cnt (L : ℕ) (p q : ℕ → Bool) : ℕ := ∑ k : Fin L, (p k && q k).toNat

theorem cnt_comm (L : ℕ) (p q : ℕ → Bool) : cnt L p q = cnt L q p := by
  simp only [cnt, Bool.and_comm]

theorem cnt_point (L m : ℕ) (p : ℕ → Bool) : cnt L p (fun k => decide (k = m)) = if m < L then (p m).toNat else 0 := by
  unfold cnt
  split
  · rename_i h
    rw [Finset.sum_eq_single (⟨m, h⟩ : Fin L)]
    · simp
    · intro b _ hb
      have : ¬ b.val = m := fun e => hb (Fin.ext e)
      simp [this]
    · intro hn; exact absurd (Finset.mem_univ _) hn
  · rename_i h
    apply Finset.sum_eq_zero
    intro k _
    have : ¬ k.val = m := by have := k.isLt; omega
    simp [this]

theorem cnt_pred (L j : ℕ) (p : ℕ → Bool) :
    cnt L p (fun k => decide (k + 1 = j)) = if 0 < j ∧ j ≤ L then (p (j - 1)).toNat else 0 := by
  rcases Nat.eq_zero_or_pos j with h | h
  · subst h; simp [cnt]
  · have : (fun k => decide (k + 1 = j)) = (fun k => decide (k = j - 1)) := by
      funext k; congr 1; apply propext; omega
    rw [this, cnt_point]
    have e : (j - 1 < L) = (0 < j ∧ j ≤ L) := by apply propext; omega
    simp only [e]

theorem dot_cnt (L : ℕ) (a b : List Bool) (ha : a.length = L) (hb : b.length = L) (p q : ℕ → Bool)
    (hp : ∀ k, k < L → a.getD k false = p k) (hq : ∀ k, k < L → b.getD k false = q k) : dot a b = cnt L p q := by
  rw [dot_eq_sum L a b ha hb, cnt]
  exact Finset.sum_congr rfl (fun k _ => by rw [hp k k.isLt, hq k k.isLt])

/-- the indicator functions of the check vectors -/
def xI : Enc → ℕ → ℕ → Bool
  | .jw, i, k => decide (k = i)
  | .parity, i, k => decide (i ≤ k)
def zaI : Enc → ℕ → ℕ → Bool
  | .jw, i, k => decide (i < k)
  | .parity, i, k => decide (k + 1 = i)
def zbI : Enc → ℕ → ℕ → Bool
  | .jw, i, k => decide (i ≤ k)
  | .parity, i, k => decide (k = i)

theorem s0_zf_eq (enc : Enc) (L i k : ℕ) (hi : i < L) (hk : k < L) : (s0 enc L i).z.getD k false = zaI enc i k := by
  cases enc
  · exact jw_s0_zf L i k hi hk
  · exact par_s0_zf L i k hi hk
theorem s0_xf_eq (enc : Enc) (L i k : ℕ) (hi : i < L) (hk : k < L) : (s0 enc L i).x.getD k false = xI enc i k := by
  cases enc
  · exact jw_s0_xf L i k hi hk
  · exact par_s0_xf L i k hi hk
theorem tS_zf_eq (enc : Enc) (L i k : ℕ) (hi : i < L) (hk : k < L) : (tS enc L i).z.getD k false = zbI enc i k := by
  cases enc
  · exact jw_s1c_zf L i k hi hk
  · exact par_s1c_zf L i k hi hk
theorem tS_xf_eq (enc : Enc) (L i k : ℕ) (hi : i < L) (hk : k < L) : (tS enc L i).x.getD k false = xI enc i k := by
  cases enc
  · exact jw_s1c_xf L i k hi hk
  · exact par_s1c_xf L i k hi hk

theorem cnt_x_za (enc : Enc) (L i j : ℕ) (hi : i < L) (hj : j < L) :
    cnt L (xI enc i) (zaI enc j) = match enc with | .jw => (decide (j < i)).toNat | .parity => (decide (i < j)).toNat := by
  cases enc
  · show cnt L (fun k => decide (k = i)) (fun k => decide (j < k)) = _
    rw [cnt_comm, cnt_point, if_pos hi]
  · show cnt L (fun k => decide (i ≤ k)) (fun k => decide (k + 1 = j)) = _
    rw [cnt_pred]
    by_cases h : 0 < j
    · rw [if_pos ⟨h, by omega⟩]; congr 2; apply propext; omega
    · rw [if_neg (by omega)]; simp only [toNat_decide]; rw [if_neg (by omega)]

theorem cnt_x_zb (enc : Enc) (L i j : ℕ) (hi : i < L) (hj : j < L) :
    cnt L (xI enc i) (zbI enc j) = match enc with | .jw => (decide (j ≤ i)).toNat | .parity => (decide (i ≤ j)).toNat := by
  cases enc
  · show cnt L (fun k => decide (k = i)) (fun k => decide (j ≤ k)) = _
    rw [cnt_comm, cnt_point, if_pos hi]
  · show cnt L (fun k => decide (i ≤ k)) (fun k => decide (k = j)) = _
    rw [cnt_point, if_pos hj]

/-- `S_i S_j = - S_j S_i` for `i ≠ j` -/
theorem S_anti (enc : Enc) (L i j : ℕ) (hi : i < L) (hj : j < L) (hij : i ≠ j) :
    (s0 enc L i).mat L * (s0 enc L j).mat L = -((s0 enc L j).mat L * (s0 enc L i).mat L) := by
  apply anticomm_of_odd L _ _ (s0_hasLen enc L i hi) (s0_hasLen enc L j hj)
  rw [dot_cnt L _ _ (s0_hasLen enc L i hi).2 (s0_hasLen enc L j hj).1 _ _ (fun k hk => s0_xf_eq enc L i k hi hk)
      (fun k hk => s0_zf_eq enc L j k hj hk),
    dot_cnt L _ _ (s0_hasLen enc L i hi).1 (s0_hasLen enc L j hj).2 _ _ (fun k hk => s0_zf_eq enc L i k hi hk)
      (fun k hk => s0_xf_eq enc L j k hj hk),
    cnt_comm L (zaI enc i), cnt_x_za enc L i j hi hj, cnt_x_za enc L j i hj hi]
  cases enc <;> simp only [toNat_decide] <;> split_ifs <;> omega

/-- `T_i T_j = - T_j T_i` for `i ≠ j` -/
theorem T_anti (enc : Enc) (L i j : ℕ) (hi : i < L) (hj : j < L) (hij : i ≠ j) :
    (tS enc L i).mat L * (tS enc L j).mat L = -((tS enc L j).mat L * (tS enc L i).mat L) := by
  apply anticomm_of_odd L _ _ (tS_hasLen enc L i hi) (tS_hasLen enc L j hj)
  rw [dot_cnt L _ _ (tS_hasLen enc L i hi).2 (tS_hasLen enc L j hj).1 _ _ (fun k hk => tS_xf_eq enc L i k hi hk)
      (fun k hk => tS_zf_eq enc L j k hj hk),
    dot_cnt L _ _ (tS_hasLen enc L i hi).1 (tS_hasLen enc L j hj).2 _ _ (fun k hk => tS_zf_eq enc L i k hi hk)
      (fun k hk => tS_xf_eq enc L j k hj hk),
    cnt_comm L (zbI enc i), cnt_x_zb enc L i j hi hj, cnt_x_zb enc L j i hj hi]
  cases enc <;> simp only [toNat_decide] <;> split_ifs <;> omega

/-- `S_i T_j = - T_j S_i` for all `i`, `j` -/
theorem ST_anti (enc : Enc) (L i j : ℕ) (hi : i < L) (hj : j < L) :
    (s0 enc L i).mat L * (tS enc L j).mat L = -((tS enc L j).mat L * (s0 enc L i).mat L) := by
  apply anticomm_of_odd L _ _ (s0_hasLen enc L i hi) (tS_hasLen enc L j hj)
  rw [dot_cnt L _ _ (s0_hasLen enc L i hi).2 (tS_hasLen enc L j hj).1 _ _ (fun k hk => s0_xf_eq enc L i k hi hk)
      (fun k hk => tS_zf_eq enc L j k hj hk),
    dot_cnt L _ _ (s0_hasLen enc L i hi).1 (tS_hasLen enc L j hj).2 _ _ (fun k hk => s0_zf_eq enc L i k hi hk)
      (fun k hk => tS_xf_eq enc L j k hj hk),
    cnt_comm L (zaI enc i), cnt_x_zb enc L i j hi hj, cnt_x_za enc L j i hj hi]
  cases enc <;> simp only [toNat_decide] <;> split_ifs <;> omega

theorem S_sq (enc : Enc) (L i : ℕ) : (s0 enc L i).mat L * (s0 enc L i).mat L = 1 := mat_sq_of_q0 L _ rfl
theorem T_sq (enc : Enc) (L i : ℕ) : (tS enc L i).mat L * (tS enc L i).mat L = 1 := mat_sq_of_q0 L _ rfl

/-! ### canonical anticommutation relations from the Majorana relations -/

section car
variable {n : Type} [Fintype n] [DecidableEq n]
local notation "Mat" => Matrix n n ℂ

theorem anticomm_expand (a b : ℂ) (Si Ti Sj Tj : Mat) :
    ((1 / 2 : ℂ) • (Si + a • Ti)) * ((1 / 2 : ℂ) • (Sj + b • Tj)) + ((1 / 2 : ℂ) • (Sj + b • Tj)) * ((1 / 2 : ℂ) • (Si + a • Ti)) =
      (1 / 4 : ℂ) • ((Si * Sj + Sj * Si) + (a * b) • (Ti * Tj + Tj * Ti) + b • (Si * Tj + Tj * Si) + a • (Ti * Sj + Sj * Ti)) := by
  simp only [Matrix.smul_mul, Matrix.mul_smul, mul_add, add_mul, smul_add, smul_smul]
  module

end car

/-- all anticommutators of the `2L` Majorana strings -/
theorem majorana_rel (enc : Enc) (L i j : ℕ) (hi : i < L) (hj : j < L) :
    let S := fun k => (s0 enc L k).mat L
    let T := fun k => (tS enc L k).mat L
    S i * S j + S j * S i = (if i = j then (2 : ℂ) else 0) • (1 : Matrix (Fin L → Bool) (Fin L → Bool) ℂ) ∧
    T i * T j + T j * T i = (if i = j then (2 : ℂ) else 0) • (1 : Matrix (Fin L → Bool) (Fin L → Bool) ℂ) ∧
    S i * T j + T j * S i = 0 ∧ T i * S j + S j * T i = 0 := by
  intro S T
  refine ⟨?_, ?_, ?_, ?_⟩
  · by_cases h : i = j
    · subst h; simp only [S, S_sq, if_true]; module
    · simp only [S, if_neg h, zero_smul]; rw [S_anti enc L i j hi hj h]; simp
  · by_cases h : i = j
    · subst h; simp only [T, T_sq, if_true]; module
    · simp only [T, if_neg h, zero_smul]; rw [T_anti enc L i j hi hj h]; simp
  · simp only [S, T]; rw [ST_anti enc L i j hi hj]; simp
  · simp only [S, T]; rw [ST_anti enc L j i hj hi]; simp

/-- the encoded ladder operators of either encoder satisfy the canonical anticommutation relations -/
theorem encLadder_car (enc : Enc) (L i j : ℕ) (hi : i < L) (hj : j < L) :
    (encLadder enc L i false * encLadder enc L j true + encLadder enc L j true * encLadder enc L i false =
        if i = j then 1 else 0) ∧
    encLadder enc L i false * encLadder enc L j false + encLadder enc L j false * encLadder enc L i false = 0 ∧
    encLadder enc L i true * encLadder enc L j true + encLadder enc L j true * encLadder enc L i true = 0 := by
  obtain ⟨hSS, hTT, hST, hTS⟩ := majorana_rel enc L i j hi hj
  simp only at hSS hTT hST hTS
  have hc : ∀ k, encLadder enc L k true = (1 / 2 : ℂ) • ((s0 enc L k).mat L + (-I) • (tS enc L k).mat L) := by
    intro k; rw [encLadder_create]; congr 1; rw [neg_smul, sub_eq_add_neg]
  refine ⟨?_, ?_, ?_⟩
  · rw [encLadder_annihil, hc, anticomm_expand, hSS, hTT, hST, hTS]
    by_cases h : i = j
    · simp only [h, if_true, smul_zero, add_zero, smul_smul, ← add_smul]
      have : (1 / 4 : ℂ) * (2 + I * -I * 2) = 1 := by rw [mul_neg, I_mul_I]; norm_num
      rw [this, one_smul]
    · simp [h]
  · rw [encLadder_annihil, encLadder_annihil, anticomm_expand, hSS, hTT, hST, hTS]
    by_cases h : i = j
    · simp only [h, if_true, smul_zero, add_zero, smul_smul, ← add_smul]
      have : (1 / 4 : ℂ) * (2 + I * I * 2) = 0 := by rw [I_mul_I]; norm_num
      rw [this, zero_smul]
    · simp [h]
  · rw [hc, hc, anticomm_expand, hSS, hTT, hST, hTS]
    by_cases h : i = j
    · simp only [h, if_true, smul_zero, add_zero, smul_smul, ← add_smul]
      have : (1 / 4 : ℂ) * (2 + -I * -I * 2) = 0 := by rw [neg_mul_neg, I_mul_I]; norm_num
      rw [this, zero_smul]
    · simp [h]

/-! ### the vacuum is annihilated -/

theorem S_mat_tens (enc : Enc) (L i : ℕ) (hi : i < L) :
    (s0 enc L i).mat L = tens (fun k : Fin L => letter (zaI enc i k) (xI enc i k)) := by
  have : (s0 enc L i).q.val = 0 := rfl
  simp only [PS.mat, this, pow_zero, one_smul]
  congr 1; funext k
  rw [PS.zf, PS.xf, s0_zf_eq enc L i k hi k.isLt, s0_xf_eq enc L i k hi k.isLt]

theorem T_mat_tens (enc : Enc) (L i : ℕ) (hi : i < L) :
    (tS enc L i).mat L = tens (fun k : Fin L => letter (zbI enc i k) (xI enc i k)) := by
  have : (tS enc L i).q.val = 0 := rfl
  simp only [PS.mat, this, pow_zero, one_smul]
  congr 1; funext k
  rw [PS.zf, PS.xf, tS_zf_eq enc L i k hi k.isLt, tS_xf_eq enc L i k hi k.isLt]

/-- the encoded annihilation operators of either encoder annihilate `|0…0⟩` (column of the all-false index) -/
theorem encLadder_vacuum (enc : Enc) (L i : ℕ) (hi : i < L) (r : Fin L → Bool) :
    encLadder enc L i false r (fun _ => false) = 0 := by
  rw [encLadder_annihil, S_mat_tens enc L i hi, T_mat_tens enc L i hi]
  simp only [Matrix.smul_apply, Matrix.add_apply, smul_eq_mul]
  have h := tens_lincomb_entry (⟨i, hi⟩ : Fin L) (fun k : Fin L => letter (zaI enc i k) (xI enc i k))
    (fun k : Fin L => letter (zbI enc i k) (xI enc i k)) 1 I r (fun _ => false) (by
      intro k hk
      have hk' : k.val ≠ i := fun e => hk (Fin.ext e)
      cases enc
      · simp only [zaI, zbI, xI]
        have e : decide (i ≤ k.val) = decide (i < k.val) := by congr 1; apply propext; omega
        rw [e]
      · simp only [zaI, zbI, xI, hk', decide_false]
        by_cases h1 : k.val + 1 = i
        · have : ¬ i ≤ k.val := by omega
          simp only [h1, this, decide_true, decide_false]
          cases r k <;> simp [letter, zx]
        · simp [h1])
  rw [one_mul] at h
  rw [h]
  have hz : (1 : ℂ) * letter (zaI enc i i) (xI enc i i) (r ⟨i, hi⟩) false + I * letter (zbI enc i i) (xI enc i i) (r ⟨i, hi⟩) false = 0 := by
    cases enc <;> simp only [zaI, zbI, xI] <;> cases r ⟨i, hi⟩ <;> simp [letter, zx]
  simp only [hz, zero_mul, mul_zero]

/-! ### number operators -/

/-- the `Z` string of the encoded occupation number: `Z_i` (Jordan-Wigner), `Z_{i-1} Z_i` with `Z_{-1} := 1` (parity) -/
def numZ (enc : Enc) (L i : ℕ) : Matrix (Fin L → Bool) (Fin L → Bool) ℂ :=
  tens (fun k : Fin L => match enc with
    | .jw => if k.val = i then pauliZ else 1
    | .parity => if k.val + 1 = i ∨ k.val = i then pauliZ else 1)

theorem letter_XY : letter false true * letter true true = I • pauliZ := by
  ext r c; cases r <;> cases c <;> simp [letter, zx, pauliZ, Matrix.mul_apply]

theorem S_mul_T (enc : Enc) (L i : ℕ) (hi : i < L) :
    (s0 enc L i).mat L * (tS enc L i).mat L = I • numZ enc L i := by
  rw [S_mat_tens enc L i hi, T_mat_tens enc L i hi, tens_mul]
  have hs : ∀ k : Fin L, letter (zaI enc i k) (xI enc i k) * letter (zbI enc i k) (xI enc i k) =
      (if k = (⟨i, hi⟩ : Fin L) then I else 1) • (match enc with
        | .jw => if k.val = i then pauliZ else 1
        | .parity => if k.val + 1 = i ∨ k.val = i then pauliZ else 1) := by
    intro k
    by_cases hk : k.val = i
    · have hk2 : k = (⟨i, hi⟩ : Fin L) := Fin.ext hk
      cases enc <;> simp [zaI, zbI, xI, hk2, letter_XY]
    · have hk2 : ¬ k = (⟨i, hi⟩ : Fin L) := fun e => hk (congrArg Fin.val e)
      cases enc
      · simp only [zaI, zbI, xI, hk, hk2, decide_false, if_false, one_smul]
        have e : decide (i ≤ k.val) = decide (i < k.val) := by congr 1; apply propext; omega
        rw [e, letter_mul_self]
      · simp only [zaI, zbI, xI, hk, hk2, decide_false, if_false, one_smul, or_false]
        by_cases h1 : k.val + 1 = i
        · have : ¬ i ≤ k.val := by omega
          simp [h1, this, letter_I, letter_Z]
        · simp only [h1, decide_false, if_false]
          by_cases h2 : i ≤ k.val
          · simp only [h2, decide_true]; exact letter_mul_self false true
          · simp only [h2, decide_false]; exact letter_mul_self false false
  simp only [hs]
  rw [tens_smul, Finset.prod_ite_eq' Finset.univ (⟨i, hi⟩ : Fin L) (fun _ => I)]
  simp [numZ]

/-- encoded `a†_i a_i = ½ (1 - Z…)` -/
theorem encLadder_number (enc : Enc) (L i : ℕ) (hi : i < L) :
    encLadder enc L i true * encLadder enc L i false = (1 / 2 : ℂ) • (1 - numZ enc L i) := by
  have hTS : (tS enc L i).mat L * (s0 enc L i).mat L = -((s0 enc L i).mat L * (tS enc L i).mat L) := by
    rw [ST_anti enc L i i hi hi, neg_neg]
  have key : ∀ (a : ℂ) (S T : Matrix (Fin L → Bool) (Fin L → Bool) ℂ),
      ((1 / 2 : ℂ) • (S - a • T)) * ((1 / 2 : ℂ) • (S + a • T)) =
        (1 / 4 : ℂ) • (S * S - (a * a) • (T * T) + a • (S * T) - a • (T * S)) := by
    intro a S T
    simp only [Matrix.smul_mul, Matrix.mul_smul, mul_add, sub_mul, smul_add, smul_sub, smul_smul]
    module
  rw [encLadder_create, encLadder_annihil, key, S_sq, T_sq, hTS, S_mul_T enc L i hi, I_mul_I]
  simp only [smul_neg, smul_smul, I_mul_I]
  module

end Qib.Encode
