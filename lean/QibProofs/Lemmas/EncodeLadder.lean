import Mathlib.Tactic.Module
import Mathlib.Algebra.BigOperators.Group.Finset.Basic
import QibProofs.Lemmas.EncodeStrings
/-!
Encoders (C11, C12): matrices of the encoded ladder operators.

* `ladder L i create`  : the reference ladder matrix of `field_operator.py:201-217` – identity on earlier sites,
  `U = [[0,0],[1,0]]` (creation) or its adjoint on site `i`, `Z` on LATER sites.
* `encLadder enc L i create = ½ (s₀.mat + s₁.mat)` : what the encoder substitutes for a ladder operator.
* `jw_ladder`           : for Jordan-Wigner the two agree.
* Majorana strings `S i = s₀`, `T i` (`s₁` without its phase): squares, pairwise anticommutation (from the
  code's commutation test on the indicator vectors), hence the canonical anticommutation relations for both encoders;
  vacuum annihilation and number operators.
Helper lemmas only.
-/
set_option linter.unusedVariables false
set_option linter.unnecessarySeqFocus false
open Complex Matrix
namespace Qib.Encode
open Qib.Pauli

/-! ### linear combinations of tensor products that differ at one site -/

theorem tens_split {n : ℕ} (i : Fin n) (A : Fin n → Matrix Bool Bool ℂ) (r c : Fin n → Bool) :
    tens A r c = A i (r i) (c i) * ∏ k ∈ Finset.univ.erase i, A k (r k) (c k) := by
  simp only [tens]
  rw [Finset.mul_prod_erase Finset.univ (fun k => A k (r k) (c k)) (Finset.mem_univ i)]

/-- entrywise: two tensor products whose factors agree (at the entry looked at) away from site `i` -/
theorem tens_lincomb_entry {n : ℕ} (i : Fin n) (A B : Fin n → Matrix Bool Bool ℂ) (a b : ℂ) (r c : Fin n → Bool)
    (hAB : ∀ k, k ≠ i → A k (r k) (c k) = B k (r k) (c k)) :
    a * tens A r c + b * tens B r c =
      (a * A i (r i) (c i) + b * B i (r i) (c i)) * ∏ k ∈ Finset.univ.erase i, A k (r k) (c k) := by
  rw [tens_split i A, tens_split i B]
  have : ∏ k ∈ Finset.univ.erase i, B k (r k) (c k) = ∏ k ∈ Finset.univ.erase i, A k (r k) (c k) :=
    Finset.prod_congr rfl (fun k hk => (hAB k (Finset.ne_of_mem_erase hk)).symm)
  rw [this]; ring

/-- `a • tens A + b • tens B = tens C` when all three agree away from site `i` and `a • A i + b • B i = C i` -/
theorem tens_lincomb {n : ℕ} (i : Fin n) (A B C : Fin n → Matrix Bool Bool ℂ) (a b : ℂ)
    (hA : ∀ k, k ≠ i → A k = C k) (hB : ∀ k, k ≠ i → B k = C k) (hi : a • A i + b • B i = C i) :
    a • tens A + b • tens B = tens C := by
  ext r c
  simp only [Matrix.add_apply, Matrix.smul_apply, smul_eq_mul]
  rw [tens_lincomb_entry i A B a b r c (fun k hk => by rw [hA k hk, hB k hk]), tens_split i C]
  have h1 : a * A i (r i) (c i) + b * B i (r i) (c i) = C i (r i) (c i) := by
    rw [← hi]; simp [Matrix.add_apply, Matrix.smul_apply]
  rw [h1]
  congr 1
  exact Finset.prod_congr rfl (fun k hk => by rw [hA k (Finset.ne_of_mem_erase hk)])

/-! ### reference ladder operators -/

/-- `U = [[0,0],[1,0]]` -/
def createM : Matrix Bool Bool ℂ := fun r c => if r = true ∧ c = false then 1 else 0
/-- `Uᴴ = [[0,1],[0,0]]` -/
def annihilM : Matrix Bool Bool ℂ := fun r c => if r = false ∧ c = true then 1 else 0

theorem createM_conjTranspose : createMᴴ = annihilM := by
  ext r c; cases r <;> cases c <;> simp [createM, annihilM, Matrix.conjTranspose_apply]

/-- `1 ⊗ … ⊗ 1 ⊗ U ⊗ Z ⊗ … ⊗ Z` with `U` (creation) or `Uᴴ` (annihilation) on site `i` -/
def ladder (L i : ℕ) (create : Bool) : Matrix (Fin L → Bool) (Fin L → Bool) ℂ :=
  tens (fun k : Fin L => if k.val < i then 1 else if k.val = i then (if create then createM else annihilM) else pauliZ)

theorem ladder_conjTranspose (L i : ℕ) : (ladder L i true)ᴴ = ladder L i false := by
  simp only [ladder, tens_conjTranspose]
  congr 1; funext k
  split
  · simp
  · split
    · simp [createM_conjTranspose]
    · ext r c; cases r <;> cases c <;> simp [pauliZ, Matrix.conjTranspose_apply]

/-- what the encoder substitutes for `a†_i` (create) / `a_i`: half the sum of the two strings -/
noncomputable def encLadder (enc : Enc) (L i : ℕ) (create : Bool) : Matrix (Fin L → Bool) (Fin L → Bool) ℂ :=
  (1 / 2 : ℂ) • ((ladderPair enc L i create).1.mat L + (ladderPair enc L i create).2.mat L)

theorem half_X_sub_iY : (1 / 2 : ℂ) • letter false true + ((1 / 2 : ℂ) * (-I) ^ 1) • letter true true = createM := by
  ext r c; cases r <;> cases c <;> simp [letter, zx, createM] <;> (try (simp only [mul_assoc, I_mul_I]; norm_num))
theorem half_X_add_iY : (1 / 2 : ℂ) • letter false true + ((1 / 2 : ℂ) * (-I) ^ 3) • letter true true = annihilM := by
  ext r c; cases r <;> cases c <;> simp [letter, zx, annihilM, pow_succ] <;> (try (simp only [mul_assoc, I_mul_I]; norm_num))

/-- Jordan-Wigner: `½ (s₀ + s₁)` with the code's phases is the reference ladder operator -/
theorem jw_ladder (L i : ℕ) (hi : i < L) (create : Bool) : encLadder .jw L i create = ladder L i create := by
  have key : ∀ (q : Fin 4) (s1 : PS), s1.q = q → (∀ k : Fin L, s1.zf k = decide (i ≤ k.val) ∧ s1.xf k = decide (k.val = i)) →
      ((1 / 2 : ℂ) • letter false true + ((1 / 2 : ℂ) * (-I) ^ q.val) • letter true true =
        (if create then createM else annihilM)) →
      (1 / 2 : ℂ) • ((s0 .jw L i).mat L + s1.mat L) = ladder L i create := by
    intro q s1 hq hs1 hsite
    simp only [PS.mat, smul_add, smul_smul, ladder]
    have e0 : (s0 .jw L i).q.val = 0 := rfl
    rw [e0, pow_zero, mul_one, hq]
    apply tens_lincomb ⟨i, hi⟩
    · intro k hk
      have hk' : k.val ≠ i := fun h => hk (Fin.ext h)
      rw [jw_s0_zf L i k hi k.isLt, jw_s0_xf L i k hi k.isLt]
      by_cases h : k.val < i
      · simp [h, hk', letter_I, show ¬ i < k.val by omega]
      · simp [h, hk', letter_Z, show i < k.val by omega]
    · intro k hk
      have hk' : k.val ≠ i := fun h => hk (Fin.ext h)
      rw [(hs1 k).1, (hs1 k).2]
      by_cases h : k.val < i
      · simp [h, hk', letter_I, show ¬ i ≤ k.val by omega]
      · simp [h, hk', letter_Z, show i ≤ k.val by omega]
    · rw [jw_s0_zf L i i hi hi, jw_s0_xf L i i hi hi, (hs1 ⟨i, hi⟩).1, (hs1 ⟨i, hi⟩).2]
      simpa using hsite
  cases create
  · exact key 3 (s1a .jw L i) rfl (fun k => ⟨jw_s1a_zf L i k hi k.isLt, jw_s1a_xf L i k hi k.isLt⟩) (by simpa using half_X_add_iY)
  · exact key 1 (s1c .jw L i) rfl (fun k => ⟨jw_s1c_zf L i k hi k.isLt, jw_s1c_xf L i k hi k.isLt⟩) (by simpa using half_X_sub_iY)

end Qib.Encode
