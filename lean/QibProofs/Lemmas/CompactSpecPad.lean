import QibProofs.Lemmas.CompactSpecHopZ
import QibProofs.Lemmas.CompactSpecEig
import Mathlib.Logic.Equiv.Prod
/-!
C13, spectral part — helper lemmas, part 9: one spectator qubit.  `pad B` is `B ⊗ 1₂` with the extra qubit as the *last* tensor
factor.  The quadratic fermionic operator on the first `n` of `n + 1` Jordan-Wigner modes is `pad` of the operator on `n` modes
(the sign strings `Z` on the extra mode cancel in every product `a†_i a_j`), and `charpoly (pad B) = (charpoly B)²`: every
eigenvalue of `B` occurs in `pad B` with exactly twice its multiplicity.
-/
set_option linter.unusedSimpArgs false
set_option linter.unusedVariables false
open Complex Matrix
namespace Qib.Compact
open Qib.Pauli Qib.Lattice

/-- `B ⊗ 1₂`, spectator qubit last -/
def pad {n : ℕ} (B : Matrix (Fin n → Bool) (Fin n → Bool) ℂ) : Matrix (Fin (n + 1) → Bool) (Fin (n + 1) → Bool) ℂ :=
  fun r c => if r (Fin.last n) = c (Fin.last n) then B (fun k => r k.castSucc) (fun k => c k.castSucc) else 0

theorem pad_add {n : ℕ} (A B : Matrix (Fin n → Bool) (Fin n → Bool) ℂ) : pad (A + B) = pad A + pad B := by
  ext r c; simp only [pad, Matrix.add_apply]; split <;> simp

theorem pad_smul {n : ℕ} (a : ℂ) (B : Matrix (Fin n → Bool) (Fin n → Bool) ℂ) : pad (a • B) = a • pad B := by
  ext r c; simp only [pad, Matrix.smul_apply]; split <;> simp

theorem pad_zero {n : ℕ} : pad (0 : Matrix (Fin n → Bool) (Fin n → Bool) ℂ) = 0 := by
  ext r c; simp [pad]

theorem pad_sum {n : ℕ} {ι : Type} (s : Finset ι) (f : ι → Matrix (Fin n → Bool) (Fin n → Bool) ℂ) :
    pad (∑ i ∈ s, f i) = ∑ i ∈ s, pad (f i) := by
  classical
  induction s using Finset.induction_on with
  | empty => simp [pad_zero]
  | insert a s ha ih => rw [Finset.sum_insert ha, Finset.sum_insert ha, pad_add, ih]

theorem pad_list_sum {n : ℕ} (l : List (Matrix (Fin n → Bool) (Fin n → Bool) ℂ)) : pad l.sum = (l.map pad).sum := by
  induction l with
  | nil => simp [pad_zero]
  | cons a l ih => simp [pad_add, ih]

/-- a tensor product whose last factor is the identity is `pad` of the tensor product of the other factors -/
theorem tens_last_one {n : ℕ} (A : Fin (n + 1) → Matrix Bool Bool ℂ) (h : A (Fin.last n) = 1) :
    tens A = pad (tens (fun k : Fin n => A k.castSucc)) := by
  ext r c
  simp only [tens, pad, Fin.prod_univ_castSucc, h, Matrix.one_apply]
  split <;> simp

open Qib.Encode in
/-- `a†_i a_j` on `n + 1` modes, for `i, j < n`: the sign strings on the extra mode cancel -/
theorem ladder_pair_pad (n i j : ℕ) (hi : i < n) (hj : j < n) :
    ladder (n + 1) i true * ladder (n + 1) j false = pad (ladder n i true * ladder n j false) := by
  simp only [ladder, tens_mul]
  rw [tens_last_one]
  · rfl
  · have h1 : ¬ (Fin.last n).val < i := by simp only [Fin.val_last]; omega
    have h2 : ¬ (Fin.last n).val = i := by simp only [Fin.val_last]; omega
    have h3 : ¬ (Fin.last n).val < j := by simp only [Fin.val_last]; omega
    have h4 : ¬ (Fin.last n).val = j := by simp only [Fin.val_last]; omega
    simp only [h1, h2, h3, h4, if_false, pauliZ_sq]

/-- the quadratic operator on the first `n` of `n + 1` modes is `(operator on n modes) ⊗ 1₂` -/
theorem quadFN_succ (n : ℕ) (c : ℕ → ℕ → ℂ) : quadFN (n + 1) n c = pad (quadF n c) := by
  unfold quadFN quadF
  rw [pad_sum]
  apply Finset.sum_congr rfl; intro i hi
  rw [pad_sum]
  apply Finset.sum_congr rfl; intro j hj
  rw [pad_smul, ladder_pair_pad n i j (Finset.mem_range.mp hi) (Finset.mem_range.mp hj)]

/-- basis states of `n + 1` qubits as (state of the first `n`) in one of two blocks (last qubit `0` / `1`) -/
def splitLast (n : ℕ) : (Fin (n + 1) → Bool) ≃ (Fin n → Bool) ⊕ (Fin n → Bool) :=
  (Fin.snocEquiv (fun _ : Fin (n + 1) => Bool)).symm.trans (Equiv.boolProdEquivSum (Fin n → Bool))

theorem pad_blocks {n : ℕ} (B : Matrix (Fin n → Bool) (Fin n → Bool) ℂ) :
    Matrix.reindex (splitLast n) (splitLast n) (pad B) = Matrix.fromBlocks B 0 0 B := by
  ext a b
  rcases a with a | a <;> rcases b with b | b <;>
    simp [splitLast, pad, Matrix.reindex_apply, Matrix.submatrix_apply, Equiv.boolProdEquivSum, Fin.snocEquiv, Fin.snoc_castSucc,
      Fin.snoc_last]

/-- **every level twice**: `charpoly (B ⊗ 1₂) = (charpoly B)²` -/
theorem charpoly_pad {n : ℕ} (B : Matrix (Fin n → Bool) (Fin n → Bool) ℂ) : (pad B).charpoly = B.charpoly ^ 2 := by
  rw [← Matrix.charpoly_reindex (splitLast n) (pad B), pad_blocks, Matrix.charpoly_fromBlocks_zero₁₂, pow_two]

theorem pad_conjTranspose {n : ℕ} (B : Matrix (Fin n → Bool) (Fin n → Bool) ℂ) : (pad B)ᴴ = pad Bᴴ := by
  ext r c
  simp only [pad, Matrix.conjTranspose_apply]
  by_cases h : r (Fin.last n) = c (Fin.last n)
  · simp [h]
  · have : ¬ c (Fin.last n) = r (Fin.last n) := fun e => h e.symm
    simp [h, this]

end Qib.Compact
