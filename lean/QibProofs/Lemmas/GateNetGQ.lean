import QibModel.GQ
import Mathlib.Algebra.Ring.Rat
import Mathlib.Tactic.Ring
/-!
Helper for C06: the Gaussian rationals of the driver (`QibModel/GQ.lean`), with the driver's own `0`, `1`, `+`, `*`,
form a commutative semiring, so theorems stated over an arbitrary commutative semiring apply literally to what the
driver computes. No property statements.
-/
namespace Qib.GQ

theorem ext' {a b : GQ} (h1 : a.re = b.re) (h2 : a.im = b.im) : a = b := by
  cases a; cases b; simp_all

@[simp] theorem add_re (a b : GQ) : (a + b).re = a.re + b.re := rfl
@[simp] theorem add_im (a b : GQ) : (a + b).im = a.im + b.im := rfl
@[simp] theorem mul_re (a b : GQ) : (a * b).re = a.re * b.re - a.im * b.im := rfl
@[simp] theorem mul_im (a b : GQ) : (a * b).im = a.re * b.im + a.im * b.re := rfl
@[simp] theorem zero_re : (0 : GQ).re = 0 := rfl
@[simp] theorem zero_im : (0 : GQ).im = 0 := rfl
@[simp] theorem one_re : (1 : GQ).re = 1 := rfl
@[simp] theorem one_im : (1 : GQ).im = 0 := rfl

/-- the driver's Gaussian rationals, with the driver's own `0`, `1`, `+`, `*`, form a commutative semiring -/
instance : CommSemiring GQ where
  add := (· + ·)
  mul := (· * ·)
  zero := 0
  one := 1
  add_assoc a b c := ext' (by simp; ring) (by simp; ring)
  zero_add a := ext' (by simp) (by simp)
  add_zero a := ext' (by simp) (by simp)
  add_comm a b := ext' (by simp; ring) (by simp; ring)
  left_distrib a b c := ext' (by simp; ring) (by simp; ring)
  right_distrib a b c := ext' (by simp; ring) (by simp; ring)
  zero_mul a := ext' (by simp) (by simp)
  mul_zero a := ext' (by simp) (by simp)
  mul_assoc a b c := ext' (by simp; ring) (by simp; ring)
  one_mul a := ext' (by simp) (by simp)
  mul_one a := ext' (by simp) (by simp)
  mul_comm a b := ext' (by simp; ring) (by simp; ring)
  nsmul := nsmulRec
  npow := npowRec

example : (inferInstance : Mul GQ) = (CommSemiring.toNonUnitalCommSemiring.toNonUnitalSemiring.toMul : Mul GQ) := rfl
end Qib.GQ
