import QibProofs.Lemmas.FermiTens
/-!
Core D / C10, Mathlib side: the Jordan–Wigner reference ladder matrices in bit-function indexing and their algebra.

* `siteUm = [[0,0],[1,0]]`, `siteDm = siteUmᴴ`, `ladSite create`.
* `ladFam i u k` : the 2×2 factor on site `k` of a ladder operator on site `i`: `1` for `k < i`, `u` for `k = i`,
                   `Z` for the LATER sites `k > i` (lines 209-214 of `field_operator.py`).
* `ladderM L i create = tens (ladFam i (ladSite create))`.
* `ladderM_conjTranspose`, `ladderM_anticomm_ne` (any two ladder operators on different sites anticommute),
  `ladderM_mul_same` (same site: `single i (u * v)`), `car_ac`, `car_aa`, `car_cc`, `ladderM_vacuum`, `number_diagonal`.
Helper lemmas only; the property statements are in `Properties/C10.lean`.
-/

open Complex Matrix
namespace Qib.Fermi

noncomputable section

/-- `U = [[0, 0], [1, 0]]` (row/column index `false` = 0 = empty, `true` = 1 = occupied) -/
def siteUm : Matrix Bool Bool ℂ := fun r c => if r = true ∧ c = false then 1 else 0
/-- `Uᴴ = [[0, 1], [0, 0]]` -/
def siteDm : Matrix Bool Bool ℂ := fun r c => if r = false ∧ c = true then 1 else 0
/-- the occupation projector `U Uᴴ = [[0, 0], [0, 1]]` -/
def siteNm : Matrix Bool Bool ℂ := Matrix.diagonal fun b => if b then 1 else 0

def ladSite (create : Bool) : Matrix Bool Bool ℂ := if create then siteUm else siteDm

theorem siteUm_conjTranspose : siteUmᴴ = siteDm := by
  ext r c; cases r <;> cases c <;> simp [siteUm, siteDm, Matrix.conjTranspose_apply]
theorem siteDm_conjTranspose : siteDmᴴ = siteUm := by
  ext r c; cases r <;> cases c <;> simp [siteUm, siteDm, Matrix.conjTranspose_apply]
theorem pauliZ_conjTranspose : pauliZᴴ = pauliZ := by
  ext r c; cases r <;> cases c <;> simp [pauliZ, Matrix.conjTranspose_apply]
theorem ladSite_conjTranspose (a : Bool) : (ladSite a)ᴴ = ladSite (!a) := by
  cases a <;> simp [ladSite, siteUm_conjTranspose, siteDm_conjTranspose]

theorem pauliZ_mul_self : pauliZ * pauliZ = 1 := by
  ext r c; cases r <;> cases c <;> simp [pauliZ, Matrix.mul_apply]
theorem pauliZ_mul_ladSite (a : Bool) : pauliZ * ladSite a = (-1 : ℂ) • (ladSite a * pauliZ) := by
  ext r c; cases a <;> cases r <;> cases c <;> simp [pauliZ, ladSite, siteUm, siteDm, Matrix.mul_apply]
theorem ladSite_mul_self (a : Bool) : ladSite a * ladSite a = 0 := by
  ext r c; cases a <;> cases r <;> cases c <;> simp [ladSite, siteUm, siteDm, Matrix.mul_apply]
theorem siteDm_mul_siteUm_add : siteDm * siteUm + siteUm * siteDm = 1 := by
  ext r c; cases r <;> cases c <;> simp [siteUm, siteDm, Matrix.mul_apply]
theorem siteUm_mul_siteDm : siteUm * siteDm = siteNm := by
  ext r c; cases r <;> cases c <;> simp [siteUm, siteDm, siteNm, Matrix.mul_apply, Matrix.diagonal]

/-! ### general facts about `tens` -/

theorem tens_eq_zero {n : ℕ} (A : Fin n → Matrix Bool Bool ℂ) (i : Fin n) (h : A i = 0) : tens A = 0 := by
  ext r c
  simp only [tens, Matrix.zero_apply]
  exact Finset.prod_eq_zero (Finset.mem_univ i) (by simp [h])

theorem tens_diagonal {n : ℕ} (d : Fin n → Bool → ℂ) :
    tens (fun k => Matrix.diagonal (d k)) = Matrix.diagonal (fun r => ∏ k, d k (r k)) := by
  ext r c
  by_cases h : r = c
  · subst h; simp [tens]
  · rw [Matrix.diagonal_apply_ne _ h]
    obtain ⟨k, hk⟩ := Function.ne_iff.mp h
    exact Finset.prod_eq_zero (Finset.mem_univ k) (by simp [hk])

/-- `1 ⊗ … ⊗ X ⊗ … ⊗ 1` with `X` on site `i` -/
def single {n : ℕ} (i : Fin n) (X : Matrix Bool Bool ℂ) : Matrix (Fin n → Bool) (Fin n → Bool) ℂ :=
  tens (fun k => if k = i then X else 1)

theorem single_apply {n : ℕ} (i : Fin n) (X : Matrix Bool Bool ℂ) (r c : Fin n → Bool) :
    single i X r c = X (r i) (c i) * ∏ k ∈ Finset.univ.erase i, (1 : Matrix Bool Bool ℂ) (r k) (c k) := by
  simp only [single, tens]
  rw [← Finset.mul_prod_erase Finset.univ _ (Finset.mem_univ i)]
  simp only [if_true]
  congr 1
  apply Finset.prod_congr rfl
  intro k hk
  rw [if_neg (Finset.ne_of_mem_erase hk)]

theorem single_add {n : ℕ} (i : Fin n) (X Y : Matrix Bool Bool ℂ) :
    single i X + single i Y = single i (X + Y) := by
  ext r c
  simp only [Matrix.add_apply, single_apply, add_mul]

theorem single_one {n : ℕ} (i : Fin n) : single i (1 : Matrix Bool Bool ℂ) = 1 := by
  simp only [single, ite_self, tens_one]

theorem single_zero {n : ℕ} (i : Fin n) : single i (0 : Matrix Bool Bool ℂ) = 0 :=
  tens_eq_zero _ i (by simp)

/-! ### ladder operators -/

/-- factor on site `k` of a ladder operator on site `i`: sign string `Z` on the later sites -/
def ladFam {L : ℕ} (i : Fin L) (u : Matrix Bool Bool ℂ) : Fin L → Matrix Bool Bool ℂ :=
  fun k => if k < i then 1 else if k = i then u else pauliZ

/-- `clist[i]` (`create = true`) / `alist[i]` (`create = false`) in bit-function indexing -/
def ladderM (L : ℕ) (i : Fin L) (create : Bool) : Matrix (Fin L → Bool) (Fin L → Bool) ℂ :=
  tens (ladFam i (ladSite create))

theorem ladderM_conjTranspose (L : ℕ) (i : Fin L) (a : Bool) : (ladderM L i a)ᴴ = ladderM L i (!a) := by
  simp only [ladderM, tens_conjTranspose]
  congr 1
  funext k
  simp only [ladFam]
  split_ifs <;> simp [ladSite_conjTranspose, pauliZ_conjTranspose]

theorem ladFam_mul_lt {L : ℕ} (i j : Fin L) (hij : i < j) (a b : Bool) (k : Fin L) :
    ladFam i (ladSite a) k * ladFam j (ladSite b) k =
      (if k = j then (-1 : ℂ) else 1) • (ladFam j (ladSite b) k * ladFam i (ladSite a) k) := by
  simp only [ladFam]
  rcases lt_trichotomy k i with h | h | h
  · have h1 : k < j := lt_trans h hij
    have h2 : k ≠ j := ne_of_lt h1
    simp [h, h1, h2]
  · subst h
    have h2 : k ≠ j := ne_of_lt hij
    simp [hij, h2]
  · have h0 : ¬ k < i := not_lt.mpr (le_of_lt h)
    have h0' : k ≠ i := ne_of_gt h
    rcases lt_trichotomy k j with g | g | g
    · have g2 : k ≠ j := ne_of_lt g
      simp [h0, h0', g, g2]
    · subst g
      simp [h0, h0', pauliZ_mul_ladSite]
    · have g0 : ¬ k < j := not_lt.mpr (le_of_lt g)
      have g0' : k ≠ j := ne_of_gt g
      simp [h0, h0', g0, g0']

theorem ladderM_anticomm_lt (L : ℕ) (i j : Fin L) (hij : i < j) (a b : Bool) :
    ladderM L i a * ladderM L j b + ladderM L j b * ladderM L i a = 0 := by
  simp only [ladderM, tens_mul]
  have h : (fun k => ladFam i (ladSite a) k * ladFam j (ladSite b) k) =
      fun k => (if k = j then (-1 : ℂ) else 1) • (ladFam j (ladSite b) k * ladFam i (ladSite a) k) := by
    funext k; exact ladFam_mul_lt i j hij a b k
  rw [h, tens_smul, Finset.prod_ite_eq' Finset.univ j (fun _ => (-1 : ℂ))]
  simp

/-- ladder operators on different sites anticommute, whatever their kinds -/
theorem ladderM_anticomm_ne (L : ℕ) (i j : Fin L) (hij : i ≠ j) (a b : Bool) :
    ladderM L i a * ladderM L j b + ladderM L j b * ladderM L i a = 0 := by
  rcases lt_or_gt_of_ne hij with h | h
  · exact ladderM_anticomm_lt L i j h a b
  · rw [add_comm]; exact ladderM_anticomm_lt L j i h b a

/-- two ladder operators on the same site: the sign strings cancel -/
theorem ladderM_mul_same (L : ℕ) (i : Fin L) (a b : Bool) :
    ladderM L i a * ladderM L i b = single i (ladSite a * ladSite b) := by
  simp only [ladderM, tens_mul, single]
  congr 1
  funext k
  simp only [ladFam]
  rcases lt_trichotomy k i with h | h | h
  · simp [h, ne_of_lt h]
  · subst h; simp
  · simp [not_lt.mpr (le_of_lt h), ne_of_gt h, pauliZ_mul_self]

/-- `aᵢ aⱼ† + aⱼ† aᵢ = δᵢⱼ` -/
theorem car_ac (L : ℕ) (i j : Fin L) :
    ladderM L i false * ladderM L j true + ladderM L j true * ladderM L i false = if i = j then 1 else 0 := by
  by_cases h : i = j
  · subst h
    rw [if_pos rfl, ladderM_mul_same, ladderM_mul_same, single_add]
    simp only [ladSite, if_true, Bool.false_eq_true, if_false, siteDm_mul_siteUm_add, single_one]
  · rw [if_neg h]; exact ladderM_anticomm_ne L i j h false true

/-- `aᵢ aⱼ + aⱼ aᵢ = 0` and `aᵢ† aⱼ† + aⱼ† aᵢ† = 0` -/
theorem car_same_kind (L : ℕ) (i j : Fin L) (a : Bool) :
    ladderM L i a * ladderM L j a + ladderM L j a * ladderM L i a = 0 := by
  by_cases h : i = j
  · subst h
    rw [ladderM_mul_same, ladSite_mul_self, single_zero, add_zero]
  · exact ladderM_anticomm_ne L i j h a a

/-- in particular `aᵢ aᵢ = 0`, `aᵢ† aᵢ† = 0` (Pauli exclusion) -/
theorem ladderM_sq (L : ℕ) (i : Fin L) (a : Bool) : ladderM L i a * ladderM L i a = 0 := by
  rw [ladderM_mul_same, ladSite_mul_self, single_zero]

/-- every annihilation operator has a zero column at the all-empty state -/
theorem ladderM_vacuum (L : ℕ) (i : Fin L) (r : Fin L → Bool) : ladderM L i false r (fun _ => false) = 0 := by
  simp only [ladderM, tens]
  exact Finset.prod_eq_zero (Finset.mem_univ i) (by simp [ladFam, ladSite, siteDm])

/-- `aᵢ† aᵢ` is diagonal with the occupation bit of site `i` -/
theorem number_diagonal (L : ℕ) (i : Fin L) :
    ladderM L i true * ladderM L i false = Matrix.diagonal (fun r => if r i then (1 : ℂ) else 0) := by
  rw [ladderM_mul_same]
  simp only [ladSite, if_true, Bool.false_eq_true, if_false, siteUm_mul_siteDm, single, siteNm]
  have h : (fun k : Fin L => if k = i then Matrix.diagonal (fun b : Bool => if b then (1 : ℂ) else 0) else 1) =
      fun k => Matrix.diagonal (fun b : Bool => if k = i then (if b then (1 : ℂ) else 0) else 1) := by
    funext k
    by_cases hk : k = i
    · simp [hk]
    · simp only [hk, if_false]; exact Matrix.diagonal_one.symm
  rw [h, tens_diagonal]
  congr 1
  funext r
  rw [Finset.prod_ite_eq' Finset.univ i (fun k => if r k then (1 : ℂ) else 0)]
  simp

end

end Qib.Fermi
