import QibProofs.Lemmas.TNetTreeBuildInv
/-!
Helper lemmas for C07, part 18 (tree builder, 4): the steps of the node case of `buildTree` made explicit
(`buildTree_node_full`), the tracking of the remaining open axes (`trackFun_spec`) and the assembly `buildNode_cert`:
the node record computed by `_build_contraction_tree` from two children with certified tracking satisfies every clause
of the node certificate (no property statements).
-/
namespace Qib.TNet

theorem bind_ok {ε γ δ : Type} {x : Except ε γ} {f : γ → Except ε δ} {b : δ} (h : (x >>= f) = .ok b) :
    ∃ a, x = .ok a ∧ f a = .ok b := by
  cases x with
  | error e => cases h
  | ok a => exact ⟨a, rfl, h⟩

/-- the function computing the leg of a remaining open axis -/
def trackFun (nL nR : NodeInfo) (st : IdxState) (ta : Int × Nat) : Except Err Nat :=
  match trackOf nL ta with
  | some r => do
    let k ← r
    let some lk := st.idxL[k]? | throw Err.indexError
    match indexOf? st.idxout lk with | some p => pure p | none => throw Err.valueError
  | none => match trackOf nR ta with
    | some r => do
      let k ← r
      let some lk := st.idxR[k]? | throw Err.indexError
      match indexOf? st.idxout lk with | some p => pure p | none => throw Err.valueError
    | none => throw Err.assertion

theorem buildTree_node_full {net : Net} {sl sr : Scaffold} {k : Int} {t : Tree}
    (h : buildTree net (.node sl sr) k = .ok t) :
    ∃ tL tR k' scan st trackaxes tid, buildTree net sl k = .ok tL ∧ buildTree net sr k' = .ok tR ∧
      (tL.info.openaxes.any tR.info.openaxes.contains) = false ∧
      (tL.info.openaxes ++ tR.info.openaxes).foldlM (bondScanStep net tL.info tR.info)
        ([], [], tL.info.openaxes ++ tR.info.openaxes) = .ok scan ∧
      scan.2.1.foldlM assignBond (idxState0 tL.info.idxout.length tR.info.idxout.length) = .ok st ∧
      scan.2.2.mapM (trackFun tL.info tR.info st) = .ok trackaxes ∧
      t = .node { tid := tid, idxL := st.idxL, idxR := st.idxR, idxout := st.idxout, openaxes := scan.2.2,
                  trackaxes := trackaxes } tL tR := by
  unfold buildTree at h
  obtain ⟨tL, hL, h⟩ := bind_ok h
  try dsimp only at h
  obtain ⟨tR, hR, h⟩ := bind_ok h
  try dsimp only at h
  split at h
  · cases h
  rename_i hany
  obtain ⟨scan, hscan, h⟩ := bind_ok h
  obtain ⟨bl, bm, oa⟩ := scan
  try dsimp only at h
  obtain ⟨st, hst, h⟩ := bind_ok h
  obtain ⟨tr, htr, h⟩ := bind_ok h
  simp only [pure, Except.pure, Except.ok.injEq] at h
  refine ⟨tL, tR, _, (bl, bm, oa), st, tr, _, hL, hR, by simpa using hany, hscan, hst, htr, h.symm⟩

end Qib.TNet

namespace Qib.TNet

/-- what `trackFun` returns for a remaining open axis: the position of the label of its child leg -/
theorem trackFun_spec {net : Net} {nL nR : NodeInfo} (hL : InfoCert net nL) (hR : InfoCert net nR) {st : IdxState}
    {ta : Int × Nat} {p : Nat} (h : trackFun nL nR st ta = .ok p) :
    ∃ e, ent nL nR ta = some e ∧ st.idxout[p]? = some (lbl st e) := by
  unfold trackFun at h
  rw [trackOf_spec hL, trackOf_spec hR] at h
  by_cases h1 : ta ∈ nL.openaxes
  · simp only [h1, if_true, bind, Except.bind] at h
    split at h
    swap
    · simp [throw, throwThe, MonadExceptOf.throw] at h
    rename_i lk hlk
    split at h
    swap
    · simp [throw, throwThe, MonadExceptOf.throw] at h
    rename_i p' hp'
    simp only [pure, Except.pure, Except.ok.injEq] at h
    subst h
    refine ⟨(Side.L, trk nL ta), by simp [ent, h1], ?_⟩
    rw [indexOf?_eq_some hp']
    simp [lbl, hlk]
  · by_cases h2 : ta ∈ nR.openaxes
    · simp only [h1, h2, if_true, if_false, bind, Except.bind] at h
      split at h
      swap
      · simp [throw, throwThe, MonadExceptOf.throw] at h
      rename_i lk hlk
      split at h
      swap
      · simp [throw, throwThe, MonadExceptOf.throw] at h
      rename_i p' hp'
      simp only [pure, Except.pure, Except.ok.injEq] at h
      subst h
      refine ⟨(Side.R, trk nR ta), by simp [ent, h1, h2], ?_⟩
      rw [indexOf?_eq_some hp']
      simp [lbl, hlk]
    · simp [h1, h2, throw, throwThe, MonadExceptOf.throw] at h

/-- two sublists of a duplicate-free list with the same members are equal -/
theorem sublist_ext {γ : Type} [DecidableEq γ] : ∀ {l l1 l2 : List γ}, l.Nodup → l1.Sublist l → l2.Sublist l →
    (∀ x, x ∈ l1 ↔ x ∈ l2) → l1 = l2 := by
  intro l
  induction l with
  | nil =>
    intro l1 l2 _ h1 h2 _
    rw [List.sublist_nil.mp h1, List.sublist_nil.mp h2]
  | cons a l ih =>
    intro l1 l2 hn h1 h2 hm
    rw [List.nodup_cons] at hn
    cases h1 with
    | cons _ h1' =>
      cases h2 with
      | cons _ h2' => exact ih hn.2 h1' h2' hm
      | cons_cons _ h2' =>
        exfalso
        have : a ∈ l1 := (hm a).mpr List.mem_cons_self
        exact hn.1 (h1'.subset this)
    | cons_cons _ h1' =>
      cases h2 with
      | cons _ h2' =>
        exfalso
        have : a ∈ l2 := (hm a).mp List.mem_cons_self
        exact hn.1 (h2'.subset this)
      | cons_cons _ h2' =>
        rename_i l1' l2'
        congr 1
        apply ih hn.2 h1' h2'
        intro x
        have := hm x
        simp only [List.mem_cons] at this
        constructor
        · intro hx
          have hxa : x ≠ a := by rintro rfl; exact hn.1 (h1'.subset hx)
          rcases this.mp (Or.inr hx) with h | h
          · exact absurd h hxa
          · exact h
        · intro hx
          have hxa : x ≠ a := by rintro rfl; exact hn.1 (h2'.subset hx)
          rcases this.mpr (Or.inr hx) with h | h
          · exact absurd h hxa
          · exact h

end Qib.TNet

namespace Qib.TNet

/-- **the node built by `_build_contraction_tree` is certified** (given certified tracking of the two children) -/
theorem buildNode_cert {net : Net} (hwf : WF net) {nL nR : NodeInfo} (hL : InfoCert net nL) (hR : InfoCert net nR)
    (hany : (nL.openaxes.any nR.openaxes.contains) = false)
    {scan : List Int × List BMap × List (Int × Nat)}
    (hscan : (nL.openaxes ++ nR.openaxes).foldlM (bondScanStep net nL nR) ([], [], nL.openaxes ++ nR.openaxes) = .ok scan)
    {st : IdxState} (hst : scan.2.1.foldlM assignBond (idxState0 nL.idxout.length nR.idxout.length) = .ok st)
    {trackaxes : List Nat} (htr : scan.2.2.mapM (trackFun nL nR st) = .ok trackaxes) (tid : Int) :
    NodeCert net { tid := tid, idxL := st.idxL, idxR := st.idxR, idxout := st.idxout, openaxes := scan.2.2,
                   trackaxes := trackaxes } nL nR := by
  set n : NodeInfo := { tid := tid, idxL := st.idxL, idxR := st.idxR, idxout := st.idxout, openaxes := scan.2.2,
                        trackaxes := trackaxes } with hn
  have hdisj : ∀ ta ∈ nL.openaxes, ta ∉ nR.openaxes := by
    intro ta hta hta'
    have := List.any_eq_false.mp hany ta hta
    exact this (List.contains_iff_mem.mpr hta')
  have hno : (nL.openaxes ++ nR.openaxes).Nodup := by
    rw [List.nodup_append]
    exact ⟨hL.nodup, hR.nodup, fun a ha b hb hab => hdisj a ha (hab ▸ hb)⟩
  have SI := scan_inv hwf hL hR _ hno hscan
  obtain ⟨bl, bm, oa⟩ := scan
  simp only at SI hst htr hn
  have hmaps : bm = bl.map (bmapOf net nL nR) := SI.maps
  -- every bond met has an entry
  have hopen_ent : ∀ ta, ta ∈ nL.openaxes ∨ ta ∈ nR.openaxes → ∃ e, ent nL nR ta = some e := by
    intro ta h
    unfold ent
    rcases h with h | h
    · exact ⟨_, by rw [if_pos h]⟩
    · by_cases h0 : ta ∈ nL.openaxes
      · exact ⟨_, by rw [if_pos h0]⟩
      · exact ⟨_, by rw [if_neg h0, if_pos h]⟩
  have hent : ∀ b ∈ bl, ∃ e, some e ∈ bmapOf net nL nR b := by
    intro b hb
    obtain ⟨ta, hta, hbt⟩ := (SI.mem b).mp hb
    obtain ⟨e, he⟩ := hopen_ent ta (List.mem_append.mp hta)
    exact ⟨e, List.mem_map.mpr ⟨ta, (mem_bondLegs_iff_legBond hwf).mpr hbt, he⟩⟩
  rw [hmaps] at hst
  have AI := assign_inv hwf hL hR hdisj bl SI.nodup hent hst
  -- facts about the first entries
  have hfirst : ∀ b ∈ bl, validLeg nL nR (firstEnt net nL nR b) ∧ legBe net nL nR (firstEnt net nL nR b) = b := by
    intro b hb
    obtain ⟨e0, he0⟩ := hent b hb
    cases hfs : (bmapOf net nL nR b).findSome? id with
    | none => exact absurd he0 ((findSome_id_spec _).1.mp hfs e0)
    | some e1 =>
      have : firstEnt net nL nR b = e1 := by simp [firstEnt, hfs]
      rw [this]
      exact entry_spec hwf hL hR ((findSome_id_spec _).2 e1 hfs)
  have hJinj : ∀ b ∈ bl, ∀ b' ∈ bl, Jb net nL nR b = Jb net nL nR b' → b = b' := by
    intro b hb b' hb' he
    have := lam0_inj (hfirst b hb).1 (hfirst b' hb').1 he
    rw [← (hfirst b hb).2, this, (hfirst b' hb').2]
  have hbl : ∀ e, validLeg nL nR e → legBe net nL nR e ∈ bl := by
    intro e hv
    obtain ⟨ta, hta, hb, _, _⟩ := entry_of_leg hwf hL hR hdisj hv
    exact (SI.mem _).mpr ⟨ta, List.mem_append.mpr hta, hb⟩
  have hlab : ∀ e, validLeg nL nR e → lbl st e = Jb net nL nR (legBe net nL nR e) := by
    intro e hv
    rw [AI.lab e hv, if_pos (hbl e hv)]
  have hfully : ∀ b ∈ bl, ((bmapOf net nL nR b).all Option.isSome = true ↔ contractedAt net nL nR b = true) := by
    intro b hb
    rw [contractedAt_iff, bmapOf_all_isSome]
    exact ⟨fun h => ⟨SI.legs b hb, h⟩, fun h => h.2⟩
  -- the output labels
  have hout : ∀ l, l ∈ st.idxout ↔ ∃ b ∈ bl, l = Jb net nL nR b ∧ contractedAt net nL nR b = false := by
    intro l
    rw [AI.out l]
    constructor
    · rintro ⟨h1, h2⟩
      obtain ⟨e, hv, rfl⟩ := mem_idxout0.mp h1
      have hb := hbl e hv
      have hnr := h2 _ hb
      obtain ⟨_, _, _, _, hm⟩ := entry_of_leg hwf hL hR hdisj hv
      have hJ : lam0 nL.idxout.length e = Jb net nL nR (legBe net nL nR e) := by
        by_contra hne
        exact hnr (Or.inr ⟨hne, e, hm, rfl⟩)
      refine ⟨_, hb, hJ, ?_⟩
      cases hc : contractedAt net nL nR (legBe net nL nR e)
      · rfl
      · exact absurd (Or.inl ⟨(hfully _ hb).mpr hc, hJ⟩) hnr
    · rintro ⟨b, hb, rfl, hc⟩
      refine ⟨mem_idxout0.mpr ⟨_, (hfirst b hb).1, rfl⟩, ?_⟩
      intro b' hb' hrem
      rcases hrem with ⟨hf, hJ⟩ | ⟨hne, e, he, hl⟩
      · have := hJinj b hb b' hb' hJ
        subst this
        rw [(hfully b hb).mp hf] at hc; cases hc
      · obtain ⟨hv, hbe⟩ := entry_spec hwf hL hR he
        have := lam0_inj hv (hfirst b hb).1 hl
        rw [this, (hfirst b hb).2] at hbe
        subst hbe
        exact hne rfl
  -- the pairs
  have hpairs : ∀ p, p ∈ pairsN net n nL nR ↔ ∃ e, validLeg nL nR e ∧ p = (legBe net nL nR e, lbl st e) := by
    intro p
    rw [mem_pairsN]
    constructor
    · rintro (⟨k, hk, rfl⟩ | ⟨k, hk, rfl⟩)
      · exact ⟨(Side.L, k), hk, rfl⟩
      · exact ⟨(Side.R, k), hk, rfl⟩
    · rintro ⟨⟨s, k⟩, hv, rfl⟩
      cases s with
      | L => exact Or.inl ⟨k, hv, rfl⟩
      | R => exact Or.inr ⟨k, hv, rfl⟩
  have hpairs' : ∀ p, p ∈ pairsN net n nL nR → p.1 ∈ bl ∧ p.2 = Jb net nL nR p.1 := by
    intro p hp
    obtain ⟨e, hv, rfl⟩ := (hpairs p).mp hp
    exact ⟨hbl e hv, hlab e hv⟩
  -- the remaining open axes
  have hoa : oa = (nL.openaxes ++ nR.openaxes).filter (keepAx net nL nR) := by
    apply sublist_ext hno SI.sub List.filter_sublist
    intro ta
    rw [SI.omem ta, List.mem_filter]
    constructor
    · rintro ⟨h1, h2⟩
      refine ⟨h1, ?_⟩
      obtain ⟨b, hb⟩ := SI.bond ta h1
      have hbb : b ∈ bl := (SI.mem b).mpr ⟨ta, h1, hb⟩
      simp only [keepAx, hb]
      cases hc : contractedAt net nL nR b
      · rfl
      · exact absurd ⟨b, hbb, hb, (hfully b hbb).mpr hc⟩ h2
    · rintro ⟨h1, h2⟩
      refine ⟨h1, ?_⟩
      rintro ⟨b, hbb, hb, hf⟩
      simp only [keepAx, hb, (hfully b hbb).mp hf] at h2
      cases h2
  -- tracking of the remaining open axes
  have hftr := mapM_ok_inv htr
  have htrlen : trackaxes.length = oa.length := hftr.length_eq.symm
  have hzip : ∀ p, p ∈ oa.zip trackaxes → ∃ e, ent nL nR p.1 = some e ∧ st.idxout[p.2]? = some (lbl st e) := by
    intro p hp
    obtain ⟨i, hi⟩ := List.mem_iff_getElem?.mp hp
    rw [List.getElem?_zip_eq_some] at hi
    have hil : i < oa.length := by
      by_contra hc; rw [List.getElem?_eq_none (by omega)] at hi; cases hi.1
    have := (List.forall₂_iff_get.mp hftr).2 i hil (by omega)
    simp only [List.get_eq_getElem] at this
    have h1 := hi.1; have h2 := hi.2
    rw [List.getElem?_eq_getElem hil] at h1
    rw [List.getElem?_eq_getElem (by omega)] at h2
    rw [Option.some.inj h1, Option.some.inj h2] at this
    exact trackFun_spec hL hR this
  have hent_spec : ∀ ta e, ta ∈ oa → ent nL nR ta = some e →
      validLeg nL nR e ∧ legBond net ta = some (legBe net nL nR e) := by
    intro ta e hta he
    have hall := SI.sub.subset hta
    unfold ent at he
    by_cases h1 : ta ∈ nL.openaxes
    · rw [if_pos h1] at he; cases he
      exact trk_spec hL h1
    · rw [if_neg h1] at he
      by_cases h2 : ta ∈ nR.openaxes
      · rw [if_pos h2] at he; cases he
        exact trk_spec hR h2
      · rw [if_neg h2] at he; cases he
  have hnodup_out : st.idxout.Nodup := (idxout0_nodup _ _).sublist AI.sub
  -- the bond of a tracked position
  have hpos : ∀ p, p ∈ oa.zip trackaxes → p.2 < st.idxout.length ∧ ∃ b ∈ bl, legBond net p.1 = some b ∧
      st.idxout[p.2]? = some (Jb net nL nR b) := by
    intro p hp
    obtain ⟨e, he, hl⟩ := hzip p hp
    obtain ⟨hv, hb⟩ := hent_spec p.1 e (List.of_mem_zip hp).1 he
    have hlt : p.2 < st.idxout.length := by
      by_contra hc; rw [List.getElem?_eq_none (by omega)] at hl; cases hl
    exact ⟨hlt, _, hbl e hv, hb, by rw [hl, hlab e hv]⟩
  have hiN : InfoCert net n := by
    refine ⟨htrlen, SI.onodup, ?_, ?_⟩
    · intro p hp
      obtain ⟨hlt, b, hb, hlb, hJ⟩ := hpos p hp
      have hnl : nodeLegBond net n p.2 = some b := by
        unfold nodeLegBond
        cases hf : (n.openaxes.zip n.trackaxes).find? (fun q => q.2 == p.2) with
        | none =>
          have := List.find?_eq_none.mp hf p hp
          simp at this
        | some q =>
          have hq := List.mem_of_find?_eq_some hf
          have hq2 : q.2 = p.2 := by simpa using List.find?_some hf
          obtain ⟨_, b', hb', hlb', hJ'⟩ := hpos q hq
          rw [hq2, hJ] at hJ'
          have := hJinj b hb b' hb' (Option.some.inj hJ')
          simp only [hlb', this]
      refine ⟨hlt, ?_, ?_⟩
      · rw [hlb]; simp [legB, hnl]
      · rw [hnl]; simp [legB, hnl]
    · intro k hk
      have hk' : k < st.idxout.length := hk
      obtain ⟨b, hb, hJ, hc⟩ := (hout st.idxout[k]).mp (List.getElem_mem hk')
      have hv := (hfirst b hb).1
      obtain ⟨ta, hta, hbt, hent', _⟩ := entry_of_leg hwf hL hR hdisj hv
      rw [(hfirst b hb).2] at hbt
      have htoa : ta ∈ oa := by
        rw [hoa, List.mem_filter]
        exact ⟨List.mem_append.mpr hta, by simp [keepAx, hbt, hc]⟩
      obtain ⟨i, hi, hie⟩ := List.getElem_of_mem htoa
      have hit : i < trackaxes.length := by omega
      have hp : (ta, trackaxes[i]) ∈ oa.zip trackaxes := by
        rw [List.mem_iff_getElem?]
        exact ⟨i, by rw [List.getElem?_zip_eq_some, List.getElem?_eq_getElem hi, List.getElem?_eq_getElem hit, hie]; exact ⟨rfl, rfl⟩⟩
      obtain ⟨e, he, hl⟩ := hzip _ hp
      simp only at he hl
      rw [hent'] at he
      cases he
      rw [hlab _ hv, (hfirst b hb).2, ← hJ] at hl
      have hlt : trackaxes[i] < st.idxout.length := by
        by_contra hcc; rw [List.getElem?_eq_none (by omega)] at hl; cases hl
      rw [List.getElem?_eq_getElem hlt] at hl
      have : trackaxes[i] = k := (List.Nodup.getElem_inj_iff hnodup_out).mp (Option.some.inj hl)
      show k ∈ trackaxes
      rw [← this]; exact List.getElem_mem hit
  refine ⟨hL, hR, hiN, hdisj, AI.lenL, AI.lenR, ?_, hnodup_out, ?_, ?_, hoa, ?_⟩
  · intro p hp q hq
    obtain ⟨h1, h2⟩ := hpairs' p hp
    obtain ⟨h1', h2'⟩ := hpairs' q hq
    rw [h2, h2']
    exact ⟨fun h => by rw [h], fun h => hJinj _ h1 _ h1' h⟩
  · intro l hl
    obtain ⟨b, hb, hJ, _⟩ := (hout l).mp hl
    refine ⟨(b, l), (hpairs _).mpr ⟨firstEnt net nL nR b, (hfirst b hb).1, ?_⟩, rfl⟩
    rw [hlab _ (hfirst b hb).1, (hfirst b hb).2, hJ]
  · intro p hp
    obtain ⟨h1, h2⟩ := hpairs' p hp
    show p.2 ∈ st.idxout ↔ _
    rw [hout, h2]
    constructor
    · rintro ⟨b, hb, hJ, hc⟩
      rw [hJinj _ h1 b hb hJ]; exact hc
    · intro hc; exact ⟨p.1, h1, rfl, hc⟩
  · intro p hp
    obtain ⟨e, he, hl⟩ := hzip p hp
    obtain ⟨hv, hb⟩ := hent_spec p.1 e (List.of_mem_zip hp).1 he
    exact ⟨_, _, hb, (hpairs _).mpr ⟨e, hv, rfl⟩, hl⟩

end Qib.TNet
