import QibProofs.Lemmas.CircuitNetWire
import QibProofs.Lemmas.TNetTreePrepPerm
/-!
Helper lemmas for C05 (tensor-network part), part 4: index combinatorics of one loop iteration of
`Circuit.as_tensornet` – the join list, the remaining axes, the `perm` list, and which pairs of multi-indices survive
the merge + re-transposition. Pure list reasoning, no networks. No property statements.
-/
set_option linter.unusedSimpArgs false
namespace Qib.CircuitNet
open Qib.TNet Qib.GateNet

/-- the positions `iw` of `T` overwritten by the entries of `t` (position `iw[k]` gets `t[k]`) -/
def setW (T iw t : List Nat) : List Nat :=
  (List.range T.length).map (fun p => if p ∈ iw then t[iw.idxOf p]?.getD 0 else T[p]?.getD 0)

/-- the axes of the circuit network that are not joined: all but the wires of the gate -/
def keepAxes (N : Nat) (iw : List Nat) : List Nat := (List.range N).filter (fun p => !iw.contains p)

theorem setW_length (T iw t : List Nat) : (setW T iw t).length = T.length := by simp [setW]

theorem getD_setW (T iw t : List Nat) (p : Nat) (hp : p < T.length) :
    (setW T iw t)[p]?.getD 0 = if p ∈ iw then t[iw.idxOf p]?.getD 0 else T[p]?.getD 0 := by
  simp [setW, hp]

theorem getD_setW_wire (T iw t : List Nat) (hnd : iw.Nodup) (k : Nat) (hk : k < iw.length) (hlt : iw[k] < T.length) :
    (setW T iw t)[iw[k]]?.getD 0 = t[k]?.getD 0 := by
  rw [getD_setW _ _ _ _ hlt, if_pos (List.getElem_mem hk), hnd.idxOf_getElem k hk]

theorem mem_keepAxes {N : Nat} {iw : List Nat} {p : Nat} : p ∈ keepAxes N iw ↔ p < N ∧ p ∉ iw := by
  simp [keepAxes]

/-- `setW` on a concatenation whose wires lie in the first part -/
theorem setW_append (o i iw t : List Nat) (hw : ∀ w ∈ iw, w < o.length) : setW (o ++ i) iw t = setW o iw t ++ i := by
  apply List.ext_getElem
  · simp [setW]
  · intro p h1 h2
    simp only [setW, List.length_append, List.getElem_map, List.getElem_range]
    by_cases hp : p < o.length
    · rw [List.getElem_append_left (by simpa [setW] using hp)]
      simp only [setW, List.getElem_map, List.getElem_range]
      rw [List.getElem?_append_left hp]
    · have hni : p ∉ iw := fun h => hp (hw p h)
      rw [List.getElem_append_right (by simpa [setW] using Nat.le_of_not_lt hp)]
      simp only [setW_length, if_neg hni]
      rw [List.getElem?_append_right (Nat.le_of_not_lt hp)]
      simp only [setW, List.length_append, List.length_map, List.length_range] at h1
      rw [List.getElem?_eq_getElem (by omega)]
      simp

theorem pickD_append_left {γ : Type} (a b : List γ) (d : γ) (ax : List Nat) (h : ∀ p ∈ ax, p < a.length) :
    pickD (a ++ b) d ax = pickD a d ax := by
  simp only [pickD]
  apply List.map_congr_left
  intro p hp
  rw [List.getElem?_append_left (h p hp)]

/-- the bits of `setW` stay bits -/
theorem bits_setW {T iw t : List Nat} (hT : Bits T) (ht : Bits t) : Bits (setW T iw t) := by
  intro x hx
  simp only [setW, List.mem_map, List.mem_range] at hx
  obtain ⟨p, hp, rfl⟩ := hx
  split
  · cases hq : t[iw.idxOf p]? with
    | none => simp
    | some v => simp only [Option.getD_some]; exact ht v (List.mem_of_getElem? hq)
  · rw [List.getElem?_eq_getElem hp]; simp only [Option.getD_some]; exact hT _ (List.getElem_mem hp)

theorem bits_pickD {T : List Nat} (hT : Bits T) (ax : List Nat) : Bits (pickD T 0 ax) := by
  intro x hx
  simp only [pickD, List.mem_map] at hx
  obtain ⟨p, _, rfl⟩ := hx
  cases hq : T[p]? with
  | none => simp
  | some v => simp only [Option.getD_some]; exact hT v (List.mem_of_getElem? hq)

/-! ### the join list -/

/-- the join list of the loop body: `zip(iwire, range(m, 2m))` -/
def joinOf (iwire : List Int) : List (Int × Int) := iwire.zip (irange' iwire.length iwire.length)

theorem joinOf_eq (iwire : List Int) :
    joinOf iwire = (List.range iwire.length).map (fun q => (iwire[q]?.getD 0, (Int.ofNat (iwire.length + q)))) := by
  apply List.ext_getElem
  · simp [joinOf, irange']
  · intro k h1 h2
    simp only [joinOf, irange', List.length_zip, List.length_map, List.length_range', Nat.min_self] at h1
    simp [joinOf, irange', h1, List.getElem_range']

theorem mem_joinOf {iwire : List Int} {ja : Int × Int} :
    ja ∈ joinOf iwire ↔ ∃ q, ∃ h : q < iwire.length, ja = (iwire[q], Int.ofNat (iwire.length + q)) := by
  rw [joinOf_eq]
  simp only [List.mem_map, List.mem_range]
  constructor
  · rintro ⟨q, hq, rfl⟩; exact ⟨q, hq, by simp [hq]⟩
  · rintro ⟨q, hq, rfl⟩; exact ⟨q, hq, by simp [hq]⟩

/-- the remaining axes after the merge: the unjoined axes of the circuit network, then the gate's output axes -/
theorem remainingAxes_joinOf (N : Nat) (iwire : List Int)
    (hlt : ∀ x ∈ iwire, x.toNat < N) :
    remainingAxes N (2 * iwire.length) (joinOf iwire) =
      keepAxes N (iwire.map Int.toNat) ++ List.range' N iwire.length := by
  set m := iwire.length with hm
  unfold remainingAxes
  have hpred : ∀ k, ((joinOf iwire).any fun ja => k == ja.1.toNat || k == N + ja.2.toNat) =
      (decide (k ∈ iwire.map Int.toNat) || decide (N + m ≤ k ∧ k < N + 2 * m)) := by
    intro k
    rw [Bool.eq_iff_iff]
    simp only [List.any_eq_true, Bool.or_eq_true, beq_iff_eq, decide_eq_true_eq, List.mem_map]
    constructor
    · rintro ⟨ja, hja, h⟩
      obtain ⟨q, hq, rfl⟩ := mem_joinOf.mp hja
      rcases h with h | h
      · exact Or.inl ⟨iwire[q], List.getElem_mem hq, h.symm⟩
      · right
        simp only [Int.ofNat_eq_natCast, Int.toNat_natCast] at h
        omega
    · rintro (⟨x, hx, rfl⟩ | ⟨h1, h2⟩)
      · obtain ⟨q, hq, rfl⟩ := List.getElem_of_mem hx
        exact ⟨_, mem_joinOf.mpr ⟨q, hq, rfl⟩, Or.inl rfl⟩
      · refine ⟨_, mem_joinOf.mpr ⟨k - N - m, by omega, rfl⟩, Or.inr ?_⟩
        simp only [Int.ofNat_eq_natCast, Int.toNat_natCast]
        omega
  have hsplit : List.range (N + 2 * m) = List.range N ++ (List.range' N m ++ List.range' (N + m) m) := by
    rw [List.range_eq_range', List.range_eq_range', ← List.range'_append_1]
    have : 2 * m = m + m := by omega
    rw [this, ← List.range'_append_1]
    simp
  rw [hsplit, List.filter_append, List.filter_append]
  congr 1
  · unfold keepAxes
    apply List.filter_congr
    intro k hk
    rw [hpred]
    have hk' := List.mem_range.mp hk
    have : ¬ (N + m ≤ k ∧ k < N + 2 * m) := by omega
    simp [this]
  · have h1 : (List.range' N m).filter (fun k => !(joinOf iwire).any fun ja => k == ja.1.toNat || k == N + ja.2.toNat) =
        List.range' N m := by
      rw [List.filter_eq_self]
      intro k hk
      rw [hpred]
      have hk' := List.mem_range'_1.mp hk
      have h1 : ¬ (N + m ≤ k ∧ k < N + 2 * m) := by omega
      have h2 : k ∉ iwire.map Int.toNat := by
        intro hmem
        obtain ⟨x, hx, rfl⟩ := List.mem_map.mp hmem
        have := hlt x hx; omega
      simp [h1, h2]
    have h2 : (List.range' (N + m) m).filter (fun k => !(joinOf iwire).any fun ja => k == ja.1.toNat || k == N + ja.2.toNat) = [] := by
      rw [List.filter_eq_nil_iff]
      intro k hk
      rw [hpred]
      have hk' := List.mem_range'_1.mp hk
      have h1 : N + m ≤ k ∧ k < N + 2 * m := by omega
      simp [h1]
    rw [h1, h2, List.append_nil]

/-! ### the `perm` list -/

theorem fold_remove {L p p' : List Int} (hp : p.Nodup)
    (h : L.foldlM (fun (p : List Int) i => if p.contains i then pure (p.erase i) else throw CErr.valueError) p =
      (Except.ok p' : Except CErr (List Int))) :
    L.Nodup ∧ (∀ x ∈ L, x ∈ p) ∧ p' = p.filter (fun a => !L.contains a) := by
  induction L generalizing p with
  | nil =>
    simp only [List.foldlM_nil, pure, Except.pure, Except.ok.injEq] at h
    subst h
    simp
  | cons x L ih =>
    rw [List.foldlM_cons] at h
    by_cases hx : p.contains x = true
    · simp only [hx, if_true, pure, Except.pure, bind, Except.bind] at h
      have hx' : x ∈ p := by simpa using hx
      obtain ⟨h1, h2, h3⟩ := ih (hp.erase x) h
      have hxL : x ∉ L := fun hm => by
        have := h2 x hm
        exact (List.Nodup.mem_erase_iff hp).mp this |>.1 rfl
      refine ⟨List.nodup_cons.mpr ⟨hxL, h1⟩, ?_, ?_⟩
      · intro y hy
        rcases List.mem_cons.mp hy with rfl | hy
        · exact hx'
        · exact List.mem_of_mem_erase (h2 y hy)
      · rw [h3, hp.erase_eq_filter, List.filter_filter]
        apply List.filter_congr
        intro a _
        simp only [List.contains_cons, Bool.not_or, bne_iff_ne, ne_eq]
        rw [Bool.and_comm]
        rfl
    · simp only [hx, Bool.false_eq_true, if_false, throw, throwThe, MonadExceptOf.throw, bind, Except.bind] at h
      cases h

/-- a successful `perm` computation: the wires are distinct axes of the circuit network, and the list is the
unjoined axes followed by the wires -/
theorem permOf_ok {n : Nat} {iwire perm : List Int} (h : permOf n iwire = .ok perm) :
    iwire.Nodup ∧ (∀ x ∈ iwire, 0 ≤ x ∧ x.toNat < 2 * n) ∧
      perm.map Int.toNat = keepAxes (2 * n) (iwire.map Int.toNat) ++ iwire.map Int.toNat := by
  unfold permOf at h
  simp only [bind, Except.bind] at h
  split at h
  · cases h
  · rename_i p hp
    simp only [pure, Except.pure, Except.ok.injEq] at h
    subst h
    obtain ⟨h1, h2, h3⟩ := fold_remove (irange_nodup _) hp
    have hrange : ∀ x ∈ iwire, 0 ≤ x ∧ x.toNat < 2 * n := by
      intro x hx
      have := mem_irange.mp (h2 x hx)
      exact ⟨this.1, by omega⟩
    refine ⟨h1, hrange, ?_⟩
    rw [List.map_append, h3]
    congr 1
    unfold keepAxes irange
    rw [List.filter_map, List.map_map]
    have hid : (Int.toNat ∘ Int.ofNat) = id := by funext k; simp
    rw [hid, List.map_id]
    apply List.filter_congr
    intro k _
    simp only [Function.comp]
    congr 1
    rw [Bool.eq_iff_iff]
    simp only [List.contains_iff_mem, List.mem_map]
    constructor
    · intro hm; exact ⟨_, hm, by simp⟩
    · rintro ⟨x, hx, hxk⟩
      have := (hrange x hx).1
      have : x = Int.ofNat k := by simp only [Int.ofNat_eq_natCast]; omega
      rw [← this]; exact hx

theorem toNat_nodup {l : List Int} (hn : l.Nodup) (hpos : ∀ x ∈ l, 0 ≤ x) : (l.map Int.toNat).Nodup := by
  refine List.Nodup.map_on ?_ hn
  intro a ha b hb hab
  have := hpos a ha; have := hpos b hb
  omega

theorem keep_append_perm (N : Nat) (iw : List Nat) (hn : iw.Nodup) (hlt : ∀ w ∈ iw, w < N) :
    (keepAxes N iw ++ iw).Perm (List.range N) := by
  have h1 : ((List.range N).filter (fun p => !iw.contains p) ++ (List.range N).filter (fun p => iw.contains p)).Perm
      (List.range N) := by
    have := List.filter_append_perm (fun p => iw.contains p) (List.range N)
    exact (List.perm_append_comm).trans (by simpa using this)
  refine (List.Perm.append_left _ ?_).trans h1
  rw [List.perm_ext_iff_of_nodup hn (List.nodup_range.filter _)]
  intro a
  simp only [List.mem_filter, List.mem_range, List.contains_iff_mem]
  exact ⟨fun h => ⟨hlt a h, h⟩, fun h => h.2⟩

/-- undoing the re-transposition: the multi-index of the merged network whose `argsort(perm)`-transpose is `T` -/
theorem pickD_argsort {P T : List Nat} (hP : P.Perm (List.range P.length)) (hT : T.length = P.length) :
    pickD (pickD T 0 P) 0 (argsort P) = T := by
  obtain ⟨h1, h2, h3, _⟩ := argsort_inverse hP
  apply List.ext_getElem
  · simp [pickD, h1, hT]
  · intro q hq1 hq2
    have hq : q < P.length := by rw [← hT]; exact hq2
    have hqa : q < (argsort P).length := by omega
    have := h3 q hq
    simp only [pickD, List.getElem_map]
    rw [List.getElem?_eq_getElem hqa, Option.getD_some] at this
    have hlt := h2 q hqa
    rw [List.getElem?_map, List.getElem?_eq_getElem hlt]
    simp only [Option.map_some, Option.getD_some]
    rw [List.getElem?_eq_getElem hlt, Option.getD_some] at this
    rw [this, List.getElem?_eq_getElem hq2]
    rfl

/-! ### which pairs of multi-indices survive -/

theorem joinsAgree_joinOf (iwire : List Int) (x y : List Nat) :
    joinsAgree (joinOf iwire) x y = true ↔
      ∀ q, ∀ h : q < (iwire.map Int.toNat).length, x[(iwire.map Int.toNat)[q]]? = y[iwire.length + q]? := by
  unfold joinsAgree
  rw [List.all_eq_true]
  have e : ∀ q : Nat, ((iwire.length : Int) + (q : Int)).toNat = iwire.length + q := fun q => by omega
  constructor
  · intro h q hq
    have hq' : q < iwire.length := by simpa using hq
    have := h _ (mem_joinOf.mpr ⟨q, hq', rfl⟩)
    simp only [Int.ofNat_eq_natCast, Nat.cast_add, e, beq_iff_eq] at this
    simpa using this
  · intro h ja hja
    obtain ⟨q, hq, rfl⟩ := mem_joinOf.mp hja
    have := h q (by simpa using hq)
    simp only [Int.ofNat_eq_natCast, Nat.cast_add, e, beq_iff_eq]
    simpa using this

/-- the indicator of `C08_merge_full`, read at the un-transposed index, selects exactly the pairs `(x, y)` with
`x = T` overwritten on the wires by the gate's input index and the gate's output index read off `T` at the wires -/
theorem survive_iff (N m : Nat) (iw : List Nat) (hm : iw.length = m) (hiwn : iw.Nodup) (hiwlt : ∀ w ∈ iw, w < N)
    (T x y1 t : List Nat) (hT : T.length = N) (hx : x.length = N) (hy1 : y1.length = m) (ht : t.length = m) :
    (pickD (x ++ (y1 ++ t)) 0 (keepAxes N iw ++ List.range' N m) = pickD T 0 (keepAxes N iw ++ iw) ∧
      ∀ q, ∀ h : q < iw.length, x[iw[q]]? = (y1 ++ t)[m + q]?) ↔
    (x = setW T iw t ∧ y1 = pickD T 0 iw) := by
  subst hm
  -- the gate's output part of the first condition
  have hsecond : pickD (x ++ (y1 ++ t)) 0 (List.range' N iw.length) = y1 := by
    apply List.ext_getElem
    · simp [pickD, hy1]
    · intro k h1 h2
      simp only [pickD, List.getElem_map, List.getElem_range']
      rw [List.getElem?_append_right (by omega), List.getElem?_append_left (by omega)]
      have : N + 1 * k - x.length = k := by omega
      rw [this, List.getElem?_eq_getElem h2]; rfl
  have hfirst : pickD (x ++ (y1 ++ t)) 0 (keepAxes N iw) = pickD x 0 (keepAxes N iw) :=
    pickD_append_left _ _ _ _ (fun p hp => by rw [hx]; exact (mem_keepAxes.mp hp).1)
  simp only [pickD, List.map_append] at hsecond hfirst ⊢
  constructor
  · rintro ⟨hA, hJ⟩
    have hl : ((keepAxes N iw).map fun a => (x ++ (y1 ++ t))[a]?.getD 0).length =
        ((keepAxes N iw).map fun a => T[a]?.getD 0).length := by simp
    obtain ⟨hA1, hA2⟩ := List.append_inj hA hl
    rw [hsecond] at hA2
    rw [hfirst] at hA1
    refine ⟨?_, hA2⟩
    apply List.ext_getElem
    · rw [setW_length, hx, hT]
    · intro p hp1 hp2
      have hpN : p < N := by rw [← hx]; exact hp1
      have hgoal : x[p]?.getD 0 = (setW T iw t)[p]?.getD 0 := by
        rw [getD_setW _ _ _ _ (by omega)]
        by_cases hpw : p ∈ iw
        · rw [if_pos hpw]
          obtain ⟨q, hq, rfl⟩ := List.getElem_of_mem hpw
          rw [hiwn.idxOf_getElem q hq]
          have := hJ q hq
          rw [List.getElem?_append_right (by omega)] at this
          have e : iw.length + q - y1.length = q := by omega
          rw [e] at this
          rw [this]
        · rw [if_neg hpw]
          have hmem : p ∈ keepAxes N iw := mem_keepAxes.mpr ⟨hpN, hpw⟩
          obtain ⟨k, hk, hkp⟩ := List.getElem_of_mem hmem
          have := congrArg (fun l => l[k]?) hA1
          simp only [List.getElem?_map, List.getElem?_eq_getElem hk, Option.map_some, Option.some.injEq, hkp] at this
          exact this
      rw [List.getElem?_eq_getElem hp1, List.getElem?_eq_getElem hp2] at hgoal
      simpa using hgoal
  · rintro ⟨rfl, rfl⟩
    refine ⟨?_, ?_⟩
    · rw [hsecond, hfirst]
      congr 1
      apply List.map_congr_left
      intro p hp
      obtain ⟨hpN, hpw⟩ := mem_keepAxes.mp hp
      rw [getD_setW _ _ _ _ (by omega), if_neg hpw]
    · intro q hq
      have hlen : (iw.map fun a => T[a]?.getD 0).length = iw.length := by simp
      rw [List.getElem?_append_right (by omega), hlen]
      have e : iw.length + q - iw.length = q := by omega
      rw [e]
      have hl : iw[q] < T.length := by rw [hT]; exact hiwlt _ (List.getElem_mem hq)
      have := getD_setW_wire T iw t hiwn q hq hl
      have h1 : iw[q] < (setW T iw t).length := by rw [setW_length]; exact hl
      rw [List.getElem?_eq_getElem h1] at this ⊢
      rw [List.getElem?_eq_getElem (by omega : q < t.length)] at this ⊢
      simpa using this

end Qib.CircuitNet
