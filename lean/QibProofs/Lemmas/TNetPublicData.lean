import QibProofs.Lemmas.TNetPublic2
import QibModel.TNetOps
/-!
Helper lemmas for C08 (public stage), part 6: `TensorNetwork.is_consistent` (with data) after `merge_bonds` (no property statements).
-/
namespace Qib.TNet

/-- the data part of `TensorNetwork.is_consistent`: every real tensor's data reference is in the dictionary with the tensor's shape -/
def dataOK (ts : List (Int × STensor)) (data : Data) : Bool :=
  ts.all (fun e => e.2.tid == -1 ||
    match e.2.dataref with
    | none => false
    | some r => match data.lookup r with
      | none => false
      | some d => d.shape == e.2.shape)

theorem isConsistentData_eq (net : Net) (data : Data) :
    isConsistentData net data = (do if !(← isConsistent net) then return false
                                    return dataOK net.tensors data) := rfl

theorem isConsistentData_ok_true_iff (net : Net) (data : Data) :
    isConsistentData net data = .ok true ↔ isConsistent net = .ok true ∧ dataOK net.tensors data = true := by
  rw [isConsistentData_eq]
  cases h : isConsistent net with
  | error e => simp [bind, Except.bind]
  | ok b => cases b <;> simp [bind, Except.bind, pure, Except.pure]

theorem dataOK_relTensors (ρ : Int → Int) (ts : List (Int × STensor)) (data : Data) :
    dataOK (relTensors ρ ts) data = dataOK ts data := by
  simp only [dataOK, relTensors, List.all_map]
  rfl

end Qib.TNet
