import QibModel.Gate
import QibProofs.Lemmas.GateAlgebra
import QibProofs.Lemmas.GateFlat
import Mathlib.Data.Complex.Basic
import Mathlib.Algebra.BigOperators.Fin
import Mathlib.Logic.Equiv.Fin.Basic
import Mathlib.Tactic.Ring
import Mathlib.Tactic.Linarith
/-!
Bridge between the executable, array-backed matrices of the gate driver (`Qib.Mat` over the Gaussian rationals
`Qib.GQ`, `QibModel/GQ.lean`, and the assembly functions `controlledMat`, `blockDiag` of `QibModel/Gate.lean`) and
Mathlib matrices over `ℂ`. Helper lemmas only (no property statements).

* `GQ` is a commutative ring (with the very instances of `QibModel/GQ.lean`), `GQ.toC : GQ → ℂ` is an injective ring
  homomorphism commuting with conjugation.
* `Mat.WF A` : `A.data.size = A.n * A.m`; well-formed matrices are determined by their shape and entries (`Mat.ext_get`).
* `Mat.toM A n m : Matrix (Fin n) (Fin m) ℂ` reads the entries of `A` through `get` and `toC`; the shape `n m` is a free
  parameter (used with hypotheses `A.n = n`, `A.m = m`) so that no casts between `Fin` types ever appear;
  `Mat.toMatrix A = A.toM A.n A.m`.
* every operation of the model (`mul`, `adjoint`, `transpose`, `add`, `smul`, `neg`, `one`, `kron`, `block`,
  `controlledMat`, `blockDiag`) is carried to the corresponding Mathlib operation / to the abstract combinators
  `blockOn`, `blocks` of `GateAlgebra.lean`.
-/
open Matrix

namespace Qib

/-! ### Gaussian rationals -/
namespace GQ

@[ext] theorem ext' {a b : GQ} (h1 : a.re = b.re) (h2 : a.im = b.im) : a = b := by
  cases a; cases b; simp_all

@[simp] theorem zero_re : (0 : GQ).re = 0 := rfl
@[simp] theorem zero_im : (0 : GQ).im = 0 := rfl
@[simp] theorem one_re : (1 : GQ).re = 1 := rfl
@[simp] theorem one_im : (1 : GQ).im = 0 := rfl
@[simp] theorem I_re : GQ.I.re = 0 := rfl
@[simp] theorem I_im : GQ.I.im = 1 := rfl
@[simp] theorem add_re (a b : GQ) : (a + b).re = a.re + b.re := rfl
@[simp] theorem add_im (a b : GQ) : (a + b).im = a.im + b.im := rfl
@[simp] theorem sub_re (a b : GQ) : (a - b).re = a.re - b.re := rfl
@[simp] theorem sub_im (a b : GQ) : (a - b).im = a.im - b.im := rfl
@[simp] theorem neg_re (a : GQ) : (-a).re = -a.re := rfl
@[simp] theorem neg_im (a : GQ) : (-a).im = -a.im := rfl
@[simp] theorem mul_re (a b : GQ) : (a * b).re = a.re * b.re - a.im * b.im := rfl
@[simp] theorem mul_im (a b : GQ) : (a * b).im = a.re * b.im + a.im * b.re := rfl
@[simp] theorem conj_re (a : GQ) : a.conj.re = a.re := rfl
@[simp] theorem conj_im (a : GQ) : a.conj.im = -a.im := rfl

/-- the Gaussian rationals of the driver form a commutative ring under the driver's own operations -/
instance : CommRing GQ where
  add := (· + ·)
  zero := 0
  neg := Neg.neg
  sub := (· - ·)
  mul := (· * ·)
  one := 1
  add_assoc a b c := by ext <;> simp <;> ring
  zero_add a := by ext <;> simp
  add_zero a := by ext <;> simp
  add_comm a b := by ext <;> simp <;> ring
  neg_add_cancel a := by ext <;> simp
  sub_eq_add_neg a b := by ext <;> simp <;> ring
  mul_assoc a b c := by ext <;> simp <;> ring
  one_mul a := by ext <;> simp
  mul_one a := by ext <;> simp
  left_distrib a b c := by ext <;> simp <;> ring
  right_distrib a b c := by ext <;> simp <;> ring
  zero_mul a := by ext <;> simp
  mul_zero a := by ext <;> simp
  mul_comm a b := by ext <;> simp <;> ring
  nsmul := nsmulRec
  zsmul := zsmulRec

/-- the complex number denoted by a Gaussian rational -/
noncomputable def toC (a : GQ) : ℂ := ⟨(a.re : ℝ), (a.im : ℝ)⟩

@[simp] theorem toC_re (a : GQ) : a.toC.re = (a.re : ℝ) := rfl
@[simp] theorem toC_im (a : GQ) : a.toC.im = (a.im : ℝ) := rfl
@[simp] theorem toC_zero : (0 : GQ).toC = 0 := by apply Complex.ext <;> simp
@[simp] theorem toC_one : (1 : GQ).toC = 1 := by apply Complex.ext <;> simp
@[simp] theorem toC_I : GQ.I.toC = Complex.I := by apply Complex.ext <;> simp
@[simp] theorem toC_add (a b : GQ) : (a + b).toC = a.toC + b.toC := by apply Complex.ext <;> simp
@[simp] theorem toC_sub (a b : GQ) : (a - b).toC = a.toC - b.toC := by apply Complex.ext <;> simp
@[simp] theorem toC_neg (a : GQ) : (-a).toC = -a.toC := by apply Complex.ext <;> simp
@[simp] theorem toC_mul (a b : GQ) : (a * b).toC = a.toC * b.toC := by apply Complex.ext <;> simp
@[simp] theorem toC_conj (a : GQ) : a.conj.toC = star a.toC := by apply Complex.ext <;> simp

theorem toC_injective : Function.Injective toC := by
  intro a b h
  have h1 := congrArg Complex.re h
  have h2 := congrArg Complex.im h
  simp only [toC_re, toC_im, Rat.cast_inj] at h1 h2
  exact GQ.ext' h1 h2

/-- `toC` as a ring homomorphism -/
noncomputable def toCHom : GQ →+* ℂ where
  toFun := toC
  map_one' := toC_one
  map_mul' := toC_mul
  map_zero' := toC_zero
  map_add' := toC_add

@[simp] theorem toCHom_apply (a : GQ) : toCHom a = a.toC := rfl

theorem toC_sum {ι : Type*} (s : Finset ι) (f : ι → GQ) : (∑ k ∈ s, f k).toC = ∑ k ∈ s, (f k).toC :=
  map_sum toCHom f s

theorem toC_eq_zero {a : GQ} : a.toC = 0 ↔ a = 0 := by
  rw [← toC_zero]; exact toC_injective.eq_iff

theorem toC_eq_one {a : GQ} : a.toC = 1 ↔ a = 1 := by
  rw [← toC_one]; exact toC_injective.eq_iff

/-- real Gaussian rationals are fixed by conjugation -/
theorem conj_eq_self_of_im (a : GQ) (h : a.im = 0) : a.conj = a := by ext <;> simp [h]

theorem star_toC_of_im (a : GQ) (h : a.im = 0) : star a.toC = a.toC := by
  rw [← toC_conj, conj_eq_self_of_im a h]

end GQ

/-- the left fold used by `Mat.mul` (and by every accumulation loop of the model) is the finite sum -/
theorem foldl_range_add {α : Type*} [AddCommMonoid α] (f : ℕ → α) (n : ℕ) :
    (List.range n).foldl (fun acc k => acc + f k) 0 = ∑ k ∈ Finset.range n, f k := by
  induction n with
  | zero => simp
  | succ n ih => rw [List.range_succ, List.foldl_append, ih, Finset.sum_range_succ]; rfl

end Qib

namespace Qib
namespace Mat
def WF (A : Mat) : Prop := A.data.size = A.n * A.m

@[simp] theorem ofFn_n (n m : ℕ) (f) : (ofFn n m f).n = n := rfl
@[simp] theorem ofFn_m (n m : ℕ) (f) : (ofFn n m f).m = m := rfl
theorem ofFn_wf (n m : ℕ) (f) : (ofFn n m f).WF := by simp [WF, ofFn]

theorem idx_lt {n m i j : ℕ} (hi : i < n) (hj : j < m) : i * m + j < n * m := by
  calc i * m + j < i * m + m := by omega
    _ = (i + 1) * m := by ring
    _ ≤ n * m := Nat.mul_le_mul_right m hi

theorem get_ofFn {n m : ℕ} (f : ℕ → ℕ → GQ) {i j : ℕ} (hi : i < n) (hj : j < m) : (ofFn n m f).get i j = f i j := by
  have h := idx_lt hi hj
  have hm : 0 < m := by omega
  simp only [get, ofFn, Array.getD_eq_getD_getElem?]
  rw [Array.getElem?_ofFn]
  simp only [h, dite_true, Option.getD_some]
  rw [Nat.mul_comm i m, Nat.mul_add_div hm, Nat.mul_add_mod, Nat.div_eq_of_lt hj, Nat.mod_eq_of_lt hj, Nat.add_zero]

theorem ext_get {A B : Mat} (hA : A.WF) (hB : B.WF) (hn : A.n = B.n) (hm : A.m = B.m)
    (h : ∀ i j, i < A.n → j < A.m → A.get i j = B.get i j) : A = B := by
  obtain ⟨n, m, d⟩ := A
  obtain ⟨n', m', d'⟩ := B
  simp only [WF] at hA hB
  simp only at hn hm
  subst hn hm
  congr 1
  apply Array.ext (by rw [hA, hB])
  intro k hk hk'
  rw [hA] at hk
  have hm : 0 < m := by
    rcases Nat.eq_zero_or_pos m with h0 | h0
    · subst h0; simp at hk
    · exact h0
  have hi : k / m < n := by
    rw [Nat.div_lt_iff_lt_mul hm]; exact hk
  have := h (k / m) (k % m) hi (Nat.mod_lt _ hm)
  simp only [get, Array.getD_eq_getD_getElem?] at this
  rw [Nat.div_add_mod' k m] at this
  simpa [hk', (by rw [hA]; exact hk : k < d.size)] using this
end Mat
end Qib

namespace Qib
namespace Mat

/-! ### shapes and well-formedness of the results of the operations -/
@[simp] theorem one_n (n : ℕ) : (one n).n = n := rfl
@[simp] theorem one_m (n : ℕ) : (one n).m = n := rfl
theorem one_wf (n : ℕ) : (one n).WF := ofFn_wf _ _ _
@[simp] theorem mul_n (A B : Mat) : (A.mul B).n = A.n := rfl
@[simp] theorem mul_m (A B : Mat) : (A.mul B).m = B.m := rfl
theorem mul_wf (A B : Mat) : (A.mul B).WF := ofFn_wf _ _ _
@[simp] theorem adjoint_n (A : Mat) : A.adjoint.n = A.m := rfl
@[simp] theorem adjoint_m (A : Mat) : A.adjoint.m = A.n := rfl
theorem adjoint_wf (A : Mat) : A.adjoint.WF := ofFn_wf _ _ _
@[simp] theorem transpose_n (A : Mat) : A.transpose.n = A.m := rfl
@[simp] theorem transpose_m (A : Mat) : A.transpose.m = A.n := rfl
theorem transpose_wf (A : Mat) : A.transpose.WF := ofFn_wf _ _ _
@[simp] theorem smul_n (c : GQ) (A : Mat) : (smul c A).n = A.n := rfl
@[simp] theorem smul_m (c : GQ) (A : Mat) : (smul c A).m = A.m := rfl
theorem smul_wf (c : GQ) (A : Mat) : (smul c A).WF := ofFn_wf _ _ _
@[simp] theorem add_n (A B : Mat) : (A.add B).n = A.n := rfl
@[simp] theorem add_m (A B : Mat) : (A.add B).m = A.m := rfl
theorem add_wf (A B : Mat) : (A.add B).WF := ofFn_wf _ _ _
@[simp] theorem neg_n (A : Mat) : A.neg.n = A.n := rfl
@[simp] theorem neg_m (A : Mat) : A.neg.m = A.m := rfl
theorem neg_wf (A : Mat) : A.neg.WF := ofFn_wf _ _ _
@[simp] theorem kron_n (A B : Mat) : (A.kron B).n = A.n * B.n := rfl
@[simp] theorem kron_m (A B : Mat) : (A.kron B).m = A.m * B.m := rfl
theorem kron_wf (A B : Mat) : (A.kron B).WF := ofFn_wf _ _ _
@[simp] theorem block_n (A B C D : Mat) : (block A B C D).n = 2 * A.n := rfl
@[simp] theorem block_m (A B C D : Mat) : (block A B C D).m = 2 * A.n := rfl
theorem block_wf (A B C D : Mat) : (block A B C D).WF := ofFn_wf _ _ _

/-! ### entries of the results (over `GQ`, i.e. about the executed definitions themselves) -/
theorem get_one {n i j : ℕ} (hi : i < n) (hj : j < n) : (one n).get i j = if i = j then 1 else 0 := get_ofFn _ hi hj

theorem get_mul (A B : Mat) {i j : ℕ} (hi : i < A.n) (hj : j < B.m) :
    (A.mul B).get i j = ∑ k ∈ Finset.range A.m, A.get i k * B.get k j := by
  rw [mul, get_ofFn _ hi hj, foldl_range_add]

theorem get_adjoint (A : Mat) {i j : ℕ} (hi : i < A.m) (hj : j < A.n) : A.adjoint.get i j = (A.get j i).conj := get_ofFn _ hi hj
theorem get_transpose (A : Mat) {i j : ℕ} (hi : i < A.m) (hj : j < A.n) : A.transpose.get i j = A.get j i := get_ofFn _ hi hj
theorem get_smul (c : GQ) (A : Mat) {i j : ℕ} (hi : i < A.n) (hj : j < A.m) : (smul c A).get i j = c * A.get i j := get_ofFn _ hi hj
theorem get_add (A B : Mat) {i j : ℕ} (hi : i < A.n) (hj : j < A.m) : (A.add B).get i j = A.get i j + B.get i j := get_ofFn _ hi hj
theorem get_neg (A : Mat) {i j : ℕ} (hi : i < A.n) (hj : j < A.m) : A.neg.get i j = -A.get i j := get_ofFn _ hi hj

theorem get_kron (A B : Mat) {i j : ℕ} (hi : i < A.n * B.n) (hj : j < A.m * B.m) :
    (A.kron B).get i j = A.get (i / B.n) (j / B.m) * B.get (i % B.n) (j % B.m) := get_ofFn _ hi hj

/-- `kron` in block coordinates -/
theorem get_kron' (A B : Mat) {i1 i2 j1 j2 : ℕ} (hi1 : i1 < A.n) (hi2 : i2 < B.n) (hj1 : j1 < A.m) (hj2 : j2 < B.m) :
    (A.kron B).get (i1 * B.n + i2) (j1 * B.m + j2) = A.get i1 j1 * B.get i2 j2 := by
  rw [get_kron A B (idx_lt hi1 hi2) (idx_lt hj1 hj2)]
  have e1 : (i1 * B.n + i2) / B.n = i1 := by
    rw [Nat.mul_comm, Nat.mul_add_div (by omega), Nat.div_eq_of_lt hi2, Nat.add_zero]
  have e2 : (j1 * B.m + j2) / B.m = j1 := by
    rw [Nat.mul_comm, Nat.mul_add_div (by omega), Nat.div_eq_of_lt hj2, Nat.add_zero]
  have e3 : (i1 * B.n + i2) % B.n = i2 := by rw [Nat.mul_comm, Nat.mul_add_mod, Nat.mod_eq_of_lt hi2]
  have e4 : (j1 * B.m + j2) % B.m = j2 := by rw [Nat.mul_comm, Nat.mul_add_mod, Nat.mod_eq_of_lt hj2]
  rw [e1, e2, e3, e4]

theorem get_block (A B C D : Mat) {i j : ℕ} (hi : i < 2 * A.n) (hj : j < 2 * A.n) :
    (block A B C D).get i j = if i < A.n then (if j < A.n then A.get i j else B.get i (j - A.n))
      else (if j < A.n then C.get (i - A.n) j else D.get (i - A.n) (j - A.n)) := get_ofFn _ hi hj

/-! ### the complex matrix denoted by a `Mat` -/

/-- the `n × m` complex matrix read off `A` (used with `A.n = n`, `A.m = m`) -/
noncomputable def toM (A : Mat) (n m : ℕ) : Matrix (Fin n) (Fin m) ℂ := Matrix.of fun i j => (A.get i j).toC

/-- the complex matrix denoted by `A`, in its own shape -/
noncomputable def toMatrix (A : Mat) : Matrix (Fin A.n) (Fin A.m) ℂ := A.toM A.n A.m

@[simp] theorem toM_apply (A : Mat) (n m : ℕ) (i : Fin n) (j : Fin m) : A.toM n m i j = (A.get i j).toC := rfl

theorem toM_ofFn (n m : ℕ) (f : ℕ → ℕ → GQ) : (ofFn n m f).toM n m = Matrix.of fun (i : Fin n) (j : Fin m) => (f i j).toC := by
  ext i j; simp [get_ofFn f i.2 j.2]

/-- well-formed matrices of the same shape denoting the same complex matrix are equal -/
theorem toM_injective {A B : Mat} {n m : ℕ} (hA : A.WF) (hB : B.WF) (hAn : A.n = n) (hAm : A.m = m) (hBn : B.n = n) (hBm : B.m = m)
    (h : A.toM n m = B.toM n m) : A = B := by
  apply ext_get hA hB (hAn.trans hBn.symm) (hAm.trans hBm.symm)
  intro i j hi hj
  have := congrFun (congrFun h ⟨i, hAn ▸ hi⟩) ⟨j, hAm ▸ hj⟩
  exact GQ.toC_injective this

theorem toM_one (n : ℕ) : (one n).toM n n = 1 := by
  ext i j
  simp only [toM_apply, get_one i.2 j.2, Matrix.one_apply, Fin.ext_iff]
  split_ifs <;> simp

theorem toM_mul (A B : Mat) {n k m : ℕ} (hn : A.n = n) (hk : A.m = k) (hm : B.m = m) :
    (A.mul B).toM n m = A.toM n k * B.toM k m := by
  subst hn hk hm
  ext i j
  simp only [toM_apply, get_mul A B i.2 j.2, Matrix.mul_apply, GQ.toC_sum, GQ.toC_mul]
  rw [Finset.sum_range]

theorem toM_adjoint (A : Mat) {n m : ℕ} (hn : A.n = n) (hm : A.m = m) : A.adjoint.toM m n = (A.toM n m)ᴴ := by
  subst hn hm
  ext i j
  simp [get_adjoint A i.2 j.2]

theorem toM_transpose (A : Mat) {n m : ℕ} (hn : A.n = n) (hm : A.m = m) : A.transpose.toM m n = (A.toM n m)ᵀ := by
  subst hn hm
  ext i j
  simp [get_transpose A i.2 j.2]

theorem toM_smul (c : GQ) (A : Mat) {n m : ℕ} (hn : A.n = n) (hm : A.m = m) : (smul c A).toM n m = c.toC • A.toM n m := by
  subst hn hm
  ext i j
  simp [get_smul c A i.2 j.2]

theorem toM_add (A B : Mat) {n m : ℕ} (hn : A.n = n) (hm : A.m = m) : (A.add B).toM n m = A.toM n m + B.toM n m := by
  subst hn hm
  ext i j
  simp [get_add A B i.2 j.2]

theorem toM_neg (A : Mat) {n m : ℕ} (hn : A.n = n) (hm : A.m = m) : A.neg.toM n m = -A.toM n m := by
  subst hn hm
  ext i j
  simp [get_neg A i.2 j.2]

/-- `kron` is the Kronecker product in the row-major pairing `finProdFinEquiv` (first factor most significant) -/
theorem toM_kron (A B : Mat) {a b c d : ℕ} (ha : A.n = a) (hc : A.m = c) (hb : B.n = b) (hd : B.m = d) :
    (A.kron B).toM (a * b) (c * d) =
      Matrix.reindex finProdFinEquiv finProdFinEquiv (Matrix.kroneckerMap (· * ·) (A.toM a c) (B.toM b d)) := by
  subst ha hb hc hd
  ext i j
  obtain ⟨⟨i1, i2⟩, rfl⟩ := finProdFinEquiv.surjective i
  obtain ⟨⟨j1, j2⟩, rfl⟩ := finProdFinEquiv.surjective j
  simp only [toM_apply, Matrix.reindex_apply, Matrix.submatrix_apply, Equiv.symm_apply_apply, Matrix.kroneckerMap_apply,
    finProdFinEquiv_apply_val]
  rw [Nat.add_comm i2.val, Nat.add_comm j2.val, Nat.mul_comm B.n, Nat.mul_comm B.m,
    get_kron' A B i1.2 i2.2 j1.2 j2.2, GQ.toC_mul]

/-- `block` is `Matrix.fromBlocks` in the pairing `finSumFinEquiv` (`2 * d = d + d`) -/
theorem toM_block (A B C D : Mat) {d : ℕ} (hd : A.n = d) :
    (block A B C D).toM (d + d) (d + d) =
      Matrix.reindex finSumFinEquiv finSumFinEquiv (Matrix.fromBlocks (A.toM d d) (B.toM d d) (C.toM d d) (D.toM d d)) := by
  subst hd
  ext i j
  have hi : i.val < 2 * A.n := by have := i.2; omega
  have hj : j.val < 2 * A.n := by have := j.2; omega
  obtain ⟨i', rfl⟩ := finSumFinEquiv.surjective i
  obtain ⟨j', rfl⟩ := finSumFinEquiv.surjective j
  simp only [toM_apply, Matrix.reindex_apply, Matrix.submatrix_apply, Equiv.symm_apply_apply, get_block A B C D hi hj]
  rcases i' with i' | i' <;> rcases j' with j' | j' <;> simp [Matrix.fromBlocks]

end Mat
end Qib

namespace Qib
namespace Mat
open Qib.GateAlgebra

/-! ### re-indexing along an equivalence keeps products, identities, adjoints -/
section Reindex
variable {κ ι : Type*}

theorem reindex_mul_reindex [Fintype κ] [Fintype ι] (e : κ ≃ ι) (A B : Matrix κ κ ℂ) :
    Matrix.reindex e e A * Matrix.reindex e e B = Matrix.reindex e e (A * B) := by
  simp only [Matrix.reindex_apply, Matrix.submatrix_mul_equiv]

theorem reindex_one [DecidableEq κ] [DecidableEq ι] (e : κ ≃ ι) : Matrix.reindex e e (1 : Matrix κ κ ℂ) = 1 := by
  simp only [Matrix.reindex_apply, Matrix.submatrix_one_equiv]

theorem reindex_conjTranspose (e : κ ≃ ι) (A : Matrix κ κ ℂ) : (Matrix.reindex e e A)ᴴ = Matrix.reindex e e Aᴴ := by
  simp only [Matrix.reindex_apply, Matrix.conjTranspose_submatrix]

theorem reindex_eq_one_iff [DecidableEq κ] [DecidableEq ι] (e : κ ≃ ι) (A : Matrix κ κ ℂ) : Matrix.reindex e e A = 1 ↔ A = 1 := by
  rw [← reindex_one e, (Matrix.reindex e e).injective.eq_iff]

theorem reindex_unitary_iff [Fintype κ] [DecidableEq κ] [Fintype ι] [DecidableEq ι] (e : κ ≃ ι) (A : Matrix κ κ ℂ) :
    Matrix.reindex e e A * (Matrix.reindex e e A)ᴴ = 1 ↔ A * Aᴴ = 1 := by
  rw [reindex_conjTranspose, reindex_mul_reindex, reindex_eq_one_iff]

end Reindex

/-! ### the assembly functions of `QibModel/Gate.lean` -/
open Qib.Gate Qib.GateFlat

@[simp] theorem controlledMat_n (cs : List Bool) (U : Mat) : (controlledMat cs U).n = 2 ^ cs.length * U.n := rfl
@[simp] theorem controlledMat_m (cs : List Bool) (U : Mat) : (controlledMat cs U).m = 2 ^ cs.length * U.n := rfl
theorem controlledMat_wf (cs : List Bool) (U : Mat) : (controlledMat cs U).WF := add_wf _ _

/-- **control semantics of the executed assembly**: in block coordinates (control value `c`, target index `a`)
`controlledMat cs U` is `U` on the diagonal block of the control pattern read most-significant control first,
the identity on the other diagonal blocks, and zero off the block diagonal. -/
theorem get_controlledMat (cs : List Bool) (U : Mat) {d : ℕ} (hn : U.n = d) (hm : U.m = d) {c c' a b : ℕ}
    (hc : c < 2 ^ cs.length) (hc' : c' < 2 ^ cs.length) (ha : a < d) (hb : b < d) :
    (controlledMat cs U).get (c * d + a) (c' * d + b) =
      if c = c' then (if c = ofBitsMSB cs then U.get a b else if a = b then 1 else 0) else 0 := by
  subst hn
  simp only [controlledMat]
  rw [get_add _ _ (by simpa using idx_lt hc ha) (by simpa using idx_lt hc' hb)]
  have k1 := get_kron' (Mat.ofFn (2 ^ cs.length) (2 ^ cs.length) fun i j => if i = j then (if i = ctrlIndex cs then (0 : GQ) else 1) else 0)
    (Mat.one U.n) (i1 := c) (i2 := a) (j1 := c') (j2 := b) hc ha hc' hb
  have k2 := get_kron' (Mat.ofFn (2 ^ cs.length) (2 ^ cs.length) fun i j => if i = j then (if i = ctrlIndex cs then (1 : GQ) else 0) else 0)
    U (i1 := c) (i2 := a) (j1 := c') (j2 := b) hc ha hc' (by omega)
  simp only [one_n, one_m, hm] at k1 k2
  rw [k1, k2, get_ofFn _ hc hc', get_ofFn _ hc hc', get_one ha hb, ctrlIndex_msb]
  split_ifs <;> simp

/-- `controlledMat cs U` denotes `blockOn (ofBitsMSB cs) U` (the abstract controlled gate of `GateAlgebra`) -/
theorem toM_controlledMat (cs : List Bool) (U : Mat) {d : ℕ} (hn : U.n = d) (hm : U.m = d) :
    (controlledMat cs U).toM (2 ^ cs.length * d) (2 ^ cs.length * d) =
      Matrix.reindex finProdFinEquiv finProdFinEquiv
        (blockOn (⟨ofBitsMSB cs, ofBitsMSB_lt cs⟩ : Fin (2 ^ cs.length)) (U.toM d d)) := by
  ext i j
  obtain ⟨⟨i1, i2⟩, rfl⟩ := finProdFinEquiv.surjective i
  obtain ⟨⟨j1, j2⟩, rfl⟩ := finProdFinEquiv.surjective j
  simp only [toM_apply, Matrix.reindex_apply, Matrix.submatrix_apply, Equiv.symm_apply_apply, finProdFinEquiv_apply_val, blockOn]
  rw [Nat.add_comm i2.val, Nat.add_comm j2.val, Nat.mul_comm d, Nat.mul_comm d,
    get_controlledMat cs U hn hm i1.2 j1.2 i2.2 j2.2]
  simp only [Fin.ext_iff, Matrix.one_apply, Equiv.symm_apply_apply]
  split_ifs <;> simp

theorem blockDiag_cons_n (U : Mat) (Us : List Mat) : (blockDiag (U :: Us)).n = (Us.length + 1) * U.n := rfl
theorem blockDiag_cons_m (U : Mat) (Us : List Mat) : (blockDiag (U :: Us)).m = (Us.length + 1) * U.n := rfl
theorem blockDiag_wf (Us : List Mat) : (blockDiag Us).WF := by
  cases Us with
  | nil => simp only [Gate.blockDiag]; exact ofFn_wf _ _ _
  | cons U Us => simp only [Gate.blockDiag]; exact ofFn_wf _ _ _

/-- **multiplexer semantics of the executed assembly**: `blockDiag` has the `k`-th matrix as `k`-th diagonal
block (block size = size of the first matrix) and zeros elsewhere -/
theorem get_blockDiag (U : Mat) (Us : List Mat) {d : ℕ} (hd : U.n = d) {k k' a b : ℕ}
    (hk : k < Us.length + 1) (hk' : k' < Us.length + 1) (ha : a < d) (hb : b < d) :
    (blockDiag (U :: Us)).get (k * d + a) (k' * d + b) = if k = k' then ((U :: Us).getD k U).get a b else 0 := by
  subst hd
  simp only [Gate.blockDiag, List.length_cons]
  rw [get_ofFn _ (idx_lt hk ha) (idx_lt hk' hb)]
  have e1 : (k * U.n + a) / U.n = k := by rw [Nat.mul_comm, Nat.mul_add_div (by omega), Nat.div_eq_of_lt ha, Nat.add_zero]
  have e2 : (k' * U.n + b) / U.n = k' := by rw [Nat.mul_comm, Nat.mul_add_div (by omega), Nat.div_eq_of_lt hb, Nat.add_zero]
  have e3 : (k * U.n + a) % U.n = a := by rw [Nat.mul_comm, Nat.mul_add_mod, Nat.mod_eq_of_lt ha]
  have e4 : (k' * U.n + b) % U.n = b := by rw [Nat.mul_comm, Nat.mul_add_mod, Nat.mod_eq_of_lt hb]
  rw [e1, e2, e3, e4]

/-- `blockDiag` denotes `blocks` (the abstract multiplexer of `GateAlgebra`) -/
theorem toM_blockDiag (U : Mat) (Us : List Mat) {d K : ℕ} (hd : U.n = d) (hK : Us.length + 1 = K) :
    (blockDiag (U :: Us)).toM (K * d) (K * d) =
      Matrix.reindex finProdFinEquiv finProdFinEquiv (blocks fun k : Fin K => ((U :: Us).getD k U).toM d d) := by
  subst hK
  ext i j
  obtain ⟨⟨i1, i2⟩, rfl⟩ := finProdFinEquiv.surjective i
  obtain ⟨⟨j1, j2⟩, rfl⟩ := finProdFinEquiv.surjective j
  simp only [toM_apply, Matrix.reindex_apply, Matrix.submatrix_apply, Equiv.symm_apply_apply, finProdFinEquiv_apply_val, blocks]
  rw [Nat.add_comm i2.val, Nat.add_comm j2.val, Nat.mul_comm d, Nat.mul_comm d,
    get_blockDiag U Us hd i1.2 j1.2 i2.2 j2.2]
  simp only [Fin.ext_iff]
  split_ifs <;> simp

/-! ### unitarity / Hermiticity of a `Mat`, three equivalent readings -/

/-- `A` is a well-formed `d × d` matrix whose complex reading is unitary -/
structure IsUnitaryN (A : Mat) (d : ℕ) : Prop where
  n_eq : A.n = d
  m_eq : A.m = d
  wf : A.WF
  mul_adj : A.toM d d * (A.toM d d)ᴴ = 1

theorem IsUnitaryN.adj_mul {A : Mat} {d : ℕ} (h : A.IsUnitaryN d) : (A.toM d d)ᴴ * A.toM d d = 1 :=
  mul_eq_one_comm.mp h.mul_adj

/-- unitarity in the matrix's own shape -/
def IsUnitary (A : Mat) : Prop := A.IsUnitaryN A.n

/-- entrywise reading: rows are orthonormal -/
theorem mul_adj_iff_rows (A : Mat) (d : ℕ) :
    A.toM d d * (A.toM d d)ᴴ = 1 ↔
      ∀ i j, i < d → j < d → ∑ k ∈ Finset.range d, (A.get i k).toC * star (A.get j k).toC = if i = j then 1 else 0 := by
  constructor
  · intro h i j hi hj
    have := congrFun (congrFun h ⟨i, hi⟩) ⟨j, hj⟩
    simp only [Matrix.mul_apply, Matrix.conjTranspose_apply, toM_apply, Matrix.one_apply, Fin.ext_iff] at this
    rw [Finset.sum_range]; exact this
  · intro h
    ext i j
    have := h i j i.2 j.2
    rw [Finset.sum_range] at this
    simp only [Matrix.mul_apply, Matrix.conjTranspose_apply, toM_apply, Matrix.one_apply, Fin.ext_iff]
    exact this

/-- entrywise reading: columns are orthonormal -/
theorem adj_mul_iff_cols (A : Mat) (d : ℕ) :
    (A.toM d d)ᴴ * A.toM d d = 1 ↔
      ∀ i j, i < d → j < d → ∑ k ∈ Finset.range d, star (A.get k i).toC * (A.get k j).toC = if i = j then 1 else 0 := by
  constructor
  · intro h i j hi hj
    have := congrFun (congrFun h ⟨i, hi⟩) ⟨j, hj⟩
    simp only [Matrix.mul_apply, Matrix.conjTranspose_apply, toM_apply, Matrix.one_apply, Fin.ext_iff] at this
    rw [Finset.sum_range]; exact this
  · intro h
    ext i j
    have := h i j i.2 j.2
    rw [Finset.sum_range] at this
    simp only [Matrix.mul_apply, Matrix.conjTranspose_apply, toM_apply, Matrix.one_apply, Fin.ext_iff]
    exact this

/-- executable reading: the driver's own product `A.mul A.adjoint` is the driver's identity matrix -/
theorem mul_adj_iff_exec (A : Mat) {d : ℕ} (hn : A.n = d) (hm : A.m = d) :
    A.toM d d * (A.toM d d)ᴴ = 1 ↔ A.mul A.adjoint = one d := by
  rw [← toM_adjoint A hn hm, ← toM_mul A A.adjoint hn hm (by simpa using hn), ← toM_one]
  constructor
  · intro h
    exact toM_injective (mul_wf _ _) (one_wf _) (by simpa using hn) (by simpa using hn) rfl rfl h
  · intro h; rw [h]

/-- a product of executable matrices is the executable identity iff it is so over `ℂ` -/
theorem mul_eq_one_iff_exec (A B : Mat) {d : ℕ} (hAn : A.n = d) (hAm : A.m = d) (hBm : B.m = d) :
    A.toM d d * B.toM d d = 1 ↔ A.mul B = one d := by
  rw [← toM_mul A B hAn hAm hBm, ← toM_one]
  constructor
  · intro h
    exact toM_injective (mul_wf _ _) (one_wf _) (by simpa using hAn) (by simpa using hBm) rfl rfl h
  · intro h; rw [h]

/-- Hermiticity: over `ℂ` iff the driver's `adjoint` returns the matrix itself -/
theorem herm_iff_exec (A : Mat) {d : ℕ} (hn : A.n = d) (hm : A.m = d) (hwf : A.WF) :
    (A.toM d d)ᴴ = A.toM d d ↔ A.adjoint = A := by
  rw [← toM_adjoint A hn hm]
  constructor
  · intro h
    exact toM_injective (adjoint_wf _) hwf (by simpa using hm) (by simpa using hn) hn hm h
  · intro h; rw [h]

/-- `beq` is equality of the structures -/
theorem beq_iff (A B : Mat) : A.beq B = true ↔ A = B := by
  obtain ⟨n, m, d⟩ := A
  obtain ⟨n', m', d'⟩ := B
  simp only [beq, Bool.and_eq_true, beq_iff_eq, Mat.mk.injEq, and_assoc]

/-- `beq` (the test `GeneralGate.is_hermitian` is modelled with) implies equality of all entries -/
theorem get_eq_of_beq {A B : Mat} (h : A.beq B = true) : A.n = B.n ∧ A.m = B.m ∧ ∀ i j, A.get i j = B.get i j := by
  simp only [beq, Bool.and_eq_true, beq_iff_eq] at h
  obtain ⟨⟨h1, h2⟩, h3⟩ := h
  refine ⟨h1, h2, fun i j => ?_⟩
  simp only [get, h2, h3]

end Mat
end Qib

namespace Qib
namespace Mat

/-- unitarity read in the matrix's own shape -/
theorem IsUnitaryN.toMatrix {A : Mat} {d : ℕ} (h : A.IsUnitaryN d) :
    A.toMatrix * A.toMatrixᴴ = 1 ∧ A.toMatrixᴴ * A.toMatrix = 1 := by
  obtain ⟨n, m, data⟩ := A
  obtain ⟨hn, hm, _, hmul⟩ := h
  simp only at hn hm
  subst hn hm
  exact ⟨hmul, mul_eq_one_comm.mp hmul⟩

theorem IsUnitaryN.isUnitary {A : Mat} {d : ℕ} (h : A.IsUnitaryN d) : A.IsUnitary := by
  unfold IsUnitary; rw [h.n_eq]; exact h

/-- rows are orthonormal -/
theorem IsUnitaryN.rows {A : Mat} {d : ℕ} (h : A.IsUnitaryN d) : ∀ i j, i < d → j < d →
    ∑ k ∈ Finset.range d, (A.get i k).toC * star (A.get j k).toC = if i = j then 1 else 0 :=
  (mul_adj_iff_rows A d).mp h.mul_adj

/-- columns are orthonormal -/
theorem IsUnitaryN.cols {A : Mat} {d : ℕ} (h : A.IsUnitaryN d) : ∀ i j, i < d → j < d →
    ∑ k ∈ Finset.range d, star (A.get k i).toC * (A.get k j).toC = if i = j then 1 else 0 :=
  (adj_mul_iff_cols A d).mp h.adj_mul

end Mat
end Qib
