import QibProofs.Lemmas.CompactLoop
/-!
C13 helper lemmas, part 7: on a face that carries an auxiliary qubit the loop product is the identity string
(letters *and* sign). The four edge strings live on the five distinct qubits `[c00, c01, c11, c10, aux]`; by the
scattering lemma their product is the scattered product of four strings on five sites, which is evaluated.
-/
set_option linter.unusedSimpArgs false
namespace Qib.Compact
open Qib.Pauli Qib.Lattice

/-- the five qubits of a face: corners clockwise from the upper left, then the auxiliary qubit -/
def frame (n0 n1 x y : Nat) : List Nat :=
  [vIdx n1 x y, vIdx n1 x (y + 1), vIdx n1 (x + 1) (y + 1), vIdx n1 (x + 1) y, fIdx n0 n1 x y]

theorem frame_nodup {n0 n1 x y : Nat} (h : FaceOK n0 n1 x y) : (frame n0 n1 x y).Nodup := by
  obtain ⟨h1, h2, -⟩ := h
  have i1 := vIdx_inj (n1 := n1) (x := x) (y := y) (x' := x) (y' := y + 1) (by omega) (by omega)
  have i2 := vIdx_inj (n1 := n1) (x := x) (y := y) (x' := x + 1) (y' := y + 1) (by omega) (by omega)
  have i3 := vIdx_inj (n1 := n1) (x := x) (y := y) (x' := x + 1) (y' := y) (by omega) (by omega)
  have i4 := vIdx_inj (n1 := n1) (x := x) (y := y + 1) (x' := x + 1) (y' := y + 1) (by omega) (by omega)
  have i5 := vIdx_inj (n1 := n1) (x := x) (y := y + 1) (x' := x + 1) (y' := y) (by omega) (by omega)
  have i6 := vIdx_inj (n1 := n1) (x := x + 1) (y := y + 1) (x' := x + 1) (y' := y) (by omega) (by omega)
  have f1 := vIdx_ne_fIdx (n0 := n0) (n1 := n1) (x := x) (y := y) (a := x) (b := y) (by omega) (by omega)
  have f2 := vIdx_ne_fIdx (n0 := n0) (n1 := n1) (x := x) (y := y + 1) (a := x) (b := y) (by omega) (by omega)
  have f3 := vIdx_ne_fIdx (n0 := n0) (n1 := n1) (x := x + 1) (y := y + 1) (a := x) (b := y) (by omega) (by omega)
  have f4 := vIdx_ne_fIdx (n0 := n0) (n1 := n1) (x := x + 1) (y := y) (a := x) (b := y) (by omega) (by omega)
  simp only [frame, List.nodup_cons, List.mem_cons, List.not_mem_nil, or_false, i1, i2, i3, i4, i5, i6, f1, f2, f3, f4,
    List.nodup_nil, and_true, not_or]
  simp

theorem frame_lt {n0 n1 x y : Nat} (h : FaceOK n0 n1 x y) : ∀ k ∈ frame n0 n1 x y, k < ofcNsites n0 n1 := by
  have hf := fIdx_lt h
  obtain ⟨h1, h2, -⟩ := h
  intro k hk
  simp only [frame, List.mem_cons, List.not_mem_nil, or_false] at hk
  rcases hk with rfl | rfl | rfl | rfl | rfl
  · exact vIdx_lt_nsites (by omega) (by omega)
  · exact vIdx_lt_nsites (by omega) (by omega)
  · exact vIdx_lt_nsites (by omega) (by omega)
  · exact vIdx_lt_nsites (by omega) (by omega)
  · exact hf

/-- an edge-type string on three of the five qubits of the frame, as a scattered five-site string -/
theorem xy_on_frame {n0 n1 x y : Nat} (h : FaceOK n0 n1 x y) (i j : Nat) (isY : Bool) (q : Fin 4)
    (hi : i < 4) (hj : j < 4) (hij : i ≠ j) :
    xyStr (ofcNsites n0 n1) ((frame n0 n1 x y).getD i 0) ((frame n0 n1 x y).getD j 0)
      (some (fIdx n0 n1 x y, isY)) q = PS.scat (ofcNsites n0 n1) (frame n0 n1 x y) (xyStr 5 i j (some (4, isY)) q) := by
  have := xyStr_scat (ofcNsites n0 n1) (frame n0 n1 x y) i j (some (4, isY)) q (frame_nodup h) (frame_lt h)
    (by simp [frame]; omega) (by simp [frame]; omega) hij
    (by intro m y' e; simp only [Option.some.injEq, Prod.mk.injEq] at e; obtain ⟨rfl, -⟩ := e; simp [frame]; omega)
  exact this

/-! the auxiliary entries of the four edges of a numbered face all point to its own auxiliary qubit -/

theorem aux_top {n0 n1 x y : Nat} (h : FaceOK n0 n1 x y) : auxOf n0 n1 true x y = some (fIdx n0 n1 x y, true) := by
  obtain ⟨h1, h2, h3⟩ := h
  rw [auxOf, auxFace_even _ _ _ _ _ h3, if_pos ⟨h1, h2⟩]; rfl

theorem aux_left {n0 n1 x y : Nat} (h : FaceOK n0 n1 x y) : auxOf n0 n1 false x y = some (fIdx n0 n1 x y, false) := by
  obtain ⟨h1, h2, h3⟩ := h
  rw [auxOf, auxFace_even _ _ _ _ _ h3, if_pos ⟨h1, h2⟩]; rfl

theorem aux_right {n0 n1 x y : Nat} (h : FaceOK n0 n1 x y) :
    auxOf n0 n1 false x (y + 1) = some (fIdx n0 n1 x y, false) := by
  obtain ⟨h1, h2, h3⟩ := h
  rw [auxOf, auxFace_odd_v _ _ _ _ (by omega), if_pos ⟨by omega, h1, h2⟩]; rfl

theorem aux_bottom {n0 n1 x y : Nat} (h : FaceOK n0 n1 x y) :
    auxOf n0 n1 true (x + 1) y = some (fIdx n0 n1 x y, true) := by
  obtain ⟨h1, h2, h3⟩ := h
  rw [auxOf, auxFace_odd_h _ _ _ _ (by omega), if_pos ⟨by omega, h1, h2⟩]; rfl

theorem local_even : (((xyStr 5 1 0 (some (4, true)) 2).mul (xyStr 5 1 2 (some (4, false)) 0)).mul
    (xyStr 5 3 2 (some (4, true)) 2)).mul (xyStr 5 3 0 (some (4, false)) 2) = PS.identity 5 := by decide

theorem local_odd : (((xyStr 5 0 1 (some (4, true)) 0).mul (xyStr 5 2 1 (some (4, false)) 0)).mul
    (xyStr 5 2 3 (some (4, true)) 0)).mul (xyStr 5 0 3 (some (4, false)) 2) = PS.identity 5 := by decide

/-- **loop product on a face carrying an auxiliary qubit = identity string** -/
theorem loopStr_identity {n0 n1 x y : Nat} (h : FaceOK n0 n1 x y) :
    loopStr n0 n1 x y = PS.identity (ofcNsites n0 n1) := by
  have hn := frame_nodup h
  have hlt := frame_lt h
  have L5 : ∀ i j a q, (xyStr 5 i j a q).HasLen (frame n0 n1 x y).length := fun i j a q => xyStr_hasLen 5 i j a q
  obtain ⟨h1, h2, h3⟩ := h
  have h' : FaceOK n0 n1 x y := ⟨h1, h2, h3⟩
  unfold loopStr
  rw [edgeStr_right, edgeStr_down, edgeStr_left, edgeStr_up]
  unfold hBody vBody
  rw [aux_top h', aux_left h', aux_right h', aux_bottom h']
  rcases Nat.mod_two_eq_zero_or_one x with px | px
  · have py : y % 2 = 0 := by omega
    have px1 : (x + 1) % 2 = 1 := by omega
    have py1 : (y + 1) % 2 = 1 := by omega
    simp only [px, py, px1, py1, if_true, Nat.one_ne_zero, if_false, neg_xyStr, Nat.sub_zero, Nat.add_zero,
      Nat.add_sub_cancel]
    rw [show xyStr (ofcNsites n0 n1) (vIdx n1 x (y + 1)) (vIdx n1 x y) (some (fIdx n0 n1 x y, true)) 2 = _ from
        xy_on_frame h' 1 0 true 2 (by omega) (by omega) (by omega),
      show xyStr (ofcNsites n0 n1) (vIdx n1 x (y + 1)) (vIdx n1 (x + 1) (y + 1)) (some (fIdx n0 n1 x y, false)) 0 = _ from
        xy_on_frame h' 1 2 false 0 (by omega) (by omega) (by omega),
      show xyStr (ofcNsites n0 n1) (vIdx n1 (x + 1) y) (vIdx n1 (x + 1) (y + 1)) (some (fIdx n0 n1 x y, true)) 2 = _ from
        xy_on_frame h' 3 2 true 2 (by omega) (by omega) (by omega),
      show xyStr (ofcNsites n0 n1) (vIdx n1 (x + 1) y) (vIdx n1 x y) (some (fIdx n0 n1 x y, false)) 2 = _ from
        xy_on_frame h' 3 0 false 2 (by omega) (by omega) (by omega),
      mul_scat _ _ _ _ hn hlt (L5 _ _ _ _) (L5 _ _ _ _),
      mul_scat _ _ _ _ hn hlt (mul_hasLen _ _ _ (L5 _ _ _ _) (L5 _ _ _ _)) (L5 _ _ _ _),
      mul_scat _ _ _ _ hn hlt (mul_hasLen _ _ _ (mul_hasLen _ _ _ (L5 _ _ _ _) (L5 _ _ _ _)) (L5 _ _ _ _)) (L5 _ _ _ _),
      local_even, scat_identity]
  · have py : y % 2 = 1 := by omega
    have px1 : (x + 1) % 2 = 0 := by omega
    have py1 : (y + 1) % 2 = 0 := by omega
    simp only [px, py, px1, py1, if_true, Nat.one_ne_zero, if_false, neg_xyStr, Nat.sub_zero, Nat.add_zero,
      Nat.add_sub_cancel]
    rw [show xyStr (ofcNsites n0 n1) (vIdx n1 x y) (vIdx n1 x (y + 1)) (some (fIdx n0 n1 x y, true)) 0 = _ from
        xy_on_frame h' 0 1 true 0 (by omega) (by omega) (by omega),
      show xyStr (ofcNsites n0 n1) (vIdx n1 (x + 1) (y + 1)) (vIdx n1 x (y + 1)) (some (fIdx n0 n1 x y, false)) 0 = _ from
        xy_on_frame h' 2 1 false 0 (by omega) (by omega) (by omega),
      show xyStr (ofcNsites n0 n1) (vIdx n1 (x + 1) (y + 1)) (vIdx n1 (x + 1) y) (some (fIdx n0 n1 x y, true)) 0 = _ from
        xy_on_frame h' 2 3 true 0 (by omega) (by omega) (by omega),
      show xyStr (ofcNsites n0 n1) (vIdx n1 x y) (vIdx n1 (x + 1) y) (some (fIdx n0 n1 x y, false)) 2 = _ from
        xy_on_frame h' 0 3 false 2 (by omega) (by omega) (by omega),
      mul_scat _ _ _ _ hn hlt (L5 _ _ _ _) (L5 _ _ _ _),
      mul_scat _ _ _ _ hn hlt (mul_hasLen _ _ _ (L5 _ _ _ _) (L5 _ _ _ _)) (L5 _ _ _ _),
      mul_scat _ _ _ _ hn hlt (mul_hasLen _ _ _ (mul_hasLen _ _ _ (L5 _ _ _ _) (L5 _ _ _ _)) (L5 _ _ _ _)) (L5 _ _ _ _),
      local_odd, scat_identity]

end Qib.Compact
