import QibProofs.Lemmas.CircuitNetTotalEinsum
/-!
Helper lemmas for C05 (totality), part 9: `Circuit.as_tensornet` returns with the loop invariants, and
`TensorNetworkSimulator.run` returns (`init_net`, its two assertions, the last merge, `contract_einsum`,
`to_full_tensor`). No property statements.
-/
set_option linter.unusedSimpArgs false
set_option linter.unusedSectionVars false
namespace Qib.CircuitNet
open Qib.TNet Qib.GateNet Qib.Embed

section Run
variable {α : Type} [CommSemiring α] [DecidableEq α]

/-- `Circuit.as_tensornet()` returns, and the network it returns satisfies the loop invariants -/
theorem circuitNet_total_state (fields : List FieldSpec) (instrs : List (CInstr α))
    (hdim : ∀ f ∈ fields, f.localDim = 2) (hg : ∀ p, CInstr.gate p ∈ instrs → GateTot fields p)
    (hcompat : DataCompat instrs)
    (hord : OrdersAdm fields (numWires fields) (⟨wireNetC (wireDims fields), []⟩ : TN α) instrs) :
    ∃ tn, circuitNet fields instrs = .ok tn ∧ StateOK (numWires fields) tn ∧ SlackOK (numWires fields) tn.net ∧
      DataFrom instrs tn := by
  obtain ⟨hst0, _⟩ := init_state (α := α) (wireDims fields) (numWires fields) (wireDims_eq_rep2 fields hdim)
  have hsl0 : SlackOK (numWires fields) (⟨wireNetC (wireDims fields), []⟩ : TN α).net := by
    have := wireNetC_slack (wireDims fields)
    rw [length_wireDims] at this
    exact this
  obtain ⟨tn, hl, hst, hsl, hdf⟩ := circuitLoop_total instrs hcompat instrs _ hst0 hsl0
    (by intro e he; cases he) (fun p hp => hp) hg hord
  refine ⟨tn, ?_, hst, hsl, hdf⟩
  unfold circuitNet
  simp only [bind, Except.bind, wireNet_eq, assertConsistent, hst0.data, liftT, Bool.not_true, Bool.false_eq_true,
    if_false, pure, Except.pure, length_wireDims]
  exact hl

/-- `init_net` of the simulator passes `TensorNetwork.is_consistent()` -/
theorem initTN_consistentData (n : Nat) :
    GateNet.isConsistentData (⟨initNetC n, initDataC n⟩ : TN α) = .ok true := by
  have hc := consistent_of_wf (initNetC_wf n)
  simp only [GateNet.isConsistentData, hc, bind, Except.bind, Bool.not_true, Bool.false_eq_true, if_false, pure,
    Except.pure, Except.ok.injEq, List.all_eq_true]
  intro e he
  simp only [initNetC, List.mem_append, List.mem_map, List.mem_range, List.mem_singleton] at he
  rcases he with ⟨i, hi, rfl⟩ | rfl
  · have hn : n ≠ 0 := by omega
    simp [ketTensor, initDataC, hn, List.lookup, DT.ofFn]
  · simp [initVirt]

theorem length_le_one_of_all_eq {l : List Int} (hn : l.Nodup) (a : Int) (h : ∀ x ∈ l, x = a) : l.length ≤ 1 := by
  cases l with
  | nil => simp
  | cons x xs =>
    cases xs with
    | nil => simp
    | cons y ys =>
      exfalso
      have hx := h x List.mem_cons_self
      have hy := h y (List.mem_cons_of_mem _ List.mem_cons_self)
      rw [List.nodup_cons] at hn
      exact hn.1 (by rw [hx, ← hy]; exact List.mem_cons_self)

/-- the simulator after `circ.as_tensornet()` has returned a network satisfying the loop invariants, with valid orders
for the last merge: `TensorNetworkSimulator.run` returns -/
theorem tnRun_of_circuit (fields : List FieldSpec) (instrs : List (CInstr α)) (tor bor : List Int)
    (hdim : ∀ f ∈ fields, f.localDim = 2) (hn : numWires fields ≠ 0) {tn : TN α}
    (hcirc : circuitNet fields instrs = .ok tn) (hst : StateOK (numWires fields) tn)
    (hsl : SlackOK (numWires fields) tn.net) (hdf : DataFrom instrs tn)
    (hket : ∀ p, CInstr.gate p ∈ instrs → ∀ d, ((4 : Int), d) ∈ gateData p → d = DT.ofFn [2] ket0Sem)
    (ho : C08.OrdersOK tn.net (initNetC (numWires fields)) tor bor) :
    ∃ tn' psi, tnRunNet fields instrs tor bor = .ok tn' ∧ tnRun fields instrs tor bor = .ok psi := by
  set n := numWires fields with hnd
  have hwd : wireDims fields = rep2 n := wireDims_eq_rep2 fields hdim
  have hinitd := initTN_consistentData (α := α) n
  obtain ⟨va, hva, hsa⟩ := hst.shape
  have wa := (C08.C08_inv_iff_wf _).mp hst.inv
  have wb := initNetC_wf n
  have hvb := initNetC_virt n
  have hla : va.bids.length = 2 * n := by
    rw [← wa.tshape _ (mem_of_dget_eq_some _ hva), hsa, length_rep2]
  have hjd := simJoin_dims hva hvb hsa rfl
  have hrange : ∀ ja ∈ simJoin n, 0 ≤ ja.1 ∧ ja.1 < va.shape.length ∧ 0 ≤ ja.2 ∧ ja.2 < (initVirt n).shape.length := by
    intro ja hja
    obtain ⟨i, hi, rfl⟩ := mem_simJoin.mp hja
    rw [hsa, length_rep2]
    simp only [initVirt, length_rep2, Int.ofNat_eq_natCast]
    omega
  -- the last merge returns
  obtain ⟨net', hm⟩ := merge_returns wa wb ho.1 ho.2 hjd hva hvb hrange (initNetC_realRef n) (List.range' n n)
    (fun d hd => by rw [hla]; have := List.mem_range'_1.mp hd; omega)
    (fun ja hja => by
      obtain ⟨i, hi, rfl⟩ := mem_simJoin.mp hja
      simp only [Int.ofNat_eq_natCast, Int.toNat_natCast]
      exact List.mem_range'_1.mpr ⟨by omega, by omega⟩)
    (hsl.inp va hva)
  have hcl : dataClash tn.data (initDataC (α := α) n) = false := by
    apply dataClash_false_of
    intro k d d' h1 h2
    simp only [initDataC, hn, if_false, List.mem_singleton, Prod.mk.injEq] at h2
    obtain ⟨rfl, rfl⟩ := h2
    obtain ⟨q, hq, hqe⟩ := hdf _ h1
    exact hket q hq d hqe
  have hmt := mergeTN_eq_ok (self := tn) (other := (⟨initNetC n, initDataC n⟩ : TN α)) (join := simJoin n) ho hm hcl
  have hno : numOpenAxes (initNetC n) = .ok n := by
    rw [numOpenAxes_eq hvb]; simp [initVirt, length_rep2]
  have hnoa : numOpenAxes tn.net = .ok (2 * n) := by rw [numOpenAxes_eq hva, hsa, length_rep2]
  have hnet : tnRunNet fields instrs tor bor = .ok ⟨net', dupdate tn.data (initDataC n)⟩ := by
    unfold tnRunNet
    simp only [bind, Except.bind, hwd, initTN_eq, assertConsistent, hinitd, liftT, Bool.not_true, Bool.false_eq_true,
      if_false, pure, Except.pure, hno, length_rep2, bne_self_eq_false, hcirc, hnoa]
    exact hmt
  -- the contraction returns
  have hinv' : C08.Inv net' := C08.C08_merge_consistent hst.inv (initNetC_inv n) ho hjd hm
  have hnd0 : (dkeys (initDataC (α := α) n)).Nodup := by
    unfold initDataC; split <;> simp [dkeys]
  have hcd : GateNet.isConsistentData (⟨net', dupdate tn.data (initDataC n)⟩ : TN α) = .ok true :=
    mergeTN_consistentData hst.inv (initNetC_inv n) hst.data hinitd hnd0 hjd hmt
  have w' := (C08.C08_inv_iff_wf _).mp hinv'
  have hreal : ∃ t ∈ dkeys net'.tensors, t ≠ -1 := by
    obtain ⟨ta, tb, _, _, hta, htb, _, _, hnt, _⟩ := C08.C08_merge_counts hst.inv (initNetC_inv n) ho hjd hm
    rw [numTensors_eq wb.virt] at htb
    have htb' : tb = n := by
      have := Except.ok.inj htb
      simp only [initNetC, List.length_append, List.length_map, List.length_range, List.length_cons,
        List.length_nil] at this
      omega
    rw [numTensors_eq w'.virt] at hnt
    have hlen : net'.tensors.length - 1 = ta + tb := Except.ok.inj hnt
    by_contra hall
    have hall' : ∀ x ∈ dkeys net'.tensors, x = -1 := by
      intro x hx
      by_contra hne
      exact hall ⟨x, hx, hne⟩
    have := length_le_one_of_all_eq w'.tnodup (-1) hall'
    simp only [dkeys, List.length_map] at this
    omega
  obtain ⟨r, am, hce⟩ := contractEinsumTN_total (tn := ⟨net', dupdate tn.data (initDataC n)⟩) hinv' hcd hreal
  have hd := contractEinsum_dense hinv' hcd hce
  obtain ⟨v', hv'⟩ := w'.virt_get
  have hft : toFullTensor r am = .ok (DT.ofFn v'.shape
      (full net' (⟨net', dupdate tn.data (initDataC n)⟩ : TN α).D)) := by
    rw [hd]
    simp only [fullTensor, virt, hv', bind, Except.bind, pure, Except.pure]
  refine ⟨_, DT.ofFn v'.shape (full net' (⟨net', dupdate tn.data (initDataC n)⟩ : TN α).D), hnet, ?_⟩
  unfold tnRun
  simp only [bind, Except.bind, hnet, hce, liftT, hft]

/-- **`TensorNetworkSimulator.run` returns** on a non-empty two-level register -/
theorem tnRun_total_aux (fields : List FieldSpec) (instrs : List (CInstr α)) (tor bor : List Int)
    (hdim : ∀ f ∈ fields, f.localDim = 2) (hn : numWires fields ≠ 0)
    (hg : ∀ p, CInstr.gate p ∈ instrs → GateTot fields p) (hcompat : DataCompat instrs)
    (hord : OrdersAdm fields (numWires fields) (⟨wireNetC (wireDims fields), []⟩ : TN α) instrs)
    (hket : ∀ p, CInstr.gate p ∈ instrs → ∀ d, ((4 : Int), d) ∈ gateData p → d = DT.ofFn [2] ket0Sem)
    (hordf : ∀ tn, circuitNet fields instrs = .ok tn → C08.OrdersOK tn.net (initNetC (numWires fields)) tor bor) :
    ∃ tn' psi, tnRunNet fields instrs tor bor = .ok tn' ∧ tnRun fields instrs tor bor = .ok psi := by
  obtain ⟨tn, hcirc, hst, hsl, hdf⟩ := circuitNet_total_state fields instrs hdim hg hcompat hord
  exact tnRun_of_circuit fields instrs tor bor hdim hn hcirc hst hsl hdf hket (hordf tn hcirc)

/-- whatever orders are handed over, `Circuit.as_tensornet()` returns or stops with `badOrder` -/
theorem circuitNet_total_or_badOrder (fields : List FieldSpec) (instrs : List (CInstr α))
    (hdim : ∀ f ∈ fields, f.localDim = 2) (hg : ∀ p, CInstr.gate p ∈ instrs → GateTot fields p)
    (hcompat : DataCompat instrs) :
    (∃ tn, circuitNet fields instrs = .ok tn ∧ StateOK (numWires fields) tn ∧ SlackOK (numWires fields) tn.net ∧
      DataFrom instrs tn) ∨ circuitNet fields instrs = .error .badOrder := by
  obtain ⟨hst0, _⟩ := init_state (α := α) (wireDims fields) (numWires fields) (wireDims_eq_rep2 fields hdim)
  have hsl0 : SlackOK (numWires fields) (⟨wireNetC (wireDims fields), []⟩ : TN α).net := by
    have := wireNetC_slack (wireDims fields)
    rw [length_wireDims] at this
    exact this
  have hunf : circuitNet fields instrs =
      circuitLoop fields (numWires fields) (⟨wireNetC (wireDims fields), []⟩ : TN α) instrs := by
    unfold circuitNet
    simp only [bind, Except.bind, wireNet_eq, assertConsistent, hst0.data, liftT, Bool.not_true, Bool.false_eq_true,
      if_false, pure, Except.pure, length_wireDims]
  rw [hunf]
  exact circuitLoop_total_or_badOrder instrs hcompat instrs _ hst0 hsl0 (by intro e he; cases he) (fun p hp => hp) hg

/-- whatever orders are handed over, `TensorNetworkSimulator.run` returns or stops with `badOrder` -/
theorem tnRun_total_or_badOrder (fields : List FieldSpec) (instrs : List (CInstr α)) (tor bor : List Int)
    (hdim : ∀ f ∈ fields, f.localDim = 2) (hn : numWires fields ≠ 0)
    (hg : ∀ p, CInstr.gate p ∈ instrs → GateTot fields p) (hcompat : DataCompat instrs)
    (hket : ∀ p, CInstr.gate p ∈ instrs → ∀ d, ((4 : Int), d) ∈ gateData p → d = DT.ofFn [2] ket0Sem) :
    (∃ psi, tnRun fields instrs tor bor = .ok psi) ∨ tnRun fields instrs tor bor = .error .badOrder := by
  have hwd : wireDims fields = rep2 (numWires fields) := wireDims_eq_rep2 fields hdim
  have hinitd := initTN_consistentData (α := α) (numWires fields)
  have hno : numOpenAxes (initNetC (numWires fields)) = .ok (numWires fields) := by
    rw [numOpenAxes_eq (initNetC_virt _)]; simp [initVirt, length_rep2]
  rcases circuitNet_total_or_badOrder fields instrs hdim hg hcompat with ⟨tn, hcirc, hst, hsl, hdf⟩ | hbad
  · by_cases ho : C08.OrdersOK tn.net (initNetC (numWires fields)) tor bor
    · obtain ⟨_, psi, _, h⟩ := tnRun_of_circuit fields instrs tor bor hdim hn hcirc hst hsl hdf hket ho
      exact Or.inl ⟨psi, h⟩
    · right
      obtain ⟨va, hva, hsa⟩ := hst.shape
      have hnoa : numOpenAxes tn.net = .ok (2 * numWires fields) := by rw [numOpenAxes_eq hva, hsa, length_rep2]
      have hb : (isPermOf tor (sharedTids tn.net (initNetC (numWires fields))) &&
          isPermOf bor (sharedBids tn.net (initNetC (numWires fields)))) = false := by
        by_contra hcon
        have hcon' := (Bool.not_eq_false _).mp hcon
        rw [Bool.and_eq_true] at hcon'
        exact ho ⟨isPermOf_perm hcon'.1, isPermOf_perm hcon'.2⟩
      have hmt : ∀ J, mergeTN tn (⟨initNetC (numWires fields), initDataC (numWires fields)⟩ : TN α) J tor bor =
          .error .badOrder := by
        intro J
        unfold mergeTN
        simp only [hb, Bool.not_false, if_true, bind, Except.bind]
        rfl
      unfold tnRun tnRunNet
      simp only [bind, Except.bind, hwd, initTN_eq, assertConsistent, hinitd, liftT, Bool.not_true, Bool.false_eq_true,
        if_false, pure, Except.pure, hno, length_rep2, bne_self_eq_false, hcirc, hnoa, hmt]
  · right
    unfold tnRun tnRunNet
    simp only [bind, Except.bind, hwd, initTN_eq, assertConsistent, hinitd, liftT, Bool.not_true, Bool.false_eq_true,
      if_false, pure, Except.pure, hno, length_rep2, bne_self_eq_false, hbad]

/-! ### the orders of a successful run are admissible (the model checks them: `badOrder` otherwise) -/

theorem ordersAdm_of_loop_ok {fields : List FieldSpec} {n : Nat} (instrs : List (CInstr α)) :
    ∀ (tn tn' : TN α), circuitLoop fields n tn instrs = .ok tn' → OrdersAdm fields n tn instrs := by
  induction instrs with
  | nil => intro _ _ _; trivial
  | cons ins rest ih =>
    intro tn tn' h
    cases ins with
    | ctrl =>
      simp only [circuitLoop] at h
      exact ih tn tn' h
    | gate p =>
      simp only [circuitLoop] at h
      cases hs : gateStep fields n tn p with
      | error e => rw [hs] at h; cases h
      | ok tn1 =>
        rw [hs] at h
        refine ⟨?_, ?_⟩
        · intro gtn hgn
          obtain ⟨hcore, _⟩ := gateStep_ok hs
          obtain ⟨_, gtn0, _, _, hg0, _, ho, _⟩ := gateStepCore_ok hcore
          rw [hgn] at hg0
          cases hg0
          rw [rerefTN_net]
          exact ho
        · intro tn2 hs2
          rw [hs] at hs2
          cases hs2
          exact ih tn1 tn' h

/-- the orders of the last merge of a successful simulator run are valid -/
theorem ordersOK_of_tnRunNet_ok {fields : List FieldSpec} {instrs : List (CInstr α)} {tor bor : List Int} {tn' : TN α}
    (hdim : ∀ f ∈ fields, f.localDim = 2) (h : tnRunNet fields instrs tor bor = .ok tn') :
    ∀ tn, circuitNet fields instrs = .ok tn → C08.OrdersOK tn.net (initNetC (numWires fields)) tor bor := by
  intro tn hc
  obtain ⟨init, tn0, hinit, _, hc0, hm⟩ := tnRunNet_ok h
  rw [hc] at hc0; cases hc0
  rw [wireDims_eq_rep2 fields hdim, initTN_eq] at hinit
  cases hinit
  exact (mergeTN_ok hm).1

end Run

end Qib.CircuitNet
