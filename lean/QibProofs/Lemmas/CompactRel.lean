import QibProofs.Lemmas.CompactEdge
/-!
C13 helper lemmas, part 4: the anticommutation bit between two edge-type strings, between an edge-type string and a
vertex string, and the resulting relations for the edge bodies in terms of the site coordinates.
-/
set_option linter.unusedSimpArgs false
namespace Qib.Compact
open Qib.Pauli Qib.Lattice

/-- two auxiliary entries on the same qubit with different letters -/
def clash : Option (Nat × Bool) → Option (Nat × Bool) → Bool
  | some (f, y), some (f', y') => decide (f = f') && xor y y'
  | _, _ => false

/-- two edge-type strings anticommute iff (X-site of one = Y-site of the other) an odd number of times, corrected by a
clash of the auxiliary letters -/
theorem anti_xy_xy (n nv a b a' b' : Nat) (aux aux' : Option (Nat × Bool)) (q q' : Fin 4)
    (hab : a ≠ b) (hab' : a' ≠ b') (ha : a < nv) (hb : b < nv) (ha' : a' < nv) (hb' : b' < nv) (hnv : nv ≤ n)
    (hf : ∀ f y, aux = some (f, y) → nv ≤ f ∧ f < n) (hf' : ∀ f y, aux' = some (f, y) → nv ≤ f ∧ f < n) :
    anti (xyStr n a b aux q) (xyStr n a' b' aux' q') =
      xor (xor (decide (a = b')) (decide (b = a'))) (clash aux aux') := by
  have g : ∀ f y, aux = some (f, y) → f ≠ a ∧ f ≠ b ∧ f < n := fun f y h => by
    have := hf f y h; omega
  have g' : ∀ f y, aux' = some (f, y) → f ≠ a' ∧ f ≠ b' ∧ f < n := fun f y h => by
    have := hf' f y h; omega
  rw [anti_xyStr n a b aux q _ hab (by omega) (by omega) g]
  simp only [xyStr_zf n a' b' aux' q' _ g', xyStr_xf n a' b' aux' q' _ g']
  have hb'n : b' < n := by omega
  have ha'n : a' < n := by omega
  rcases aux with _ | ⟨f, y⟩ <;> rcases aux' with _ | ⟨f', y'⟩
  · simp only [Option.any_none, clash, hb'n, ha'n, and_true, Bool.or_false, Bool.xor_false]
    by_cases h1 : a = b' <;> by_cases h2 : b = a' <;> by_cases h3 : b = b' <;> simp [h1, h2, h3] <;> omega
  · have := hf' f' y' rfl
    have e1 : ¬ a = f' := by omega
    have e2 : ¬ b = f' := by omega
    simp only [Option.any_none, Option.any_some, clash, hb'n, ha'n, and_true, Bool.or_false, Bool.xor_false, e1, e2,
      decide_false, Bool.false_and]
    by_cases h1 : a = b' <;> by_cases h2 : b = a' <;> by_cases h3 : b = b' <;> simp [h1, h2, h3] <;> omega
  · have := hf f y rfl
    have e1 : ¬ f = b' := by omega
    have e2 : ¬ f = a' := by omega
    simp only [Option.any_none, Option.any_some, clash, hb'n, ha'n, and_true, Bool.or_false, Bool.xor_false, e1, e2,
      decide_false, Bool.false_and]
    by_cases h1 : a = b' <;> by_cases h2 : b = a' <;> by_cases h3 : b = b' <;> simp [h1, h2, h3] <;> omega
  · have := hf f y rfl
    have := hf' f' y' rfl
    have e1 : ¬ f = b' := by omega
    have e2 : ¬ f = a' := by omega
    have e3 : ¬ a = f' := by omega
    have e4 : ¬ b = f' := by omega
    simp only [Option.any_none, Option.any_some, clash, hb'n, ha'n, and_true, Bool.or_false, Bool.xor_false, e1, e2, e3, e4,
      decide_false, Bool.false_and, Bool.false_or]
    by_cases h1 : a = b' <;> by_cases h2 : b = a' <;> by_cases h3 : b = b' <;> by_cases h4 : f = f' <;>
      cases y <;> cases y' <;> simp [h1, h2, h3, h4] <;> omega

/-- an edge-type string against a vertex string `Z_k` -/
theorem anti_xy_vertex (n0 n1 nv a b : Nat) (aux : Option (Nat × Bool)) (q : Fin 4) (x y : Nat)
    (hab : a ≠ b) (ha : a < nv) (hb : b < nv) (hnv : nv ≤ ofcNsites n0 n1) (hk : vIdx n1 x y < nv)
    (hf : ∀ f y, aux = some (f, y) → nv ≤ f ∧ f < ofcNsites n0 n1) :
    anti (xyStr (ofcNsites n0 n1) a b aux q) (vertexStr n0 n1 x y) =
      xor (decide (a = vIdx n1 x y)) (decide (b = vIdx n1 x y)) := by
  have g : ∀ f y, aux = some (f, y) → f ≠ a ∧ f ≠ b ∧ f < ofcNsites n0 n1 := fun f y h => by
    have := hf f y h; omega
  rw [anti_xyStr _ a b aux q _ hab (by omega) (by omega) g]
  have hz : ∀ t, (vertexStr n0 n1 x y).zf t = decide (t = vIdx n1 x y) := by
    intro t
    have hl : (PS.identity (ofcNsites n0 n1)).z.length = ofcNsites n0 n1 := (identity_hasLen _).1
    have h0 : (PS.identity (ofcNsites n0 n1)).zf t = false := getD_replicate_false _ _
    have hk' : vIdx n1 x y < ofcNsites n0 n1 := by omega
    rw [vertexStr, zf_setL, hl, h0]
    by_cases h : t = vIdx n1 x y <;> simp [h, hk']
  have hx : ∀ t, (vertexStr n0 n1 x y).xf t = false := by
    intro t
    have h0 : (PS.identity (ofcNsites n0 n1)).xf t = false := getD_replicate_false _ _
    rw [vertexStr, xf_setL, h0]; simp
  simp only [hz, hx, Bool.xor_false, Bool.and_false]
  rcases aux with _ | ⟨f, isY⟩
  · simp
  · have := hf f isY rfl
    have e : ¬ f = vIdx n1 x y := by omega
    simp [e]

/-! ### bodies: side conditions -/

theorem auxOf_ok {n0 n1 : Nat} {horiz : Bool} {x y f : Nat} {isY : Bool} (h : auxOf n0 n1 horiz x y = some (f, isY)) :
    n0 * n1 ≤ f ∧ f < ofcNsites n0 n1 := by
  unfold auxOf at h
  rw [auxFace_eq_auxC] at h
  cases hc : auxC n0 n1 horiz x y with
  | none => rw [hc] at h; cases h
  | some c =>
    rw [hc] at h
    simp only [Option.map_some, Option.some.injEq, Prod.mk.injEq] at h
    obtain ⟨rfl, -⟩ := h
    exact ⟨fIdx_ge _ _ _ _, fIdx_lt (auxC_faceOK hc)⟩

/-- clash of the auxiliary letters of a horizontal and a vertical edge: same auxiliary face -/
theorem clash_hv (n0 n1 x y x' y' : Nat) :
    clash (auxOf n0 n1 true x y) (auxOf n0 n1 false x' y') =
      decide (∃ c, auxC n0 n1 true x y = some c ∧ auxC n0 n1 false x' y' = some c) := by
  unfold auxOf
  rw [auxFace_eq_auxC, auxFace_eq_auxC]
  cases h1 : auxC n0 n1 true x y with
  | none => simp [clash]
  | some c =>
    cases h2 : auxC n0 n1 false x' y' with
    | none => simp [clash]
    | some c' =>
      have e := fIdx_inj (auxC_faceOK h1) (auxC_faceOK h2)
      simp only [Option.map_some, clash, Bool.xor_false, Bool.and_true, Bool.true_xor, Bool.not_false, e,
        Option.some.injEq, exists_eq_left']
      by_cases hc : c = c'
      · subst hc; simp
      · have : ¬ (c.1 = c'.1 ∧ c.2 = c'.2) := fun h => hc (Prod.ext h.1 h.2)
        simp [this, Ne.symm hc]

theorem clash_same (n0 n1 : Nat) (horiz : Bool) (x y x' y' : Nat) :
    clash (auxOf n0 n1 horiz x y) (auxOf n0 n1 horiz x' y') = false := by
  unfold auxOf
  cases auxFace n0 n1 horiz x y <;> cases auxFace n0 n1 horiz x' y' <;> simp [clash]

/-! ### bodies: relations in coordinates -/

/-- the horizontal edge `(x, y) – (x, y+1)` lies in the rectangle -/
def HOk (n0 n1 x y : Nat) : Prop := x < n0 ∧ y + 1 < n1
/-- the vertical edge `(x, y) – (x+1, y)` lies in the rectangle -/
def VOk (n0 n1 x y : Nat) : Prop := x + 1 < n0 ∧ y < n1

theorem bxor2 (A B C : Prop) [Decidable A] [Decidable B] [Decidable C]
    (h : C ↔ ((A ∧ ¬ B) ∨ (¬ A ∧ B))) : xor (xor (decide A) (decide B)) false = decide C := by
  by_cases a : A <;> by_cases b : B <;> by_cases c : C <;> simp_all

theorem bxor3 (A B D C : Prop) [Decidable A] [Decidable B] [Decidable D] [Decidable C]
    (h : C ↔ ((A ∧ ¬ B ∧ ¬ D) ∨ (¬ A ∧ B ∧ ¬ D) ∨ (¬ A ∧ ¬ B ∧ D) ∨ (A ∧ B ∧ D))) :
    xor (xor (decide A) (decide B)) (decide D) = decide C := by
  by_cases a : A <;> by_cases b : B <;> by_cases d : D <;> by_cases c : C <;> simp_all

theorem anti_hh (n0 n1 x y x' y' : Nat) (h : HOk n0 n1 x y) (h' : HOk n0 n1 x' y') :
    anti (hBody n0 n1 x y) (hBody n0 n1 x' y') = decide (x = x' ∧ (y' = y + 1 ∨ y = y' + 1)) := by
  obtain ⟨hx, hy⟩ := h
  obtain ⟨hx', hy'⟩ := h'
  unfold hBody
  rw [anti_xy_xy (ofcNsites n0 n1) (n0 * n1) _ _ _ _ _ _ _ _
    (by rw [Ne, vIdx_inj (by omega) (by omega)]; omega) (by rw [Ne, vIdx_inj (by omega) (by omega)]; omega)
    (vIdx_lt hx (by omega)) (vIdx_lt hx (by omega)) (vIdx_lt hx' (by omega)) (vIdx_lt hx' (by omega)) (nverts_le _ _)
    (fun f y h => auxOf_ok h) (fun f y h => auxOf_ok h),
    clash_same]
  have i1 := vIdx_inj (n1 := n1) (x := x) (y := y + 1 - x % 2) (x' := x') (y' := y' + x' % 2) (by omega) (by omega)
  have i2 := vIdx_inj (n1 := n1) (x := x) (y := y + x % 2) (x' := x') (y' := y' + 1 - x' % 2) (by omega) (by omega)
  simp only [i1, i2]
  apply bxor2
  omega

theorem anti_vv (n0 n1 x y x' y' : Nat) (h : VOk n0 n1 x y) (h' : VOk n0 n1 x' y') :
    anti (vBody n0 n1 x y) (vBody n0 n1 x' y') = decide (y = y' ∧ (x' = x + 1 ∨ x = x' + 1)) := by
  obtain ⟨hx, hy⟩ := h
  obtain ⟨hx', hy'⟩ := h'
  unfold vBody
  rw [anti_xy_xy (ofcNsites n0 n1) (n0 * n1) _ _ _ _ _ _ _ _
    (by rw [Ne, vIdx_inj (by omega) (by omega)]; omega) (by rw [Ne, vIdx_inj (by omega) (by omega)]; omega)
    (vIdx_lt (by omega) hy) (vIdx_lt (by omega) hy) (vIdx_lt (by omega) hy') (vIdx_lt (by omega) hy') (nverts_le _ _)
    (fun f y h => auxOf_ok h) (fun f y h => auxOf_ok h),
    clash_same]
  have i1 := vIdx_inj (n1 := n1) (x := x + 1 - y % 2) (y := y) (x' := x' + y' % 2) (y' := y') (by omega) (by omega)
  have i2 := vIdx_inj (n1 := n1) (x := x + y % 2) (y := y) (x' := x' + 1 - y' % 2) (y' := y') (by omega) (by omega)
  simp only [i1, i2]
  apply bxor2
  omega

theorem auxC_hv_iff (n0 n1 x y x' y' : Nat) (h : HOk n0 n1 x y) (h' : VOk n0 n1 x' y') :
    (∃ c, auxC n0 n1 true x y = some c ∧ auxC n0 n1 false x' y' = some c) ↔
      (((x + y) % 2 = 0 ∧ (x' + y') % 2 = 0 ∧ x = x' ∧ y = y') ∨
       ((x + y) % 2 = 0 ∧ (x' + y') % 2 = 1 ∧ x = x' ∧ y + 1 = y') ∨
       ((x + y) % 2 = 1 ∧ (x' + y') % 2 = 0 ∧ x = x' + 1 ∧ y = y') ∨
       ((x + y) % 2 = 1 ∧ (x' + y') % 2 = 1 ∧ x = x' + 1 ∧ y + 1 = y')) := by
  obtain ⟨hx, hy⟩ := h
  obtain ⟨hx', hy'⟩ := h'
  unfold auxC
  rcases Nat.mod_two_eq_zero_or_one (x + y) with p | p <;> rcases Nat.mod_two_eq_zero_or_one (x' + y') with p' | p' <;>
    simp only [p, p', if_true, Bool.false_eq_true, if_false, Nat.one_ne_zero, Nat.zero_ne_one, false_and, and_false,
      true_and, or_false, false_or, hx, hy, hx', hy', and_true]
  · by_cases c1 : x + 1 < n0 <;> by_cases c2 : y' + 1 < n1 <;> simp [c1, c2] <;> omega
  · by_cases c1 : x + 1 < n0 <;> by_cases c2 : 1 ≤ y' <;> simp [c1, c2] <;> omega
  · by_cases c1 : 1 ≤ x <;> by_cases c2 : y' + 1 < n1 <;> simp [c1, c2] <;> omega
  · by_cases c1 : 1 ≤ x <;> by_cases c2 : 1 ≤ y' <;> simp [c1, c2] <;> omega

theorem bxor3' (A B D C : Prop) [Decidable A] [Decidable B] [Decidable D] [Decidable C]
    (h1 : C → ((A ∧ ¬ B ∧ ¬ D) ∨ (¬ A ∧ B ∧ ¬ D) ∨ (¬ A ∧ ¬ B ∧ D) ∨ (A ∧ B ∧ D)))
    (hA : A → C) (hB : B → C) (hD : D → C) :
    xor (xor (decide A) (decide B)) (decide D) = decide C := by
  by_cases c : C
  · have := h1 c
    by_cases a : A <;> by_cases b : B <;> by_cases d : D <;> simp_all
  · have a : ¬ A := fun h => c (hA h)
    have b : ¬ B := fun h => c (hB h)
    have d : ¬ D := fun h => c (hD h)
    simp [a, b, c, d]

theorem anti_hv (n0 n1 x y x' y' : Nat) (h : HOk n0 n1 x y) (h' : VOk n0 n1 x' y') :
    anti (hBody n0 n1 x y) (vBody n0 n1 x' y') = decide ((x = x' ∨ x = x' + 1) ∧ (y' = y ∨ y' = y + 1)) := by
  have hc := auxC_hv_iff n0 n1 x y x' y' h h'
  obtain ⟨hx, hy⟩ := h
  obtain ⟨hx', hy'⟩ := h'
  unfold hBody vBody
  rw [anti_xy_xy (ofcNsites n0 n1) (n0 * n1) _ _ _ _ _ _ _ _
    (by rw [Ne, vIdx_inj (by omega) (by omega)]; omega) (by rw [Ne, vIdx_inj (by omega) (by omega)]; omega)
    (vIdx_lt hx (by omega)) (vIdx_lt hx (by omega)) (vIdx_lt (by omega) hy') (vIdx_lt (by omega) hy') (nverts_le _ _)
    (fun f y h => auxOf_ok h) (fun f y h => auxOf_ok h),
    clash_hv]
  have i1 := vIdx_inj (n1 := n1) (x := x) (y := y + 1 - x % 2) (x' := x' + y' % 2) (y' := y') (by omega) (by omega)
  have i2 := vIdx_inj (n1 := n1) (x := x) (y := y + x % 2) (x' := x' + 1 - y' % 2) (y' := y') (by omega) (by omega)
  simp only [i1, i2, hc]
  clear i1 i2 hc
  apply bxor3'
  · rintro ⟨hxx, hyy⟩
    rcases Nat.mod_two_eq_zero_or_one x' with px' | px' <;> rcases Nat.mod_two_eq_zero_or_one y with py | py <;>
      rcases hxx with e | e <;> rcases hyy with e' | e' <;> subst x <;> subst y' <;>
      simp [Nat.add_mod, px', py]
  · omega
  · omega
  · omega

theorem anti_vh (n0 n1 x y x' y' : Nat) (h : VOk n0 n1 x y) (h' : HOk n0 n1 x' y') :
    anti (vBody n0 n1 x y) (hBody n0 n1 x' y') = decide ((x' = x ∨ x' = x + 1) ∧ (y = y' ∨ y = y' + 1)) := by
  rw [anti_symm, anti_hv n0 n1 x' y' x y h' h]

theorem anti_h_vertex (n0 n1 x y a b : Nat) (h : HOk n0 n1 x y) (ha : a < n0) (hb : b < n1) :
    anti (hBody n0 n1 x y) (vertexStr n0 n1 a b) = decide (a = x ∧ (b = y ∨ b = y + 1)) := by
  obtain ⟨hx, hy⟩ := h
  unfold hBody
  rw [anti_xy_vertex n0 n1 (n0 * n1) _ _ _ _ a b (by rw [Ne, vIdx_inj (by omega) (by omega)]; omega)
    (vIdx_lt hx (by omega)) (vIdx_lt hx (by omega)) (nverts_le _ _) (vIdx_lt ha hb) (fun f y h => auxOf_ok h)]
  have i1 := vIdx_inj (n1 := n1) (x := x) (y := y + 1 - x % 2) (x' := a) (y' := b) (by omega) hb
  have i2 := vIdx_inj (n1 := n1) (x := x) (y := y + x % 2) (x' := a) (y' := b) (by omega) hb
  simp only [i1, i2]
  have := bxor2 (x = a ∧ y + 1 - x % 2 = b) (x = a ∧ y + x % 2 = b) (a = x ∧ (b = y ∨ b = y + 1)) (by omega)
  simpa using this

theorem anti_v_vertex (n0 n1 x y a b : Nat) (h : VOk n0 n1 x y) (ha : a < n0) (hb : b < n1) :
    anti (vBody n0 n1 x y) (vertexStr n0 n1 a b) = decide (b = y ∧ (a = x ∨ a = x + 1)) := by
  obtain ⟨hx, hy⟩ := h
  unfold vBody
  rw [anti_xy_vertex n0 n1 (n0 * n1) _ _ _ _ a b (by rw [Ne, vIdx_inj (by omega) (by omega)]; omega)
    (vIdx_lt (by omega) hy) (vIdx_lt (by omega) hy) (nverts_le _ _) (vIdx_lt ha hb) (fun f y h => auxOf_ok h)]
  have i1 := vIdx_inj (n1 := n1) (x := x + 1 - y % 2) (y := y) (x' := a) (y' := b) hy hb
  have i2 := vIdx_inj (n1 := n1) (x := x + y % 2) (y := y) (x' := a) (y' := b) hy hb
  simp only [i1, i2]
  have := bxor2 (x + 1 - y % 2 = a ∧ y = b) (x + y % 2 = a ∧ y = b) (b = y ∧ (a = x ∨ a = x + 1)) (by omega)
  simpa using this

/-! ### oriented edges -/

/-- nearest neighbours, as the code tests it -/
def NN (ix iy jx jy : Nat) : Prop := (ix = jx ∧ (iy + 1 = jy ∨ jy + 1 = iy)) ∨ (iy = jy ∧ (ix + 1 = jx ∨ jx + 1 = ix))

/-- a nearest-neighbour pair of vertices inside the `n0 × n1` rectangle -/
def EdgeOk (n0 n1 ix iy jx jy : Nat) : Prop := ix < n0 ∧ iy < n1 ∧ jx < n0 ∧ jy < n1 ∧ NN ix iy jx jy

instance (n0 n1 ix iy jx jy : Nat) : Decidable (EdgeOk n0 n1 ix iy jx jy) := by unfold EdgeOk NN; infer_instance

/-- the letters of the edge, without the orientation sign -/
def bodyOf (n0 n1 ix iy jx jy : Nat) : PS :=
  if ix = jx then hBody n0 n1 ix (min iy jy) else vBody n0 n1 (min ix jx) iy

theorem edgeStr_body (n0 n1 ix iy jx jy : Nat) (h : EdgeOk n0 n1 ix iy jx jy) :
    edgeStr n0 n1 ix iy jx jy = bodyOf n0 n1 ix iy jx jy ∨ edgeStr n0 n1 ix iy jx jy = neg (bodyOf n0 n1 ix iy jx jy) := by
  obtain ⟨-, -, -, -, hnn⟩ := h
  unfold bodyOf
  rcases hnn with ⟨rfl, rfl | rfl⟩ | ⟨rfl, rfl | rfl⟩
  · have hm : min iy (iy + 1) = iy := by omega
    rw [edgeStr_right, if_pos rfl, hm]; split <;> simp
  · have hm : min (jy + 1) jy = jy := by omega
    rw [edgeStr_left, if_pos rfl, hm]; split <;> simp
  · have hm : min ix (ix + 1) = ix := by omega
    have hne : ¬ ix = ix + 1 := by omega
    rw [edgeStr_down, if_neg hne, hm]; simp
  · have hm : min (jx + 1) jx = jx := by omega
    have hne : ¬ jx + 1 = jx := by omega
    rw [edgeStr_up, if_neg hne, hm]; simp

theorem anti_neg_left (P R : PS) : anti (neg P) R = anti P R := anti_q_irrel_left _ _ _ _ _
theorem anti_neg_right (P R : PS) : anti P (neg R) = anti P R := by
  rw [anti_symm, anti_neg_left, anti_symm]

/-- two edges share exactly one vertex: some endpoint in common, and not the same pair of endpoints -/
def ShareOne (ix iy jx jy kx ky lx ly : Nat) : Prop :=
  ((ix = kx ∧ iy = ky) ∨ (ix = lx ∧ iy = ly) ∨ (jx = kx ∧ jy = ky) ∨ (jx = lx ∧ jy = ly)) ∧
  ¬ (((ix = kx ∧ iy = ky) ∧ (jx = lx ∧ jy = ly)) ∨ ((ix = lx ∧ iy = ly) ∧ (jx = kx ∧ jy = ky)))

instance (ix iy jx jy kx ky lx ly : Nat) : Decidable (ShareOne ix iy jx jy kx ky lx ly) := by
  unfold ShareOne; infer_instance

theorem bodyOf_right (n0 n1 x y : Nat) : bodyOf n0 n1 x y x (y + 1) = hBody n0 n1 x y := by
  have hm : min y (y + 1) = y := by omega
  rw [bodyOf, if_pos rfl, hm]
theorem bodyOf_left (n0 n1 x y : Nat) : bodyOf n0 n1 x (y + 1) x y = hBody n0 n1 x y := by
  have hm : min (y + 1) y = y := by omega
  rw [bodyOf, if_pos rfl, hm]
theorem bodyOf_down (n0 n1 x y : Nat) : bodyOf n0 n1 x y (x + 1) y = vBody n0 n1 x y := by
  have hm : min x (x + 1) = x := by omega
  rw [bodyOf, if_neg (by omega), hm]
theorem bodyOf_up (n0 n1 x y : Nat) : bodyOf n0 n1 (x + 1) y x y = vBody n0 n1 x y := by
  have hm : min (x + 1) x = x := by omega
  rw [bodyOf, if_neg (by omega), hm]

theorem anti_body_body (n0 n1 ix iy jx jy kx ky lx ly : Nat)
    (h : EdgeOk n0 n1 ix iy jx jy) (h' : EdgeOk n0 n1 kx ky lx ly) :
    anti (bodyOf n0 n1 ix iy jx jy) (bodyOf n0 n1 kx ky lx ly) = decide (ShareOne ix iy jx jy kx ky lx ly) := by
  obtain ⟨h1, h2, h3, h4, hnn⟩ := h
  obtain ⟨h1', h2', h3', h4', hnn'⟩ := h'
  unfold ShareOne
  rcases hnn with ⟨e1, e2 | e2⟩ | ⟨e1, e2 | e2⟩ <;> rcases hnn' with ⟨e1', e2' | e2'⟩ | ⟨e1', e2' | e2'⟩ <;>
    subst e1 <;> subst e2 <;> subst e1' <;> subst e2' <;>
    simp only [bodyOf_right, bodyOf_left, bodyOf_down, bodyOf_up] <;>
    first
    | (rw [anti_hh _ _ _ _ _ _ ⟨by omega, by omega⟩ ⟨by omega, by omega⟩]; apply decide_eq_decide.mpr; omega)
    | (rw [anti_hv _ _ _ _ _ _ ⟨by omega, by omega⟩ ⟨by omega, by omega⟩]; apply decide_eq_decide.mpr; omega)
    | (rw [anti_vh _ _ _ _ _ _ ⟨by omega, by omega⟩ ⟨by omega, by omega⟩]; apply decide_eq_decide.mpr; omega)
    | (rw [anti_vv _ _ _ _ _ _ ⟨by omega, by omega⟩ ⟨by omega, by omega⟩]; apply decide_eq_decide.mpr; omega)

/-- **edge/edge relation**: two edge operators anticommute iff the edges share exactly one vertex -/
theorem anti_edge_edge (n0 n1 ix iy jx jy kx ky lx ly : Nat)
    (h : EdgeOk n0 n1 ix iy jx jy) (h' : EdgeOk n0 n1 kx ky lx ly) :
    anti (edgeStr n0 n1 ix iy jx jy) (edgeStr n0 n1 kx ky lx ly) = decide (ShareOne ix iy jx jy kx ky lx ly) := by
  rcases edgeStr_body n0 n1 ix iy jx jy h with e | e <;> rcases edgeStr_body n0 n1 kx ky lx ly h' with e' | e' <;>
    rw [e, e'] <;> (try simp only [anti_neg_left, anti_neg_right]) <;> exact anti_body_body _ _ _ _ _ _ _ _ _ _ h h'

/-- **edge/vertex relation**: an edge operator anticommutes with the vertex operators of its two endpoints and commutes
with all others -/
theorem anti_edge_vertex (n0 n1 ix iy jx jy a b : Nat) (h : EdgeOk n0 n1 ix iy jx jy) (ha : a < n0) (hb : b < n1) :
    anti (edgeStr n0 n1 ix iy jx jy) (vertexStr n0 n1 a b) = decide ((a = ix ∧ b = iy) ∨ (a = jx ∧ b = jy)) := by
  have hb' : anti (bodyOf n0 n1 ix iy jx jy) (vertexStr n0 n1 a b) = decide ((a = ix ∧ b = iy) ∨ (a = jx ∧ b = jy)) := by
    obtain ⟨h1, h2, h3, h4, hnn⟩ := h
    unfold bodyOf
    unfold NN at hnn
    by_cases e : ix = jx
    · rw [if_pos e, anti_h_vertex _ _ _ _ _ _ ⟨h1, by omega⟩ ha hb]
      apply decide_eq_decide.mpr; omega
    · rw [if_neg e, anti_v_vertex _ _ _ _ _ _ ⟨by omega, h2⟩ ha hb]
      apply decide_eq_decide.mpr; omega
  rcases edgeStr_body n0 n1 ix iy jx jy h with e | e <;> rw [e] <;> (try simp only [anti_neg_left]) <;> exact hb'

end Qib.Compact
