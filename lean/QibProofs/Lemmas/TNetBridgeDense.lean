import QibProofs.Lemmas.TNetTreeData
import QibProofs.Lemmas.TNetEinsumCertMain
/-!
Helper lemmas for C07, part 11: from pointwise equality to equality of dense tensors (`NT.ofFn_congr`,
`toFullTensor_eq_fullTensor`), the logical shape along the axes map (`einsumOK_shape`, `tree_shape`) and the dense forms
`contractEinsum_dense`, `contractTree_dense` (no property statements).
-/
namespace Qib.TNet
variable {α : Type} [CommSemiring α]

theorem NT.ofFn_congr {β : Type} (shape : List Nat) (f g : List Nat → β)
    (h : ∀ idx, List.Forall₂ (fun i d => i < d) idx shape → f idx = g idx) : NT.ofFn shape f = NT.ofFn shape g := by
  induction shape generalizing f g with
  | nil => simp only [NT.ofFn]; rw [h [] List.Forall₂.nil]
  | cons d ds ih =>
    simp only [NT.ofFn]
    congr 1
    apply List.map_congr_left
    intro i hi
    apply ih
    intro is his
    exact h (i :: is) (List.Forall₂.cons (List.mem_range.mp hi) his)

theorem pick_ok {γ : Type} (l : List γ) {idx : List Nat} {res : List γ}
    (h : List.Forall₂ (fun i x => l[i]? = some x) idx res) : pick l idx = .ok res := by
  unfold pick
  induction h with
  | nil => rfl
  | cons h1 _ ih =>
    rw [List.mapM_cons, h1]
    simp only [bind, Except.bind]
    rw [ih]
    rfl

/-- the dense expansion of a raw contraction result equals the dense defining sum as soon as the shapes along the axes map
and the values agree -/
theorem toFullTensor_eq_fullTensor {net : Net} {v : STensor} (hv : dget net.tensors (-1) = some v)
    (D : Option Int → List Nat → α) (r : DT α) (am : List Nat) (hlen : am.length = v.shape.length)
    (hshape : ∀ j (hj : j < am.length), r.shape[am[j]]? = v.shape[j]?)
    (hval : ∀ idx, List.Forall₂ (fun i d => i < d) idx v.shape → toFullSem r am idx = full net D idx) :
    toFullTensor r am = fullTensor net D := by
  have hp : pick r.shape am = .ok v.shape := by
    apply pick_ok
    rw [List.forall₂_iff_get]
    refine ⟨hlen, fun j h1 h2 => ?_⟩
    simp only [List.get_eq_getElem]
    rw [hshape j h1, List.getElem?_eq_getElem h2]
  simp only [toFullTensor, fullTensor, virt, hv, hp, bind, Except.bind, pure, Except.pure, DT.ofFn]
  congr 2
  exact NT.ofFn_congr _ _ _ hval

end Qib.TNet

namespace Qib.TNet
variable {α : Type} [CommSemiring α]

/-- the raw einsum result has, along the axes map, the logical shape -/
theorem einsumOK_shape {net : Net} {v : STensor} {e : EinsumSpec} (hwf : WF net) (hv : dget net.tensors (-1) = some v)
    (hc : EinsumCert net v e) {D : Option Int → List Nat → α} {dt : Int → DT α} (hdt : DataOK net D dt)
    {ones : List (DT α × List Nat)} (hones : OnesOK v e ones) {r : DT α}
    (hr : einsumEval (eArgs dt e ++ ones) e.idxout = .ok r) (j : Nat) (hj : j < e.axesMap.length) :
    r.shape[e.axesMap[j]]? = v.shape[j]? := by
  obtain ⟨_, _, _, houtA, rfl⟩ := einsumEval_ok hr
  have hjv : j < v.bids.length := by rw [← hc.amlen]; exact hj
  have hk := hc.amlt _ (List.getElem_mem hj)
  have hm := hc.vmem' (List.getElem?_eq_getElem hjv) (List.getElem?_eq_getElem hj) (List.getElem?_eq_getElem hk)
  obtain ⟨d, h1, h2⟩ := lookup_mem (houtA _ (List.getElem_mem hk))
  have hd := hc.dims hwf hv hdt hones h2 hm
  have hs := hwf.toWF0.shape_eq_bondDim (mem_of_dget_eq_some _ hv) (List.getElem?_eq_getElem hjv)
  simp only at hs
  rw [hs]
  simp only [DT.ofFn, List.getElem?_map, List.getElem?_eq_getElem hk, Option.map_some, h1, Option.getD_some, hd]

/-- what `contractEinsum` evaluates: the specification of `asEinsum`, the data tensors as operands, ones-vectors -/
theorem contractEinsum_inv {net : Net} {data : Data} (hrep : RepOK net) (hcd : isConsistentData net data = .ok true)
    {r : DT Int} {am : List Nat} (hce : contractEinsum net data = .ok (r, am)) {v : STensor}
    (hv : dget net.tensors (-1) = some v) :
    ∃ e ones, asEinsum net = .ok e ∧ EinsumCert net v e ∧ am = e.axesMap ∧ OnesOK v e ones ∧
      einsumEval (eArgs (dataOf net data) e ++ ones) e.idxout = .ok r := by
  have hwf : WF net := wf_of_consistent hrep (isConsistentData_ok hcd).1
  cases he : asEinsum net with
  | error err => simp [contractEinsum, he, bind, Except.bind] at hce
  | ok e =>
  have hc := asEinsum_cert hwf hv he
  unfold contractEinsum at hce
  rw [he] at hce
  simp only [bind, Except.bind] at hce
  split at hce
  · cases hce
  · rename_i args hargs
    have hshape : netShape net = .ok v.shape := by
      simp [netShape, virt, hv, bind, Except.bind, pure, Except.pure]
    rw [hshape] at hce
    simp only at hce
    split at hce
    · cases hce
    · rename_i ones hones
      split at hce
      · cases hce
      · rename_i r' hr'
        simp only [pure, Except.pure, Except.ok.injEq, Prod.mk.injEq] at hce
        obtain ⟨rfl, rfl⟩ := hce
        have hA : args = eArgs (dataOf net data) e := by
          have hf := mapM_ok_inv hargs
          unfold eArgs
          apply List.ext_getElem
          · simpa using hf.length_eq.symm
          · intro i h1 h2
            have hi : i < (e.tids.zip e.tidx).length := by simpa using h2
            have := (List.forall₂_iff_get.mp hf).2 i hi h1
            simp only [List.get_eq_getElem] at this
            simp only [List.getElem_map]
            have hq : (e.tids.zip e.tidx)[i] ∈ e.tids.zip e.tidx := List.getElem_mem hi
            generalize (e.tids.zip e.tidx)[i] = q at this hq
            obtain ⟨T, hT, _⟩ := hc.rows q hq
            have hne : q.1 ≠ -1 := hc.tid_ne hwf.tnodup (List.of_mem_zip hq).1
            have hm := mem_of_dget_eq_some _ hT
            have hne' : T.tid ≠ -1 := by rw [hwf.tkey _ hm]; exact hne
            obtain ⟨r0, d, hr0, hd, _⟩ := (isConsistentData_ok hcd).2 _ hm hne'
            simp only at hr0 hd
            have hb : (q.1 == -1) = false := by simpa using hne
            simp only [hT, hr0, hd, pure, Except.pure, Except.ok.injEq] at this
            rw [← this]
            simp [dataOf, tensorDict, hb, hT, hr0, hd]
        have hO : OnesOK v e ones := by
          intro a ha
          obtain ⟨k, hk, hfk⟩ := filterMapM_ok_inv hones a ha
          have hk' := List.mem_range.mp hk
          split at hfk
          · cases hfk
          · split at hfk
            · cases hfk
            · rename_i p hp
              split at hfk
              · cases hfk
              · rename_i d hd
                simp only [pure, Except.pure, Except.ok.injEq, Option.some.injEq] at hfk
                refine ⟨e.idxout[k]!, d, p, hfk.symm, ?_, hd⟩
                unfold indexOf? at hp
                split at hp
                · rename_i hcon
                  have hpe : e.axesMap.idxOf k = p := Option.some.inj hp
                  have hmem : k ∈ e.axesMap := List.contains_iff_mem.mp hcon
                  have hlt : e.axesMap.idxOf k < e.axesMap.length := List.idxOf_lt_length_of_mem hmem
                  have hg : e.axesMap[e.axesMap.idxOf k] = k := List.getElem_idxOf hlt
                  subst hpe
                  simp [eVLabels, hlt, hg, hk']
                · cases hp
        rw [hA] at hr'
        exact ⟨e, ones, rfl, hc, rfl, hO, hr'⟩

/-- **dense form**: the expansion of the `contract_einsum` result IS the dense tensor of the defining sum (same shape, same
entries) -/
theorem contractEinsum_dense {net : Net} {data : Data} (hrep : RepOK net) (hcd : isConsistentData net data = .ok true)
    {r : DT Int} {am : List Nat} (hce : contractEinsum net data = .ok (r, am)) :
    toFullTensor r am = fullTensor net (dataAcc data) := by
  have hwf : WF net := wf_of_consistent hrep (isConsistentData_ok hcd).1
  obtain ⟨v, hvm⟩ := exists_mem_of_mem_dkeys hwf.virt
  have hv := dget_of_mem hwf.tnodup hvm
  simp only at hv
  obtain ⟨e, ones, _, hc, rfl, hO, hr⟩ := contractEinsum_inv hrep hcd hce hv
  have hdt := dataOK_dataOf hwf.tkey hcd
  have hvlen : v.shape.length = v.bids.length := hwf.tshape _ hvm
  exact toFullTensor_eq_fullTensor hv _ r _ (by rw [hc.amlen, hvlen])
    (fun j hj => einsumOK_shape hwf hv hc hdt hO hr j hj)
    (fun idx hidx => einsumOK_sound hwf hv hc hdt hO hr idx hidx)

end Qib.TNet

namespace Qib.TNet
variable {α : Type} [CommSemiring α]

/-- the raw tree result has, along the axes map, the logical shape -/
theorem tree_shape {net : Net} (hwf : WF net) {v : STensor} (hv : dget net.tensors (-1) = some v)
    (D : Option Int → List Nat → α) (dict : Int → Option (DT α)) (tree : Tree) (am : List Nat)
    (hok : ∀ x ∈ treeOKList net tree, x = true) (hroot : rootOK net tree am = true)
    (hdata : ∀ i ∈ leafInfos tree, LeafDataOK net D dict i) {r : DT α} (hr : treeEval dict tree = .ok r)
    (j : Nat) (hj : j < am.length) : r.shape[am[j]]? = v.shape[j]? := by
  have hrc := rootOK_cert hv hroot
  have hI := treeInv hwf tree hok hrc.leavesNodup
  obtain ⟨hs, _⟩ := treeEval_sound hwf D dict tree hok hrc.leavesNodup hdata r hr
  have hjv : j < v.bids.length := by rw [← hrc.amlen]; exact hj
  obtain ⟨k, hk1, hk2⟩ := hrc.axis j hjv
  rw [List.getElem?_eq_getElem hj] at hk1
  cases hk1
  have hlt := nodeLegBond_lt hI.info hk2
  have hlb : legB net tree.info am[j] = v.bids[j] := by simp [legB, hk2]
  rw [hs, nodeShape_getElem? net tree.info _ hlt, hlb]
  have := hwf.toWF0.shape_eq_bondDim (mem_of_dget_eq_some _ hv) (List.getElem?_eq_getElem hjv)
  simp only at this
  rw [this]

/-- what `contractTree` evaluates on a scaffold with at least two leaves -/
theorem contractTree_inv {net : Net} {data : Data} (hrep : RepOK net) (hcd : isConsistentData net data = .ok true)
    {sl sr : Scaffold} {r : DT Int} {am : List Nat} {t : Tree}
    (hct : contractTree net data (.node sl sr) = .ok (r, am, t)) (hok : ∀ x ∈ treeOKList net t, x = true) :
    treeEval (tensorDict net data) t = .ok r ∧ RootInj net t.info ∧
      ∀ i ∈ leafInfos t, LeafDataOK net (dataAcc data) (tensorDict net data) i := by
  have hwf : WF net := wf_of_consistent hrep (isConsistentData_ok hcd).1
  unfold contractTree at hct
  simp only [bind, Except.bind] at hct
  split at hct
  · cases hct
  rename_i tree0 h0
  split at hct
  · cases hct
  rename_i prep hprep
  obtain ⟨t', perm, am'⟩ := prep
  simp only at hct
  split at hct
  · cases hct
  split at hct
  · cases hct
  rename_i r' hr'
  simp only [pure, Except.pure, Except.ok.injEq, Prod.mk.injEq] at hct
  obtain ⟨rfl, rfl, rfl⟩ := hct
  unfold buildContractionTree at h0
  obtain ⟨tL, tR, i0, k', hL, hR, rfl⟩ := buildTree_node_inv h0
  obtain ⟨i', rfl⟩ := contractTreePrep_node hprep
  simp only at hr'
  have hleaf : ∀ i ∈ leafInfos (Tree.node i' tL tR), LeafDataOK net (dataAcc data) (tensorDict net data) i := by
    intro i hi
    have hlc := leafOK_cert (hok _ (leafOK_mem_treeOKList _ i hi))
    have hid : LeafId net i := by
      simp only [leafInfos, List.mem_append] at hi
      rcases hi with h | h
      · exact buildTree_leafId _ _ _ hL i h
      · exact buildTree_leafId _ _ _ hR i h
    exact leafData_of_leafId hwf hlc.info hid (fun T hT => tensorDict_ok hwf.tkey hcd hlc.ne hT)
  have hnc : NodeCert net i' tL.info tR.info := nodeOK_cert (hok _ (by simp [treeOKList]))
  exact ⟨hr', hnc.legB_inj, hleaf⟩

/-- **dense form**: the expansion of the `contract_tree` result IS the dense tensor of the defining sum -/
theorem contractTree_dense {net : Net} {data : Data} (hrep : RepOK net) (hcd : isConsistentData net data = .ok true)
    {sl sr : Scaffold} {r : DT Int} {am : List Nat} {t : Tree}
    (hct : contractTree net data (.node sl sr) = .ok (r, am, t))
    (hok : ∀ x ∈ treeOKList net t, x = true) (hroot : rootOK net t am = true) :
    toFullTensor r am = fullTensor net (dataAcc data) := by
  have hwf : WF net := wf_of_consistent hrep (isConsistentData_ok hcd).1
  obtain ⟨v, hvm⟩ := exists_mem_of_mem_dkeys hwf.virt
  have hv := dget_of_mem hwf.tnodup hvm
  simp only at hv
  obtain ⟨hr, hinj, hleaf⟩ := contractTree_inv hrep hcd hct hok
  have hvlen : v.shape.length = v.bids.length := hwf.tshape _ hvm
  exact toFullTensor_eq_fullTensor hv _ r _ (by rw [(rootOK_cert hv hroot).amlen, hvlen])
    (fun j hj => tree_shape hwf hv _ _ t am hok hroot hleaf hr j hj)
    (fun idx hidx => tree_sound hwf hv _ _ t am hok hroot hinj hleaf hr idx hidx)

end Qib.TNet
