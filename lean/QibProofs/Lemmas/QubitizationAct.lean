import QibModel.Qubitization
import Mathlib.Data.Real.Basic
import Mathlib.Tactic.Ring
import Mathlib.Tactic.FieldSimp
import Mathlib.Tactic.Linarith
import Mathlib.Algebra.BigOperators.Group.List.Basic
/-!
Helper lemmas for C19 about the executable model `QibModel/Qubitization.lean`, scalar type ℝ:
the basis-state action (`GateDesc.act`, `circuitAct`) of the two phase-shift constructions.
No property statements here.
-/
namespace Qib.Qubitization

theorem pow2_eq (k : Nat) : (pow2 k : ℝ) = 2 ^ k := by
  induction k with
  | zero => simp [pow2]
  | succ k ih => simp [pow2, ih, pow_succ]; ring

/-- every listed qubit reads 0 -/
def AllZero (bits : ℕ → Bool) (qs : List ℕ) : Prop := ∀ e ∈ qs, bits e = false

instance (bits : ℕ → Bool) (qs : List ℕ) : Decidable (AllZero bits qs) := by unfold AllZero; infer_instance

theorem allZero_nil (bits : ℕ → Bool) : AllZero bits [] := by intro e he; simp at he

theorem allZero_append (bits : ℕ → Bool) (l₁ l₂ : List ℕ) :
    AllZero bits (l₁ ++ l₂) ↔ AllZero bits l₁ ∧ AllZero bits l₂ := by
  simp only [AllZero, List.mem_append]
  constructor
  · intro h; exact ⟨fun e he => h e (Or.inl he), fun e he => h e (Or.inr he)⟩
  · rintro ⟨h1, h2⟩ e (he | he)
    · exact h1 e he
    · exact h2 e he

theorem allZero_singleton (bits : ℕ → Bool) (e : ℕ) : AllZero bits [e] ↔ bits e = false := by
  simp [AllZero]

/-- controls on the all-zero pattern fire exactly when all control qubits read 0 -/
theorem ctrlActive_zeros (bits : ℕ → Bool) (cs : List ℕ) (n : ℕ) (hn : cs.length ≤ n) :
    ctrlActive bits cs (List.replicate n 0) = true ↔ AllZero bits cs := by
  induction cs generalizing n with
  | nil => simp [ctrlActive, AllZero]
  | cons c cs ih =>
    obtain ⟨n', rfl⟩ : ∃ n', n = n' + 1 := ⟨n - 1, by simp at hn; omega⟩
    have hn' : cs.length ≤ n' := by simp at hn; omega
    have := ih n' hn'
    simp only [ctrlActive, List.replicate_succ, List.zip_cons_cons, List.all_cons, Bool.and_eq_true] at this ⊢
    rw [this]
    simp [AllZero]

theorem take_replicate_zero (m i : ℕ) : (List.replicate m (0 : Int)).take i = List.replicate (min i m) 0 := by
  simp [List.take_replicate]

/-! ### circuits of diagonal gates -/

/-- the gate does not move basis states -/
def GateDesc.IsDiag : GateDesc ℝ → Prop
  | .cx _ _ _ => False
  | _ => True

theorem GateDesc.IsDiag.act_fst {g : GateDesc ℝ} (h : g.IsDiag) (bits : ℕ → Bool) : (g.act bits).1 = bits := by
  cases g <;> simp_all [GateDesc.IsDiag, GateDesc.act]

theorem circuitAct_diag (gs : List (GateDesc ℝ)) (h : ∀ g ∈ gs, g.IsDiag) (bits : ℕ → Bool) :
    circuitAct gs bits = (bits, (gs.map fun g => (g.act bits).2).sum) := by
  induction gs with
  | nil => simp [circuitAct]
  | cons g gs ih =>
    have hg := (h g (by simp)).act_fst bits
    have := ih (fun g' hg' => h g' (by simp [hg']))
    simp only [circuitAct, hg, this, List.map_cons, List.sum_cons]

/-! ### c-phase cascade -/

section CPhase
variable (θ : ℝ) (enc : List ℕ) (bits : ℕ → Bool)

/-- phase of the `i`-th cascade gate, `1 ≤ i < m` -/
theorem cphaseStep_phase (i : ℕ) (hi : i < enc.length) :
    ((cphaseStep θ (List.replicate enc.length 0) enc (enc.length - 1) i).act bits).2 =
      if AllZero bits (enc.take i) then (if bits enc[i] then -(θ * 2 ^ i / 2 ^ (enc.length - 1)) else θ * 2 ^ i / 2 ^ (enc.length - 1))
      else 0 := by
  have hact : ctrlActive bits (enc.take i) ((List.replicate enc.length (0 : Int)).take i) = true ↔ AllZero bits (enc.take i) := by
    rw [take_replicate_zero]
    apply ctrlActive_zeros
    simp [List.length_take]
  have hget : enc.getD i 0 = enc[i] := by simp [List.getD_eq_getElem?_getD, hi]
  have hpow : (2 : ℝ) ^ (enc.length - 1 - i) * 2 ^ i = 2 ^ (enc.length - 1) := by
    rw [← pow_add]; congr 1; omega
  have hp1 : (2 : ℝ) ^ (enc.length - 1 - i) ≠ 0 := by positivity
  have hp2 : (2 : ℝ) ^ (enc.length - 1) ≠ 0 := by positivity
  have hdiv : -(2 * θ) / 2 ^ (enc.length - 1 - i) / 2 = -(θ * 2 ^ i / 2 ^ (enc.length - 1)) := by
    rw [← hpow]; field_simp
  simp only [cphaseStep, GateDesc.act, rzPhase, hget, pow2_eq]
  by_cases hz : AllZero bits (enc.take i)
  · rw [if_pos (hact.mpr hz), if_pos hz, hdiv]
    by_cases hb : bits enc[i] <;> simp [hb]
  · have : ¬ ctrlActive bits (enc.take i) ((List.replicate enc.length (0 : Int)).take i) = true := fun h => hz (hact.mp h)
    rw [if_neg this, if_neg hz]

/-- partial sums of the cascade: after the gates on qubits `0 … k` -/
theorem cphase_partial (e0 : ℕ) (rest : List ℕ) (henc : enc = e0 :: rest) (k : ℕ) (hk : k < enc.length) :
    rzPhase (-(2 * θ) / 2 ^ (enc.length - 1)) (bits e0)
      + ((List.range' 1 k).map fun i => ((cphaseStep θ (List.replicate enc.length 0) enc (enc.length - 1) i).act bits).2).sum
      = if AllZero bits (enc.take (k + 1)) then θ * (2 ^ (k + 1) - 1) / 2 ^ (enc.length - 1) else -(θ / 2 ^ (enc.length - 1)) := by
  have hp2 : (2 : ℝ) ^ (enc.length - 1) ≠ 0 := by positivity
  induction k with
  | zero =>
    have : enc.take 1 = [e0] := by rw [henc]; rfl
    simp only [List.range'_zero, List.map_nil, List.sum_nil, add_zero, zero_add, this, allZero_singleton, rzPhase]
    cases hb : bits e0 <;> simp <;> field_simp <;> (try ring)
  | succ k ih =>
    have hk' : k < enc.length := by omega
    have ih' := ih hk'
    have hr : List.range' 1 (k + 1) = List.range' 1 k ++ [k + 1] := by
      rw [List.range'_concat]; simp [Nat.add_comm]
    rw [hr, List.map_append, List.sum_append, ← add_assoc, ih']
    simp only [List.map_cons, List.map_nil, List.sum_cons, List.sum_nil, add_zero]
    rw [cphaseStep_phase θ enc bits (k + 1) hk]
    have htake : enc.take (k + 1 + 1) = enc.take (k + 1) ++ [enc[k + 1]] := by
      rw [List.take_succ_eq_append_getElem hk]
    have hiff : AllZero bits (enc.take (k + 1 + 1)) ↔ (AllZero bits (enc.take (k + 1)) ∧ bits enc[k + 1] = false) := by
      rw [htake, allZero_append, allZero_singleton]
    simp only [hiff]
    by_cases hz : AllZero bits (enc.take (k + 1))
    · cases hb : bits enc[k + 1] <;> simp [hz] <;> field_simp <;> ring
    · simp [hz]

theorem cphaseCircuit_isDiag (proj : List Int) (e0 : ℕ) : ∀ g ∈ cphaseCircuit θ proj enc e0, g.IsDiag := by
  intro g hg
  simp only [cphaseCircuit, List.mem_append, List.mem_singleton, List.mem_map] at hg
  rcases hg with (rfl | ⟨i, _, rfl⟩) | rfl <;> simp [GateDesc.IsDiag, cphaseStep]

/-- **c-phase construction on basis states**: no basis state moves; the all-zero state of the encoding qubits
collects the phase angle `θ`, every other one `-θ` -/
theorem cphaseCircuit_act (e0 : ℕ) (rest : List ℕ) (henc : enc = e0 :: rest) :
    circuitAct (cphaseCircuit θ (List.replicate enc.length 0) enc e0) bits
      = (bits, if AllZero bits enc then θ else -θ) := by
  rw [circuitAct_diag _ (cphaseCircuit_isDiag θ enc _ e0)]
  congr 1
  have hlen : 0 < enc.length := by rw [henc]; simp
  have hp2 : (2 : ℝ) ^ (enc.length - 1) ≠ 0 := by positivity
  have hpart := cphase_partial θ enc bits e0 rest henc (enc.length - 1) (by omega)
  have htake : enc.take (enc.length - 1 + 1) = enc := by
    rw [Nat.sub_add_cancel hlen]; exact List.take_length
  rw [htake] at hpart
  simp only [cphaseCircuit, List.map_append, List.sum_append, List.map_cons, List.map_nil, List.sum_cons, List.sum_nil,
    add_zero, List.map_map]
  have e1 : ((GateDesc.rz (-(2 * θ) / pow2 (enc.length - 1)) e0).act bits).2 = rzPhase (-(2 * θ) / 2 ^ (enc.length - 1)) (bits e0) := by
    simp [GateDesc.act, pow2_eq]
  have e2 : ((GateDesc.phase ((1 - pow2 (enc.length - 1)) * θ / pow2 (enc.length - 1)) enc.length enc).act bits).2
      = (1 - 2 ^ (enc.length - 1)) * θ / 2 ^ (enc.length - 1) := by
    simp [GateDesc.act, pow2_eq]
  rw [e1, e2]
  have hsum : ((List.range' 1 (enc.length - 1)).map
      ((fun g : GateDesc ℝ => (g.act bits).2) ∘ cphaseStep θ (List.replicate enc.length 0) enc (enc.length - 1))).sum
      = ((List.range' 1 (enc.length - 1)).map fun i => ((cphaseStep θ (List.replicate enc.length 0) enc (enc.length - 1) i).act bits).2).sum := rfl
  rw [hsum, hpart]
  have h2 : (2 : ℝ) ^ (enc.length - 1 + 1) = 2 * 2 ^ (enc.length - 1) := by rw [pow_succ]; ring
  by_cases hz : AllZero bits enc
  · simp only [hz, if_true]; rw [h2]; field_simp; ring
  · simp only [hz, if_false]; field_simp; ring

end CPhase

/-! ### auxiliary construction -/

theorem flipBit_flipBit (bits : ℕ → Bool) (a : ℕ) : flipBit (flipBit bits a) a = bits := by
  funext k; by_cases h : k = a <;> simp [flipBit, h]

theorem allZero_flipBit (bits : ℕ → Bool) (a : ℕ) (qs : List ℕ) (ha : a ∉ qs) :
    AllZero (flipBit bits a) qs ↔ AllZero bits qs := by
  simp only [AllZero]
  constructor <;> intro h e he <;> have := h e he <;> have hne : e ≠ a := (fun h' => ha (h' ▸ he)) <;> simpa [flipBit, hne] using this

/-- **auxiliary construction on basis states**: every basis state comes back to itself (in particular the auxiliary
qubit); with the auxiliary qubit in `|0⟩` the all-zero state of the encoding qubits collects `θ`, every other one `-θ`
(and the opposite signs with the auxiliary qubit in `|1⟩`) -/
theorem auxCircuit_act (θ : ℝ) (enc : List ℕ) (a : ℕ) (ha : a ∉ enc) (bits : ℕ → Bool) :
    circuitAct (auxCircuit θ (List.replicate enc.length 0) enc a) bits
      = (bits, if (bits a = false ↔ AllZero bits enc) then θ else -θ) := by
  have hact : ∀ b : ℕ → Bool, ctrlActive b enc (List.replicate enc.length 0) = true ↔ AllZero b enc :=
    fun b => ctrlActive_zeros b enc enc.length le_rfl
  by_cases hz : AllZero bits enc
  · have h1 : ctrlActive bits enc (List.replicate enc.length 0) = true := (hact bits).mpr hz
    have h2 : ctrlActive (flipBit bits a) enc (List.replicate enc.length 0) = true :=
      (hact _).mpr ((allZero_flipBit bits a enc ha).mpr hz)
    simp only [auxCircuit, circuitAct, GateDesc.act, h1, h2, if_true, flipBit_flipBit, rzPhase]
    congr 1
    by_cases hb : bits a <;> simp [flipBit, hb, hz]
  · have h1 : ctrlActive bits enc (List.replicate enc.length 0) = false := by
      cases h : ctrlActive bits enc (List.replicate enc.length 0)
      · rfl
      · exact absurd ((hact bits).mp h) hz
    simp only [auxCircuit, circuitAct, GateDesc.act, h1, Bool.false_eq_true, if_false, rzPhase]
    congr 1
    cases hb : bits a <;> simp [hz]

/-! ### what `as_circuit` accepts -/

theorem all_zero_of_not_any {proj : List Int} (h : ¬ proj.any (· != 0) = true) : proj = List.replicate proj.length 0 := by
  induction proj with
  | nil => rfl
  | cons s proj ih =>
    simp only [List.any_cons, Bool.or_eq_true, not_or] at h
    have hs : s = 0 := by simpa using h.1
    rw [List.length_cons, List.replicate_succ, ← ih h.2, hs]

/-- `as_circuit` succeeds exactly on all-zero projection states of the right length with the needed first qubit,
and then returns the list of the chosen construction -/
theorem asCircuit_ok {p : Pcps ℝ} {c : List (GateDesc ℝ)} (h : p.asCircuit = .ok c) :
    p.proj = List.replicate p.enc.length 0 ∧
    ((p.method = .auxiliary ∧ ∃ a rest, p.aux = a :: rest ∧ c = auxCircuit p.theta p.proj p.enc a) ∨
     (p.method = .cphase ∧ ∃ e0 rest, p.enc = e0 :: rest ∧ c = cphaseCircuit p.theta p.proj p.enc e0)) := by
  unfold Pcps.asCircuit at h
  split_ifs at h with h1 h2
  have hlen : p.proj.length = p.enc.length := by simpa using h1
  have hz := all_zero_of_not_any h2
  rw [hlen] at hz
  refine ⟨hz, ?_⟩
  cases hm : p.method with
  | auxiliary =>
    left
    simp only [hm] at h
    cases ha : p.aux with
    | nil => simp [ha] at h
    | cons a rest =>
      simp only [ha] at h
      exact ⟨rfl, a, rest, rfl, by cases h; rfl⟩
  | cphase =>
    right
    simp only [hm] at h
    cases he : p.enc with
    | nil => simp [he] at h
    | cons e0 rest =>
      simp only [he] at h
      refine ⟨rfl, e0, rest, rfl, ?_⟩
      cases h; rfl

end Qib.Qubitization
