import QibProofs.Lemmas.TNetSurgeryBonds
/-!
Helper lemmas for C08, part 14: totality of `merge` – on consistent operands with in-range joins of matching
dimensions the only way `merge` can fail is its own `assert` (a fused bond left with fewer than two references)
(no property statements).
-/
namespace Qib.TNet

theorem forIn_unit_all_ok {γ : Type} (l : List γ) (f : γ → PUnit → Except Err (ForInStep PUnit))
    (h : ∀ x ∈ l, f x PUnit.unit = .ok (.yield PUnit.unit)) : forIn l PUnit.unit f = .ok PUnit.unit := by
  induction l with
  | nil => rfl
  | cons y ys ih =>
    rw [List.forIn_cons, h y List.mem_cons_self]
    exact ih (fun x hx => h x (List.mem_cons_of_mem _ hx))

theorem renT_fold_ok {tor : List Int} {st : Net × Int × Int} (h : WF0 st.1) (hnd : tor.Nodup)
    (hmem : ∀ t ∈ tor, t ∈ dkeys st.1.tensors) (hfresh : ∀ k ∈ dkeys st.1.tensors, k < st.2.2) :
    ∃ st', tor.foldlM renTStep st = .ok st' := by
  induction tor generalizing st with
  | nil => exact ⟨st, rfl⟩
  | cons t ts ih =>
    rw [List.nodup_cons] at hnd
    have hnew : st.2.2 ∉ dkeys st.1.tensors := fun hm => by have := hfresh _ hm; omega
    obtain ⟨n1, hn1⟩ := renameTensor_ok_of h (hmem t List.mem_cons_self) hnew
    have hw1 := renameTensor_wf0 h hn1
    obtain ⟨T, hT, _, heq⟩ := renameTensor_spec h hn1
    have hstep : renTStep st t = .ok (n1, (if t == -1 then st.2.2 else st.2.1), st.2.2 + 1) := by
      unfold renTStep; rw [hn1]; rfl
    have hk1 : ∀ k, k ∈ dkeys n1.tensors ↔ (k ∈ dkeys st.1.tensors ∧ k ≠ t) ∨ k = st.2.2 := by
      intro k
      rw [heq]
      simp only [dkeys_append, dkeys_cons, dkeys_nil, List.mem_append, List.mem_singleton, dkeys_dpop,
        List.mem_filter, bne_iff_ne, ne_eq]
    obtain ⟨st', hst'⟩ := ih (st := (n1, (if t == -1 then st.2.2 else st.2.1), st.2.2 + 1)) hw1 hnd.2
      (fun x hx => (hk1 x).mpr (Or.inl ⟨hmem x (List.mem_cons_of_mem _ hx), fun e => hnd.1 (e ▸ hx)⟩))
      (fun k hk => by
        rcases (hk1 k).mp hk with ⟨h1, _⟩ | h1
        · have := hfresh k h1; simp only; omega
        · simp only; omega)
    exact ⟨st', by rw [List.foldlM_cons, hstep]; exact hst'⟩

theorem renB_fold_ok {bor : List Int} {st : Net × Int} (h : WF0 st.1) (hnd : bor.Nodup)
    (hmem : ∀ t ∈ bor, t ∈ dkeys st.1.bonds) (hfresh : ∀ k ∈ dkeys st.1.bonds, k < st.2) :
    ∃ st', bor.foldlM renBStep st = .ok st' := by
  induction bor generalizing st with
  | nil => exact ⟨st, rfl⟩
  | cons t ts ih =>
    rw [List.nodup_cons] at hnd
    have hnew : st.2 ∉ dkeys st.1.bonds := fun hm => by have := hfresh _ hm; omega
    obtain ⟨n1, hn1⟩ := renameBond_ok_of h (hmem t List.mem_cons_self) hnew
    have hw1 := renameBond_wf0 h hn1
    obtain ⟨B, hB, _, heq⟩ := renameBond_spec h hn1
    have hstep : renBStep st t = .ok (n1, st.2 + 1) := by
      unfold renBStep; rw [hn1]; rfl
    have hk1 : ∀ k, k ∈ dkeys n1.bonds ↔ (k ∈ dkeys st.1.bonds ∧ k ≠ t) ∨ k = st.2 := by
      intro k
      rw [heq]
      simp only [dkeys_append, dkeys_cons, dkeys_nil, List.mem_append, List.mem_singleton, dkeys_dpop,
        List.mem_filter, bne_iff_ne, ne_eq]
    obtain ⟨st', hst'⟩ := ih (st := (n1, st.2 + 1)) hw1 hnd.2
      (fun x hx => (hk1 x).mpr (Or.inl ⟨hmem x (List.mem_cons_of_mem _ hx), fun e => hnd.1 (e ▸ hx)⟩))
      (fun k hk => by
        rcases (hk1 k).mp hk with ⟨h1, _⟩ | h1
        · have := hfresh k h1; simp only; omega
        · simp only; omega)
    exact ⟨st', by rw [List.foldlM_cons, hstep]; exact hst'⟩

theorem mergeTensors_ok_of {net : Net} {tid1 tid2 : Int} (h : WF0 net) (h1 : tid1 ∈ dkeys net.tensors)
    (h2 : tid2 ∈ dkeys net.tensors) : ∃ net', mergeTensors net tid1 tid2 = .ok net' := by
  rw [mergeTensors_eq]
  by_cases hb : (tid1 == tid2) = true
  · simp only [hb, if_true]; exact ⟨_, rfl⟩
  · simp only [hb, Bool.false_eq_true, if_false]
    obtain ⟨T1, hT1⟩ := Option.isSome_iff_exists.mp ((dget_isSome_iff _ _).mpr h1)
    obtain ⟨T2, hT2⟩ := Option.isSome_iff_exists.mp ((dget_isSome_iff _ _).mpr h2)
    have hm := mem_of_dget_eq_some _ hT2
    have h4 : T2.bids.all (dhas net.bonds) = true := by
      rw [List.all_eq_true]; intro t ht
      exact (dhas_iff _ _).mpr (h.mem_bond_keys hm ht)
    simp only [hT1, hT2, h4, Bool.not_true, Bool.false_eq_true, if_false]
    exact ⟨_, rfl⟩

theorem join_fold_ok {S : List Nat} {orig : Nat} {joinN : List (Nat × Nat)} {st : Net × List Nat}
    (h : JInv S st.1) (hdim : ∀ ja ∈ joinN, S[ja.1]? = S[orig + ja.2]?)
    (hr : ∀ ja ∈ joinN, ja.1 < S.length ∧ orig + ja.2 < S.length) :
    ∃ st', joinN.foldlM (joinStep orig) st = .ok st' := by
  induction joinN generalizing st with
  | nil => exact ⟨st, rfl⟩
  | cons ja js ih =>
    obtain ⟨hw, v, hv, hS⟩ := h
    have hm := mem_of_dget_eq_some _ hv
    have hlen : v.bids.length = S.length := by rw [← hS]; exact (hw.tshape _ hm).symm
    obtain ⟨r1, r2⟩ := hr ja List.mem_cons_self
    have i1 : ja.1 < v.bids.length := by omega
    have i2 : orig + ja.2 < v.bids.length := by omega
    obtain ⟨n1, hn1⟩ := mergeBonds_ok_of hw.toWF0 (hw.toWF0.mem_bond_keys hm (List.getElem_mem i1))
      (hw.toWF0.mem_bond_keys hm (List.getElem_mem i2))
    have hstep : joinStep orig st ja = .ok (n1, (st.2.erase ja.1).erase (orig + ja.2)) := by
      unfold joinStep
      rw [hv]
      simp only [List.getElem?_eq_getElem i1, List.getElem?_eq_getElem i2]
      rw [hn1]; rfl
    have h1 := joinStep_inv ⟨hw, v, hv, hS⟩ (hdim ja List.mem_cons_self) hstep
    obtain ⟨st', hst'⟩ := ih (st := (n1, _)) h1 (fun x hx => hdim x (List.mem_cons_of_mem _ hx))
      (fun x hx => hr x (List.mem_cons_of_mem _ hx))
    exact ⟨st', by rw [List.foldlM_cons, hstep]; exact hst'⟩

/-- the deletion loop can only fail with the `assert` -/
theorem del_fold_total {D : List Nat} {net : Net} {toa : STensor} (hv : dget net.tensors (-1) = some toa)
    (hD : ∀ d ∈ D, d < toa.bids.length) (hk : ∀ b ∈ toa.bids, b ∈ dkeys net.bonds) :
    (∃ net', D.foldlM delStep net = .ok net') ∨ D.foldlM delStep net = .error .assertion := by
  induction D generalizing net with
  | nil => exact Or.inl ⟨net, rfl⟩
  | cons d ds ih =>
    have hd := hD d List.mem_cons_self
    have hbk := hk _ (List.getElem_mem hd)
    obtain ⟨B, hB⟩ := Option.isSome_iff_exists.mp ((dget_isSome_iff _ _).mpr hbk)
    rw [List.foldlM_cons]
    have hstep : delStep net d = if (B.tids.erase (-1)).length < 2 then .error .assertion else
        .ok { net with bonds := dmodify net.bonds toa.bids[d] (fun b => { b with tids := B.tids.erase (-1) }) } := by
      unfold delStep
      rw [hv]
      simp only [List.getElem?_eq_getElem hd, hB]
      split <;> rfl
    rw [hstep]
    by_cases hl : (B.tids.erase (-1)).length < 2
    · right; rw [if_pos hl]; rfl
    · rw [if_neg hl]
      exact ih (net := { net with bonds := dmodify net.bonds toa.bids[d] (fun b => { b with tids := B.tids.erase (-1) }) })
        hv (fun x hx => hD x (List.mem_cons_of_mem _ hx)) (fun b hb => by
          dsimp only
          rw [dkeys_dmodify]; exact hk b hb)

theorem merge_precopy {a b : Net} {tor bor : List Int} (ha : WF a) (hb : WF b)
    (htor : tor.Perm (sharedTids a b)) (hbor : bor.Perm (sharedBids a b))
    {o1 o2 : Net} {tmpOpen n1 n2 : Int}
    (hf1 : tor.foldlM renTStep (b, -1, maxKey (dkeys a.tensors ++ dkeys b.tensors) + 1) = .ok (o1, tmpOpen, n1))
    (hf2 : bor.foldlM renBStep (o1, maxKey (dkeys a.bonds ++ dkeys o1.bonds) + 1) = .ok (o2, n2))
    : WF0 o2 ∧ (∀ k ∈ dkeys o2.tensors, k ∉ dkeys a.tensors) ∧ (∀ k ∈ dkeys o2.bonds, k ∉ dkeys a.bonds) ∧
      (-1 : Int) ≠ tmpOpen ∧ (∃ vb2, dget o2.tensors tmpOpen = some vb2) ∧
      dupdate a.tensors o2.tensors = a.tensors ++ o2.tensors ∧ dupdate a.bonds o2.bonds = a.bonds ++ o2.bonds := by
  obtain ⟨vb, hvb⟩ := hb.virt_get
  obtain ⟨va, hva⟩ := ha.virt_get
  -- the tensor renaming loop
  obtain ⟨w1, _, kb1, len1, keys1, tmp1⟩ := renT_fold (st := (b, -1, _)) hb.toWF0 hf1
  simp only at w1 kb1 len1 keys1 tmp1
  have hneg1 : (-1 : Int) ∈ tor := htor.mem_iff.mpr (mem_sharedTids.mpr ⟨ha.virt, hb.virt⟩)
  have hmaxT : ∀ k ∈ dkeys a.tensors ++ dkeys b.tensors, k ≤ maxKey (dkeys a.tensors ++ dkeys b.tensors) :=
    fun k hk => le_maxKey hk
  have hN0 : (0 : Int) ≤ maxKey (dkeys a.tensors ++ dkeys b.tensors) + 1 := by
    have := hmaxT (-1) (List.mem_append_left _ ha.virt); omega
  have htmp : maxKey (dkeys a.tensors ++ dkeys b.tensors) + 1 ≤ tmpOpen := by
    rcases tmp1 with ⟨_, h2⟩ | ⟨h1, _, _⟩
    · exact absurd hneg1 h2
    · exact h1
  have htmpne : (-1 : Int) ≠ tmpOpen := by omega
  have hdisjT : ∀ k ∈ dkeys o1.tensors, k ∉ dkeys a.tensors := by
    intro k hk hka
    rcases keys1 k hk with ⟨h1, h2⟩ | ⟨h1, _⟩
    · exact h2 (htor.mem_iff.mpr (mem_sharedTids.mpr ⟨hka, h1⟩))
    · have := hmaxT k (List.mem_append_left _ hka); omega
  -- the tracked virtual tensor keeps its shape
  have htrack := renT_fold_track (fun net vid => ∃ T, dget net.tensors vid = some T ∧ T.shape = vb.shape)
    (by
      intro net net' cur new vid hw hok hvid ⟨T, hT, hS⟩
      obtain ⟨Tc, hTc, hnew, rfl⟩ := renameTensor_spec hw hok
      by_cases hv : vid = cur
      · subst hv
        rw [hT] at hTc; cases hTc
        refine ⟨{ T with tid := new }, ?_, hS⟩
        rw [rep_self, dget_append_right _ _ (by rw [dkeys_dpop]; exact fun h => hnew (List.mem_filter.mp h).1)]
        simp [dget, List.lookup]
      · refine ⟨T, ?_, hS⟩
        rw [rep_of_ne hv]
        apply dget_append_left
        rw [dget_dpop_ne _ hv]; exact hT)
    (st := (b, -1, _)) (N0 := maxKey (dkeys a.tensors ++ dkeys b.tensors) + 1) hN0
    (by
      intro t ht
      have := hmaxT t (List.mem_append_left _ (mem_sharedTids.mp (htor.mem_iff.mp ht)).1); omega)
    (le_refl _)
    (by intro k hk; have := hmaxT k (List.mem_append_right _ hk); simp only; omega)
    hb.virt (Or.inl rfl) hb.toWF0 ⟨vb, hvb, rfl⟩ hf1
  simp only at htrack
  obtain ⟨⟨vb1, hvb1, hS1⟩, htmpmem1⟩ := htrack
  -- the bond renaming loop
  obtain ⟨w2, _, kt2, len2, keys2⟩ := renB_fold (st := (o1, _)) w1 hf2
  simp only at w2 kt2 len2 keys2
  have hmaxB : ∀ k ∈ dkeys a.bonds ++ dkeys o1.bonds, k ≤ maxKey (dkeys a.bonds ++ dkeys o1.bonds) :=
    fun k hk => le_maxKey hk
  have hdisjB : ∀ k ∈ dkeys o2.bonds, k ∉ dkeys a.bonds := by
    intro k hk hka
    rcases keys2 k hk with ⟨h1, h2⟩ | ⟨h1, _⟩
    · rw [kb1] at h1
      exact h2 (hbor.mem_iff.mpr (mem_sharedBids.mpr ⟨hka, h1⟩))
    · have := hmaxB k (List.mem_append_left _ hka); omega
  have htrack2 := renB_fold_track (fun net => ∃ T, dget net.tensors tmpOpen = some T ∧ T.shape = vb.shape)
    (by
      intro net net' cur new hw hok ⟨T, hT, hS⟩
      obtain ⟨B, _, _, rfl⟩ := renameBond_spec hw hok
      exact ⟨{ T with bids := T.bids.map (rep cur new) }, by
        show dget (relTensors _ _) _ = _
        rw [dget_relTensors, hT]; rfl, hS⟩)
    (st := (o1, _)) w1 ⟨vb1, hvb1, hS1⟩ hf2
  simp only at htrack2
  obtain ⟨vb2, hvb2, hS2⟩ := htrack2
  have hdisjT2 : ∀ k ∈ dkeys o2.tensors, k ∉ dkeys a.tensors := by rw [kt2]; exact hdisjT
  have hu1 : dupdate a.tensors o2.tensors = a.tensors ++ o2.tensors :=
    dupdate_eq_append _ _ w2.tnodup hdisjT2
  have hu2 : dupdate a.bonds o2.bonds = a.bonds ++ o2.bonds := dupdate_eq_append _ _ w2.bnodup hdisjB
  exact ⟨w2, hdisjT2, hdisjB, htmpne, ⟨vb2, hvb2⟩, hu1, hu2⟩


theorem nodup_sharedTids {a b : Net} (ha : WF0 a) : (sharedTids a b).Nodup := ha.tnodup.filter _
theorem nodup_sharedBids {a b : Net} (ha : WF0 a) : (sharedBids a b).Nodup := ha.bnodup.filter _

/-- **totality of `merge`**: on well-formed operands, with in-range joins of matching dimensions and the set
orders being permutations of the shared ids, `merge` either returns or fails with its own `assert` -/
theorem merge_total {a b : Net} {j : List (Int × Int)} {tor bor : List Int} (ha : WF a) (hb : WF b)
    (htor : tor.Perm (sharedTids a b)) (hbor : bor.Perm (sharedBids a b))
    (hdim : ∀ va vb, dget a.tensors (-1) = some va → dget b.tensors (-1) = some vb →
      ∀ ja ∈ j, va.shape[ja.1.toNat]? = vb.shape[ja.2.toNat]?)
    {va vb : STensor} (hva : dget a.tensors (-1) = some va) (hvb : dget b.tensors (-1) = some vb)
    (hrange : ∀ ja ∈ j, 0 ≤ ja.1 ∧ ja.1 < va.shape.length ∧ 0 ≤ ja.2 ∧ ja.2 < vb.shape.length) :
    (∃ net', merge a b j tor bor = .ok net') ∨ merge a b j tor bor = .error .assertion := by
  generalize hX : merge a b j tor bor = r
  cases r with
  | ok n => exact Or.inl ⟨n, rfl⟩
  | error e =>
    right
    congr 1
    unfold merge at hX
    simp only [bind, Except.bind] at hX
    have hoa := numOpenAxes_eq hva
    have hob := numOpenAxes_eq hvb
    split at hX
    · -- the range loop cannot fail
      rename_i err hloop
      exfalso
      have key : ∀ (f : Int × Int → PUnit → Except Err (ForInStep PUnit)),
          (∀ ja ∈ j, f ja PUnit.unit = .ok (.yield PUnit.unit)) → forIn j PUnit.unit f = .error err → False := by
        intro f hall hl
        have := (forIn_unit_all_ok j f hall).symm.trans hl
        cases this
      refine key _ (fun ja hja => ?_) hloop
      obtain ⟨h1, h2, h3, h4⟩ := hrange ja hja
      rw [hoa, hob]
      simp only
      have c1 : (decide (ja.1 < 0) || decide (ja.1 ≥ ↑va.shape.length)) = false := by
        simp only [Bool.or_eq_false_iff, decide_eq_false_iff_not]; omega
      have c2 : (decide (ja.2 < 0) || decide (ja.2 ≥ ↑vb.shape.length)) = false := by
        simp only [Bool.or_eq_false_iff, decide_eq_false_iff_not]; omega
      rw [c1, c2]; rfl
    · split at hX
      · rename_i err h0; rw [hoa] at h0; cases h0
      · rename_i orig horig
        have horig' : orig = va.shape.length := by
          rw [hoa] at horig; exact (Except.ok.inj horig).symm
        subst horig'
        -- first renaming loop
        have hmaxT : ∀ k ∈ dkeys a.tensors ++ dkeys b.tensors, k ≤ maxKey (dkeys a.tensors ++ dkeys b.tensors) :=
          fun k hk => le_maxKey hk
        obtain ⟨st1, hst1⟩ := renT_fold_ok (st := (b, -1, maxKey (dkeys a.tensors ++ dkeys b.tensors) + 1)) hb.toWF0
          (htor.nodup_iff.mpr (nodup_sharedTids ha.toWF0))
          (fun t ht => (mem_sharedTids.mp (htor.mem_iff.mp ht)).2)
          (fun k hk => by have := hmaxT k (List.mem_append_right _ hk); simp only; omega)
        split at hX
        · rename_i err h1
          exfalso
          have := hst1.symm.trans h1
          cases this
        · rename_i x1 hf1
          obtain ⟨o1, tmpOpen, n1⟩ := x1
          simp only at hX
          have hf1' : tor.foldlM renTStep (b, -1, maxKey (dkeys a.tensors ++ dkeys b.tensors) + 1)
              = .ok (o1, tmpOpen, n1) := hf1
          obtain ⟨w1, _, kb1, _, _, _⟩ := renT_fold (st := (b, -1, _)) hb.toWF0 hf1'
          simp only at w1 kb1
          have hmaxB : ∀ k ∈ dkeys a.bonds ++ dkeys o1.bonds, k ≤ maxKey (dkeys a.bonds ++ dkeys o1.bonds) :=
            fun k hk => le_maxKey hk
          obtain ⟨st2, hst2⟩ := renB_fold_ok (st := (o1, maxKey (dkeys a.bonds ++ dkeys o1.bonds) + 1)) w1
            (hbor.nodup_iff.mpr (nodup_sharedBids ha.toWF0))
            (fun t ht => by rw [kb1]; exact (mem_sharedBids.mp (hbor.mem_iff.mp ht)).2)
            (fun k hk => by have := hmaxB k (List.mem_append_right _ hk); simp only; omega)
          split at hX
          · rename_i err h2
            exfalso
            have := hst2.symm.trans h2
            cases this
          · rename_i x2 hf2
            obtain ⟨o2, n2⟩ := x2
            simp only at hX
            have hf2' : bor.foldlM renBStep (o1, maxKey (dkeys a.bonds ++ dkeys o1.bonds) + 1) = .ok (o2, n2) := hf2
            obtain ⟨w2, disjT, disjB, tmpne, ⟨vb2, hvb2⟩, hu1, hu2⟩ := merge_precopy ha hb htor hbor hf1' hf2'
            have wu := union_wf0 ha.toWF0 w2 disjT disjB
            obtain ⟨m1', hm1'⟩ := mergeTensors_ok_of (net := ⟨a.tensors ++ o2.tensors, a.bonds ++ o2.bonds⟩)
              (tid1 := -1) (tid2 := tmpOpen) wu
              (by simp only [dkeys_append, List.mem_append]; exact Or.inl ha.virt)
              (by simp only [dkeys_append, List.mem_append]
                  exact Or.inr (mem_dkeys_of_mem (mem_of_dget_eq_some _ hvb2)))
            split at hX
            · rename_i err h3
              exfalso
              rw [hu1, hu2] at h3
              have := hm1'.symm.trans h3
              cases this
            · rename_i m1 hm1
              have hvirt1 : (-1 : Int) ∈ dkeys m1.tensors := by
                have hm1c := hm1
                rw [hu1, hu2] at hm1c
                obtain ⟨T1, T2, _, _, heq⟩ := mergeTensors_spec wu tmpne hm1c
                rw [heq]
                simp only [dkeys_dmodify, dkeys_dpop, dkeys_append]
                exact List.mem_filter.mpr ⟨List.mem_append_left _ ha.virt, by simpa using tmpne⟩
              obtain ⟨toa1, htoa1⟩ := Option.isSome_iff_exists.mp ((dget_isSome_iff _ _).mpr hvirt1)
              split at hX
              · rename_i toa1' htoa1'
                rw [htoa1] at htoa1'
                cases htoa1'
                have pre := merge_prejoin ha hb htor hbor hf1' hf2' hm1 htoa1
                have hS := pre.shape va vb hva hvb
                have hdimS : ∀ ja ∈ joinNat j, toa1.shape[ja.1]? = toa1.shape[va.shape.length + ja.2]? := by
                  intro ja hja
                  obtain ⟨jz, hjz, rfl⟩ := List.mem_map.mp hja
                  obtain ⟨h1, h2, h3, h4⟩ := hrange jz hjz
                  have hp : jz.1.toNat < va.shape.length := by omega
                  rw [hS, List.getElem?_append_left hp, List.getElem?_append_right (by omega)]
                  simp only [Nat.add_sub_cancel_left]
                  exact hdim va vb hva hvb jz hjz
                have hrS : ∀ ja ∈ joinNat j, ja.1 < toa1.shape.length ∧ va.shape.length + ja.2 < toa1.shape.length := by
                  intro ja hja
                  obtain ⟨jz, hjz, rfl⟩ := List.mem_map.mp hja
                  obtain ⟨h1, h2, h3, h4⟩ := hrange jz hjz
                  rw [hS, List.length_append]
                  simp only
                  omega
                have hj1 : JInv toa1.shape m1 := ⟨pre.wf, toa1, pre.virt, rfl⟩
                obtain ⟨st3, hst3⟩ := join_fold_ok (st := (m1, List.range toa1.shape.length)) hj1 hdimS hrS
                split at hX
                · rename_i err h4
                  exfalso
                  have : (joinNat j).foldlM (joinStep va.shape.length) (m1, List.range toa1.shape.length)
                      = .error err := h4
                  rw [hst3] at this; cases this
                · rename_i x3 hf3
                  obtain ⟨m2, axesMap⟩ := x3
                  have hf3' : (joinNat j).foldlM (joinStep va.shape.length) (m1, List.range toa1.shape.length)
                      = .ok (m2, axesMap) := hf3
                  obtain ⟨⟨wf2, toa2, hv2, hS2⟩, ham, _⟩ := join_fold_inv (st := (m1, _)) hj1 hdimS hf3'
                  simp only at wf2 hv2 ham
                  have hsh2 : toa2.shape.length = toa2.bids.length := wf2.tshape _ (mem_of_dget_eq_some _ hv2)
                  have hDlt : ∀ d ∈ delAxesOf va.shape.length (joinNat j), d < toa2.bids.length := by
                    intro d hd
                    simp only [delAxesOf, List.mem_eraseDups, List.mem_flatMap, List.mem_cons, List.not_mem_nil,
                      or_false] at hd
                    obtain ⟨ja, hja, hd⟩ := hd
                    have := hrS ja hja
                    rw [← hsh2, hS2]
                    rcases hd with rfl | rfl
                    · exact this.1
                    · exact this.2
                  have htot := del_fold_total (D := delAxesOf va.shape.length (joinNat j)) hv2 hDlt
                    (fun b hb' => wf2.toWF0.mem_bond_keys (mem_of_dget_eq_some _ hv2) hb')
                  split at hX
                  · -- the deletion loop: the only possible failure is the assert
                    rename_i err h5
                    have h5' : (delAxesOf va.shape.length (joinNat j)).foldlM delStep m2 = .error err := h5
                    rcases htot with ⟨m3, hm3⟩ | hassert
                    · rw [hm3] at h5'; cases h5'
                    · rw [hassert] at h5'
                      have he : err = e := by
                        have hX' : (Except.error err : Except Err Net) = .error e := hX
                        exact Except.error.inj hX'
                      rw [← he]
                      exact (Except.error.inj h5').symm
                  · rename_i m3 hf4
                    have hf4' : (delAxesOf va.shape.length (joinNat j)).foldlM delStep m2 = .ok m3 := hf4
                    obtain ⟨_, ht3, _, _⟩ := del_fold wf2.bnodup hv2 wf2.blen hf4'
                    split at hX
                    · rename_i toa3 htoa3
                      have htoa3' : toa3 = toa2 := by
                        rw [ht3, hv2] at htoa3; exact (Option.some.inj htoa3).symm
                      subst htoa3'
                      have hamlt : ∀ x ∈ axesMap, x < toa3.shape.length := by
                        intro x hx
                        rw [ham, foldl_erase_eq_filter _ _ _ List.nodup_range] at hx
                        have := List.mem_range.mp (List.mem_filter.mp hx).1
                        rw [hS2]; exact this
                      exfalso
                      rw [mapM_ok_of_forall (g := fun x => toa3.shape[x]?.getD 0)] at hX
                      · simp only at hX
                        rw [mapM_ok_of_forall (g := fun x => toa3.bids[x]?.getD 0)] at hX
                        · cases hX
                        · intro x hx
                          rw [List.getElem?_eq_getElem (by rw [← hsh2]; exact hamlt x hx)]; rfl
                      · intro x hx
                        rw [List.getElem?_eq_getElem (hamlt x hx)]; rfl
                    · rename_i hnone
                      exfalso
                      have : dget m3.tensors (-1) = some toa2 := by rw [ht3]; exact hv2
                      exact hnone toa2 this
              · rename_i hnone
                exfalso
                exact hnone toa1 htoa1

/-! ### the value only reads the data of the real tensors -/

/-- data references of the real tensors -/
def dataRefs (net : Net) : List (Option Int) := (realTensors net).map (·.dataref)

theorem full_congr_data {α : Type} [CommSemiring α] (net : Net) (D D' : Option Int → List Nat → α) (idx : List Nat)
    (h : ∀ r ∈ dataRefs net, D r = D' r) : full net D idx = full net D' idx := by
  unfold full
  cases dget net.tensors (-1) with
  | none => rfl
  | some v =>
    simp only
    split
    · apply sumOver_congr
      intro σ
      congr 1
      apply List.map_congr_left
      intro t ht
      rw [h t.dataref (List.mem_map_of_mem ht)]
    · rfl

end Qib.TNet
