import QibProofs.Lemmas.QubitizationAct
import QibProofs.Lemmas.QubitizationEvt
import Mathlib.Data.Complex.Basic
import Mathlib.Analysis.SpecialFunctions.Exp
import Mathlib.Data.Matrix.Mul
import Mathlib.Data.Fintype.Pi
import Mathlib.Algebra.BigOperators.Ring.Finset
import Mathlib.Tactic.NormNum
/-!
Helper lemmas for C19: from the basis-state action of gate lists (`GateDesc.act`, `circuitAct`) to matrices on an
`n`-wire register indexed by bit functions `Fin n → Bool` (qubit label `k` = wire `k`); the product of the gates' matrices
in the order of `Circuit.as_matrix` is the matrix of the composed action. No property statements here.
-/
open Matrix Complex

namespace Qib.Qubitization

/-- a register index as a state of all labels: labels outside the register read 0 -/
def ext (n : ℕ) (R : Fin n → Bool) : ℕ → Bool := fun k => if h : k < n then R ⟨k, h⟩ else false

/-- restriction of a state to the register -/
def res (n : ℕ) (b : ℕ → Bool) : Fin n → Bool := fun k => b k

/-- the state is 0 outside the register -/
def Supp (n : ℕ) (b : ℕ → Bool) : Prop := ∀ k, n ≤ k → b k = false

theorem res_ext (n : ℕ) (R : Fin n → Bool) : res n (ext n R) = R := by
  funext k; simp [res, ext]

theorem supp_ext (n : ℕ) (R : Fin n → Bool) : Supp n (ext n R) := by
  intro k hk; simp [ext, Nat.not_lt.mpr hk]

theorem ext_res {n : ℕ} {b : ℕ → Bool} (h : Supp n b) : ext n (res n b) = b := by
  funext k
  by_cases hk : k < n
  · simp [ext, res, hk]
  · simp [ext, hk, h k (Nat.not_lt.mp hk)]

theorem ext_apply_lt {n : ℕ} (R : Fin n → Bool) {k : ℕ} (hk : k < n) : ext n R k = R ⟨k, hk⟩ := by simp [ext, hk]

/-- an action (basis state ↦ basis state and phase angle) keeps the register: it never sets a bit outside -/
def InReg (n : ℕ) (f : (ℕ → Bool) → (ℕ → Bool) × ℝ) : Prop := ∀ b, Supp n b → Supp n (f b).1

/-- matrix of an action on the `n`-wire register: column `C` is `e^{iφ}|image⟩` -/
noncomputable def actMat (n : ℕ) (f : (ℕ → Bool) → (ℕ → Bool) × ℝ) : Matrix (Fin n → Bool) (Fin n → Bool) ℂ :=
  fun R C => if res n (f (ext n C)).1 = R then Complex.exp (I * ((f (ext n C)).2 : ℂ)) else 0

/-- first `f`, then `g`: images compose, phase angles add -/
def actComp (g f : (ℕ → Bool) → (ℕ → Bool) × ℝ) : (ℕ → Bool) → (ℕ → Bool) × ℝ :=
  fun b => ((g (f b).1).1, (f b).2 + (g (f b).1).2)

theorem actMat_mul (n : ℕ) (g f : (ℕ → Bool) → (ℕ → Bool) × ℝ) (hf : InReg n f) :
    actMat n g * actMat n f = actMat n (actComp g f) := by
  ext R C
  simp only [Matrix.mul_apply, actMat]
  have hK : ext n (res n (f (ext n C)).1) = (f (ext n C)).1 := ext_res (hf _ (supp_ext n C))
  rw [Finset.sum_eq_single (res n (f (ext n C)).1)]
  · have e1 : (actComp g f (ext n C)).1 = (g (f (ext n C)).1).1 := rfl
    have e2 : (actComp g f (ext n C)).2 = (f (ext n C)).2 + (g (f (ext n C)).1).2 := rfl
    simp only [hK, if_true, e1, e2]
    split_ifs with h
    · rw [← Complex.exp_add]; congr 1; push_cast; ring
    · simp
  · intro K _ hne
    have : ¬ res n (f (ext n C)).1 = K := fun h => hne h.symm
    simp [this]
  · intro h; exact absurd (Finset.mem_univ _) h

theorem actMat_id (n : ℕ) : actMat n (fun b => (b, 0)) = 1 := by
  ext R C
  simp only [actMat, res_ext, Matrix.one_apply]
  by_cases h : C = R
  · simp [h]
  · have : ¬ R = C := fun h' => h h'.symm
    simp [h, this]

/-- an action that moves no basis state is a diagonal matrix of phases -/
theorem actMat_diag (n : ℕ) (φ : (ℕ → Bool) → ℝ) :
    actMat n (fun b => (b, φ b)) = Matrix.diagonal fun R => Complex.exp (I * (φ (ext n R) : ℂ)) := by
  ext R C
  simp only [actMat, res_ext, Matrix.diagonal_apply]
  by_cases h : C = R
  · subst h; simp
  · have : ¬ R = C := fun h' => h h'.symm
    simp [h, this]

theorem actMat_congr (n : ℕ) {f g : (ℕ → Bool) → (ℕ → Bool) × ℝ} (h : ∀ b, Supp n b → f b = g b) :
    actMat n f = actMat n g := by
  ext R C; simp only [actMat, h _ (supp_ext n C)]

/-! ### gates and circuits -/

/-- matrix of an emitted gate on the `n`-wire register -/
noncomputable def gateMat (n : ℕ) (g : GateDesc ℝ) : Matrix (Fin n → Bool) (Fin n → Bool) ℂ := actMat n g.act

/-- matrix of a gate list: the product `gₖ ⋯ g₂ g₁` that `Circuit.as_matrix` forms (first gate applied first) -/
noncomputable def circuitMat (n : ℕ) (c : List (GateDesc ℝ)) : Matrix (Fin n → Bool) (Fin n → Bool) ℂ :=
  circuitDen (gateMat n) c

/-- the only way an emitted gate can leave the register is a controlled-X whose target is not a wire of it -/
def GateDesc.TargetLt (n : ℕ) : GateDesc ℝ → Prop
  | .cx _ _ t => t < n
  | _ => True

theorem GateDesc.IsDiag.targetLt {g : GateDesc ℝ} (h : g.IsDiag) (n : ℕ) : g.TargetLt n := by
  cases g <;> simp_all [GateDesc.IsDiag, GateDesc.TargetLt]

theorem auxCircuit_targetLt (θ : ℝ) (proj : List Int) (enc : List ℕ) {a n : ℕ} (ha : a < n) :
    ∀ g ∈ auxCircuit θ proj enc a, g.TargetLt n := by
  intro g hg
  simp only [auxCircuit, List.mem_cons, List.not_mem_nil, or_false] at hg
  rcases hg with rfl | rfl | rfl <;> simp [GateDesc.TargetLt, ha]

theorem supp_flipBit {n : ℕ} {b : ℕ → Bool} (h : Supp n b) {t : ℕ} (ht : t < n) : Supp n (flipBit b t) := by
  intro k hk
  have : k ≠ t := by omega
  simp [flipBit, this, h k hk]

theorem GateDesc.inReg {n : ℕ} {g : GateDesc ℝ} (h : g.TargetLt n) : InReg n g.act := by
  intro b hb
  cases g with
  | cx cs st t =>
    simp only [GateDesc.act]
    split_ifs
    · exact supp_flipBit hb h
    · exact hb
  | rz a t => exact hb
  | crz a cs st t => exact hb
  | phase φ k qs => exact hb

theorem circuitAct_cons (g : GateDesc ℝ) (gs : List (GateDesc ℝ)) :
    circuitAct (g :: gs) = actComp (circuitAct gs) g.act := by
  funext b; simp [circuitAct, actComp]

theorem circuitAct_nil : circuitAct ([] : List (GateDesc ℝ)) = fun b => (b, 0) := by
  funext b; simp [circuitAct]

/-- **the product of the gates' matrices is the matrix of the composed basis-state action** -/
theorem circuitMat_eq_actMat (n : ℕ) (c : List (GateDesc ℝ)) (h : ∀ g ∈ c, g.TargetLt n) :
    circuitMat n c = actMat n (circuitAct c) := by
  induction c with
  | nil => rw [circuitMat, circuitDen_nil, circuitAct_nil, actMat_id]
  | cons g gs ih =>
    have ih' := ih (fun g' hg' => h g' (by simp [hg']))
    rw [circuitMat, circuitDen_cons, ← circuitMat, ih', gateMat, actMat_mul n _ _ (GateDesc.inReg (h g (by simp))),
      circuitAct_cons]

/-- the projector onto "wire `a` reads 0" -/
def wireZero (n : ℕ) (a : ℕ) : Matrix (Fin n → Bool) (Fin n → Bool) ℂ :=
  Matrix.diagonal fun R => if ext n R a = false then 1 else 0

/-- `M` does not touch wire `a`: it is block diagonal with respect to the bit of `a` -/
theorem commute_wireZero_of_diag (n a : ℕ) (d : (Fin n → Bool) → ℂ) :
    Matrix.diagonal d * wireZero n a = wireZero n a * Matrix.diagonal d := by
  rw [wireZero, Matrix.diagonal_mul_diagonal, Matrix.diagonal_mul_diagonal]
  congr 1; funext R; ring

/-! ### the reflection about a set of basis states -/

section Refl
variable {κ : Type} [DecidableEq κ]

/-- the reflection `2P − 1` about the span of the basis states selected by `p` (`P` = projector onto them);
for `p = (· = k0)` this is `2|k0⟩⟨k0| − 1` -/
def reflOn (p : κ → Prop) [DecidablePred p] : Matrix κ κ ℂ := Matrix.diagonal fun k => if p k then 1 else -1

theorem reflOn_eq_two_proj_sub_one (p : κ → Prop) [DecidablePred p] :
    reflOn p = (2 : ℂ) • (Matrix.diagonal fun k => if p k then (1 : ℂ) else 0) - 1 := by
  ext i j
  by_cases h : i = j
  · subst h
    by_cases hp : p i <;> simp [reflOn, Matrix.diagonal, hp] <;> norm_num
  · simp [reflOn, Matrix.diagonal, Matrix.one_apply, h]

theorem reflOn_sq [Fintype κ] (p : κ → Prop) [DecidablePred p] : reflOn p * reflOn p = 1 := by
  rw [reflOn, Matrix.diagonal_mul_diagonal]
  ext i j; by_cases h : i = j <;> by_cases h0 : p j <;> simp [Matrix.diagonal, Matrix.one_apply, h, h0]

end Refl

/-- all encoding qubits read 0 in the register state `R` -/
def EncZero (n : ℕ) (enc : List ℕ) (R : Fin n → Bool) : Prop := AllZero (ext n R) enc

instance (n : ℕ) (enc : List ℕ) : DecidablePred (EncZero n enc) := fun R => by unfold EncZero; infer_instance

theorem exp_I_mul_ite (c : Prop) [Decidable c] (θ : ℝ) :
    Complex.exp (I * ((if c then θ else -θ : ℝ) : ℂ)) = if c then Complex.exp (I * θ) else Complex.exp (-(I * θ)) := by
  split_ifs <;> simp


/-- interpretation of the entries of an eigenvalue-transformation circuit on the `n`-wire register: emitted gates by their
action, the block encoding and its inverse by two given matrices -/
noncomputable def evtDen (n : ℕ) (U Ui : Matrix (Fin n → Bool) (Fin n → Bool) ℂ) : EvtItem ℝ → Matrix (Fin n → Bool) (Fin n → Bool) ℂ
  | .enc => U
  | .encInv => Ui
  | .gate g => gateMat n g

theorem subDen_evtDen (n : ℕ) (U Ui : Matrix (Fin n → Bool) (Fin n → Bool) ℂ) (pc : Pcps ℝ) (θ : ℝ) :
    subDen pc (evtDen n U Ui) θ = circuitMat n (pcGates pc θ) := rfl

/-! ### what `as_circuit` needs is independent of the angle -/

theorem asCircuit_theta_irrelevant (t t' : ℝ) (proj : List Int) (enc aux : List ℕ) (m : Method) {c : List (GateDesc ℝ)}
    (h : (⟨t, proj, enc, aux, m⟩ : Pcps ℝ).asCircuit = .ok c) :
    ∃ c', (⟨t', proj, enc, aux, m⟩ : Pcps ℝ).asCircuit = .ok c' := by
  simp only [Pcps.asCircuit] at h ⊢
  split_ifs at h with h1 h2
  simp only [h1, h2, if_false]
  cases m with
  | auxiliary =>
    cases aux with
    | nil => simp at h
    | cons a rest => exact ⟨_, rfl⟩
  | cphase =>
    cases enc with
    | nil => simp at h
    | cons e0 rest => exact ⟨_, rfl⟩

theorem asCircuit_setTheta {p : Pcps ℝ} {θ : ℝ} {c : List (GateDesc ℝ)} (h : (p.setTheta θ).asCircuit = .ok c) (θ' : ℝ) :
    ∃ c', (p.setTheta θ').asCircuit = .ok c' := by
  obtain ⟨t, proj, enc, aux, m⟩ := p
  exact asCircuit_theta_irrelevant θ θ' proj enc aux m h

theorem pcGates_ok {p : Pcps ℝ} {θ : ℝ} {c : List (GateDesc ℝ)} (h : (p.setTheta θ).asCircuit = .ok c) (θ' : ℝ) :
    (p.setTheta θ').asCircuit = .ok (pcGates p θ') := by
  obtain ⟨c', hc'⟩ := asCircuit_setTheta h θ'
  simp [pcGates, hc']

/-- a successfully built eigenvalue-transformation circuit has called `as_circuit` of the processing gate successfully -/
theorem evtCircuit_ok_asCircuit {pc : Pcps ℝ} {encAux : List ℕ} {θs : List ℝ} {items : List (EvtItem ℝ)}
    (h : evtCircuit pc encAux (some θs) = .ok items) : ∃ θ c, (pc.setTheta θ).asCircuit = .ok c := by
  unfold evtCircuit at h
  split_ifs at h with hq
  match θs, h with
  | a0 :: rest, h =>
    simp only at h
    split_ifs at h with hpar
    · -- even length ≥ 2: the first loop iteration prepends the processing circuit
      match rest, hpar, h with
      | b :: rest', hpar, h =>
        have hdiv : (a0 :: b :: rest').length / 2 = (rest'.length / 2) + 1 := by simp only [List.length_cons]; omega
        rw [hdiv, List.range'_succ] at h
        simp only [evtCircuitLoop] at h
        cases hb : evtCircuitBody pc (a0 :: b :: rest') 0 [] 0 with
        | error e => simp [hb] at h
        | ok c2 =>
          simp only [evtCircuitBody] at hb
          simp only [Nat.mul_zero, Nat.sub_zero, List.getElem?_cons_zero, Nat.zero_add, List.getElem?_cons_succ] at hb
          cases h1 : evtPrepend pc a0 .encInv [] with
          | error e => simp [h1] at hb
          | ok c1 =>
            unfold evtPrepend at h1
            cases hs : (pc.setTheta a0).asCircuit with
            | error e => simp [hs] at h1
            | ok sub => exact ⟨a0, sub, hs⟩
    · cases h0 : evtPrepend pc a0 .enc [] with
      | error e => simp [h0] at h
      | ok c0 =>
        unfold evtPrepend at h0
        cases hs : (pc.setTheta a0).asCircuit with
        | error e => simp [hs] at h0
        | ok sub => exact ⟨a0, sub, hs⟩

end Qib.Qubitization
