import QibProofs.Lemmas.VqePauli
import QibProofs.Lemmas.VqeCluster
/-!
C20 helper lemmas: the diagonal matrix `numberOp L` of the model (entry = number of occupied sites of the basis state)
*is* the particle-number operator `Σᵢ a†ᵢ aᵢ` of the model's Jordan–Wigner ladder matrices.

The computation is done in bit-function indexing (`creB`), where `a†ᵢ` has the entry `∏ₖ creSite i k (r k) (c k)`, and
transported to flat indices with `bitsEquiv` (site 0 most significant). No property statements here.
-/
open Matrix Complex

namespace Qib.Vqe
open Qib Qib.Pauli VqeLemmas

/-- creation operator on site `i` in bit-function indexing -/
def creB (L i : ℕ) : Matrix (Fin L → Bool) (Fin L → Bool) ℂ :=
  fun r c => ((∏ k : Fin L, creSite i k (r k) (c k) : ℤ) : ℂ)

theorem list_range_prod_int (f : ℕ → ℤ) (n : ℕ) : ((List.range n).map f).prod = ∏ i ∈ Finset.range n, f i := by
  induction n with
  | zero => simp
  | succ n ih => simp [List.range_succ, Finset.prod_range_succ, ih]

theorem bitsEquiv_symm_apply (L : ℕ) (a : Fin (2 ^ L)) (k : Fin L) : (bitsEquiv L).symm a k = bitAt L k a := by
  have h := bitsOfIdx_natOfBits L ((bitsEquiv L).symm a)
  rw [natOfBits_symm] at h
  exact (congrFun h k).symm

theorem toM_cre (L i : ℕ) :
    (cre L i).toM (2 ^ L) = Matrix.reindex (bitsEquiv L) (bitsEquiv L) (creB L i) := by
  ext a b
  rw [cre, Mat.toM_ofFn, Matrix.reindex_apply, Matrix.submatrix_apply, gqOfInts_toC]
  simp only [gi, creB, creEntry, Int.cast_zero, zero_mul, add_zero, bitsEquiv_symm_apply]
  rw [list_range_prod_int, Fin.prod_univ_eq_prod_range (fun k => creSite i k (bitAt L k a) (bitAt L k b)) L]

theorem creSite_sq {i k : ℕ} {r c : Bool} (h : creSite i k r c ≠ 0) : creSite i k r c * creSite i k r c = 1 := by
  unfold creSite at h ⊢
  by_cases h1 : k < i
  · simp only [h1, if_true] at h ⊢
    by_cases hrc : r = c <;> simp_all
  · by_cases h2 : k = i
    · simp only [h2, lt_self_iff_false, if_false, if_true] at h ⊢
      cases r <;> cases c <;> simp_all
    · simp only [h1, h2, if_false] at h ⊢
      by_cases hrc : r = c
      · subst hrc; cases r <;> simp
      · simp_all

/-- the integer entry of `creB` -/
def creBZ (L i : ℕ) (r c : Fin L → Bool) : ℤ := ∏ k : Fin L, creSite i k (r k) (c k)

theorem creBZ_ne_zero {L i : ℕ} {r c : Fin L → Bool} (h : creBZ L i r c ≠ 0) (k : Fin L) :
    ((k : ℕ) ≠ i → r k = c k) ∧ ((k : ℕ) = i → r k = true ∧ c k = false) := by
  have hk : creSite i k (r k) (c k) ≠ 0 := by
    intro h0
    exact h (Finset.prod_eq_zero (Finset.mem_univ k) h0)
  exact creSite_ne_zero hk

theorem creBZ_mul_self {L i : ℕ} {r c : Fin L → Bool} (h : creBZ L i r c ≠ 0) : creBZ L i r c * creBZ L i r c = 1 := by
  unfold creBZ at h ⊢
  rw [← Finset.prod_mul_distrib]
  apply Finset.prod_eq_one
  intro k _
  exact creSite_sq (fun h0 => h (Finset.prod_eq_zero (Finset.mem_univ k) h0))

/-- with site `i` occupied in `r`, the entry towards `r` with site `i` emptied is non-zero -/
theorem creBZ_update_ne_zero {L : ℕ} (i : Fin L) (r : Fin L → Bool) (hr : r i = true) :
    creBZ L i r (Function.update r i false) ≠ 0 := by
  unfold creBZ
  rw [Finset.prod_ne_zero_iff]
  intro k _
  unfold creSite
  by_cases hk : k = i
  · subst hk; simp [hr]
  · have hne : (k : ℕ) ≠ i := fun h => hk (Fin.ext h)
    rw [Function.update_of_ne hk]
    by_cases h1 : (k : ℕ) < i
    · simp [h1]
    · simp only [h1, hne, if_false]
      cases r k <;> simp

/-- `a†ᵢ aᵢ` is the projector on "site `i` occupied" -/
theorem creB_mul_adjoint (L : ℕ) (i : Fin L) :
    creB L i * (creB L i)ᴴ = diagonal fun r => if r i then (1 : ℂ) else 0 := by
  ext r c
  rw [Matrix.mul_apply, Matrix.diagonal_apply]
  simp only [Matrix.conjTranspose_apply]
  have hterm' : ∀ m, creB L i r m * star (creB L i c m) = ((creBZ L i r m * creBZ L i c m : ℤ) : ℂ) := by
    intro m; simp [creB, creBZ]
  simp only [hterm']
  by_cases hrc : r = c
  · subst hrc
    rw [if_pos rfl]
    by_cases hr : r i = true
    · rw [if_pos hr, Finset.sum_eq_single (Function.update r i false)]
      · rw [creBZ_mul_self (creBZ_update_ne_zero i r hr)]; simp
      · intro m _ hm
        by_cases h0 : creBZ L i r m = 0
        · simp [h0]
        · exfalso
          apply hm
          funext k
          by_cases hk : k = i
          · subst hk
            rw [Function.update_self]
            exact ((creBZ_ne_zero h0 k).2 rfl).2
          · rw [Function.update_of_ne hk]
            exact ((creBZ_ne_zero h0 k).1 (fun h => hk (Fin.ext h))).symm
      · intro h; exact absurd (Finset.mem_univ _) h
    · rw [if_neg hr]
      apply Finset.sum_eq_zero
      intro m _
      by_cases h0 : creBZ L i r m = 0
      · simp [h0]
      · exact absurd ((creBZ_ne_zero h0 i).2 rfl).1 hr
  · rw [if_neg hrc]
    apply Finset.sum_eq_zero
    intro m _
    by_cases h1 : creBZ L i r m = 0
    · simp [h1]
    · by_cases h2 : creBZ L i c m = 0
      · simp [h2]
      · exfalso
        apply hrc
        funext k
        by_cases hk : (k : ℕ) = i
        · rw [((creBZ_ne_zero h1 k).2 hk).1, ((creBZ_ne_zero h2 k).2 hk).1]
        · rw [(creBZ_ne_zero h1 k).1 hk, (creBZ_ne_zero h2 k).1 hk]

/-- number of occupied sites of a bit function -/
def countB (L : ℕ) (r : Fin L → Bool) : ℕ := ∑ k : Fin L, (r k).toNat

theorem sum_creB (L : ℕ) :
    ∑ i : Fin L, creB L i * (creB L i)ᴴ = diagonal fun r => ((countB L r : ℕ) : ℂ) := by
  simp only [creB_mul_adjoint]
  ext r c
  rw [Matrix.sum_apply]
  simp only [Matrix.diagonal_apply]
  by_cases hrc : r = c
  · subst hrc
    simp only [if_true, countB, Nat.cast_sum]
    refine Finset.sum_congr rfl fun k _ => ?_
    cases r k <;> simp
  · simp [hrc]

theorem wt_eq_countB (L : ℕ) (b : Fin (2 ^ L)) : wt L b = (countB L ((bitsEquiv L).symm b) : ℤ) := by
  simp only [wt, bitCount, countB, bitsEquiv_symm_apply, list_range_sum_nat]
  rw [Fin.sum_univ_eq_sum_range (fun k => (bitAt L k b).toNat) L]

/-- the model's number operator is `Σᵢ a†ᵢ aᵢ` of the model's ladder matrices -/
theorem numberOp_eq_sum (L : ℕ) :
    (numberOp L).toM (2 ^ L) = ∑ i : Fin L, (cre L i).toM (2 ^ L) * (ann L i).toM (2 ^ L) := by
  have hterm : ∀ i : Fin L, (cre L i).toM (2 ^ L) * (ann L i).toM (2 ^ L) =
      Matrix.reindex (bitsEquiv L) (bitsEquiv L) (creB L i * (creB L i)ᴴ) := by
    intro i
    rw [toM_ann, toM_cre]
    simp only [Matrix.reindex_apply, Matrix.conjTranspose_submatrix, Matrix.submatrix_mul_equiv]
  simp only [hterm]
  rw [toM_numberOp]
  ext a b
  rw [Matrix.sum_apply]
  simp only [Matrix.reindex_apply, Matrix.submatrix_apply]
  rw [← Matrix.sum_apply, sum_creB, Matrix.diagonal_apply, Matrix.diagonal_apply]
  by_cases hab : a = b
  · subst hab
    simp [wt_eq_countB]
  · have : (bitsEquiv L).symm a ≠ (bitsEquiv L).symm b := fun h => hab ((bitsEquiv L).symm.injective h)
    simp [hab, this]

end Qib.Vqe
