import QibProofs.Lemmas.CircuitNetTotalJoin
import Mathlib.Data.List.Perm.Subperm
/-!
Helper lemmas for C05 (totality of `Circuit.as_tensornet`), part 3: the slack of every bond right before the join
loop of `merge` (first operand: as assumed; second operand: every bond refers to a real tensor, which survives the two
renaming loops), and the assembled statements: (1) `merge` returns – its internal `assert` cannot fire – when every bond
of the first operand has a reference beyond the joined axes and every bond of the second refers to a real tensor;
(2) the slack of the bonds of the result. No property statements.
-/
namespace Qib.TNet

/-- every bond refers to a tensor other than `vid` (the virtual one) -/
def RealRef (net : Net) (vid : Int) : Prop := ∀ e ∈ net.bonds, ∃ t ∈ e.2.tids, t ≠ vid

theorem realRef_renameTensor {net net' : Net} {cur new vid : Int} (hw : WF0 net)
    (hok : renameTensor net cur new = .ok net') (hvid : vid ∈ dkeys net.tensors) (hQ : RealRef net vid) :
    RealRef net' (rep cur new vid) := by
  obtain ⟨T, _, hnew, rfl⟩ := renameTensor_spec hw hok
  intro e he
  simp only [relBonds, List.mem_map] at he
  obtain ⟨e0, he0, rfl⟩ := he
  obtain ⟨t, ht, hne⟩ := hQ e0 he0
  have htk : t ∈ dkeys net.tensors := hw.mem_tensor_keys he0 ht
  refine ⟨rep cur new t, ?_, ?_⟩
  · simp only
    rw [mem_isort]
    exact List.mem_map_of_mem ht
  · intro e
    exact hne (rep_inj_on (fun e1 => hnew (by rw [← e1]; exact htk)) (fun e1 => hnew (by rw [← e1]; exact hvid)) e)

theorem realRef_renameBond {net net' : Net} {cur new vid : Int} (hw : WF0 net)
    (hok : renameBond net cur new = .ok net') (hQ : RealRef net vid) : RealRef net' vid := by
  obtain ⟨B, hB, _, rfl⟩ := renameBond_spec hw hok
  intro e he
  simp only [List.mem_append, List.mem_singleton] at he
  rcases he with he | rfl
  · exact hQ e (mem_dpop.mp he).1
  · exact hQ (cur, B) (mem_of_dget_eq_some _ hB)

theorem count_lt_length_of_ne {l : List Int} {x t : Int} (ht : t ∈ l) (hne : t ≠ x) : l.count x + 1 ≤ l.length := by
  have h1 := List.count_le_length (a := x) (l := l)
  have h2 : l.count x ≠ l.length := by
    intro e
    exact hne (List.count_eq_length.mp e t ht).symm
  omega

theorem length_eraseN_ge (x : Int) (n : Nat) (l : List Int) : l.length ≤ (eraseN x n l).length + n := by
  induction n generalizing l with
  | zero => simp [eraseN]
  | succ n ih =>
    have := ih (l.erase x)
    have h2 : l.length ≤ (l.erase x).length + 1 := by rw [List.length_erase]; split <;> omega
    simp only [eraseN]
    omega

theorem dget_relBonds (ρ : Int → Int) (bs : List (Int × SBond)) (k : Int) :
    dget (relBonds ρ bs) k = (dget bs k).map (fun B => { B with tids := isort (B.tids.map ρ) }) := by
  unfold relBonds
  rw [dget_map_val]

/-- **the slack bookkeeping up to the end of the join loop.** `Wa`/`Wb`: positions of open axes of the first/second
operand; bonds of the first operand have slack `ka` with respect to `Wa` (and slack 1 unless they carry a joined axis),
every bond of the second operand refers to a real tensor. -/
theorem merge_js_final {a b : Net} {j : List (Int × Int)} {tor bor : List Int} (ha : WF a) (hb : WF b)
    (htor : tor.Perm (sharedTids a b)) (hbor : bor.Perm (sharedBids a b))
    (hdim : ∀ va vb, dget a.tensors (-1) = some va → dget b.tensors (-1) = some vb →
      ∀ ja ∈ j, va.shape[ja.1.toNat]? = vb.shape[ja.2.toNat]?)
    {va vb : STensor} (hva : dget a.tensors (-1) = some va) (hvb : dget b.tensors (-1) = some vb)
    (hrange : ∀ ja ∈ j, 0 ≤ ja.1 ∧ ja.1 < va.shape.length ∧ 0 ≤ ja.2 ∧ ja.2 < vb.shape.length)
    {o1 o2 m1 m2 : Net} {tmpOpen n1 n2 : Int} {toa1 : STensor} {am : List Nat}
    (hf1 : tor.foldlM renTStep (b, -1, maxKey (dkeys a.tensors ++ dkeys b.tensors) + 1) = .ok (o1, tmpOpen, n1))
    (hf2 : bor.foldlM renBStep (o1, maxKey (dkeys a.bonds ++ dkeys o1.bonds) + 1) = .ok (o2, n2))
    (hm1 : mergeTensors ⟨dupdate a.tensors o2.tensors, dupdate a.bonds o2.bonds⟩ (-1) tmpOpen = .ok m1)
    (htoa1 : dget m1.tensors (-1) = some toa1)
    (hf3 : (joinNat j).foldlM (joinStep va.shape.length) (m1, List.range toa1.shape.length) = .ok (m2, am))
    (hrb : RealRef b (-1)) (Wa Wb : List Nat) (ka : Nat) (hWa : ∀ d ∈ Wa, d < va.bids.length)
    (hWb : ∀ d ∈ Wb, d < vb.bids.length) (hWbn : Wb.Nodup)
    (ha5 : ∀ e ∈ a.bonds, hits va.bids Wa e.1 + ka ≤ e.2.tids.length)
    (ha1 : ∀ e ∈ a.bonds, hits va.bids Wa e.1 + 1 ≤ e.2.tids.length ∨ ∃ ja ∈ j, va.bids[ja.1.toNat]? = some e.1) :
    ∃ toa2, dget m2.tensors (-1) = some toa2 ∧ toa2.bids.length = va.bids.length + vb.bids.length ∧
      WF m2 ∧ toa2.shape = va.shape ++ vb.shape ∧
      JS (dkeys a.bonds) va.shape.length (Wa ++ Wb.map (va.shape.length + ·)) ka m2 toa2.bids [] (joinNat j).reverse := by
  have pre := merge_prejoin ha hb htor hbor hf1 hf2 hm1 htoa1
  obtain ⟨w2, disjT, disjB, tmpne, vb2, hvb2, hm1'⟩ := merge_predata ha hb htor hbor hf1 hf2 hm1
  obtain ⟨T, β, hT, hTb, _⟩ := merge_track_bids ha hb htor hvb hf1 hf2
  rw [hvb2] at hT; cases hT
  -- every bond of the renamed copy refers to a real tensor
  obtain ⟨w1, _, _, _, _, _⟩ := renT_fold (st := (b, -1, _)) hb.toWF0 hf1
  simp only at w1
  have hmaxT : ∀ k ∈ dkeys a.tensors ++ dkeys b.tensors, k ≤ maxKey (dkeys a.tensors ++ dkeys b.tensors) :=
    fun k hk => le_maxKey hk
  have hN0 : (0 : Int) ≤ maxKey (dkeys a.tensors ++ dkeys b.tensors) + 1 := by
    have := hmaxT (-1) (List.mem_append_left _ ha.virt); omega
  have htrack := renT_fold_track (fun net vid => RealRef net vid)
    (fun net net' cur new vid hw hok hvid hQ => realRef_renameTensor hw hok hvid hQ)
    (st := (b, -1, _)) (N0 := maxKey (dkeys a.tensors ++ dkeys b.tensors) + 1) hN0
    (by
      intro t ht
      have := hmaxT t (List.mem_append_left _ (mem_sharedTids.mp (htor.mem_iff.mp ht)).1); omega)
    (le_refl _)
    (by intro k hk; have := hmaxT k (List.mem_append_right _ hk); simp only; omega)
    hb.virt (Or.inl rfl) hb.toWF0 hrb hf1
  simp only at htrack
  have hrr2 : RealRef o2 tmpOpen := renB_fold_track (fun net => RealRef net tmpOpen)
    (fun net net' cur new hw hok hQ => realRef_renameBond hw hok hQ) (st := (o1, _)) w1 htrack.1 hf2
  -- the network right before the joins
  have wu := union_wf0 ha.toWF0 w2 disjT disjB
  obtain ⟨T1, T2, hT1, hT2, heq⟩ := mergeTensors_spec wu tmpne hm1'
  have hmvb := mem_of_dget_eq_some _ hvb2
  have htmpA : tmpOpen ∉ dkeys a.tensors := disjT _ (mem_dkeys_of_mem hmvb)
  have hT1' : T1 = va := by
    have := dget_append_left a.tensors o2.tensors hva
    simp only at hT1
    rw [this] at hT1; exact (Option.some.inj hT1).symm
  have hT2' : T2 = vb2 := by
    have := dget_append_right a.tensors o2.tensors htmpA
    simp only at hT2
    rw [this, hvb2] at hT2; exact (Option.some.inj hT2).symm
  have htoa : toa1.bids = va.bids ++ vb2.bids := by
    have hv1 : dget m1.tensors (-1) = some (catTensor va vb2) := by
      rw [heq]
      simp only
      rw [dget_dmodify, dget_dpop_ne _ tmpne, hT1, hT1', hT2']
      simp
    rw [htoa1] at hv1
    rw [Option.some.inj hv1]
    simp only [catTensor]
  have hsha : va.shape.length = va.bids.length := ha.tshape _ (mem_of_dget_eq_some _ hva)
  have hshb : vb.shape.length = vb.bids.length := hb.tshape _ (mem_of_dget_eq_some _ hvb)
  have hlen2 : vb2.bids.length = vb.bids.length := by rw [hTb, List.length_map]
  have hbonds : m1.bonds = relBonds (rep tmpOpen (-1)) (a.bonds ++ o2.bonds) := by rw [heq]
  have hAkeys : ∀ x ∈ va.bids, x ∈ dkeys a.bonds :=
    fun x hx => ha.toWF0.mem_bond_keys (mem_of_dget_eq_some _ hva) hx
  have hBkeys : ∀ y ∈ vb2.bids, y ∈ dkeys o2.bonds := fun y hy => w2.mem_bond_keys hmvb hy
  -- the bonds of `m1`
  have hdgA : ∀ c ∈ dkeys a.bonds, ∀ B, dget m1.bonds c = some B →
      ∃ B0, dget a.bonds c = some B0 ∧ B.tids.length = B0.tids.length := by
    intro c hc B hB
    rw [hbonds, dget_relBonds] at hB
    obtain ⟨B0, hB0⟩ := Option.isSome_iff_exists.mp ((dget_isSome_iff _ _).mpr hc)
    rw [dget_append_left _ _ hB0] at hB
    simp only [Option.map_some, Option.some.injEq] at hB
    subst hB
    exact ⟨B0, hB0, by simp [length_isort]⟩
  have hdgB : ∀ c, c ∉ dkeys a.bonds → ∀ B, dget m1.bonds c = some B →
      ∃ B0, dget o2.bonds c = some B0 ∧ B.tids.length = B0.tids.length := by
    intro c hc B hB
    rw [hbonds, dget_relBonds, dget_append_right _ _ hc] at hB
    cases hB0 : dget o2.bonds c with
    | none => rw [hB0] at hB; cases hB
    | some B0 =>
      rw [hB0] at hB
      simp only [Option.map_some, Option.some.injEq] at hB
      subst hB
      exact ⟨B0, rfl, by simp [length_isort]⟩
  -- counting the open legs of `m1`
  have hhits : ∀ c, hits toa1.bids (Wa ++ Wb.map (va.shape.length + ·)) c = hits va.bids Wa c + hits vb2.bids Wb c := by
    intro c
    rw [htoa, hits_append, hits_append_left _ _ hWa, hsha, hits_append_right]
  have hWb2 : ∀ d ∈ Wb, d < vb2.bids.length := by rw [hlen2]; exact hWb
  have hzeroA : ∀ c ∈ dkeys a.bonds, hits vb2.bids Wb c = 0 := by
    intro c hc
    apply hits_eq_zero
    intro d hd e
    have hd' := hWb2 d hd
    rw [List.getElem?_eq_getElem hd'] at e
    simp only [Option.getD_some] at e
    exact disjB _ (hBkeys _ (List.getElem_mem hd')) (e ▸ hc)
  have hzeroB : ∀ c, c ∉ dkeys a.bonds → hits va.bids Wa c = 0 := by
    intro c hc
    apply hits_eq_zero
    intro d hd e
    have hd' := hWa d hd
    rw [List.getElem?_eq_getElem hd'] at e
    simp only [Option.getD_some] at e
    exact hc (e ▸ hAkeys _ (List.getElem_mem hd'))
  -- the invariant before the first join
  have hjs0 : JS (dkeys a.bonds) va.shape.length (Wa ++ Wb.map (va.shape.length + ·)) ka m1 toa1.bids (joinNat j) [] := by
    refine ⟨?_, ?_, ?_, ?_, ?_, by simp⟩
    · intro p c hp hc
      rw [htoa, List.getElem?_append_left (by omega)] at hc
      exact hAkeys c (List.mem_of_getElem? hc)
    · intro q c hq hc hcA
      rw [htoa, List.getElem?_append_right (by omega)] at hc
      exact absurd hcA (disjB _ (hBkeys c (List.mem_of_getElem? hc)))
    · intro c hc B hB
      obtain ⟨B0, hB0, hl⟩ := hdgA c hc B hB
      rw [hhits, hzeroA c hc, hl]
      exact ha5 (c, B0) (mem_of_dget_eq_some _ hB0)
    · intro c hc B hB
      obtain ⟨B0, hB0, hl⟩ := hdgB c hc B hB
      rw [hhits, hzeroB c hc, hl, Nat.zero_add]
      have hm := w2.mult hvb2 hB0
      obtain ⟨t, ht, hne⟩ := hrr2 (c, B0) (mem_of_dget_eq_some _ hB0)
      have h1 := count_lt_length_of_ne ht hne
      have h2 := hits_le_count hWbn hWb2 c
      simp only at h1
      omega
    · intro c hc
      obtain ⟨B0, hB0⟩ := Option.isSome_iff_exists.mp ((dget_isSome_iff _ _).mpr hc)
      rcases ha1 (c, B0) (mem_of_dget_eq_some _ hB0) with h1 | ⟨ja, hja, h1⟩
      · left
        intro B hB
        obtain ⟨B0', hB0', hl⟩ := hdgA c hc B hB
        rw [hB0] at hB0'; cases hB0'
        rw [hhits, hzeroA c hc, hl]
        exact h1
      · right
        refine ⟨(ja.1.toNat, ja.2.toNat), List.mem_map.mpr ⟨ja, hja, rfl⟩, ?_⟩
        simp only at h1 ⊢
        have : ja.1.toNat < va.bids.length := by
          by_contra hc'
          rw [List.getElem?_eq_none (by omega)] at h1; cases h1
        rw [htoa, List.getElem?_append_left this]
        exact h1
  -- the join loop
  have hS := pre.shape va vb hva hvb
  have hdimS : ∀ ja ∈ joinNat j, toa1.shape[ja.1]? = toa1.shape[va.shape.length + ja.2]? := by
    intro ja hja
    obtain ⟨jz, hjz, rfl⟩ := List.mem_map.mp hja
    obtain ⟨h1, h2, h3, h4⟩ := hrange jz hjz
    have hp : jz.1.toNat < va.shape.length := by omega
    rw [hS, List.getElem?_append_left hp, List.getElem?_append_right (by omega)]
    simp only [Nat.add_sub_cancel_left]
    exact hdim va vb hva hvb jz hjz
  have hj1 : JInv toa1.shape m1 := ⟨pre.wf, toa1, pre.virt, rfl⟩
  have hl1 : toa1.bids.length = va.bids.length + vb.bids.length := by rw [htoa, List.length_append, hlen2]
  have hWall : ∀ d ∈ Wa ++ Wb.map (va.shape.length + ·), d < toa1.bids.length := by
    intro d hd
    rw [hl1]
    rcases List.mem_append.mp hd with h | h
    · have := hWa d h; omega
    · obtain ⟨x, hx, rfl⟩ := List.mem_map.mp h
      have := hWb x hx; omega
  have hjlt : ∀ ja ∈ joinNat j, ja.1 < va.shape.length := by
    intro ja hja
    obtain ⟨jz, hjz, rfl⟩ := List.mem_map.mp hja
    obtain ⟨h1, h2, _, _⟩ := hrange jz hjz
    simp only; omega
  obtain ⟨toa2, hv2, hl2, hjs2⟩ := join_fold_js (st := (m1, _)) hj1 hdimS pre.virt hWall hjlt hjs0 hf3
  obtain ⟨⟨wf2, toa2', hv2', hS2⟩, _, _⟩ := join_fold_inv (st := (m1, _)) hj1 hdimS hf3
  simp only at hv2 hv2' wf2
  rw [hv2] at hv2'; cases hv2'
  refine ⟨toa2, hv2, by rw [hl2, hl1], wf2, by rw [hS2, hS], ?_⟩
  simpa using hjs2

end Qib.TNet
