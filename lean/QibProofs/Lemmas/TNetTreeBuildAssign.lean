import QibProofs.Lemmas.TNetTreeBuildScan
/-!
Helper lemmas for C07, part 16 (tree builder, 2): the label assignment of `_build_contraction_tree` – one entry of a
bond map (`assignStep_spec`), the entries after the first (`assignTail_spec`) and one whole bond (`assignBond_spec`):
all legs of the bond receive the label of its first leg, the other labels of the bond leave the output list, the first
one too iff the bond is fully contracted (no property statements).
-/
namespace Qib.TNet

/-- the label currently on a leg of one of the two children -/
def lbl (st : IdxState) : Side × Nat → Nat
  | (.L, k) => st.idxL[k]?.getD 0
  | (.R, k) => st.idxR[k]?.getD 0

theorem removeFirst_ok {l l' : List Nat} {x : Nat} (h : removeFirst l x = .ok l') : l' = l.erase x := by
  unfold removeFirst at h
  split at h
  · cases h; rfl
  · cases h

theorem lbl_setL (st : IdxState) (k J : Nat) (io : List Nat) (oj : Option Nat) (hk : k < st.idxL.length) (e' : Side × Nat) :
    lbl { idxL := st.idxL.set k J, idxR := st.idxR, idxout := io, j := oj } e' = if e' = (Side.L, k) then J else lbl st e' := by
  obtain ⟨s', k'⟩ := e'
  cases s' with
  | L =>
    by_cases hkk : k' = k
    · subst hkk; simp [lbl, hk]
    · have : ¬ k = k' := fun e => hkk e.symm
      simp [lbl, hkk, this]
  | R => simp [lbl]

theorem lbl_setR (st : IdxState) (k J : Nat) (io : List Nat) (oj : Option Nat) (hk : k < st.idxR.length) (e' : Side × Nat) :
    lbl { idxL := st.idxL, idxR := st.idxR.set k J, idxout := io, j := oj } e' = if e' = (Side.R, k) then J else lbl st e' := by
  obtain ⟨s', k'⟩ := e'
  cases s' with
  | R =>
    by_cases hkk : k' = k
    · subst hkk; simp [lbl, hk]
    · have : ¬ k = k' := fun e => hkk e.symm
      simp [lbl, hkk, this]
  | L => simp [lbl]

/-- **one entry of a bond map** -/
theorem assignStep_spec {fully : Bool} {st st' : IdxState} {e : Side × Nat}
    (h : assignStep fully st (some e) = .ok st') :
    st'.idxL.length = st.idxL.length ∧ st'.idxR.length = st.idxR.length ∧
    (∀ J, st.j = some J → st'.j = some J ∧ (∀ e', lbl st' e' = if e' = e then J else lbl st e') ∧
      st'.idxout = if lbl st e ∈ st.idxout ∧ lbl st e ≠ J then st.idxout.erase (lbl st e) else st.idxout) ∧
    (st.j = none → st'.j = some (lbl st e) ∧ (∀ e', lbl st' e' = lbl st e') ∧
      st'.idxout = if fully then st.idxout.erase (lbl st e) else st.idxout) := by
  obtain ⟨side, k⟩ := e
  unfold assignStep at h
  simp only [bind, Except.bind] at h
  split at h
  swap
  · simp [throw, throwThe, MonadExceptOf.throw] at h
  rename_i lk hlk
  have hlbl : lbl st (side, k) = lk := by
    cases side <;> simp [lbl] at hlk ⊢ <;> simp [hlk]
  have hkL : side = Side.L → k < st.idxL.length := by
    rintro rfl
    by_contra hc; simp only at hlk; rw [List.getElem?_eq_none (by omega)] at hlk; cases hlk
  have hkR : side = Side.R → k < st.idxR.length := by
    rintro rfl
    by_contra hc; simp only at hlk; rw [List.getElem?_eq_none (by omega)] at hlk; cases hlk
  cases hj : st.j with
  | some J =>
    rw [hj] at h
    simp only at h
    -- the new output list
    have key : ∃ io, io = (if lbl st (side, k) ∈ st.idxout ∧ lbl st (side, k) ≠ J then st.idxout.erase (lbl st (side, k))
        else st.idxout) ∧ (match side with
          | Side.L => (pure { idxL := st.idxL.set k J, idxR := st.idxR, idxout := io, j := some J } : Except Err IdxState)
          | Side.R => pure { idxL := st.idxL, idxR := st.idxR.set k J, idxout := io, j := some J }) = .ok st' := by
      rw [hlbl]
      by_cases hc : (st.idxout.contains lk && lk != J) = true
      · rw [if_pos hc] at h
        cases hrf : removeFirst st.idxout lk with
        | error err => rw [hrf] at h; cases h
        | ok io =>
          rw [hrf] at h
          simp only at h
          simp only [Bool.and_eq_true, List.contains_iff_mem, bne_iff_ne, ne_eq] at hc
          exact ⟨io, by rw [if_pos hc]; exact removeFirst_ok hrf, h⟩
      · rw [if_neg hc] at h
        simp only [pure, Except.pure] at h
        simp only [Bool.and_eq_true, List.contains_iff_mem, bne_iff_ne, ne_eq] at hc
        exact ⟨st.idxout, by rw [if_neg hc], h⟩
    obtain ⟨io, hio, hst⟩ := key
    cases side with
    | L =>
      simp only [pure, Except.pure, Except.ok.injEq] at hst
      subst hst
      refine ⟨by simp, rfl, fun J' hJ' => ?_, fun hn => by cases hn⟩
      cases hJ'
      exact ⟨rfl, fun e' => lbl_setL st k J io (some J) (hkL rfl) e', hio⟩
    | R =>
      simp only [pure, Except.pure, Except.ok.injEq] at hst
      subst hst
      refine ⟨rfl, by simp, fun J' hJ' => ?_, fun hn => by cases hn⟩
      cases hJ'
      exact ⟨rfl, fun e' => lbl_setR st k J io (some J) (hkR rfl) e', hio⟩
  | none =>
    rw [hj] at h
    simp only at h
    have key : ∃ io, io = (if fully then st.idxout.erase (lbl st (side, k)) else st.idxout) ∧
        st' = { st with idxout := io, j := some lk } := by
      rw [hlbl]
      by_cases hf : fully = true
      · rw [if_pos hf] at h
        cases hrf : removeFirst st.idxout lk with
        | error err => rw [hrf] at h; cases h
        | ok io =>
          rw [hrf] at h
          simp only [pure, Except.pure, Except.ok.injEq] at h
          exact ⟨io, by rw [if_pos hf]; exact removeFirst_ok hrf, h.symm⟩
      · rw [if_neg hf] at h
        simp only [pure, Except.pure, Except.ok.injEq] at h
        exact ⟨st.idxout, by rw [if_neg hf], h.symm⟩
    obtain ⟨io, hio, rfl⟩ := key
    refine ⟨rfl, rfl, ?_, fun _ => ⟨by rw [hlbl], fun e' => ?_, hio⟩⟩
    · intro J hJ; cases hJ
    · obtain ⟨s', k'⟩ := e'
      cases s' <;> simp [lbl]

end Qib.TNet

namespace Qib.TNet

theorem assignStep_none (fully : Bool) (st : IdxState) : assignStep fully st none = .ok st := rfl

/-- the entries of a bond map after the first one (the bond's label `J` is known) -/
theorem assignTail_spec (fully : Bool) : ∀ (bm : BMap) (cur st' : IdxState) (J : Nat), cur.j = some J →
    bm.foldlM (assignStep fully) cur = .ok st' →
    st'.idxL.length = cur.idxL.length ∧ st'.idxR.length = cur.idxR.length ∧ st'.j = some J ∧
    (∀ e', lbl st' e' = if some e' ∈ bm then J else lbl cur e') ∧
    st'.idxout.Sublist cur.idxout ∧
    (cur.idxout.Nodup → ∀ l, l ∈ st'.idxout ↔ l ∈ cur.idxout ∧ ¬ (l ≠ J ∧ ∃ e, some e ∈ bm ∧ lbl cur e = l)) := by
  intro bm
  induction bm with
  | nil =>
    intro cur st' J hj h
    simp only [List.foldlM_nil, pure, Except.pure, Except.ok.injEq] at h
    subst h
    exact ⟨rfl, rfl, hj, by simp, List.Sublist.refl _, by simp⟩
  | cons x rest ih =>
    intro cur st' J hj h
    rw [List.foldlM_cons] at h
    cases x with
    | none =>
      rw [assignStep_none] at h
      obtain ⟨h1, h2, h3, h4, h5, h6⟩ := ih cur st' J hj h
      refine ⟨h1, h2, h3, ?_, h5, ?_⟩
      · intro e'; rw [h4 e']; simp
      · intro hn l; rw [h6 hn l]; simp
    | some e =>
      cases hs : assignStep fully cur (some e) with
      | error err => rw [hs] at h; cases h
      | ok cur' =>
        rw [hs] at h
        obtain ⟨a1, a2, a3, _⟩ := assignStep_spec hs
        obtain ⟨b1, b2, b3⟩ := a3 J hj
        obtain ⟨h1, h2, h3, h4, h5, h6⟩ := ih cur' st' J b1 h
        have hsub : cur'.idxout.Sublist cur.idxout := by
          rw [b3]; split
          · exact List.erase_sublist
          · exact List.Sublist.refl _
        refine ⟨by rw [h1, a1], by rw [h2, a2], h3, ?_, h5.trans hsub, ?_⟩
        · intro e'
          rw [h4 e', b2 e']
          by_cases he : e' = e
          · subst he; simp
          · by_cases hr : some e' ∈ rest
            · simp [hr]
            · simp [hr, he]
        · intro hn l
          have hn' : cur'.idxout.Nodup := hn.sublist hsub
          rw [h6 hn' l]
          have hmem : l ∈ cur'.idxout ↔ l ∈ cur.idxout ∧ ¬ (l = lbl cur e ∧ lbl cur e ≠ J) := by
            rw [b3]
            by_cases hc : lbl cur e ∈ cur.idxout ∧ lbl cur e ≠ J
            · rw [if_pos hc, hn.mem_erase_iff]
              constructor
              · rintro ⟨h1, h2⟩; exact ⟨h2, fun h => h1 h.1⟩
              · rintro ⟨h1, h2⟩; exact ⟨fun h => h2 ⟨h, hc.2⟩, h1⟩
            · rw [if_neg hc]
              constructor
              · intro h1; exact ⟨h1, fun h => hc ⟨h.1 ▸ h1, h.2⟩⟩
              · exact fun h => h.1
          rw [hmem]
          by_cases hlJ : l = J
          · subst hlJ
            constructor
            · rintro ⟨⟨h1, _⟩, _⟩; exact ⟨h1, fun h => h.1 rfl⟩
            · rintro ⟨h1, _⟩; exact ⟨⟨h1, fun h => h.2 h.1.symm⟩, fun h => h.1 rfl⟩
          · have hex : (∃ e2, some e2 ∈ rest ∧ lbl cur' e2 = l) ↔ ∃ e2, some e2 ∈ rest ∧ e2 ≠ e ∧ lbl cur e2 = l := by
              constructor
              · rintro ⟨e2, h1, h2⟩
                rw [b2 e2] at h2
                by_cases he : e2 = e
                · rw [if_pos he] at h2; exact absurd h2.symm hlJ
                · rw [if_neg he] at h2; exact ⟨e2, h1, he, h2⟩
              · rintro ⟨e2, h1, he, h2⟩
                exact ⟨e2, h1, by rw [b2 e2, if_neg he]; exact h2⟩
            rw [hex]
            constructor
            · rintro ⟨⟨h1, h2⟩, h3⟩
              refine ⟨h1, ?_⟩
              rintro ⟨_, e2, he2, hl2⟩
              rcases List.mem_cons.mp he2 with he2 | he2
              · cases he2
                exact h2 ⟨hl2.symm, by rw [hl2]; exact hlJ⟩
              · by_cases hee : e2 = e
                · subst hee; exact h2 ⟨hl2.symm, by rw [hl2]; exact hlJ⟩
                · exact h3 ⟨hlJ, e2, he2, hee, hl2⟩
            · rintro ⟨h1, h2⟩
              refine ⟨⟨h1, ?_⟩, ?_⟩
              · rintro ⟨h3, _⟩
                exact h2 ⟨hlJ, e, List.mem_cons_self, h3.symm⟩
              · rintro ⟨_, e2, he2, _, hl2⟩
                exact h2 ⟨hlJ, e2, List.mem_cons_of_mem _ he2, hl2⟩

end Qib.TNet

namespace Qib.TNet

/-- what one bond does to the labels and the output list; `J` is the label of the first entry -/
def BondEffect (fully : Bool) (bm : BMap) (cur st' : IdxState) (e1 : Side × Nat) : Prop :=
  (∀ e', lbl st' e' = if some e' ∈ bm then lbl cur e1 else lbl cur e') ∧
  st'.idxout.Sublist cur.idxout ∧
  (cur.idxout.Nodup → ∀ l, l ∈ st'.idxout ↔ l ∈ cur.idxout ∧
    ¬ ((fully = true ∧ l = lbl cur e1) ∨ (l ≠ lbl cur e1 ∧ ∃ e, some e ∈ bm ∧ lbl cur e = l)))

theorem assignHead_spec (fully : Bool) : ∀ (bm : BMap) (cur st' : IdxState), cur.j = none →
    bm.foldlM (assignStep fully) cur = .ok st' →
    st'.idxL.length = cur.idxL.length ∧ st'.idxR.length = cur.idxR.length ∧
    (bm.findSome? id = none → (∀ e', lbl st' e' = lbl cur e') ∧ st'.idxout = cur.idxout) ∧
    (∀ e1, bm.findSome? id = some e1 → BondEffect fully bm cur st' e1) := by
  intro bm
  induction bm with
  | nil =>
    intro cur st' _ h
    simp only [List.foldlM_nil, pure, Except.pure, Except.ok.injEq] at h
    subst h
    exact ⟨rfl, rfl, fun _ => ⟨fun _ => rfl, rfl⟩, fun e1 he => by simp at he⟩
  | cons x rest ih =>
    intro cur st' hj h
    rw [List.foldlM_cons] at h
    cases x with
    | none =>
      rw [assignStep_none] at h
      obtain ⟨h1, h2, h3, h4⟩ := ih cur st' hj h
      refine ⟨h1, h2, fun hf => h3 (by simpa using hf), fun e1 he => ?_⟩
      obtain ⟨k1, k2, k3⟩ := h4 e1 (by simpa using he)
      refine ⟨fun e' => by rw [k1 e']; simp, k2, fun hn l => ?_⟩
      rw [k3 hn l]; simp
    | some e =>
      cases hs : assignStep fully cur (some e) with
      | error err => rw [hs] at h; cases h
      | ok cur' =>
        rw [hs] at h
        obtain ⟨a1, a2, _, a4⟩ := assignStep_spec hs
        obtain ⟨b1, b2, b3⟩ := a4 hj
        obtain ⟨h1, h2, h3, h4, h5, h6⟩ := assignTail_spec fully rest cur' st' (lbl cur e) b1 h
        refine ⟨by rw [h1, a1], by rw [h2, a2], fun hf => by simp at hf, fun e1 he => ?_⟩
        have he1 : e1 = e := by simpa using he.symm
        subst he1
        have hsub : cur'.idxout.Sublist cur.idxout := by
          rw [b3]; split
          · exact List.erase_sublist
          · exact List.Sublist.refl _
        refine ⟨fun e' => ?_, h5.trans hsub, fun hn l => ?_⟩
        · rw [h4 e', b2 e']
          by_cases he' : e' = e1
          · subst he'; simp
          · by_cases hr : some e' ∈ rest
            · simp [hr]
            · simp [hr, he']
        · have hn' : cur'.idxout.Nodup := hn.sublist hsub
          rw [h6 hn' l]
          have hmem : l ∈ cur'.idxout ↔ l ∈ cur.idxout ∧ ¬ (fully = true ∧ l = lbl cur e1) := by
            rw [b3]
            by_cases hf : fully = true
            · rw [if_pos hf, hn.mem_erase_iff]
              constructor
              · rintro ⟨h1, h2⟩; exact ⟨h2, fun h => h1 h.2⟩
              · rintro ⟨h1, h2⟩; exact ⟨fun h => h2 ⟨hf, h⟩, h1⟩
            · rw [if_neg hf]
              constructor
              · intro h1; exact ⟨h1, fun h => hf h.1⟩
              · exact fun h => h.1
          rw [hmem]
          have hex : (∃ e2, some e2 ∈ rest ∧ lbl cur' e2 = l) ↔ ∃ e2, some e2 ∈ rest ∧ lbl cur e2 = l := by
            constructor
            · rintro ⟨e2, h1, h2⟩; exact ⟨e2, h1, by rw [← b2 e2]; exact h2⟩
            · rintro ⟨e2, h1, h2⟩; exact ⟨e2, h1, by rw [b2 e2]; exact h2⟩
          rw [hex]
          constructor
          · rintro ⟨⟨h1, h2⟩, h3⟩
            refine ⟨h1, ?_⟩
            rintro (hh | ⟨hne, e2, he2, hl2⟩)
            · exact h2 hh
            · rcases List.mem_cons.mp he2 with he2 | he2
              · cases he2; exact hne hl2.symm
              · exact h3 ⟨hne, e2, he2, hl2⟩
          · rintro ⟨h1, h2⟩
            refine ⟨⟨h1, fun hh => h2 (Or.inl hh)⟩, ?_⟩
            rintro ⟨hne, e2, he2, hl2⟩
            exact h2 (Or.inr ⟨hne, e2, List.mem_cons_of_mem _ he2, hl2⟩)

/-- **one bond of the label assignment** -/
theorem assignBond_spec {st st' : IdxState} {bm : BMap} (h : assignBond st bm = .ok st') :
    st'.idxL.length = st.idxL.length ∧ st'.idxR.length = st.idxR.length ∧
    (bm.findSome? id = none → (∀ e', lbl st' e' = lbl st e') ∧ st'.idxout = st.idxout) ∧
    (∀ e1, bm.findSome? id = some e1 → BondEffect (bm.all Option.isSome) bm st st' e1) := by
  unfold assignBond at h
  simp only [bind, Except.bind] at h
  split at h
  · cases h
  rename_i st2 hst2
  simp only [pure, Except.pure, Except.ok.injEq] at h
  subst h
  obtain ⟨h1, h2, h3, h4⟩ := assignHead_spec (bm.all Option.isSome) bm { st with j := none } st2 rfl hst2
  exact ⟨h1, h2, h3, h4⟩

end Qib.TNet
