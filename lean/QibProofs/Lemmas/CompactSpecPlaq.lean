import QibProofs.Lemmas.CompactSpecPad
import QibProofs.Lemmas.CompactSpecMono
import QibProofs.Lemmas.CompactSpecMain
/-!
C13, spectral part — helper lemmas, part 10: the 2 × 2 plaquette (4 vertices, one face, which carries the auxiliary qubit 4; no
stabiliser: the loop product of the only face is the identity, the code space is the whole 32-dimensional register).

The explicit Clifford unitary `plaqW = S₁ · S₃† · CZ₁₂ · CZ₁₄ · CZ₃₄ · CNOT₁→₄ · CNOT₂→₄` is monomial:
`plaqW |b⟩ = i^{Q(πb)} |πb⟩`, `π b = (b₀, b₁, b₂, b₃, b₄ ⊕ b₁ ⊕ b₂)`, `Q(b) = b₁ + 3 b₃ + 2 (b₁b₂ + b₁b₄ + b₃b₄)`.
It fixes the vertex operators `Z₀ … Z₃` and maps the four edge operators to the Jordan-Wigner edge strings
`Y_i Z…Z X_j ⊗ 1` (identity on the auxiliary qubit), verified string by string through `mono_conj_ps`
(the two side conditions are decided by evaluation over the 32 basis states).
-/
set_option linter.unusedSimpArgs false
set_option linter.unusedVariables false
set_option maxRecDepth 100000
open Complex Matrix
namespace Qib.Compact
open Qib.Pauli Qib.Lattice

/-- `π b = (b₀, b₁, b₂, b₃, b₄ ⊕ b₁ ⊕ b₂)` -/
def plaqPi (b : Fin 5 → Bool) : Fin 5 → Bool := fun k => if k = 4 then xor (b 4) (xor (b 1) (b 2)) else b k
/-- `Q(b) = b₁ + 3 b₃ + 2 (b₁b₂ + b₁b₄ + b₃b₄)` -/
def plaqQ (b : Fin 5 → Bool) : ℕ :=
  (b 1).toNat + 3 * (b 3).toNat + 2 * ((b 1 && b 2).toNat + (b 1 && b 4).toNat + (b 3 && b 4).toNat)
/-- exponent of `-i`: `i^{Q} = (-i)^{3Q}` -/
def plaqF (b : Fin 5 → Bool) : ℕ := 3 * plaqQ (plaqPi b)

theorem plaqPi_invol : Function.Involutive plaqPi := by
  intro b; funext k
  simp only [plaqPi]
  split
  · subst_vars; simp
  · rfl

/-- the unitary of the plaquette theorem -/
noncomputable def plaqW : Matrix (Fin 5 → Bool) (Fin 5 → Bool) ℂ := mono plaqPi plaqF

theorem plaqW_unitary : plaqWᴴ * plaqW = 1 ∧ plaqW * plaqWᴴ = 1 := mono_unitary plaqPi plaqPi_invol plaqF

/-- Jordan-Wigner edge strings on 5 qubits (identity on qubit 4) -/
def T01 : PS := ⟨[true, false, false, false, false], [true, true, false, false, false], 0⟩
def T23 : PS := ⟨[false, false, true, false, false], [false, false, true, true, false], 0⟩
def T02 : PS := ⟨[true, true, false, false, false], [true, false, true, false, false], 0⟩
def T13 : PS := ⟨[false, true, true, false, false], [false, true, false, true, false], 0⟩

theorem conj_E01 : plaqW * (edgeStr 2 2 0 0 0 1).mat 5 * plaqWᴴ = T01.mat 5 := by
  have e : edgeStr 2 2 0 0 0 1 = ⟨[true, false, false, false, true], [true, true, false, false, true], 2⟩ := by decide
  rw [e]; apply mono_conj_ps plaqPi plaqPi_invol plaqF <;> decide +kernel
theorem conj_E23 : plaqW * (edgeStr 2 2 1 0 1 1).mat 5 * plaqWᴴ = T23.mat 5 := by
  have e : edgeStr 2 2 1 0 1 1 = ⟨[false, false, false, true, true], [false, false, true, true, true], 0⟩ := by decide
  rw [e]; apply mono_conj_ps plaqPi plaqPi_invol plaqF <;> decide +kernel
theorem conj_E02 : plaqW * (edgeStr 2 2 0 0 1 0).mat 5 * plaqWᴴ = T02.mat 5 := by
  have e : edgeStr 2 2 0 0 1 0 = ⟨[true, false, false, false, false], [true, false, true, false, true], 0⟩ := by decide
  rw [e]; apply mono_conj_ps plaqPi plaqPi_invol plaqF <;> decide +kernel
theorem conj_E13 : plaqW * (edgeStr 2 2 0 1 1 1).mat 5 * plaqWᴴ = T13.mat 5 := by
  have e : edgeStr 2 2 0 1 1 1 = ⟨[false, false, false, true, false], [false, true, false, true, true], 0⟩ := by decide
  rw [e]; apply mono_conj_ps plaqPi plaqPi_invol plaqF <;> decide +kernel

theorem conj_V (i : ℕ) (hi : i < 4) : plaqW * (vertexStr 2 2 (i / 2) (i % 2)).mat 5 * plaqWᴴ = zSite 5 i := by
  have hz := vertexStr_mat 2 2 5 i (by decide) (by omega)
  rw [← hz]
  interval_cases i
  · have e : vertexStr 2 2 (0 / 2) (0 % 2) = ⟨[true, false, false, false, false], [false, false, false, false, false], 0⟩ := by decide
    rw [e]; apply mono_conj_ps plaqPi plaqPi_invol plaqF <;> decide +kernel
  · have e : vertexStr 2 2 (1 / 2) (1 % 2) = ⟨[false, true, false, false, false], [false, false, false, false, false], 0⟩ := by decide
    rw [e]; apply mono_conj_ps plaqPi plaqPi_invol plaqF <;> decide +kernel
  · have e : vertexStr 2 2 (2 / 2) (2 % 2) = ⟨[false, false, true, false, false], [false, false, false, false, false], 0⟩ := by decide
    rw [e]; apply mono_conj_ps plaqPi plaqPi_invol plaqF <;> decide +kernel
  · have e : vertexStr 2 2 (3 / 2) (3 % 2) = ⟨[false, false, false, true, false], [false, false, false, false, false], 0⟩ := by decide
    rw [e]; apply mono_conj_ps plaqPi plaqPi_invol plaqF <;> decide +kernel

theorem T01_mat : T01.mat 5 = tens2z 5 0 1 pauliY pauliX := by
  rw [mat_YZX 5 0 1 (by omega) T01 (by decide) (by decide)]; simp [T01]
theorem T23_mat : T23.mat 5 = tens2z 5 2 3 pauliY pauliX := by
  rw [mat_YZX 5 2 3 (by omega) T23 (by decide) (by decide)]; simp [T23]
theorem T02_mat : T02.mat 5 = tens2z 5 0 2 pauliY pauliX := by
  rw [mat_YZX 5 0 2 (by omega) T02 (by decide) (by decide)]; simp [T02]
theorem T13_mat : T13.mat 5 = tens2z 5 1 3 pauliY pauliX := by
  rw [mat_YZX 5 1 3 (by omega) T13 (by decide) (by decide)]; simp [T13]

/-- neighbours in the 2 × 2 integer lattice -/
theorem plaq_adj (i j : ℕ) (hij : i < j) (hj : j < 4) (h : gridAdj [2, 2] [false, false] i j = true) :
    (i = 0 ∧ j = 1) ∨ (i = 2 ∧ j = 3) ∨ (i = 0 ∧ j = 2) ∨ (i = 1 ∧ j = 3) := by
  interval_cases j <;> interval_cases i <;> first | omega | (revert h; decide)

/-- one term on the plaquette: `W · (Derby–Klassen image) · Wᴴ = (fermionic operator on 4 modes) ⊗ 1₂` -/
theorem plaq_term (c : List (List Rat)) (hsym : SymmC 4 c)
    (hnn : ∀ i j, i < j → j < 4 → cget c i j ≠ 0 → gridAdj [2, 2] [false, false] i j = true) :
    plaqW * termDK 5 2 2 c * plaqWᴴ = pad (quadF 4 (cfun c)) := by
  unfold termDK
  rw [quadDK_conj 5 (2 * 2) _ _ _ plaqW plaqWᴴ plaqW_unitary.2 plaqW_unitary.1, ← quadFN_succ]
  apply dk_core 5 4 (by omega)
  · intro i j hi hj; simp only [cfun]; rw [hsym i j hi hj]
  · intro i hi; exact conj_V i hi
  · intro i j hij hj h0
    have hadj := plaq_adj i j hij hj (hnn i j hij hj (cfun_ne_zero c i j h0))
    simp only [VmN]
    rw [conj_V i (by omega), conj_V j hj]
    rcases hadj with ⟨rfl, rfl⟩ | ⟨rfl, rfl⟩ | ⟨rfl, rfl⟩ | ⟨rfl, rfl⟩
    · exact hop_of_edge_z 5 0 1 (by omega) (by omega) _ (by simp only [EmN]; rw [conj_E01, T01_mat])
    · exact hop_of_edge_z 5 2 3 (by omega) (by omega) _ (by simp only [EmN]; rw [conj_E23, T23_mat])
    · exact hop_of_edge_z 5 0 2 (by omega) (by omega) _ (by simp only [EmN]; rw [conj_E02, T02_mat])
    · exact hop_of_edge_z 5 1 3 (by omega) (by omega) _ (by simp only [EmN]; rw [conj_E13, T13_mat])

/-- **the 2 × 2 plaquette**: `W · matrix(compact(op)) · Wᴴ = matrix(op) ⊗ 1₂` -/
theorem plaq_equiv (inp : Input) (op : PauliOp GQ) (m : ℕ) (hshape : inp.shape = [2, 2])
    (hs : encode inp = .ok (op, m)) (hsym : ∀ t ∈ inp.terms, SymmC 4 t.coeffs) :
    m = 5 ∧ plaqW * PauliOp.mat GQ.toC 5 op * plaqWᴴ = pad (Encode.refMat GQ.toC 4 (fermiOp 2 2 inp.terms)) := by
  obtain ⟨hm, hadm, hmat⟩ := encode_shape inp op m 2 2 hshape hs
  refine ⟨hm, ?_⟩
  rw [hmat 5 (by decide), refMat_fermiOp 4 2 2 inp.terms (by decide), list_sum_conj', pad_list_sum, List.map_map, List.map_map]
  congr 1
  apply List.map_congr_left
  intro t ht
  obtain ⟨_, _, _, h4⟩ := hadm.2.2.2.2.2 t ht
  exact plaq_term t.coeffs (hsym t ht) h4

end Qib.Compact
