import QibProofs.Lemmas.TNetTreeTotalEval
/-!
Helper lemmas for C07 totality, part 6: the driver's `contractTree` (`TensorNetwork.contract_tree`) assembled from its
stages, `contractTree_returns` (scaffolds with at least two leaves), and the refusals: a malformed scaffold entry
(`AssertionError`), the virtual tensor or an unknown id as a leaf (`ValueError`, `KeyError`), an open bond touching no real
tensor (`RuntimeError`, "cannot track open axis") (no property statements).
-/
namespace Qib.TNet

theorem forIn_unit_total {ε β : Type} (l : List β) (f : β → PUnit → Except ε (ForInStep PUnit))
    (h : ∀ e ∈ l, f e PUnit.unit = .ok (ForInStep.yield PUnit.unit)) : forIn l PUnit.unit f = .ok PUnit.unit := by
  induction l with
  | nil => rfl
  | cons a as ih =>
    rw [List.forIn_cons, h a List.mem_cons_self]
    exact ih (fun e he => h e (List.mem_cons_of_mem _ he))

/-- the dictionary comprehension of `contract_tree` finds the data of every real tensor -/
theorem dataLoop_total {net : Net} {data : Data}
    (hdata : ∀ e ∈ net.tensors, e.2.tid ≠ -1 → ∃ d, e.2.dataref.bind (fun r => data.lookup r) = some d) :
    (forIn net.tensors PUnit.unit (fun (e : Int × STensor) (_ : PUnit) =>
      if (e.2.tid != -1) = true then
        match e.2.dataref.bind (fun r => data.lookup r) with
        | some _ => (pure (ForInStep.yield PUnit.unit) : Except Err (ForInStep PUnit))
        | none => do
          throw Err.keyError
          pure (ForInStep.yield PUnit.unit)
      else pure (ForInStep.yield PUnit.unit))) = .ok PUnit.unit := by
  apply forIn_unit_total
  intro e he
  by_cases hne : e.2.tid = -1
  · simp [hne]; rfl
  · obtain ⟨d, hd⟩ := hdata e he hne
    have : (e.2.tid != -1) = true := by simpa using hne
    simp only [this, if_true, hd]
    rfl

theorem dataLoop_of_consistent {net : Net} {data : Data} (hcd : isConsistentData net data = .ok true) :
    ∀ e ∈ net.tensors, e.2.tid ≠ -1 → ∃ d, e.2.dataref.bind (fun r => data.lookup r) = some d := by
  intro e he hne
  obtain ⟨r, d, hr, hd, _⟩ := (isConsistentData_ok hcd).2 e he hne
  exact ⟨d, by simp [hr, hd]⟩

/-- `contractTree` assembled from its stages, inner-node root -/
theorem contractTree_of_node {net : Net} {data : Data} {s : Scaffold} {tree0 : Tree} {i : NodeInfo} {l r : Tree}
    {perm am : List Nat} {res : DT Int}
    (h0 : buildContractionTree net s = .ok tree0) (hprep : contractTreePrep net tree0 = .ok (.node i l r, perm, am))
    (hdata : ∀ e ∈ net.tensors, e.2.tid ≠ -1 → ∃ d, e.2.dataref.bind (fun r => data.lookup r) = some d)
    (hr : treeEval (tensorDict net data) (.node i l r) = .ok res) :
    contractTree net data s = .ok (res, am, .node i l r) := by
  unfold contractTree
  refine bind_eq_ok_of h0 ?_
  refine bind_eq_ok_of hprep ?_
  dsimp only
  refine bind_eq_ok_of (a := PUnit.unit) (dataLoop_total hdata) ?_
  exact bind_eq_ok_of hr rfl

/-- `contractTree` assembled from its stages, single-leaf root (the stored tensor is transposed by the root permutation) -/
theorem contractTree_of_leaf {net : Net} {data : Data} {s : Scaffold} {tree0 : Tree} {i : NodeInfo}
    {perm am : List Nat} {d : DT Int}
    (h0 : buildContractionTree net s = .ok tree0) (hprep : contractTreePrep net tree0 = .ok (.leaf i, perm, am))
    (hdata : ∀ e ∈ net.tensors, e.2.tid ≠ -1 → ∃ d, e.2.dataref.bind (fun r => data.lookup r) = some d)
    (hd : tensorDict net data i.tid = some d) :
    contractTree net data s = .ok (d.transpose perm, am, .leaf i) := by
  unfold contractTree
  refine bind_eq_ok_of h0 ?_
  refine bind_eq_ok_of hprep ?_
  dsimp only
  refine bind_eq_ok_of (a := PUnit.unit) (dataLoop_total hdata) ?_
  refine bind_eq_ok_of (a := d.transpose perm) ?_ rfl
  simp only [treeEval, beq_self_eq_true, if_true, hd, Option.map_some]

/-- failure of the builder or of the preparation is the failure of `contractTree` -/
theorem contractTree_error_build {net : Net} {data : Data} {s : Scaffold} {e : Err}
    (h0 : buildContractionTree net s = .error e) : contractTree net data s = .error e := by
  unfold contractTree
  exact bind_eq_error_of h0

theorem contractTree_error_prep {net : Net} {data : Data} {s : Scaffold} {tree0 : Tree} {e : Err}
    (h0 : buildContractionTree net s = .ok tree0) (hprep : contractTreePrep net tree0 = .error e) :
    contractTree net data s = .error e := by
  unfold contractTree
  refine (bind_ok_eq h0).trans ?_
  exact bind_eq_error_of hprep

/-- **`contract_tree` returns**: consistent network with consistent data, every open bond touching a real tensor, a
scaffold with at least two leaves and no malformed entry over all real tensors -/
theorem contractTree_returns {net : Net} {data : Data} (hrep : RepOK net) (hcd : isConsistentData net data = .ok true)
    (htouch : openTouch net = true) {sl sr : Scaffold} (hnb : noBad (.node sl sr) = true)
    (hfull : ScaffoldFull net (.node sl sr)) : ∃ r am t, contractTree net data (.node sl sr) = .ok (r, am, t) := by
  have hwf : WF net := wf_of_consistent hrep (isConsistentData_ok hcd).1
  obtain ⟨tree0, t, perm, am, r, h0, hprep, hr, _, _, _, _⟩ := pipeline_total hwf htouch hnb hfull (tensorDict net data)
    (fun tid T hne hT => by obtain ⟨d, h1, h2, _⟩ := tensorDict_ok hwf.tkey hcd hne hT; exact ⟨d, h1, h2⟩)
  have hb := h0
  unfold buildContractionTree at hb
  obtain ⟨tL, tR, i0, k', _, _, rfl⟩ := buildTree_node_inv hb
  obtain ⟨i', rfl⟩ := contractTreePrep_node hprep
  exact ⟨r, am, _, contractTree_of_node h0 hprep (dataLoop_of_consistent hcd) hr⟩

/-! ### refusals of the builder -/

theorem buildTree_bad (net : Net) (k : Int) : buildTree net .bad k = .error .assertion := by simp [buildTree]

/-- the virtual tensor as a leaf: `ValueError` -/
theorem buildTree_leaf_virtual (net : Net) (k : Int) : buildTree net (.leaf (-1)) k = .error .valueError := by
  simp [buildTree, bind, Except.bind, throw, throwThe, MonadExceptOf.throw]

/-- an id that is not a tensor of the network as a leaf: `KeyError` -/
theorem buildTree_leaf_unknown {net : Net} {t : Int} (hne : t ≠ -1) (hk : t ∉ dkeys net.tensors) (k : Int) :
    buildTree net (.leaf t) k = .error .keyError := by
  have hb : (t == -1) = false := by simpa using hne
  simp [buildTree, hb, dget_eq_none_of_notMem _ hk, throw, throwThe, MonadExceptOf.throw]

/-- a refusal inside the left subtree is the refusal of the whole scaffold -/
theorem buildTree_error_left {net : Net} {sl sr : Scaffold} {k : Int} {e : Err} (h : buildTree net sl k = .error e) :
    buildTree net (.node sl sr) k = .error e := by
  unfold buildTree
  exact bind_eq_error_of h

/-- a refusal inside the right subtree, after the left one has been built, is the refusal of the whole scaffold -/
theorem buildTree_error_right {net : Net} {sl sr : Scaffold} {k : Int} {tL : Tree} {e : Err}
    (hL : buildTree net sl k = .ok tL)
    (h : buildTree net sr (if tL.info.tid ≥ k then tL.info.tid + 1 else k) = .error e) :
    buildTree net (.node sl sr) k = .error e := by
  unfold buildTree
  refine (bind_ok_eq hL).trans ?_
  exact bind_eq_error_of h

/-- **a malformed entry anywhere in an otherwise valid scaffold: `AssertionError`** -/
theorem buildTree_noBad_false {net : Net} (hwf : WF net) : ∀ (s : Scaffold) (k : Int), noBad s = false →
    (scaffoldLeaves s).Nodup → (∀ t ∈ scaffoldLeaves s, t ≠ -1 ∧ t ∈ dkeys net.tensors) →
    buildTree net s k = .error .assertion := by
  intro s
  induction s with
  | bad => intro k _ _ _; exact buildTree_bad net k
  | leaf t => intro k h; simp [noBad] at h
  | node sl sr ihl ihr =>
    intro k hnb hnd hmem
    simp only [scaffoldLeaves] at hnd hmem
    have hndl := (List.nodup_append.mp hnd).1
    have hndr := (List.nodup_append.mp hnd).2.1
    cases hl : noBad sl with
    | false =>
      exact buildTree_error_left (ihl k hl hndl (fun t ht => hmem t (List.mem_append_left _ ht)))
    | true =>
      have hr : noBad sr = false := by simpa [noBad, hl] using hnb
      obtain ⟨tL, hL⟩ := buildTree_total hwf sl k hl hndl (fun t ht => hmem t (List.mem_append_left _ ht))
      exact buildTree_error_right hL
        (ihr (if tL.info.tid ≥ k then tL.info.tid + 1 else k) hr hndr (fun t ht => hmem t (List.mem_append_right _ ht)))

/-! ### refusal of the preparation: an open bond touching no real tensor -/

/-- **"cannot track open axis"**: on a consistent network with an open bond all of whose references are to the virtual
tensor, the axes-map computation fails with `RuntimeError` for every tree with certified root tracking (in particular
every tree returned by the builder) -/
theorem prep_untouched {net : Net} (hwf : WF net) (htouch : openTouch net = false) {tree : Tree}
    (hi : InfoCert net tree.info) : contractTreePrep net tree = .error .runtimeError := by
  obtain ⟨v, hvm⟩ := exists_mem_of_mem_dkeys hwf.virt
  have hv := dget_of_mem hwf.tnodup hvm
  simp only at hv
  obtain ⟨bid, hb, hno⟩ := openTouch_false_legs hwf hv htouch
  have hmap : v.bids.mapM (axisFun net tree.info) = .error .runtimeError :=
    mapM_error_of v.bids (fun x hx => axisFun_ok_or_runtime hwf hv hi hx)
      ⟨bid, hb, axisFun_untouched hwf hv tree.info hb hno⟩
  unfold contractTreePrep
  dsimp only
  rw [hv]
  dsimp only
  exact bind_eq_error_of hmap

/-- the same refusal for the driver's `contractTree`, for every scaffold the builder accepts -/
theorem contractTree_untouched {net : Net} {data : Data} (hrep : RepOK net) (hcons : isConsistent net = .ok true)
    (htouch : openTouch net = false) {s : Scaffold} (hnb : noBad s = true) (hnd : (scaffoldLeaves s).Nodup)
    (hmem : ∀ t ∈ scaffoldLeaves s, t ≠ -1 ∧ t ∈ dkeys net.tensors) :
    contractTree net data s = .error .runtimeError := by
  have hwf : WF net := wf_of_consistent hrep hcons
  obtain ⟨tree0, h0⟩ := buildTree_total hwf s (maxKey (dkeys net.tensors) + 1) hnb hnd hmem
  exact contractTree_error_prep (tree0 := tree0) h0 (prep_untouched hwf htouch (buildTree_ok hwf _ _ tree0 h0).2)

end Qib.TNet
