import QibProofs.Lemmas.TNetTreeBuildNode
/-!
Helper lemmas for C07, part 19 (tree builder, 5): the declarative certificates imply the executable ones
(`infoOK_of_cert`, `nodeOK_of_cert`), the leaf record of the builder is certified, and `buildTree_ok`: every node of a
tree returned by `buildTree` passes `leafOK` / `nodeOK` – for every network (hyper-bonds, partial contraction of
multi-leg bonds, traces, shared open legs) and every scaffold (no property statements).
-/
namespace Qib.TNet

theorem infoOK_of_cert {net : Net} {c : NodeInfo} (h : InfoCert net c) : infoOK net c = true := by
  unfold infoOK
  simp only [Bool.and_eq_true, beq_iff_eq, nodupB_iff, List.all_eq_true, decide_eq_true_eq, List.mem_range]
  refine ⟨⟨⟨h.len, h.nodup⟩, ?_⟩, ?_⟩
  · intro p hp
    obtain ⟨h1, h2, h3⟩ := h.pairs p hp
    refine ⟨⟨h1, by rw [h2]; rfl⟩, by rw [h2, h3]⟩
  · intro k hk
    exact List.contains_iff_mem.mpr (h.cover k hk)

theorem nodeOK_of_cert {net : Net} {n cL cR : NodeInfo} (h : NodeCert net n cL cR) : nodeOK net n cL cR = true := by
  unfold nodeOK
  have hleg := legLabels_eq h.iL h.iR h.lenL h.lenR
  simp only [hleg, Bool.and_eq_true]
  refine ⟨⟨⟨⟨⟨⟨⟨⟨⟨⟨⟨infoOK_of_cert h.iL, infoOK_of_cert h.iR⟩, infoOK_of_cert h.iN⟩, ?_⟩, ?_⟩, ?_⟩, ?_⟩, ?_⟩, ?_⟩, ?_⟩, ?_⟩, ?_⟩
  · simp only [Bool.not_eq_true', List.any_eq_false]
    intro ta hta hc
    exact h.disj ta hta (List.contains_iff_mem.mp hc)
  · simpa using h.lenL
  · simpa using h.lenR
  · rw [List.all_eq_true]
    intro x hx
    obtain ⟨p, hp, rfl⟩ := List.mem_map.mp hx
    simp only [Option.isSome_some, Bool.true_and, List.all_eq_true]
    intro y hy
    obtain ⟨q, hq, rfl⟩ := List.mem_map.mp hy
    have := h.bij p hp q hq
    by_cases ha : p.1 = q.1 <;> by_cases hb : p.2 = q.2 <;> simp_all
  · exact (nodupB_iff _).mpr h.nodup
  · rw [List.all_eq_true]
    intro l hl
    obtain ⟨p, hp, hpl⟩ := h.outIn l hl
    rw [List.any_eq_true]
    exact ⟨_, List.mem_map.mpr ⟨p, hp, rfl⟩, by simp [hpl]⟩
  · rw [List.all_eq_true]
    intro x hx
    obtain ⟨p, hp, rfl⟩ := List.mem_map.mp hx
    simp only [beq_iff_eq]
    have := h.outIff p hp
    cases hc : contractedAt net cL cR p.1
    · simp only [Bool.not_false]
      rw [hc] at this
      exact List.contains_iff_mem.mpr (this.mpr rfl)
    · simp only [Bool.not_true]
      rw [hc] at this
      cases hcc : n.idxout.contains p.2
      · rfl
      · exact absurd (this.mp (List.contains_iff_mem.mp hcc)) (by simp)
  · rw [h.opn]
    simp only [beq_iff_eq]
    apply List.filter_congr
    intro ta _
    unfold keepAx
    cases legBond net ta <;> rfl
  · rw [List.all_eq_true]
    intro p hp
    obtain ⟨b, l, hb, hm, hl⟩ := h.track p hp
    have hex : ∃ q, ((pairsN net n cL cR).map fun p => (some p.1, some p.2)).find?
        (fun q => q.1 == legBond net p.1) = some q := by
      cases hf : ((pairsN net n cL cR).map fun p => (some p.1, some p.2)).find? (fun q => q.1 == legBond net p.1) with
      | some q => exact ⟨q, rfl⟩
      | none =>
        have := List.find?_eq_none.mp hf _ (List.mem_map.mpr ⟨(b, l), hm, rfl⟩)
        simp [hb] at this
    obtain ⟨q, hq⟩ := hex
    rw [hq]
    have hq1 := List.find?_some hq
    have hq2 := List.mem_of_find?_eq_some hq
    obtain ⟨q', hq', rfl⟩ := List.mem_map.mp hq2
    simp only
    have hqb : q'.1 = b := by
      have := eq_of_beq hq1
      simp only [hb, Option.some.injEq] at this
      exact this
    have : q'.2 = l := (h.bij q' hq' (b, l) hm).mp hqb
    rw [this, hl]
    simp

end Qib.TNet

namespace Qib.TNet

theorem find_track (t : Int) (l : List Nat) (a : Nat) (ha : a ∈ l) :
    (l.map (fun x => ((t, x), x))).find? (fun q => q.2 == a) = some ((t, a), a) := by
  induction l with
  | nil => cases ha
  | cons x xs ih =>
    by_cases hx : x = a
    · subst hx; simp
    · have : a ∈ xs := by
        rcases List.mem_cons.mp ha with h | h
        · exact absurd h.symm hx
        · exact h
      simp [hx, ih this]

/-- the record of a leaf produced by the builder -/
def leafInfo (t : Int) (n : Nat) : NodeInfo :=
  { tid := t, idxL := [], idxR := [], idxout := List.range n, openaxes := (List.range n).map (fun i => (t, i)),
    trackaxes := List.range n }

theorem leafInfo_cert {net : Net} (hwf : WF net) {t : Int} {T : STensor} (hT : dget net.tensors t = some T) :
    InfoCert net (leafInfo t T.shape.length) := by
  have hsh : T.shape.length = T.bids.length := hwf.tshape _ (mem_of_dget_eq_some _ hT)
  have hzip : (leafInfo t T.shape.length).openaxes.zip (leafInfo t T.shape.length).trackaxes =
      (List.range T.shape.length).map (fun x => ((t, x), x)) := by
    simp only [leafInfo]
    conv_lhs => rw [← List.map_id (List.range T.shape.length)]
    rw [List.map_id]
    have : (List.range T.shape.length) = (List.range T.shape.length).map id := by simp
    conv_lhs => rw [this, List.map_map]
    rw [List.zip_map']
    simp
  refine ⟨by simp [leafInfo], ?_, ?_, ?_⟩
  · simp only [leafInfo]
    exact List.nodup_range.map (fun a b h => by simpa using h)
  · intro p hp
    rw [hzip] at hp
    obtain ⟨a, ha, rfl⟩ := List.mem_map.mp hp
    have ha' : a < T.shape.length := List.mem_range.mp ha
    have hlb : legBond net (t, a) = some T.bids[a] :=
      legBond_eq_some_iff.mpr ⟨T, hT, List.getElem?_eq_getElem (by omega)⟩
    have hnl : nodeLegBond net (leafInfo t T.shape.length) a = some T.bids[a] := by
      unfold nodeLegBond
      rw [hzip, find_track t _ a ha]
      exact hlb
    refine ⟨by simpa [leafInfo] using ha', ?_, ?_⟩
    · simp only [legB, hnl, Option.getD_some]; exact hlb
    · simp only [legB, hnl, Option.getD_some]
  · intro k hk
    simpa [leafInfo] using hk

theorem buildTree_leaf_inv {net : Net} {t : Int} {k : Int} {tr : Tree} (h : buildTree net (.leaf t) k = .ok tr) :
    t ≠ -1 ∧ ∃ T, dget net.tensors t = some T ∧ tr = .leaf (leafInfo t T.shape.length) := by
  unfold buildTree at h
  simp only [bind, Except.bind] at h
  split at h
  · cases h
  rename_i hne
  split at h
  · rename_i T hT
    simp only [pure, Except.pure, Except.ok.injEq] at h
    exact ⟨by simpa using hne, T, hT, h.symm⟩
  · cases h

theorem leafOK_of_build {net : Net} (hwf : WF net) {t : Int} (hne : t ≠ -1) {T : STensor}
    (hT : dget net.tensors t = some T) : leafOK net (leafInfo t T.shape.length) = true := by
  unfold leafOK
  have : (leafInfo t T.shape.length).tid = t := rfl
  rw [this, hT]
  simp only [Bool.and_eq_true, bne_iff_ne, ne_eq, beq_iff_eq, nodupB_iff]
  exact ⟨⟨⟨⟨hne, rfl⟩, by simp [leafInfo]⟩, infoOK_of_cert (leafInfo_cert hwf hT)⟩, List.nodup_range⟩

/-- **the builder always produces certified nodes**: every node of a tree returned by `buildTree` passes its
certificate (`leafOK` / `nodeOK`), and the tracking of the root is well formed -/
theorem buildTree_ok {net : Net} (hwf : WF net) : ∀ (s : Scaffold) (k : Int) (t : Tree), buildTree net s k = .ok t →
    (∀ x ∈ treeOKList net t, x = true) ∧ InfoCert net t.info := by
  intro s
  induction s with
  | bad => intro k t h; simp [buildTree] at h
  | leaf tid =>
    intro k t h
    obtain ⟨hne, T, hT, rfl⟩ := buildTree_leaf_inv h
    refine ⟨?_, leafInfo_cert hwf hT⟩
    intro x hx
    simp only [treeOKList, List.mem_singleton] at hx
    rw [hx]; exact leafOK_of_build hwf hne hT
  | node sl sr ihl ihr =>
    intro k t h
    obtain ⟨tL, tR, k', scan, st, trackaxes, tid, hL, hR, hany, hscan, hst, htr, rfl⟩ := buildTree_node_full h
    obtain ⟨okL, iL⟩ := ihl k tL hL
    obtain ⟨okR, iR⟩ := ihr k' tR hR
    have hc := buildNode_cert hwf iL iR hany hscan hst htr tid
    refine ⟨?_, hc.iN⟩
    intro x hx
    simp only [treeOKList, List.mem_cons, List.mem_append] at hx
    rcases hx with rfl | hx | hx
    · exact nodeOK_of_cert hc
    · exact okL x hx
    · exact okR x hx

end Qib.TNet
