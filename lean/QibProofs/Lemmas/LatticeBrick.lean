import QibProofs.Lemmas.LatticeGrid
import QibProofs.Lemmas.LatticeOfc
/-! Helper lemmas for C14: brick lattice embedded in a square grid (both conventions at once), parity-selected
links, the two surplus corner points (isolated or deleted), consistency of `index_to_coord` with `np.delete`. -/
namespace Qib.Lattice

/-- Brick-wall neighbours of grid points `(r, c)`, `(r', c')`: every unit step along axis `dsq`
(0: between rows, 1: between columns); along the other axis only the steps starting at a point with even
`r + c` (the "bricks"). -/
def BrickNN (dsq r c r' c' : Nat) : Prop :=
  if dsq = 0 then
    (c = c' ∧ (r + 1 = r' ∨ r' + 1 = r)) ∨
      (r = r' ∧ ((c + 1 = c' ∧ (r + c) % 2 = 0) ∨ (c' + 1 = c ∧ (r + c') % 2 = 0)))
  else
    (r = r' ∧ (c + 1 = c' ∨ c' + 1 = c)) ∨
      (c = c' ∧ ((r + 1 = r' ∧ (r + c) % 2 = 0) ∨ (r' + 1 = r ∧ (r' + c) % 2 = 0)))

theorem BrickNN.symm {dsq r c r' c'} (h : BrickNN dsq r c r' c') : BrickNN dsq r' c' r c := by
  unfold BrickNN at *
  by_cases hd : dsq = 0 <;> simp only [hd, if_true, if_false] at * <;> omega

theorem BrickNN.irrefl {dsq r c} : ¬ BrickNN dsq r c r c := by
  unfold BrickNN; split <;> omega

theorem roll_minus_step {n k k' : Nat} (hk : k < n) :
    (keptByCut n false k = true ∧ k' = rollSrc n false k) ↔ (k + 1 < n ∧ k' = k + 1) := by
  rw [rollSrc_minus hk]; simp only [keptByCut, Bool.false_eq_true, if_false, decide_eq_true_eq]
  constructor
  · rintro ⟨h1, h2⟩; split at h2 <;> omega
  · rintro ⟨h1, h2⟩; refine ⟨h1, ?_⟩; split <;> omega

theorem roll_plus_step {n k k' : Nat} (hk : k < n) :
    (keptByCut n true k = true ∧ k' = rollSrc n true k) ↔ (1 ≤ k ∧ k' + 1 = k) := by
  rw [rollSrc_plus hk]; simp only [keptByCut, if_true, decide_eq_true_eq]
  constructor
  · rintro ⟨h1, h2⟩; split at h2 <;> omega
  · rintro ⟨h1, h2⟩; refine ⟨h1, ?_⟩; split <;> omega

/-- pairing along axis 0 of an `R × C` grid with open boundary -/
theorem rollPair_rows (R C : Nat) (plus : Bool) (i j : Nat) (hi : i < R * C) (hj : j < R * C) :
    rollPair R C false plus i j = true ↔
      (keptByCut R plus (i / C) = true ∧ j / C = rollSrc R plus (i / C)) ∧ j % C = i % C := by
  have hs : sprod [R, C] = R * C := by simp [sprod]
  have := rollPair_iff [R, C] 0 false plus i j (hs ▸ hi) (hs ▸ hj) (by simp)
  simp only [List.getD_cons_zero, stride_zero, sprod, Nat.mul_one, unravel_two, Bool.false_eq_true, if_false,
    List.set_cons_zero, List.cons.injEq, and_true] at this
  rw [this]; exact and_assoc.symm

/-- pairing along axis 1 of an `R × C` grid with open boundary -/
theorem rollPair_cols (R C : Nat) (plus : Bool) (i j : Nat) (hi : i < R * C) (hj : j < R * C) :
    rollPair C 1 false plus i j = true ↔
      (keptByCut C plus (i % C) = true ∧ j % C = rollSrc C plus (i % C)) ∧ j / C = i / C := by
  have hs : sprod [R, C] = R * C := by simp [sprod]
  have := rollPair_iff [R, C] 1 false plus i j (hs ▸ hi) (hs ▸ hj) (by simp)
  simp only [List.getD_cons_succ, List.getD_cons_zero, stride_succ, stride_zero, sprod, unravel_two,
    Bool.false_eq_true, if_false, List.set_cons_succ, List.set_cons_zero, List.cons.injEq, and_true] at this
  rw [this]
  constructor
  · rintro ⟨h1, h2, h3⟩; exact ⟨⟨h1, h3⟩, h2⟩
  · rintro ⟨⟨h1, h3⟩, h2⟩; exact ⟨h1, h2, h3⟩

namespace Brick

theorem R_ge (b : Brick) (hm : 1 ≤ b.m) : 2 ≤ b.R := by
  unfold R; cases b.conv <;> simp <;> (try split) <;> omega

theorem C_ge (b : Brick) (hn : 1 ≤ b.n) : 2 ≤ b.C := by
  unfold C; cases b.conv <;> simp <;> (try split) <;> omega

theorem psc_iff (b : Brick) : b.parityShiftCondition = true ↔ b.C % 2 = 0 := by
  unfold parityShiftCondition C; cases b.conv <;> simp <;> (try split) <;> omega

/-- the selection on the half-connected axis only looks at the parity of `row + col` -/
theorem parOK_iff (b : Brick) (plus : Bool) (i : Nat) :
    b.parOK plus i = true ↔ (i / b.C + i % b.C) % 2 = (if plus = true then 1 else 0) := by
  have hpsc := b.psc_iff
  have hdm := Nat.div_add_mod i b.C
  have hpar := mul_mod_two b.C (i / b.C)
  unfold parOK
  generalize b.C = C at *
  generalize i / C = q at *
  generalize i % C = r at *
  generalize C * q = m at *
  cases hp : b.parityShiftCondition <;> cases plus <;> simp [hp] at hpsc ⊢ <;> split at hpar <;> omega

/-- adjacency on the full square grid = brick-wall neighbours of the grid coordinates -/
theorem sqAdj_iff (b : Brick) (i j : Nat) :
    b.sqAdj i j = true ↔ i < b.R * b.C ∧ j < b.R * b.C ∧
      BrickNN b.dSquare (i / b.C) (i % b.C) (j / b.C) (j % b.C) := by
  unfold sqAdj nsitesSquare
  simp only [Bool.and_eq_true, decide_eq_true_eq, and_assoc]
  refine and_congr_right fun hi => and_congr_right fun hj => ?_
  have hC : 0 < b.C := by
    rcases Nat.eq_zero_or_pos b.C with h | h
    · rw [h] at hi; simp at hi
    · exact h
  have hr : i / b.C < b.R := (Nat.div_lt_iff_lt_mul hC).mpr hi
  have hc : i % b.C < b.C := Nat.mod_lt _ hC
  simp only [Bool.or_eq_true, Bool.and_eq_true, rollPair_rows b.R b.C _ i j hi hj, rollPair_cols b.R b.C _ i j hi hj,
    roll_minus_step hr, roll_plus_step hr, roll_minus_step hc, roll_plus_step hc, parOK_iff, beq_iff_eq]
  unfold BrickNN dSquare
  have hr' : j / b.C < b.R := (Nat.div_lt_iff_lt_mul hC).mpr hj
  have hc' : j % b.C < b.C := Nat.mod_lt _ hC
  generalize i / b.C = r at *
  generalize i % b.C = c at *
  generalize j / b.C = r' at *
  generalize j % b.C = c' at *
  clear hi hj
  cases b.conv <;> simp <;> constructor
  · rintro (((h | h) | h) | h) <;> omega
  · rintro (⟨h1, h | h⟩ | ⟨h1, h | h⟩) <;> omega
  · rintro (((h | h) | h) | h) <;> omega
  · rintro (⟨h1, h | h⟩ | ⟨h1, h | h⟩) <;> omega

/-- grid coordinates of the two surplus points -/
def isExtra (b : Brick) (r c : Nat) : Prop :=
  b.hasExtra = true ∧ match b.conv with
    | .cols => (r = b.R - 1 ∧ c = 0) ∨ (if b.C % 2 = 0 then r = b.R - 1 ∧ c = b.C - 1 else r = 0 ∧ c = b.C - 1)
    | .rows => (r = 0 ∧ c = b.C - 1) ∨ (if b.R % 2 = 1 then r = b.R - 1 ∧ c = 0 else r = b.R - 1 ∧ c = b.C - 1)

/-- grid coordinates returned by `index_to_coord(i)` -/
def row (b : Brick) (i : Nat) : Nat := (i + b.i2cShift i) / b.C
def col (b : Brick) (i : Nat) : Nat := (i + b.i2cShift i) % b.C

theorem RC_split (b : Brick) (hm : 1 ≤ b.m) : b.R * b.C = (b.R - 1) * b.C + b.C := by
  have := b.R_ge hm
  conv => lhs; rw [show b.R = (b.R - 1) + 1 by omega, Nat.add_mul, Nat.one_mul]

theorem nsites_eq (b : Brick) (hm : 1 ≤ b.m) (hn : 1 ≤ b.n) :
    b.nsites = if (b.delete && b.hasExtra) = true then b.R * b.C - 2 else b.R * b.C := by
  unfold nsites hasExtra R C
  cases b.conv <;> cases b.delete <;> simp
  · split
    · ring
    · have : b.n = 1 := by omega
      rw [this]; ring
  · split
    · ring_nf; omega
    · have : b.n = 1 := by omega
      rw [this]; ring
  · split
    · ring
    · have : b.m = 1 := by omega
      rw [this]; ring
  · split
    · ring_nf; omega
    · have : b.m = 1 := by omega
      rw [this]; ring

theorem cols_parity (b : Brick) (h : b.conv = .cols) : (b.n % 2 == 0) = (b.C % 2 == 1) := by
  unfold C; rw [h]; simp only
  rcases Nat.mod_two_eq_zero_or_one b.n with h' | h' <;> simp [h', Nat.add_mod]

theorem rows_parity (b : Brick) (h : b.conv = .rows) : (b.m % 2 == 0) = (b.R % 2 == 1) := by
  unfold R; rw [h]; simp only
  rcases Nat.mod_two_eq_zero_or_one b.m with h' | h' <;> simp [h', Nat.add_mod]

theorem cols_R_ge (b : Brick) (hm : 1 ≤ b.m) (h : b.conv = .cols) (hx : b.hasExtra = true) : 3 ≤ b.R := by
  unfold R; unfold hasExtra at hx; rw [h] at hx ⊢; simp at hx ⊢; rw [if_pos hx]; omega

theorem K_ge (b : Brick) (hm : 1 ≤ b.m) : b.C ≤ (b.R - 1) * b.C := by
  have := b.R_ge hm
  have := Nat.mul_le_mul_right b.C (show 1 ≤ b.R - 1 by omega)
  omega

theorem K_ge2 (b : Brick) (h : 3 ≤ b.R) : 2 * b.C ≤ (b.R - 1) * b.C :=
  Nat.mul_le_mul_right b.C (show 2 ≤ b.R - 1 by omega)

theorem skip_lt {k a a' : Nat} (h : a < a') : skip k a < skip k a' := by
  unfold skip; split <;> split <;> omega

theorem undelete_lt_of_lt (b : Brick) {a a' : Nat} (h : a < a') : b.undelete a < b.undelete a' := by
  unfold undelete; cases b.conv <;> exact skip_lt (skip_lt h)

theorem undelete_injective (b : Brick) {a a' : Nat} (h : b.undelete a = b.undelete a') : a = a' := by
  rcases Nat.lt_trichotomy a a' with h1 | h1 | h1
  · have := b.undelete_lt_of_lt h1; omega
  · exact h1
  · have := b.undelete_lt_of_lt h1; omega

/-- the numbering after the two `np.delete` calls is the numbering `index_to_coord` uses (its `shift`), it stays
inside the grid and never hits a surplus point -/
theorem undelete_facts (b : Brick) (hm : 1 ≤ b.m) (hn : 1 ≤ b.n) (hx : b.hasExtra = true) (hd : b.delete = true)
    (a : Nat) (ha : a < b.R * b.C - 2) :
    a + b.i2cShift a = b.undelete a ∧ b.undelete a < b.R * b.C ∧ b.undelete a ≠ b.extra1 ∧
      b.undelete a ≠ b.extra2 := by
  have hR := b.R_ge hm
  have hC := b.C_ge hn
  have hRC := b.RC_split hm
  have hK := b.K_ge hm
  have hK2 := b.K_ge2
  unfold i2cShift undelete extra1 extra2 skip
  simp only [hd, hx, Bool.and_self, if_true]
  cases hconv : b.conv
  · have hp := b.cols_parity hconv
    have hR3 := b.cols_R_ge hm hconv hx
    have hK2 := hK2 hR3
    simp only [hp]
    generalize (b.R - 1) * b.C = K at *
    generalize b.R * b.C = N at *
    generalize b.C = C at *
    rcases Nat.mod_two_eq_zero_or_one C with hc | hc <;> simp [hc] <;>
      (repeat' split) <;> omega
  · have hp := b.rows_parity hconv
    simp only [hp]
    have hK2' : b.R % 2 = 1 → 2 * b.C ≤ (b.R - 1) * b.C := fun h => hK2 (by omega)
    generalize (b.R - 1) * b.C = K at *
    generalize b.R * b.C = N at *
    generalize b.C = C at *
    generalize b.R = R at *
    rcases Nat.mod_two_eq_zero_or_one R with hc | hc <;> simp [hc] at hK2' ⊢ <;>
      (repeat' split) <;> omega

theorem coord_eq_iff {C u a c : Nat} (hc : c < C) : (u / C = a ∧ u % C = c) ↔ u = a * C + c :=
  (eq_mul_add_iff hc).symm

theorem isExtra_iff (b : Brick) (hm : 1 ≤ b.m) (hn : 1 ≤ b.n) (hx : b.hasExtra = true) (u : Nat) :
    b.isExtra (u / b.C) (u % b.C) ↔ (u = b.extra1 ∨ u = b.extra2) := by
  have hC := b.C_ge hn
  have hRC := b.RC_split hm
  unfold isExtra extra1 extra2
  simp only [hx, true_and]
  cases b.conv <;> simp only
  · rw [coord_eq_iff (show 0 < b.C by omega)]
    rcases Nat.mod_two_eq_zero_or_one b.C with hc | hc
    · simp only [hc, Nat.reduceBEq, reduceIte]
      rw [coord_eq_iff (show b.C - 1 < b.C by omega)]; omega
    · simp only [hc, Nat.reduceBEq, reduceIte, Nat.reduceEqDiff, Bool.false_eq_true]
      rw [coord_eq_iff (show b.C - 1 < b.C by omega)]; omega
  · rw [coord_eq_iff (show b.C - 1 < b.C by omega)]
    rcases Nat.mod_two_eq_zero_or_one b.R with hc | hc
    · simp only [hc, Nat.reduceBEq, reduceIte, Nat.reduceEqDiff, Bool.false_eq_true]
      rw [coord_eq_iff (show b.C - 1 < b.C by omega)]; omega
    · simp only [hc, Nat.reduceBEq, reduceIte]
      rw [coord_eq_iff (show 0 < b.C by omega)]; omega

/-- `adjacency_matrix()` of the brick lattice in terms of the grid coordinates returned by `index_to_coord`:
brick-wall neighbours, and neither site is one of the two surplus grid points -/
theorem adj_iff (b : Brick) (hm : 1 ≤ b.m) (hn : 1 ≤ b.n) (i j : Nat) :
    b.adj i j = true ↔ i < b.nsites ∧ j < b.nsites ∧
      BrickNN b.dSquare (b.row i) (b.col i) (b.row j) (b.col j) ∧
      ¬ b.isExtra (b.row i) (b.col i) ∧ ¬ b.isExtra (b.row j) (b.col j) := by
  have hns := b.nsites_eq hm hn
  unfold adj row col
  simp only [Bool.and_eq_true, decide_eq_true_eq, and_assoc]
  refine and_congr_right fun hi => and_congr_right fun hj => ?_
  cases hx : b.hasExtra
  · -- no surplus points
    have hs : ∀ k, b.i2cShift k = 0 := by intro k; simp [i2cShift, hx]
    have hne : ∀ r c, ¬ b.isExtra r c := by intro r c h; simp [isExtra, hx] at h
    simp only [hx, Bool.and_false, Bool.false_eq_true, if_false] at hns
    simp only [Bool.false_eq_true, if_false, hs, Nat.add_zero, sqAdj_iff, hne, not_false_eq_true, and_true]
    rw [hns] at hi hj
    exact ⟨fun h => h.2.2, fun h => ⟨hi, hj, h⟩⟩
  · cases hd : b.delete
    · -- surplus points kept, isolated
      have hs : ∀ k, b.i2cShift k = 0 := by intro k; simp [i2cShift, hd]
      simp only [hd, hx, Bool.false_and, Bool.false_eq_true, if_false] at hns
      simp only [if_true, Bool.false_eq_true, if_false, hs, Nat.add_zero, Bool.and_eq_true, sqAdj_iff,
        bne_iff_ne, ne_eq, isExtra_iff b hm hn hx]
      rw [hns] at hi hj
      constructor
      · rintro ⟨⟨⟨⟨⟨_, _, h⟩, h1⟩, h2⟩, h3⟩, h4⟩; exact ⟨h, by omega, by omega⟩
      · rintro ⟨h, h1, h2⟩; exact ⟨⟨⟨⟨⟨hi, hj, h⟩, by omega⟩, by omega⟩, by omega⟩, by omega⟩
    · -- surplus points deleted
      simp only [hd, hx, Bool.and_self, if_true] at hns
      rw [hns] at hi hj
      obtain ⟨e1, l1, n1, n1'⟩ := b.undelete_facts hm hn hx hd i hi
      obtain ⟨e2, l2, n2, n2'⟩ := b.undelete_facts hm hn hx hd j hj
      simp only [if_true, sqAdj_iff, e1, e2, isExtra_iff b hm hn hx]
      constructor
      · rintro ⟨_, _, h⟩; exact ⟨h, by omega, by omega⟩
      · rintro ⟨h, _, _⟩; exact ⟨l1, l2, h⟩

/-- distinct sites have distinct grid coordinates -/
theorem coord_injective (b : Brick) (hm : 1 ≤ b.m) (hn : 1 ≤ b.n) (i j : Nat) (hi : i < b.nsites) (hj : j < b.nsites)
    (hr : b.row i = b.row j) (hc : b.col i = b.col j) : i = j := by
  have hns := b.nsites_eq hm hn
  unfold row col at *
  have e : i + b.i2cShift i = j + b.i2cShift j := by
    rw [← Nat.div_add_mod' (i + b.i2cShift i) b.C, ← Nat.div_add_mod' (j + b.i2cShift j) b.C, hr, hc]
  by_cases hdx : (b.delete && b.hasExtra) = true
  · simp only [hdx, if_true] at hns
    rw [hns] at hi hj
    simp only [Bool.and_eq_true] at hdx
    obtain ⟨e1, -⟩ := b.undelete_facts hm hn hdx.2 hdx.1 i hi
    obtain ⟨e2, -⟩ := b.undelete_facts hm hn hdx.2 hdx.1 j hj
    rw [e1, e2] at e
    exact b.undelete_injective e
  · have hs : ∀ k, b.i2cShift k = 0 := by intro k; simp [i2cShift, hdx]
    simpa [hs] using e

end Brick
end Qib.Lattice
