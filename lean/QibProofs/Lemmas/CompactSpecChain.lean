import QibProofs.Lemmas.CompactSpecTens
/-!
C13, spectral part — helper lemmas, part 2: the strings the encoder emits for a single row (`1 × n`) and a single column
(`n × 1`).  There are no faces: the register has exactly `n` qubits, the vertex operator of site `i` is `Z_i`, the edge operator
of the pair `(i, i+1)` is `− Y_i X_{i+1}` in a row and `+ Y_i X_{i+1}` in a column, and the hopping term of the encoder is
`∓ ½ (X_i X_{i+1} + Y_i Y_{i+1})`.
-/
set_option linter.unusedSimpArgs false
set_option linter.unusedVariables false
open Complex Matrix
namespace Qib.Compact
open Qib.Pauli Qib.Lattice

theorem ofcNsites_row (n : ℕ) : ofcNsites 1 n = n := by unfold ofcNsites; simp
theorem ofcNsites_col (n : ℕ) : ofcNsites n 1 = n := by unfold ofcNsites; simp

/-- the vertex operator of the fermionic site `i` (C order) is `Z` on qubit `i`, for every shape -/
theorem vertexStr_mat (n0 n1 N i : ℕ) (hN : N = ofcNsites n0 n1) (hi : i < n0 * n1) :
    (vertexStr n0 n1 (i / n1) (i % n1)).mat N = zSite N i := by
  have hn1 : 0 < n1 := by
    rcases Nat.eq_zero_or_pos n1 with h | h
    · subst h; simp at hi
    · exact h
  have hidx : vIdx n1 (i / n1) (i % n1) = i := by unfold vIdx; rw [Nat.mul_comm]; exact Nat.div_add_mod i n1
  have hlt : i < ofcNsites n0 n1 := lt_of_lt_of_le hi (nverts_le n0 n1)
  have hl := identity_hasLen (ofcNsites n0 n1)
  apply mat_single_Z N i _ rfl
  · intro k hk
    rw [vertexStr, hidx, zf_setL, hl.1]
    have : (PS.identity (ofcNsites n0 n1)).zf k = false := getD_replicate_false _ _
    by_cases h : k = i
    · simp [h, hlt]
    · simp [h, this]
  · intro k hk
    rw [vertexStr, hidx, xf_setL, hl.2]
    have : (PS.identity (ofcNsites n0 n1)).xf k = false := getD_replicate_false _ _
    by_cases h : k = i
    · simp [h, hlt]
    · simp [h, this]

theorem auxFace_row (n y : ℕ) : auxFace 1 n true 0 y = none := by
  unfold auxFace faceIn; simp

theorem auxFace_col (n x : ℕ) : auxFace n 1 false x 0 = none := by
  unfold auxFace faceIn; simp

/-- `X` on qubit `a`, `Y` on qubit `b` -/
theorem two_mat (N a b : ℕ) (q : Fin 4) (ha : a < N) (hb : b < N) (hab : b ≠ a) :
    (two N a b q).mat N = (-I) ^ q.val • tens2 N b a pauliY pauliX := by
  have := mat_YX N b a hab (two N a b q)
    (fun k hk => by rw [two_zf]; simp [hb])
    (fun k hk => by rw [two_xf]; simp [ha, hb])
  rw [this]; rfl

/-- row: the edge operator of `(0, i) → (0, i+1)` is `− Y_i X_{i+1}` -/
theorem edgeStr_row_mat (n i : ℕ) (hi : i + 1 < n) :
    (edgeStr 1 n 0 i 0 (i + 1)).mat n = (-1 : ℂ) • tens2 n i (i + 1) pauliY pauliX := by
  rw [edgeStr_right, if_pos (by rfl), mat_neg]
  have : hBody 1 n 0 i = two n (i + 1) i 0 := by
    simp [hBody, auxOf, auxFace_row, xyStr, ofcNsites_row, vIdx]
  rw [this, two_mat n (i + 1) i 0 hi (by omega) (by omega)]
  simp

/-- column: the edge operator of `(i, 0) → (i+1, 0)` is `Y_i X_{i+1}` -/
theorem edgeStr_col_mat (n i : ℕ) (hi : i + 1 < n) :
    (edgeStr n 1 i 0 (i + 1) 0).mat n = tens2 n i (i + 1) pauliY pauliX := by
  rw [edgeStr_down]
  have : vBody n 1 i 0 = two n (i + 1) i 0 := by
    simp [vBody, auxOf, auxFace_col, xyStr, ofcNsites_col, vIdx]
  rw [this, two_mat n (i + 1) i 0 hi (by omega) (by omega)]
  simp

/-- the hopping term `(i/2)(E V_{i+1} − E V_i)` for `E = s • Y_i X_{i+1}` -/
theorem hop_of_edge (n i : ℕ) (hi : i + 1 < n) (s : ℂ) (E : Matrix (Fin n → Bool) (Fin n → Bool) ℂ)
    (hE : E = s • tens2 n i (i + 1) pauliY pauliX) :
    (I / 2) • (E * zSite n (i + 1) - E * zSite n i) = s • hopT n i (i + 1) := by
  have hne : i ≠ i + 1 := by omega
  rw [hE, zSite_eq_tens2 n i (i + 1) hne, zSite_eq_tens2' n i (i + 1) hne, Matrix.smul_mul, Matrix.smul_mul, tens2_mul, tens2_mul,
    ← hop_compact_sites n i (i + 1) (by omega) hi hne]
  simp only [mul_one]
  module

end Qib.Compact
