import QibProofs.Lemmas.TNetTreePerm
/-!
Helper lemmas for C07, part 22: totality of the single-shot path – one bond of `as_einsum`, `asEinsum` and the driver's
`contractEinsum` never fail on a consistent network with consistent data (no property statements).
-/
namespace Qib.TNet

theorem foldlM_ok_of_inv {σ β ε : Type} (f : σ → β → Except ε σ) (Inv : σ → Prop) :
    ∀ (l : List β) (s : σ), Inv s → (∀ s x, x ∈ l → Inv s → ∃ s', f s x = .ok s' ∧ Inv s') →
      ∃ res, l.foldlM f s = .ok res ∧ Inv res := by
  intro l
  induction l with
  | nil => intro s hi _; exact ⟨s, rfl, hi⟩
  | cons x xs ih =>
    intro s hi hstep
    obtain ⟨s', hs', hi'⟩ := hstep s x List.mem_cons_self hi
    obtain ⟨res, hres, hir⟩ := ih s' hi' (fun t y hy => hstep t y (List.mem_cons_of_mem _ hy))
    exact ⟨res, by rw [List.foldlM_cons, hs']; exact hres, hir⟩

theorem mem_tidsT {net : Net} (hwf : WF net) {t : Int} (ht : t ∈ dkeys net.tensors) :
    t ∈ (isort (dkeys net.tensors)).erase (-1) ++ [-1] := by
  by_cases h : t = -1
  · simp [h]
  · apply List.mem_append_left
    have hns : (isort (dkeys net.tensors)).Nodup := (isort_perm _).nodup_iff.mpr hwf.tnodup
    rw [hns.mem_erase_iff]
    exact ⟨h, mem_isort.mpr ht⟩

/-- one bond of `as_einsum` succeeds on a table of the right shape -/
theorem as_einsum_bond_total {net : Net} (hwf : WF net) {ndims : List Nat}
    (hnd : List.Forall₂ (fun t d => ∃ x, dget net.tensors t = some x ∧ d = x.bids.length)
      ((isort (dkeys net.tensors)).erase (-1) ++ [-1]) ndims)
    (hTnd : ((isort (dkeys net.tensors)).erase (-1) ++ [-1]).Nodup)
    {k : Int} {bond : SBond} (hB : (k, bond) ∈ net.bonds) {tidx : List (List Nat)}
    (hshape : tidx.map List.length = ndims) :
    ∃ tidx', as_einsum_bond net ((isort (dkeys net.tensors)).erase (-1) ++ [-1]) tidx bond = .ok tidx' ∧
      tidx'.map List.length = ndims := by
  set T := (isort (dkeys net.tensors)).erase (-1) ++ [-1] with hT
  have hbk : bond.bid = k := hwf.bkey _ hB
  have hBd : dget net.bonds k = some bond := dget_of_mem hwf.bnodup hB
  obtain ⟨axes, hs, hlegs⟩ := bondLegs_spec hwf hB
  have hg : getBondAxes net k = .ok axes := (getBondAxes_ok_iff net k axes).mpr ⟨bond, hBd, hbk, hs⟩
  -- the positions of the tensor ids
  have hitpt : ∀ t ∈ bond.tids, indexOf? T t = some (T.idxOf t) := by
    intro t ht
    obtain ⟨x, hx⟩ := hwf.toWF0.tensor_of_ref hBd ht
    have hmem : t ∈ T := mem_tidsT hwf ((dget_isSome_iff _ _).mp (by rw [hx]; rfl))
    simp [indexOf?, hmem]
  set it := bond.tids.map (fun t => T.idxOf t) with hitdef
  -- the current labels
  have hvalpt : ∀ p ∈ it.zip axes, ∃ row m, tidx[p.1]? = some row ∧ row[p.2]? = some m := by
    intro p hp
    obtain ⟨j, hj⟩ := List.mem_iff_getElem?.mp hp
    rw [List.getElem?_zip_eq_some] at hj
    have hjl : j < bond.tids.length := by
      by_contra hc
      rw [List.getElem?_eq_none (by simpa [hitdef] using hc)] at hj; cases hj.1
    have hpz : (bond.tids[j], p.2) ∈ bond.tids.zip axes := by
      rw [List.mem_iff_getElem?]
      exact ⟨j, by rw [List.getElem?_zip_eq_some]; exact ⟨List.getElem?_eq_getElem hjl, hj.2⟩⟩
    obtain ⟨_, _, _, _, x, hx, hxb, _⟩ := hs.entry hpz
    simp only at hx hxb
    have hmem : bond.tids[j] ∈ T := mem_tidsT hwf ((dget_isSome_iff _ _).mp (by rw [hx]; rfl))
    have hidx := List.idxOf_lt_length_of_mem hmem
    have hp1 : p.1 = T.idxOf bond.tids[j] := by
      have := hj.1
      simp only [hitdef, List.getElem?_map, List.getElem?_eq_getElem hjl, Option.map_some, Option.some.injEq] at this
      exact this.symm
    have hTi : T[p.1]'(by rw [hp1]; exact hidx) = bond.tids[j] := by
      simp only [hp1]; exact List.getElem_idxOf hidx
    have hndi := (List.forall₂_iff_get.mp hnd).2 p.1 (by rw [hp1]; exact hidx) (by rw [← hnd.length_eq, hp1]; exact hidx)
    simp only [List.get_eq_getElem, hTi] at hndi
    obtain ⟨x', hx', hd⟩ := hndi
    rw [hx] at hx'; cases hx'
    have ha : p.2 < x.bids.length := by
      by_contra hc; rw [List.getElem?_eq_none (by omega)] at hxb; cases hxb
    have hsome : (lab tidx p.1 p.2).isSome := by
      rw [lab_isSome_iff, hshape]
      exact ⟨_, List.getElem?_eq_getElem (by rw [← hnd.length_eq, hp1]; exact hidx), by rw [hd]; exact ha⟩
    obtain ⟨m, hm⟩ := Option.isSome_iff_exists.mp hsome
    unfold lab at hm
    cases hrow : tidx[p.1]? with
    | none => rw [hrow] at hm; cases hm
    | some row =>
      rw [hrow] at hm
      simp only [Option.bind_some] at hm
      exact ⟨row, m, rfl, hm⟩
  cases h : as_einsum_bond net T tidx bond with
  | ok tidx' => exact ⟨tidx', rfl, by rw [(as_einsum_bond_spec hwf hTnd hB h).1, hshape]⟩
  | error e =>
    exfalso
    unfold as_einsum_bond at h
    simp only [bind, Except.bind, hbk, hg] at h
    generalize hm1 : List.mapM (m := Except Err) (β := Nat) _ bond.tids = res1 at h
    have hres1 : res1 = .ok it := by
      rw [← hm1]
      apply mapM_ok_of_forall
      intro t ht
      rw [hitpt t ht]
      rfl
    rw [hres1] at h
    simp only at h
    generalize hm2 : List.mapM (m := Except Err) (β := Nat) _ (it.zip axes) = res2 at h
    have hres2 : res2 = .ok ((it.zip axes).map (fun p => (lab tidx p.1 p.2).getD 0)) := by
      rw [← hm2]
      apply mapM_ok_of_forall
      intro p hp
      obtain ⟨row, m, h1, h2⟩ := hvalpt p hp
      simp [lab, h1, h2, pure, Except.pure]
    rw [hres2] at h
    simp [pure, Except.pure] at h

end Qib.TNet

namespace Qib.TNet

/-- **`as_einsum` never fails on a consistent network** -/
theorem asEinsum_total {net : Net} (hwf : WF net) : ∃ e, asEinsum net = .ok e := by
  set T := (isort (dkeys net.tensors)).erase (-1) ++ [-1] with hT
  have hns : (isort (dkeys net.tensors)).Nodup := (isort_perm _).nodup_iff.mpr hwf.tnodup
  have hTnd : T.Nodup := by
    rw [hT, List.nodup_append]
    refine ⟨hns.erase _, by simp, ?_⟩
    intro a ha b hb
    simp only [List.mem_singleton] at hb
    subst hb
    exact (hns.mem_erase_iff.mp ha).1
  have hTmem : ∀ t ∈ T, ∃ x, dget net.tensors t = some x := by
    intro t ht
    rw [hT, List.mem_append] at ht
    have hk : t ∈ dkeys net.tensors := by
      rcases ht with ht | ht
      · exact mem_isort.mp (hns.mem_erase_iff.mp ht).2
      · simp only [List.mem_singleton] at ht; rw [ht]; exact hwf.virt
    exact Option.isSome_iff_exists.mp ((dget_isSome_iff _ _).mpr hk)
  set ndims := T.map (fun t => ((dget net.tensors t).map (fun x => x.shape.length)).getD 0) with hndims
  have hnd : List.Forall₂ (fun t d => ∃ x, dget net.tensors t = some x ∧ d = x.bids.length) T ndims := by
    rw [List.forall₂_iff_get]
    refine ⟨by simp [hndims], fun i h1 h2 => ?_⟩
    obtain ⟨x, hx⟩ := hTmem _ (List.getElem_mem h1)
    refine ⟨x, hx, ?_⟩
    simp only [List.get_eq_getElem, hndims, List.getElem_map, hx, Option.map_some, Option.getD_some]
    exact hwf.tshape _ (mem_of_dget_eq_some _ hx)
  obtain ⟨tidx1, hfold, _⟩ := foldlM_ok_of_inv (fun tidx (e : Int × SBond) => as_einsum_bond net T tidx e.2)
    (fun tidx => tidx.map List.length = ndims) net.bonds (blocks ndims 0) (map_length_blocks _ _)
    (fun s x hx hs => as_einsum_bond_total hwf hnd hTnd (k := x.1) (bond := x.2) hx hs)
  cases h : asEinsum net with
  | ok e => exact ⟨e, rfl⟩
  | error err =>
    exfalso
    unfold asEinsum at h
    have hk1 : (dkeys net.tensors).isEmpty = false := by
      cases hh : dkeys net.tensors with
      | nil => have := hwf.virt; rw [hh] at this; cases this
      | cons _ _ => rfl
    have hk2 : (dkeys net.tensors).contains (-1) = true := List.contains_iff_mem.mpr hwf.virt
    simp only [hk1, hk2, Bool.false_eq_true, if_false, Bool.not_true, bind, Except.bind] at h
    generalize hm1 : List.mapM (m := Except Err) (β := Nat) _ T = res1 at h
    have hres1 : res1 = .ok ndims := by
      rw [← hm1]
      apply mapM_ok_of_forall
      intro t ht
      obtain ⟨x, hx⟩ := hTmem t ht
      simp [hx, pure, Except.pure]
    rw [hres1] at h
    simp only at h
    rw [hfold] at h
    simp [pure, Except.pure] at h

end Qib.TNet

namespace Qib.TNet

theorem filterMapM_ok_of_forall {ε γ δ : Type} {f : γ → Except ε (Option δ)} {g : γ → Option δ} (l : List γ)
    (h : ∀ x ∈ l, f x = .ok (g x)) : l.filterMapM f = .ok (l.filterMap g) := by
  induction l with
  | nil => rfl
  | cons x xs ih =>
    rw [List.filterMapM_cons, h x List.mem_cons_self, ih (fun y hy => h y (List.mem_cons_of_mem _ hy))]
    cases hg : g x with
    | none => simp [hg, bind, Except.bind]
    | some b => simp [hg, bind, Except.bind, pure, Except.pure]

section Total
variable {net : Net} {v : STensor} {e : EinsumSpec}

/-- every label seen by the einsum call belongs to a bond -/
theorem EinsumCert.dims_bond (hc : EinsumCert net v e) {dt : Int → DT Int} {ones : List (DT Int × List Nat)}
    (hones : OnesOK v e ones) {l d : Nat} (h : (l, d) ∈ einsumDims (eArgs dt e ++ ones)) :
    ∃ b, (b, l) ∈ eAll net v e := by
  rcases mem_einsumDims_eArgs.mp h with ⟨q, hq, hp⟩ | ⟨a, ha, hp⟩
  · obtain ⟨a, hax⟩ := List.mem_iff_getElem?.mp hp
    rw [List.getElem?_zip_eq_some] at hax
    obtain ⟨T, b, _, _, hm⟩ := hc.leg hq hax.1
    exact ⟨b, hm⟩
  · obtain ⟨j, d', p, rfl, hj, _⟩ := hones a ha
    have hld : l = j ∧ d = d' := by
      have : (l, d) ∈ [j].zip [d'] := hp
      simpa using this
    obtain ⟨rfl, rfl⟩ := hld
    have hp' : p < v.bids.length := by
      rw [← hc.vlab_len]
      by_contra h; rw [List.getElem?_eq_none (by omega)] at hj; cases hj
    refine ⟨v.bids[p], ?_⟩
    unfold eAll
    apply List.mem_append_right
    rw [List.mem_iff_getElem?]
    exact ⟨p, by rw [List.getElem?_zip_eq_some]; exact ⟨List.getElem?_eq_getElem hp', hj⟩⟩

/-- **`contract_einsum` never fails on a consistent network with consistent data** -/
theorem contractEinsum_total {net : Net} {data : Data} (hrep : RepOK net) (hcd : isConsistentData net data = .ok true) :
    ∃ r am, contractEinsum net data = .ok (r, am) := by
  have hwf : WF net := wf_of_consistent hrep (isConsistentData_ok hcd).1
  obtain ⟨v, hvm⟩ := exists_mem_of_mem_dkeys hwf.virt
  have hv := dget_of_mem hwf.tnodup hvm
  simp only at hv
  obtain ⟨e, he⟩ := asEinsum_total hwf
  have hc := asEinsum_cert hwf hv he
  have hdt := dataOK_dataOf hwf.tkey hcd
  have hvlen : v.shape.length = v.bids.length := hwf.tshape _ hvm
  -- the ones-vectors
  set onesF : Nat → Option (DT Int × List Nat) := fun k =>
    if e.tidx.any (·.contains e.idxout[k]!) then none
    else some (DT.ofFn [v.shape[e.axesMap.idxOf k]?.getD 0] (fun _ => (1 : Int)), [e.idxout[k]!]) with honesF
  set ones := (List.range e.idxout.length).filterMap onesF with hones
  have hsurj : ∀ k, k < e.idxout.length → k ∈ e.axesMap := by
    intro k hk
    obtain ⟨j, hj⟩ := List.mem_iff_getElem?.mp (hc.outv _ (List.getElem_mem hk))
    have hjl : j < v.bids.length := by
      rw [← hc.vlab_len]
      by_contra h; rw [List.getElem?_eq_none (by omega)] at hj; cases hj
    obtain ⟨h1, h2, h3⟩ := hc.vlab_get hjl
    rw [hj] at h3
    have := (List.Nodup.getElem_inj_iff hc.nodup).mp (Option.some.inj h3)
    rw [this]; exact List.getElem_mem h1
  have hO : OnesOK v e ones := by
    intro a ha
    rw [hones, List.mem_filterMap] at ha
    obtain ⟨k, hk, hfk⟩ := ha
    have hk' := List.mem_range.mp hk
    simp only [honesF] at hfk
    split at hfk
    · cases hfk
    · cases hfk
      have hmem := hsurj k hk'
      have hlt := List.idxOf_lt_length_of_mem hmem
      have hg : e.axesMap[e.axesMap.idxOf k] = k := List.getElem_idxOf hlt
      have hps : e.axesMap.idxOf k < v.shape.length := by rw [hvlen, ← hc.amlen]; exact hlt
      refine ⟨e.idxout[k]!, _, e.axesMap.idxOf k, rfl, ?_, ?_⟩
      · simp [eVLabels, hlt, hg, hk']
      · rw [List.getElem?_eq_getElem hps]; simp
  -- the einsum call succeeds
  have hE : ∃ r, einsumEval (eArgs (dataOf net data) e ++ ones) e.idxout = .ok r := by
    refine ⟨_, einsumEval_ok_of ?_ ?_ hc.nodup ?_⟩
    · intro a ha
      rcases List.mem_append.mp ha with ha | ha
      · obtain ⟨q, hq, rfl⟩ := List.mem_map.mp ha
        obtain ⟨T, hT, hrow⟩ := hc.rows q hq
        have hne : q.1 ≠ -1 := hc.tid_ne hwf.tnodup (List.of_mem_zip hq).1
        simp only
        rw [(hdt q.1 T hne hT).1, hwf.tshape _ (mem_of_dget_eq_some _ hT), hrow]
      · obtain ⟨j, d, p, rfl, _, _⟩ := hO a ha
        rfl
    · intro p hp q hq hpq
      obtain ⟨b, hb⟩ := hc.dims_bond hO (l := p.1) (d := p.2) hp
      have h1 := hc.dims hwf hv hdt hO (l := p.1) (d := p.2) hp hb
      have h2 := hc.dims hwf hv hdt hO (l := q.1) (d := q.2) hq (by rw [← hpq]; exact hb)
      rw [h1, h2]
    · intro l hl
      obtain ⟨k, hk, rfl⟩ := List.getElem_of_mem hl
      by_cases hany : e.tidx.any (·.contains e.idxout[k]) = true
      · rw [List.any_eq_true] at hany
        obtain ⟨row, hrow, hcon⟩ := hany
        have hlm := List.contains_iff_mem.mp hcon
        obtain ⟨i, hi, rfl⟩ := List.getElem_of_mem hrow
        have hi' : i < e.tids.length := by rw [← hc.len]; exact hi
        have hq : (e.tids[i], e.tidx[i]) ∈ e.tids.zip e.tidx := by
          rw [List.mem_iff_getElem?]
          exact ⟨i, by rw [List.getElem?_zip_eq_some, List.getElem?_eq_getElem hi, List.getElem?_eq_getElem hi']; exact ⟨rfl, rfl⟩⟩
        obtain ⟨T, hT, hrl⟩ := hc.rows _ hq
        simp only at hT hrl
        have hne : e.tids[i] ≠ -1 := hc.tid_ne hwf.tnodup (List.getElem_mem hi')
        obtain ⟨a, ha, hae⟩ := List.getElem_of_mem hlm
        have hsh : a < (dataOf net data e.tids[i]).shape.length := by
          rw [(hdt _ T hne hT).1, hwf.tshape _ (mem_of_dget_eq_some _ hT), hrl]; exact ha
        apply List.mem_map.mpr
        refine ⟨(e.idxout[k], (dataOf net data e.tids[i]).shape[a]), ?_, rfl⟩
        rw [mem_einsumDims_eArgs]
        left
        refine ⟨_, hq, ?_⟩
        rw [List.mem_iff_getElem?]
        exact ⟨a, by rw [List.getElem?_zip_eq_some, List.getElem?_eq_getElem ha, List.getElem?_eq_getElem hsh, hae]; exact ⟨rfl, rfl⟩⟩
      · have hmem : onesF k ∈ (List.range e.idxout.length).map onesF :=
          List.mem_map.mpr ⟨k, List.mem_range.mpr hk, rfl⟩
        have hval : onesF k = some (DT.ofFn [v.shape[e.axesMap.idxOf k]?.getD 0] (fun _ => (1 : Int)), [e.idxout[k]]) := by
          simp only [honesF]
          have hkk : e.idxout[k]! = e.idxout[k] := by simp [hk]
          rw [hkk, if_neg hany]
        have hin : (DT.ofFn [v.shape[e.axesMap.idxOf k]?.getD 0] (fun _ => (1 : Int)), [e.idxout[k]]) ∈ ones := by
          rw [hones, List.mem_filterMap]
          exact ⟨k, List.mem_range.mpr hk, hval⟩
        apply List.mem_map.mpr
        refine ⟨(e.idxout[k], v.shape[e.axesMap.idxOf k]?.getD 0), ?_, rfl⟩
        rw [mem_einsumDims_eArgs]
        right
        exact ⟨_, hin, by simp [DT.ofFn]⟩
  obtain ⟨r, hr⟩ := hE
  refine ⟨r, e.axesMap, ?_⟩
  unfold contractEinsum
  simp only [bind, Except.bind, he]
  have hshape : netShape net = .ok v.shape := by
    simp [netShape, virt, hv, bind, Except.bind, pure, Except.pure]
  generalize hm1 : List.mapM (m := Except Err) (β := DT Int × List Nat) _ (e.tids.zip e.tidx) = res1
  have hres1 : res1 = .ok (eArgs (dataOf net data) e) := by
    rw [← hm1]
    unfold eArgs
    apply mapM_ok_of_forall
    intro q hq
    obtain ⟨T, hT, _⟩ := hc.rows q hq
    have hne : q.1 ≠ -1 := hc.tid_ne hwf.tnodup (List.of_mem_zip hq).1
    have hm := mem_of_dget_eq_some _ hT
    have hne' : T.tid ≠ -1 := by rw [hwf.tkey _ hm]; exact hne
    obtain ⟨r0, d, hr0, hd, _⟩ := (isConsistentData_ok hcd).2 _ hm hne'
    simp only at hr0 hd
    have hb : (q.1 == -1) = false := by simpa using hne
    simp [hT, hr0, hd, pure, Except.pure, dataOf, tensorDict, hb]
  rw [hres1, hshape]
  simp only
  generalize hm2 : List.filterMapM (m := Except Err) (β := DT Int × List Nat) _ (List.range e.idxout.length) = res2
  have hres2 : res2 = .ok ones := by
    rw [← hm2, hones]
    apply filterMapM_ok_of_forall
    intro k hk
    have hk' := List.mem_range.mp hk
    simp only [honesF]
    by_cases hany : e.tidx.any (·.contains e.idxout[k]!) = true
    · rw [if_pos hany, if_pos hany]; rfl
    · have hmem := hsurj k hk'
      have hlt := List.idxOf_lt_length_of_mem hmem
      have hps : e.axesMap.idxOf k < v.shape.length := by rw [hvlen, ← hc.amlen]; exact hlt
      rw [if_neg hany, if_neg hany]
      simp [indexOf?, hmem, List.getElem?_eq_getElem hps, pure, Except.pure]
  rw [hres2]
  simp only
  rw [hr]
  rfl

end Total
end Qib.TNet
