import QibProofs.Lemmas.TNetTreeTotalAssign
/-!
Helper lemmas for C07 totality, part 3: the tracking of the remaining open axes at a node never refuses
(`trackaxes_total`), the node case of `buildTree` assembled from its stages (`buildTree_node_of`), and `buildTree_total`:
on a consistent network `_build_contraction_tree` returns for every scaffold without malformed entries whose leaves are
distinct ids of real tensors (no property statements).
-/
namespace Qib.TNet

/-- **the tracking of the remaining open axes returns**: every remaining open axis is an open axis of a child, its leg
there carries a label, and that label is still among the output labels because its bond is not contracted here -/
theorem trackaxes_total {net : Net} (hwf : WF net) {nL nR : NodeInfo} (hL : InfoCert net nL) (hR : InfoCert net nR)
    (hany : (nL.openaxes.any nR.openaxes.contains) = false)
    {scan : List Int × List BMap × List (Int × Nat)}
    (hscan : (nL.openaxes ++ nR.openaxes).foldlM (bondScanStep net nL nR) ([], [], nL.openaxes ++ nR.openaxes) = .ok scan)
    {st : IdxState} (hst : scan.2.1.foldlM assignBond (idxState0 nL.idxout.length nR.idxout.length) = .ok st) :
    ∃ tr, scan.2.2.mapM (trackFun nL nR st) = .ok tr := by
  have hdisj : ∀ ta ∈ nL.openaxes, ta ∉ nR.openaxes := by
    intro ta hta hta'
    have := List.any_eq_false.mp hany ta hta
    exact this (List.contains_iff_mem.mpr hta')
  have hno : (nL.openaxes ++ nR.openaxes).Nodup := by
    rw [List.nodup_append]
    exact ⟨hL.nodup, hR.nodup, fun a ha b hb hab => hdisj a ha (hab ▸ hb)⟩
  have SI := scan_inv hwf hL hR _ hno hscan
  obtain ⟨bl, bm, oa⟩ := scan
  simp only at SI hst ⊢
  have hmaps : bm = bl.map (bmapOf net nL nR) := SI.maps
  have hopen_ent : ∀ ta, ta ∈ nL.openaxes ∨ ta ∈ nR.openaxes → ∃ e, ent nL nR ta = some e := by
    intro ta h
    unfold ent
    rcases h with h | h
    · exact ⟨_, by rw [if_pos h]⟩
    · by_cases h0 : ta ∈ nL.openaxes
      · exact ⟨_, by rw [if_pos h0]⟩
      · exact ⟨_, by rw [if_neg h0, if_pos h]⟩
  have hent : ∀ b ∈ bl, ∃ e, some e ∈ bmapOf net nL nR b := by
    intro b hb
    obtain ⟨ta, hta, hbt⟩ := (SI.mem b).mp hb
    obtain ⟨e, he⟩ := hopen_ent ta (List.mem_append.mp hta)
    exact ⟨e, List.mem_map.mpr ⟨ta, (mem_bondLegs_iff_legBond hwf).mpr hbt, he⟩⟩
  rw [hmaps] at hst
  have AI := assign_inv hwf hL hR hdisj bl SI.nodup hent hst
  have hfirst : ∀ b ∈ bl, validLeg nL nR (firstEnt net nL nR b) ∧ legBe net nL nR (firstEnt net nL nR b) = b := by
    intro b hb
    obtain ⟨e0, he0⟩ := hent b hb
    cases hfs : (bmapOf net nL nR b).findSome? id with
    | none => exact absurd he0 ((findSome_id_spec _).1.mp hfs e0)
    | some e1 =>
      have : firstEnt net nL nR b = e1 := by simp [firstEnt, hfs]
      rw [this]
      exact entry_spec hwf hL hR ((findSome_id_spec _).2 e1 hfs)
  have hJinj : ∀ b ∈ bl, ∀ b' ∈ bl, Jb net nL nR b = Jb net nL nR b' → b = b' := by
    intro b hb b' hb' he
    have := lam0_inj (hfirst b hb).1 (hfirst b' hb').1 he
    rw [← (hfirst b hb).2, this, (hfirst b' hb').2]
  have hbl : ∀ e, validLeg nL nR e → legBe net nL nR e ∈ bl := by
    intro e hv
    obtain ⟨ta, hta, hb, _, _⟩ := entry_of_leg hwf hL hR hdisj hv
    exact (SI.mem _).mpr ⟨ta, List.mem_append.mpr hta, hb⟩
  have hlab : ∀ e, validLeg nL nR e → lbl st e = Jb net nL nR (legBe net nL nR e) := by
    intro e hv
    rw [AI.lab e hv, if_pos (hbl e hv)]
  have hfully : ∀ b ∈ bl, ((bmapOf net nL nR b).all Option.isSome = true ↔ contractedAt net nL nR b = true) := by
    intro b hb
    rw [contractedAt_iff, bmapOf_all_isSome]
    exact ⟨fun h => ⟨SI.legs b hb, h⟩, fun h => h.2⟩
  -- the label of a bond that is not contracted here stays in the output list
  have hout : ∀ b ∈ bl, contractedAt net nL nR b = false → Jb net nL nR b ∈ st.idxout := by
    intro b hb hc
    rw [AI.out]
    refine ⟨mem_idxout0.mpr ⟨_, (hfirst b hb).1, rfl⟩, ?_⟩
    intro b' hb' hrem
    rcases hrem with ⟨hf, hJ⟩ | ⟨hne, e, he, hl⟩
    · have := hJinj b hb b' hb' hJ
      subst this
      rw [(hfully b hb).mp hf] at hc; cases hc
    · obtain ⟨hv, hbe⟩ := entry_spec hwf hL hR he
      have := lam0_inj hv (hfirst b hb).1 hl
      rw [this, (hfirst b hb).2] at hbe
      subst hbe
      exact hne rfl
  apply mapM_total
  intro ta hta
  obtain ⟨hall, hnc⟩ := (SI.omem ta).mp hta
  simp only at hall hnc
  -- the label of the child leg of `ta` is an output label
  have hkey : ∀ e, validLeg nL nR e → legBond net ta = some (legBe net nL nR e) → lbl st e ∈ st.idxout := by
    intro e hv hb
    rw [hlab e hv]
    have hbb := hbl e hv
    apply hout _ hbb
    cases hc : contractedAt net nL nR (legBe net nL nR e)
    · rfl
    · exact absurd ⟨_, hbb, hb, (hfully _ hbb).mpr hc⟩ hnc
  unfold trackFun
  rw [trackOf_spec hL, trackOf_spec hR]
  by_cases h1 : ta ∈ nL.openaxes
  · obtain ⟨k1, k2⟩ := trk_spec hL h1
    have hk : trk nL ta < st.idxL.length := by rw [AI.lenL]; exact k1
    have hm := hkey (Side.L, trk nL ta) k1 k2
    have hlk : lbl st (Side.L, trk nL ta) = st.idxL[trk nL ta] := by simp [lbl, hk]
    rw [hlk] at hm
    refine ⟨st.idxout.idxOf st.idxL[trk nL ta], ?_⟩
    simp only [h1, if_true, bind, Except.bind, List.getElem?_eq_getElem hk, indexOf?,
      List.contains_iff_mem.mpr hm, pure, Except.pure]
  · have h2 : ta ∈ nR.openaxes := (List.mem_append.mp hall).resolve_left h1
    obtain ⟨k1, k2⟩ := trk_spec hR h2
    have hk : trk nR ta < st.idxR.length := by rw [AI.lenR]; exact k1
    have hm := hkey (Side.R, trk nR ta) k1 k2
    have hlk : lbl st (Side.R, trk nR ta) = st.idxR[trk nR ta] := by simp [lbl, hk]
    rw [hlk] at hm
    refine ⟨st.idxout.idxOf st.idxR[trk nR ta], ?_⟩
    simp only [h1, h2, if_true, if_false, bind, Except.bind, List.getElem?_eq_getElem hk, indexOf?,
      List.contains_iff_mem.mpr hm, pure, Except.pure]

/-- the node case of `buildTree` assembled from its stages (converse of `buildTree_node_full`) -/
theorem buildTree_node_of {net : Net} {sl sr : Scaffold} {k : Int} {tL tR : Tree}
    (hL : buildTree net sl k = .ok tL)
    (hR : buildTree net sr (if tL.info.tid ≥ k then tL.info.tid + 1 else k) = .ok tR)
    (hany : (tL.info.openaxes.any tR.info.openaxes.contains) = false)
    {scan : List Int × List BMap × List (Int × Nat)}
    (hscan : (tL.info.openaxes ++ tR.info.openaxes).foldlM (bondScanStep net tL.info tR.info)
        ([], [], tL.info.openaxes ++ tR.info.openaxes) = .ok scan)
    {st : IdxState} (hst : scan.2.1.foldlM assignBond (idxState0 tL.info.idxout.length tR.info.idxout.length) = .ok st)
    {trackaxes : List Nat} (htr : scan.2.2.mapM (trackFun tL.info tR.info st) = .ok trackaxes) :
    ∃ i, buildTree net (.node sl sr) k = .ok (.node i tL tR) := by
  obtain ⟨bl, bm, oa⟩ := scan
  simp only at hst htr
  unfold idxState0 at hst
  unfold buildTree
  simp only [hL, hR, bind, Except.bind, hany, Bool.false_eq_true, if_false, hscan, hst, pure, Except.pure]
  generalize hm : List.mapM (m := Except Err) (β := Nat) _ oa = res
  have hres : res = .ok trackaxes := by rw [← hm]; exact htr
  rw [hres]
  exact ⟨_, rfl⟩

end Qib.TNet

namespace Qib.TNet

/-- no malformed entry (`assert isinstance(scaffold, Sequence)`, `assert len(scaffold) == 2`) anywhere in the scaffold -/
def noBad : Scaffold → Bool
  | .leaf _ => true
  | .node l r => noBad l && noBad r
  | .bad => false

/-- **the tree builder returns**: on a consistent network, for every scaffold without malformed entries whose leaves are
pairwise distinct ids of real tensors (they need not cover all tensors), and every start value of the id counter -/
theorem buildTree_total {net : Net} (hwf : WF net) : ∀ (s : Scaffold) (k : Int), noBad s = true →
    (scaffoldLeaves s).Nodup → (∀ t ∈ scaffoldLeaves s, t ≠ -1 ∧ t ∈ dkeys net.tensors) →
    ∃ t, buildTree net s k = .ok t := by
  intro s
  induction s with
  | bad => intro k h; simp [noBad] at h
  | leaf tid =>
    intro k _ _ hmem
    obtain ⟨hne, hk⟩ := hmem tid (by simp [scaffoldLeaves])
    obtain ⟨T, hT⟩ := Option.isSome_iff_exists.mp ((dget_isSome_iff _ _).mpr hk)
    have hb : (tid == -1) = false := by simpa using hne
    refine ⟨.leaf (leafInfo tid T.shape.length), ?_⟩
    simp only [buildTree, hb, hT, bind, Except.bind, pure, Except.pure, Bool.false_eq_true, if_false, leafInfo]
  | node sl sr ihl ihr =>
    intro k hnb hnd hmem
    simp only [noBad, Bool.and_eq_true] at hnb
    simp only [scaffoldLeaves] at hnd hmem
    have hndl := (List.nodup_append.mp hnd).1
    have hndr := (List.nodup_append.mp hnd).2.1
    have hdl : ∀ x, x ∈ scaffoldLeaves sl → x ∉ scaffoldLeaves sr := fun x hx hx' =>
      (List.nodup_append.mp hnd).2.2 x hx x hx' rfl
    obtain ⟨tL, hL⟩ := ihl k hnb.1 hndl (fun t ht => hmem t (List.mem_append_left _ ht))
    obtain ⟨tR, hR⟩ := ihr (if tL.info.tid ≥ k then tL.info.tid + 1 else k) hnb.2 hndr
      (fun t ht => hmem t (List.mem_append_right _ ht))
    obtain ⟨okL, iL⟩ := buildTree_ok hwf sl _ tL hL
    obtain ⟨okR, iR⟩ := buildTree_ok hwf sr _ tR hR
    have hlvL := buildTree_leaves sl _ tL hL
    have hlvR := buildTree_leaves sr _ tR hR
    have IL := treeInv hwf tL okL (by rw [hlvL]; exact hndl)
    have IR := treeInv hwf tR okR (by rw [hlvR]; exact hndr)
    -- the open axes of the two subtrees are disjoint
    have hany : (tL.info.openaxes.any tR.info.openaxes.contains) = false := by
      rw [List.any_eq_false]
      intro ta hta hc
      have h1 := IL.i1 ta hta
      have h2 := IR.i1 ta (List.contains_iff_mem.mp hc)
      rw [hlvL] at h1
      rw [hlvR] at h2
      exact hdl _ h1 h2
    have hdisj : ∀ ta ∈ tL.info.openaxes, ta ∉ tR.info.openaxes := by
      intro ta hta hta'
      exact List.any_eq_false.mp hany ta hta (List.contains_iff_mem.mpr hta')
    have hno : (tL.info.openaxes ++ tR.info.openaxes).Nodup := by
      rw [List.nodup_append]
      exact ⟨iL.nodup, iR.nodup, fun a ha b hb hab => hdisj a ha (hab ▸ hb)⟩
    obtain ⟨scan, hscan⟩ := scan_total hwf iL iR hno
    have SI := scan_inv hwf iL iR _ hno hscan
    have hent : ∀ b ∈ scan.1, ∃ e, some e ∈ bmapOf net tL.info tR.info b := by
      intro b hb
      obtain ⟨ta, hta, hbt⟩ := (SI.mem b).mp hb
      have hm := (mem_bondLegs_iff_legBond hwf).mpr hbt
      unfold bmapOf
      rcases List.mem_append.mp hta with h | h
      · exact ⟨_, List.mem_map.mpr ⟨ta, hm, by unfold ent; rw [if_pos h]⟩⟩
      · by_cases h0 : ta ∈ tL.info.openaxes
        · exact ⟨_, List.mem_map.mpr ⟨ta, hm, by unfold ent; rw [if_pos h0]⟩⟩
        · exact ⟨_, List.mem_map.mpr ⟨ta, hm, by unfold ent; rw [if_neg h0, if_pos h]⟩⟩
    obtain ⟨st, hst⟩ := assign_total hwf iL iR hdisj scan.1 SI.nodup hent
    rw [← SI.maps] at hst
    obtain ⟨tr, htr⟩ := trackaxes_total hwf iL iR hany hscan hst
    obtain ⟨tid, h⟩ := buildTree_node_of hL hR hany hscan hst htr
    exact ⟨_, h⟩

end Qib.TNet
