import QibProofs.Lemmas.TNetBridgeDense
/-!
Helper lemmas for C07, part 12: `einsumEval` under permutations – permuting the output labels transposes the result
(`einsumEval_perm_out`), transposing an operand together with its label list changes nothing (`einsumEval_perm_arg`)
(no property statements).
-/
namespace Qib.TNet
variable {α : Type} [CommSemiring α]

/-- `einsumEval` succeeds when its four checks pass -/
theorem einsumEval_ok_of {args : List (DT α × List Nat)} {out : List Nat}
    (h1 : ∀ a ∈ args, a.2.length = a.1.shape.length)
    (h2 : ∀ p ∈ einsumDims args, ∀ q ∈ einsumDims args, p.1 = q.1 → p.2 = q.2)
    (h3 : out.Nodup) (h4 : ∀ l ∈ out, l ∈ (einsumDims args).map (·.1)) :
    einsumEval args out = .ok (DT.ofFn (out.map (fun l => ((einsumDims args).lookup l).getD 1)) (einsumSem args out)) := by
  unfold einsumEval
  have c1 : (args.any fun a => a.2.length != a.1.shape.length) = false := by
    rw [List.any_eq_false]; intro a ha; simp [h1 a ha]
  have c2 : ((einsumDims args).any fun p => (einsumDims args).any fun q => p.1 == q.1 && p.2 != q.2) = false := by
    rw [List.any_eq_false]; intro p hp
    rw [Bool.not_eq_true, List.any_eq_false]; intro q hq
    by_cases he : p.1 = q.1
    · simp [he, h2 p hp q hq he]
    · simp [he]
  have c3 : hasDup out = false := (anyDup_eq_false_iff out).mpr h3
  have c4 : (out.any fun l => !((einsumDims args).map (·.1)).contains l) = false := by
    rw [List.any_eq_false]; intro l hl
    simp only [Bool.not_eq_true, Bool.not_eq_false']
    exact List.contains_iff_mem.mpr (h4 l hl)
  simp only [c1, c2, c3, c4, Bool.false_eq_true, if_false, bind, Except.bind, pure, Except.pure]

/-! ### permutations of `range n` -/

theorem perm_range_lt {sort : List Nat} {n : Nat} (hs : sort.Perm (List.range n)) {p : Nat} (hp : p ∈ sort) : p < n :=
  List.mem_range.mp (hs.mem_iff.mp hp)

theorem perm_range_idxOf {sort : List Nat} {n : Nat} (hs : sort.Perm (List.range n)) {m : Nat} (hm : m < n) :
    ∃ (h : sort.idxOf m < sort.length), sort[sort.idxOf m] = m := by
  have hmem : m ∈ sort := hs.mem_iff.mpr (List.mem_range.mpr hm)
  have h := List.idxOf_lt_length_of_mem hmem
  exact ⟨h, List.getElem_idxOf h⟩

theorem perm_range_idxOf_getElem {sort : List Nat} {n : Nat} (hs : sort.Perm (List.range n)) {k : Nat}
    (hk : k < sort.length) : sort.idxOf sort[k] = k := by
  have hnd : sort.Nodup := hs.nodup_iff.mpr List.nodup_range
  exact List.Nodup.idxOf_getElem hnd k hk

/-- `np.transpose` on an index within the transposed shape -/
theorem DT.transpose_get (d : DT α) (perm : List Nat) (idx : List Nat)
    (h : List.Forall₂ (fun i s => i < s) idx (perm.map (fun p => d.shape[p]?.getD 0))) :
    (d.transpose perm).get idx = d.get ((List.range d.shape.length).map (fun m => idx[perm.idxOf m]?.getD 0)) := by
  unfold DT.transpose
  rw [DT.get_ofFn _ _ _ h]

end Qib.TNet

namespace Qib.TNet
variable {α : Type} [CommSemiring α]

/-- the list re-ordered by `sort` -/
def permL (l : List Nat) (sort : List Nat) : List Nat := sort.map (fun p => l[p]?.getD 0)

theorem pick_inv {l sort res : List Nat} (h : pick l sort = .ok res) : res = permL l sort ∧ ∀ p ∈ sort, p < l.length := by
  unfold pick at h
  have hf := mapM_ok_inv h
  constructor
  · apply List.ext_getElem
    · simp [permL, hf.length_eq]
    · intro k h1 h2
      have hk : k < sort.length := by simpa [permL] using h2
      have := (List.forall₂_iff_get.mp hf).2 k hk h1
      simp only [List.get_eq_getElem] at this
      simp only [permL, List.getElem_map]
      split at this
      · rename_i x hx
        rw [hx]; simpa [pure, Except.pure] using this.symm
      · cases this
  · intro p hp
    obtain ⟨k, hk, rfl⟩ := List.getElem_of_mem hp
    have := (List.forall₂_iff_get.mp hf).2 k hk (by rw [← hf.length_eq]; exact hk)
    simp only [List.get_eq_getElem] at this
    split at this
    · rename_i x hx
      by_contra hc
      rw [List.getElem?_eq_none (by omega)] at hx; cases hx
    · cases this

theorem permL_perm {l sort : List Nat} (hs : sort.Perm (List.range l.length)) : (permL l sort).Perm l := by
  have : l = (List.range l.length).map (fun p => l[p]?.getD 0) := by
    apply List.ext_getElem
    · simp
    · intro k h1 h2; simp [h1]
  conv_rhs => rw [this]
  exact hs.map _

theorem permL_getElem {l sort : List Nat} (hs : sort.Perm (List.range l.length)) {k : Nat} (hk : k < sort.length) :
    ∃ (h1 : k < (permL l sort).length) (h2 : sort[k] < l.length), (permL l sort)[k] = l[sort[k]] := by
  have h2 : sort[k] < l.length := perm_range_lt hs (List.getElem_mem hk)
  refine ⟨by simpa [permL] using hk, h2, ?_⟩
  simp [permL, h2]

/-- **permuting the output labels transposes the result** -/
theorem einsumEval_perm_out {args : List (DT α × List Nat)} {out : List Nat} {r : DT α}
    (h : einsumEval args out = .ok r) {sort : List Nat} (hs : sort.Perm (List.range out.length)) :
    einsumEval args (permL out sort) = .ok (r.transpose sort) := by
  obtain ⟨h1, h2, h3, h4, rfl⟩ := einsumEval_ok h
  have hperm := permL_perm hs
  have hlen : sort.length = out.length := by simpa using hs.length_eq
  rw [einsumEval_ok_of h1 h2 (hperm.nodup_iff.mpr h3) (fun l hl => h4 l (hperm.mem_iff.mp hl))]
  congr 1
  set dimL := fun l => ((einsumDims args).lookup l).getD 1 with hdimL
  have hshape : (permL out sort).map dimL = sort.map (fun p => (out.map dimL)[p]?.getD 0) := by
    simp only [permL, List.map_map]
    apply List.map_congr_left
    intro p hp
    have hp' := perm_range_lt hs hp
    simp [hp']
  unfold DT.transpose
  simp only [DT.ofFn]
  rw [DT.mk.injEq]
  refine ⟨hshape, ?_⟩
  rw [hshape]
  apply NT.ofFn_congr
  intro idx hidx
  have hidxlen : idx.length = sort.length := by simpa using hidx.length_eq
  -- the un-permuted index
  set o := (List.range out.length).map (fun m => idx[sort.idxOf m]?.getD 0) with ho
  have hoin : List.Forall₂ (fun i d => i < d) o (out.map dimL) := by
    rw [List.forall₂_iff_get]
    refine ⟨by simp [ho], fun m hm1 hm2 => ?_⟩
    have hm : m < out.length := by simpa [ho] using hm1
    obtain ⟨hk, hkm⟩ := perm_range_idxOf hs hm
    simp only [List.get_eq_getElem, ho, List.getElem_map, List.getElem_range]
    have := (List.forall₂_iff_get.mp hidx).2 (sort.idxOf m) (by omega) (by simpa using hk)
    simp only [List.get_eq_getElem, List.getElem_map, hkm] at this
    rw [List.getElem?_eq_getElem (by omega)]
    simpa [hm] using this
  show einsumSem args (permL out sort) idx = DT.get ⟨out.map dimL, NT.ofFn (out.map dimL) (einsumSem args out)⟩
    ((List.range (out.map dimL).length).map fun m => idx[sort.idxOf m]?.getD 0)
  have : (List.range (out.map dimL).length).map (fun m => idx[sort.idxOf m]?.getD 0) = o := by simp [ho]
  rw [this]
  have hget := DT.get_ofFn (out.map dimL) (einsumSem args out) o hoin
  unfold DT.ofFn at hget
  rw [hget]
  unfold einsumSem
  have hsum : einsumSummed args (permL out sort) = einsumSummed args out := by
    unfold einsumSummed
    apply List.filter_congr
    intro l _
    have : (permL out sort).contains l = out.contains l := by
      rw [Bool.eq_iff_iff, List.contains_iff_mem, List.contains_iff_mem]
      exact hperm.mem_iff
    rw [this]
  rw [hsum]
  congr 1
  funext l
  by_cases hl : l ∈ out
  · obtain ⟨m, hm, rfl⟩ := List.getElem_of_mem hl
    obtain ⟨hk, hkm⟩ := perm_range_idxOf hs hm
    obtain ⟨g1, g2, g3⟩ := permL_getElem hs hk
    have e1 : out[m] = (permL out sort)[sort.idxOf m] := by rw [g3]; simp only [hkm]
    rw [pin_getElem out o _ h3 m hm (by simpa [ho] using hm)]
    rw [e1, pin_getElem (permL out sort) idx _ (hperm.nodup_iff.mpr h3) _ g1 (by omega)]
    simp only [ho, List.getElem_map, List.getElem_range]
    rw [List.getElem?_eq_getElem (by omega)]
    rfl
  · rw [pin_notMem _ _ _ _ hl, pin_notMem _ _ _ _ (fun h => hl (hperm.mem_iff.mp h))]

end Qib.TNet

namespace Qib.TNet
variable {α : Type} [CommSemiring α]

omit [CommSemiring α] in
theorem einsumDims_split (pre post : List (DT α × List Nat)) (x : DT α × List Nat) :
    einsumDims (pre ++ x :: post) = einsumDims pre ++ (x.2.zip x.1.shape ++ einsumDims post) := by
  simp [einsumDims, List.flatMap_append]

theorem lookup_perm_consistent {d d' : List (Nat × Nat)} (hp : d'.Perm d)
    (hc : ∀ p ∈ d, ∀ q ∈ d, p.1 = q.1 → p.2 = q.2) (l : Nat) : d'.lookup l = d.lookup l := by
  by_cases hl : l ∈ d.map (·.1)
  · have hl' : l ∈ d'.map (·.1) := (hp.map _).mem_iff.mpr hl
    obtain ⟨x, h1, h2⟩ := lookup_mem hl
    obtain ⟨x', h1', h2'⟩ := lookup_mem hl'
    have := hc _ (hp.mem_iff.mp h2') _ h2 rfl
    simp only at this
    rw [h1, h1', this]
  · have hl' : l ∉ d'.map (·.1) := fun h => hl ((hp.map _).mem_iff.mp h)
    have n1 : d.lookup l = none := by
      rw [List.lookup_eq_none_iff]
      intro p hp' 
      simp only [bne_iff_ne, ne_eq]
      intro he
      exact hl (List.mem_map.mpr ⟨p, hp', he.symm⟩)
    have n2 : d'.lookup l = none := by
      rw [List.lookup_eq_none_iff]
      intro p hp'
      simp only [bne_iff_ne, ne_eq]
      intro he
      exact hl' (List.mem_map.mpr ⟨p, hp', he.symm⟩)
    rw [n1, n2]

end Qib.TNet

namespace Qib.TNet
variable {α : Type} [CommSemiring α]

theorem zip_permL (ls sh sort : List Nat) (hlen : ls.length = sh.length) (hs : sort.Perm (List.range ls.length)) :
    ((permL ls sort).zip (permL sh sort)).Perm (ls.zip sh) := by
  have e1 : (permL ls sort).zip (permL sh sort) = sort.map (fun p => (ls[p]?.getD 0, sh[p]?.getD 0)) := by
    simp only [permL, List.zip_map']
  have e2 : ls.zip sh = (List.range ls.length).map (fun p => (ls[p]?.getD 0, sh[p]?.getD 0)) := by
    apply List.ext_getElem
    · simp [hlen]
    · intro k h1 h2
      have hk : k < ls.length := by simp at h1; omega
      have hk' : k < sh.length := by omega
      simp [hk, hk']
  rw [e1, e2]
  exact hs.map _

theorem prodL_cons (x : α) (l : List α) : prodL (x :: l) = x * prodL l := rfl

/-- **transposing an operand together with its labels does not change the einsum** -/
theorem einsumEval_perm_arg {pre post : List (DT α × List Nat)} {t : DT α} {ls out : List Nat} {r : DT α}
    (h : einsumEval (pre ++ (t, ls) :: post) out = .ok r) {sort : List Nat} (hs : sort.Perm (List.range ls.length)) :
    einsumEval (pre ++ (t.transpose sort, permL ls sort) :: post) out = .ok r := by
  obtain ⟨h1, h2, h3, h4, rfl⟩ := einsumEval_ok h
  set args := pre ++ (t, ls) :: post with hargs
  set args' := pre ++ (t.transpose sort, permL ls sort) :: post with hargs'
  have hn : ls.length = t.shape.length := h1 (t, ls) (by simp [hargs])
  have hslen : sort.length = ls.length := by simpa using hs.length_eq
  have htsh : (t.transpose sort).shape = permL t.shape sort := rfl
  have hd : (einsumDims args').Perm (einsumDims args) := by
    rw [hargs, hargs', einsumDims_split, einsumDims_split]
    apply List.Perm.append_left
    apply List.Perm.append_right
    simp only [htsh]
    exact zip_permL ls t.shape sort hn hs
  have hlab : ((einsumDims args').map (·.1)).Perm ((einsumDims args).map (·.1)) := hd.map _
  have h1' : ∀ a ∈ args', a.2.length = a.1.shape.length := by
    intro a ha
    rw [hargs'] at ha
    rcases List.mem_append.mp ha with ha | ha
    · exact h1 a (by rw [hargs]; exact List.mem_append_left _ ha)
    · rcases List.mem_cons.mp ha with rfl | ha
      · simp [htsh, permL]
      · exact h1 a (by rw [hargs]; exact List.mem_append_right _ (List.mem_cons_of_mem _ ha))
  have h2' : ∀ p ∈ einsumDims args', ∀ q ∈ einsumDims args', p.1 = q.1 → p.2 = q.2 :=
    fun p hp q hq => h2 p (hd.mem_iff.mp hp) q (hd.mem_iff.mp hq)
  have h4' : ∀ l ∈ out, l ∈ (einsumDims args').map (·.1) := fun l hl => hlab.mem_iff.mpr (h4 l hl)
  rw [einsumEval_ok_of h1' h2' h3 h4']
  have hlk : ∀ l, (einsumDims args').lookup l = (einsumDims args).lookup l := lookup_perm_consistent hd h2
  congr 1
  simp only [DT.ofFn, hlk]
  rw [DT.mk.injEq]
  refine ⟨rfl, ?_⟩
  apply NT.ofFn_congr
  intro o ho
  unfold einsumSem
  simp only [hlk]
  set dimL := fun l => ((einsumDims args).lookup l).getD 1 with hdimL
  have hsperm : (einsumSummed args' out).Perm (einsumSummed args out) := by
    apply (List.perm_ext_iff_of_nodup ?_ ?_).mpr
    · intro l
      rw [mem_einsumSummed, mem_einsumSummed, hlab.mem_iff]
    · unfold einsumSummed; exact (nodup_eraseDups' _).filter _
    · unfold einsumSummed; exact (nodup_eraseDups' _).filter _
  rw [sumOver_perm _ hsperm]
  apply sumOver_congr_inrange
  intro τ hτ1 hτ2
  -- every label is read within its dimension
  have hin : ∀ l ∈ (einsumDims args).map (·.1), τ l < dimL l := by
    intro l hl
    by_cases hsum : l ∈ einsumSummed args out
    · exact hτ1 l hsum
    · have hlo : l ∈ out := by
        by_contra hc; exact hsum (mem_einsumSummed.mpr ⟨hl, hc⟩)
      obtain ⟨k, hk, rfl⟩ := List.getElem_of_mem hlo
      rw [hτ2 _ hsum, pin_getElem out o _ h3 k hk (by have := ho.length_eq; simp at this; omega)]
      have := (List.forall₂_iff_get.mp ho).2 k (by have := ho.length_eq; simp at this; omega) (by simpa using hk)
      simpa using this
  unfold einsumTerm
  rw [hargs, hargs', List.map_append, List.map_append, prodL_append, prodL_append, List.map_cons, List.map_cons,
    prodL_cons, prodL_cons]
  congr 2
  simp only
  -- the transposed operand
  have hpos : ∀ p, p < ls.length → τ ls[p]! < t.shape[p]! := by
    intro p hp
    have hp' : p < t.shape.length := by omega
    have hm : (ls[p], t.shape[p]) ∈ einsumDims args := by
      rw [hargs, einsumDims_split]
      apply List.mem_append_right
      apply List.mem_append_left
      rw [List.mem_iff_getElem?]
      exact ⟨p, by simp [hp, hp']⟩
    have hl : ls[p] ∈ (einsumDims args).map (·.1) := List.mem_map.mpr ⟨_, hm, rfl⟩
    obtain ⟨d, hd1, hd2⟩ := lookup_mem hl
    have hdd := h2 _ hd2 _ hm rfl
    simp only at hdd
    have := hin _ hl
    simp only [hdimL, hd1, Option.getD_some, hdd] at this
    simpa [hp, hp'] using this
  rw [DT.transpose_get]
  · congr 1
    apply List.ext_getElem
    · simp [hn]
    · intro m hm1 hm2
      have hm : m < ls.length := by simpa using hm2
      obtain ⟨hk, hkm⟩ := perm_range_idxOf hs hm
      simp only [List.getElem_map, List.getElem_range, permL]
      rw [List.getElem?_eq_getElem (by simpa using hk)]
      simp only [List.getElem_map, Option.getD_some, hkm, List.getElem?_eq_getElem hm]
  · rw [List.forall₂_iff_get]
    refine ⟨by simp [permL], fun k hk1 hk2 => ?_⟩
    have hk : k < sort.length := by simpa [permL] using hk1
    have hp := perm_range_lt hs (List.getElem_mem hk)
    have := hpos sort[k] hp
    simp only [List.get_eq_getElem, permL, List.getElem_map]
    have hp' : sort[k] < t.shape.length := by omega
    simpa [hp, hp'] using this

end Qib.TNet
