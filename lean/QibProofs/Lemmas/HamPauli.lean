import QibProofs.Lemmas.HamEdges
import QibProofs.Lemmas.PauliOpSum
import QibModel.Hamiltonian
/-!
C15 helper lemmas, spin models: the strings `sitePS`, their matrices `siteMat`, and the matrix of the
operator produced by the upper-triangle scan (`isingOp`, `heisOp`) as a sum over edges and sites.
Helper lemmas only; the property statements are in `Properties/C15.lean`.
-/
open Complex Matrix
namespace Qib.Ham
open Qib.Pauli

/-! ### `sitePS` is what `from_single_paulis` builds -/

theorem Letter.parse (c : Letter) : PS.parseLetter c.char = some (c.zbit, c.xbit) := by
  cases c <;> decide

theorem ofSinglePaulis_go (n : Nat) (zb xb : Bool) (c : Char) (hc : PS.parseLetter c = some (zb, xb))
    (sites : List Nat) (hs : ∀ i ∈ sites, i < n) (z x : List Bool) :
    PS.ofSinglePaulis.go n z x (sites.map fun (i : Nat) => (c, Int.ofNat i)) =
      .ok (sites.foldl (fun l i => l.set i zb) z, sites.foldl (fun l i => l.set i xb) x) := by
  induction sites generalizing z x with
  | nil => rfl
  | cons i rest ih =>
    have hi : i < n := hs i (List.mem_cons_self ..)
    have hneg : ¬ (Int.ofNat i < 0 ∨ Int.ofNat i ≥ (n : Int)) := by simp; omega
    simp only [List.map_cons, PS.ofSinglePaulis.go, if_neg hneg, hc, List.foldl_cons]
    exact ih (fun j hj => hs j (List.mem_cons_of_mem _ hj)) _ _

/-- bridge to the constructor model of C09: for in-range sites `from_single_paulis(L, (c, i)…)` succeeds and
returns `sitePS L c sites` -/
theorem sitePS_eq_ofSinglePaulis (L : Nat) (c : Letter) (sites : List Nat) (hs : ∀ i ∈ sites, i < L) :
    PS.ofSinglePaulis L (sites.map fun (i : Nat) => (c.char, Int.ofNat i)) 0 = .ok (sitePS L c sites) := by
  unfold PS.ofSinglePaulis
  rw [ofSinglePaulis_go L c.zbit c.xbit c.char c.parse sites hs]
  rfl

theorem sitePS_hasLen (L : Nat) (c : Letter) (sites : List Nat) : (sitePS L c sites).HasLen L := by
  have h : ∀ (b : Bool) (l : List Bool), (sites.foldl (fun l i => l.set i b) l).length = l.length := by
    intro b
    induction sites with
    | nil => intro l; rfl
    | cons i rest ih => intro l; simp [List.foldl_cons, ih]
  constructor <;> simp [sitePS, setBits, h]

theorem sitePS_isHermitian (L : Nat) (c : Letter) (sites : List Nat) : (sitePS L c sites).isHermitian = true := by
  simp [sitePS, PS.isHermitian, QibGen.Pauli.hermMod, QibGen.Pauli.hermEq]

/-! ### matrices of one- and two-site strings -/

/-- `M` on site `i`, identity elsewhere (site 0 = outermost Kronecker factor) -/
def siteMat (L : ℕ) (M : Matrix Bool Bool ℂ) (i : ℕ) : Matrix (Fin L → Bool) (Fin L → Bool) ℂ :=
  tens (fun k : Fin L => if (k : ℕ) = i then M else 1)

/-- the Pauli matrix of a letter -/
noncomputable def Letter.mat : Letter → Matrix Bool Bool ℂ
  | .X => pauliX | .Y => pauliY | .Z => pauliZ

theorem Letter.mat_eq (c : Letter) : c.mat = letter c.zbit c.xbit := by
  cases c
  · exact letter_X.symm
  · exact letter_Y.symm
  · exact letter_Z.symm

theorem getD_set_replicate (L : ℕ) (b : Bool) (i k : ℕ) :
    ((List.replicate L false).set i b).getD k false = (decide (i = k ∧ i < L) && b) := by
  simp only [List.getD_eq_getElem?_getD, List.getElem?_set, List.length_replicate, List.getElem?_replicate]
  by_cases h1 : i = k
  · subst h1
    by_cases h2 : i < L <;> simp [h2]
  · simp only [h1, if_false, false_and, decide_false, Bool.false_and]
    split <;> rfl

theorem getD_set_set_replicate (L : ℕ) (b : Bool) (i j k : ℕ) :
    (((List.replicate L false).set i b).set j b).getD k false =
      ((decide (j = k ∧ j < L) || decide (i = k ∧ i < L)) && b) := by
  have := getD_set_replicate L b i k
  simp only [List.getD_eq_getElem?_getD] at this
  simp only [List.getD_eq_getElem?_getD, List.getElem?_set (l := (List.replicate L false).set i b), List.length_set,
    List.length_replicate]
  by_cases h1 : j = k
  · subst h1
    by_cases h2 : j < L
    · simp [h2]
    · have : ¬ (i = j ∧ i < L) := by omega
      simp [h2, this]
  · simp only [h1, if_false, false_and, decide_false, Bool.false_or]
    exact this

theorem sitePS_one_mat (L : ℕ) (c : Letter) (i : ℕ) : (sitePS L c [i]).mat L = siteMat L c.mat i := by
  simp only [PS.mat, sitePS, pow_zero, one_smul, siteMat, Fin.val_zero]
  congr 1
  funext k
  have hk := k.isLt
  simp only [PS.zf, PS.xf, setBits, List.foldl_cons, List.foldl_nil, getD_set_replicate]
  by_cases h : (k : ℕ) = i
  · subst h; simp [hk, Letter.mat_eq]
  · have : ¬ i = (k : ℕ) := fun e => h e.symm
    simp [h, this, letter_I]

theorem sitePS_two_mat (L : ℕ) (c : Letter) (i j : ℕ) (hij : i ≠ j) :
    (sitePS L c [i, j]).mat L = siteMat L c.mat i * siteMat L c.mat j := by
  simp only [PS.mat, sitePS, pow_zero, one_smul, siteMat, Fin.val_zero, tens_mul]
  congr 1
  funext k
  have hk := k.isLt
  simp only [PS.zf, PS.xf, setBits, List.foldl_cons, List.foldl_nil, getD_set_set_replicate]
  by_cases h1 : (k : ℕ) = i
  · have h2 : ¬ (k : ℕ) = j := fun e => hij (h1.symm.trans e)
    have h3 : ¬ j = (k : ℕ) := fun e => h2 e.symm
    subst h1; simp [hk, h2, h3, Letter.mat_eq]
  · have h1' : ¬ i = (k : ℕ) := fun e => h1 e.symm
    by_cases h2 : (k : ℕ) = j
    · subst h2; simp [hk, h1, h1', Letter.mat_eq]
    · have h2' : ¬ j = (k : ℕ) := fun e => h2 e.symm
      simp [h1, h2, h1', h2', letter_I]

theorem siteMat_conjTranspose (L : ℕ) (c : Letter) (i : ℕ) : (siteMat L c.mat i)ᴴ = siteMat L c.mat i := by
  rw [← sitePS_one_mat]
  exact (hermitian_iff L _).mp (sitePS_isHermitian L c [i])

theorem siteMat_mul_self (L : ℕ) (c : Letter) (i : ℕ) : siteMat L c.mat i * siteMat L c.mat i = 1 := by
  simp only [siteMat, tens_mul]
  rw [← tens_one]
  congr 1
  funext k
  split
  · rw [Letter.mat_eq]; exact letter_mul_self _ _
  · simp

theorem siteMat_comm (L : ℕ) (A B : Matrix Bool Bool ℂ) (i j : ℕ) (hij : i ≠ j) :
    siteMat L A i * siteMat L B j = siteMat L B j * siteMat L A i := by
  simp only [siteMat, tens_mul]
  congr 1
  funext k
  by_cases h1 : (k : ℕ) = i <;> by_cases h2 : (k : ℕ) = j
  · exact absurd (h1.symm.trans h2) hij
  · simp [h1, hij]
  · simp [h2, hij.symm]
  · simp [h1, h2]

theorem pair_term_herm (L : ℕ) (A : Letter) (w : ℂ) (hw : star w = w) (i j : ℕ) (hij : i ≠ j) :
    (w • (siteMat L A.mat i * siteMat L A.mat j))ᴴ = w • (siteMat L A.mat i * siteMat L A.mat j) := by
  rw [Matrix.conjTranspose_smul, Matrix.conjTranspose_mul, siteMat_conjTranspose, siteMat_conjTranspose, hw,
    siteMat_comm L A.mat A.mat j i hij.symm]

theorem site_term_herm (L : ℕ) (A : Letter) (w : ℂ) (hw : star w = w) (i : ℕ) :
    (w • siteMat L A.mat i)ᴴ = w • siteMat L A.mat i := by
  rw [Matrix.conjTranspose_smul, siteMat_conjTranspose, hw]

/-! ### the scan as a sum, for an arbitrary linear denotation of strings -/

section scan
variable {M : Type} [AddCommGroup M] [Module ℂ M] (mat : PS → M)
variable {α : Type} [Add α] (φ : α → ℂ) (hadd : ∀ a b, φ (a + b) = φ a + φ b)
include hadd

theorem edgeRow_matG (L : ℕ) (adj : ℕ → ℕ → ℤ) (A : Letter) (J : α) (i : ℕ) (hi : i < L) (op : PauliOp α) :
    PauliOp.matG mat φ (edgeRow L adj A J i op) = PauliOp.matG mat φ op +
      ∑ j ∈ Finset.Ico (i + 1) L, if adj i j = 0 then 0 else φ J • mat (sitePS L A [i, j]) := by
  unfold edgeRow
  rw [foldl_additive (PauliOp.matG mat φ) _ (fun j => if adj i j = 0 then 0 else φ J • mat (sitePS L A [i, j]))]
  · rw [list_range'_sum]
    have : i + 1 + (L - (i + 1)) = L := by omega
    rw [this]
  · intro s j
    by_cases h : adj i j = 0
    · simp [h]
    · have : (adj i j == 0) = false := by simpa using h
      simp only [this, Bool.false_eq_true, if_false, h, PauliOp.add_matG mat φ hadd]

theorem isingOpAB_matG (L : ℕ) (adj : ℕ → ℕ → ℤ) (J h g : α) (A B : Letter) :
    PauliOp.matG mat φ (isingOpAB L adj J h g A B) =
      ∑ i ∈ Finset.range L, ((∑ j ∈ Finset.Ico (i + 1) L, if adj i j = 0 then 0 else φ J • mat (sitePS L A [i, j])) +
        φ h • mat (sitePS L A [i]) + φ g • mat (sitePS L B [i])) := by
  unfold isingOpAB
  -- the step identity is only needed for `i < L`: restrict through membership by folding over an attached list
  have key : ∀ (l : List ℕ), (∀ i ∈ l, i < L) → ∀ op : PauliOp α,
      PauliOp.matG mat φ (l.foldl (isingStep L adj J h g A B) op) = PauliOp.matG mat φ op +
        (l.map fun i => (∑ j ∈ Finset.Ico (i + 1) L, if adj i j = 0 then 0 else φ J • mat (sitePS L A [i, j])) +
          φ h • mat (sitePS L A [i]) + φ g • mat (sitePS L B [i])).sum := by
    intro l
    induction l with
    | nil => intro _ op; simp
    | cons i l ih =>
      intro hl op
      rw [List.foldl_cons, ih (fun k hk => hl k (List.mem_cons_of_mem _ hk))]
      simp only [isingStep, PauliOp.add_matG mat φ hadd, edgeRow_matG mat φ hadd L adj A J i (hl i (List.mem_cons_self ..)),
        List.map_cons, List.sum_cons]
      abel
  rw [key (List.range L) (fun i hi => List.mem_range.mp hi) [], list_range_sum]
  simp [PauliOp.matG_nil]

theorem heisPass_matG (L : ℕ) (adj : ℕ → ℕ → ℤ) (J h : Letter → α) (A : Letter) (op : PauliOp α) :
    PauliOp.matG mat φ (heisPass L adj J h op A) = PauliOp.matG mat φ op +
      ∑ i ∈ Finset.range L, ((∑ j ∈ Finset.Ico (i + 1) L, if adj i j = 0 then 0 else φ (J A) • mat (sitePS L A [i, j])) +
        φ (h A) • mat (sitePS L A [i])) := by
  unfold heisPass
  have key : ∀ (l : List ℕ), (∀ i ∈ l, i < L) → ∀ op : PauliOp α,
      PauliOp.matG mat φ (l.foldl (heisStep L adj A (J A) (h A)) op) = PauliOp.matG mat φ op +
        (l.map fun i => (∑ j ∈ Finset.Ico (i + 1) L, if adj i j = 0 then 0 else φ (J A) • mat (sitePS L A [i, j])) +
          φ (h A) • mat (sitePS L A [i])).sum := by
    intro l
    induction l with
    | nil => intro _ op; simp
    | cons i l ih =>
      intro hl op
      rw [List.foldl_cons, ih (fun k hk => hl k (List.mem_cons_of_mem _ hk))]
      simp only [heisStep, PauliOp.add_matG mat φ hadd, edgeRow_matG mat φ hadd L adj A (J A) i (hl i (List.mem_cons_self ..)),
        List.map_cons, List.sum_cons]
      abel
  rw [key (List.range L) (fun i hi => List.mem_range.mp hi) op, list_range_sum]

theorem heisOp_matG (L : ℕ) (adj : ℕ → ℕ → ℤ) (J h : Letter → α) :
    PauliOp.matG mat φ (heisOp L adj J h) =
      ∑ A ∈ ({Letter.X, Letter.Y, Letter.Z} : Finset Letter),
        ∑ i ∈ Finset.range L, ((∑ j ∈ Finset.Ico (i + 1) L, if adj i j = 0 then 0 else φ (J A) • mat (sitePS L A [i, j])) +
          φ (h A) • mat (sitePS L A [i])) := by
  simp only [heisOp, List.foldl_cons, List.foldl_nil, heisPass_matG mat φ hadd, PauliOp.matG_nil, zero_add]
  rw [Finset.sum_insert (by decide), Finset.sum_insert (by decide), Finset.sum_singleton]
  abel

end scan

end Qib.Ham
