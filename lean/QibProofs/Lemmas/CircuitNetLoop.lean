import QibProofs.Lemmas.CircuitNetMat
/-!
Helper lemmas for C05 (tensor-network part), part 7: what a successful loop iteration of the executable model
(`gateStep`) consists of, and its value at the level of `TensorNetwork`s with their data dictionaries.
No property statements.
-/
set_option linter.unusedSimpArgs false
set_option linter.unusedSectionVars false
namespace Qib.CircuitNet
open Qib.TNet Qib.GateNet Qib.Embed

/-! ### `TensorNetwork.is_consistent` -/
section Cons
variable {α : Type}

theorem isConsistentDataTN_ok {tn : TN α} (h : GateNet.isConsistentData tn = .ok true) :
    isConsistent tn.net = .ok true ∧ ∀ e ∈ tn.net.tensors, e.2.tid ≠ -1 →
      ∃ r d, e.2.dataref = some r ∧ tn.data.lookup r = some d ∧ d.shape = e.2.shape := by
  unfold GateNet.isConsistentData at h
  cases hc : isConsistent tn.net with
  | error err => rw [hc] at h; cases h
  | ok b =>
    rw [hc] at h
    cases b with
    | false => cases h
    | true =>
      refine ⟨rfl, ?_⟩
      simp only [Bool.not_true, Bool.false_eq_true, if_false, bind, Except.bind, pure, Except.pure] at h
      have h' := Except.ok.inj h
      intro e he hne
      have := List.all_eq_true.mp h' e he
      simp only [Bool.or_eq_true, beq_iff_eq] at this
      rcases this with h1 | h1
      · exact absurd h1 hne
      · split at h1
        · cases h1
        · rename_i r hr
          split at h1
          · cases h1
          · rename_i d hd
            exact ⟨r, d, hr, hd, by simpa using h1⟩

/-- with consistent data every data reference of a real tensor is a key of the dictionary -/
theorem dataRefs_keys {tn : TN α} (hk : ∀ e ∈ tn.net.tensors, e.2.tid = e.1) (h : GateNet.isConsistentData tn = .ok true) :
    ∀ r ∈ dataRefs tn.net, ∃ k, r = some k ∧ k ∈ dkeys tn.data := by
  intro r hr
  simp only [dataRefs, realTensors, List.mem_map, List.mem_filter] at hr
  obtain ⟨t, ⟨e, ⟨he, hne⟩, rfl⟩, rfl⟩ := hr
  have hne' : e.2.tid ≠ -1 := by rw [hk e he]; simpa using hne
  obtain ⟨k, d, hk', hd, _⟩ := (isConsistentDataTN_ok h).2 e he hne'
  exact ⟨k, hk', mem_dkeys_of_mem (mem_of_lookup_eq_some hd)⟩

end Cons

/-! ### anatomy of a successful loop iteration -/
section Anatomy
variable {α : Type} [Zero α] [One α] [Add α] [Mul α] [DecidableEq α]

omit [Zero α] [One α] [Add α] [Mul α] [DecidableEq α] in
theorem isPermOf_perm {a b : List Int} (h : isPermOf a b = true) : a.Perm b := by
  simp only [isPermOf, beq_iff_eq] at h
  exact ((isort_perm a).symm.trans (by rw [h])).trans (isort_perm b)

omit [Zero α] [One α] [Add α] [Mul α] in
/-- a successful `TensorNetwork.merge` -/
theorem mergeTN_ok {self other tn' : TN α} {join : List (Int × Int)} {tor bor : List Int}
    (h : mergeTN self other join tor bor = .ok tn') :
    C08.OrdersOK self.net other.net tor bor ∧ merge self.net other.net join tor bor = .ok tn'.net ∧
      dataClash self.data other.data = false ∧ tn'.data = dupdate self.data other.data := by
  unfold mergeTN at h
  by_cases ho : (isPermOf tor (sharedTids self.net other.net) && isPermOf bor (sharedBids self.net other.net)) = true
  · simp only [ho, Bool.not_true, Bool.false_eq_true, if_false, bind, Except.bind, pure, Except.pure] at h
    cases hm : merge self.net other.net join tor bor with
    | error e => rw [hm] at h; simp [liftT] at h
    | ok net =>
      rw [hm] at h
      simp only [liftT] at h
      by_cases hc : dataClash self.data other.data = true
      · simp [hc, throw, throwThe, MonadExceptOf.throw] at h
      · simp only [hc, Bool.false_eq_true, if_false, Except.ok.injEq] at h
        subst h
        rw [Bool.and_eq_true] at ho
        exact ⟨⟨isPermOf_perm ho.1, isPermOf_perm ho.2⟩, rfl, by simpa using hc, rfl⟩
  · simp [ho, throw, throwThe, MonadExceptOf.throw, bind, Except.bind] at h

/-- everything a successful `gateStepCore` did -/
structure StepData (fields : List FieldSpec) (n : Nat) (tn : TN α) (p : PGate α) (tn' : TN α) : Prop where
  found : ∀ x ∈ p.particles.map (mapParticleToWire fields), (0 : Int) ≤ x
  gate : ∃ gtn net' perm, gateNet p.g = .ok gtn ∧
    numOpenAxes (rerefNet p.ref0 gtn.net) = .ok (2 * p.particles.length) ∧
    C08.OrdersOK tn.net (rerefNet p.ref0 gtn.net) p.tor p.bor ∧
    merge tn.net (rerefNet p.ref0 gtn.net) (joinOf (p.particles.map (mapParticleToWire fields))) p.tor p.bor = .ok net' ∧
    dataClash tn.data (rerefTN p.ref0 gtn).data = false ∧
    permOf n (p.particles.map (mapParticleToWire fields)) = .ok perm ∧
    transpose net' (some ((argsort (perm.map Int.toNat)).map Int.ofNat)) = .ok tn'.net ∧
    tn'.data = dupdate tn.data (rerefTN p.ref0 gtn).data

theorem gateStepCore_ok {fields : List FieldSpec} {n : Nat} {tn tn' : TN α} {p : PGate α}
    (h : gateStepCore fields n tn p = .ok tn') : StepData fields n tn p tn' := by
  unfold gateStepCore at h
  simp only [bind, Except.bind] at h
  by_cases hneg : (p.particles.map (mapParticleToWire fields)).any (· < 0) = true
  · simp [hneg, throw, throwThe, MonadExceptOf.throw] at h
  · simp only [hneg, Bool.false_eq_true, if_false] at h
    have hfound : ∀ x ∈ p.particles.map (mapParticleToWire fields), (0 : Int) ≤ x := by
      intro x hx
      obtain ⟨q, hq, rfl⟩ := List.mem_map.mp hx
      have h0 : ∀ x ∈ p.particles, 0 ≤ mapParticleToWire fields x := by simpa using hneg
      exact h0 q hq
    cases hg : gateNet p.g with
    | error e => rw [hg] at h; simp [liftG] at h
    | ok gtn =>
      rw [hg] at h
      simp only [liftG] at h
      cases hno : numOpenAxes (rerefTN p.ref0 gtn).net with
      | error e => rw [hno] at h; simp [liftT] at h
      | ok k =>
        rw [hno] at h
        simp only [liftT] at h
        by_cases hk : (k != 2 * p.particles.length) = true
        · simp [hk, throw, throwThe, MonadExceptOf.throw] at h
        · simp only [hk, Bool.false_eq_true, if_false] at h
          have hk' : k = 2 * p.particles.length := by simpa using hk
          subst hk'
          cases hm : mergeTN tn (rerefTN p.ref0 gtn)
              ((p.particles.map (mapParticleToWire fields)).zip (irange' p.particles.length p.particles.length))
              p.tor p.bor with
          | error e => rw [hm] at h; cases h
          | ok tn1 =>
            rw [hm] at h
            simp only at h
            cases hp : permOf n (p.particles.map (mapParticleToWire fields)) with
            | error e => rw [hp] at h; cases h
            | ok perm =>
              rw [hp] at h
              simp only at h
              unfold transposeTN at h
              simp only [bind, Except.bind] at h
              cases ht : transpose tn1.net (some ((argsort (perm.map Int.toNat)).map Int.ofNat)) with
              | error e => rw [ht] at h; simp [liftT] at h
              | ok net2 =>
                rw [ht] at h
                simp only [liftT, pure, Except.pure, Except.ok.injEq] at h
                subst h
                obtain ⟨ho, hmm, hcl, hd⟩ := mergeTN_ok hm
                have hj : (p.particles.map (mapParticleToWire fields)).zip (irange' p.particles.length p.particles.length) =
                    joinOf (p.particles.map (mapParticleToWire fields)) := by
                  simp [joinOf]
                rw [hj] at hmm
                exact ⟨hfound, gtn, tn1.net, perm, hg, hno, ho, hmm, hcl, hp, ht, hd⟩

theorem gateStep_ok {fields : List FieldSpec} {n : Nat} {tn tn' : TN α} {p : PGate α}
    (h : gateStep fields n tn p = .ok tn') :
    gateStepCore fields n tn p = .ok tn' ∧ GateNet.isConsistentData tn' = .ok true := by
  unfold gateStep at h
  simp only [bind, Except.bind] at h
  cases hc : gateStepCore fields n tn p with
  | error e => rw [hc] at h; cases h
  | ok t1 =>
    rw [hc] at h
    simp only at h
    unfold assertConsistent at h
    simp only [bind, Except.bind] at h
    cases hd : GateNet.isConsistentData t1 with
    | error e => rw [hd] at h; simp [liftT] at h
    | ok b =>
      rw [hd] at h
      cases b with
      | false => simp [liftT, throw, throwThe, MonadExceptOf.throw] at h
      | true =>
        simp only [liftT, Bool.not_true, Bool.false_eq_true, if_false, pure, Except.pure, Except.ok.injEq] at h
        subst h
        exact ⟨rfl, hd⟩

end Anatomy

/-! ### what the gate networks bring along -/
section Gate
variable {α : Type} [CommSemiring α]

/-- every gate network is well formed (the case analysis of `C06_gateNet_consistent`, before the bridge to the
executable check) -/
theorem gateNet_wf (g : G α) (tn : TN α) (h : gateNet g = .ok tn) : WF tn.net := by
  cases g with
  | leaf w m => simp only [gateNet, Except.ok.injEq] at h; subst h; exact wrap_wf _
  | dense w m => simp only [gateNet, Except.ok.injEq] at h; subst h; exact wrap_wf _
  | phase n u un =>
    simp only [gateNet] at h
    split at h
    · cases h
    · simp only [Except.ok.injEq] at h; subst h; exact phase_wf n
  | prepare n x m tr => simp only [gateNet, Except.ok.injEq] at h; subst h; exact prepare_wf n tr
  | block w m => simp [gateNet] at h
  | controlled cs t =>
    simp only [gateNet] at h
    rcases hf : flattenCtrl cs t with ⟨cs', t'⟩
    rw [hf] at h
    cases cs' with
    | nil => cases h
    | cons c0 rest => simp only [Except.ok.injEq] at h; subst h; exact ctrl_wf c0 rest t'.wires
  | multiplexed nc ts =>
    simp only [gateNet] at h
    split at h
    · cases h
    · split at h
      · cases h
      · simp only [Except.ok.injEq] at h; subst h; exact mplx_wf nc _

theorem crossRefs_spec (cs : List Bool) : (crossRefs cs).Nodup ∧ ∀ r ∈ crossRefs cs, r = 2 ∨ r = 3 := by
  refine ⟨nodup_eraseDups_int _, ?_⟩
  intro r hr
  simp only [crossRefs, List.mem_eraseDups, List.mem_map] at hr
  obtain ⟨c, _, rfl⟩ := hr
  cases c <;> simp

/-- the data dictionary of a gate network has distinct keys -/
theorem gateNet_data_nodup (g : G α) (tn : TN α) (h : gateNet g = .ok tn) : (dkeys tn.data).Nodup := by
  cases g with
  | leaf w m => simp only [gateNet, Except.ok.injEq] at h; subst h; simp [wrapTN, dkeys]
  | dense w m => simp only [gateNet, Except.ok.injEq] at h; subst h; simp [wrapTN, dkeys]
  | phase n u un =>
    simp only [gateNet] at h
    split at h
    · cases h
    · simp only [Except.ok.injEq] at h; subst h; simp [dkeys]
  | prepare n x m tr => simp only [gateNet, Except.ok.injEq] at h; subst h; simp [dkeys]
  | block w m => simp [gateNet] at h
  | controlled cs t =>
    simp only [gateNet] at h
    rcases hf : flattenCtrl cs t with ⟨cs', t'⟩
    rw [hf] at h
    cases cs' with
    | nil => cases h
    | cons c0 rest =>
      simp only [Except.ok.injEq] at h; subst h
      obtain ⟨h1, h2⟩ := crossRefs_spec rest
      have hk : dkeys ((crossRefs rest).map (fun r => (r, DT.ofFn [2, 2, 2, 2] (ctrlSem t'.wires t'.mat r)))) = crossRefs rest := by
        simp [dkeys, List.map_map, Function.comp_def]
      cases c0
      · simp only [ctrlTN, Bool.not_false, if_true, dkeys, List.map_append, List.map_cons, List.map_nil,
          List.cons_append, List.nil_append]
        rw [show List.map (fun x => x.1) ((crossRefs rest).map (fun r => (r, DT.ofFn [2, 2, 2, 2] (ctrlSem t'.wires t'.mat r))))
          = crossRefs rest from hk]
        refine List.nodup_cons.mpr ⟨?_, List.nodup_cons.mpr ⟨?_, h1⟩⟩
        · simp only [List.mem_cons, not_or]
          exact ⟨by decide, fun hm => by rcases h2 _ hm with h | h <;> cases h⟩
        · exact fun hm => by rcases h2 _ hm with h | h <;> cases h
      · simp only [ctrlTN, Bool.not_true, Bool.false_eq_true, if_false, dkeys, List.map_append, List.map_cons, List.map_nil,
          List.cons_append, List.nil_append, List.append_nil]
        rw [show List.map (fun x => x.1) ((crossRefs rest).map (fun r => (r, DT.ofFn [2, 2, 2, 2] (ctrlSem t'.wires t'.mat r))))
          = crossRefs rest from hk]
        exact List.nodup_cons.mpr ⟨fun hm => (by rcases h2 _ hm with h | h <;> cases h), h1⟩
  | multiplexed nc ts =>
    simp only [gateNet] at h
    split at h
    · cases h
    · split at h
      · cases h
      · simp only [Except.ok.injEq] at h; subst h; simp [dkeys]

end Gate

/-! ### the value after one loop iteration, with the data dictionaries -/
section StepValue
variable {α : Type} [CommSemiring α] [DecidableEq α]

theorem dataRefs_reref (ref0 : Int) (net : Net) :
    dataRefs (rerefNet ref0 net) = (dataRefs net).map (fun r => r.map (reref ref0)) := by
  simp only [dataRefs, realTensors_reref, List.map_map]
  rfl

theorem dkeys_reref_data (ref0 : Int) (tn : TN α) :
    dkeys (rerefTN ref0 tn).data = (dkeys tn.data).map (reref ref0) := by
  simp [rerefTN, dkeys, List.map_map, Function.comp_def]

/-- the state invariant of the loop: a consistent network with `2n` open axes of dimension 2 and consistent data -/
structure StateOK (n : Nat) (tn : TN α) : Prop where
  inv : C08.Inv tn.net
  shape : ∃ v, dget tn.net.tensors (-1) = some v ∧ v.shape = rep2 (2 * n)
  data : GateNet.isConsistentData tn = .ok true

/-- **one loop iteration of `Circuit.as_tensornet`** (executable model, with data): the new network is consistent with
`2n` open axes of dimension 2, and its value at outputs `o`, inputs `i` is the sum over the gate's input index `t` of
(old network at the outputs overwritten by `t` on the gate's wires) × (gate network at (outputs on the wires, `t`)). -/
theorem gateStep_value {fields : List FieldSpec} {n : Nat} {tn tn' : TN α} {p : PGate α}
    (hst : StateOK n tn) (h : gateStep fields n tn p = .ok tn')
    (htwo : C06.TwoAxesPerWire p.g)
    (hfresh : ∀ gtn, gateNet p.g = .ok gtn → ∀ k ∈ dkeys gtn.data, k ≠ 0 → k ≠ p.ref0)
    (hwires : ∀ x ∈ p.particles.map (mapParticleToWire fields), x.toNat < n) :
    StateOK n tn' ∧ p.particles.length = p.g.wires ∧ ∃ gtn, gateNet p.g = .ok gtn ∧
      ∀ o i : List Nat, o.length = n → i.length = n → Bits o → Bits i →
        full tn'.net tn'.D (o ++ i) = ((allIdx (rep2 p.particles.length)).map (fun t =>
          full tn.net tn.D (setW o ((p.particles.map (mapParticleToWire fields)).map Int.toNat) t ++ i) *
          full gtn.net gtn.D (pickD o 0 ((p.particles.map (mapParticleToWire fields)).map Int.toNat) ++ t))).sum := by
  obtain ⟨hcore, hcons'⟩ := gateStep_ok h
  obtain ⟨hfound, gtn, net', perm, hg, hno, ho, hm, hcl, hp, ht, hd⟩ := gateStepCore_ok hcore
  set iwire := p.particles.map (mapParticleToWire fields) with hiwire
  have hlen : iwire.length = p.particles.length := by simp [hiwire]
  obtain ⟨va, hva, hsa⟩ := hst.shape
  -- the gate network
  have hgwf : WF gtn.net := gateNet_wf p.g gtn hg
  have hginv : C08.Inv (rerefNet p.ref0 gtn.net) := inv_reref ((C08.C08_inv_iff_wf _).mpr hgwf)
  obtain ⟨hgno, hgsh⟩ := htwo gtn hg
  obtain ⟨vb, hvb⟩ := hgwf.virt_get
  have hvb' : dget (rerefNet p.ref0 gtn.net).tensors (-1) = some (rerefTensor p.ref0 vb) := by
    rw [dget_reref, hvb]; rfl
  have hsb0 : vb.shape = rep2 (2 * p.g.wires) := by
    unfold netShape virt at hgsh; rw [hvb] at hgsh; exact Except.ok.inj hgsh
  have hwl : p.particles.length = p.g.wires := by
    rw [numOpenAxes_eq hvb'] at hno
    have := Except.ok.inj hno
    simp only [rerefTensor, hsb0, length_rep2] at this
    omega
  have hsb : (rerefTensor p.ref0 vb).shape = rep2 (2 * iwire.length) := by
    simp only [rerefTensor, hsb0, hlen, hwl]
  have hstep := step_full hst.inv hginv ho hva hvb' hsa hsb hm hp ht tn'.D
  obtain ⟨hinv', hshape', hval⟩ := hstep
  refine ⟨⟨hinv', hshape', hcons'⟩, hwl, gtn, hg, ?_⟩
  intro o i hol hil hob hib
  have hwlt : ∀ w ∈ iwire.map Int.toNat, w < o.length := by
    intro w hw; obtain ⟨x, hx, rfl⟩ := List.mem_map.mp hw; rw [hol]; exact hwires x hx
  rw [hval (o ++ i) (by simp [hol, hil]; omega) (hob.append hib), hlen]
  apply congrArg
  apply List.map_congr_left
  intro t _
  rw [setW_append o i _ t hwlt, pickD_append_left o i 0 _ hwlt]
  -- data: the old network reads the old dictionary, the gate network its own
  have hwfa := (C08.C08_inv_iff_wf _).mp hst.inv
  have hgdata := C06.C06_gateNet_consistent_data p.g gtn hg
  have hgnd := gateNet_data_nodup p.g gtn hg
  have hfr := hfresh gtn hg
  have hinj : ∀ a ∈ dkeys gtn.data, ∀ b ∈ dkeys gtn.data, reref p.ref0 a = reref p.ref0 b → a = b := by
    intro a ha b hb hab
    unfold reref at hab
    by_cases h1 : a = 0 <;> by_cases h2 : b = 0
    · rw [h1, h2]
    · simp only [h1, h2, if_true, if_false] at hab; exact absurd hab.symm (hfr b hb h2)
    · simp only [h1, h2, if_true, if_false] at hab; exact absurd hab (hfr a ha h1)
    · simpa [h1, h2] using hab
  have hnd' : (dkeys (rerefTN p.ref0 gtn).data).Nodup := by
    rw [dkeys_reref_data]
    exact List.Nodup.map_on (fun a ha b hb hab => hinj a ha b hb hab) hgnd
  have hDeq : tn'.D = (⟨tn.net, dupdate tn.data (rerefTN p.ref0 gtn).data⟩ : TN α).D := by
    funext r idx; simp only [TN.D, hd]
  congr 1
  · -- old network
    apply full_congr_data
    intro r hr
    obtain ⟨k, rfl, hk⟩ := dataRefs_keys hwfa.tkey hst.data r hr
    rw [hDeq, D_dupdate_left tn.data _ hnd' hcl tn.net k hk]
  · -- gate network
    have e1 : full (rerefNet p.ref0 gtn.net) tn'.D (pickD o 0 (iwire.map Int.toNat) ++ t) =
        full (rerefNet p.ref0 gtn.net) (rerefTN p.ref0 gtn).D (pickD o 0 (iwire.map Int.toNat) ++ t) := by
      apply full_congr_data
      intro r hr
      rw [dataRefs_reref] at hr
      obtain ⟨r0, hr0, rfl⟩ := List.mem_map.mp hr
      obtain ⟨k, rfl, hk⟩ := dataRefs_keys hgwf.tkey hgdata r0 hr0
      simp only [Option.map_some]
      have hk' : reref p.ref0 k ∈ dkeys (rerefTN p.ref0 gtn).data := by
        rw [dkeys_reref_data]; exact List.mem_map.mpr ⟨k, hk, rfl⟩
      rw [hDeq, D_dupdate_right tn.data _ hnd' tn.net _ hk']
      rfl
    rw [e1, full_reref]
    apply full_congr_data
    intro r hr
    obtain ⟨k, rfl, hk⟩ := dataRefs_keys hgwf.tkey hgdata r hr
    apply D_reref p.ref0 gtn hfr
    intro k' hk'
    cases hk'
    by_cases h0 : k = 0
    · exact Or.inl h0
    · exact Or.inr (hfr k hk h0)

end StepValue

end Qib.CircuitNet
