import QibProofs.Lemmas.TNetPublic2
/-!
Helper lemmas for C08 (public stage), part 5: `TensorNetwork.wrap` in closed form and its well-formedness (no property statements).
-/
namespace Qib.TNet

/-- the axes labels `range(a.ndim)` -/
def wrapAxes (n : Nat) : List Int := (List.range n).map Int.ofNat

/-- the network `wrap` builds for an array of shape `shape` -/
def wrapped (shape : List Nat) (r : Option Int) : Net :=
  ⟨[(0, ⟨0, shape, wrapAxes shape.length, r⟩), (-1, ⟨-1, shape, wrapAxes shape.length, none⟩)],
   (wrapAxes shape.length).map (fun i => (i, ⟨i, [-1, 0]⟩))⟩

theorem foldlM_wrap_bonds (ts : List (Int × STensor)) (l : List Nat) (hl : l.Nodup) (bs : List (Int × SBond))
    (hd : ∀ i ∈ l, Int.ofNat i ∉ dkeys bs) :
    l.foldlM (fun net i => do addBond net (← mkBond (Int.ofNat i) [-1, 0])) (⟨ts, bs⟩ : Net) =
      .ok ⟨ts, bs ++ l.map (fun i => (Int.ofNat i, ⟨Int.ofNat i, [-1, 0]⟩))⟩ := by
  induction l generalizing bs with
  | nil => simp [pure, Except.pure]
  | cons i l ih =>
    rw [List.nodup_cons] at hl
    have hnk : dhas bs (Int.ofNat i) = false := (dhas_false_iff _ _).mpr (hd i List.mem_cons_self)
    have e1 : mkBond (Int.ofNat i) [-1, 0] = .ok ⟨Int.ofNat i, [-1, 0]⟩ := rfl
    have e2 : addBond ⟨ts, bs⟩ ⟨Int.ofNat i, [-1, 0]⟩ = .ok ⟨ts, bs ++ [(Int.ofNat i, ⟨Int.ofNat i, [-1, 0]⟩)]⟩ := by
      unfold addBond; simp only [hnk, Bool.false_eq_true, if_false]
    rw [List.foldlM_cons, e1]
    simp only [bind, Except.bind, e2]
    refine (ih hl.2 _ ?_).trans ?_
    rotate_left
    · simp
    · intro j hj
      simp only [dkeys_append, dkeys_cons, dkeys_nil, List.mem_append, List.mem_singleton, not_or]
      refine ⟨hd j (List.mem_cons_of_mem _ hj), fun e => hl.1 ?_⟩
      have : j = i := Int.ofNat.inj e
      exact this ▸ hj

theorem wrap_eq (shape : List Nat) (r : Option Int) : wrap shape r = .ok (wrapped shape r) := by
  unfold wrap
  have hlen : (List.map Int.ofNat (List.range shape.length)).length = shape.length := by simp
  have m1 : mkTensor 0 shape (List.map Int.ofNat (List.range shape.length)) r =
      .ok ⟨0, shape, List.map Int.ofNat (List.range shape.length), r⟩ := by
    unfold mkTensor; simp
  have m2 : mkTensor (-1) shape (List.map Int.ofNat (List.range shape.length)) none =
      .ok ⟨-1, shape, List.map Int.ofNat (List.range shape.length), none⟩ := by
    unfold mkTensor; simp
  simp only [m1, m2, bind, Except.bind]
  have a1 : addTensor Net.empty ⟨0, shape, List.map Int.ofNat (List.range shape.length), r⟩ =
      .ok ⟨[(0, ⟨0, shape, List.map Int.ofNat (List.range shape.length), r⟩)], []⟩ := rfl
  rw [a1]
  simp only
  have a2 : addTensor ⟨[(0, ⟨0, shape, List.map Int.ofNat (List.range shape.length), r⟩)], []⟩
      ⟨-1, shape, List.map Int.ofNat (List.range shape.length), none⟩ =
      .ok ⟨[(0, ⟨0, shape, List.map Int.ofNat (List.range shape.length), r⟩),
            (-1, ⟨-1, shape, List.map Int.ofNat (List.range shape.length), none⟩)], []⟩ := rfl
  rw [a2]
  simp only
  refine (foldlM_wrap_bonds _ _ List.nodup_range [] (by simp)).trans ?_
  simp [wrapped, wrapAxes, List.map_map, Function.comp_def]

theorem perm_wrap_legs (l : List Int) :
    (l.map (fun b => ((0 : Int), b)) ++ l.map (fun b => ((-1 : Int), b))).Perm
      (l.flatMap (fun i => [((-1 : Int), i), ((0 : Int), i)])) := by
  induction l with
  | nil => simp
  | cons x l ih =>
    simp only [List.map_cons, List.flatMap_cons, List.cons_append]
    refine (List.Perm.cons _ List.perm_middle).trans ?_
    refine (List.Perm.swap _ _ _).trans ?_
    exact (ih.cons _).cons _

theorem mem_zip_wrapAxes {n : Nat} {shape : List Nat} {p : Int × Nat} (h : p ∈ (wrapAxes n).zip shape) :
    ∃ k : Nat, p.1 = Int.ofNat k ∧ shape[k]? = some p.2 := by
  obtain ⟨k, hk, rfl⟩ := List.getElem_of_mem h
  simp only [List.length_zip, wrapAxes, List.length_map, List.length_range] at hk
  refine ⟨k, by simp [wrapAxes], ?_⟩
  simp only [List.getElem_zip]
  exact List.getElem?_eq_getElem (by omega)

theorem wrapped_wf (shape : List Nat) (r : Option Int) : WF (wrapped shape r) := by
  have hinj : Function.Injective Int.ofNat := fun a b h => Int.ofNat.inj h
  have hax : (wrapAxes shape.length).Nodup := List.Nodup.map hinj List.nodup_range
  refine ⟨⟨by simp [wrapped, dkeys], ?_, ?_, ?_, ?_, ?_, ?_, ?_, ?_⟩, by simp [wrapped, dkeys]⟩
  · simp only [wrapped, dkeys, List.map_map, Function.comp_def, List.map_id']
    exact hax
  · intro e he
    simp only [wrapped, List.mem_cons, List.not_mem_nil, or_false] at he
    rcases he with rfl | rfl <;> rfl
  · intro e he
    obtain ⟨i, _, rfl⟩ := List.mem_map.mp he; rfl
  · intro e he
    simp only [wrapped, List.mem_cons, List.not_mem_nil, or_false] at he
    rcases he with rfl | rfl <;> simp [wrapAxes]
  · intro e he
    obtain ⟨i, _, rfl⟩ := List.mem_map.mp he
    show List.Pairwise (· ≤ ·) [(-1 : Int), 0]
    decide
  · intro e he
    obtain ⟨i, _, rfl⟩ := List.mem_map.mp he
    simp
  · have e1 : tLegs (wrapped shape r) = (wrapAxes shape.length).map (fun b => ((0 : Int), b)) ++
        (wrapAxes shape.length).map (fun b => ((-1 : Int), b)) := by simp [tLegs, wrapped]
    have e2 : bLegs (wrapped shape r) = (wrapAxes shape.length).flatMap (fun i => [((-1 : Int), i), ((0 : Int), i)]) := by
      simp [bLegs, wrapped, List.flatMap_map]
    rw [e1, e2]
    exact perm_wrap_legs _
  · have e : legDims (wrapped shape r) = (wrapAxes shape.length).zip shape ++ (wrapAxes shape.length).zip shape := by
      simp [legDims, wrapped]
    rw [e]
    intro p hp q hq hpq
    have hp' : p ∈ (wrapAxes shape.length).zip shape := by simpa using hp
    have hq' : q ∈ (wrapAxes shape.length).zip shape := by simpa using hq
    obtain ⟨k, hk, hkd⟩ := mem_zip_wrapAxes hp'
    obtain ⟨k', hk', hkd'⟩ := mem_zip_wrapAxes hq'
    have : k = k' := by
      have : Int.ofNat k = Int.ofNat k' := by rw [← hk, ← hk', hpq]
      exact hinj this
    subst this
    rw [hkd] at hkd'
    exact Option.some.inj hkd'

end Qib.TNet
