import QibProofs.Lemmas.TNetSurgeryMerge
/-!
Helper lemmas for C08, part 5: tracking the virtual tensor through the renaming loops, the remaining-axes list,
and the assembled theorem "a successful `merge` of two well-formed networks is well-formed" (no property statements).
-/
namespace Qib.TNet

/-! ### tracking one tensor through the renaming loops -/
section Dict3
variable {β : Type}

theorem dget_append_left (d d' : List (Int × β)) {k : Int} {v : β} (h : dget d k = some v) : dget (d ++ d') k = some v := by
  induction d with
  | nil => simp [dget] at h
  | cons e es ih =>
    obtain ⟨e1, e2⟩ := e
    simp only [dget, List.lookup, List.cons_append] at h ⊢
    cases hk : (k == e1)
    · rw [hk] at h; exact ih h
    · rw [hk] at h; exact h

theorem dget_append_right (d d' : List (Int × β)) {k : Int} (h : k ∉ dkeys d) : dget (d ++ d') k = dget d' k := by
  induction d with
  | nil => rfl
  | cons e es ih =>
    obtain ⟨e1, e2⟩ := e
    simp only [dkeys_cons, List.mem_cons, not_or] at h
    have hb : (k == e1) = false := by simpa using h.1
    simp only [dget, List.lookup, List.cons_append, hb]
    exact ih h.2

end Dict3

theorem renT_fold_track (Q : Net → Int → Prop)
    (hstep : ∀ net net' cur new vid, WF0 net → renameTensor net cur new = .ok net' → vid ∈ dkeys net.tensors →
      Q net vid → Q net' (rep cur new vid))
    {tor : List Int} {st st' : Net × Int × Int} {N0 : Int} (hpos : 0 ≤ N0) (htor : ∀ t ∈ tor, t < N0) (hN0 : N0 ≤ st.2.2)
    (hfresh : ∀ k ∈ dkeys st.1.tensors, k < st.2.2) (hvid : st.2.1 ∈ dkeys st.1.tensors)
    (htrack : st.2.1 = -1 ∨ (N0 ≤ st.2.1 ∧ (-1 : Int) ∉ dkeys st.1.tensors))
    (h : WF0 st.1) (hQ : Q st.1 st.2.1) (hf : tor.foldlM renTStep st = .ok st') :
    Q st'.1 st'.2.1 ∧ st'.2.1 ∈ dkeys st'.1.tensors := by
  induction tor generalizing st with
  | nil =>
    have := foldlM_nil_ok _ _ _ hf
    subst this
    exact ⟨hQ, hvid⟩
  | cons t ts ih =>
    obtain ⟨s1, hs, hrest⟩ := foldlM_cons_ok _ _ _ _ _ hf
    obtain ⟨hren, htmp, hnxt⟩ := renTStep_ok hs
    have hw1 := renameTensor_wf0 h hren
    obtain ⟨T, hT, hnew, heq⟩ := renameTensor_spec h hren
    have htkey : t ∈ dkeys st.1.tensors := mem_dkeys_of_mem (mem_of_dget_eq_some _ hT)
    have hk1 : ∀ k, k ∈ dkeys s1.1.tensors ↔ (k ∈ dkeys st.1.tensors ∧ k ≠ t) ∨ k = st.2.2 := by
      intro k
      rw [heq]
      simp only [dkeys_append, dkeys_cons, dkeys_nil, List.mem_append, List.mem_singleton, dkeys_dpop,
        List.mem_filter, bne_iff_ne, ne_eq]
    -- the tracked id follows the renaming
    have hvid1 : s1.2.1 = rep t st.2.2 st.2.1 := by
      rw [htmp]
      by_cases ht : t = -1
      · subst ht
        rcases htrack with h1 | ⟨_, h2⟩
        · rw [h1]; simp [rep]
        · exact absurd htkey h2
      · have hb : (t == -1) = false := by simpa using ht
        simp only [hb, Bool.false_eq_true, if_false]
        have hne : st.2.1 ≠ t := by
          rcases htrack with h1 | ⟨h1, _⟩
          · rw [h1]; exact fun e => ht e.symm
          · have := htor t List.mem_cons_self
            intro e; omega
        exact (rep_of_ne hne).symm
    have hQ1 : Q s1.1 s1.2.1 := by rw [hvid1]; exact hstep _ _ _ _ _ h hren hvid hQ
    have hvidmem : s1.2.1 ∈ dkeys s1.1.tensors := by
      rw [hvid1, hk1]
      by_cases he : st.2.1 = t
      · right; rw [he, rep_self]
      · left; rw [rep_of_ne he]; exact ⟨hvid, he⟩
    apply ih (fun x hx => htor x (List.mem_cons_of_mem _ hx)) (by rw [hnxt]; omega) _ hvidmem _ hw1 hQ1 hrest
    · intro k hk
      rw [hnxt]
      rcases (hk1 k).mp hk with ⟨h1, _⟩ | h1
      · have := hfresh k h1; omega
      · omega
    · by_cases ht : t = -1
      · right
        subst ht
        have hb : ((-1 : Int) == -1) = true := rfl
        rw [htmp]; simp only [hb, if_true]
        refine ⟨hN0, ?_⟩
        intro hm
        rcases (hk1 (-1)).mp hm with ⟨_, h2⟩ | h2
        · exact h2 rfl
        · have := hfresh (-1) htkey; omega
      · have hb : (t == -1) = false := by simpa using ht
        rw [htmp]; simp only [hb, Bool.false_eq_true, if_false]
        rcases htrack with h1 | ⟨h1, h2⟩
        · left; exact h1
        · right
          refine ⟨h1, ?_⟩
          intro hm
          rcases (hk1 (-1)).mp hm with ⟨h3, _⟩ | h3
          · exact h2 h3
          · have := htor t List.mem_cons_self
            have := hfresh st.2.1 hvid
            omega

theorem renB_fold_track (Q : Net → Prop)
    (hstep : ∀ net net' cur new, WF0 net → renameBond net cur new = .ok net' → Q net → Q net')
    {bor : List Int} {st st' : Net × Int} (h : WF0 st.1) (hQ : Q st.1) (hf : bor.foldlM renBStep st = .ok st') :
    Q st'.1 := by
  induction bor generalizing st with
  | nil =>
    have := foldlM_nil_ok _ _ _ hf
    subst this
    exact hQ
  | cons t ts ih =>
    obtain ⟨s1, hs, hrest⟩ := foldlM_cons_ok _ _ _ _ _ hf
    obtain ⟨hren, _⟩ := renBStep_ok hs
    exact ih (renameBond_wf0 h hren) (hstep _ _ _ _ h hren hQ) hrest

/-! ### the list of remaining axes -/

theorem nodup_eraseDups (l : List Nat) : l.eraseDups.Nodup := by
  induction hn : l.length using Nat.strong_induction_on generalizing l with
  | _ n ih =>
    cases l with
    | nil => simp
    | cons a as =>
      rw [List.eraseDups_cons, List.nodup_cons]
      refine ⟨?_, ih _ ?_ _ rfl⟩
      · rw [List.mem_eraseDups, List.mem_filter]
        rintro ⟨_, h⟩
        simp at h
      · subst hn
        exact Nat.lt_succ_of_le (List.length_filter_le _ _)

theorem foldl_erase_eq_filter (orig : Nat) (joinN : List (Nat × Nat)) (l0 : List Nat) (h : l0.Nodup) :
    joinN.foldl (fun am ja => (am.erase ja.1).erase (orig + ja.2)) l0 =
      l0.filter (fun x => !(joinN.flatMap (fun ja => [ja.1, orig + ja.2])).contains x) := by
  induction joinN generalizing l0 with
  | nil => simp
  | cons ja js ih =>
    simp only [List.foldl_cons]
    have h1 : (l0.erase ja.1).Nodup := h.erase _
    have h2 : ((l0.erase ja.1).erase (orig + ja.2)).Nodup := h1.erase _
    rw [ih _ h2, h1.erase_eq_filter, h.erase_eq_filter, List.filter_filter, List.filter_filter]
    apply List.filter_congr
    intro x _
    by_cases hx1 : x = ja.1 <;> by_cases hx2 : x = orig + ja.2 <;>
      by_cases hx3 : x ∈ List.flatMap (fun ja => [ja.1, orig + ja.2]) js <;> simp [hx1, hx2, hx3]

/-! ### a successful `merge` of two well-formed networks is well-formed -/

theorem mem_sharedTids {a b : Net} {k : Int} :
    k ∈ sharedTids a b ↔ k ∈ dkeys a.tensors ∧ k ∈ dkeys b.tensors := by
  simp [sharedTids, List.mem_filter, dhas_iff]

theorem mem_sharedBids {a b : Net} {k : Int} :
    k ∈ sharedBids a b ↔ k ∈ dkeys a.bonds ∧ k ∈ dkeys b.bonds := by
  simp [sharedBids, List.mem_filter, dhas_iff]

/-- what is known about the network right before the join loop -/
structure PreJoin (a b : Net) (m1 : Net) (toa1 : STensor) : Prop where
  wf : WF m1
  virt : dget m1.tensors (-1) = some toa1
  shape : ∀ va vb, dget a.tensors (-1) = some va → dget b.tensors (-1) = some vb → toa1.shape = va.shape ++ vb.shape
  ntensors : m1.tensors.length + 1 = a.tensors.length + b.tensors.length
  nbonds : m1.bonds.length = a.bonds.length + b.bonds.length

theorem merge_prejoin {a b : Net} {tor bor : List Int} (ha : WF a) (hb : WF b)
    (htor : tor.Perm (sharedTids a b)) (hbor : bor.Perm (sharedBids a b))
    {o1 o2 m1 : Net} {tmpOpen n1 n2 : Int} {toa1 : STensor}
    (hf1 : tor.foldlM renTStep (b, -1, maxKey (dkeys a.tensors ++ dkeys b.tensors) + 1) = .ok (o1, tmpOpen, n1))
    (hf2 : bor.foldlM renBStep (o1, maxKey (dkeys a.bonds ++ dkeys o1.bonds) + 1) = .ok (o2, n2))
    (hm1 : mergeTensors ⟨dupdate a.tensors o2.tensors, dupdate a.bonds o2.bonds⟩ (-1) tmpOpen = .ok m1)
    (htoa1 : dget m1.tensors (-1) = some toa1) : PreJoin a b m1 toa1 := by
  obtain ⟨vb, hvb⟩ := hb.virt_get
  obtain ⟨va, hva⟩ := ha.virt_get
  -- the tensor renaming loop
  obtain ⟨w1, _, kb1, len1, keys1, tmp1⟩ := renT_fold (st := (b, -1, _)) hb.toWF0 hf1
  simp only at w1 kb1 len1 keys1 tmp1
  have hneg1 : (-1 : Int) ∈ tor := htor.mem_iff.mpr (mem_sharedTids.mpr ⟨ha.virt, hb.virt⟩)
  have hmaxT : ∀ k ∈ dkeys a.tensors ++ dkeys b.tensors, k ≤ maxKey (dkeys a.tensors ++ dkeys b.tensors) :=
    fun k hk => le_maxKey hk
  have hN0 : (0 : Int) ≤ maxKey (dkeys a.tensors ++ dkeys b.tensors) + 1 := by
    have := hmaxT (-1) (List.mem_append_left _ ha.virt); omega
  have htmp : maxKey (dkeys a.tensors ++ dkeys b.tensors) + 1 ≤ tmpOpen := by
    rcases tmp1 with ⟨_, h2⟩ | ⟨h1, _, _⟩
    · exact absurd hneg1 h2
    · exact h1
  have htmpne : (-1 : Int) ≠ tmpOpen := by omega
  have hdisjT : ∀ k ∈ dkeys o1.tensors, k ∉ dkeys a.tensors := by
    intro k hk hka
    rcases keys1 k hk with ⟨h1, h2⟩ | ⟨h1, _⟩
    · exact h2 (htor.mem_iff.mpr (mem_sharedTids.mpr ⟨hka, h1⟩))
    · have := hmaxT k (List.mem_append_left _ hka); omega
  -- the tracked virtual tensor keeps its shape
  have htrack := renT_fold_track (fun net vid => ∃ T, dget net.tensors vid = some T ∧ T.shape = vb.shape)
    (by
      intro net net' cur new vid hw hok hvid ⟨T, hT, hS⟩
      obtain ⟨Tc, hTc, hnew, rfl⟩ := renameTensor_spec hw hok
      by_cases hv : vid = cur
      · subst hv
        rw [hT] at hTc; cases hTc
        refine ⟨{ T with tid := new }, ?_, hS⟩
        rw [rep_self, dget_append_right _ _ (by rw [dkeys_dpop]; exact fun h => hnew (List.mem_filter.mp h).1)]
        simp [dget, List.lookup]
      · refine ⟨T, ?_, hS⟩
        rw [rep_of_ne hv]
        apply dget_append_left
        rw [dget_dpop_ne _ hv]; exact hT)
    (st := (b, -1, _)) (N0 := maxKey (dkeys a.tensors ++ dkeys b.tensors) + 1) hN0
    (by
      intro t ht
      have := hmaxT t (List.mem_append_left _ (mem_sharedTids.mp (htor.mem_iff.mp ht)).1); omega)
    (le_refl _)
    (by intro k hk; have := hmaxT k (List.mem_append_right _ hk); simp only; omega)
    hb.virt (Or.inl rfl) hb.toWF0 ⟨vb, hvb, rfl⟩ hf1
  simp only at htrack
  obtain ⟨⟨vb1, hvb1, hS1⟩, htmpmem1⟩ := htrack
  -- the bond renaming loop
  obtain ⟨w2, _, kt2, len2, keys2⟩ := renB_fold (st := (o1, _)) w1 hf2
  simp only at w2 kt2 len2 keys2
  have hmaxB : ∀ k ∈ dkeys a.bonds ++ dkeys o1.bonds, k ≤ maxKey (dkeys a.bonds ++ dkeys o1.bonds) :=
    fun k hk => le_maxKey hk
  have hdisjB : ∀ k ∈ dkeys o2.bonds, k ∉ dkeys a.bonds := by
    intro k hk hka
    rcases keys2 k hk with ⟨h1, h2⟩ | ⟨h1, _⟩
    · rw [kb1] at h1
      exact h2 (hbor.mem_iff.mpr (mem_sharedBids.mpr ⟨hka, h1⟩))
    · have := hmaxB k (List.mem_append_left _ hka); omega
  have htrack2 := renB_fold_track (fun net => ∃ T, dget net.tensors tmpOpen = some T ∧ T.shape = vb.shape)
    (by
      intro net net' cur new hw hok ⟨T, hT, hS⟩
      obtain ⟨B, _, _, rfl⟩ := renameBond_spec hw hok
      exact ⟨{ T with bids := T.bids.map (rep cur new) }, by
        show dget (relTensors _ _) _ = _
        rw [dget_relTensors, hT]; rfl, hS⟩)
    (st := (o1, _)) w1 ⟨vb1, hvb1, hS1⟩ hf2
  simp only at htrack2
  obtain ⟨vb2, hvb2, hS2⟩ := htrack2
  -- the union
  have hdisjT2 : ∀ k ∈ dkeys o2.tensors, k ∉ dkeys a.tensors := by rw [kt2]; exact hdisjT
  have hu1 : dupdate a.tensors o2.tensors = a.tensors ++ o2.tensors :=
    dupdate_eq_append _ _ w2.tnodup hdisjT2
  have hu2 : dupdate a.bonds o2.bonds = a.bonds ++ o2.bonds := dupdate_eq_append _ _ w2.bnodup hdisjB
  rw [hu1, hu2] at hm1
  have wu := union_wf0 ha.toWF0 w2 hdisjT2 hdisjB
  have wm1 := mergeTensors_wf0 wu htmpne hm1
  obtain ⟨T1, T2, hT1, hT2, heq⟩ := mergeTensors_spec wu htmpne hm1
  have hT1' : T1 = va := by
    have := dget_append_left a.tensors o2.tensors hva
    simp only at hT1
    rw [this] at hT1; exact (Option.some.inj hT1).symm
  have hT2' : T2 = vb2 := by
    have hnot : tmpOpen ∉ dkeys a.tensors := hdisjT2 _ (mem_dkeys_of_mem (mem_of_dget_eq_some _ hvb2))
    have := dget_append_right a.tensors o2.tensors hnot
    simp only at hT2
    rw [this, hvb2] at hT2; exact (Option.some.inj hT2).symm
  have hvirt : (-1 : Int) ∈ dkeys m1.tensors := mem_dkeys_of_mem (mem_of_dget_eq_some _ htoa1)
  have htoa : toa1 = catTensor va vb2 := by
    rw [heq] at htoa1
    simp only at htoa1
    rw [dget_dmodify, dget_dpop_ne _ htmpne, hT1] at htoa1
    simp only [Option.map_some, beq_self_eq_true, if_true, Option.some.injEq] at htoa1
    rw [← htoa1, hT1', hT2']
  have lt2 : o2.tensors.length = b.tensors.length := by
    have := congrArg List.length kt2
    simp only [dkeys, List.length_map] at this
    omega
  have lb2 : o2.bonds.length = b.bonds.length := by
    have := congrArg List.length kb1
    simp only [dkeys, List.length_map] at this
    omega
  refine ⟨⟨wm1, hvirt⟩, htoa1, ?_, ?_, ?_⟩
  · intro va' vb' hva' hvb'
    rw [hva] at hva'; rw [hvb] at hvb'
    cases hva'; cases hvb'
    rw [htoa]; simp only [catTensor]; rw [hS2]
  · rw [heq]
    simp only [dmodify, List.length_map]
    have hmem : tmpOpen ∈ dkeys (a.tensors ++ o2.tensors) := mem_dkeys_of_mem (mem_of_dget_eq_some _ hT2)
    have := length_dpop_of_nodup _ wu.tnodup hmem
    simp only [List.length_append] at this ⊢
    rw [kt2] at *
    omega
  · rw [heq]
    simp only [relBonds, List.length_map, List.length_append]
    omega

/-- the copy of the second operand after both renaming loops, and the fused network -/
structure PreData (a b o2 : Net) (tmpOpen : Int) (m1 : Net) : Prop where
  w2 : WF0 o2
  disjT : ∀ k ∈ dkeys o2.tensors, k ∉ dkeys a.tensors
  disjB : ∀ k ∈ dkeys o2.bonds, k ∉ dkeys a.bonds
  tmpne : (-1 : Int) ≠ tmpOpen
  virt2 : ∃ vb2, dget o2.tensors tmpOpen = some vb2 ∧
    mergeTensors ⟨a.tensors ++ o2.tensors, a.bonds ++ o2.bonds⟩ (-1) tmpOpen = .ok m1

theorem merge_predata {a b : Net} {tor bor : List Int} (ha : WF a) (hb : WF b)
    (htor : tor.Perm (sharedTids a b)) (hbor : bor.Perm (sharedBids a b))
    {o1 o2 m1 : Net} {tmpOpen n1 n2 : Int}
    (hf1 : tor.foldlM renTStep (b, -1, maxKey (dkeys a.tensors ++ dkeys b.tensors) + 1) = .ok (o1, tmpOpen, n1))
    (hf2 : bor.foldlM renBStep (o1, maxKey (dkeys a.bonds ++ dkeys o1.bonds) + 1) = .ok (o2, n2))
    (hm1 : mergeTensors ⟨dupdate a.tensors o2.tensors, dupdate a.bonds o2.bonds⟩ (-1) tmpOpen = .ok m1)
    : PreData a b o2 tmpOpen m1 := by
  obtain ⟨vb, hvb⟩ := hb.virt_get
  obtain ⟨va, hva⟩ := ha.virt_get
  -- the tensor renaming loop
  obtain ⟨w1, _, kb1, len1, keys1, tmp1⟩ := renT_fold (st := (b, -1, _)) hb.toWF0 hf1
  simp only at w1 kb1 len1 keys1 tmp1
  have hneg1 : (-1 : Int) ∈ tor := htor.mem_iff.mpr (mem_sharedTids.mpr ⟨ha.virt, hb.virt⟩)
  have hmaxT : ∀ k ∈ dkeys a.tensors ++ dkeys b.tensors, k ≤ maxKey (dkeys a.tensors ++ dkeys b.tensors) :=
    fun k hk => le_maxKey hk
  have hN0 : (0 : Int) ≤ maxKey (dkeys a.tensors ++ dkeys b.tensors) + 1 := by
    have := hmaxT (-1) (List.mem_append_left _ ha.virt); omega
  have htmp : maxKey (dkeys a.tensors ++ dkeys b.tensors) + 1 ≤ tmpOpen := by
    rcases tmp1 with ⟨_, h2⟩ | ⟨h1, _, _⟩
    · exact absurd hneg1 h2
    · exact h1
  have htmpne : (-1 : Int) ≠ tmpOpen := by omega
  have hdisjT : ∀ k ∈ dkeys o1.tensors, k ∉ dkeys a.tensors := by
    intro k hk hka
    rcases keys1 k hk with ⟨h1, h2⟩ | ⟨h1, _⟩
    · exact h2 (htor.mem_iff.mpr (mem_sharedTids.mpr ⟨hka, h1⟩))
    · have := hmaxT k (List.mem_append_left _ hka); omega
  -- the tracked virtual tensor keeps its shape
  have htrack := renT_fold_track (fun net vid => ∃ T, dget net.tensors vid = some T ∧ T.shape = vb.shape)
    (by
      intro net net' cur new vid hw hok hvid ⟨T, hT, hS⟩
      obtain ⟨Tc, hTc, hnew, rfl⟩ := renameTensor_spec hw hok
      by_cases hv : vid = cur
      · subst hv
        rw [hT] at hTc; cases hTc
        refine ⟨{ T with tid := new }, ?_, hS⟩
        rw [rep_self, dget_append_right _ _ (by rw [dkeys_dpop]; exact fun h => hnew (List.mem_filter.mp h).1)]
        simp [dget, List.lookup]
      · refine ⟨T, ?_, hS⟩
        rw [rep_of_ne hv]
        apply dget_append_left
        rw [dget_dpop_ne _ hv]; exact hT)
    (st := (b, -1, _)) (N0 := maxKey (dkeys a.tensors ++ dkeys b.tensors) + 1) hN0
    (by
      intro t ht
      have := hmaxT t (List.mem_append_left _ (mem_sharedTids.mp (htor.mem_iff.mp ht)).1); omega)
    (le_refl _)
    (by intro k hk; have := hmaxT k (List.mem_append_right _ hk); simp only; omega)
    hb.virt (Or.inl rfl) hb.toWF0 ⟨vb, hvb, rfl⟩ hf1
  simp only at htrack
  obtain ⟨⟨vb1, hvb1, hS1⟩, htmpmem1⟩ := htrack
  -- the bond renaming loop
  obtain ⟨w2, _, kt2, len2, keys2⟩ := renB_fold (st := (o1, _)) w1 hf2
  simp only at w2 kt2 len2 keys2
  have hmaxB : ∀ k ∈ dkeys a.bonds ++ dkeys o1.bonds, k ≤ maxKey (dkeys a.bonds ++ dkeys o1.bonds) :=
    fun k hk => le_maxKey hk
  have hdisjB : ∀ k ∈ dkeys o2.bonds, k ∉ dkeys a.bonds := by
    intro k hk hka
    rcases keys2 k hk with ⟨h1, h2⟩ | ⟨h1, _⟩
    · rw [kb1] at h1
      exact h2 (hbor.mem_iff.mpr (mem_sharedBids.mpr ⟨hka, h1⟩))
    · have := hmaxB k (List.mem_append_left _ hka); omega
  have htrack2 := renB_fold_track (fun net => ∃ T, dget net.tensors tmpOpen = some T ∧ T.shape = vb.shape)
    (by
      intro net net' cur new hw hok ⟨T, hT, hS⟩
      obtain ⟨B, _, _, rfl⟩ := renameBond_spec hw hok
      exact ⟨{ T with bids := T.bids.map (rep cur new) }, by
        show dget (relTensors _ _) _ = _
        rw [dget_relTensors, hT]; rfl, hS⟩)
    (st := (o1, _)) w1 ⟨vb1, hvb1, hS1⟩ hf2
  simp only at htrack2
  obtain ⟨vb2, hvb2, hS2⟩ := htrack2
  have hdisjT2 : ∀ k ∈ dkeys o2.tensors, k ∉ dkeys a.tensors := by rw [kt2]; exact hdisjT
  have hu1 : dupdate a.tensors o2.tensors = a.tensors ++ o2.tensors :=
    dupdate_eq_append _ _ w2.tnodup hdisjT2
  have hu2 : dupdate a.bonds o2.bonds = a.bonds ++ o2.bonds := dupdate_eq_append _ _ w2.bnodup hdisjB
  rw [hu1, hu2] at hm1
  exact ⟨w2, hdisjT2, hdisjB, htmpne, vb2, hvb2, hm1⟩

theorem numOpenAxes_eq {net : Net} {v : STensor} (hv : dget net.tensors (-1) = some v) :
    numOpenAxes net = .ok v.shape.length := by
  unfold numOpenAxes virt; rw [hv]; rfl

/-- everything the later lemmas need to know about the result of a successful `merge` -/
structure MergeResult (a b : Net) (j : List (Int × Int)) (net' : Net) : Prop where
  wf : WF net'
  /-- the network before the joins: disjoint union with fused virtual tensors -/
  pre : ∃ (m1 m2 : Net) (toa1 toa2 : STensor) (va vb : STensor),
    dget a.tensors (-1) = some va ∧ dget b.tensors (-1) = some vb ∧ PreJoin a b m1 toa1 ∧
    (∀ ja ∈ j, 0 ≤ ja.1 ∧ ja.1 < va.shape.length ∧ 0 ≤ ja.2 ∧ ja.2 < vb.shape.length) ∧
    (∃ am, (joinNat j).foldlM (joinStep va.shape.length) (m1, List.range toa1.shape.length) = .ok (m2, am)) ∧
    (m2.tensors.length = m1.tensors.length ∧ m2.bonds.length ≤ m1.bonds.length ∧
      m1.bonds.length ≤ m2.bonds.length + j.length) ∧
    WF m2 ∧ dget m2.tensors (-1) = some toa2 ∧ toa2.shape = va.shape ++ vb.shape ∧
    net'.tensors = dmodify m2.tensors (-1) (fun t => { t with
      shape := pickD toa2.shape 0 ((List.range toa2.bids.length).filter (fun x => !(delAxesOf va.shape.length (joinNat j)).contains x)),
      bids := pickD toa2.bids 0 ((List.range toa2.bids.length).filter (fun x => !(delAxesOf va.shape.length (joinNat j)).contains x)) }) ∧
    net'.bonds = m2.bonds.map (fun e => (e.1, { e.2 with tids := eraseN (-1) (hits toa2.bids (delAxesOf va.shape.length (joinNat j)) e.1) e.2.tids })) ∧
    (∀ d ∈ delAxesOf va.shape.length (joinNat j), d < toa2.bids.length)

theorem merge_result {a b net' : Net} {j : List (Int × Int)} {tor bor : List Int} (ha : WF a) (hb : WF b)
    (htor : tor.Perm (sharedTids a b)) (hbor : bor.Perm (sharedBids a b))
    (hdim : ∀ va vb, dget a.tensors (-1) = some va → dget b.tensors (-1) = some vb →
      ∀ ja ∈ j, va.shape[ja.1.toNat]? = vb.shape[ja.2.toNat]?)
    (h : merge a b j tor bor = .ok net') : MergeResult a b j net' := by
  obtain ⟨orig, nb, o1, tmpOpen, n1, o2, n2, m1, toa1, m2, axesMap, m3, toa3, horig, hnb, hrange, hf1, hf2, hm1,
    htoa1, hf3, hf4, htoa3, _, hnet⟩ := merge_ok_inv h
  obtain ⟨va, hva⟩ := ha.virt_get
  obtain ⟨vb, hvb⟩ := hb.virt_get
  have pre := merge_prejoin ha hb htor hbor hf1 hf2 hm1 htoa1
  have horig' : orig = va.shape.length := by
    rw [numOpenAxes_eq hva] at horig; exact (Except.ok.inj horig).symm
  subst horig'
  have hrange' : ∀ ja ∈ j, 0 ≤ ja.1 ∧ ja.1 < va.shape.length ∧ 0 ≤ ja.2 ∧ ja.2 < vb.shape.length := by
    intro ja hja
    have hne : j ≠ [] := List.ne_nil_of_mem hja
    have := hnb hne
    rw [numOpenAxes_eq hvb] at this
    have hnb' : nb = vb.shape.length := (Except.ok.inj this).symm
    have := hrange ja hja
    rw [hnb'] at this; exact this
  have hS := pre.shape va vb hva hvb
  have hdimS : ∀ ja ∈ joinNat j, toa1.shape[ja.1]? = toa1.shape[va.shape.length + ja.2]? := by
    intro ja hja
    obtain ⟨jz, hjz, rfl⟩ := List.mem_map.mp hja
    obtain ⟨h1, h2, h3, h4⟩ := hrange' jz hjz
    have hp : jz.1.toNat < va.shape.length := by omega
    rw [hS, List.getElem?_append_left hp, List.getElem?_append_right (by omega)]
    simp only [Nat.add_sub_cancel_left]
    exact hdim va vb hva hvb jz hjz
  have hj1 : JInv toa1.shape m1 := ⟨pre.wf, toa1, pre.virt, rfl⟩
  obtain ⟨⟨wf2, toa2, hv2, hS2⟩, ham, _⟩ := join_fold_inv (st := (m1, _)) hj1 hdimS hf3
  have hcnt := join_fold_counts (st := (m1, _)) hj1 hdimS hf3
  simp only [joinNat, List.length_map] at hcnt
  simp only at wf2 hv2 ham
  obtain ⟨hDlt, ht3, hb3, hl3⟩ := del_fold wf2.bnodup hv2 wf2.blen hf4
  have hsh2 := wf2.tshape _ (mem_of_dget_eq_some _ hv2)
  simp only at hsh2
  have hK : axesMap = (List.range toa2.bids.length).filter
      (fun x => !(delAxesOf va.shape.length (joinNat j)).contains x) := by
    rw [ham, foldl_erase_eq_filter _ _ _ List.nodup_range, ← hsh2, hS2]
    apply List.filter_congr
    intro x _
    congr 1
    rw [Bool.eq_iff_iff]
    simp only [delAxesOf, List.contains_iff_mem, List.mem_eraseDups]
  have htoa3' : toa3 = toa2 := by
    rw [ht3, hv2] at htoa3; exact (Option.some.inj htoa3).symm
  have hres := restrict_wf wf2 hv2 (nodup_eraseDups _) hDlt m3.bonds hb3 hl3 axesMap hK
  refine ⟨?_, m1, m2, toa1, toa2, va, vb, hva, hvb, pre, hrange', ⟨axesMap, hf3⟩, hcnt, wf2, hv2, by rw [hS2, hS], ?_, ?_, hDlt⟩
  · rw [hnet, ht3, htoa3']; exact hres
  · rw [hnet, ht3, htoa3', hK]
  · rw [hnet]; exact hb3

theorem merge_wf {a b net' : Net} {j : List (Int × Int)} {tor bor : List Int} (ha : WF a) (hb : WF b)
    (htor : tor.Perm (sharedTids a b)) (hbor : bor.Perm (sharedBids a b))
    (hdim : ∀ va vb, dget a.tensors (-1) = some va → dget b.tensors (-1) = some vb →
      ∀ ja ∈ j, va.shape[ja.1.toNat]? = vb.shape[ja.2.toNat]?)
    (h : merge a b j tor bor = .ok net') : WF net' := (merge_result ha hb htor hbor hdim h).wf

end Qib.TNet
