import QibProofs.Lemmas.CompactSpecStab4
import Mathlib.LinearAlgebra.Trace
import Mathlib.LinearAlgebra.Projection
import Mathlib.Data.List.ProdSigma
/-!
C13, spectral part — helper lemmas, part 16: the joint `+1` eigenspace as a subspace, its dimension (= trace of the projector), the
list of all plain faces of a shape and its length `⌊(n0-1)(n1-1)/2⌋`, and the resulting dimension of the code space `2^{n0 n1} · m`,
`m = 2` if both extents are even and `1` otherwise.
-/
set_option linter.unusedSimpArgs false
set_option linter.unusedVariables false
open Complex Matrix
namespace Qib.Spec

variable {k : Type} [Fintype k] [DecidableEq k]

/-- the joint `+1` eigenspace of the listed matrices -/
def jointEig (l : List (Matrix k k ℂ)) : Submodule ℂ (k → ℂ) where
  carrier := {v | ∀ M ∈ l, M.mulVec v = v}
  add_mem' := by
    intro a b ha hb M hM
    rw [Matrix.mulVec_add, ha M hM, hb M hM]
  zero_mem' := by intro M _; simp
  smul_mem' := by
    intro c v hv M hM
    rw [Matrix.mulVec_smul, hv M hM]

omit [DecidableEq k] in
theorem mem_jointEig (l : List (Matrix k k ℂ)) (v : k → ℂ) : v ∈ jointEig l ↔ ∀ M ∈ l, M.mulVec v = v := Iff.rfl

/-- the dimension of the joint `+1` eigenspace is the trace of the projector `Π (1 + M)/2` -/
theorem finrank_jointEig (l : List (Matrix k k ℂ)) (h : CommInvols l) :
    (Module.finrank ℂ (jointEig l) : ℂ) = (jointProj l).trace := by
  obtain ⟨_, _, i3, i4⟩ := jointProj_props l h
  have hproj : LinearMap.IsProj (jointEig l) (Matrix.toLin' (jointProj l)) := by
    refine ⟨fun x => ?_, fun x hx => ?_⟩
    · intro M hM
      rw [Matrix.toLin'_apply, Matrix.mulVec_mulVec, i3 M hM]
    · rw [Matrix.toLin'_apply]
      exact (i4 x).mpr hx
  rw [← Matrix.trace_toLin'_eq, hproj.trace]

end Qib.Spec

namespace Qib.Compact
open Qib.Pauli Qib.Lattice Qib.Spec

/-- all faces of the `n0 × n1` rectangle that carry no auxiliary qubit -/
def plainFaces (n0 n1 : ℕ) : List (ℕ × ℕ) :=
  ((List.range (n0 - 1)) ×ˢ (List.range (n1 - 1))).filter fun g => (g.1 + g.2) % 2 = 1

theorem mem_plainFaces (n0 n1 : ℕ) (g : ℕ × ℕ) :
    g ∈ plainFaces n0 n1 ↔ FaceIn n0 n1 g.1 g.2 ∧ (g.1 + g.2) % 2 = 1 := by
  obtain ⟨x, y⟩ := g
  simp only [plainFaces, List.mem_filter, List.mem_product, List.mem_range, decide_eq_true_eq, FaceIn]
  constructor
  · rintro ⟨⟨h1, h2⟩, h3⟩; exact ⟨⟨by omega, by omega⟩, h3⟩
  · rintro ⟨⟨h1, h2⟩, h3⟩; exact ⟨⟨by omega, by omega⟩, h3⟩

theorem plainFaces_nodup (n0 n1 : ℕ) : (plainFaces n0 n1).Nodup :=
  (List.Nodup.product List.nodup_range List.nodup_range).filter _

theorem plainFaces_plain (n0 n1 : ℕ) : PlainFaces n0 n1 (plainFaces n0 n1) :=
  fun g hg => (mem_plainFaces n0 n1 g).mp hg

theorem count_row (x b : ℕ) :
    ((List.range b).filter fun y => (x + y) % 2 = 1).length = if x % 2 = 0 then b / 2 else (b + 1) / 2 := by
  induction b with
  | zero => simp
  | succ b ih =>
    rw [List.range_succ, List.filter_append, List.length_append, ih]
    by_cases hb : (x + b) % 2 = 1
    · simp only [List.filter_cons, hb, decide_true, if_true, List.filter_nil, List.length_cons, List.length_nil]
      split <;> omega
    · simp only [List.filter_cons, hb, decide_false, if_false, List.filter_nil, List.length_nil, Bool.false_eq_true]
      split <;> omega

theorem count_all (a b : ℕ) :
    (((List.range a) ×ˢ (List.range b)).filter fun g => (g.1 + g.2) % 2 = 1).length = a * b / 2 := by
  induction a with
  | zero => simp
  | succ a ih =>
    have hprod : (List.range (a + 1)) ×ˢ (List.range b) =
        (List.range a) ×ˢ (List.range b) ++ (List.range b).map (Prod.mk a) := by
      simp [SProd.sprod, List.product, List.range_succ, List.flatMap_append]
    rw [hprod, List.filter_append, List.length_append, ih, List.filter_map, List.length_map]
    have : ((List.range b).filter ((fun g : ℕ × ℕ => decide ((g.1 + g.2) % 2 = 1)) ∘ Prod.mk a)).length =
        if a % 2 = 0 then b / 2 else (b + 1) / 2 := count_row a b
    rw [this]
    have e : (a + 1) * b = a * b + b := by ring
    rw [e]
    have hm : (a * b) % 2 = (a % 2) * (b % 2) % 2 := Nat.mul_mod a b 2
    generalize a * b = ab at hm ⊢
    rcases Nat.mod_two_eq_zero_or_one a with ha | ha <;> rcases Nat.mod_two_eq_zero_or_one b with hb | hb <;>
      simp only [ha, hb, Nat.mul_zero, Nat.zero_mul, Nat.mul_one, Nat.zero_mod] at hm ⊢ <;> simp <;> omega

theorem plainFaces_length (n0 n1 : ℕ) : (plainFaces n0 n1).length = (n0 - 1) * (n1 - 1) / 2 := count_all _ _

/-- number of qubits minus number of stabiliser generators: `n0·n1` plus one if both extents are even -/
theorem qubits_sub_faces (n0 n1 : ℕ) (h0 : 1 ≤ n0) (h1 : 1 ≤ n1) :
    ofcNsites n0 n1 = (plainFaces n0 n1).length + n0 * n1 + (if n0 % 2 = 0 ∧ n1 % 2 = 0 then 1 else 0) := by
  rw [plainFaces_length]
  unfold ofcNsites
  have hm : ((n0 - 1) * (n1 - 1)) % 2 = ((n0 - 1) % 2) * ((n1 - 1) % 2) % 2 := Nat.mul_mod _ _ 2
  generalize (n0 - 1) * (n1 - 1) = ab at hm ⊢
  generalize n0 * n1 = L
  rcases Nat.mod_two_eq_zero_or_one n0 with ha | ha <;> rcases Nat.mod_two_eq_zero_or_one n1 with hb | hb
  · have e1 : (n0 - 1) % 2 = 1 := by omega
    have e2 : (n1 - 1) % 2 = 1 := by omega
    simp only [e1, e2] at hm
    simp only [ha, hb, and_self, if_true]; omega
  · have e1 : (n0 - 1) % 2 = 1 := by omega
    have e2 : (n1 - 1) % 2 = 0 := by omega
    simp only [e1, e2] at hm
    simp [ha, hb]; omega
  · have e1 : (n0 - 1) % 2 = 0 := by omega
    simp only [e1, Nat.zero_mul, Nat.zero_mod] at hm
    simp [ha, hb]; omega
  · have e1 : (n0 - 1) % 2 = 0 := by omega
    simp only [e1, Nat.zero_mul, Nat.zero_mod] at hm
    simp [ha, hb]; omega

/-- **dimension of the code space**, every shape: `2^{n0 n1}`, times 2 if both extents are even -/
theorem finrank_codespace (n0 n1 : ℕ) (h0 : 1 ≤ n0) (h1 : 1 ≤ n1) :
    Module.finrank ℂ (jointEig (loopMats n0 n1 (plainFaces n0 n1))) =
      2 ^ (n0 * n1) * (if n0 % 2 = 0 ∧ n1 % 2 = 0 then 2 else 1) := by
  have hc := loopMats_commInvols n0 n1 (plainFaces n0 n1) (fun g hg => ((mem_plainFaces n0 n1 g).mp hg).1)
  have h := finrank_jointEig _ hc
  rw [trace_jointProj n0 n1 _ (plainFaces_nodup n0 n1) (plainFaces_plain n0 n1)] at h
  have hq := qubits_sub_faces n0 n1 h0 h1
  have : (1 / 2 : ℂ) ^ (plainFaces n0 n1).length * 2 ^ ofcNsites n0 n1 =
      ((2 ^ (n0 * n1) * (if n0 % 2 = 0 ∧ n1 % 2 = 0 then 2 else 1) : ℕ) : ℂ) := by
    rw [hq, pow_add, pow_add]
    have e : (1 / 2 : ℂ) ^ (plainFaces n0 n1).length * (2 : ℂ) ^ (plainFaces n0 n1).length = 1 := by
      rw [← mul_pow]; norm_num
    split
    · push_cast; linear_combination ((2 : ℂ) ^ (n0 * n1) * 2) * e
    · push_cast; linear_combination ((2 : ℂ) ^ (n0 * n1)) * e
  rw [this] at h
  exact_mod_cast h

end Qib.Compact
