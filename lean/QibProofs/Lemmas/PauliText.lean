import Mathlib.Tactic.FinCases
import Mathlib.Data.Fintype.Basic
import Mathlib.Data.Rat.Defs
import Mathlib.Tactic.Linarith
import QibModel.Pauli
/-!
Core D: lemmas about the textual form (`__str__` / `from_string`) and the constructor of Pauli strings.
Helper lemmas only; the property statements are in `Properties/C09.lean`.
-/
namespace Qib.Pauli
open QibGen.Pauli

/-! ### printing and parsing -/

theorem parseLetter_letterOf (z x : Bool) : PS.parseLetter (PS.letterOf z x) = some (z, x) := by
  cases z <;> cases x <;> decide

theorem letterOf_ne_blank (z x : Bool) : (PS.letterOf z x != parseBlank) = true := by
  cases z <;> cases x <;> decide

theorem mapM_letters (z x : List Bool) (h : z.length = x.length) :
    (List.zipWith PS.letterOf z x).mapM PS.parseLetter = some (List.zip z x) := by
  induction z generalizing x with
  | nil => cases x <;> simp_all
  | cons a z ih =>
    cases x with
    | nil => simp at h
    | cons b x =>
      have := ih x (by simpa using h)
      simp [List.mapM_cons, parseLetter_letterOf, this]

theorem ofLetters_letters (z x : List Bool) (h : z.length = x.length) (q : Int) :
    PS.ofLetters (List.zipWith PS.letterOf z x) q = .ok ⟨z, x, qOfInt q⟩ := by
  simp only [PS.ofLetters, mapM_letters z x h]
  rw [List.map_fst_zip (by omega), List.map_snd_zip (by omega)]

theorem filter_letters (z x : List Bool) :
    (List.zipWith PS.letterOf z x).filter (fun c => c != parseBlank) = List.zipWith PS.letterOf z x := by
  rw [List.filter_eq_self]
  intro c hc
  obtain ⟨i, hi⟩ := List.mem_iff_getElem.mp hc
  obtain ⟨hi, rfl⟩ := hi
  simp [letterOf_ne_blank]

/-- phase assigned by the `from_string` decision tree to the prefix printed for `q` -/
def parseQOf (q : Fin 4) : Int :=
  match q with
  | 0 => parseQNone | 1 => parseQMinusI | 2 => parseQMinus | 3 => parseQImag

theorem fromChars_prefix (q : Fin 4) (L : Char) (rest : List Char)
    (hrest : rest.filter (fun c => c != parseBlank) = rest)
    (h1 : L ≠ ' ') (h2 : L ≠ '+') (h3 : L ≠ '-') (h4 : L ≠ 'i') :
    PS.fromChars (printPrefix.getD q.val [] ++ L :: rest) = PS.ofLetters (L :: rest) (parseQOf q) := by
  simp only [parseBlank] at hrest
  fin_cases q <;>
    simp [PS.fromChars, printPrefix, hrest, parseQOf,
      parseBlank, parsePlus, parseMinus, parseMinusI, parseImag, h1, h2, h3, h4]

theorem letterOf_props (z x : Bool) :
    PS.letterOf z x ≠ ' ' ∧ PS.letterOf z x ≠ '+' ∧ PS.letterOf z x ≠ '-' ∧ PS.letterOf z x ≠ 'i' := by
  cases z <;> cases x <;> decide

theorem qOfInt_parseQOf (q : Fin 4) : qOfInt (parseQOf q) = q := by
  fin_cases q <;> decide

theorem parse_print (P : PS) (hwf : P.WF) (hn : P.z ≠ []) : PS.fromChars P.toChars = .ok P := by
  obtain ⟨z, x, q⟩ := P
  cases z with
  | nil => exact absurd rfl hn
  | cons a z =>
    cases x with
    | nil => simp [PS.WF] at hwf
    | cons b x =>
      have hl : z.length = x.length := by simpa [PS.WF] using hwf
      obtain ⟨h1, h2, h3, h4⟩ := letterOf_props a b
      simp only [PS.toChars, List.zipWith_cons_cons]
      rw [fromChars_prefix q _ _ (filter_letters z x) h1 h2 h3 h4, ← List.zipWith_cons_cons,
        ofLetters_letters _ _ (by simpa using hl), qOfInt_parseQOf]



/-- blanks anywhere in the text are ignored -/
theorem fromChars_filter (s : List Char) :
    PS.fromChars (s.filter (fun c => c != parseBlank)) = PS.fromChars s := by
  simp [PS.fromChars, List.filter_filter]

/-- a leading `+` is ignored -/
theorem fromChars_plus (t : List Char) (c : Char) (u : List Char)
    (h : t.filter (fun c => c != parseBlank) = c :: u) (hc : c ≠ '+') :
    PS.fromChars ('+' :: t) = PS.fromChars t := by
  simp only [parseBlank] at h
  simp [PS.fromChars, h, hc, parseBlank, parsePlus]

theorem toChars_head (P : PS) (hwf : P.WF) (hn : P.z ≠ []) :
    ∃ c u, P.toChars = c :: u ∧ c ≠ '+' := by
  obtain ⟨z, x, q⟩ := P
  cases z with
  | nil => exact absurd rfl hn
  | cons a z =>
    cases x with
    | nil => simp [PS.WF] at hwf
    | cons b x =>
      obtain ⟨h1, h2, h3, h4⟩ := letterOf_props a b
      fin_cases q <;> simp [PS.toChars, printPrefix, h2]

theorem filter_toChars (P : PS) : P.toChars.filter (fun c => c != parseBlank) = P.toChars := by
  obtain ⟨z, x, q⟩ := P
  simp only [PS.toChars, List.filter_append, filter_letters]
  fin_cases q <;> simp [printPrefix, parseBlank]

/-- parsing accepts the printed form with an optional leading `+` and blanks anywhere -/
theorem parse_print_decorated (P : PS) (hwf : P.WF) (hn : P.z ≠ []) (s : List Char)
    (h : s.filter (fun c => c != parseBlank) = P.toChars ∨ s.filter (fun c => c != parseBlank) = '+' :: P.toChars) :
    PS.fromChars s = .ok P := by
  rw [← fromChars_filter]
  rcases h with h | h
  · rw [h, parse_print P hwf hn]
  · obtain ⟨c, u, hcu, hc⟩ := toChars_head P hwf hn
    rw [h, fromChars_plus P.toChars c u (by rw [filter_toChars, hcu]) hc, parse_print P hwf hn]


/-! ### constructor -/

/-- integer (or bool) sequence as a constructor argument -/
def ArrLike.ofInts (l : List Int) : ArrLike := .list (l.map fun (k : Int) => ArrLike.num (k : Rat))

theorem truncInt_intCast (k : Int) : truncInt (k : Rat) = k := by
  simp [truncInt]

theorem flat_ofInts (l : List Int) : (ArrLike.ofInts l).flat? = some (l.map fun (k : Int) => (k : Rat)) := by
  simp only [ArrLike.ofInts, ArrLike.flat?]
  induction l with
  | nil => rfl
  | cons a l ih => simp [ih]

theorem bitsOf?_eq_some_iff (l : List Int) (b : List Bool) :
    bitsOf? l = some b ↔ (∀ v ∈ l, v = 0 ∨ v = 1) ∧ b = l.map (· == 1) := by
  have key : (l.all fun v => v == 0 || v == 1) = true ↔ ∀ v ∈ l, v = 0 ∨ v = 1 := by
    simp [List.all_eq_true]
  unfold bitsOf?
  split
  · rename_i h
    simp only [Option.some.injEq]
    exact ⟨fun hb => ⟨key.mp h, hb.symm⟩, fun hb => hb.2.symm⟩
  · rename_i h
    constructor
    · intro hb; cases hb
    · intro hb; exact absurd (key.mpr hb.1) h

theorem bitsOf?_map_trunc (l : List Rat) (b : List Bool) :
    bitsOf? (l.map truncInt) = some b ↔ (∀ v ∈ l, truncInt v = 0 ∨ truncInt v = 1) ∧ b = l.map (truncInt · == 1) := by
  rw [bitsOf?_eq_some_iff]
  simp [List.map_map, Function.comp_def]

/-- the constructor accepts exactly: two flat sequences of equal length whose (truncated) entries are 0 or 1 -/
theorem ofArrayLike_ok_iff (z x : ArrLike) (q : Rat) (P : PS) :
    PS.ofArrayLike z x q = .ok P ↔
      ∃ zs xs, z.flat? = some zs ∧ x.flat? = some xs ∧ zs.length = xs.length ∧
        (∀ v ∈ zs, truncInt v = 0 ∨ truncInt v = 1) ∧ (∀ v ∈ xs, truncInt v = 0 ∨ truncInt v = 1) ∧
        P = ⟨zs.map (truncInt · == 1), xs.map (truncInt · == 1), qOfInt (truncInt q)⟩ := by
  constructor
  · intro h
    unfold PS.ofArrayLike at h
    cases hz : z.flat? with
    | none => simp [hz] at h
    | some zs =>
      cases hx : x.flat? with
      | none => simp [hz, hx] at h
      | some xs =>
        simp only [hz, hx] at h
        by_cases hl : zs.length = xs.length
        · simp only [hl, ne_eq, not_true_eq_false, if_false] at h
          cases hbz : bitsOf? (zs.map truncInt) with
          | none => simp [hbz] at h
          | some zb =>
            cases hbx : bitsOf? (xs.map truncInt) with
            | none => simp [hbz, hbx] at h
            | some xb =>
              simp only [hbz, hbx, Except.ok.injEq] at h
              obtain ⟨hza, hzb⟩ := (bitsOf?_map_trunc _ _).mp hbz
              obtain ⟨hxa, hxb⟩ := (bitsOf?_map_trunc _ _).mp hbx
              exact ⟨zs, xs, rfl, rfl, hl, hza, hxa, by rw [← h, hzb, hxb]⟩
        · simp [hl] at h
  · rintro ⟨zs, xs, hz, hx, hl, hza, hxa, rfl⟩
    have hbz := (bitsOf?_map_trunc zs _).mpr ⟨hza, rfl⟩
    have hbx := (bitsOf?_map_trunc xs _).mpr ⟨hxa, rfl⟩
    simp [PS.ofArrayLike, hz, hx, hl, hbz, hbx]

theorem ofArrayLike_wf (z x : ArrLike) (q : Rat) (P : PS) (h : PS.ofArrayLike z x q = .ok P) : P.WF := by
  obtain ⟨zs, xs, _, _, hl, _, _, rfl⟩ := (ofArrayLike_ok_iff z x q P).mp h
  simp [PS.WF, hl]

theorem ofArrayLike_error (z x : ArrLike) (q : Rat) (e : Err) (h : PS.ofArrayLike z x q = .error e) :
    e = .valueError := by
  unfold PS.ofArrayLike at h
  split at h
  · split at h
    · cases h; rfl
    · split at h
      · cases h
      · cases h; rfl
  · cases h; rfl

/-- integer sequences: accepted ⇔ equal lengths and all entries in {0, 1}; the phase is reduced mod 4 -/
theorem ofArrayLike_ints (zs xs : List Int) (q : Int) :
    PS.ofArrayLike (.ofInts zs) (.ofInts xs) (q : Rat) =
      if zs.length = xs.length ∧ (∀ v ∈ zs, v = 0 ∨ v = 1) ∧ (∀ v ∈ xs, v = 0 ∨ v = 1)
      then .ok ⟨zs.map (· == 1), xs.map (· == 1), qOfInt q⟩ else .error .valueError := by
  split
  · rename_i h
    rw [ofArrayLike_ok_iff]
    refine ⟨_, _, flat_ofInts zs, flat_ofInts xs, by simpa using h.1, ?_, ?_, ?_⟩
    · simpa [truncInt_intCast] using h.2.1
    · simpa [truncInt_intCast] using h.2.2
    · simp [List.map_map, Function.comp_def, truncInt_intCast]
  · rename_i h
    cases hr : PS.ofArrayLike (.ofInts zs) (.ofInts xs) (q : Rat) with
    | error e => rw [ofArrayLike_error _ _ _ _ hr]
    | ok P =>
      exfalso
      obtain ⟨zs', xs', hz, hx, hl, hza, hxa, _⟩ := (ofArrayLike_ok_iff _ _ _ _).mp hr
      rw [flat_ofInts] at hz hx
      simp only [Option.some.injEq] at hz hx
      subst hz hx
      apply h
      refine ⟨by simpa using hl, ?_, ?_⟩
      · simpa [truncInt_intCast] using hza
      · simpa [truncInt_intCast] using hxa

end Qib.Pauli
