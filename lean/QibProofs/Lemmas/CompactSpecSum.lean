import QibProofs.Lemmas.CompactSpecChain
import Mathlib.Algebra.BigOperators.Intervals
/-!
C13, spectral part — helper lemmas, part 3: the sums.

* list sums of the model (`List.range`, `pairs`, `hopEntries`) as `Finset` sums;
* `chain_core`: for a chain of `n` sites, coefficients symmetric and supported on the diagonal and on neighbouring sites, the
  Derby–Klassen image `Σ c_ii (1 − V_i)/2 + Σ_{i<j} c_ij (i/2)(E_ij V_j − E_ij V_i)` equals
  `W (Σ_{ij} c_ij a†_i a_j) W` whenever `V_i = Z_i`, the hopping term of neighbours is `s · ½ (XX + YY)` and conjugation by the
  involution `W` fixes every `Z_i` and multiplies the neighbour hopping operator by the same sign `s`;
* the matrix formula of `C13_encoded_matrix_formula` at an arbitrary register size `N = ofcNsites n0 n1` (so that the
  single-row / single-column instance can be read at `N = n`).
-/
set_option linter.unusedSimpArgs false
set_option linter.unusedVariables false
open Complex Matrix
namespace Qib.Compact
open Qib.Pauli Qib.Lattice

variable {M : Type} [AddCommMonoid M]

theorem list_range_sum (f : ℕ → M) (n : ℕ) : ((List.range n).map f).sum = ∑ i ∈ Finset.range n, f i := by
  induction n with
  | zero => simp
  | succ n ih => simp [List.range_succ, Finset.sum_range_succ, ih]

theorem list_filter_map_sum {β : Type} (l : List β) (p : β → Bool) (f : β → M) :
    ((l.filter p).map f).sum = (l.map fun a => if p a then f a else 0).sum := by
  induction l with
  | nil => simp
  | cons a l ih =>
    by_cases h : p a = true
    · simp [List.filter_cons, h, ih]
    · simp [List.filter_cons, h, ih]

theorem list_flatMap_sum {β γ : Type} (l : List β) (g : β → List γ) (f : γ → M) :
    ((l.flatMap g).map f).sum = (l.map fun a => ((g a).map f).sum).sum := by
  induction l with
  | nil => simp
  | cons a l ih => simp [List.flatMap_cons, ih]

theorem pairs_sum (L : ℕ) (f : ℕ × ℕ → M) :
    ((pairs L).map f).sum = ∑ i ∈ Finset.range L, ∑ j ∈ Finset.range L, if i < j then f (i, j) else 0 := by
  unfold pairs
  rw [list_flatMap_sum, list_range_sum]
  apply Finset.sum_congr rfl
  intro i _
  rw [List.map_map, list_filter_map_sum, list_range_sum]
  apply Finset.sum_congr rfl
  intro j _
  simp

theorem hopEntries_sum (L : ℕ) (c : List (List Rat)) (g : List ℕ × GQ → M) :
    ((hopEntries L c).map g).sum = ∑ i ∈ Finset.range L, ∑ j ∈ Finset.range L, g ([i, j], realW (cget c i j)) := by
  unfold hopEntries
  rw [list_flatMap_sum, list_range_sum]
  apply Finset.sum_congr rfl
  intro i _
  rw [List.map_map, list_range_sum]
  rfl

/-- a double sum over `range n × range n` split into the diagonal and the pairs `i < j` -/
theorem sum_sum_split {N : Type} [AddCommMonoid N] (n : ℕ) (f : ℕ → ℕ → N) :
    ∑ i ∈ Finset.range n, ∑ j ∈ Finset.range n, f i j =
      ∑ i ∈ Finset.range n, f i i + ∑ i ∈ Finset.range n, ∑ j ∈ Finset.range n, (if i < j then f i j + f j i else 0) := by
  have h1 : ∀ i j, f i j = (if i = j then f i j else 0) + ((if i < j then f i j else 0) + (if j < i then f i j else 0)) := by
    intro i j
    rcases Nat.lt_trichotomy i j with h | h | h
    · simp [h, Nat.ne_of_lt h, Nat.lt_asymm h]
    · subst h; simp
    · simp [h, Nat.ne_of_gt h, Nat.lt_asymm h]
  have h2 : ∑ i ∈ Finset.range n, ∑ j ∈ Finset.range n, (if j < i then f i j else 0) =
      ∑ i ∈ Finset.range n, ∑ j ∈ Finset.range n, (if i < j then f j i else 0) := Finset.sum_comm
  have h3 : ∑ i ∈ Finset.range n, ∑ j ∈ Finset.range n, (if i = j then f i j else 0) = ∑ i ∈ Finset.range n, f i i := by
    apply Finset.sum_congr rfl
    intro i hi
    rw [Finset.sum_ite_eq (Finset.range n) i (fun j => f i j), if_pos hi]
  calc ∑ i ∈ Finset.range n, ∑ j ∈ Finset.range n, f i j
      = ∑ i ∈ Finset.range n, ∑ j ∈ Finset.range n,
          ((if i = j then f i j else 0) + ((if i < j then f i j else 0) + (if j < i then f i j else 0))) := by
        apply Finset.sum_congr rfl; intro i _; apply Finset.sum_congr rfl; intro j _; exact h1 i j
    _ = _ := by
        simp only [Finset.sum_add_distrib, h2, h3]
        congr 1
        rw [← Finset.sum_add_distrib]
        apply Finset.sum_congr rfl; intro i _
        rw [← Finset.sum_add_distrib]
        apply Finset.sum_congr rfl; intro j _
        split <;> simp


/-! ### the chain identity -/

open Qib.Encode in
/-- the quadratic fermionic operator `Σ_{ij} c_ij a†_i a_j` on `n` sites (reference ladder matrices of C11) -/
noncomputable def quadF (n : ℕ) (c : ℕ → ℕ → ℂ) : Matrix (Fin n → Bool) (Fin n → Bool) ℂ :=
  ∑ i ∈ Finset.range n, ∑ j ∈ Finset.range n, c i j • (ladder n i true * ladder n j false)

/-- the Derby–Klassen image with vertex matrices `V` and edge matrices `E` -/
noncomputable def quadDK (N L : ℕ) (c : ℕ → ℕ → ℂ) (V : ℕ → Matrix (Fin N → Bool) (Fin N → Bool) ℂ)
    (E : ℕ → ℕ → Matrix (Fin N → Bool) (Fin N → Bool) ℂ) : Matrix (Fin N → Bool) (Fin N → Bool) ℂ :=
  ∑ i ∈ Finset.range L, c i i • ((1 / 2 : ℂ) • (1 - V i)) +
    ∑ i ∈ Finset.range L, ∑ j ∈ Finset.range L, (if i < j then c i j • ((I / 2) • (E i j * V j - E i j * V i)) else 0)

open Qib.Encode in
theorem chain_core (n : ℕ) (c : ℕ → ℕ → ℂ) (V : ℕ → Matrix (Fin n → Bool) (Fin n → Bool) ℂ)
    (E : ℕ → ℕ → Matrix (Fin n → Bool) (Fin n → Bool) ℂ) (Wm : Matrix (Fin n → Bool) (Fin n → Bool) ℂ) (s : ℂ)
    (hsym : ∀ i j, i < n → j < n → c i j = c j i)
    (hnn : ∀ i j, i < j → j < n → c i j ≠ 0 → j = i + 1)
    (hV : ∀ i, i < n → V i = zSite n i)
    (hE : ∀ i, i + 1 < n → (I / 2) • (E i (i + 1) * V (i + 1) - E i (i + 1) * V i) = s • hopT n i (i + 1))
    (hW1 : Wm * Wm = 1) (hWZ : ∀ i, i < n → Wm * zSite n i * Wm = zSite n i)
    (hWh : ∀ i, i + 1 < n → Wm * hopT n i (i + 1) * Wm = s • hopT n i (i + 1)) :
    quadDK n n c V E = Wm * quadF n c * Wm := by
  unfold quadDK quadF
  rw [Finset.mul_sum, Finset.sum_mul]
  have hdist : ∀ i ∈ Finset.range n, Wm * (∑ j ∈ Finset.range n, c i j • (ladder n i true * ladder n j false)) * Wm =
      ∑ j ∈ Finset.range n, c i j • (Wm * (ladder n i true * ladder n j false) * Wm) := by
    intro i _
    rw [Finset.mul_sum, Finset.sum_mul]
    apply Finset.sum_congr rfl; intro j _
    rw [Matrix.mul_smul, Matrix.smul_mul]
  rw [Finset.sum_congr rfl hdist,
    sum_sum_split n (fun i j => c i j • (Wm * (Encode.ladder n i true * Encode.ladder n j false) * Wm))]
  congr 1
  · apply Finset.sum_congr rfl
    intro i hi
    have hi' : i < n := Finset.mem_range.mp hi
    rw [ladder_number' n i hi', hV i hi', Matrix.mul_smul, Matrix.smul_mul, Matrix.mul_sub, Matrix.sub_mul, Matrix.mul_one, hW1,
      hWZ i hi']
  · apply Finset.sum_congr rfl; intro i hi
    apply Finset.sum_congr rfl; intro j hj
    have hi' : i < n := Finset.mem_range.mp hi
    have hj' : j < n := Finset.mem_range.mp hj
    by_cases hij : i < j
    · rw [if_pos hij, if_pos hij]
      by_cases h0 : c i j = 0
      · rw [← hsym i j hi' hj', h0]; simp
      · have e := hnn i j hij hj' h0
        subst e
        rw [← hsym i (i + 1) hi' hj', ← smul_add, ← Matrix.add_mul, ← Matrix.mul_add, ladder_hop n i hj', hWh i hj', hE i hj']
    · rw [if_neg hij, if_neg hij]


/-! ### the matrix formula of the encoder at an arbitrary register size -/

/-- the coefficient matrix as a function into `ℂ` -/
noncomputable def cfun (c : List (List Rat)) : ℕ → ℕ → ℂ := fun i j => ((cget c i j : ℚ) : ℂ)

/-- matrix of the vertex string of fermionic site `i` on a register of `N` qubits -/
noncomputable def VmN (N n0 n1 i : ℕ) : Matrix (Fin N → Bool) (Fin N → Bool) ℂ :=
  (vertexStr n0 n1 (i / n1) (i % n1)).mat N
/-- matrix of the edge string of the fermionic sites `i`, `j` on a register of `N` qubits -/
noncomputable def EmN (N n0 n1 i j : ℕ) : Matrix (Fin N → Bool) (Fin N → Bool) ℂ :=
  (edgeStr n0 n1 (i / n1) (i % n1) (j / n1) (j % n1)).mat N

/-- Derby–Klassen image of one term on a register of `N` qubits -/
noncomputable def termDK (N n0 n1 : ℕ) (c : List (List Rat)) : Matrix (Fin N → Bool) (Fin N → Bool) ℂ :=
  quadDK N (n0 * n1) (cfun c) (VmN N n0 n1) (EmN N n0 n1)

theorem termMat_eq_termDK (n0 n1 : ℕ) (c : List (List Rat)) : termMat n0 n1 c = termDK (ofcNsites n0 n1) n0 n1 c := by
  unfold termMat termDK quadDK
  rw [list_range_sum, pairs_sum]
  rfl

/-- `C13_encoded_matrix_formula` read at any `N = ofcNsites n0 n1` -/
theorem encode_mat_N (inp : Input) (op : PauliOp GQ) (n : ℕ) (hs : encode inp = .ok (op, n)) :
    ∃ n0 n1, inp.shape = [n0, n1] ∧ n = ofcNsites n0 n1 ∧
      ∀ N, N = ofcNsites n0 n1 → PauliOp.mat GQ.toC N op = (inp.terms.map fun t => termDK N n0 n1 t.coeffs).sum := by
  obtain ⟨n0, n1, h1, h2, h3⟩ := encode_mat inp op n hs
  refine ⟨n0, n1, h1, h2, fun N hN => ?_⟩
  subst hN
  rw [h3]
  congr 1
  apply List.map_congr_left
  intro t _
  exact termMat_eq_termDK n0 n1 t.coeffs

/-! ### the fermionic operator -/

open Qib.Encode in
theorem refTermMat_fermiTerm (n L : ℕ) (c : List (List Rat)) (hL : L = n) :
    refTermMat GQ.toC n (fermiTerm L c) = quadF n (cfun c) := by
  subst hL
  unfold refTermMat fermiTerm quadF
  simp only
  rw [hopEntries_sum]
  apply Finset.sum_congr rfl; intro i _
  apply Finset.sum_congr rfl; intro j _
  have hb : (OType.annihil == OType.create) = false := rfl
  have hc : (OType.create == OType.create) = true := rfl
  simp only [refProd, hb, hc, mul_one, toC_realW, cfun]

open Qib.Encode in
theorem refMat_fermiOp (n n0 n1 : ℕ) (terms : List Term) (hL : n0 * n1 = n) :
    refMat GQ.toC n (fermiOp n0 n1 terms) = (terms.map fun t => quadF n (cfun t.coeffs)).sum := by
  unfold refMat fermiOp
  simp only [List.map_map]
  congr 1
  apply List.map_congr_left
  intro t _
  exact refTermMat_fermiTerm n (n0 * n1) t.coeffs hL

theorem list_sum_conj' {k : Type} [Fintype k] [DecidableEq k] (V W : Matrix k k ℂ) (l : List (Matrix k k ℂ)) :
    V * l.sum * W = (l.map fun A => V * A * W).sum := by
  induction l with
  | nil => simp
  | cons a l ih => simp only [List.sum_cons, List.map_cons, Matrix.mul_add, Matrix.add_mul, ih]

end Qib.Compact
