import Mathlib.LinearAlgebra.Matrix.ConjTranspose
import Mathlib.Data.Complex.Basic
import Mathlib.Data.Matrix.Mul
import Mathlib.Tactic.Module
import Mathlib.Tactic.LinearCombination
/-!
C13, spectral part — helper lemmas, part 14 (pure linear algebra): the joint `+1` eigenspace of pairwise commuting Hermitian
involutions `M₁ … M_k` is the range of the orthogonal projector `Π = Π_i (1 + M_i)/2`.
-/
open Matrix
namespace Qib.Spec

variable {k : Type} [Fintype k] [DecidableEq k]

/-- pairwise commuting Hermitian involutions -/
structure CommInvols (l : List (Matrix k k ℂ)) : Prop where
  herm : ∀ M ∈ l, Mᴴ = M
  sq : ∀ M ∈ l, M * M = 1
  comm : ∀ M ∈ l, ∀ M' ∈ l, M * M' = M' * M

/-- `Π_i (1 + M_i)/2` -/
noncomputable def jointProj (l : List (Matrix k k ℂ)) : Matrix k k ℂ := (l.map fun M => (1 / 2 : ℂ) • (1 + M)).prod

theorem CommInvols.tail {a : Matrix k k ℂ} {l : List (Matrix k k ℂ)} (h : CommInvols (a :: l)) : CommInvols l :=
  ⟨fun M hM => h.herm M (by simp [hM]), fun M hM => h.sq M (by simp [hM]),
    fun M hM M' hM' => h.comm M (by simp [hM]) M' (by simp [hM'])⟩

theorem half_comm (a M : Matrix k k ℂ) (h : a * M = M * a) :
    ((1 / 2 : ℂ) • (1 + a)) * ((1 / 2 : ℂ) • (1 + M)) = ((1 / 2 : ℂ) • (1 + M)) * ((1 / 2 : ℂ) • (1 + a)) := by
  simp only [Matrix.smul_mul, Matrix.mul_smul, Matrix.add_mul, Matrix.mul_add, Matrix.one_mul, Matrix.mul_one, h]
  module

theorem comm_jointProj (A : Matrix k k ℂ) (l : List (Matrix k k ℂ)) (h : ∀ M ∈ l, A * M = M * A) :
    A * jointProj l = jointProj l * A := by
  induction l with
  | nil => simp [jointProj]
  | cons a l ih =>
    have h1 := h a (by simp)
    have h2 := ih (fun M hM => h M (by simp [hM]))
    simp only [jointProj, List.map_cons, List.prod_cons] at h2 ⊢
    have e : A * ((1 / 2 : ℂ) • (1 + a)) = ((1 / 2 : ℂ) • (1 + a)) * A := by
      simp only [Matrix.smul_mul, Matrix.mul_smul, Matrix.add_mul, Matrix.mul_add, Matrix.one_mul, Matrix.mul_one, h1]
    rw [← Matrix.mul_assoc, e, Matrix.mul_assoc, h2, Matrix.mul_assoc]

theorem half_idem (a : Matrix k k ℂ) (h : a * a = 1) :
    ((1 / 2 : ℂ) • (1 + a)) * ((1 / 2 : ℂ) • (1 + a)) = (1 / 2 : ℂ) • (1 + a) := by
  simp only [Matrix.smul_mul, Matrix.mul_smul, Matrix.add_mul, Matrix.mul_add, Matrix.one_mul, Matrix.mul_one, h]
  module

theorem half_absorb (a : Matrix k k ℂ) (h : a * a = 1) : a * ((1 / 2 : ℂ) • (1 + a)) = (1 / 2 : ℂ) • (1 + a) := by
  simp only [Matrix.mul_smul, Matrix.mul_add, Matrix.mul_one, h]
  module

theorem jointProj_cons (a : Matrix k k ℂ) (l : List (Matrix k k ℂ)) :
    jointProj (a :: l) = ((1 / 2 : ℂ) • (1 + a)) * jointProj l := by
  simp [jointProj]

theorem jointProj_props (l : List (Matrix k k ℂ)) (h : CommInvols l) :
    jointProj l * jointProj l = jointProj l ∧ (jointProj l)ᴴ = jointProj l ∧
    (∀ M ∈ l, M * jointProj l = jointProj l) ∧
    (∀ v : k → ℂ, (jointProj l).mulVec v = v ↔ ∀ M ∈ l, M.mulVec v = v) := by
  induction l with
  | nil => simp [jointProj]
  | cons a l ih =>
    obtain ⟨i1, i2, i3, i4⟩ := ih h.tail
    have ha := h.sq a (by simp)
    have hah := h.herm a (by simp)
    set p := (1 / 2 : ℂ) • (1 + a) with hp
    have hpc : p * jointProj l = jointProj l * p :=
      comm_jointProj p l (fun M hM => by
        have := h.comm a (by simp) M (by simp [hM])
        simp only [hp, Matrix.smul_mul, Matrix.mul_smul, Matrix.add_mul, Matrix.mul_add, Matrix.one_mul, Matrix.mul_one, this])
    have hpp : p * p = p := half_idem a ha
    have hph : pᴴ = p := by
      simp only [hp, Matrix.conjTranspose_smul, Matrix.conjTranspose_add, Matrix.conjTranspose_one, hah]
      congr 1
      simp
    rw [jointProj_cons]
    have idem : p * jointProj l * (p * jointProj l) = p * jointProj l := by
      calc p * jointProj l * (p * jointProj l) = p * (jointProj l * p) * jointProj l := by simp only [Matrix.mul_assoc]
        _ = p * (p * jointProj l) * jointProj l := by rw [hpc]
        _ = (p * p) * (jointProj l * jointProj l) := by simp only [Matrix.mul_assoc]
        _ = _ := by rw [hpp, i1]
    refine ⟨idem, ?_, ?_, ?_⟩
    · rw [Matrix.conjTranspose_mul, i2, hph, ← hpc]
    · intro M hM
      rcases List.mem_cons.mp hM with rfl | hM
      · rw [← Matrix.mul_assoc, half_absorb M ha]
      · have hMp : M * p = p * M := by
          have := h.comm M (by simp [hM]) a (by simp)
          simp only [hp, Matrix.smul_mul, Matrix.mul_smul, Matrix.add_mul, Matrix.mul_add, Matrix.one_mul, Matrix.mul_one, this]
        rw [← Matrix.mul_assoc, hMp, Matrix.mul_assoc, i3 M hM]
    · intro v
      constructor
      · intro hv M hM
        have hv' : (p * jointProj l).mulVec v = v := hv
        have hQ : (jointProj l).mulVec v = v := by
          have e : jointProj l * (p * jointProj l) = p * jointProj l := by
            rw [← Matrix.mul_assoc, ← hpc, Matrix.mul_assoc, i1]
          have h1 : (jointProj l).mulVec ((p * jointProj l).mulVec v) = (p * jointProj l).mulVec v := by
            rw [Matrix.mulVec_mulVec, e]
          rwa [hv'] at h1
        rcases List.mem_cons.mp hM with hMa | hM
        · have e : a * (p * jointProj l) = p * jointProj l := by rw [← Matrix.mul_assoc, half_absorb a ha]
          have h1 : a.mulVec ((p * jointProj l).mulVec v) = (p * jointProj l).mulVec v := by
            rw [Matrix.mulVec_mulVec, e]
          rw [hv'] at h1
          rw [hMa]; exact h1
        · exact (i4 v).mp hQ M hM
      · intro hv
        have hQ : (jointProj l).mulVec v = v := (i4 v).mpr (fun M hM => hv M (by simp [hM]))
        have hav := hv a (by simp)
        show (p * jointProj l).mulVec v = v
        rw [← Matrix.mulVec_mulVec, hQ]
        simp only [hp, Matrix.smul_mulVec, Matrix.add_mulVec, Matrix.one_mulVec, hav]
        ext i
        simp only [Pi.smul_apply, Pi.add_apply, smul_eq_mul]
        ring

end Qib.Spec
