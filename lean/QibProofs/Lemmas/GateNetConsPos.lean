import QibProofs.Lemmas.GateNetConsCtrl
/-!
Helper lemmas for C06: the incidence tables of the controlled-gate network count each other's references
(plain first control), one lemma per class of bond. No property statements.
-/
set_option linter.unusedSimpArgs false
set_option linter.unnecessarySeqFocus false
set_option linter.unusedVariables false
set_option linter.unusedTactic false
set_option linter.unreachableTactic false
namespace Qib.GateNet
open Qib.TNet

theorem cnt_pos_1 (len nt : Nat) (t : Int) (b : Int) (hb1 : 0 ≤ b ∧ b < 2 * (nt : Int)) :
    (ctb true len nt t).count (b) = ([-1, 0] : List Int).count t := by
  have hz : zoff (!true) nt = 2 * (nt : Int) := by simp [zoff]
  have hz' : zoff false nt = 2 * (nt : Int) := by simp [zoff]
  by_cases ht0 : t = 0
  · subst ht0
    rw [ctb_zero]
    simp only [hz, List.count_cons, List.count_nil, beq_iff_eq, count_irange]
    decide_ifs
    all_goals ((try split_ifs) <;> (try simp only [List.count_cons, List.count_nil, beq_iff_eq]) <;> (try split_ifs) <;>
      first | contradiction | omega)
  by_cases ht1 : t = -1
  · subst ht1
    rw [ctb_virt, count_cvb, cFirst_eq]
    simp only [hz, hz', if_true, List.count_cons, List.count_nil, beq_iff_eq, reduceCtorEq, false_and, if_false]
    decide_ifs
    all_goals ((try split_ifs) <;> (try simp only [List.count_cons, List.count_nil, beq_iff_eq]) <;> (try split_ifs) <;>
      first | contradiction | omega)
  simp only [ctb, hz, reduceCtorEq, false_and, if_false, if_neg ht0, if_neg ht1]
  count_tac

theorem cnt_pos_4a (len nt : Nat) (t : Int) (j : Nat) (h1 : 1 ≤ j) (h2 : j ≤ len) :
    (ctb true len nt t).count (2 * (nt : Int) + 3 * ((j : Int) - 1) + 0) = ([-1, (j : Int)] : List Int).count t := by
  have hz : zoff (!true) nt = 2 * (nt : Int) := by simp [zoff]
  have hz' : zoff false nt = 2 * (nt : Int) := by simp [zoff]
  by_cases ht0 : t = 0
  · subst ht0
    rw [ctb_zero]
    simp only [hz, List.count_cons, List.count_nil, beq_iff_eq, count_irange]
    decide_ifs
    all_goals ((try split_ifs) <;> (try simp only [List.count_cons, List.count_nil, beq_iff_eq]) <;> (try split_ifs) <;>
      first | contradiction | omega)
  by_cases ht1 : t = -1
  · subst ht1
    rw [ctb_virt, count_cvb, cFirst_eq]
    simp only [hz, hz', if_true, List.count_cons, List.count_nil, beq_iff_eq, reduceCtorEq, false_and, if_false]
    decide_ifs
    all_goals ((try split_ifs) <;> (try simp only [List.count_cons, List.count_nil, beq_iff_eq]) <;> (try split_ifs) <;>
      first | contradiction | omega)
  simp only [ctb, hz, reduceCtorEq, false_and, if_false, if_neg ht0, if_neg ht1]
  count_tac

theorem cnt_pos_4b (len nt : Nat) (t : Int) (j : Nat) (h1 : 1 ≤ j) (h2 : j ≤ len) :
    (ctb true len nt t).count (2 * (nt : Int) + 3 * ((j : Int) - 1) + 1) = ([-1, (j : Int)] : List Int).count t := by
  have hz : zoff (!true) nt = 2 * (nt : Int) := by simp [zoff]
  have hz' : zoff false nt = 2 * (nt : Int) := by simp [zoff]
  by_cases ht0 : t = 0
  · subst ht0
    rw [ctb_zero]
    simp only [hz, List.count_cons, List.count_nil, beq_iff_eq, count_irange]
    decide_ifs
    all_goals ((try split_ifs) <;> (try simp only [List.count_cons, List.count_nil, beq_iff_eq]) <;> (try split_ifs) <;>
      first | contradiction | omega)
  by_cases ht1 : t = -1
  · subst ht1
    rw [ctb_virt, count_cvb, cFirst_eq]
    simp only [hz, hz', if_true, List.count_cons, List.count_nil, beq_iff_eq, reduceCtorEq, false_and, if_false]
    decide_ifs
    all_goals ((try split_ifs) <;> (try simp only [List.count_cons, List.count_nil, beq_iff_eq]) <;> (try split_ifs) <;>
      first | contradiction | omega)
  simp only [ctb, hz, reduceCtorEq, false_and, if_false, if_neg ht0, if_neg ht1]
  count_tac

theorem cnt_pos_4c1 (len nt : Nat) (t : Int) (h2 : 1 ≤ len) :
    (ctb true len nt t).count (2 * (nt : Int) + 3 * (((1 : Nat) : Int) - 1) + 2) = ([-1, -1, 1] : List Int).count t := by
  have hz : zoff (!true) nt = 2 * (nt : Int) := by simp [zoff]
  have hz' : zoff false nt = 2 * (nt : Int) := by simp [zoff]
  by_cases ht0 : t = 0
  · subst ht0
    rw [ctb_zero]
    simp only [hz, List.count_cons, List.count_nil, beq_iff_eq, count_irange]
    decide_ifs
    all_goals ((try split_ifs) <;> (try simp only [List.count_cons, List.count_nil, beq_iff_eq]) <;> (try split_ifs) <;>
      first | contradiction | omega)
  by_cases ht1 : t = -1
  · subst ht1
    rw [ctb_virt, count_cvb, cFirst_eq]
    simp only [hz, hz', if_true, List.count_cons, List.count_nil, beq_iff_eq, reduceCtorEq, false_and, if_false]
    decide_ifs
    all_goals ((try split_ifs) <;> (try simp only [List.count_cons, List.count_nil, beq_iff_eq]) <;> (try split_ifs) <;>
      first | contradiction | omega)
  simp only [ctb, hz, reduceCtorEq, false_and, if_false, if_neg ht0, if_neg ht1]
  count_tac

theorem cnt_pos_4c2 (len nt : Nat) (t : Int) (j : Nat) (h1 : 2 ≤ j) (h2 : j ≤ len) :
    (ctb true len nt t).count (2 * (nt : Int) + 3 * ((j : Int) - 1) + 2) = ([(j : Int) - 1, (j : Int)] : List Int).count t := by
  have hz : zoff (!true) nt = 2 * (nt : Int) := by simp [zoff]
  have hz' : zoff false nt = 2 * (nt : Int) := by simp [zoff]
  by_cases ht0 : t = 0
  · subst ht0
    rw [ctb_zero]
    simp only [hz, List.count_cons, List.count_nil, beq_iff_eq, count_irange]
    decide_ifs
    all_goals ((try split_ifs) <;> (try simp only [List.count_cons, List.count_nil, beq_iff_eq]) <;> (try split_ifs) <;>
      first | contradiction | omega)
  by_cases ht1 : t = -1
  · subst ht1
    rw [ctb_virt, count_cvb, cFirst_eq]
    simp only [hz, hz', if_true, List.count_cons, List.count_nil, beq_iff_eq, reduceCtorEq, false_and, if_false]
    decide_ifs
    all_goals ((try split_ifs) <;> (try simp only [List.count_cons, List.count_nil, beq_iff_eq]) <;> (try split_ifs) <;>
      first | contradiction | omega)
  simp only [ctb, hz, reduceCtorEq, false_and, if_false, if_neg ht0, if_neg ht1]
  count_tac

theorem cnt_pos_5a (nt : Nat) (t : Int)  :
    (ctb true 0 nt t).count (2 * (nt : Int) + 3 * ((0 : Nat) : Int)) = ([-1, -1, 0] : List Int).count t := by
  have hz : zoff (!true) nt = 2 * (nt : Int) := by simp [zoff]
  have hz' : zoff false nt = 2 * (nt : Int) := by simp [zoff]
  by_cases ht0 : t = 0
  · subst ht0
    rw [ctb_zero]
    simp only [hz, List.count_cons, List.count_nil, beq_iff_eq, count_irange]
    decide_ifs
    all_goals ((try split_ifs) <;> (try simp only [List.count_cons, List.count_nil, beq_iff_eq]) <;> (try split_ifs) <;>
      first | contradiction | omega)
  by_cases ht1 : t = -1
  · subst ht1
    rw [ctb_virt, count_cvb, cFirst_eq]
    simp only [hz, hz', if_true, List.count_cons, List.count_nil, beq_iff_eq, reduceCtorEq, false_and, if_false]
    decide_ifs
    all_goals ((try split_ifs) <;> (try simp only [List.count_cons, List.count_nil, beq_iff_eq]) <;> (try split_ifs) <;>
      first | contradiction | omega)
  simp only [ctb, hz, reduceCtorEq, false_and, if_false, if_neg ht0, if_neg ht1]
  count_tac

theorem cnt_pos_5b (len nt : Nat) (t : Int) (h : 1 ≤ len) :
    (ctb true len nt t).count (2 * (nt : Int) + 3 * len) = ([0, (len : Int)] : List Int).count t := by
  have hz : zoff (!true) nt = 2 * (nt : Int) := by simp [zoff]
  have hz' : zoff false nt = 2 * (nt : Int) := by simp [zoff]
  by_cases ht0 : t = 0
  · subst ht0
    rw [ctb_zero]
    simp only [hz, List.count_cons, List.count_nil, beq_iff_eq, count_irange]
    decide_ifs
    all_goals ((try split_ifs) <;> (try simp only [List.count_cons, List.count_nil, beq_iff_eq]) <;> (try split_ifs) <;>
      first | contradiction | omega)
  by_cases ht1 : t = -1
  · subst ht1
    rw [ctb_virt, count_cvb, cFirst_eq]
    simp only [hz, hz', if_true, List.count_cons, List.count_nil, beq_iff_eq, reduceCtorEq, false_and, if_false]
    decide_ifs
    all_goals ((try split_ifs) <;> (try simp only [List.count_cons, List.count_nil, beq_iff_eq]) <;> (try split_ifs) <;>
      first | contradiction | omega)
  simp only [ctb, hz, reduceCtorEq, false_and, if_false, if_neg ht0, if_neg ht1]
  count_tac

theorem cnt_pos_6 (len nt : Nat) (t : Int) (b : Int) (h : ¬ (0 ≤ b ∧ b < 2 * (nt : Int) + 3 * len + 1)) :
    (ctb true len nt t).count (b) = ([] : List Int).count t := by
  have hz : zoff (!true) nt = 2 * (nt : Int) := by simp [zoff]
  have hz' : zoff false nt = 2 * (nt : Int) := by simp [zoff]
  by_cases ht0 : t = 0
  · subst ht0
    rw [ctb_zero]
    simp only [hz, List.count_cons, List.count_nil, beq_iff_eq, count_irange]
    decide_ifs
    all_goals ((try split_ifs) <;> (try simp only [List.count_cons, List.count_nil, beq_iff_eq]) <;> (try split_ifs) <;>
      first | contradiction | omega)
  by_cases ht1 : t = -1
  · subst ht1
    rw [ctb_virt, count_cvb, cFirst_eq]
    simp only [hz, hz', if_true, List.count_cons, List.count_nil, beq_iff_eq, reduceCtorEq, false_and, if_false]
    decide_ifs
    all_goals ((try split_ifs) <;> (try simp only [List.count_cons, List.count_nil, beq_iff_eq]) <;> (try split_ifs) <;>
      first | contradiction | omega)
  simp only [ctb, hz, reduceCtorEq, false_and, if_false, if_neg ht0, if_neg ht1]
  count_tac

/-- the two tables count each other's references (plain first control) -/
theorem ctrl_count_pos (len nt : Nat) (t b : Int) : (ctb true len nt t).count b = (cbt true len nt b).count t := by
  have hz : zoff (!true) nt = 2 * (nt : Int) := by simp [zoff]
  by_cases hb1 : 0 ≤ b ∧ b < 2 * (nt : Int)
  · rw [cbt_target _ _ _ _ hb1]; exact cnt_pos_1 len nt t b hb1
  by_cases hb4 : 2 * (nt : Int) ≤ b ∧ b < 2 * (nt : Int) + 3 * len
  · obtain ⟨j, r, hj1, hj2, hr, rfl⟩ : ∃ (j : Nat) (r : Int), 1 ≤ j ∧ j ≤ len ∧ (0 ≤ r ∧ r < 3) ∧
        b = 2 * (nt : Int) + 3 * ((j : Int) - 1) + r :=
      ⟨((b - 2 * (nt : Int)) / 3).toNat + 1, (b - 2 * (nt : Int)) % 3, by omega, by omega, by omega, by omega⟩
    have hb := cbt_block true len nt j r hj1 hj2 hr
    rw [hz] at hb
    rw [hb]
    have hr3 : r = 0 ∨ r = 1 ∨ r = 2 := by omega
    rcases hr3 with rfl | rfl | rfl
    · rw [cnt_pos_4a len nt t j hj1 hj2]; simp
    · rw [cnt_pos_4b len nt t j hj1 hj2]; simp
    · by_cases hj : j = 1
      · subst hj; rw [cnt_pos_4c1 len nt t (by omega)]; simp
      · rw [cnt_pos_4c2 len nt t j (by omega) hj2]; simp [hj]
  by_cases hb5 : b = 2 * (nt : Int) + 3 * len
  · subst hb5
    have := cbt_final true len nt
    rw [hz] at this
    rw [this]
    by_cases hl : len = 0
    · subst hl; rw [cnt_pos_5a nt t]; simp
    · rw [cnt_pos_5b len nt t (by omega)]; simp [hl]
  · rw [cnt_pos_6 len nt t b (by omega), cbt_none true len nt b (by simp; omega)]

end Qib.GateNet
