import QibProofs.Lemmas.LatticeGrid
/-! Helper lemmas for C14: the diagonal links of the triangular lattice (double `np.roll`, cut along every open
axis) are the `(+1,+1)` / `(-1,-1)` steps of the coordinates. -/
namespace Qib.Lattice

/-- one component of a diagonal step: `y = x + 1` (`up`) resp. `y = x - 1`, wrapping only if the axis is periodic -/
def DStep (n : Nat) (per up : Bool) (x y : Nat) : Prop :=
  if up = true then (x + 1 = y ∨ (per = true ∧ x + 1 = n ∧ y = 0))
  else (y + 1 = x ∨ (per = true ∧ y + 1 = n ∧ x = 0))

/-- `b = a + (1,1)` or `b = a - (1,1)` (each component wrapping iff its axis is periodic), `a ≠ b`; 2-D only.
If a periodic axis has extent 1 the component step is trivial and the diagonal degenerates to a step along the
other axis (which is a nearest neighbour anyway). -/
def DiagNN (shape : List Nat) (pbc : List Bool) (a b : List Nat) : Prop :=
  shape.length = 2 ∧ a ≠ b ∧ ∃ up : Bool,
    DStep (shape.getD 0 1) (pbc.getD 0 false) up (a.getD 0 0) (b.getD 0 0) ∧
    DStep (shape.getD 1 1) (pbc.getD 1 false) up (a.getD 1 0) (b.getD 1 0)

theorem DStep.symm {n per up x y} (h : DStep n per up x y) : DStep n per (!up) y x := by
  unfold DStep at *; cases up <;> simpa using h

theorem DiagNN.symm {shape pbc a b} (h : DiagNN shape pbc a b) : DiagNN shape pbc b a := by
  obtain ⟨h2, hne, up, h0, h1⟩ := h
  exact ⟨h2, hne.symm, !up, h0.symm, h1.symm⟩

theorem DiagNN.irrefl {shape pbc a} : ¬ DiagNN shape pbc a a := fun h => h.2.1 rfl

/-- one axis of the double roll -/
theorem dstep_iff (n : Nat) (per plus : Bool) (x y : Nat) (hx : x < n) (hy : y < n) :
    ((per = true ∨ keptByCut n plus x = true) ∧ y = rollSrc n plus x) ↔ DStep n per (!plus) x y := by
  cases plus
  · rw [rollSrc_minus hx]
    cases per <;> simp [DStep, keptByCut] <;> constructor
    · rintro ⟨h1, h2⟩; split at h2 <;> omega
    · intro h; refine ⟨by omega, ?_⟩; split <;> omega
    · intro h2; split at h2 <;> omega
    · intro h; split <;> omega
  · rw [rollSrc_plus hx]
    cases per <;> simp [DStep, keptByCut] <;> constructor
    · rintro ⟨h1, h2⟩; split at h2 <;> omega
    · intro h; refine ⟨by omega, ?_⟩; split <;> omega
    · intro h2; split at h2 <;> omega
    · intro h; split <;> omega

theorem DStep.ne_of_open {n up x y} (h : DStep n false up x y) : x ≠ y := by
  unfold DStep at h; cases up <;> simp at h <;> omega

theorem diagPair_iff (n0 n1 : Nat) (p0 p1 plus : Bool) (i j : Nat) (hi : i < n0 * n1) (hj : j < n0 * n1) :
    diagPair n0 n1 p0 p1 plus i j = true ↔
      i ≠ j ∧ DStep n0 p0 (!plus) (i / n1) (j / n1) ∧ DStep n1 p1 (!plus) (i % n1) (j % n1) := by
  have hn1 : 0 < n1 := by
    rcases Nat.eq_zero_or_pos n1 with h | h
    · subst h; simp at hi
    · exact h
  have hx : i / n1 < n0 := (Nat.div_lt_iff_lt_mul hn1).mpr hi
  have hx' : j / n1 < n0 := (Nat.div_lt_iff_lt_mul hn1).mpr hj
  have hy : i % n1 < n1 := Nat.mod_lt _ hn1
  have hy' : j % n1 < n1 := Nat.mod_lt _ hn1
  rw [← dstep_iff n0 p0 plus _ _ hx hx', ← dstep_iff n1 p1 plus _ _ hy hy']
  have hr := rollSrc_lt plus hy
  have hjeq : (j = rollSrc n0 plus (i / n1) * n1 + rollSrc n1 plus (i % n1)) ↔
      (j / n1 = rollSrc n0 plus (i / n1) ∧ j % n1 = rollSrc n1 plus (i % n1)) := by
    constructor
    · intro h
      rw [h, Nat.mul_comm, Nat.mul_add_div hn1, Nat.mul_add_mod, Nat.div_eq_of_lt hr, Nat.mod_eq_of_lt hr]
      simp
    · rintro ⟨h1, h2⟩
      rw [← h1, ← h2]; exact (Nat.div_add_mod' j n1).symm
  simp only [diagPair, Bool.and_eq_true, beq_iff_eq, hjeq]
  have hij : i = j ↔ (i / n1 = j / n1 ∧ i % n1 = j % n1) := by
    constructor
    · rintro rfl; exact ⟨rfl, rfl⟩
    · rintro ⟨h1, h2⟩; rw [← Nat.div_add_mod' i n1, ← Nat.div_add_mod' j n1, h1, h2]
  cases p0 <;> cases p1 <;> simp
  · -- both open
    constructor
    · rintro ⟨⟨h1, h2⟩, h3, h4⟩
      refine ⟨?_, ⟨h1, h3⟩, ⟨h2, h4⟩⟩
      intro e
      have := (dstep_iff n0 false plus _ _ hx hx').mp ⟨Or.inr h1, h3⟩
      exact this.ne_of_open ((hij.mp e).1)
    · rintro ⟨_, ⟨h1, h3⟩, ⟨h2, h4⟩⟩; exact ⟨⟨h1, h2⟩, h3, h4⟩
  · constructor
    · rintro ⟨h1, h3, h4⟩
      refine ⟨?_, ⟨h1, h3⟩, h4⟩
      intro e
      have := (dstep_iff n0 false plus _ _ hx hx').mp ⟨Or.inr h1, h3⟩
      exact this.ne_of_open ((hij.mp e).1)
    · rintro ⟨_, ⟨h1, h3⟩, h4⟩; exact ⟨h1, h3, h4⟩
  · constructor
    · rintro ⟨h2, h3, h4⟩
      refine ⟨?_, h3, ⟨h2, h4⟩⟩
      intro e
      have := (dstep_iff n1 false plus _ _ hy hy').mp ⟨Or.inr h2, h4⟩
      exact this.ne_of_open ((hij.mp e).2)
    · rintro ⟨_, h3, ⟨h2, h4⟩⟩; exact ⟨h2, h3, h4⟩

/-- diagonal part of `TriangularLattice.adjacency_matrix` -/
theorem triDiag_iff (shape : List Nat) (pbc : List Bool) (i j : Nat) :
    triDiag shape pbc i j = true ↔
      i < sprod shape ∧ j < sprod shape ∧ DiagNN shape pbc (unravel shape i) (unravel shape j) := by
  match shape with
  | [] => simp [triDiag, DiagNN]
  | [_] => simp [triDiag, DiagNN]
  | _ :: _ :: _ :: _ => simp [triDiag, DiagNN]
  | [n0, n1] =>
    have hs : sprod [n0, n1] = n0 * n1 := by simp [sprod]
    simp only [triDiag, Bool.and_eq_true, decide_eq_true_eq, Bool.or_eq_true, hs, DiagNN, unravel_two]
    constructor
    · rintro ⟨⟨hi, hj⟩, h⟩
      refine ⟨hi, hj, rfl, ?_⟩
      rcases h with h | h
      · obtain ⟨hne, h0, h1⟩ := (diagPair_iff n0 n1 _ _ _ i j hi hj).mp h
        refine ⟨?_, !false, by simpa using h0, by simpa using h1⟩
        intro e
        simp only [List.cons.injEq, and_true] at e
        exact hne (by rw [← Nat.div_add_mod' i n1, ← Nat.div_add_mod' j n1, e.1, e.2])
      · obtain ⟨hne, h0, h1⟩ := (diagPair_iff n0 n1 _ _ _ i j hi hj).mp h
        refine ⟨?_, !true, by simpa using h0, by simpa using h1⟩
        intro e
        simp only [List.cons.injEq, and_true] at e
        exact hne (by rw [← Nat.div_add_mod' i n1, ← Nat.div_add_mod' j n1, e.1, e.2])
    · rintro ⟨hi, hj, _, hne, up, h0, h1⟩
      refine ⟨⟨hi, hj⟩, ?_⟩
      have hne' : i ≠ j := by rintro rfl; exact hne rfl
      simp only [List.getD_cons_zero, List.getD_cons_succ] at h0 h1
      cases up
      · right; exact (diagPair_iff n0 n1 _ _ true i j hi hj).mpr ⟨hne', by simpa using h0, by simpa using h1⟩
      · left; exact (diagPair_iff n0 n1 _ _ false i j hi hj).mpr ⟨hne', by simpa using h0, by simpa using h1⟩

end Qib.Lattice
