import QibProofs.Lemmas.GateNetConsNeg
import QibProofs.Lemmas.GateNetConsPos
/-!
Helper lemma for C06: the controlled-gate network satisfies the declarative well-formedness predicate `WF`
(hence passes `isConsistent`), for every number of controls, every pattern and every target width.
No property statements.
-/
set_option linter.unusedSimpArgs false
set_option linter.unnecessarySeqFocus false
set_option linter.unusedVariables false
set_option linter.unusedTactic false
namespace Qib.GateNet
open Qib.TNet

theorem ctrl_wf (c0 : Bool) (rest : List Bool) (nt : Nat) : WF (ctrlNet c0 rest nt) := by
  have hz := zoff_ge (!c0) nt
  apply wf_of_tables (ctrlNet c0 rest nt) (ctb c0 rest.length nt) (cbt c0 rest.length nt)
  · exact ctrl_tensors_nodup c0 rest nt
  · exact ctrl_dkeys_nodup c0 rest nt
  · -- tkey
    intro e he
    simp only [ctrlNet, List.mem_append, List.mem_cons, List.not_mem_nil, or_false] at he
    rcases he with ((rfl | rfl) | he) | he
    · rfl
    · rfl
    · cases c0
      · simp only [Bool.not_false, if_true, List.mem_cons, List.not_mem_nil, or_false] at he
        rcases he with rfl | rfl <;> rfl
      · simp at he
    · obtain ⟨j, _, _, h3, h4, _⟩ := mem_crossTensors_spec _ _ _ _ e he
      rw [h3, h4]
  · -- bkey
    intro e he
    simp only [ctrlNet, List.mem_append, List.mem_map, List.mem_range, List.mem_singleton] at he
    rcases he with ((⟨i, _, rfl⟩ | he) | he) | rfl
    · rfl
    · cases c0
      · simp only [Bool.not_false, if_true, List.mem_cons, List.not_mem_nil, or_false] at he
        rcases he with rfl | rfl <;> rfl
      · simp at he
    · obtain ⟨j, _, _, h⟩ := mem_crossBonds_spec _ _ _ _ _ e he
      rcases h with ⟨h1, h2⟩ | ⟨h1, h2⟩ | ⟨h1, h2⟩ <;> rw [h1, h2]
    · rfl
  · -- tshape
    intro e he
    simp only [ctrlNet, List.mem_append, List.mem_cons, List.not_mem_nil, or_false] at he
    rcases he with ((rfl | rfl) | he) | he
    · simp [rep2]
    · simp [rep2]; omega
    · cases c0
      · simp only [Bool.not_false, if_true, List.mem_cons, List.not_mem_nil, or_false] at he
        rcases he with rfl | rfl <;> rfl
      · simp at he
    · obtain ⟨j, _, _, _, _, h5, h6⟩ := mem_crossTensors_spec _ _ _ _ e he
      rw [h5, h6]; rfl
  · -- T1
    intro e he
    simp only [ctrlNet, List.mem_append, List.mem_cons, List.not_mem_nil, or_false] at he
    rcases he with ((rfl | rfl) | he) | he
    · rw [ctb_zero, cUp_last]
    · rw [ctb_virt]; rfl
    · cases c0
      · simp only [Bool.not_false, if_true, List.mem_cons, List.not_mem_nil, or_false] at he
        rcases he with rfl | rfl
        · simp only [Int.ofNat_eq_natCast]; push_cast; rw [ctb_x1]
        · simp only [Int.ofNat_eq_natCast]; push_cast
          rw [show (rest.length : Int) + 1 + 1 = rest.length + 2 by ring, ctb_x2]
      · simp at he
    · obtain ⟨j, h1, h2, h3, _, h5, _⟩ := mem_crossTensors_spec _ _ _ _ e he
      rw [h5, h3, ctb_cross c0 rest.length nt j h1 (by omega)]
  · -- T2
    intro t ht
    simp only [ctrlNet, dkeys, List.map_append, List.map_cons, List.map_nil] at ht
    have hc := dkeys_crossTensors (cOff nt (!c0)) (rest.length + 1) 1 rest
    simp only [dkeys] at hc
    rw [hc] at ht
    simp only [List.mem_append, List.mem_cons, List.not_mem_nil, or_false, mem_irange', not_or, not_and, not_lt] at ht
    obtain ⟨⟨⟨h0, h1⟩, hx⟩, hcr⟩ := ht
    simp only [ctb]
    rw [if_neg h0, if_neg h1]
    cases c0
    · simp only [Bool.not_false, if_true, List.map_cons, List.map_nil, List.mem_cons, List.not_mem_nil, or_false, not_or,
        Int.ofNat_eq_natCast] at hx
      rw [if_neg (by push_cast at hx; omega), if_neg (by push_cast at hx; omega), if_neg (by omega)]
    · rw [if_neg (by simp), if_neg (by simp), if_neg (by omega)]
  · -- B1
    intro e he
    simp only [ctrlNet, List.mem_append, List.mem_map, List.mem_range, List.mem_singleton] at he
    rcases he with ((⟨i, hi, rfl⟩ | he) | he) | rfl
    · simp only [Int.ofNat_eq_natCast]
      rw [cbt_target _ _ _ _ ⟨by omega, by omega⟩]
    · cases c0
      · simp only [Bool.not_false, if_true, List.mem_cons, List.not_mem_nil, or_false] at he
        rcases he with rfl | rfl
        · simp only [Int.ofNat_eq_natCast]; rw [cbt_x1]; push_cast; trivial
        · simp only [Int.ofNat_eq_natCast]; rw [cbt_x2]; push_cast; congr 2
      · simp at he
    · obtain ⟨j, h1, h2, h⟩ := mem_crossBonds_spec _ _ _ _ _ e he
      rcases h with ⟨e1, e2⟩ | ⟨e1, e2⟩ | ⟨e1, e2⟩ <;> rw [e1, e2]
      · have := cbt_block c0 rest.length nt j 0 h1 (by omega) ⟨by omega, by omega⟩
        simp only [cOut, cOff_eq, Int.ofNat_eq_natCast]
        rw [add_zero] at this
        rw [this, if_neg (by omega)]
      · have := cbt_block c0 rest.length nt j 1 h1 (by omega) ⟨by omega, by omega⟩
        simp only [cIn, cOff_eq, Int.ofNat_eq_natCast]
        rw [this, if_neg (by omega)]
      · have := cbt_block c0 rest.length nt j 2 h1 (by omega) ⟨by omega, by omega⟩
        have hj : ¬ (j = rest.length + 1) := by omega
        simp only [cUp, cOff_eq, Int.ofNat_eq_natCast, if_neg hj]
        rw [this, if_pos rfl]
        by_cases hj1 : j = 1
        · rw [if_pos hj1, if_pos hj1]; cases c0 <;> simp <;> omega
        · rw [if_neg hj1, if_neg hj1]
    · simp only [cUp_last]
      rw [cbt_final]
      by_cases hl : rest.length = 0
      · have : rest.length + 1 = 1 := by omega
        rw [if_pos hl, if_pos this]; cases c0 <;> simp
      · have : ¬ (rest.length + 1 = 1) := by omega
        rw [if_neg hl, if_neg this]; simp only [Int.ofNat_eq_natCast]; congr 2; push_cast; ring
  · -- B2
    intro b hb
    rw [ctrl_dkeys_bonds, mem_zrange] at hb
    apply cbt_none
    push_cast at hb
    intro h; apply hb
    cases c0 <;> simp at h ⊢ <;> omega
  · -- sorted
    intro b
    simp only [cbt]
    split_ifs <;> simp <;> omega
  · -- at least two references
    intro b hb
    rw [ctrl_dkeys_bonds, mem_zrange] at hb
    push_cast at hb
    have hzz : zoff (!c0) nt = 2 * (nt : Int) + (if c0 then 0 else 2) := by cases c0 <;> simp [zoff]
    simp only [cbt, hzz]
    split_ifs <;> first | (simp; done) | (exfalso; omega) | (exfalso; simp_all; omega)
  · intro t b
    cases c0
    · exact ctrl_count_neg rest.length nt t b
    · exact ctrl_count_pos rest.length nt t b
  · intro p hp q hq _
    rw [ctrl_legDims_two c0 rest nt p hp, ctrl_legDims_two c0 rest nt q hq]
  · simp [ctrlNet, dkeys]

end Qib.GateNet
