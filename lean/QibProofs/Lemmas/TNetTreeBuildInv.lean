import QibProofs.Lemmas.TNetTreeBuildAssign
/-!
Helper lemmas for C07, part 17 (tree builder, 3): initial labels, the entries of the bond maps are exactly the child legs
on the bond, and the invariant of the label assignment over all bonds (`assign_inv`: every child leg carries the label
`Jb` of its bond once the bond is done; the output list keeps exactly the labels not removed by a done bond)
(no property statements).
-/
namespace Qib.TNet

/-- the initial label of a child leg: left legs `0..degL-1`, right legs shifted by `degL` -/
def lam0 (degL : Nat) : Side × Nat → Nat
  | (.L, k) => k
  | (.R, k) => k + degL

def validLeg (nL nR : NodeInfo) : Side × Nat → Prop
  | (.L, k) => k < nL.idxout.length
  | (.R, k) => k < nR.idxout.length

/-- the bond on a child leg -/
def legBe (net : Net) (nL nR : NodeInfo) : Side × Nat → Int
  | (.L, k) => legB net nL k
  | (.R, k) => legB net nR k

/-- the state before the label assignment -/
def idxState0 (degL degR : Nat) : IdxState :=
  { idxL := List.range degL, idxR := (List.range degR).map (· + degL),
    idxout := List.range degL ++ (List.range degR).map (· + degL), j := none }

theorem lbl_idxState0 {nL nR : NodeInfo} {e : Side × Nat} (h : validLeg nL nR e) :
    lbl (idxState0 nL.idxout.length nR.idxout.length) e = lam0 nL.idxout.length e := by
  obtain ⟨s, k⟩ := e
  cases s with
  | L => have : k < nL.idxout.length := h; simp [lbl, idxState0, lam0, this]
  | R => have : k < nR.idxout.length := h; simp [lbl, idxState0, lam0, this]

theorem lam0_inj {nL nR : NodeInfo} {e e' : Side × Nat} (h : validLeg nL nR e) (h' : validLeg nL nR e')
    (he : lam0 nL.idxout.length e = lam0 nL.idxout.length e') : e = e' := by
  obtain ⟨s, k⟩ := e
  obtain ⟨s', k'⟩ := e'
  cases s <;> cases s' <;> simp only [lam0, validLeg] at he h h' ⊢
  · rw [he]
  · omega
  · omega
  · have : k = k' := by omega
    rw [this]

theorem idxout0_nodup (degL degR : Nat) : (idxState0 degL degR).idxout.Nodup := by
  simp only [idxState0]
  rw [List.nodup_append]
  refine ⟨List.nodup_range, ?_, ?_⟩
  · exact List.nodup_range.map (fun a b h => by simpa using h)
  · intro a ha b hb
    simp only [List.mem_range] at ha
    obtain ⟨k, _, rfl⟩ := List.mem_map.mp hb
    omega

theorem mem_idxout0 {nL nR : NodeInfo} {l : Nat} :
    l ∈ (idxState0 nL.idxout.length nR.idxout.length).idxout ↔ ∃ e, validLeg nL nR e ∧ lam0 nL.idxout.length e = l := by
  simp only [idxState0, List.mem_append, List.mem_range, List.mem_map]
  constructor
  · rintro (h | ⟨k, hk, rfl⟩)
    · exact ⟨(.L, l), h, rfl⟩
    · exact ⟨(.R, k), hk, rfl⟩
  · rintro ⟨⟨s, k⟩, hv, rfl⟩
    cases s with
    | L => exact Or.inl hv
    | R => exact Or.inr ⟨k, hv, rfl⟩

section Entries
variable {net : Net} {nL nR : NodeInfo}

/-- an entry of the bond map of `b` is a leg of a child carrying `b` -/
theorem entry_spec (hwf : WF net) (hL : InfoCert net nL) (hR : InfoCert net nR) {b : Int} {e : Side × Nat}
    (h : some e ∈ bmapOf net nL nR b) : validLeg nL nR e ∧ legBe net nL nR e = b := by
  unfold bmapOf at h
  obtain ⟨ta, hta, he⟩ := List.mem_map.mp h
  have hb : legBond net ta = some b := (mem_bondLegs_iff_legBond hwf).mp hta
  unfold ent at he
  by_cases h1 : ta ∈ nL.openaxes
  · rw [if_pos h1] at he
    cases he
    obtain ⟨k1, k2⟩ := trk_spec hL h1
    rw [hb] at k2
    exact ⟨k1, (Option.some.inj k2).symm⟩
  · rw [if_neg h1] at he
    by_cases h2 : ta ∈ nR.openaxes
    · rw [if_pos h2] at he
      cases he
      obtain ⟨k1, k2⟩ := trk_spec hR h2
      rw [hb] at k2
      exact ⟨k1, (Option.some.inj k2).symm⟩
    · rw [if_neg h2] at he; cases he

theorem zip_snd_unique {γ δ : Type} {l : List γ} {m : List δ} (hn : l.Nodup) {a : γ} {x y : δ}
    (hx : (a, x) ∈ l.zip m) (hy : (a, y) ∈ l.zip m) : x = y := by
  obtain ⟨i, hi⟩ := List.mem_iff_getElem?.mp hx
  obtain ⟨j, hj⟩ := List.mem_iff_getElem?.mp hy
  rw [List.getElem?_zip_eq_some] at hi hj
  have hil : i < l.length := by
    by_contra hc; rw [List.getElem?_eq_none (by omega)] at hi; cases hi.1
  have hjl : j < l.length := by
    by_contra hc; rw [List.getElem?_eq_none (by omega)] at hj; cases hj.1
  have : l[i] = l[j] := by
    have h1 := hi.1; have h2 := hj.1
    rw [List.getElem?_eq_getElem hil] at h1
    rw [List.getElem?_eq_getElem hjl] at h2
    rw [Option.some.inj h1, Option.some.inj h2]
  have hij : i = j := (List.Nodup.getElem_inj_iff hn).mp this
  subst hij
  have := hi.2.symm.trans hj.2
  exact Option.some.inj this

/-- every leg of a child is an entry of the bond map of its bond, via an open axis of that child -/
theorem entry_of_leg (hwf : WF net) (hL : InfoCert net nL) (hR : InfoCert net nR)
    (hdisj : ∀ ta ∈ nL.openaxes, ta ∉ nR.openaxes) {e : Side × Nat} (hv : validLeg nL nR e) :
    ∃ ta, (ta ∈ nL.openaxes ∨ ta ∈ nR.openaxes) ∧ legBond net ta = some (legBe net nL nR e) ∧ ent nL nR ta = some e ∧
      some e ∈ bmapOf net nL nR (legBe net nL nR e) := by
  obtain ⟨s, k⟩ := e
  cases s with
  | L =>
    obtain ⟨oa, hm, hb⟩ := hL.leg (k := k) hv
    have hoa : oa ∈ nL.openaxes := (List.of_mem_zip hm).1
    have htr : trk nL oa = k := zip_snd_unique hL.nodup (trk_mem_zip hL hoa) hm
    have hent : ent nL nR oa = some (Side.L, k) := by simp [ent, hoa, htr]
    refine ⟨oa, Or.inl hoa, hb, hent, ?_⟩
    unfold bmapOf
    exact List.mem_map.mpr ⟨oa, (mem_bondLegs_iff_legBond hwf).mpr hb, hent⟩
  | R =>
    obtain ⟨oa, hm, hb⟩ := hR.leg (k := k) hv
    have hoa : oa ∈ nR.openaxes := (List.of_mem_zip hm).1
    have hnl : oa ∉ nL.openaxes := fun h => hdisj oa h hoa
    have htr : trk nR oa = k := zip_snd_unique hR.nodup (trk_mem_zip hR hoa) hm
    have hent : ent nL nR oa = some (Side.R, k) := by simp [ent, hoa, hnl, htr]
    refine ⟨oa, Or.inr hoa, hb, hent, ?_⟩
    unfold bmapOf
    exact List.mem_map.mpr ⟨oa, (mem_bondLegs_iff_legBond hwf).mpr hb, hent⟩

theorem findSome_id_spec {γ : Type} (l : List (Option γ)) :
    (l.findSome? id = none ↔ ∀ e, some e ∉ l) ∧ (∀ e, l.findSome? id = some e → some e ∈ l) := by
  induction l with
  | nil => simp
  | cons x xs ih =>
    cases x with
    | none =>
      simp only [List.findSome?_cons, id]
      constructor
      · rw [ih.1]; simp
      · intro e he; exact List.mem_cons_of_mem _ (ih.2 e he)
    | some y =>
      simp only [List.findSome?_cons, id]
      constructor
      · constructor
        · intro h; cases h
        · intro h; exact absurd List.mem_cons_self (h y)
      · intro e he; cases he; exact List.mem_cons_self

end Entries
end Qib.TNet

namespace Qib.TNet

theorem foldlM_ok_inv2 {σ β ε : Type} (f : σ → β → Except ε σ) (Inv : List β → σ → Prop) :
    ∀ (l pre : List β) (s res : σ), Inv pre s →
      (∀ pre' x post s s', pre ++ l = pre' ++ x :: post → Inv pre' s → f s x = .ok s' → Inv (pre' ++ [x]) s') →
      l.foldlM f s = .ok res → Inv (pre ++ l) res := by
  intro l
  induction l with
  | nil =>
    intro pre s res hi _ h
    simp only [List.foldlM_nil, pure, Except.pure, Except.ok.injEq] at h
    subst h; simpa using hi
  | cons x xs ih =>
    intro pre s res hi hstep h
    rw [List.foldlM_cons] at h
    cases hx : f s x with
    | error e => rw [hx] at h; cases h
    | ok s' =>
      rw [hx] at h
      have h1 := hstep pre x xs s s' rfl hi hx
      have := ih (pre ++ [x]) s' res h1 (fun pre' y post t t' hd => hstep pre' y post t t' (by simpa using hd)) h
      simpa using this

section Assign
variable (net : Net) (nL nR : NodeInfo)

/-- the first entry of the bond map of `b` -/
def firstEnt (b : Int) : Side × Nat := ((bmapOf net nL nR b).findSome? id).getD (Side.L, 0)

/-- the label all legs of bond `b` end up with -/
def Jb (b : Int) : Nat := lam0 nL.idxout.length (firstEnt net nL nR b)

/-- the labels bond `b` removes from the output list -/
def removedB (b : Int) (l : Nat) : Prop :=
  ((bmapOf net nL nR b).all Option.isSome = true ∧ l = Jb net nL nR b) ∨
  (l ≠ Jb net nL nR b ∧ ∃ e, some e ∈ bmapOf net nL nR b ∧ lam0 nL.idxout.length e = l)

/-- invariant of the label assignment after the bonds `done` -/
structure AssignInv (done : List Int) (st : IdxState) : Prop where
  lenL : st.idxL.length = nL.idxout.length
  lenR : st.idxR.length = nR.idxout.length
  lab : ∀ e, validLeg nL nR e → lbl st e = if legBe net nL nR e ∈ done then Jb net nL nR (legBe net nL nR e)
    else lam0 nL.idxout.length e
  sub : st.idxout.Sublist (idxState0 nL.idxout.length nR.idxout.length).idxout
  out : ∀ l, l ∈ st.idxout ↔ l ∈ (idxState0 nL.idxout.length nR.idxout.length).idxout ∧
    ∀ b ∈ done, ¬ removedB net nL nR b l

end Assign

theorem assign_inv {net : Net} (hwf : WF net) {nL nR : NodeInfo} (hL : InfoCert net nL) (hR : InfoCert net nR)
    (hdisj : ∀ ta ∈ nL.openaxes, ta ∉ nR.openaxes) (bidlist : List Int) (hnd : bidlist.Nodup)
    (hent : ∀ b ∈ bidlist, ∃ e, some e ∈ bmapOf net nL nR b) {res : IdxState}
    (h : (bidlist.map (bmapOf net nL nR)).foldlM assignBond (idxState0 nL.idxout.length nR.idxout.length) = .ok res) :
    AssignInv net nL nR bidlist res := by
  rw [List.foldlM_map] at h
  have := foldlM_ok_inv2 (fun s b => assignBond s (bmapOf net nL nR b)) (AssignInv net nL nR) bidlist []
    (idxState0 nL.idxout.length nR.idxout.length) res ?_ ?_ h
  · simpa using this
  · refine ⟨by simp [idxState0], by simp [idxState0], fun e hv => by simp [lbl_idxState0 hv], List.Sublist.refl _, by simp⟩
  · intro pre b post st st' hdec hi hs
    simp only [List.nil_append] at hdec
    have hbmem : b ∈ bidlist := by rw [hdec]; simp
    have hbnot : b ∉ pre := by
      rw [hdec] at hnd
      have := (List.nodup_append.mp hnd).2.2 
      intro hb
      exact this b hb b List.mem_cons_self rfl
    obtain ⟨a1, a2, a3, a4⟩ := assignBond_spec hs
    -- the first entry
    obtain ⟨e0, he0⟩ := hent b hbmem
    cases hfs : (bmapOf net nL nR b).findSome? id with
    | none => exact absurd he0 ((findSome_id_spec _).1.mp hfs e0)
    | some e1 =>
      have he1m : some e1 ∈ bmapOf net nL nR b := (findSome_id_spec _).2 e1 hfs
      have hfe : firstEnt net nL nR b = e1 := by simp [firstEnt, hfs]
      obtain ⟨hv1, hb1⟩ := entry_spec hwf hL hR he1m
      -- entries of `b` still carry their initial labels
      have hlab0 : ∀ e, some e ∈ bmapOf net nL nR b → lbl st e = lam0 nL.idxout.length e := by
        intro e he
        obtain ⟨hv, hb⟩ := entry_spec hwf hL hR he
        rw [hi.lab e hv, hb, if_neg hbnot]
      have hJ : lbl st e1 = Jb net nL nR b := by rw [hlab0 e1 he1m, Jb, hfe]
      obtain ⟨k1, k2, k3⟩ := a4 e1 hfs
      rw [hJ] at k1 k3
      refine ⟨by rw [a1, hi.lenL], by rw [a2, hi.lenR], ?_, k2.trans hi.sub, ?_⟩
      · intro e hv
        rw [k1 e]
        by_cases hbe : legBe net nL nR e = b
        · have : some e ∈ bmapOf net nL nR b := by
            obtain ⟨_, _, _, _, hm⟩ := entry_of_leg hwf hL hR hdisj hv
            rw [hbe] at hm; exact hm
          rw [if_pos this, hbe]
          simp
        · have : some e ∉ bmapOf net nL nR b := fun hm => hbe (entry_spec hwf hL hR hm).2
          rw [if_neg this, hi.lab e hv]
          by_cases hp : legBe net nL nR e ∈ pre
          · simp [hp]
          · simp [hp, hbe]
      · intro l
        have hn : st.idxout.Nodup := (idxout0_nodup _ _).sublist hi.sub
        rw [k3 hn l, hi.out l]
        have hrem : ((bmapOf net nL nR b).all Option.isSome = true ∧ l = Jb net nL nR b ∨
            l ≠ Jb net nL nR b ∧ ∃ e, some e ∈ bmapOf net nL nR b ∧ lbl st e = l) ↔ removedB net nL nR b l := by
          unfold removedB
          constructor
          · rintro (h | ⟨h1, e, h2, h3⟩)
            · exact Or.inl h
            · exact Or.inr ⟨h1, e, h2, by rw [← hlab0 e h2]; exact h3⟩
          · rintro (h | ⟨h1, e, h2, h3⟩)
            · exact Or.inl h
            · exact Or.inr ⟨h1, e, h2, by rw [hlab0 e h2]; exact h3⟩
        rw [hrem]
        constructor
        · rintro ⟨⟨h1, h2⟩, h3⟩
          refine ⟨h1, fun b' hb' => ?_⟩
          rcases List.mem_append.mp hb' with hb' | hb'
          · exact h2 b' hb'
          · simp only [List.mem_singleton] at hb'; subst hb'; exact h3
        · rintro ⟨h1, h2⟩
          exact ⟨⟨h1, fun b' hb' => h2 b' (List.mem_append_left _ hb')⟩, h2 b (by simp)⟩

end Qib.TNet
