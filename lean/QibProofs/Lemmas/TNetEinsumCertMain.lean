import QibProofs.Lemmas.TNetEinsumCert
/-!
Helper lemmas for C07, part 10: `asEinsum_cert` – on a consistent network the specification produced by `asEinsum`
(index unification per bond, condensation, output labels, axes map) satisfies the certificate `einsumOK`, for every
network (hyper-bonds, multi-edges, traces, shared open legs, open-only bonds) (no property statements).
-/
namespace Qib.TNet

theorem asEinsum_inv {net : Net} {e : EinsumSpec} (h : asEinsum net = .ok e) :
    (-1 : Int) ∈ dkeys net.tensors ∧ ∃ ndims tidx1,
      ((isort (dkeys net.tensors)).erase (-1) ++ [-1]).mapM (fun t => match dget net.tensors t with
        | some x => (pure x.shape.length : Except Err Nat)
        | none => throw Err.keyError) = .ok ndims ∧
      net.bonds.foldlM (fun tidx e => as_einsum_bond net ((isort (dkeys net.tensors)).erase (-1) ++ [-1]) tidx e.2)
        (blocks ndims 0) = .ok tidx1 ∧
      e = { tids := (isort (dkeys net.tensors)).erase (-1), tidx := (condense tidx1 []).1.dropLast,
            idxout := ((condense tidx1 []).1.getLast?.getD []).eraseDups,
            axesMap := ((condense tidx1 []).1.getLast?.getD []).map
              (fun i => ((condense tidx1 []).1.getLast?.getD []).eraseDups.idxOf i) } := by
  unfold asEinsum at h
  simp only [bind, Except.bind] at h
  split at h
  · simp [throw, throwThe, MonadExceptOf.throw] at h
  split at h
  · simp [throw, throwThe, MonadExceptOf.throw] at h
  rename_i hk
  split at h
  · cases h
  rename_i ndims hnd
  split at h
  · cases h
  rename_i tidx1 ht1
  simp only [pure, Except.pure, Except.ok.injEq] at h
  refine ⟨?_, ndims, tidx1, hnd, ht1, ?_⟩
  · simpa using hk
  · rw [← h]
    simp
end Qib.TNet

namespace Qib.TNet

/-- **`as_einsum` is certified**: on a consistent network the specification produced by `asEinsum` passes `einsumOK`
(labels are an injective renaming of bond ids) -/
theorem asEinsum_cert {net : Net} (hwf : WF net) {v : STensor} (hv : dget net.tensors (-1) = some v) {e : EinsumSpec}
    (h : asEinsum net = .ok e) : EinsumCert net v e := by
  obtain ⟨hm1, ndims, tidx1, hnd, ht1, rfl⟩ := asEinsum_inv h
  set R := (isort (dkeys net.tensors)).erase (-1) with hR
  set T := R ++ [(-1 : Int)] with hTdef
  have hns : (isort (dkeys net.tensors)).Nodup := (isort_perm _).nodup_iff.mpr hwf.tnodup
  have hRnd : R.Nodup := hns.erase _
  have hRmem : ∀ t, t ∈ R ↔ t ≠ -1 ∧ t ∈ dkeys net.tensors := by
    intro t; rw [hR, hns.mem_erase_iff, mem_isort]
  have hTnd : T.Nodup := by
    rw [hTdef, List.nodup_append]
    refine ⟨hRnd, by simp, ?_⟩
    intro a ha b hb
    simp only [List.mem_singleton] at hb
    subst hb
    exact ((hRmem a).mp ha).1
  have hTlen : T.length = R.length + 1 := by simp [hTdef]
  -- the dimensions
  have hfnd := mapM_ok_inv hnd
  have hndlen : ndims.length = R.length + 1 := by rw [← hfnd.length_eq, hTlen]
  have hdim : ∀ i (hi : i < T.length), ∃ x, dget net.tensors T[i] = some x ∧ ndims[i]? = some x.bids.length := by
    intro i hi
    have := (List.forall₂_iff_get.mp hfnd).2 i hi (by omega)
    simp only [List.get_eq_getElem] at this
    split at this
    · rename_i x hx
      refine ⟨x, hx, ?_⟩
      rw [List.getElem?_eq_getElem (by omega)]
      have hsh := hwf.tshape _ (mem_of_dget_eq_some _ hx)
      simp only at hsh
      rw [← hsh]
      simpa [pure, Except.pure] using this.symm
    · cases this
  have inv := bondLoop_inv hwf hTnd ndims ht1
  obtain ⟨_, _, hc3, _⟩ := condense_spec tidx1 [] List.nodup_nil
  set tidx2 := (condense tidx1 []).1 with ht2
  set seen := (condense tidx1 []).2 with hseen
  have hsh2 : tidx2.map List.length = ndims := by
    rw [hc3, List.map_map, ← inv.shape]
    apply List.map_congr_left
    intro row _
    simp
  have hlen2 : tidx2.length = R.length + 1 := by
    have := congrArg List.length hsh2
    simpa [hndlen] using this
  have hlab2 : ∀ i a, lab tidx2 i a = (lab tidx1 i a).map seen.idxOf := fun i a => lab_condense tidx1 i a
  -- valid positions
  have hVP : ∀ i (hi : i < T.length) x, dget net.tensors T[i] = some x → ∀ a (ha : a < x.bids.length),
      posBond net T i a = some x.bids[a] ∧ ∃ m, lab tidx2 i a = some m ∧
        ∃ row, tidx2[i]? = some row ∧ row[a]? = some m := by
    intro i hi x hx a ha
    constructor
    · simp only [posBond, List.getElem?_eq_getElem hi, Option.bind_some]
      exact legBond_eq_some_iff.mpr ⟨x, hx, List.getElem?_eq_getElem ha⟩
    · obtain ⟨x', hx', hd⟩ := hdim i hi
      rw [hx] at hx'; cases hx'
      have hrow : i < tidx2.length := by omega
      have hrl : (tidx2[i]).length = x.bids.length := by
        have := congrArg (fun l => l[i]?) hsh2
        simp only [List.getElem?_map, List.getElem?_eq_getElem hrow, Option.map_some, hd] at this
        exact Option.some.inj this
      refine ⟨tidx2[i][a], ?_, tidx2[i], List.getElem?_eq_getElem hrow, List.getElem?_eq_getElem (by omega)⟩
      simp only [lab, List.getElem?_eq_getElem hrow, Option.bind_some]
      exact List.getElem?_eq_getElem (by omega)
  -- the equality pattern of the final labels
  have hPAT : ∀ i a i' a' m m' b b', lab tidx2 i a = some m → lab tidx2 i' a' = some m' →
      posBond net T i a = some b → posBond net T i' a' = some b' → (b = b' ↔ m = m') := by
    intro i a i' a' m m' b b' hm hm' hb hb'
    rw [hlab2] at hm hm'
    cases h1 : lab tidx1 i a with
    | none => rw [h1] at hm; cases hm
    | some m1 =>
      cases h1' : lab tidx1 i' a' with
      | none => rw [h1'] at hm'; cases hm'
      | some m1' =>
        rw [h1] at hm; rw [h1'] at hm'
        simp only [Option.map_some, Option.some.injEq] at hm hm'
        constructor
        · intro hbb
          have hbk : ∃ e ∈ net.bonds, posBond net T i a = some e.1 := by
            unfold posBond at hb
            cases hTi : T[i]? with
            | none => rw [hTi] at hb; cases hb
            | some t =>
              rw [hTi] at hb
              obtain ⟨x, hx, hxb⟩ := legBond_eq_some_iff.mp hb
              obtain ⟨B, hB⟩ := hwf.toWF0.bond_of_leg hx (List.mem_of_getElem? hxb)
              exact ⟨(b, B), mem_of_dget_eq_some _ hB, by simp [posBond, hTi, hb]⟩
          have := inv.same i a i' a' m1 m1' h1 h1' (by rw [hb, hb', hbb]) hbk
          rw [← hm, ← hm', this]
        · intro hmm
          have hidx : seen.idxOf m1 = seen.idxOf m1' := by rw [hm, hm', hmm]
          have hm11 : m1 = m1' := condense_inj tidx1 h1 h1' hidx
          obtain ⟨p, q, hp1, hp2⟩ := inv.src i a m1 h1
          obtain ⟨p', q', hp1', hp2'⟩ := inv.src i' a' m1' h1'
          rw [← hm11] at hp1'
          obtain ⟨e1, e2⟩ := lab_blocks_inj ndims 0 p q p' q' m1 hp1 hp1'
          subst e1; subst e2
          rw [hp2'] at hp2
          rw [hb, hb'] at hp2
          exact (Option.some.inj hp2).symm
  -- the last row
  have hnT : R.length < T.length := by omega
  have hTn : T[R.length] = -1 := by simp [hTdef]
  set L := tidx2.getLast?.getD [] with hL
  have hLrow : tidx2[R.length]? = some L := by
    rw [hL, List.getLast?_eq_getElem?, hlen2]
    simp only [Nat.add_sub_cancel]
    rw [List.getElem?_eq_getElem (by omega)]
    rfl
  have hLlen : L.length = v.bids.length := by
    obtain ⟨x, hx, hd⟩ := hdim R.length hnT
    rw [hTn, hv] at hx; cases hx
    have := congrArg (fun l => l[R.length]?) hsh2
    simp only [List.getElem?_map, hLrow, Option.map_some, hd] at this
    exact Option.some.inj this
  set E : EinsumSpec := ⟨R, tidx2.dropLast, L.eraseDups, L.map (fun i => L.eraseDups.idxOf i)⟩ with hE
  show EinsumCert net v E
  have hvl : eVLabels E = L := by
    simp only [eVLabels, hE, List.map_map]
    conv_rhs => rw [← List.map_id L]
    apply List.map_congr_left
    intro i hi
    have hmem : i ∈ L.eraseDups := List.mem_eraseDups.mpr hi
    have hlt := List.idxOf_lt_length_of_mem hmem
    simp only [Function.comp, List.getElem?_eq_getElem hlt, List.getElem_idxOf hlt, Option.getD_some, id]
  -- every pair stems from a valid position
  have hMEM : ∀ p ∈ eAll net v E, ∃ i a, posBond net T i a = some p.1 ∧ lab tidx2 i a = some p.2 := by
    intro p hp
    unfold eAll at hp
    rcases List.mem_append.mp hp with hp | hp
    · rw [mem_eLegs_iff] at hp
      obtain ⟨q, hq, x, hx, hpz⟩ := hp
      simp only [hE] at hq
      obtain ⟨i, hi⟩ := List.mem_iff_getElem?.mp hq
      rw [List.getElem?_zip_eq_some, List.getElem?_dropLast] at hi
      have hiR : i < R.length := by
        by_contra hc; rw [List.getElem?_eq_none (by omega)] at hi; cases hi.1
      rw [if_pos (by omega)] at hi
      have hiT : i < T.length := by omega
      have hTi : T[i] = q.1 := by
        have : T[i] = R[i] := by simp [hTdef, List.getElem_append_left hiR]
        rw [this]
        have := hi.1
        rw [List.getElem?_eq_getElem hiR] at this
        exact Option.some.inj this
      obtain ⟨a, ha⟩ := List.mem_iff_getElem?.mp hpz
      rw [List.getElem?_zip_eq_some] at ha
      have hal : a < x.bids.length := by
        by_contra hc; rw [List.getElem?_eq_none (by omega)] at ha; cases ha.1
      obtain ⟨h1, m, h2, row, h3, h4⟩ := hVP i hiT x (by rw [hTi]; exact hx) a hal
      rw [hi.2] at h3
      cases h3
      rw [ha.2] at h4
      cases h4
      refine ⟨i, a, ?_, h2⟩
      rw [h1]
      rw [List.getElem?_eq_getElem hal] at ha
      rw [Option.some.inj ha.1]
    · rw [hvl] at hp
      obtain ⟨j, hj⟩ := List.mem_iff_getElem?.mp hp
      rw [List.getElem?_zip_eq_some] at hj
      have hjl : j < v.bids.length := by
        by_contra hc; rw [List.getElem?_eq_none (by omega)] at hj; cases hj.1
      obtain ⟨h1, m, h2, row, h3, h4⟩ := hVP R.length hnT v (by rw [hTn]; exact hv) j hjl
      rw [hLrow] at h3
      cases h3
      rw [hj.2] at h4
      cases h4
      refine ⟨R.length, j, ?_, h2⟩
      rw [h1]
      rw [List.getElem?_eq_getElem hjl] at hj
      rw [Option.some.inj hj.1]
  refine ⟨rfl, by simp [hE, hlen2], ?_, by simp [hE, hLlen], ?_, nodup_eraseDups' _, ?_, ?_⟩
  · intro p hp
    simp only [hE] at hp
    obtain ⟨i, hi⟩ := List.mem_iff_getElem?.mp hp
    rw [List.getElem?_zip_eq_some, List.getElem?_dropLast] at hi
    have hiR : i < R.length := by
      by_contra hc; rw [List.getElem?_eq_none (by omega)] at hi; cases hi.1
    rw [if_pos (by omega)] at hi
    have hiT : i < T.length := by omega
    have hTi : T[i] = p.1 := by
      have : T[i] = R[i] := by simp [hTdef, List.getElem_append_left hiR]
      rw [this]
      have := hi.1
      rw [List.getElem?_eq_getElem hiR] at this
      exact Option.some.inj this
    obtain ⟨x, hx, hd⟩ := hdim i hiT
    rw [hTi] at hx
    refine ⟨x, hx, ?_⟩
    have := congrArg (fun l => l[i]?) hsh2
    simp only [List.getElem?_map, hi.2, Option.map_some, hd] at this
    exact (Option.some.inj this).symm
  · intro k hk
    simp only [hE] at hk
    obtain ⟨i, hi, rfl⟩ := List.mem_map.mp hk
    exact List.idxOf_lt_length_of_mem (List.mem_eraseDups.mpr hi)
  · intro l hl
    rw [hvl]
    exact List.mem_eraseDups.mp hl
  · intro p hp q hq
    obtain ⟨i, a, h1, h2⟩ := hMEM p hp
    obtain ⟨i', a', h1', h2'⟩ := hMEM q hq
    exact hPAT i a i' a' p.2 q.2 p.1 q.1 h2 h2' h1 h1'

end Qib.TNet
