import Mathlib.Data.Complex.Basic
import Mathlib.Data.Matrix.Mul
import Mathlib.Algebra.BigOperators.Ring.Finset
import Mathlib.Algebra.BigOperators.Fin
import Mathlib.LinearAlgebra.Matrix.ConjTranspose
import Mathlib.Tactic.FinCases
import Mathlib.Tactic.IntervalCases
import Mathlib.Tactic.Ring
import Mathlib.Tactic.NormNum.Basic
import Mathlib.Tactic.Linarith
import QibModel.Pauli
/-!
Core D, Mathlib side: the denotation of a Pauli string as a complex matrix and its algebra.

* `zx z x`      : `Z^z X^x` on one site, `letter z x = (-i)^{z x} • zx z x` (I, X, Y, Z; `Y = -i·Z·X`).
* `tens A`      : tensor product in bit-function indexing, `tens A r c = ∏ k, A k (r k) (c k)`
                  (`tens_succ`: site 0 is the outermost Kronecker factor).
* `PS.mat n P`  : `(-i)^q • tens (fun k => letter (z k) (x k))` on `Matrix (Fin n → Bool) (Fin n → Bool) ℂ`.
* `mat_mul`, `commutes_iff`, `hermitian_iff`, `mat_ne_zero`, `refactorPhase_spec`, `refactorSign_spec`,
  `mat_asMatrix` (the form computed by `as_matrix`: table lookup at `(q + z·x) % 4` times `⊗ Z^z X^x`),
  `matEntry_eq` (bridge from the executable flat-index entry, site 0 most significant, to `PS.mat`).
Helper lemmas only; the property statements are in `Properties/C09.lean`.
-/

open Complex Matrix
namespace Qib.Pauli

/-- `Z^z X^x` on one site -/
def zx (z x : Bool) : Matrix Bool Bool ℂ :=
  fun r c => if r = xor c x then (if z && r then -1 else 1) else 0

/-- one letter `(-i)^{zx} Z^z X^x` (I, X, Y, Z) -/
noncomputable def letter (z x : Bool) : Matrix Bool Bool ℂ := (-I) ^ (z && x).toNat • zx z x

/-- tensor product in bit-function indexing -/
def tens {n : ℕ} (A : Fin n → Matrix Bool Bool ℂ) : Matrix (Fin n → Bool) (Fin n → Bool) ℂ :=
  fun r c => ∏ k, A k (r k) (c k)

theorem tens_mul {n : ℕ} (A B : Fin n → Matrix Bool Bool ℂ) :
    tens A * tens B = tens (fun k => A k * B k) := by
  ext r c
  simp only [tens, Matrix.mul_apply]
  rw [Finset.prod_univ_sum]
  simp only [Finset.prod_mul_distrib, Fintype.piFinset_univ]

theorem tens_smul {n : ℕ} (a : Fin n → ℂ) (A : Fin n → Matrix Bool Bool ℂ) :
    tens (fun k => a k • A k) = (∏ k, a k) • tens A := by
  ext r c
  simp [tens, Finset.prod_mul_distrib]

theorem tens_conjTranspose {n : ℕ} (A : Fin n → Matrix Bool Bool ℂ) :
    (tens A)ᴴ = tens (fun k => (A k)ᴴ) := by
  ext r c
  simp [tens, Matrix.conjTranspose_apply]

theorem tens_one {n : ℕ} : tens (fun _ : Fin n => (1 : Matrix Bool Bool ℂ)) = 1 := by
  ext r c
  simp only [tens, Matrix.one_apply]
  by_cases h : r = c
  · subst h; simp
  · rw [if_neg h]
    obtain ⟨k, hk⟩ := Function.ne_iff.mp h
    exact Finset.prod_eq_zero (Finset.mem_univ k) (by simp [hk])

/-- per-site exponent of the product phase -/
def siteExp (z1 x1 z2 x2 : Bool) : ℕ :=
  (z1 && x1).toNat + (z2 && x2).toNat + 3 * ((xor z1 z2) && (xor x1 x2)).toNat + 2 * (x1 && z2).toNat

theorem letter_mul (z1 x1 z2 x2 : Bool) :
    letter z1 x1 * letter z2 x2 = (-I) ^ siteExp z1 x1 z2 x2 • letter (xor z1 z2) (xor x1 x2) := by
  ext r c
  cases z1 <;> cases x1 <;> cases z2 <;> cases x2 <;> cases r <;> cases c <;>
    simp [letter, zx, siteExp, Matrix.mul_apply, pow_succ]

theorem letter_conjTranspose (z x : Bool) : (letter z x)ᴴ = letter z x := by
  ext r c
  cases z <;> cases x <;> cases r <;> cases c <;> simp [letter, zx, Matrix.conjTranspose_apply]

theorem letter_entry_ne_zero (z x : Bool) : letter z x false x ≠ 0 := by
  cases z <;> cases x <;> simp [letter, zx]



/-! ### list ↔ function bridging -/

def PS.zf (P : PS) (k : ℕ) : Bool := P.z.getD k false
def PS.xf (P : PS) (k : ℕ) : Bool := P.x.getD k false

theorem getD_zipWith_xor (a b : List Bool) (h : a.length = b.length) (k : ℕ) :
    (List.zipWith xor a b).getD k false = xor (a.getD k false) (b.getD k false) := by
  induction a generalizing b k with
  | nil => cases b <;> simp_all
  | cons p a ih =>
    cases b with
    | nil => simp at h
    | cons q b =>
      cases k with
      | zero => simp
      | succ k => simpa using ih b (by simpa using h) k

theorem dot_eq_sum (n : ℕ) (a b : List Bool) (ha : a.length = n) (hb : b.length = n) :
    dot a b = ∑ k : Fin n, (a.getD k false && b.getD k false).toNat := by
  induction n generalizing a b with
  | zero =>
    have : a = [] := List.length_eq_zero_iff.mp ha
    subst this; simp [dot]
  | succ n ih =>
    cases a with
    | nil => simp at ha
    | cons p a =>
      cases b with
      | nil => simp at hb
      | cons q b =>
        rw [Fin.sum_univ_succ]
        have := ih a b (by simpa using ha) (by simpa using hb)
        simp only [dot] at this ⊢
        simp [this]

theorem dot_comm (a b : List Bool) : dot a b = dot b a := by
  unfold dot
  rw [List.zipWith_comm]
  congr 1
  congr 1
  funext p q
  rw [Bool.and_comm]

/-- `(-i)^q • ⊗ₖ letter(zₖ, xₖ)` on `n` sites -/
noncomputable def PS.mat (n : ℕ) (P : PS) : Matrix (Fin n → Bool) (Fin n → Bool) ℂ :=
  (-I) ^ P.q.val • tens (fun k : Fin n => letter (P.zf k) (P.xf k))

def PS.HasLen (P : PS) (n : ℕ) : Prop := P.z.length = n ∧ P.x.length = n

theorem negI_pow_four : (-I) ^ 4 = 1 := by
  simp [pow_succ]

theorem negI_pow_congr {a b : ℕ} (h : a % 4 = b % 4) : (-I) ^ a = (-I) ^ b := by
  rw [← Nat.div_add_mod a 4, ← Nat.div_add_mod b 4, pow_add, pow_add, pow_mul, pow_mul, negI_pow_four, h]
  simp

theorem mat_mul (n : ℕ) (P R : PS) (hP : P.HasLen n) (hR : R.HasLen n) :
    (P.mul R).mat n = P.mat n * R.mat n := by
  obtain ⟨hPz, hPx⟩ := hP
  obtain ⟨hRz, hRx⟩ := hR
  have hz : ∀ k, (P.mul R).zf k = xor (P.zf k) (R.zf k) := fun k => by
    simp only [PS.zf, PS.mul]; exact getD_zipWith_xor _ _ (by omega) k
  have hx : ∀ k, (P.mul R).xf k = xor (P.xf k) (R.xf k) := fun k => by
    simp only [PS.xf, PS.mul]; exact getD_zipWith_xor _ _ (by omega) k
  simp only [PS.mat, Matrix.smul_mul, Matrix.mul_smul, tens_mul, letter_mul, tens_smul, smul_smul, hz, hx]
  congr 1
  rw [Finset.prod_pow_eq_pow_sum, ← pow_add, ← pow_add]
  apply negI_pow_congr
  have e1 := dot_eq_sum n P.z P.x hPz hPx
  have e2 := dot_eq_sum n R.z R.x hRz hRx
  have e3 := dot_eq_sum n P.x R.z hPx hRz
  have e4 := dot_eq_sum n (List.zipWith xor P.z R.z) (List.zipWith xor P.x R.x) (by simp; omega) (by simp; omega)
  simp only [getD_zipWith_xor _ _ (show P.z.length = R.z.length by omega),
    getD_zipWith_xor _ _ (show P.x.length = R.x.length by omega)] at e4
  simp only [siteExp, Finset.sum_add_distrib, ← Finset.mul_sum, PS.zf, PS.xf]
  rw [← e1, ← e2, ← e3, ← e4]
  simp only [PS.mul, qOfInt, evalTerms, mulEnv, QibGen.Pauli.mulPhaseTerms, List.map_cons, List.map_nil, List.sum_cons, List.sum_nil]
  omega



/-- the phase-free body `⊗ₖ letter(zₖ, xₖ)` -/
noncomputable def PS.body (n : ℕ) (P : PS) : Matrix (Fin n → Bool) (Fin n → Bool) ℂ :=
  tens (fun k : Fin n => letter (P.zf k) (P.xf k))

theorem mat_eq_smul_body (n : ℕ) (P : PS) : P.mat n = (-I) ^ P.q.val • P.body n := rfl

theorem body_ne_zero (n : ℕ) (P : PS) : P.body n ≠ 0 := by
  intro h
  have := congrFun (congrFun h (fun _ => false)) (fun k => P.xf k)
  simp only [PS.body, tens, Matrix.zero_apply, Finset.prod_eq_zero_iff, Finset.mem_univ, true_and] at this
  obtain ⟨k, hk⟩ := this
  exact letter_entry_ne_zero _ _ hk

theorem body_conjTranspose (n : ℕ) (P : PS) : (P.body n)ᴴ = P.body n := by
  simp [PS.body, tens_conjTranspose, letter_conjTranspose]

theorem negI_ne_zero : (-I : ℂ) ≠ 0 := by simp

theorem mat_ne_zero (n : ℕ) (P : PS) : P.mat n ≠ 0 := by
  rw [mat_eq_smul_body]
  exact smul_ne_zero (pow_ne_zero _ negI_ne_zero) (body_ne_zero n P)

theorem smul_body_inj (n : ℕ) (P : PS) {a b : ℂ} (h : a • P.body n = b • P.body n) : a = b := by
  by_contra hab
  have : (a - b) • P.body n = 0 := by rw [sub_smul, h, sub_self]
  rcases smul_eq_zero.mp this with h0 | h0
  · exact hab (sub_eq_zero.mp h0)
  · exact body_ne_zero n P h0

theorem negI_pow_inj {a b : Fin 4} (h : (-I : ℂ) ^ a.val = (-I) ^ b.val) : a = b := by
  fin_cases a <;> fin_cases b <;> simp [pow_succ, Complex.ext_iff] at h ⊢ <;> norm_num at h

theorem mat_conjTranspose (n : ℕ) (P : PS) : (P.mat n)ᴴ = (starRingEnd ℂ) ((-I) ^ P.q.val) • P.body n := by
  rw [mat_eq_smul_body, Matrix.conjTranspose_smul, body_conjTranspose]; rfl

theorem hermitian_iff (n : ℕ) (P : PS) : P.isHermitian = true ↔ (P.mat n)ᴴ = P.mat n := by
  rw [mat_conjTranspose, mat_eq_smul_body]
  constructor
  · intro h
    congr 1
    obtain ⟨z, x, q⟩ := P
    fin_cases q <;> simp_all [PS.isHermitian, QibGen.Pauli.hermMod, QibGen.Pauli.hermEq, pow_succ]
  · intro h
    have := smul_body_inj n P h
    obtain ⟨z, x, q⟩ := P
    fin_cases q <;> simp_all [PS.isHermitian, QibGen.Pauli.hermMod, QibGen.Pauli.hermEq, pow_succ, Complex.ext_iff] <;>
      norm_num at this



theorem zf_mul (n : ℕ) (P R : PS) (hP : P.HasLen n) (hR : R.HasLen n) (k : ℕ) :
    (P.mul R).zf k = xor (P.zf k) (R.zf k) := by
  simp only [PS.zf, PS.mul]; exact getD_zipWith_xor _ _ (by rw [hP.1, hR.1]) k

theorem xf_mul (n : ℕ) (P R : PS) (hP : P.HasLen n) (hR : R.HasLen n) (k : ℕ) :
    (P.mul R).xf k = xor (P.xf k) (R.xf k) := by
  simp only [PS.xf, PS.mul]; exact getD_zipWith_xor _ _ (by rw [hP.2, hR.2]) k

theorem mul_hasLen (n : ℕ) (P R : PS) (hP : P.HasLen n) (hR : R.HasLen n) : (P.mul R).HasLen n := by
  obtain ⟨h1, h2⟩ := hP; obtain ⟨h3, h4⟩ := hR
  constructor <;> simp [PS.mul, *]

theorem body_mul_comm (n : ℕ) (P R : PS) (hP : P.HasLen n) (hR : R.HasLen n) :
    (P.mul R).body n = (R.mul P).body n := by
  simp only [PS.body]
  congr 1
  funext k
  rw [zf_mul n P R hP hR, zf_mul n R P hR hP, xf_mul n P R hP hR, xf_mul n R P hR hP,
    Bool.xor_comm (P.zf k), Bool.xor_comm (P.xf k)]

theorem zipWith_xor_comm (a b : List Bool) : List.zipWith xor a b = List.zipWith xor b a := by
  rw [List.zipWith_comm]; congr 1; funext p q; exact Bool.xor_comm q p

theorem mul_q_eq_iff (P R : PS) : (P.mul R).q = (R.mul P).q ↔ P.commutesWith R = true := by
  simp only [PS.mul, qOfInt, Fin.mk.injEq, PS.commutesWith, evalTerms, mulEnv, QibGen.Pauli.mulPhaseTerms,
    QibGen.Pauli.commTerms, List.map_cons, List.map_nil, List.sum_cons, List.sum_nil, beq_iff_eq]
  rw [zipWith_xor_comm R.z P.z, zipWith_xor_comm R.x P.x, dot_comm R.x P.z]
  omega

theorem commutes_iff (n : ℕ) (P R : PS) (hP : P.HasLen n) (hR : R.HasLen n) :
    P.commutesWith R = true ↔ P.mat n * R.mat n = R.mat n * P.mat n := by
  rw [← mat_mul n P R hP hR, ← mat_mul n R P hR hP, mat_eq_smul_body, mat_eq_smul_body,
    body_mul_comm n P R hP hR, ← mul_q_eq_iff]
  constructor
  · intro h; rw [h]
  · intro h; exact negI_pow_inj (smul_body_inj n _ h)



/-! ### tables -/
open QibGen.Pauli

/-- Gaussian integer → ℂ -/
noncomputable def gi (p : Int × Int) : ℂ := (p.1 : ℂ) + (p.2 : ℂ) * I

theorem phaseAsMatrix_eq (k : ℕ) (h : k < 4) : gi (phaseAsMatrix.getD k (0, 0)) = (-I) ^ k := by
  interval_cases k <;> simp [gi, phaseAsMatrix, pow_succ]

theorem phaseRefactor_eq (k : ℕ) (h : k < 4) : gi (phaseRefactor.getD k (0, 0)) = (-I) ^ k := by
  interval_cases k <;> simp [gi, phaseRefactor, pow_succ]

theorem phaseWeightedHerm_eq (k : ℕ) (h : k < 4) : gi (phaseWeightedHerm.getD k (0, 0)) = (-I) ^ k := by
  interval_cases k <;> simp [gi, phaseWeightedHerm, pow_succ]

theorem phaseWeightedStr_eq (k : ℕ) (h : k < 4) : gi (phaseWeightedStr.getD k (0, 0)) = (-I) ^ k := by
  interval_cases k <;> simp [gi, phaseWeightedStr, pow_succ]

theorem zxE_eq (z x r c : Bool) : ((zxE z x r c : ℤ) : ℂ) = zx z x r c := by
  cases z <;> cases x <;> cases r <;> cases c <;> simp [zxE, pow2, m2, delta, matZ, matX, zx]

theorem letter_eq (z x : Bool) : letter z x = (-I) ^ (z && x).toNat • zx z x := rfl

/-- the matrix the way `as_matrix` computes it: one table lookup at `(q + z·x) % 4`, times `⊗ₖ Z^{zₖ} X^{xₖ}` -/
theorem mat_asMatrix (n : ℕ) (P : PS) (hP : P.HasLen n) :
    P.mat n = gi (phaseAsMatrix.getD P.phaseIdx (0, 0)) • tens (fun k : Fin n => zx (P.zf k) (P.xf k)) := by
  have hlt : P.phaseIdx < 4 := by unfold PS.phaseIdx; omega
  rw [phaseAsMatrix_eq _ hlt]
  simp only [PS.mat, letter_eq, tens_smul, smul_smul, Finset.prod_pow_eq_pow_sum, ← pow_add]
  congr 1
  apply negI_pow_congr
  have e1 := dot_eq_sum n P.z P.x hP.1 hP.2
  simp only [PS.zf, PS.xf]
  rw [← e1]
  simp only [PS.phaseIdx, evalTerms, mulEnv, asMatrixIndexTerms, List.map_cons, List.map_nil, List.sum_cons, List.sum_nil]
  omega

theorem list_range_prod (f : ℕ → ℂ) (n : ℕ) : ((List.range n).map f).prod = ∏ i ∈ Finset.range n, f i := by
  induction n with
  | zero => simp
  | succ n ih => simp [List.range_succ, Finset.prod_range_succ, ih]

/-- bit function of a flat index (site 0 = most significant bit) -/
def bitsOfIdx (n idx : ℕ) : Fin n → Bool := fun k => bitAt n k idx

/-- bridge: the executable dense entry at flat indices is the entry of `PS.mat` at the bit functions -/
theorem matEntry_eq (P : PS) (hP : P.WF) (r c : ℕ) :
    gi (P.matEntry r c) = P.mat P.z.length (bitsOfIdx P.z.length r) (bitsOfIdx P.z.length c) := by
  rw [mat_asMatrix P.z.length P ⟨rfl, hP.symm⟩]
  simp only [PS.matEntry, gi, Matrix.smul_apply, tens, smul_eq_mul, PS.bodyEntry, bitsOfIdx]
  have hprod : (∏ k : Fin P.z.length, zx (P.zf k) (P.xf k) (bitAt P.z.length k r) (bitAt P.z.length k c)) =
      (((List.range P.z.length).map fun k =>
        zxE (P.z.getD k false) (P.x.getD k false) (bitAt P.z.length k r) (bitAt P.z.length k c)).prod : ℤ) := by
    rw [Fin.prod_univ_eq_prod_range
      (fun k => zx (P.zf k) (P.xf k) (bitAt P.z.length k r) (bitAt P.z.length k c)) P.z.length,
      ← list_range_prod, Int.cast_list_prod, List.map_map]
    congr 1
    apply List.map_congr_left
    intro k _
    simp [zxE_eq, PS.zf, PS.xf]
  rw [hprod]
  push_cast
  ring

theorem refactorPhase_spec (n : ℕ) (P : PS) :
    gi P.refactorPhase.1 • P.refactorPhase.2.mat n = P.mat n ∧ P.refactorPhase.2.q = 0 := by
  refine ⟨?_, rfl⟩
  simp only [PS.refactorPhase, phaseRefactor_eq _ P.q.isLt, PS.mat]
  simp [PS.zf, PS.xf]

theorem refactorSign_spec (n : ℕ) (P : PS) :
    ((P.refactorSign.1 : ℤ) : ℂ) • P.refactorSign.2.mat n = P.mat n ∧ P.refactorSign.2.q.val < 2 ∧
    (P.refactorSign.1 = 1 ∨ P.refactorSign.1 = -1) := by
  obtain ⟨z, x, q⟩ := P
  fin_cases q <;> simp [PS.refactorSign, signBelow, signKeepFactor, signFactor, signMod, PS.mat, PS.zf, PS.xf, qOfInt, pow_succ]


/-! ### reusable facts for later cores (encodings, Hamiltonians, VQE) -/

/-- site 0 is the outermost Kronecker factor: `tens A = A 0 ⊗ tens (tail A)` entrywise -/
theorem tens_succ {n : ℕ} (A : Fin (n + 1) → Matrix Bool Bool ℂ) (r c : Fin (n + 1) → Bool) :
    tens A r c = A 0 (r 0) (c 0) * tens (Fin.tail A) (Fin.tail r) (Fin.tail c) := by
  simp [tens, Fin.prod_univ_succ, Fin.tail]

theorem tens_zero (A : Fin 0 → Matrix Bool Bool ℂ) (r c : Fin 0 → Bool) : tens A r c = 1 := by
  simp [tens]

def pauliX : Matrix Bool Bool ℂ := fun r c => if r = c then 0 else 1
def pauliZ : Matrix Bool Bool ℂ := fun r c => if r = c then (if r then -1 else 1) else 0
noncomputable def pauliY : Matrix Bool Bool ℂ := fun r c => if r = c then 0 else (if r then I else -I)

theorem letter_I : letter false false = 1 := by
  ext r c; cases r <;> cases c <;> simp [letter, zx]
theorem letter_X : letter false true = pauliX := by
  ext r c; cases r <;> cases c <;> simp [letter, zx, pauliX]
theorem letter_Z : letter true false = pauliZ := by
  ext r c; cases r <;> cases c <;> simp [letter, zx, pauliZ]
theorem letter_Y : letter true true = pauliY := by
  ext r c; cases r <;> cases c <;> simp [letter, zx, pauliY]

/-- the docstring's compensation: `Y = -i · Z · X` -/
theorem pauliY_eq : pauliY = (-I) • (pauliZ * pauliX) := by
  ext r c; cases r <;> cases c <;> simp [pauliX, pauliY, pauliZ, Matrix.mul_apply]

theorem letter_mul_self (z x : Bool) : letter z x * letter z x = 1 := by
  rw [letter_mul]
  cases z <;> cases x <;> simp [siteExp, letter_I, pow_succ]

theorem identity_mat (n : ℕ) : (PS.identity n).mat n = 1 := by
  have h : ∀ k, (PS.identity n).zf k = false ∧ (PS.identity n).xf k = false := by
    intro k; constructor <;>
      (simp only [PS.identity, PS.zf, PS.xf, List.getD_eq_getElem?_getD, List.getElem?_replicate]; split <;> rfl)
  simp only [PS.mat, h, letter_I, tens_one]
  simp [PS.identity]

theorem identity_hasLen (n : ℕ) : (PS.identity n).HasLen n := by
  simp [PS.identity, PS.HasLen]

/-- a Pauli-string matrix is unitary: `M ᴴ * M = 1` -/
theorem mat_conjTranspose_mul_self (n : ℕ) (P : PS) : (P.mat n)ᴴ * P.mat n = 1 := by
  rw [mat_conjTranspose, mat_eq_smul_body, Matrix.smul_mul, Matrix.mul_smul, smul_smul]
  have hb : P.body n * P.body n = 1 := by
    simp only [PS.body, tens_mul, letter_mul_self, tens_one]
  rw [hb]
  obtain ⟨z, x, q⟩ := P
  fin_cases q <;> simp [pow_succ]

/-- flat index of a bit function, site 0 most significant -/
def natOfBits : (n : ℕ) → (Fin n → Bool) → ℕ
  | 0, _ => 0
  | n + 1, r => (r 0).toNat * 2 ^ n + natOfBits n (Fin.tail r)

theorem natOfBits_lt (n : ℕ) (r : Fin n → Bool) : natOfBits n r < 2 ^ n := by
  induction n with
  | zero => simp [natOfBits]
  | succ n ih =>
    have := ih (Fin.tail r)
    simp only [natOfBits]
    cases r 0 <;> simp <;> omega

theorem bitAt_natOfBits (n : ℕ) (r : Fin n → Bool) (k : Fin n) : bitAt n k (natOfBits n r) = r k := by
  induction n with
  | zero => exact k.elim0
  | succ n ih =>
    have hlt := natOfBits_lt n (Fin.tail r)
    simp only [bitAt, natOfBits]
    rw [Nat.mul_comm, Nat.testBit_two_pow_mul_add _ hlt]
    refine Fin.cases ?_ (fun j => ?_) k
    · simp; cases r 0 <;> rfl
    · have hj : n + 1 - 1 - (j.succ : ℕ) < n := by have := j.isLt; simp only [Fin.val_succ]; omega
      rw [if_pos hj]
      have := ih (Fin.tail r) j
      simp only [bitAt] at this
      have e : n + 1 - 1 - (j.succ : ℕ) = n - 1 - (j : ℕ) := by simp only [Fin.val_succ]; omega
      rw [e, this]; rfl

theorem bitsOfIdx_natOfBits (n : ℕ) (r : Fin n → Bool) : bitsOfIdx n (natOfBits n r) = r := by
  funext k; exact bitAt_natOfBits n r k

/-- the dense matrix entry at the flat indices of `r`, `c` (site 0 most significant) is `PS.mat n r c` -/
theorem matEntry_natOfBits (P : PS) (hP : P.WF) (r c : Fin P.z.length → Bool) :
    gi (P.matEntry (natOfBits _ r) (natOfBits _ c)) = P.mat P.z.length r c := by
  rw [matEntry_eq P hP, bitsOfIdx_natOfBits, bitsOfIdx_natOfBits]

end Qib.Pauli
