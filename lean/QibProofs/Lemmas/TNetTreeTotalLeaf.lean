import QibProofs.Lemmas.TNetTreeTotalDriver
/-!
Helper lemmas for C07 totality, part 7: the single-leaf scaffold on a network with one real tensor `T`. The preparation
of `contract_tree` returns iff no bond occurs twice among the bonds of `T` (`prep_leaf_total`); it fails with
`RuntimeError` when an OPEN bond occurs twice (`prep_leaf_dup_open`, "inconsistency when tracking open axis") and with
`AssertionError` (`assert c == tree.ndim`) when only bonds without open leg – traces – occur twice
(`prep_leaf_dup_closed`) (no property statements).
-/
namespace Qib.TNet

/-- `b` sits at two distinct positions of `l` -/
def DupAt (l : List Int) (b : Int) : Prop := ∃ a a' : Nat, a ≠ a' ∧ l[a]? = some b ∧ l[a']? = some b

theorem dupAt_iff_count {l : List Int} {b : Int} : DupAt l b ↔ 2 ≤ l.count b := by
  constructor
  · rintro ⟨a, a', hne, h1, h2⟩
    have key : ∀ x y : Nat, x < y → l[x]? = some b → l[y]? = some b → 2 ≤ l.count b := by
      intro x y hxy hx hy
      have h3 := count_take_lt_count hy
      have hyl : y < l.length := by
        by_contra hc; rw [List.getElem?_eq_none (by omega)] at hy; cases hy
      have hm : b ∈ l.take y := by
        rw [List.mem_take_iff_getElem]
        have hxl : x < l.length := by omega
        refine ⟨x, by omega, ?_⟩
        rw [List.getElem?_eq_getElem hxl] at hx
        exact Option.some.inj hx
      have := List.count_pos_iff.mpr hm
      omega
    rcases Nat.lt_or_gt_of_ne hne with h | h
    · exact key a a' h h1 h2
    · exact key a' a h h2 h1
  · intro h
    obtain ⟨a0, h0⟩ := Option.isSome_iff_exists.mp ((nthIdx_isSome b l 0).mpr (by omega))
    obtain ⟨a1, h1⟩ := Option.isSome_iff_exists.mp ((nthIdx_isSome b l 1).mpr (by omega))
    obtain ⟨e0, c0⟩ := (nthIdx_eq_some b l 0 a0).mp h0
    obtain ⟨e1, c1⟩ := (nthIdx_eq_some b l 1 a1).mp h1
    refine ⟨a0, a1, ?_, e0, e1⟩
    rintro rfl
    omega

theorem nodup_iff_no_dupAt {l : List Int} : l.Nodup ↔ ∀ b, ¬ DupAt l b := by
  rw [List.nodup_iff_count_le_one]
  constructor
  · intro h b hd
    have := dupAt_iff_count.mp hd
    have := h b
    omega
  · intro h b
    by_contra hc
    exact h b (dupAt_iff_count.mpr (by omega))

/-- a network whose only real tensor is `T` (id `tid`) -/
structure OneLeaf (net : Net) (v T : STensor) (tid : Int) : Prop where
  hv : dget net.tensors (-1) = some v
  hT : dget net.tensors tid = some T
  ne : tid ≠ -1
  only : ∀ t ∈ dkeys net.tensors, t = -1 ∨ t = tid

theorem oneLeaf_of_full {net : Net} (hwf : WF net) {tid : Int} (hfull : ScaffoldFull net (.leaf tid)) :
    ∃ v T, OneLeaf net v T tid := by
  obtain ⟨v, hvm⟩ := exists_mem_of_mem_dkeys hwf.virt
  have hv := dget_of_mem hwf.tnodup hvm
  simp only at hv
  obtain ⟨hne, hk⟩ := scaffoldFull_leaves hwf hfull tid (by simp [scaffoldLeaves])
  obtain ⟨T, hT⟩ := Option.isSome_iff_exists.mp ((dget_isSome_iff _ _).mpr hk)
  refine ⟨v, T, hv, hT, hne, ?_⟩
  intro t ht
  by_cases h : t = -1
  · exact Or.inl h
  · right
    have hns : (isort (dkeys net.tensors)).Nodup := (isort_perm _).nodup_iff.mpr hwf.tnodup
    have : t ∈ (isort (dkeys net.tensors)).erase (-1) := by
      rw [hns.mem_erase_iff]; exact ⟨h, mem_isort.mpr ht⟩
    rw [← hfull.2] at this
    simpa [scaffoldLeaves, isort, insertSorted] using this

section One
variable {net : Net} {v T : STensor} {tid : Int}

/-- a real leg of a bond is an axis of `T` -/
theorem OneLeaf.real_leg (hwf : WF net) (ol : OneLeaf net v T tid) {b : Int} {ta : Int × Nat}
    (hta : ta ∈ bondLegs net b) (hne : ta.1 ≠ -1) : ta.1 = tid ∧ T.bids[ta.2]? = some b := by
  obtain ⟨t, a⟩ := ta
  obtain ⟨T', hT', hb'⟩ := (mem_bondLegs_iff hwf).mp hta
  have hk : t ∈ dkeys net.tensors := (dget_isSome_iff _ _).mp (by rw [hT']; rfl)
  rcases ol.only t hk with h | h
  · exact absurd h hne
  · subst h
    rw [ol.hT] at hT'; cases hT'
    exact ⟨rfl, hb'⟩

/-- an axis of `T` as an open axis of the leaf record -/
theorem OneLeaf.open_axis (hwf : WF net) (ol : OneLeaf net v T tid) {a : Nat} {b : Int} (h : T.bids[a]? = some b) :
    (tid, a) ∈ (leafInfo tid T.shape.length).openaxes ∧ trk (leafInfo tid T.shape.length) (tid, a) = a ∧
      a < T.shape.length ∧ legB net (leafInfo tid T.shape.length) a = b ∧ (tid, a) ∈ bondLegs net b := by
  have hI0 := leafInfo_cert hwf ol.hT
  have hsh : T.shape.length = T.bids.length := hwf.tshape _ (mem_of_dget_eq_some _ ol.hT)
  have ha : a < T.bids.length := by
    by_contra hc; rw [List.getElem?_eq_none (by omega)] at h; cases h
  have ha' : a < T.shape.length := by omega
  obtain ⟨h1, h2⟩ := trk_leafInfo hI0 ha'
  obtain ⟨hb, hl⟩ := legB_of_leafId hwf hI0 ol.hT (by simp [leafInfo]) rfl rfl ha'
  rw [List.getElem?_eq_getElem ha] at h
  exact ⟨h1, h2, ha', by rw [hl]; exact Option.some.inj h,
    (mem_bondLegs_iff hwf).mpr ⟨T, ol.hT, by rw [List.getElem?_eq_getElem ha, Option.some.inj h]⟩⟩

/-- **the single leaf is ready** when no bond occurs twice on `T` -/
theorem rootReady_leaf (hwf : WF net) (ol : OneLeaf net v T tid) (hnd : T.bids.Nodup)
    (htouch : ∀ bid ∈ v.bids, ∃ ta ∈ bondLegs net bid, ta.1 ≠ -1) : RootReady net v (leafInfo tid T.shape.length) := by
  have hI0 := leafInfo_cert hwf ol.hT
  have hsh : T.shape.length = T.bids.length := hwf.tshape _ (mem_of_dget_eq_some _ ol.hT)
  have hN : (leafInfo tid T.shape.length).idxout.length = T.shape.length := by simp [leafInfo]
  have hleg : ∀ k, k < T.shape.length → ∃ (h : k < T.bids.length), legB net (leafInfo tid T.shape.length) k = T.bids[k] :=
    fun k hk => legB_of_leafId hwf hI0 ol.hT (by simp [leafInfo]) rfl rfl hk
  refine ⟨hI0, ?_, ?_, ?_, htouch⟩
  · intro k k' hk hk' he
    rw [hN] at hk hk'
    obtain ⟨h1, e1⟩ := hleg k hk
    obtain ⟨h2, e2⟩ := hleg k' hk'
    rw [e1, e2] at he
    exact (List.Nodup.getElem_inj_iff hnd).mp he
  · intro bid _ ta hta hne
    obtain ⟨t, a⟩ := ta
    obtain ⟨h1, h2⟩ := ol.real_leg hwf hta hne
    simp only at h1 h2
    subst h1
    exact (ol.open_axis hwf h2).1
  · intro k hk
    rw [hN] at hk
    obtain ⟨h1, e1⟩ := hleg k hk
    rw [e1]
    set b := T.bids[k] with hb
    have hbm : b ∈ T.bids := List.getElem_mem h1
    obtain ⟨B, hB⟩ := hwf.toWF0.bond_of_leg ol.hT hbm
    have hcnt : B.tids.count tid = 1 := by
      rw [hwf.toWF0.mult ol.hT hB]
      have h1 := List.nodup_iff_count_le_one.mp hnd b
      have h2 := List.count_pos_iff.mpr hbm
      omega
    have hlen : 2 ≤ B.tids.length := hwf.blen _ (mem_of_dget_eq_some _ hB)
    have hex : ∃ t ∈ B.tids, t ≠ tid := by
      by_contra hcon
      have hall : ∀ t ∈ B.tids, tid = t := by
        intro t ht
        by_contra hne
        exact hcon ⟨t, ht, fun h => hne h.symm⟩
      have := List.count_eq_length.mpr hall
      omega
    obtain ⟨t, ht, hne⟩ := hex
    obtain ⟨T', hT'⟩ := hwf.toWF0.tensor_of_ref hB ht
    have hk' : t ∈ dkeys net.tensors := (dget_isSome_iff _ _).mp (by rw [hT']; rfl)
    have htv : t = -1 := (ol.only t hk').resolve_right hne
    subst htv
    have := hwf.toWF0.mult ol.hv hB
    have hpos : 0 < B.tids.count (-1) := List.count_pos_iff.mpr ht
    exact List.count_pos_iff.mp (by omega)

/-- **single leaf, no repeated bond: the preparation returns** -/
theorem prep_leaf_total (hwf : WF net) (ol : OneLeaf net v T tid) (hnd : T.bids.Nodup)
    (htouch : ∀ bid ∈ v.bids, ∃ ta ∈ bondLegs net bid, ta.1 ≠ -1) :
    ∃ t perm am, contractTreePrep net (.leaf (leafInfo tid T.shape.length)) = .ok (t, perm, am) :=
  prep_total_of hwf ol.hv (tree := .leaf (leafInfo tid T.shape.length)) (rootReady_leaf hwf ol hnd htouch)

/-- **single leaf, an open bond twice on `T`: `RuntimeError`** ("inconsistency when tracking open axis") -/
theorem prep_leaf_dup_open (hwf : WF net) (ol : OneLeaf net v T tid) {b : Int} (hb : b ∈ v.bids)
    (hdup : DupAt T.bids b) :
    contractTreePrep net (.leaf (leafInfo tid T.shape.length)) = .error .runtimeError := by
  have hI0 := leafInfo_cert hwf ol.hT
  obtain ⟨a, a', hne, h1, h2⟩ := hdup
  have hfail : axisFun net (leafInfo tid T.shape.length) b = .error .runtimeError := by
    rcases axisFun_ok_or_runtime hwf ol.hv hI0 hb with ⟨k, hk⟩ | h
    · exfalso
      have hall := axisFun_all hk
      obtain ⟨o1, t1, _, _, m1⟩ := ol.open_axis hwf h1
      obtain ⟨o2, t2, _, _, m2⟩ := ol.open_axis hwf h2
      have e1 := hall _ m1 ol.ne
      have e2 := hall _ m2 ol.ne
      rw [trackOf_spec hI0, if_pos o1, t1] at e1
      rw [trackOf_spec hI0, if_pos o2, t2] at e2
      have x1 : a = k := by simpa using e1
      have x2 : a' = k := by simpa using e2
      exact hne (x1.trans x2.symm)
    · exact h
  have hmap : v.bids.mapM (axisFun net (leafInfo tid T.shape.length)) = .error .runtimeError :=
    mapM_error_of v.bids (fun x hx => axisFun_ok_or_runtime hwf ol.hv hI0 hx) ⟨b, hb, hfail⟩
  unfold contractTreePrep
  dsimp only
  rw [ol.hv]
  dsimp only
  exact bind_eq_error_of hmap

/-- **single leaf, only bonds without open leg (traces) twice on `T`: `AssertionError`** (`assert c == tree.ndim`) -/
theorem prep_leaf_dup_closed (hwf : WF net) (ol : OneLeaf net v T tid) {b0 : Int} (hdup : DupAt T.bids b0)
    (hclosed : ∀ b ∈ v.bids, ¬ DupAt T.bids b)
    (htouch : ∀ bid ∈ v.bids, ∃ ta ∈ bondLegs net bid, ta.1 ≠ -1) :
    contractTreePrep net (.leaf (leafInfo tid T.shape.length)) = .error .assertion := by
  have hI0 := leafInfo_cert hwf ol.hT
  set root := leafInfo tid T.shape.length with hroot
  have hN : root.idxout.length = T.shape.length := by simp [hroot, leafInfo]
  -- the axes map
  obtain ⟨am0, ham0⟩ := mapM_total (f := axisFun net root) v.bids (fun bid hb => by
    refine axisFun_total_local hwf ol.hv hI0 hb (htouch bid hb) ?_ ?_
    · intro ta hta hne
      obtain ⟨t, a⟩ := ta
      obtain ⟨h1, h2⟩ := ol.real_leg hwf hta hne
      simp only at h1 h2
      subst h1
      exact (ol.open_axis hwf h2).1
    · intro ta hta ta' hta' hne hne'
      obtain ⟨t, a⟩ := ta
      obtain ⟨t', a'⟩ := ta'
      obtain ⟨h1, h2⟩ := ol.real_leg hwf hta hne
      obtain ⟨h1', h2'⟩ := ol.real_leg hwf hta' hne'
      simp only at h1 h2 h1' h2'
      subst h1
      subst h1'
      have haa : a = a' := by
        by_contra hc
        exact hclosed bid hb ⟨a, a', hc, h2, h2'⟩
      rw [haa])
  have hfam0 := mapM_ok_inv ham0
  have ham0len : am0.length = v.bids.length := hfam0.length_eq.symm
  have hax0 : ∀ i (hi : i < v.bids.length), ∃ (hi' : i < am0.length), am0[i] < root.idxout.length ∧
      nodeLegBond net root am0[i] = some v.bids[i] := by
    intro i hi
    have hi' : i < am0.length := by omega
    have := (List.forall₂_iff_get.mp hfam0).2 i hi hi'
    simp only [List.get_eq_getElem] at this
    exact ⟨hi', axisFun_spec hwf hI0 this⟩
  have hlt : ∀ ax ∈ am0, ax < root.idxout.length := by
    intro ax hax
    obtain ⟨i, hi, rfl⟩ := List.getElem_of_mem hax
    exact (hax0 i (by omega)).2.1
  obtain ⟨marks, c, hmc⟩ := mark_returns root.idxout.length am0 hlt
  refine contractTreePrep_assert (tree := .leaf root) ol.hv ham0 hmc ?_
  intro hc
  subst hc
  obtain ⟨_, _, hall⟩ := mark_final (mark_inv _ am0 hmc)
  -- an axis of the repeated bond would have to occur in the axes map
  have hdup' := hdup
  obtain ⟨a, _, _, h1, _⟩ := hdup'
  obtain ⟨_, _, ha, hl, _⟩ := ol.open_axis hwf h1
  obtain ⟨i, hi, hie⟩ := List.getElem_of_mem (hall a (by rw [hN]; exact ha))
  obtain ⟨_, _, h2⟩ := hax0 i (by omega)
  have : legB net root a = v.bids[i] := by rw [← hie]; simp [legB, h2]
  rw [hl] at this
  exact hclosed b0 (by rw [this]; exact List.getElem_mem _) hdup

end One

/-- the builder on a single real leaf -/
theorem buildContractionTree_leaf {net : Net} {tid : Int} {T : STensor} (hne : tid ≠ -1)
    (hT : dget net.tensors tid = some T) :
    buildContractionTree net (.leaf tid) = .ok (.leaf (leafInfo tid T.shape.length)) := by
  have hb : (tid == -1) = false := by simpa using hne
  simp only [buildContractionTree, buildTree, hb, hT, bind, Except.bind, pure, Except.pure, Bool.false_eq_true,
    if_false, leafInfo]

/-- **single-leaf scaffold, no repeated bond on the tensor: `contract_tree` returns** -/
theorem contractTree_leaf_returns {net : Net} {data : Data} (hrep : RepOK net)
    (hcd : isConsistentData net data = .ok true) (htouch : openTouch net = true) {tid : Int}
    (hfull : ScaffoldFull net (.leaf tid)) {T : STensor} (hT : dget net.tensors tid = some T) (hnd : T.bids.Nodup) :
    ∃ r am t, contractTree net data (.leaf tid) = .ok (r, am, t) := by
  have hwf : WF net := wf_of_consistent hrep (isConsistentData_ok hcd).1
  obtain ⟨v, T', ol⟩ := oneLeaf_of_full hwf hfull
  have : T' = T := by have := ol.hT; rw [hT] at this; exact (Option.some.inj this).symm
  subst this
  have h0 := buildContractionTree_leaf ol.ne hT
  obtain ⟨t, perm, am, hprep⟩ := prep_leaf_total hwf ol hnd (openTouch_legs hwf ol.hv htouch)
  obtain ⟨_, _, _, _, _, _, _, _, _, hperm, _⟩ := contractTreePrep_full hprep
  simp only [permuteAt, bind, Except.bind] at hperm
  split at hperm
  · cases hperm
  rename_i i' hi'
  simp only [pure, Except.pure, Except.ok.injEq] at hperm
  subst hperm
  obtain ⟨_, _, _, _, htid⟩ := permuteInfo_inv hi'
  obtain ⟨d, hd, _, _⟩ := tensorDict_ok hwf.tkey hcd ol.ne hT
  have hd' : tensorDict net data i'.tid = some d := by rw [htid]; exact hd
  exact ⟨_, _, _, contractTree_of_leaf h0 hprep (dataLoop_of_consistent hcd) hd'⟩

/-- **single-leaf scaffold, an open bond twice on the tensor: `RuntimeError`** -/
theorem contractTree_leaf_dup_open {net : Net} {data : Data} (hrep : RepOK net) (hcons : isConsistent net = .ok true)
    {tid : Int} (hfull : ScaffoldFull net (.leaf tid)) {v T : STensor} (hv : dget net.tensors (-1) = some v)
    (hT : dget net.tensors tid = some T) {b : Int} (hb : b ∈ v.bids) (hdup : 2 ≤ T.bids.count b) :
    contractTree net data (.leaf tid) = .error .runtimeError := by
  have hwf : WF net := wf_of_consistent hrep hcons
  obtain ⟨v', T', ol⟩ := oneLeaf_of_full hwf hfull
  have e1 : T' = T := by have := ol.hT; rw [hT] at this; exact (Option.some.inj this).symm
  have e2 : v' = v := by have := ol.hv; rw [hv] at this; exact (Option.some.inj this).symm
  subst e1; subst e2
  exact contractTree_error_prep (buildContractionTree_leaf ol.ne hT)
    (prep_leaf_dup_open hwf ol hb (dupAt_iff_count.mpr hdup))

/-- **single-leaf scaffold, only bonds without open leg twice on the tensor: `AssertionError`** -/
theorem contractTree_leaf_dup_closed {net : Net} {data : Data} (hrep : RepOK net) (hcons : isConsistent net = .ok true)
    (htouch : openTouch net = true) {tid : Int} (hfull : ScaffoldFull net (.leaf tid)) {v T : STensor}
    (hv : dget net.tensors (-1) = some v) (hT : dget net.tensors tid = some T) (hdup : ¬ T.bids.Nodup)
    (hclosed : ∀ b ∈ v.bids, T.bids.count b ≤ 1) :
    contractTree net data (.leaf tid) = .error .assertion := by
  have hwf : WF net := wf_of_consistent hrep hcons
  obtain ⟨v', T', ol⟩ := oneLeaf_of_full hwf hfull
  have e1 : T' = T := by have := ol.hT; rw [hT] at this; exact (Option.some.inj this).symm
  have e2 : v' = v := by have := ol.hv; rw [hv] at this; exact (Option.some.inj this).symm
  subst e1; subst e2
  have : ∃ b0, DupAt T'.bids b0 := by
    by_contra hc
    exact hdup (nodup_iff_no_dupAt.mpr (fun b hb => hc ⟨b, hb⟩))
  obtain ⟨b0, hb0⟩ := this
  exact contractTree_error_prep (buildContractionTree_leaf ol.ne hT)
    (prep_leaf_dup_closed hwf ol hb0 (fun b hb hd => by
      have := hclosed b hb
      have := dupAt_iff_count.mp hd
      omega) (openTouch_legs hwf ol.hv htouch))

end Qib.TNet
