import QibProofs.Lemmas.TNetSurgeryBasic
import Mathlib.Data.List.Forall2
/-!
Helper lemmas for C08, part 2: what the executable `getBondAxes`, `checkTensor`, `checkBond`, `isConsistent`
compute, and the bridge `RepOK net → (isConsistent net = .ok true ↔ WF net)` (no property statements).
-/
namespace Qib.TNet

/-! ### `getBondAxes` -/

/-- `axes` is the answer of `get_bond_axes` for `bond`: entry `i` is the position of the `j`-th occurrence of
the bond id among the bond ids of tensor `tids[i]`, `j` = number of earlier occurrences of `tids[i]` -/
def AxesSpec (net : Net) (bid : Int) (bond : SBond) (axes : List Nat) : Prop :=
  axes.length = bond.tids.length ∧ ∀ i (h : i < bond.tids.length), ∃ T, dget net.tensors bond.tids[i] = some T ∧
    nthIdx bid T.bids ((bond.tids.take i).count bond.tids[i]) = axes[i]?

theorem getBondAxes_ok_iff (net : Net) (bid : Int) (axes : List Nat) :
    getBondAxes net bid = .ok axes ↔
      ∃ bond, dget net.bonds bid = some bond ∧ bond.bid = bid ∧ AxesSpec net bid bond axes := by
  unfold getBondAxes
  cases hb : dget net.bonds bid with
  | none => simp [throw, throwThe, MonadExceptOf.throw]
  | some bond =>
    simp only [Option.some.injEq, exists_eq_left']
    by_cases hbid : bond.bid = bid
    · subst hbid
      have hne : (bond.bid != bond.bid) = false := by simp
      simp only [hne, Bool.false_eq_true, if_false, true_and]
      constructor
      · intro h
        generalize hm : List.mapM (m := Except Err) (β := Option Nat) _ (List.range bond.tids.length) = r at h
        cases r with
        | error e => cases h
        | ok opt =>
          have hf := List.forall₂_iff_get.mp (mapM_ok_inv hm)
          have hlen : bond.tids.length = opt.length := by simpa using hf.1
          by_cases hall : opt.all Option.isSome = true
          · simp only [bind, Except.bind, hall, if_true, pure, Except.pure] at h
            have hax : axes = opt.map (fun o => o.getD 0) := by cases h; rfl
            subst hax
            refine ⟨by simp [hlen], ?_⟩
            intro i hi
            have h2 := hf.2 i (by simpa using hi) (by omega)
            simp only [List.get_eq_getElem, List.getElem_range] at h2
            have hget : bond.tids[i]! = bond.tids[i] := by simp [hi]
            rw [hget] at h2
            cases hT : dget net.tensors bond.tids[i] with
            | none => rw [hT] at h2; cases h2
            | some T =>
              rw [hT] at h2
              refine ⟨T, rfl, ?_⟩
              have h3 : nthIdx bond.bid T.bids ((bond.tids.take i).count bond.tids[i]) = opt[i] :=
                Except.ok.inj h2
              have hsome : opt[i].isSome = true := (List.all_eq_true.mp hall) opt[i] (List.getElem_mem _)
              rw [h3, List.getElem?_map, List.getElem?_eq_getElem (by omega)]
              obtain ⟨v, hv⟩ := Option.isSome_iff_exists.mp hsome
              simp [hv]
          · simp only [bind, Except.bind, hall] at h
            cases h
      · rintro ⟨hlen, hspec⟩
        rw [mapM_ok_of_forall (g := fun i => axes[i]?)]
        · have hall : ((List.range bond.tids.length).map (fun i => axes[i]?)).all Option.isSome = true := by
            rw [List.all_eq_true]
            intro o ho
            obtain ⟨i, hi, rfl⟩ := List.mem_map.mp ho
            have hi' : i < axes.length := by rw [hlen]; exact List.mem_range.mp hi
            simp [hi']
          simp only [bind, Except.bind, hall, if_true, pure, Except.pure]
          congr 1
          apply List.ext_getElem
          · simp [hlen]
          · intro i h1 h2
            simp at h1
            simp [h2]
        · intro i hi
          have hi' : i < bond.tids.length := List.mem_range.mp hi
          obtain ⟨T, hT, hn⟩ := hspec i hi'
          have hget : bond.tids[i]! = bond.tids[i] := by simp [hi']
          simp only [hget, hT, pure, Except.pure, hn]
    · have hne : (bond.bid != bid) = true := by simpa using hbid
      simp [hne, hbid, throw, throwThe, MonadExceptOf.throw, bind, Except.bind]

/-! ### the duplicate test -/

theorem anyDup_eq_false_iff {γ : Type} [BEq γ] [LawfulBEq γ] [Inhabited γ] (l : List γ) :
    (List.range l.length).any (fun i => (l.take i).contains l[i]!) = false ↔ l.Nodup := by
  rw [List.any_eq_false, List.Nodup, List.pairwise_iff_getElem]
  constructor
  · intro h i j hi hj hij heq
    have := h j (List.mem_range.mpr hj)
    apply this
    rw [List.contains_iff_mem, List.mem_take_iff_getElem]
    refine ⟨i, by omega, ?_⟩
    simp [hj, heq]
  · intro h j hj hc
    have hj' := List.mem_range.mp hj
    rw [List.contains_iff_mem, List.mem_take_iff_getElem] at hc
    obtain ⟨i, hi, he⟩ := hc
    have hi' : i < l.length := by omega
    have hij : i < j := by omega
    apply h i j hi' hj' hij
    simpa [hj'] using he

/-! ### `checkBond` -/

theorem checkBond_ok_true_iff (net : Net) (k : Int) (B : SBond) :
    checkBond net k B = .ok true ↔ k = B.bid ∧ 2 ≤ B.tids.length ∧ ∃ axes, getBondAxes net B.bid = .ok axes ∧
      (B.tids.zip axes).Nodup ∧ ∃ d0 : Nat, ∀ p ∈ B.tids.zip axes, ∃ T, dget net.tensors p.1 = some T ∧
        T.bids[p.2]? = some B.bid ∧ T.shape[p.2]? = some d0 := by
  unfold checkBond
  by_cases hk : k = B.bid
  · subst hk
    have hne : (B.bid != B.bid) = false := by simp
    simp only [hne, Bool.false_eq_true, if_false, true_and]
    by_cases hl : B.tids.length < 2
    · simp only [hl, if_true, pure, Except.pure]
      constructor
      · intro h; cases h
      · rintro ⟨h, _⟩; omega
    · simp only [hl, if_false]
      have hl' : 2 ≤ B.tids.length := by omega
      simp only [hl', true_and]
      cases hax : getBondAxes net B.bid with
      | error e => simp [bind, Except.bind]
      | ok axes =>
        simp only [bind, Except.bind, Except.ok.injEq, exists_eq_left']
        generalize hp : B.tids.zip axes = pairs
        by_cases hdup : ((List.range pairs.length).any fun i => (List.take i pairs).contains pairs[i]!) = true
        · simp only [hdup, if_true, pure, Except.pure]
          constructor
          · intro h; cases h
          · rintro ⟨h, _⟩
            have := (anyDup_eq_false_iff pairs).mpr h
            rw [this] at hdup; cases hdup
        · have hnd : pairs.Nodup := (anyDup_eq_false_iff pairs).mp (by simpa using hdup)
          simp only [hdup, Bool.false_eq_true, if_false, hnd, true_and]
          constructor
          · intro h
            generalize hm : List.mapM (m := Except Err) (β := Option Nat) _ pairs = r at h
            cases r with
            | error e => cases h
            | ok v =>
              simp only at h
              by_cases hnone : v.any Option.isNone = true
              · simp only [hnone, if_true, pure, Except.pure] at h; cases h
              · simp only [hnone, Bool.false_eq_true, if_false] at h
                have hf := mapM_ok_inv hm
                cases v with
                | nil =>
                  have : pairs = [] := by
                    have := hf.length_eq; simpa using this
                  subst this
                  exact ⟨0, by simp⟩
                | cons d0o tail =>
                  simp only [pure, Except.pure, Except.ok.injEq] at h
                  have hsome : ∀ o ∈ d0o :: tail, o.isSome = true := by
                    intro o ho
                    have hn' : (d0o :: tail).any Option.isNone = false := by
                      cases hh : (d0o :: tail).any Option.isNone
                      · rfl
                      · exact absurd hh hnone
                    have := List.any_eq_false.mp hn' o ho
                    cases o
                    · simp at this
                    · rfl
                  obtain ⟨d0, hd0⟩ := Option.isSome_iff_exists.mp (hsome d0o List.mem_cons_self)
                  refine ⟨d0, ?_⟩
                  intro p hpm
                  obtain ⟨i, hi, rfl⟩ := List.getElem_of_mem hpm
                  have hlen := hf.length_eq
                  have h2 := (List.forall₂_iff_get.mp hf).2 i hi (by omega)
                  simp only [List.get_eq_getElem] at h2
                  have ho : (d0o :: tail)[i]'(by omega) = some d0 := by
                    have := List.all_eq_true.mp h ((d0o :: tail)[i]'(by omega)) (List.getElem_mem _)
                    rw [hd0] at this ⊢
                    simpa using this
                  rw [ho] at h2
                  split at h2
                  · cases h2
                  · rename_i T hT
                    split at h2
                    · cases h2
                    · rename_i hlt
                      split at h2
                      · cases h2
                      · rename_i hb
                        have hlt' : pairs[i].2 < T.bids.length := by omega
                        refine ⟨T, hT, ?_, ?_⟩
                        · have : T.bids[pairs[i].2]! = B.bid := by simpa using hb
                          rw [List.getElem?_eq_getElem hlt']
                          simpa [hlt'] using this
                        · split at h2
                          · rename_i d hd
                            rw [hd]
                            exact congrArg some (Option.some.inj (Except.ok.inj h2))
                          · cases h2
          · rintro ⟨d0, hall⟩
            rw [mapM_ok_of_forall (g := fun _ => some d0)]
            · simp only
              have hnone : (pairs.map (fun _ => some d0)).any Option.isNone = false := by
                rw [List.any_eq_false]; intro o ho
                obtain ⟨_, _, rfl⟩ := List.mem_map.mp ho
                simp
              simp only [hnone, Bool.false_eq_true, if_false]
              cases hpl : pairs.map (fun _ => some d0) with
              | nil => rfl
              | cons x xs =>
                simp only [pure, Except.pure, Except.ok.injEq]
                rw [List.all_eq_true]
                intro o ho
                have hx : x = some d0 := by
                  have : x ∈ pairs.map (fun _ => some d0) := by rw [hpl]; exact List.mem_cons_self
                  obtain ⟨_, _, rfl⟩ := List.mem_map.mp this; rfl
                have ho' : o = some d0 := by
                  have : o ∈ pairs.map (fun _ => some d0) := by rw [hpl]; exact ho
                  obtain ⟨_, _, rfl⟩ := List.mem_map.mp this; rfl
                simp [hx, ho']
            · intro p hpm
              obtain ⟨T, hT, hb, hs⟩ := hall p hpm
              have hlt : p.2 < T.bids.length := by
                by_contra hc
                rw [List.getElem?_eq_none (by omega)] at hb; cases hb
              have hnle : ¬ T.bids.length ≤ p.2 := by omega
              have hbb : (T.bids[p.2]! != B.bid) = false := by
                have : T.bids[p.2]! = B.bid := by
                  rw [List.getElem?_eq_getElem hlt] at hb
                  simpa [hlt] using hb
                simpa using this
              simp only [hT, hnle, if_false, hbb, Bool.false_eq_true, hs, pure, Except.pure]
  · have hne : (k != B.bid) = true := by simpa using hk
    simp only [hne, if_true, pure, Except.pure, hk, false_and]
    constructor
    · intro h; cases h
    · intro h; exact h.elim

/-! ### `checkTensor`, `isConsistent` -/

theorem checkTensor_iff (net : Net) (k : Int) (T : STensor) :
    checkTensor net k T = true ↔ k = T.tid ∧ ∀ b ∈ T.bids, ∃ B, dget net.bonds b = some B ∧
      B.tids.count T.tid = T.bids.count b := by
  unfold checkTensor
  rw [Bool.and_eq_true, List.all_eq_true]
  constructor
  · rintro ⟨h1, h2⟩
    refine ⟨by simpa using h1, ?_⟩
    intro b hb
    have := h2 b hb
    cases hB : dget net.bonds b with
    | none => rw [hB] at this; cases this
    | some B => rw [hB] at this; exact ⟨B, rfl, by simpa using this⟩
  · rintro ⟨h1, h2⟩
    refine ⟨by simpa using h1, ?_⟩
    intro b hb
    obtain ⟨B, hB, hc⟩ := h2 b hb
    rw [hB]; simpa using hc

theorem isConsistent_ok_true_iff (net : Net) :
    isConsistent net = .ok true ↔ (-1 : Int) ∈ dkeys net.tensors ∧
      (∀ e ∈ net.tensors, checkTensor net e.1 e.2 = true) ∧ (∀ e ∈ net.bonds, checkBond net e.1 e.2 = .ok true) := by
  unfold isConsistent
  by_cases hv : dhas net.tensors (-1) = true
  · have hv' := (dhas_iff _ _).mp hv
    simp only [hv, Bool.not_true, Bool.false_eq_true, if_false, hv', true_and]
    by_cases ht : (net.tensors.all fun e => checkTensor net e.1 e.2) = true
    · simp only [ht, Bool.not_true, Bool.false_eq_true, if_false]
      rw [allM_ok_true_iff]
      have := List.all_eq_true.mp ht
      constructor
      · intro h; exact ⟨this, h⟩
      · intro h; exact h.2
    · have ht' : (net.tensors.all fun e => checkTensor net e.1 e.2) = false := by
        cases h : (net.tensors.all fun e => checkTensor net e.1 e.2) <;> simp_all
      simp only [ht', Bool.not_false, if_true, pure, Except.pure]
      constructor
      · intro h; cases h
      · rintro ⟨h, _⟩
        exact absurd (List.all_eq_true.mpr h) ht
  · have hv' : dhas net.tensors (-1) = false := by
      cases h : dhas net.tensors (-1) <;> simp_all
    have hv'' := (dhas_false_iff _ _).mp hv'
    simp only [hv', Bool.not_false, if_true, pure, Except.pure, hv'', false_and]
    constructor
    · intro h; cases h
    · intro h; exact h.elim

/-! ### consequences of `WF0` -/

theorem WF0.mult {net : Net} (h : WF0 net) {t b : Int} {T : STensor} {B : SBond}
    (hT : dget net.tensors t = some T) (hB : dget net.bonds b = some B) : B.tids.count t = T.bids.count b := by
  have := h.legs.count_eq (t, b)
  rw [count_tLegs net h.tnodup, count_bLegs net h.bnodup, hT, hB] at this
  exact this.symm

theorem WF0.bond_of_leg {net : Net} (h : WF0 net) {t b : Int} {T : STensor}
    (hT : dget net.tensors t = some T) (hb : b ∈ T.bids) : ∃ B, dget net.bonds b = some B := by
  have := h.legs.count_eq (t, b)
  rw [count_tLegs net h.tnodup, count_bLegs net h.bnodup, hT] at this
  cases hB : dget net.bonds b with
  | some B => exact ⟨B, rfl⟩
  | none =>
    rw [hB] at this
    have : T.bids.count b = 0 := this
    exact absurd hb (List.count_eq_zero.mp this)

theorem WF0.tensor_of_ref {net : Net} (h : WF0 net) {t b : Int} {B : SBond}
    (hB : dget net.bonds b = some B) (ht : t ∈ B.tids) : ∃ T, dget net.tensors t = some T := by
  have := h.legs.count_eq (t, b)
  rw [count_tLegs net h.tnodup, count_bLegs net h.bnodup, hB] at this
  cases hT : dget net.tensors t with
  | some T => exact ⟨T, rfl⟩
  | none =>
    rw [hT] at this
    have : B.tids.count t = 0 := this.symm
    exact absurd ht (List.count_eq_zero.mp this)

theorem lookup_of_mem {l : List (Int × Nat)} {b : Int} {d : Nat} (h : (b, d) ∈ l) :
    ∃ d', l.lookup b = some d' ∧ (b, d') ∈ l := by
  induction l with
  | nil => simp at h
  | cons e es ih =>
    obtain ⟨e1, e2⟩ := e
    by_cases hb : b = e1
    · subst hb; exact ⟨e2, by simp [List.lookup], List.mem_cons_self⟩
    · have hb' : (b == e1) = false := by simpa using hb
      rcases List.mem_cons.mp h with h' | h'
      · cases h'; exact absurd rfl hb
      · obtain ⟨d', h1, h2⟩ := ih h'
        exact ⟨d', by simp [List.lookup, hb', h1], List.mem_cons_of_mem _ h2⟩

theorem mem_legDims {net : Net} {e : Int × STensor} (he : e ∈ net.tensors) {ax : Nat} {b : Int} {d : Nat}
    (hb : e.2.bids[ax]? = some b) (hd : e.2.shape[ax]? = some d) : (b, d) ∈ legDims net := by
  unfold legDims
  refine List.mem_flatMap.mpr ⟨e, he, ?_⟩
  rw [List.mem_iff_getElem?]
  refine ⟨ax, ?_⟩
  rw [List.getElem?_zip_eq_some]
  exact ⟨hb, hd⟩

theorem mem_legDims_iff {net : Net} {p : Int × Nat} :
    p ∈ legDims net ↔ ∃ e ∈ net.tensors, ∃ ax : Nat, e.2.bids[ax]? = some p.1 ∧ e.2.shape[ax]? = some p.2 := by
  unfold legDims
  rw [List.mem_flatMap]
  constructor
  · rintro ⟨e, he, hm⟩
    obtain ⟨ax, hax⟩ := List.mem_iff_getElem?.mp hm
    rw [List.getElem?_zip_eq_some] at hax
    exact ⟨e, he, ax, hax⟩
  · rintro ⟨e, he, ax, hax⟩
    refine ⟨e, he, List.mem_iff_getElem?.mpr ⟨ax, ?_⟩⟩
    rw [List.getElem?_zip_eq_some]; exact hax

/-- every axis attached to bond `b` has dimension `bondDim net b` -/
theorem WF0.shape_eq_bondDim {net : Net} (h : WF0 net) {e : Int × STensor} (he : e ∈ net.tensors) {ax : Nat} {b : Int}
    (hb : e.2.bids[ax]? = some b) : e.2.shape[ax]? = some (bondDim net b) := by
  have hlt : ax < e.2.bids.length := by
    by_contra hc; rw [List.getElem?_eq_none (by omega)] at hb; cases hb
  have hlt' : ax < e.2.shape.length := by rw [h.tshape e he]; exact hlt
  have hd : e.2.shape[ax]? = some e.2.shape[ax] := List.getElem?_eq_getElem hlt'
  have hm := mem_legDims he hb hd
  obtain ⟨d', h1, h2⟩ := lookup_of_mem hm
  have := h.dims _ hm _ h2 rfl
  simp only at this
  rw [hd, this]
  simp [bondDim, h1]

/-! ### the bridge, direction `WF → isConsistent` -/

theorem count_take_lt_of_lt {l : List Int} {t : Int} {i j : Nat} (hij : i < j) (hj : j ≤ l.length)
    (hi : l[i]? = some t) : (l.take i).count t < (l.take j).count t := by
  have h1 : (l.take j)[i]? = some t := by rw [List.getElem?_take]; simp [hij, hi]
  have := count_take_lt_count h1
  rwa [List.take_take, Nat.min_eq_left (by omega)] at this

/-- under `WF0` the bond axes exist -/
theorem WF0.axesSpec_exists {net : Net} (h : WF0 net) {k : Int} {B : SBond} (he : (k, B) ∈ net.bonds) :
    ∃ axes, AxesSpec net k B axes := by
  have hB : dget net.bonds k = some B := dget_of_mem h.bnodup he
  have hidx : ∀ i (hi : i < B.tids.length), ∃ T ax, dget net.tensors B.tids[i] = some T ∧
      nthIdx k T.bids ((B.tids.take i).count B.tids[i]) = some ax := by
    intro i hi
    obtain ⟨T, hT⟩ := h.tensor_of_ref hB (List.getElem_mem hi)
    have hc : (B.tids.take i).count B.tids[i] < T.bids.count k := by
      rw [← h.mult hT hB]
      exact count_take_lt_count (List.getElem?_eq_getElem hi)
    obtain ⟨ax, hax⟩ := Option.isSome_iff_exists.mp ((nthIdx_isSome k T.bids _).mpr hc)
    exact ⟨T, ax, hT, hax⟩
  refine ⟨(List.range B.tids.length).map (fun i => ((dget net.tensors B.tids[i]!).bind
      (fun T => nthIdx k T.bids ((B.tids.take i).count B.tids[i]!))).getD 0), by simp, ?_⟩
  intro i hi
  obtain ⟨T, ax, hT, hax⟩ := hidx i hi
  refine ⟨T, hT, ?_⟩
  have hget : B.tids[i]?.getD 0 = B.tids[i] := by simp [hi]
  rw [hax, List.getElem?_map, List.getElem?_range hi]
  simp [hget, hT, hax]

/-- facts about one entry of the bond axes -/
theorem AxesSpec.entry {net : Net} {k : Int} {B : SBond} {axes : List Nat} (hs : AxesSpec net k B axes)
    {p : Int × Nat} (hp : p ∈ B.tids.zip axes) :
    ∃ i, ∃ (hi : i < B.tids.length) (hi' : i < axes.length), p = (B.tids[i], axes[i]) ∧ ∃ T, dget net.tensors p.1 = some T ∧
      T.bids[p.2]? = some k ∧ (T.bids.take p.2).count k = (B.tids.take i).count B.tids[i] := by
  obtain ⟨i, hi, rfl⟩ := List.getElem_of_mem hp
  have hi1 : i < B.tids.length := by simp at hi; omega
  have hi2 : i < axes.length := by simp at hi; omega
  obtain ⟨T, hT, hn⟩ := hs.2 i hi1
  rw [List.getElem?_eq_getElem hi2] at hn
  have := (nthIdx_eq_some k T.bids _ _).mp hn
  refine ⟨i, hi1, hi2, by simp, T, by simpa using hT, by simpa using this.1, by simpa using this.2⟩

theorem consistent_of_wf {net : Net} (h : WF net) : isConsistent net = .ok true := by
  rw [isConsistent_ok_true_iff]
  refine ⟨h.virt, ?_, ?_⟩
  · intro e he
    rw [checkTensor_iff]
    refine ⟨(h.tkey e he).symm, ?_⟩
    intro b hb
    have hT := dget_of_mem h.tnodup he
    obtain ⟨B, hB⟩ := h.toWF0.bond_of_leg hT hb
    exact ⟨B, hB, by rw [h.tkey e he]; exact h.toWF0.mult hT hB⟩
  · intro e he
    obtain ⟨k, B⟩ := e
    have hk : B.bid = k := h.bkey _ he
    have hB : dget net.bonds k = some B := dget_of_mem h.bnodup he
    rw [checkBond_ok_true_iff]
    refine ⟨hk.symm, h.blen _ he, ?_⟩
    obtain ⟨axes, hs⟩ := h.toWF0.axesSpec_exists he
    simp only [hk]
    refine ⟨axes, (getBondAxes_ok_iff net k axes).mpr ⟨B, hB, hk, hs⟩, ?_, bondDim net k, ?_⟩
    · rw [List.Nodup, List.pairwise_iff_getElem]
      intro i j hi hj hij heq
      have hi1 : i < B.tids.length := by simp at hi; omega
      have hi2 : i < axes.length := by simp at hi; omega
      have hj1 : j < B.tids.length := by simp at hj; omega
      have hj2 : j < axes.length := by simp at hj; omega
      simp only [List.getElem_zip, Prod.mk.injEq] at heq
      obtain ⟨Ti, hTi, hni⟩ := hs.2 i hi1
      obtain ⟨Tj, hTj, hnj⟩ := hs.2 j hj1
      rw [List.getElem?_eq_getElem hi2] at hni
      rw [List.getElem?_eq_getElem hj2] at hnj
      rw [← heq.1, hTi] at hTj
      cases hTj
      rw [← heq.2, ← heq.1] at hnj
      have c1 := ((nthIdx_eq_some k Ti.bids _ _).mp hni).2
      have c2 := ((nthIdx_eq_some k Ti.bids _ _).mp hnj).2
      have := count_take_lt_of_lt hij (by omega) (List.getElem?_eq_getElem hi1)
      omega
    · intro p hp
      obtain ⟨i, hi1, hi2, rfl, T, hT, hb, _⟩ := hs.entry hp
      have hm := mem_of_dget_eq_some _ hT
      exact ⟨T, hT, hb, h.toWF0.shape_eq_bondDim hm hb⟩

/-! ### the bridge, direction `isConsistent → WF` -/

theorem wf_of_consistent {net : Net} (hr : RepOK net) (h : isConsistent net = .ok true) : WF net := by
  rw [isConsistent_ok_true_iff] at h
  obtain ⟨hv, hts, hbs⟩ := h
  -- tensor side
  have C1 : ∀ e ∈ net.tensors, e.1 = e.2.tid ∧ ∀ b ∈ e.2.bids, ∃ B, dget net.bonds b = some B ∧
      B.tids.count e.2.tid = e.2.bids.count b := fun e he => (checkTensor_iff net e.1 e.2).mp (hts e he)
  -- bond side
  have C2 : ∀ e ∈ net.bonds, e.1 = e.2.bid ∧ 2 ≤ e.2.tids.length ∧ ∃ axes, AxesSpec net e.1 e.2 axes ∧
      ∃ d0 : Nat, ∀ p ∈ e.2.tids.zip axes, ∃ T, dget net.tensors p.1 = some T ∧ T.bids[p.2]? = some e.1 ∧
        T.shape[p.2]? = some d0 := by
    intro e he
    obtain ⟨h1, h2, axes, hax, _, hd⟩ := (checkBond_ok_true_iff net e.1 e.2).mp (hbs e he)
    obtain ⟨bond, hb, _, hs⟩ := (getBondAxes_ok_iff net _ axes).mp hax
    have : dget net.bonds e.2.bid = some e.2 := by rw [← h1]; exact dget_of_mem hr.bnodup he
    rw [this] at hb; cases hb
    rw [← h1] at hs hd
    exact ⟨h1, h2, axes, hs, hd⟩
  have C3 : ∀ e ∈ net.bonds, ∀ t ∈ e.2.tids, ∃ T, dget net.tensors t = some T ∧ 0 < T.bids.count e.1 := by
    intro e he t ht
    obtain ⟨_, _, axes, hs, _⟩ := C2 e he
    obtain ⟨i, hi, rfl⟩ := List.getElem_of_mem ht
    obtain ⟨T, hT, hn⟩ := hs.2 i hi
    refine ⟨T, hT, ?_⟩
    have hi' : i < axes.length := by rw [hs.1]; exact hi
    rw [List.getElem?_eq_getElem hi'] at hn
    have := (nthIdx_isSome e.1 T.bids _).mp (by rw [hn]; rfl)
    omega
  have hlegs : (tLegs net).Perm (bLegs net) := by
    rw [List.perm_iff_count]
    rintro ⟨t, b⟩
    rw [count_tLegs net hr.tnodup, count_bLegs net hr.bnodup]
    cases hT : dget net.tensors t with
    | none =>
      cases hB : dget net.bonds b with
      | none => rfl
      | some B =>
        simp only
        symm
        rw [List.count_eq_zero]
        intro ht
        obtain ⟨T, hT', _⟩ := C3 (b, B) (mem_of_dget_eq_some _ hB) t ht
        rw [hT] at hT'; cases hT'
    | some T =>
      have heT := mem_of_dget_eq_some _ hT
      have htid : t = T.tid := (C1 _ heT).1
      cases hB : dget net.bonds b with
      | none =>
        simp only
        rw [List.count_eq_zero]
        intro hb
        obtain ⟨B, hB', _⟩ := (C1 _ heT).2 b hb
        rw [hB] at hB'; cases hB'
      | some B =>
        simp only
        by_cases hb : b ∈ T.bids
        · obtain ⟨B', hB', hc⟩ := (C1 _ heT).2 b hb
          rw [hB] at hB'; cases hB'
          rw [htid]; exact hc.symm
        · rw [List.count_eq_zero.mpr hb]
          symm
          rw [List.count_eq_zero]
          intro ht
          obtain ⟨T', hT', hpos⟩ := C3 (b, B) (mem_of_dget_eq_some _ hB) t ht
          rw [hT] at hT'; cases hT'
          exact hb (List.count_pos_iff.mp hpos)
  -- every axis attached to a bond carries the dimension found by `checkBond`
  have hdim : ∀ e ∈ net.bonds, ∃ d0 : Nat, ∀ et ∈ net.tensors, ∀ ax : Nat, et.2.bids[ax]? = some e.1 →
      et.2.shape[ax]? = some d0 := by
    intro e he
    obtain ⟨hk, _, axes, hs, d0, hd0⟩ := C2 e he
    refine ⟨d0, ?_⟩
    intro et het ax hax
    have hT := dget_of_mem hr.tnodup het
    have hB := dget_of_mem hr.bnodup he
    have hmem : e.1 ∈ et.2.bids := List.mem_of_getElem? hax
    obtain ⟨B', hB', hc⟩ := (C1 _ het).2 e.1 hmem
    rw [hB] at hB'; cases hB'
    have hj : (et.2.bids.take ax).count e.1 < e.2.tids.count et.2.tid := by
      rw [hc]; exact count_take_lt_count hax
    obtain ⟨i, hi⟩ := Option.isSome_iff_exists.mp ((nthIdx_isSome et.2.tid e.2.tids _).mpr hj)
    obtain ⟨hi1, hi2⟩ := (nthIdx_eq_some _ _ _ _).mp hi
    have hil : i < e.2.tids.length := by
      by_contra hc'; rw [List.getElem?_eq_none (by omega)] at hi1; cases hi1
    have hti : e.2.tids[i] = et.2.tid := by
      rw [List.getElem?_eq_getElem hil] at hi1; exact Option.some.inj hi1
    obtain ⟨T', hT', hn⟩ := hs.2 i hil
    rw [hti, ← (C1 _ het).1, hT] at hT'
    cases hT'
    rw [hti, hi2, nthIdx_of_getElem? e.1 et.2.bids ax hax] at hn
    have hil' : i < axes.length := by rw [hs.1]; exact hil
    rw [List.getElem?_eq_getElem hil'] at hn
    have hax' : axes[i] = ax := (Option.some.inj hn).symm
    have hp : (et.1, ax) ∈ e.2.tids.zip axes := by
      rw [List.mem_iff_getElem?]
      refine ⟨i, ?_⟩
      rw [List.getElem?_zip_eq_some, List.getElem?_eq_getElem hil, List.getElem?_eq_getElem hil', hti, hax',
        (C1 _ het).1]
      exact ⟨rfl, rfl⟩
    obtain ⟨T'', hT'', _, hsd⟩ := hd0 _ hp
    simp only at hT'' hsd
    rw [hT] at hT''; cases hT''
    exact hsd
  refine { tnodup := hr.tnodup, bnodup := hr.bnodup, tkey := fun e he => ((C1 e he).1).symm,
           bkey := fun e he => ((C2 e he).1).symm, tshape := hr.tshape, bsorted := hr.bsorted,
           blen := fun e he => (C2 e he).2.1, legs := hlegs, dims := ?_, virt := hv }
  intro p hp q hq hpq
  obtain ⟨ep, hep, axp, hbp, hsp⟩ := mem_legDims_iff.mp hp
  obtain ⟨eq, heq, axq, hbq, hsq⟩ := mem_legDims_iff.mp hq
  obtain ⟨B, hB, _⟩ := (C1 _ hep).2 p.1 (List.mem_of_getElem? hbp)
  have heB := mem_of_dget_eq_some _ hB
  obtain ⟨d0, hd0⟩ := hdim _ heB
  have h1 := hd0 ep hep axp hbp
  have h2 := hd0 eq heq axq (by rw [hbq, hpq])
  rw [hsp] at h1; rw [hsq] at h2
  rw [Option.some.inj h1, Option.some.inj h2]

/-- **Bridge**: under the representation invariant the executable check says exactly `WF`. -/
theorem consistent_iff_wf {net : Net} (hr : RepOK net) : isConsistent net = .ok true ↔ WF net :=
  ⟨wf_of_consistent hr, consistent_of_wf⟩

end Qib.TNet
