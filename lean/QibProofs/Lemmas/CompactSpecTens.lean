import QibProofs.Lemmas.CompactFormula
import QibProofs.Lemmas.EncodeSum
import QibModel.CompactSpec
/-!
C13, spectral part — helper lemmas, part 1: two-site tensor products.

`tens2 n i j A B` is `A` on site `i`, `B` on site `j` and the identity elsewhere.  The Jordan-Wigner hopping operator of
neighbouring sites `a†_i a_{i+1} + a†_{i+1} a_i` (reference ladder matrices of `field_operator.py`, C11) and the compact
hopping term `(i/2)(E V_{i+1} − E V_i)` with `E = ± Y_i X_{i+1}` are both `± ½ (X_i X_{i+1} + Y_i Y_{i+1})`; conjugation by
`Z` on the odd sites flips the sign of that operator and leaves `Z_i` alone.
-/
set_option linter.unusedSimpArgs false
set_option linter.unusedVariables false
set_option linter.unreachableTactic false
set_option linter.unusedTactic false
open Complex Matrix
namespace Qib.Compact
open Qib.Pauli Qib.Lattice

/-- `A` on site `i`, `B` on site `j`, identity elsewhere -/
def tens2 (n i j : ℕ) (A B : Matrix Bool Bool ℂ) : Matrix (Fin n → Bool) (Fin n → Bool) ℂ :=
  tens (fun k : Fin n => if k.val = i then A else if k.val = j then B else 1)

theorem tens2_mul (n i j : ℕ) (A B A' B' : Matrix Bool Bool ℂ) :
    tens2 n i j A B * tens2 n i j A' B' = tens2 n i j (A * A') (B * B') := by
  simp only [tens2, tens_mul]
  congr 1; funext k
  split_ifs <;> simp

/-- the factors away from the two sites -/
def rest2 (n i j : ℕ) (r c : Fin n → Bool) : ℂ :=
  ∏ k ∈ (Finset.univ : Finset (Fin n)).filter (fun k => k.val ≠ i ∧ k.val ≠ j), (if r k = c k then 1 else 0)

theorem tens2_apply (n i j : ℕ) (hi : i < n) (hj : j < n) (hij : i ≠ j) (A B : Matrix Bool Bool ℂ) (r c : Fin n → Bool) :
    tens2 n i j A B r c = A (r ⟨i, hi⟩) (c ⟨i, hi⟩) * B (r ⟨j, hj⟩) (c ⟨j, hj⟩) * rest2 n i j r c := by
  have hne : (⟨j, hj⟩ : Fin n) ≠ ⟨i, hi⟩ := fun h => hij (by simpa using (congrArg Fin.val h).symm)
  simp only [tens2, tens, rest2]
  rw [← Finset.mul_prod_erase Finset.univ _ (Finset.mem_univ (⟨i, hi⟩ : Fin n)),
    ← Finset.mul_prod_erase _ _ (Finset.mem_erase.mpr ⟨hne, Finset.mem_univ (⟨j, hj⟩ : Fin n)⟩)]
  have e1 : ((Finset.univ : Finset (Fin n)).erase ⟨i, hi⟩).erase ⟨j, hj⟩ =
      (Finset.univ : Finset (Fin n)).filter (fun k => k.val ≠ i ∧ k.val ≠ j) := by
    ext k
    simp only [Finset.mem_erase, Finset.mem_univ, and_true, Finset.mem_filter, true_and, ne_eq, Fin.ext_iff]
    tauto
  rw [e1, mul_assoc]
  simp only [if_true, if_neg hij.symm]
  congr 1; congr 1
  apply Finset.prod_congr rfl
  intro k hk
  simp only [Finset.mem_filter, Finset.mem_univ, true_and] at hk
  simp only [if_neg hk.1, if_neg hk.2, Matrix.one_apply]


/-- `½ (X_i X_j + Y_i Y_j)` -/
noncomputable def hopT (n i j : ℕ) : Matrix (Fin n → Bool) (Fin n → Bool) ℂ :=
  (1 / 2 : ℂ) • (tens2 n i j pauliX pauliX + tens2 n i j pauliY pauliY)

open Qib.Encode in
/-- `σ⁺_i σ⁻_j + σ⁻_i σ⁺_j = ½ (X_i X_j + Y_i Y_j)` (with the sign factors `Z σ⁻ = σ⁻`, `σ⁺ Z = σ⁺` of the Jordan-Wigner string) -/
theorem hop_jw_sites (n i j : ℕ) (hi : i < n) (hj : j < n) (hij : i ≠ j) :
    tens2 n i j createM (pauliZ * annihilM) + tens2 n i j annihilM (createM * pauliZ) = hopT n i j := by
  ext r c
  simp only [hopT, Matrix.add_apply, Matrix.smul_apply, smul_eq_mul, tens2_apply n i j hi hj hij]
  generalize rest2 n i j r c = R
  cases r ⟨i, hi⟩ <;> cases c ⟨i, hi⟩ <;> cases r ⟨j, hj⟩ <;> cases c ⟨j, hj⟩ <;>
    simp [createM, annihilM, pauliX, pauliY, pauliZ, Matrix.mul_apply] <;> ring_nf <;> simp <;> ring

/-- `(i/2)(Y_i (X Z)_j − (Y Z)_i X_j) = ½ (X_i X_j + Y_i Y_j)` -/
theorem hop_compact_sites (n i j : ℕ) (hi : i < n) (hj : j < n) (hij : i ≠ j) :
    (I / 2) • (tens2 n i j pauliY (pauliX * pauliZ) - tens2 n i j (pauliY * pauliZ) pauliX) = hopT n i j := by
  ext r c
  simp only [hopT, Matrix.add_apply, Matrix.sub_apply, Matrix.smul_apply, smul_eq_mul, tens2_apply n i j hi hj hij]
  generalize rest2 n i j r c = R
  cases r ⟨i, hi⟩ <;> cases c ⟨i, hi⟩ <;> cases r ⟨j, hj⟩ <;> cases c ⟨j, hj⟩ <;>
    simp [pauliX, pauliY, pauliZ, Matrix.mul_apply] <;> ring_nf <;> simp <;> ring


/-! ### the Jordan-Wigner reference ladder matrices of neighbouring sites -/

open Qib.Encode in
/-- `a†_i a_{i+1}` -/
theorem ladder_hop_up (n i : ℕ) :
    ladder n i true * ladder n (i + 1) false = tens2 n i (i + 1) createM (pauliZ * annihilM) := by
  simp only [ladder, tens2, tens_mul]
  congr 1; funext k
  have hZ : pauliZ * pauliZ = (1 : Matrix Bool Bool ℂ) := by
    ext a b; cases a <;> cases b <;> simp [pauliZ, Matrix.mul_apply]
  by_cases h1 : k.val < i
  · simp [h1, show k.val < i + 1 by omega, show k.val ≠ i by omega, show k.val ≠ i + 1 by omega]
  · by_cases h2 : k.val = i
    · simp [h2]
    · by_cases h3 : k.val = i + 1
      · simp [h3]
      · simp [h1, h2, h3, show ¬ k.val < i + 1 by omega, hZ]

open Qib.Encode in
/-- `a†_{i+1} a_i` -/
theorem ladder_hop_down (n i : ℕ) :
    ladder n (i + 1) true * ladder n i false = tens2 n i (i + 1) annihilM (createM * pauliZ) := by
  simp only [ladder, tens2, tens_mul]
  congr 1; funext k
  have hZ : pauliZ * pauliZ = (1 : Matrix Bool Bool ℂ) := by
    ext a b; cases a <;> cases b <;> simp [pauliZ, Matrix.mul_apply]
  by_cases h1 : k.val < i
  · simp [h1, show k.val < i + 1 by omega, show k.val ≠ i by omega, show k.val ≠ i + 1 by omega]
  · by_cases h2 : k.val = i
    · simp [h2]
    · by_cases h3 : k.val = i + 1
      · simp [h3]
      · simp [h1, h2, h3, show ¬ k.val < i + 1 by omega, hZ]

open Qib.Encode in
/-- **Jordan-Wigner hopping between neighbouring sites**: `a†_i a_{i+1} + a†_{i+1} a_i = ½ (X_i X_{i+1} + Y_i Y_{i+1})` -/
theorem ladder_hop (n i : ℕ) (hi : i + 1 < n) :
    ladder n i true * ladder n (i + 1) false + ladder n (i + 1) true * ladder n i false = hopT n i (i + 1) := by
  rw [ladder_hop_up, ladder_hop_down, hop_jw_sites n i (i + 1) (by omega) hi (by omega)]

/-- a single `Z` -/
def zSite (n i : ℕ) : Matrix (Fin n → Bool) (Fin n → Bool) ℂ :=
  tens (fun k : Fin n => if k.val = i then pauliZ else 1)

theorem zSite_eq_tens2 (n i j : ℕ) (hij : i ≠ j) : zSite n i = tens2 n i j pauliZ 1 := by
  simp only [zSite, tens2]; congr 1; funext k; split_ifs <;> rfl

theorem zSite_eq_tens2' (n i j : ℕ) (hij : i ≠ j) : zSite n j = tens2 n i j 1 pauliZ := by
  simp only [zSite, tens2]; congr 1; funext k
  by_cases h : k.val = i
  · simp [h, hij]
  · simp [h]

open Qib.Encode in
/-- the number operator of the reference ladder matrices -/
theorem ladder_number' (n i : ℕ) (hi : i < n) :
    ladder n i true * ladder n i false = (1 / 2 : ℂ) • (1 - zSite n i) := by
  have := encLadder_number .jw n i hi
  simpa only [jw_ladder n i hi, numZ, zSite] using this

/-! ### strings as site-wise tensor products -/

/-- a string with `Z` on site `i` and nothing else -/
theorem mat_single_Z (n i : ℕ) (P : PS) (hq : P.q = 0) (hz : ∀ k, k < n → P.zf k = decide (k = i))
    (hx : ∀ k, k < n → P.xf k = false) : P.mat n = zSite n i := by
  simp only [PS.mat, hq, zSite]
  rw [show ((0 : Fin 4).val) = 0 from rfl, pow_zero, one_smul]
  congr 1; funext k
  rw [hz k k.isLt, hx k k.isLt]
  by_cases h : k.val = i
  · simp [h, letter_Z]
  · simp [h, letter_I]

/-- a string with `Y` on site `i`, `X` on site `j` and nothing else -/
theorem mat_YX (n i j : ℕ) (hij : i ≠ j) (P : PS) (hz : ∀ k, k < n → P.zf k = decide (k = i))
    (hx : ∀ k, k < n → P.xf k = (decide (k = i) || decide (k = j))) :
    P.mat n = (-I) ^ P.q.val • tens2 n i j pauliY pauliX := by
  simp only [PS.mat, tens2]
  congr 2; funext k
  rw [hz k k.isLt, hx k k.isLt]
  by_cases h : k.val = i
  · simp [h, letter_Y]
  · by_cases h' : k.val = j
    · have hji : ¬ j = i := fun e => hij e.symm
      simp [h, h', hji, letter_X]
    · simp [h, h', letter_I]


/-! ### conjugation by a site-wise involution -/

theorem tens2_smul_left (n i j : ℕ) (hi : i < n) (hj : j < n) (hij : i ≠ j) (a : ℂ) (A B : Matrix Bool Bool ℂ) :
    tens2 n i j (a • A) B = a • tens2 n i j A B := by
  ext r c
  simp only [Matrix.smul_apply, smul_eq_mul, tens2_apply n i j hi hj hij]; ring

theorem tens2_smul_right (n i j : ℕ) (hi : i < n) (hj : j < n) (hij : i ≠ j) (a : ℂ) (A B : Matrix Bool Bool ℂ) :
    tens2 n i j A (a • B) = a • tens2 n i j A B := by
  ext r c
  simp only [Matrix.smul_apply, smul_eq_mul, tens2_apply n i j hi hj hij]; ring

/-- conjugation of a two-site tensor by a tensor product of involutions acts site by site -/
theorem conj_tens2 (n i j : ℕ) (d : ℕ → Matrix Bool Bool ℂ) (hd : ∀ k, d k * d k = 1) (A B : Matrix Bool Bool ℂ) :
    tens (fun k : Fin n => d k.val) * tens2 n i j A B * tens (fun k : Fin n => d k.val) =
      tens2 n i j (d i * A * d i) (d j * B * d j) := by
  simp only [tens2, tens_mul]
  congr 1; funext k
  by_cases h : k.val = i
  · simp [h]
  · by_cases h' : k.val = j
    · have hji : ¬ j = i := fun e => h (h'.trans e)
      simp [h, h', hji]
    · simp [h, h', hd]

theorem conj_zSite (n i : ℕ) (d : ℕ → Matrix Bool Bool ℂ) (hd : ∀ k, d k * d k = 1) (hz : d i * pauliZ * d i = pauliZ) :
    tens (fun k : Fin n => d k.val) * zSite n i * tens (fun k : Fin n => d k.val) = zSite n i := by
  simp only [zSite, tens_mul]
  congr 1; funext k
  by_cases h : k.val = i
  · simp [h, hz]
  · simp [h, hd]

theorem conj_self (n : ℕ) (d : ℕ → Matrix Bool Bool ℂ) (hd : ∀ k, d k * d k = 1) :
    tens (fun k : Fin n => d k.val) * tens (fun k : Fin n => d k.val) = 1 := by
  simp only [tens_mul, hd, tens_one]

/-- site factor of `W`: `Z` on odd sites -/
def dOdd (k : ℕ) : Matrix Bool Bool ℂ := if k % 2 = 1 then pauliZ else 1

theorem pauliZ_sq : pauliZ * pauliZ = (1 : Matrix Bool Bool ℂ) := by
  ext a b; cases a <;> cases b <;> simp [pauliZ, Matrix.mul_apply]

theorem dOdd_sq (k : ℕ) : dOdd k * dOdd k = 1 := by
  unfold dOdd; split <;> simp [pauliZ_sq]

theorem dOdd_Z (k : ℕ) : dOdd k * pauliZ * dOdd k = pauliZ := by
  unfold dOdd; split <;> simp [pauliZ_sq, mul_assoc]

theorem ZXZ : pauliZ * pauliX * pauliZ = (-1 : ℂ) • pauliX := by
  ext a b; cases a <;> cases b <;> simp [pauliZ, pauliX, Matrix.mul_apply]
theorem ZYZ : pauliZ * pauliY * pauliZ = (-1 : ℂ) • pauliY := by
  ext a b; cases a <;> cases b <;> simp [pauliZ, pauliY, Matrix.mul_apply]

/-- the matrix of the string `W = Z₁ Z₃ …` -/
theorem wString_mat (n : ℕ) : (wString n).mat n = tens (fun k : Fin n => dOdd k.val) := by
  have hz : ∀ k : Fin n, (wString n).zf k = decide (k.val % 2 = 1) := by
    intro k
    simp only [PS.zf, wString, oddMask, List.getD_eq_getElem?_getD, List.getElem?_map, List.getElem?_range k.isLt]
    simp [beq_eq_decide]
  have hx : ∀ k : Fin n, (wString n).xf k = false := by
    intro k
    simp only [PS.xf, wString]
    exact getD_replicate_false n k
  simp only [PS.mat, hz, hx]
  rw [show (wString n).q.val = 0 from rfl, pow_zero, one_smul]
  congr 1; funext k
  unfold dOdd
  by_cases h : k.val % 2 = 1
  · simp [h, letter_Z]
  · simp [h, letter_I]

theorem wString_hasLen (n : ℕ) : (wString n).HasLen n := by
  simp [wString, oddMask, PS.HasLen]

/-- conjugation by `W` flips the sign of the hopping operator of neighbouring sites -/
theorem conjW_hopT (n i : ℕ) (hi : i + 1 < n) :
    tens (fun k : Fin n => dOdd k.val) * hopT n i (i + 1) * tens (fun k : Fin n => dOdd k.val) = (-1 : ℂ) • hopT n i (i + 1) := by
  have h0 : i < n := by omega
  have hne : i ≠ i + 1 := by omega
  simp only [hopT, Matrix.mul_smul, Matrix.smul_mul, Matrix.mul_add, Matrix.add_mul, conj_tens2 n i (i + 1) dOdd dOdd_sq]
  rcases Nat.mod_two_eq_zero_or_one i with h | h
  · have e1 : dOdd i = 1 := by simp [dOdd, h]
    have e2 : dOdd (i + 1) = pauliZ := by simp [dOdd, show (i + 1) % 2 = 1 by omega]
    simp only [e1, e2, one_mul, mul_one, ZXZ, ZYZ, tens2_smul_right n i (i + 1) h0 hi hne]
    module
  · have e1 : dOdd i = pauliZ := by simp [dOdd, h]
    have e2 : dOdd (i + 1) = 1 := by simp [dOdd, show (i + 1) % 2 = 0 by omega]
    simp only [e1, e2, one_mul, mul_one, ZXZ, ZYZ, tens2_smul_left n i (i + 1) h0 hi hne]
    module

end Qib.Compact
