import QibProofs.Lemmas.TNetTreeTotalNode
/-!
Helper lemmas for C07 totality, part 4: `contractTreePrep` (the axes map and root permutation of `contract_tree`) never
refuses when the root has certified, injective tracking, every real leg of an open bond is an open axis of the root,
every root leg carries an open bond and every open bond has a real leg (`prep_total_of`); these hypotheses hold for the
tree built from a scaffold with at least two leaves over all real tensors (`prep_total_node`) (no property statements).
-/
namespace Qib.TNet

theorem bind_eq_ok_of {ε γ δ : Type} {x : Except ε γ} {f : γ → Except ε δ} {a : γ} {b : δ}
    (hx : x = .ok a) (hf : f a = .ok b) : (x >>= f) = .ok b := by
  subst hx; exact hf

theorem bind_eq_error_of {ε γ δ : Type} {x : Except ε γ} {f : γ → Except ε δ} {e : ε}
    (hx : x = .error e) : (x >>= f) = .error e := by
  subst hx; rfl

theorem bind_ok_eq {ε γ δ : Type} {x : Except ε γ} {f : γ → Except ε δ} {a : γ} (hx : x = .ok a) : (x >>= f) = f a := by
  subst hx; rfl

/-- `pick` returns when the indices are in range -/
theorem pick_total {γ : Type} (l : List γ) (idx : List Nat) (h : ∀ i ∈ idx, i < l.length) :
    ∃ res, pick l idx = .ok res := by
  unfold pick
  apply mapM_total
  intro i hi
  exact ⟨l[i]'(h i hi), by simp only [List.getElem?_eq_getElem (h i hi), pure, Except.pure]⟩

/-- every entry of the tracking list of a certified record is a leg -/
theorem InfoCert.track_lt {net : Net} {c : NodeInfo} (h : InfoCert net c) {k : Nat} (hk : k ∈ c.trackaxes) :
    k < c.idxout.length := by
  obtain ⟨i, hi, rfl⟩ := List.getElem_of_mem hk
  have hio : i < c.openaxes.length := by rw [← h.len]; exact hi
  have hm : (c.openaxes[i], c.trackaxes[i]) ∈ c.openaxes.zip c.trackaxes := by
    rw [List.mem_iff_getElem?]
    exact ⟨i, by rw [List.getElem?_zip_eq_some, List.getElem?_eq_getElem hio, List.getElem?_eq_getElem hi]; exact ⟨rfl, rfl⟩⟩
  exact (h.pairs _ hm).1

/-- **`permute_axes` returns** for a permutation of the legs of a record with certified tracking -/
theorem permuteInfo_total {net : Net} {n : NodeInfo} (hi : InfoCert net n) {sort : List Nat}
    (hs : sort.Perm (List.range sort.length)) (hlen : sort.length = n.idxout.length) :
    ∃ n', permuteInfo n sort = .ok n' := by
  obtain ⟨ilen, _, _, _⟩ := argsort_inverse hs
  obtain ⟨io, hio⟩ := pick_total n.idxout sort (fun i hi' => by
    have := perm_range_lt hs hi'; omega)
  obtain ⟨tr, htr⟩ := pick_total (argsort sort) n.trackaxes (fun k hk => by
    have := hi.track_lt hk; omega)
  have hne : (sort.length != n.idxout.length) = false := by simpa using hlen
  simp only [permuteInfo, hne, hio, htr, bind, Except.bind, pure, Except.pure, Bool.false_eq_true, if_false]
  exact ⟨_, rfl⟩

theorem permuteAt_root_total {net : Net} {tree : Tree} (hi : InfoCert net tree.info) {sort : List Nat}
    (hs : sort.Perm (List.range sort.length)) (hlen : sort.length = tree.info.idxout.length) :
    ∃ t, permuteAt tree [] sort = .ok t := by
  obtain ⟨n', hn'⟩ := permuteInfo_total hi hs hlen
  cases tree with
  | leaf i =>
    simp only [Tree.info] at hn'
    simp only [permuteAt, hn', bind, Except.bind, pure, Except.pure]
    exact ⟨_, rfl⟩
  | node i l r =>
    simp only [Tree.info] at hn'
    simp only [permuteAt, hn', bind, Except.bind, pure, Except.pure]
    exact ⟨_, rfl⟩

/-! ### the axes map -/

/-- one step of the inner loop of the axes-map computation -/
def axisStep (root : NodeInfo) (acc : Option Nat) (ta : Int × Nat) : Except Err (Option Nat) := do
  if ta.1 == -1 then return acc
  match trackOf root ta with
  | none => throw Err.runtimeError
  | some r =>
    let k ← r
    match acc with
    | none => return some k
    | some k0 => if k0 != k then throw Err.runtimeError else return acc

theorem axisStep_virt (root : NodeInfo) (acc : Option Nat) (ta : Int × Nat) (h : ta.1 = -1) :
    axisStep root acc ta = .ok acc := by
  have : (ta.1 == -1) = true := by simpa using h
  simp only [axisStep, this, if_true, pure, Except.pure]

theorem axisStep_real (root : NodeInfo) (acc : Option Nat) (ta : Int × Nat) (K : Nat) (h : ta.1 ≠ -1)
    (ht : trackOf root ta = some (.ok K)) (hacc : acc = none ∨ acc = some K) : axisStep root acc ta = .ok (some K) := by
  have : (ta.1 == -1) = false := by simpa using h
  rcases hacc with rfl | rfl
  · simp only [axisStep, this, ht, bind, Except.bind, pure, Except.pure, Bool.false_eq_true, if_false]
  · simp only [axisStep, this, ht, bind, Except.bind, pure, Except.pure, Bool.false_eq_true, if_false, bne_self_eq_false]

/-- the inner loop of the axes-map computation returns when all real legs are tracked to the same root leg `K` -/
theorem axisFold_total (root : NodeInfo) (K : Nat) : ∀ (legs : List (Int × Nat)) (acc : Option Nat),
    (acc = none ∨ acc = some K) → (∀ ta ∈ legs, ta.1 ≠ -1 → trackOf root ta = some (.ok K)) →
    ∃ acc', legs.foldlM (axisStep root) acc = .ok acc' ∧ (acc' = none ∨ acc' = some K) ∧
      ((acc = some K ∨ ∃ ta ∈ legs, ta.1 ≠ -1) → acc' = some K) := by
  intro legs
  induction legs with
  | nil =>
    intro acc hacc _
    exact ⟨acc, rfl, hacc, fun h => h.elim id (fun ⟨_, h, _⟩ => by cases h)⟩
  | cons ta rest ih =>
    intro acc hacc hall
    rw [List.foldlM_cons]
    by_cases hv : ta.1 = -1
    · rw [axisStep_virt root acc ta hv]
      obtain ⟨acc', h1, h2, h3⟩ := ih acc hacc (fun x hx => hall x (List.mem_cons_of_mem _ hx))
      refine ⟨acc', h1, h2, fun h => h3 ?_⟩
      rcases h with h | ⟨x, hx, hne⟩
      · exact Or.inl h
      · rcases List.mem_cons.mp hx with rfl | hx
        · exact absurd hv hne
        · exact Or.inr ⟨x, hx, hne⟩
    · rw [axisStep_real root acc ta K hv (hall ta List.mem_cons_self hv) hacc]
      obtain ⟨acc', h1, h2, h3⟩ := ih (some K) (Or.inr rfl) (fun x hx => hall x (List.mem_cons_of_mem _ hx))
      exact ⟨acc', h1, h2, fun _ => h3 (Or.inl rfl)⟩

/-- the inner loop fails with `RuntimeError` or returns, when the tracking of the root is certified -/
theorem axisFold_ok_or_runtime {net : Net} {root : NodeInfo} (hi : InfoCert net root) : ∀ (legs : List (Int × Nat))
    (acc : Option Nat), (∃ acc', legs.foldlM (axisStep root) acc = .ok acc') ∨
      legs.foldlM (axisStep root) acc = .error .runtimeError := by
  intro legs
  induction legs with
  | nil => intro acc; exact Or.inl ⟨acc, rfl⟩
  | cons ta rest ih =>
    intro acc
    rw [List.foldlM_cons]
    have hstep : (∃ a, axisStep root acc ta = .ok a) ∨ axisStep root acc ta = .error .runtimeError := by
      by_cases hv : ta.1 = -1
      · exact Or.inl ⟨_, axisStep_virt root acc ta hv⟩
      · have hb : (ta.1 == -1) = false := by simpa using hv
        unfold axisStep
        rw [trackOf_spec hi]
        by_cases hm : ta ∈ root.openaxes
        · cases acc with
          | none =>
            left
            simp only [hb, hm, if_true, bind, Except.bind, pure, Except.pure, Bool.false_eq_true, if_false]
            exact ⟨_, rfl⟩
          | some k0 =>
            by_cases hk : (k0 != trk root ta) = true
            · right
              simp only [hb, hm, if_true, bind, Except.bind, pure, Except.pure, Bool.false_eq_true, if_false, hk, throw,
                throwThe, MonadExceptOf.throw]
            · left
              simp only [hb, hm, if_true, bind, Except.bind, pure, Except.pure, Bool.false_eq_true, if_false, hk]
              exact ⟨_, rfl⟩
        · right
          simp only [hb, hm, if_false, Bool.false_eq_true, throw, throwThe, MonadExceptOf.throw]
    rcases hstep with ⟨a, ha⟩ | he
    · rw [ha]; exact ih a
    · rw [he]; exact Or.inr rfl

theorem axisFun_eq (net : Net) (root : NodeInfo) (bid : Int) {bond : SBond} {axes : List Nat}
    (hbond : dget net.bonds bid = some bond) (haxes : getBondAxes net bid = .ok axes) :
    axisFun net root bid = ((bond.tids.zip axes).foldlM (axisStep root) none >>= fun r =>
      match r with | some k => pure k | none => throw Err.runtimeError) := by
  unfold axisFun
  simp only [hbond, haxes, bind, Except.bind]
  rfl

end Qib.TNet

namespace Qib.TNet

/-- hypotheses on the root under which the axes-map computation of `contract_tree` returns -/
structure RootReady (net : Net) (v : STensor) (root : NodeInfo) : Prop where
  info : InfoCert net root
  inj : RootInj net root
  /-- every real leg of an open bond is an open axis of the root -/
  realOpen : ∀ bid ∈ v.bids, ∀ ta ∈ bondLegs net bid, ta.1 ≠ -1 → ta ∈ root.openaxes
  /-- every root leg carries an open bond -/
  legOpen : ∀ k, k < root.idxout.length → legB net root k ∈ v.bids
  /-- every open bond touches a real tensor -/
  touch : ∀ bid ∈ v.bids, ∃ ta ∈ bondLegs net bid, ta.1 ≠ -1

/-- **one entry of the axes map returns** when the open bond has a real leg and all its real legs are open axes of the
root tracked to one leg -/
theorem axisFun_total_local {net : Net} (hwf : WF net) {v : STensor} (hv : dget net.tensors (-1) = some v)
    {root : NodeInfo} (hi : InfoCert net root) {bid : Int} (hb : bid ∈ v.bids)
    (htouch : ∃ ta ∈ bondLegs net bid, ta.1 ≠ -1)
    (hopen : ∀ ta ∈ bondLegs net bid, ta.1 ≠ -1 → ta ∈ root.openaxes)
    (hsame : ∀ ta ∈ bondLegs net bid, ∀ ta' ∈ bondLegs net bid, ta.1 ≠ -1 → ta'.1 ≠ -1 → trk root ta = trk root ta') :
    ∃ k, axisFun net root bid = .ok k := by
  obtain ⟨bond, hbond⟩ := hwf.toWF0.bond_of_leg hv hb
  obtain ⟨axes, haxes, hlegs⟩ := getBondAxes_of_wf hwf hbond
  obtain ⟨ta0, hta0, hne0⟩ := htouch
  have hall : ∀ ta ∈ bondLegs net bid, ta.1 ≠ -1 → trackOf root ta = some (.ok (trk root ta0)) := by
    intro ta hta hne
    rw [trackOf_spec hi, if_pos (hopen ta hta hne), hsame ta hta ta0 hta0 hne hne0]
  obtain ⟨acc', h1, _, h3⟩ := axisFold_total root (trk root ta0) (bondLegs net bid) none (Or.inl rfl) hall
  have hacc : acc' = some (trk root ta0) := h3 (Or.inr ⟨ta0, hta0, hne0⟩)
  subst hacc
  rw [hlegs] at h1
  exact ⟨trk root ta0, by rw [axisFun_eq net root bid hbond haxes, h1]; rfl⟩

/-- **one entry of the axes map returns** the root leg carrying the open bond -/
theorem axisFun_total {net : Net} (hwf : WF net) {v : STensor} (hv : dget net.tensors (-1) = some v) {root : NodeInfo}
    (hr : RootReady net v root) {bid : Int} (hb : bid ∈ v.bids) : ∃ k, axisFun net root bid = .ok k := by
  refine axisFun_total_local hwf hv hr.info hb (hr.touch bid hb) (hr.realOpen bid hb) ?_
  intro ta hta ta' hta' hne hne'
  obtain ⟨k1, k2⟩ := trk_spec hr.info (hr.realOpen bid hb ta hta hne)
  obtain ⟨k1', k2'⟩ := trk_spec hr.info (hr.realOpen bid hb ta' hta' hne')
  rw [(mem_bondLegs_iff_legBond hwf).mp hta] at k2
  rw [(mem_bondLegs_iff_legBond hwf).mp hta'] at k2'
  exact hr.inj _ _ k1 k1' ((Option.some.inj k2).symm.trans (Option.some.inj k2'))

/-- an entry of the axes map returns or fails with `RuntimeError` (consistent network, certified tracking) -/
theorem axisFun_ok_or_runtime {net : Net} (hwf : WF net) {v : STensor} (hv : dget net.tensors (-1) = some v)
    {root : NodeInfo} (hi : InfoCert net root) {bid : Int} (hb : bid ∈ v.bids) :
    (∃ k, axisFun net root bid = .ok k) ∨ axisFun net root bid = .error .runtimeError := by
  obtain ⟨bond, hbond⟩ := hwf.toWF0.bond_of_leg hv hb
  obtain ⟨axes, haxes, _⟩ := getBondAxes_of_wf hwf hbond
  rw [axisFun_eq net root bid hbond haxes]
  rcases axisFold_ok_or_runtime hi (bond.tids.zip axes) none with ⟨acc', h⟩ | h
  · rw [h]
    cases acc' with
    | none => exact Or.inr rfl
    | some k => exact Or.inl ⟨k, rfl⟩
  · rw [h]; exact Or.inr rfl

/-- an open bond without a real leg makes the axes-map entry fail: "cannot track open axis" -/
theorem axisFun_untouched {net : Net} (hwf : WF net) {v : STensor} (hv : dget net.tensors (-1) = some v)
    (root : NodeInfo) {bid : Int} (hb : bid ∈ v.bids) (hno : ∀ ta ∈ bondLegs net bid, ta.1 = -1) :
    axisFun net root bid = .error .runtimeError := by
  obtain ⟨bond, hbond⟩ := hwf.toWF0.bond_of_leg hv hb
  obtain ⟨axes, haxes, hlegs⟩ := getBondAxes_of_wf hwf hbond
  rw [axisFun_eq net root bid hbond haxes]
  have : ∀ (legs : List (Int × Nat)), (∀ ta ∈ legs, ta.1 = -1) → legs.foldlM (axisStep root) none = .ok none := by
    intro legs
    induction legs with
    | nil => intro _; rfl
    | cons ta rest ih =>
      intro h
      rw [List.foldlM_cons, axisStep_virt root none ta (h ta List.mem_cons_self)]
      exact ih (fun x hx => h x (List.mem_cons_of_mem _ hx))
  rw [this _ (by rw [← hlegs]; exact hno)]
  rfl

/-! ### the numbering of the root legs -/

theorem markStep_total {st : List (Option Nat) × Nat} {ax : Nat} (h : ax < st.1.length) : ∃ st', markStep st ax = .ok st' := by
  unfold markStep
  rw [List.getElem?_eq_getElem h]
  cases st.1[ax] with
  | none => exact ⟨_, rfl⟩
  | some r => exact ⟨_, rfl⟩

/-- the numbering loop returns when the entries of the axes map are legs -/
theorem mark_returns (N : Nat) (am0 : List Nat) (hlt : ∀ ax ∈ am0, ax < N) :
    ∃ marks c, am0.foldlM markStep (List.replicate N none, 0) = .ok (marks, c) := by
  obtain ⟨⟨marks, c⟩, hres⟩ := foldlM_total_of_prefix' markStep (List.replicate N none, 0) am0 (by
    intro pre ax post st hdec hpre
    have hi := mark_inv N pre hpre
    apply markStep_total
    rw [hi.len]
    exact hlt ax (by rw [hdec]; simp))
  exact ⟨marks, c, hres⟩

/-- the numbering loop returns, and it has numbered all `N` legs when the axes map covers them -/
theorem mark_total (N : Nat) (am0 : List Nat) (hlt : ∀ ax ∈ am0, ax < N) (hcov : ∀ k, k < N → k ∈ am0) :
    ∃ marks, am0.foldlM markStep (List.replicate N none, 0) = .ok (marks, N) := by
  obtain ⟨marks, c, hres⟩ := mark_returns N am0 hlt
  have hi := mark_inv N am0 hres
  have hall : ∀ o ∈ marks, Option.isSome o = true := by
    intro o ho
    obtain ⟨ax, hax, rfl⟩ := List.getElem_of_mem ho
    have hlen : marks.length = N := hi.len
    obtain ⟨r, hr⟩ := hi.dst ax (hcov ax (by omega))
    simp only at hr
    rw [List.getElem?_eq_getElem hax] at hr
    rw [Option.some.inj hr]; rfl
  have hc : c = N := by
    have h1 := hi.cnt
    have h2 : marks.length = N := hi.len
    simp only at h1
    rw [h1, ← h2]
    exact List.countP_eq_length.mpr hall
  subst hc
  exact ⟨marks, hres⟩

end Qib.TNet

namespace Qib.TNet

/-- `contractTreePrep` assembled from its stages (converse of `contractTreePrep_full`) -/
theorem contractTreePrep_of {net : Net} {tree t : Tree} {toa : STensor} {am0 am : List Nat} {marks : List (Option Nat)}
    (htoa : dget net.tensors (-1) = some toa) (ham0 : toa.bids.mapM (axisFun net tree.info) = .ok am0)
    (hmc : am0.foldlM markStep (List.replicate tree.info.idxout.length none, 0) = .ok (marks, tree.info.idxout.length))
    (hperm : permuteAt tree [] (argsort (marks.map (fun o => o.getD 0))) = .ok t)
    (hpick : pick (marks.map (fun o => o.getD 0)) am0 = .ok am) :
    contractTreePrep net tree = .ok (t, argsort (marks.map (fun o => o.getD 0)), am) := by
  unfold contractTreePrep
  dsimp only
  rw [htoa]
  dsimp only
  refine bind_eq_ok_of ham0 ?_
  refine bind_eq_ok_of hmc ?_
  dsimp only
  simp only [bne_self_eq_false, Bool.false_eq_true, if_false]
  refine bind_eq_ok_of hperm ?_
  refine bind_eq_ok_of hpick ?_
  rfl

/-- the `assert c == tree.ndim` of `contract_tree` fails when the numbering has not reached all root legs -/
theorem contractTreePrep_assert {net : Net} {tree : Tree} {toa : STensor} {am0 : List Nat} {marks : List (Option Nat)}
    {c : Nat} (htoa : dget net.tensors (-1) = some toa) (ham0 : toa.bids.mapM (axisFun net tree.info) = .ok am0)
    (hmc : am0.foldlM markStep (List.replicate tree.info.idxout.length none, 0) = .ok (marks, c))
    (hc : c ≠ tree.info.idxout.length) : contractTreePrep net tree = .error .assertion := by
  unfold contractTreePrep
  dsimp only
  rw [htoa]
  dsimp only
  refine (bind_ok_eq ham0).trans ?_
  refine (bind_ok_eq hmc).trans ?_
  dsimp only
  have hne : (c != tree.info.idxout.length) = true := by simpa using hc
  simp only [hne, if_true]
  rfl

/-- **`contractTreePrep` returns** when the root is ready -/
theorem prep_total_of {net : Net} (hwf : WF net) {v : STensor} (hv : dget net.tensors (-1) = some v) {tree : Tree}
    (hr : RootReady net v tree.info) : ∃ t perm am, contractTreePrep net tree = .ok (t, perm, am) := by
  set N := tree.info.idxout.length with hN
  obtain ⟨am0, ham0⟩ := mapM_total (f := axisFun net tree.info) v.bids (fun bid hb => axisFun_total hwf hv hr hb)
  have hfam0 := mapM_ok_inv ham0
  have ham0len : am0.length = v.bids.length := hfam0.length_eq.symm
  have hax0 : ∀ i (hi : i < v.bids.length), ∃ (hi' : i < am0.length), am0[i] < N ∧
      nodeLegBond net tree.info am0[i] = some v.bids[i] := by
    intro i hi
    have hi' : i < am0.length := by omega
    have := (List.forall₂_iff_get.mp hfam0).2 i hi hi'
    simp only [List.get_eq_getElem] at this
    exact ⟨hi', axisFun_spec hwf hr.info this⟩
  have hlt : ∀ ax ∈ am0, ax < N := by
    intro ax hax
    obtain ⟨i, hi, rfl⟩ := List.getElem_of_mem hax
    exact (hax0 i (by omega)).2.1
  have hcov : ∀ k, k < N → k ∈ am0 := by
    intro k hk
    obtain ⟨i, hi, hie⟩ := List.getElem_of_mem (hr.legOpen k hk)
    obtain ⟨hi', h1, h2⟩ := hax0 i hi
    have : am0[i] = k := hr.inj _ _ h1 hk (by rw [← hie]; simp [legB, h2])
    rw [← this]; exact List.getElem_mem hi'
  obtain ⟨marks, hmc⟩ := mark_total N am0 hlt hcov
  obtain ⟨hsp, hslen, _⟩ := mark_final (mark_inv N am0 hmc)
  set sidx := marks.map (fun o => o.getD 0) with hsidx
  have hsp' : sidx.Perm (List.range sidx.length) := by rw [hslen]; exact hsp
  obtain ⟨hpp, _⟩ := argsort_spec hsp'
  obtain ⟨ilen, _, _, _⟩ := argsort_inverse hsp'
  have hpp' : (argsort sidx).Perm (List.range (argsort sidx).length) := by rw [ilen]; exact hpp
  obtain ⟨t, ht⟩ := permuteAt_root_total hr.info hpp' (by rw [ilen, hslen])
  obtain ⟨am, ham⟩ := pick_total sidx am0 (fun i hi => by rw [hslen]; exact hlt i hi)
  exact ⟨t, _, am, contractTreePrep_of hv ham0 hmc ht ham⟩

end Qib.TNet
