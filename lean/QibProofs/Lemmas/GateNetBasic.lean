import QibModel.GateNet
import QibProofs.Lemmas.TNetSum
import Mathlib.Data.List.Perm.Basic
import Mathlib.Data.List.Nodup
import Mathlib.Tactic.Ring
import Mathlib.Tactic.Linarith

namespace Qib.GateNet
open Qib.TNet

/-! ### pins -/
section Pins
variable {L : Type} [DecidableEq L]

theorem pin_nil_left (vs : List Nat) (σ : L → Nat) : pin ([] : List L) vs σ = σ := by
  cases vs <;> rfl

/-- the pinned assignment reads back the pinned values whenever the values come from SOME assignment -/
theorem map_pin_of_map (ls : List L) (τ σ : L → Nat) : ls.map (pin ls (ls.map τ) σ) = ls.map τ := by
  induction ls with
  | nil => rfl
  | cons l ls ih =>
    simp only [List.map_cons, pin]
    rw [upd_same]
    congr 1
    apply List.map_congr_left
    intro x hx
    by_cases hxl : x = l
    · subst hxl; rw [upd_same]
    · rw [upd_other _ hxl]
      have := congrArg (fun l => l) ih
      -- pointwise version of ih
      have hpt : ∀ y ∈ ls, pin ls (ls.map τ) σ y = τ y := by
        intro y hy
        have := List.map_inj_left.mp ih
        exact this y hy
      exact hpt x hx

theorem pinsOK_map (ls : List L) (τ : L → Nat) : pinsOK ls (ls.map τ) = true := by
  simp only [pinsOK, List.length_map, beq_self_eq_true, Bool.true_and, List.all_eq_true, List.mem_range,
    Bool.or_eq_true, Bool.not_eq_true', beq_eq_false_iff_ne, ne_eq, beq_iff_eq]
  intro k hk k' hk'
  by_cases h : ls[k]? = ls[k']?
  · right; simp [List.getElem?_map, h]
  · left; exact h

theorem pinsOK_iff (ls : List L) (idx : List Nat) : pinsOK ls idx = true ↔ ∃ τ : L → Nat, ls.map τ = idx := by
  constructor
  · intro h
    simp only [pinsOK, Bool.and_eq_true, beq_iff_eq, List.all_eq_true, List.mem_range,
      Bool.or_eq_true, Bool.not_eq_true', beq_eq_false_iff_ne, ne_eq] at h
    obtain ⟨hlen, hall⟩ := h
    -- choose the value of the first occurrence
    refine ⟨fun l => (idx[ls.idxOf l]?).getD 0, ?_⟩
    apply List.ext_getElem
    · simp [hlen]
    · intro k h1 h2
      simp only [List.getElem_map]
      have hk : k < ls.length := by simpa using h1
      have hmem : ls[k] ∈ ls := List.getElem_mem hk
      have hi : ls.idxOf ls[k] < ls.length := List.idxOf_lt_length_iff.mpr hmem
      have hget : ls[ls.idxOf ls[k]] = ls[k] := List.getElem_idxOf hi
      rcases hall _ hi k hk with hne | heq
      · exact absurd (by rw [List.getElem?_eq_getElem hi, List.getElem?_eq_getElem hk, hget]) hne
      · rw [heq, List.getElem?_eq_getElem h2]; rfl
  · rintro ⟨τ, rfl⟩; exact pinsOK_map ls τ

theorem map_pin (ls : List L) (idx : List Nat) (σ : L → Nat) (h : pinsOK ls idx = true) :
    ls.map (pin ls idx σ) = idx := by
  obtain ⟨τ, rfl⟩ := (pinsOK_iff ls idx).mp h
  exact map_pin_of_map ls τ σ


/-- distinct labels can be pinned to arbitrary values -/
theorem exists_map_of_nodup (ls : List L) (idx : List Nat) (hn : ls.Nodup) (hl : ls.length = idx.length) :
    ∃ τ : L → Nat, ls.map τ = idx := by
  induction ls generalizing idx with
  | nil => cases idx with
    | nil => exact ⟨fun _ => 0, rfl⟩
    | cons _ _ => simp at hl
  | cons l ls ih =>
    cases idx with
    | nil => simp at hl
    | cons v vs =>
      obtain ⟨τ, hτ⟩ := ih vs (List.nodup_cons.mp hn).2 (by simpa using hl)
      refine ⟨upd τ l v, ?_⟩
      simp only [List.map_cons, upd_same]
      congr 1
      rw [← hτ]
      apply List.map_congr_left
      intro x hx
      exact upd_other _ (fun e => (List.nodup_cons.mp hn).1 (by rw [← e]; exact hx)) _
end Pins

section Full
variable {α : Type} [CommSemiring α]

theorem prodL_nil : prodL ([] : List α) = 1 := rfl
theorem prodL_cons (x : α) (xs : List α) : prodL (x :: xs) = x * prodL xs := rfl
theorem prodL_append (a b : List α) : prodL (a ++ b) = prodL a * prodL b := by
  induction a with
  | nil => simp [prodL_nil]
  | cons x xs ih => simp only [List.cons_append, prodL_cons, ih, mul_assoc]

theorem full_eval (net : Net) (D : Option Int → List Nat → α) (idx : List Nat) (v : STensor)
    (hv : dget net.tensors (-1) = some v) (hp : pinsOK v.bids idx = true) :
    full net D idx = sumOver (bondDim net) (internalBids net v)
      (fun σ => prodL ((realTensors net).map (fun t => D t.dataref (t.bids.map σ)))) (pin v.bids idx (fun _ => 0)) := by
  simp only [full, hv, hp, if_true]

theorem full_eq_zero (net : Net) (D : Option Int → List Nat → α) (idx : List Nat) (v : STensor)
    (hv : dget net.tensors (-1) = some v) (hp : pinsOK v.bids idx = false) : full net D idx = 0 := by
  simp [full, hv, hp]

/-- no internal bond: every bond carries an open leg -/
theorem internalBids_nil (net : Net) (v : STensor) (h : ∀ b ∈ dkeys net.bonds, b ∈ v.bids) : internalBids net v = [] := by
  simp only [internalBids, List.filter_eq_nil_iff]
  intro b hb
  simp [h b hb]

theorem mem_internalBids (net : Net) (v : STensor) (b : Int) :
    b ∈ internalBids net v ↔ b ∈ dkeys net.bonds ∧ b ∉ v.bids := by
  simp [internalBids]

/-- the internal bonds may be summed in any order and described by any duplicate-free list with the same members -/
theorem sumOver_internal (net : Net) (v : STensor) (ls : List Int) (hn : (dkeys net.bonds).Nodup) (hls : ls.Nodup)
    (hm : ∀ b, b ∈ ls ↔ b ∈ dkeys net.bonds ∧ b ∉ v.bids) (dim : Int → Nat) (f : (Int → Nat) → α) (σ : Int → Nat) :
    sumOver dim (internalBids net v) f σ = sumOver dim ls f σ := by
  apply sumOver_perm
  have hn' : (internalBids net v).Nodup := hn.filter _
  rw [List.perm_ext_iff_of_nodup hn' hls]
  intro b
  rw [hm b]; exact mem_internalBids net v b

/-- only the dimensions of the summed labels matter -/
theorem sumOver_congr_dim (dim dim' : Int → Nat) (ls : List Int) (h : ∀ l ∈ ls, dim l = dim' l)
    (f : (Int → Nat) → α) (σ : Int → Nat) : sumOver dim ls f σ = sumOver dim' ls f σ := by
  induction ls generalizing σ with
  | nil => rfl
  | cons l ls ih =>
    simp only [sumOver_cons, h l List.mem_cons_self]
    congr 1
    apply List.map_congr_left
    intro v _
    exact ih (fun x hx => h x (List.mem_cons_of_mem _ hx)) _

/-- `bondDim` of a bond that occurs on some leg, when every leg has dimension `d` -/
theorem bondDim_eq (net : Net) (b : Int) (d : Nat) (hall : ∀ p ∈ legDims net, p.2 = d)
    (hmem : b ∈ (legDims net).map (·.1)) : bondDim net b = d := by
  unfold bondDim
  generalize legDims net = l at hall hmem
  induction l with
  | nil => simp at hmem
  | cons p ps ih =>
    obtain ⟨p1, p2⟩ := p
    simp only [List.lookup]
    by_cases hb : b = p1
    · subst hb; simp; exact hall _ List.mem_cons_self
    · have : (b == p1) = false := by simpa using hb
      rw [this]
      apply ih (fun q hq => hall q (List.mem_cons_of_mem _ hq))
      simpa [hb] using hmem
end Full
end Qib.GateNet
