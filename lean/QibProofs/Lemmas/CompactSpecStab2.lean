import QibProofs.Lemmas.CompactSpecStab
/-!
C13, spectral part — helper lemmas, part 12: products of loop products over sets of plain faces never act trivially on the
auxiliary qubits (`stab_nontrivial`).
-/
set_option linter.unusedSimpArgs false
set_option linter.unusedVariables false
open Complex Matrix
namespace Qib.Compact
open Qib.Pauli Qib.Lattice

/-- the faces of the list are faces of the rectangle without auxiliary qubit -/
def PlainFaces (n0 n1 : ℕ) (R : List (ℕ × ℕ)) : Prop := ∀ g ∈ R, FaceIn n0 n1 g.1 g.2 ∧ (g.1 + g.2) % 2 = 1

/-- product of the loop products of the listed faces (first face leftmost) -/
def stabProd (n0 n1 : ℕ) (R : List (ℕ × ℕ)) : PS :=
  R.foldr (fun g P => (loopStr n0 n1 g.1 g.2).mul P) (PS.identity (ofcNsites n0 n1))

theorem stabProd_hasLen (n0 n1 : ℕ) (R : List (ℕ × ℕ)) (hR : ∀ g ∈ R, FaceIn n0 n1 g.1 g.2) :
    (stabProd n0 n1 R).HasLen (ofcNsites n0 n1) := by
  induction R with
  | nil => exact identity_hasLen _
  | cons a l ih =>
    exact mul_hasLen _ _ _ (loopStr_hasLen (hR a (by simp))) (ih (fun g hg => hR g (by simp [hg])))

theorem stabProd_bits (n0 n1 : ℕ) (R : List (ℕ × ℕ)) (hR : ∀ g ∈ R, FaceIn n0 n1 g.1 g.2) (t : ℕ) :
    (stabProd n0 n1 R).zf t = R.foldr (fun g acc => xor ((loopStr n0 n1 g.1 g.2).zf t) acc) false ∧
    (stabProd n0 n1 R).xf t = R.foldr (fun g acc => xor ((loopStr n0 n1 g.1 g.2).xf t) acc) false := by
  induction R with
  | nil =>
    simp only [stabProd, List.foldr_nil]
    exact ⟨getD_replicate_false _ _, getD_replicate_false _ _⟩
  | cons a l ih =>
    have hl := stabProd_hasLen n0 n1 l (fun g hg => hR g (by simp [hg]))
    have ha := loopStr_hasLen (hR a (by simp))
    obtain ⟨i1, i2⟩ := ih (fun g hg => hR g (by simp [hg]))
    simp only [List.foldr_cons]
    rw [← i1, ← i2]
    exact ⟨zf_mul _ _ _ ha hl _, xf_mul _ _ _ ha hl _⟩

theorem foldr_xor_none {α : Type} (R : List α) (p : α → Bool) (h : ∀ g ∈ R, p g = false) :
    R.foldr (fun g acc => xor (p g) acc) false = false := by
  induction R with
  | nil => rfl
  | cons a l ih =>
    simp only [List.foldr_cons, h a (by simp), Bool.false_xor]
    exact ih (fun g hg => h g (by simp [hg]))

theorem foldr_xor_unique {α : Type} [DecidableEq α] (R : List α) (hnd : R.Nodup) (p : α → Bool) (g : α) (hg : g ∈ R)
    (hp : p g = true) (hu : ∀ g' ∈ R, p g' = true → g' = g) : R.foldr (fun g acc => xor (p g) acc) false = true := by
  induction R with
  | nil => cases hg
  | cons a l ih =>
    simp only [List.foldr_cons]
    rw [List.nodup_cons] at hnd
    by_cases hag : a = g
    · subst hag
      rw [hp, foldr_xor_none l p]
      · rfl
      · intro g' hg'
        by_contra hne
        have : p g' = true := by simpa using hne
        have := hu g' (by simp [hg']) this
        subst this
        exact hnd.1 hg'
    · have hgl : g ∈ l := by
        rcases List.mem_cons.mp hg with h | h
        · exact absurd h.symm hag
        · exact h
      have hpa : p a = false := by
        by_contra hne
        have : p a = true := by simpa using hne
        exact hag (hu a (by simp) this)
      rw [hpa, Bool.false_xor]
      exact ih hnd.2 hgl (fun g' hg' => hu g' (by simp [hg']))

theorem foldr_xor_xor {α : Type} (R : List α) (p q : α → Bool) :
    xor (R.foldr (fun g acc => xor (p g) acc) false) (R.foldr (fun g acc => xor (q g) acc) false) =
      R.foldr (fun g acc => xor (xor (p g) (q g)) acc) false := by
  induction R with
  | nil => rfl
  | cons a l ih =>
    simp only [List.foldr_cons, ← ih]
    cases p a <;> cases q a <;> simp

theorem list_exists_min {α : Type} (R : List α) (hne : R ≠ []) (f : α → ℕ) : ∃ g ∈ R, ∀ g' ∈ R, f g ≤ f g' := by
  induction R with
  | nil => exact absurd rfl hne
  | cons a l ih =>
    by_cases hl : l = []
    · subst hl; exact ⟨a, by simp, fun g' hg' => by simp at hg'; rw [hg']⟩
    · obtain ⟨g, hg, hmin⟩ := ih hl
      by_cases h : f a ≤ f g
      · exact ⟨a, by simp, fun g' hg' => by
          rcases List.mem_cons.mp hg' with e | e
          · rw [e]
          · exact le_trans h (hmin g' e)⟩
      · exact ⟨g, by simp [hg], fun g' hg' => by
          rcases List.mem_cons.mp hg' with e | e
          · rw [e]; omega
          · exact hmin g' e⟩

/-- **no product of loop products over a non-empty set of plain faces is trivial on the auxiliary qubits**: some auxiliary qubit
carries a `Z`-component, or an `X`-component without `Z`-component or vice versa (in every case a non-identity letter) -/
theorem stab_nontrivial (n0 n1 : ℕ) (R : List (ℕ × ℕ)) (hne : R ≠ []) (hnd : R.Nodup) (hR : PlainFaces n0 n1 R) :
    ∃ a b, FaceOK n0 n1 a b ∧
      ((stabProd n0 n1 R).zf (fIdx n0 n1 a b) = true ∨ (stabProd n0 n1 R).xf (fIdx n0 n1 a b) = true) := by
  have hin : ∀ g ∈ R, FaceIn n0 n1 g.1 g.2 := fun g hg => (hR g hg).1
  obtain ⟨g, hg, hmin⟩ := list_exists_min R hne (fun g => g.1 * n1 + g.2)
  obtain ⟨x, y⟩ := g
  obtain ⟨⟨h1, h2⟩, hp⟩ := hR (x, y) hg
  simp only at h1 h2 hp hmin
  by_cases hx : 1 ≤ x
  · -- the auxiliary face above `(x, y)`
    have hf : FaceOK n0 n1 (x - 1) y := ⟨by omega, h2, by omega⟩
    refine ⟨x - 1, y, hf, Or.inl ?_⟩
    rw [(stabProd_bits n0 n1 R hin _).1]
    apply foldr_xor_unique R hnd (fun g => (loopStr n0 n1 g.1 g.2).zf (fIdx n0 n1 (x - 1) y)) (x, y) hg
    · simp only
      rw [(loop_bits n0 n1 x y (x - 1) y ⟨h1, h2⟩ hp hf).2]
      simp; omega
    · intro g' hg' hz
      obtain ⟨x', y'⟩ := g'
      obtain ⟨hin', hp'⟩ := hR (x', y') hg'
      simp only at hz hin' hp'
      rw [(loop_bits n0 n1 x' y' (x - 1) y hin' hp' hf).2] at hz
      have hm := hmin (x', y') hg'
      simp only at hm
      have : (x - 1 + 1 = x' ∧ y = y') ∨ (x - 1 = x' + 1 ∧ y = y') := by simpa using hz
      rcases this with ⟨e1, e2⟩ | ⟨e1, e2⟩
      · ext <;> simp <;> omega
      · exfalso
        have : x' * n1 + y' < x * n1 + y := by
          have : x' + 2 = x := by omega
          subst this
          subst e2
          nlinarith
        omega
  · -- first row: the auxiliary face to the left of `(0, y)`
    have hx0 : x = 0 := by omega
    subst hx0
    have hy : 1 ≤ y := by omega
    have hf : FaceOK n0 n1 0 (y - 1) := ⟨by omega, by omega, by omega⟩
    refine ⟨0, y - 1, hf, ?_⟩
    have key : xor ((stabProd n0 n1 R).xf (fIdx n0 n1 0 (y - 1))) ((stabProd n0 n1 R).zf (fIdx n0 n1 0 (y - 1))) = true := by
      rw [(stabProd_bits n0 n1 R hin _).1, (stabProd_bits n0 n1 R hin _).2, foldr_xor_xor]
      apply foldr_xor_unique R hnd
        (fun g => xor ((loopStr n0 n1 g.1 g.2).xf (fIdx n0 n1 0 (y - 1))) ((loopStr n0 n1 g.1 g.2).zf (fIdx n0 n1 0 (y - 1)))) (0, y) hg
      · simp only
        rw [(loop_bits n0 n1 0 y 0 (y - 1) ⟨h1, h2⟩ hp hf).1, (loop_bits n0 n1 0 y 0 (y - 1) ⟨h1, h2⟩ hp hf).2]
        have e1 : ¬ (0 + 1 = 0 ∧ y - 1 = y) := by omega
        have e2 : ¬ (0 = 0 ∧ y - 1 = y + 1) := by omega
        have e3 : ¬ (0 = 0 + 1 ∧ y - 1 = y) := by omega
        have e4 : (0 = 0 ∧ y - 1 + 1 = y) := by omega
        simp [e1, e2, e3, e4]
      · intro g' hg' hz
        obtain ⟨x', y'⟩ := g'
        obtain ⟨hin', hp'⟩ := hR (x', y') hg'
        simp only at hz hin' hp'
        rw [(loop_bits n0 n1 x' y' 0 (y - 1) hin' hp' hf).1, (loop_bits n0 n1 x' y' 0 (y - 1) hin' hp' hf).2] at hz
        have hm := hmin (x', y') hg'
        simp only [Nat.zero_mul, Nat.zero_add] at hm
        by_cases k0 : 0 + 1 = x' ∧ y - 1 = y'
        · exfalso
          have k2 : ¬ (0 = x' + 1 ∧ y - 1 = y') := by omega
          have k1 : ¬ (0 = x' ∧ y - 1 = y' + 1) := by omega
          have k3 : ¬ (0 = x' ∧ y - 1 + 1 = y') := by omega
          simp [k0, k1, k2, k3] at hz
        · by_cases k2 : 0 = x' + 1 ∧ y - 1 = y'
          · omega
          · by_cases k1 : 0 = x' ∧ y - 1 = y' + 1
            · exfalso
              obtain ⟨e1, e2⟩ := k1
              subst e1
              simp only [Nat.zero_mul, Nat.zero_add] at hm
              omega
            · by_cases k3 : 0 = x' ∧ y - 1 + 1 = y'
              · ext <;> simp <;> omega
              · exfalso
                simp [k0, k1, k2, k3] at hz
                omega
    cases hzz : (stabProd n0 n1 R).zf (fIdx n0 n1 0 (y - 1))
    · right
      rw [hzz] at key
      simpa using key
    · left; rfl

end Qib.Compact
