import QibProofs.Lemmas.CircuitNetFull
import QibProofs.Lemmas.TNetBridgeDense
/-!
Helper lemmas for C05 (tensor-network part), part 9: `contract_einsum` of a `TensorNetwork` over any scalar type
(`CircuitNet.contractEinsum`, the scalar-generic twin of the driver op of C07) expands to the dense defining sum – the
proofs of `TNetEinsumData.lean` / `TNetBridgeDense.lean` with the data dictionary of a `TN α`. No property statements.
-/
set_option linter.unusedSimpArgs false
set_option linter.unusedSectionVars false
namespace Qib.CircuitNet
open Qib.TNet Qib.GateNet

section Einsum
variable {α : Type} [CommSemiring α] [DecidableEq α]

/-- the data tensor stored for tensor id `tid` (a scalar zero when there is none) -/
def dataOfTN (tn : TN α) (tid : Int) : DT α :=
  if tid == -1 then ⟨[], .s 0⟩ else
  match dget tn.net.tensors tid with
  | some x => (x.dataref.bind (fun r => tn.data.lookup r)).getD ⟨[], .s 0⟩
  | none => ⟨[], .s 0⟩

theorem dataOK_dataOfTN {tn : TN α} (hk : ∀ e ∈ tn.net.tensors, e.2.tid = e.1)
    (hcd : GateNet.isConsistentData tn = .ok true) : DataOK tn.net tn.D (dataOfTN tn) := by
  intro tid T hne hT
  have hm := mem_of_dget_eq_some _ hT
  have hne' : T.tid ≠ -1 := by rw [hk _ hm]; exact hne
  obtain ⟨r, d, hr, hd, hs⟩ := (isConsistentDataTN_ok hcd).2 _ hm hne'
  simp only at hr hd hs
  have hb : (tid == -1) = false := by simpa using hne
  have : dataOfTN tn tid = d := by
    simp [dataOfTN, hb, hT, hr, hd]
  rw [this]
  refine ⟨hs, fun i => ?_⟩
  simp [TN.D, hr, hd]

/-- what `contractEinsum` evaluates: the specification of `asEinsum`, the data tensors as operands, ones-vectors -/
theorem contractEinsum_inv {tn : TN α} (hwf : WF tn.net) (hcd : GateNet.isConsistentData tn = .ok true)
    {r : DT α} {am : List Nat} (hce : contractEinsum tn = .ok (r, am)) {v : STensor}
    (hv : dget tn.net.tensors (-1) = some v) :
    ∃ e ones, asEinsum tn.net = .ok e ∧ EinsumCert tn.net v e ∧ am = e.axesMap ∧ OnesOK v e ones ∧
      einsumEval (eArgs (dataOfTN tn) e ++ ones) e.idxout = .ok r := by
  cases he : asEinsum tn.net with
  | error err => simp [contractEinsum, he, bind, Except.bind] at hce
  | ok e =>
  have hc := asEinsum_cert hwf hv he
  unfold contractEinsum at hce
  rw [he] at hce
  simp only [bind, Except.bind] at hce
  split at hce
  · cases hce
  · rename_i args hargs
    have hshape : netShape tn.net = .ok v.shape := by
      simp [netShape, virt, hv, bind, Except.bind, pure, Except.pure]
    rw [hshape] at hce
    simp only at hce
    split at hce
    · cases hce
    · rename_i ones hones
      split at hce
      · simp [throw, throwThe, MonadExceptOf.throw] at hce
      · split at hce
        · cases hce
        · rename_i r' hr'
          simp only [pure, Except.pure, Except.ok.injEq, Prod.mk.injEq] at hce
          obtain ⟨rfl, rfl⟩ := hce
          have hA : args = eArgs (dataOfTN tn) e := by
            have hf := mapM_ok_inv hargs
            unfold eArgs
            apply List.ext_getElem
            · simpa using hf.length_eq.symm
            · intro i h1 h2
              have hi : i < (e.tids.zip e.tidx).length := by simpa using h2
              have := (List.forall₂_iff_get.mp hf).2 i hi h1
              simp only [List.get_eq_getElem] at this
              simp only [List.getElem_map]
              have hq : (e.tids.zip e.tidx)[i] ∈ e.tids.zip e.tidx := List.getElem_mem hi
              generalize (e.tids.zip e.tidx)[i] = q at this hq
              obtain ⟨T, hT, _⟩ := hc.rows q hq
              have hne : q.1 ≠ -1 := hc.tid_ne hwf.tnodup (List.of_mem_zip hq).1
              have hm := mem_of_dget_eq_some _ hT
              have hne' : T.tid ≠ -1 := by rw [hwf.tkey _ hm]; exact hne
              obtain ⟨r0, d, hr0, hd, _⟩ := (isConsistentDataTN_ok hcd).2 _ hm hne'
              simp only at hr0 hd
              have hb : (q.1 == -1) = false := by simpa using hne
              simp only [hT, hr0, hd, pure, Except.pure, Except.ok.injEq] at this
              rw [← this]
              simp [dataOfTN, hb, hT, hr0, hd]
          have hO : OnesOK v e ones := by
            intro a ha
            obtain ⟨k, hk, hfk⟩ := filterMapM_ok_inv hones a ha
            have hk' := List.mem_range.mp hk
            split at hfk
            · cases hfk
            · split at hfk
              · cases hfk
              · rename_i p hp
                split at hfk
                · cases hfk
                · rename_i d hd
                  simp only [pure, Except.pure, Except.ok.injEq, Option.some.injEq] at hfk
                  refine ⟨e.idxout[k]!, d, p, hfk.symm, ?_, hd⟩
                  unfold indexOf? at hp
                  split at hp
                  · rename_i hcon
                    have hpe : e.axesMap.idxOf k = p := Option.some.inj hp
                    have hmem : k ∈ e.axesMap := List.contains_iff_mem.mp hcon
                    have hlt : e.axesMap.idxOf k < e.axesMap.length := List.idxOf_lt_length_of_mem hmem
                    have hg : e.axesMap[e.axesMap.idxOf k] = k := List.getElem_idxOf hlt
                    subst hpe
                    simp [eVLabels, hlt, hg, hk']
                  · cases hp
          rw [hA] at hr'
          exact ⟨e, ones, rfl, hc, rfl, hO, hr'⟩

/-- **dense form**: `to_full_tensor(*contract_einsum())` IS the dense tensor of the defining sum (same shape, same
entries), for a consistent network with consistent data, over any commutative semiring -/
theorem contractEinsum_dense {tn : TN α} (hinv : C08.Inv tn.net) (hcd : GateNet.isConsistentData tn = .ok true)
    {r : DT α} {am : List Nat} (hce : contractEinsum tn = .ok (r, am)) :
    toFullTensor r am = fullTensor tn.net tn.D := by
  have hwf : WF tn.net := (C08.C08_inv_iff_wf _).mp hinv
  obtain ⟨v, hvm⟩ := exists_mem_of_mem_dkeys hwf.virt
  have hv := dget_of_mem hwf.tnodup hvm
  simp only at hv
  obtain ⟨e, ones, _, hc, rfl, hO, hr⟩ := contractEinsum_inv hwf hcd hce hv
  have hdt := dataOK_dataOfTN hwf.tkey hcd
  have hvlen : v.shape.length = v.bids.length := hwf.tshape _ hvm
  exact toFullTensor_eq_fullTensor hv _ r _ (by rw [hc.amlen, hvlen])
    (fun j hj => einsumOK_shape hwf hv hc hdt hO hr j hj)
    (fun idx hidx => einsumOK_sound hwf hv hc hdt hO hr idx hidx)

end Einsum

end Qib.CircuitNet
