import Mathlib.Data.List.Nodup
import QibProofs.Lemmas.HamPauli
/-!
C15 helper lemmas: the upper-triangle scan never merges. `sitePS` is injective on valid one- or two-site supports
(`sitePS_inj`), inserting pairwise distinct strings with `add_pauli_string` is appending (`foldl_add_eq_append`), and
therefore `isingOpAB` / `heisOp` are literally the lists of inserted terms (`isingOpAB_eq_terms`, `heisOp_eq_terms`).
Helper lemmas only.
-/
namespace Qib.Ham
open Qib.Pauli

/-! ### injectivity of `sitePS` on one- and two-site supports -/

def mark (P : PS) (k : ℕ) : Bool := P.z.getD k false || P.x.getD k false

theorem Letter.bits_or (c : Letter) : (c.zbit || c.xbit) = true := by cases c <;> rfl

theorem Letter.eq_of_bits {c c' : Letter} (hz : c.zbit = c'.zbit) (hx : c.xbit = c'.xbit) : c = c' := by
  cases c <;> cases c' <;> simp_all [Letter.zbit, Letter.xbit]

theorem mark_one (L : ℕ) (c : Letter) (i k : ℕ) : mark (sitePS L c [i]) k = decide (i = k ∧ i < L) := by
  simp only [mark, sitePS, setBits, List.foldl_cons, List.foldl_nil, getD_set_replicate, ← Bool.and_or_distrib_left,
    c.bits_or, Bool.and_true]

theorem mark_two (L : ℕ) (c : Letter) (i j k : ℕ) :
    mark (sitePS L c [i, j]) k = (decide (j = k ∧ j < L) || decide (i = k ∧ i < L)) := by
  simp only [mark, sitePS, setBits, List.foldl_cons, List.foldl_nil, getD_set_set_replicate, ← Bool.and_or_distrib_left,
    c.bits_or, Bool.and_true]

theorem zbit_one (L : ℕ) (c : Letter) (i : ℕ) (hi : i < L) :
    (sitePS L c [i]).z.getD i false = c.zbit ∧ (sitePS L c [i]).x.getD i false = c.xbit := by
  simp only [sitePS, setBits, List.foldl_cons, List.foldl_nil, getD_set_replicate]
  simp [hi]

theorem zbit_two (L : ℕ) (c : Letter) (i j : ℕ) (hi : i < L) :
    (sitePS L c [i, j]).z.getD i false = c.zbit ∧ (sitePS L c [i, j]).x.getD i false = c.xbit := by
  simp only [sitePS, setBits, List.foldl_cons, List.foldl_nil, getD_set_set_replicate]
  simp [hi]

/-- valid supports: one site, or two sites in increasing order, inside the register -/
def ValidSites (L : ℕ) (s : List ℕ) : Prop := (∃ i, i < L ∧ s = [i]) ∨ (∃ i j, i < j ∧ j < L ∧ s = [i, j])

theorem sitePS_inj (L : ℕ) (c c' : Letter) (s s' : List ℕ) (hs : ValidSites L s) (hs' : ValidSites L s')
    (h : sitePS L c s = sitePS L c' s') : c = c' ∧ s = s' := by
  have hm : ∀ k, mark (sitePS L c s) k = mark (sitePS L c' s') k := fun k => by rw [h]
  rcases hs with ⟨i, hi, rfl⟩ | ⟨i, j, hij, hj, rfl⟩ <;> rcases hs' with ⟨i', hi', rfl⟩ | ⟨i', j', hij', hj', rfl⟩
  · have h1 := hm i
    simp only [mark_one, hi, and_true, decide_true, true_eq_decide_iff] at h1
    have := h1.1; subst this
    have hz := (zbit_one L c i' hi).1; have hx := (zbit_one L c i' hi).2
    rw [h] at hz hx
    exact ⟨Letter.eq_of_bits ((zbit_one L c' i' hi).1.symm.trans hz).symm ((zbit_one L c' i' hi).2.symm.trans hx).symm, rfl⟩
  · exfalso
    have h1 := hm i'; have h2 := hm j'
    simp only [mark_one, mark_two, hi, and_true] at h1 h2
    have hi'L : i' < L := by omega
    simp only [hj', hi'L, and_true, decide_true, Bool.true_or, Bool.or_true, decide_eq_true_eq] at h1 h2
    omega
  · exfalso
    have h1 := hm i; have h2 := hm j
    simp only [mark_one, mark_two, hi', and_true] at h1 h2
    have hiL : i < L := by omega
    simp only [hj, hiL, and_true, decide_true, Bool.true_or, Bool.or_true, true_eq_decide_iff] at h1 h2
    omega
  · have hiL : i < L := by omega
    have hi'L : i' < L := by omega
    have h1 := hm i; have h2 := hm j; have h3 := hm i'; have h4 := hm j'
    simp only [mark_two, hiL, hj, hi'L, hj', and_true, decide_true, Bool.true_or, Bool.or_true,
      Bool.or_eq_true, decide_eq_true_eq, eq_comm (a := true)] at h1 h2 h3 h4
    have e1 : i = i' := by omega
    have e2 : j = j' := by omega
    subst e1 e2
    have hz := (zbit_two L c i j hiL).1; have hx := (zbit_two L c i j hiL).2
    rw [h] at hz hx
    exact ⟨Letter.eq_of_bits ((zbit_two L c' i j hiL).1.symm.trans hz).symm ((zbit_two L c' i j hiL).2.symm.trans hx).symm, rfl⟩

/-! ### insertion of pairwise distinct strings is appending -/

namespace PauliOpAux
variable {α : Type} [Add α]

theorem add_of_not_mem (op : PauliOp α) (P : PS) (w : α) (h : P ∉ op.map Prod.fst) :
    PauliOp.add op P w = op ++ [(P, w)] := by
  induction op with
  | nil => rfl
  | cons e rest ih =>
    obtain ⟨Q, v⟩ := e
    simp only [List.map_cons, List.mem_cons, not_or] at h
    have hne : ¬ Q = P := fun e => h.1 e.symm
    simp only [PauliOp.add, if_neg hne, ih h.2, List.cons_append]

theorem foldl_add_eq_append (l op : PauliOp α) (h : ((op ++ l).map Prod.fst).Nodup) :
    l.foldl (fun o e => PauliOp.add o e.1 e.2) op = op ++ l := by
  induction l generalizing op with
  | nil => simp
  | cons e l ih =>
    have hnot : e.1 ∉ op.map Prod.fst := by
      rw [List.map_append, List.nodup_append] at h
      intro hm
      exact h.2.2 _ hm _ (by simp) rfl
    rw [List.foldl_cons, add_of_not_mem op e.1 e.2 hnot, ih]
    · simp
    · simpa using h

end PauliOpAux

/-! ### the scan as a fold over an explicit list of entries -/

variable {α : Type} [Add α]

/-- the neighbours `j > i` visited in row `i` -/
def rowJs (L : ℕ) (adj : ℕ → ℕ → ℤ) (i : ℕ) : List ℕ :=
  (List.range' (i + 1) (L - (i + 1))).filter fun j => !(adj i j == 0)

theorem mem_rowJs (L : ℕ) (adj : ℕ → ℕ → ℤ) (i j : ℕ) (hi : i < L) : j ∈ rowJs L adj i ↔ i < j ∧ j < L ∧ adj i j ≠ 0 := by
  simp only [rowJs, List.mem_filter, List.mem_range'_1, Bool.not_eq_true', beq_eq_false_iff_ne, ne_eq]
  constructor
  · rintro ⟨⟨h1, h2⟩, h3⟩; exact ⟨by omega, by omega, h3⟩
  · rintro ⟨h1, h2, h3⟩; exact ⟨⟨by omega, by omega⟩, h3⟩

theorem rowJs_nodup (L : ℕ) (adj : ℕ → ℕ → ℤ) (i : ℕ) : (rowJs L adj i).Nodup :=
  List.Nodup.filter _ (List.nodup_range' (step := 1))

omit [Add α] in
theorem foldl_cond (c : ℕ → Bool) (F : PauliOp α → ℕ → PauliOp α) (l : List ℕ) (op : PauliOp α) :
    l.foldl (fun o j => if c j then o else F o j) op = (l.filter fun j => !c j).foldl F op := by
  induction l generalizing op with
  | nil => rfl
  | cons j l ih =>
    by_cases h : c j = true
    · simp [List.foldl_cons, h, ih]
    · have h' : c j = false := by simpa using h
      simp [List.foldl_cons, h', ih]

theorem edgeRow_eq (L : ℕ) (adj : ℕ → ℕ → ℤ) (A : Letter) (J : α) (i : ℕ) (op : PauliOp α) :
    edgeRow L adj A J i op =
      ((rowJs L adj i).map fun j => (sitePS L A [i, j], J)).foldl (fun o e => PauliOp.add o e.1 e.2) op := by
  unfold edgeRow rowJs
  rw [foldl_cond (fun j => adj i j == 0) (fun o j => PauliOp.add o (sitePS L A [i, j]) J), List.foldl_map]


/-- terms of row `i` of the Ising scan, in the order of insertion -/
def isingRow (L : ℕ) (adj : ℕ → ℕ → ℤ) (J h g : α) (A B : Letter) (i : ℕ) : PauliOp α :=
  ((rowJs L adj i).map fun j => (sitePS L A [i, j], J)) ++ [(sitePS L A [i], h), (sitePS L B [i], g)]

/-- all terms of `IsingHamiltonian.as_pauli_operator` in the order of insertion -/
def isingTerms (L : ℕ) (adj : ℕ → ℕ → ℤ) (J h g : α) (A B : Letter) : PauliOp α :=
  (List.range L).flatMap (isingRow L adj J h g A B)

def heisRow (L : ℕ) (adj : ℕ → ℕ → ℤ) (A : Letter) (J h : α) (i : ℕ) : PauliOp α :=
  ((rowJs L adj i).map fun j => (sitePS L A [i, j], J)) ++ [(sitePS L A [i], h)]

/-- all terms of `HeisenbergHamiltonian.as_pauli_operator` in the order of insertion -/
def heisTerms (L : ℕ) (adj : ℕ → ℕ → ℤ) (J h : Letter → α) : PauliOp α :=
  [Letter.X, Letter.Y, Letter.Z].flatMap fun A => (List.range L).flatMap (heisRow L adj A (J A) (h A))

theorem isingOpAB_eq_fold (L : ℕ) (adj : ℕ → ℕ → ℤ) (J h g : α) (A B : Letter) :
    isingOpAB L adj J h g A B = (isingTerms L adj J h g A B).foldl (fun o e => PauliOp.add o e.1 e.2) [] := by
  unfold isingOpAB isingTerms
  rw [List.foldl_flatMap]
  congr 1
  funext op i
  simp only [isingStep, edgeRow_eq, isingRow, List.foldl_append, List.foldl_cons, List.foldl_nil]

theorem heisOp_eq_fold (L : ℕ) (adj : ℕ → ℕ → ℤ) (J h : Letter → α) :
    heisOp L adj J h = (heisTerms L adj J h).foldl (fun o e => PauliOp.add o e.1 e.2) [] := by
  unfold heisOp heisTerms
  rw [List.foldl_flatMap]
  congr 1
  funext op A
  unfold heisPass
  rw [List.foldl_flatMap]
  congr 1
  funext op i
  simp only [heisStep, edgeRow_eq, heisRow, List.foldl_append, List.foldl_cons, List.foldl_nil]

/-! ### the inserted strings are pairwise distinct -/

/-- abstract keys (letter, support) of a row -/
def rowKeys (L : ℕ) (adj : ℕ → ℕ → ℤ) (singles : List Letter) (A : Letter) (i : ℕ) : List (Letter × List ℕ) :=
  ((rowJs L adj i).map fun j => (A, [i, j])) ++ singles.map fun B => (B, [i])

theorem rowKeys_valid (L : ℕ) (adj : ℕ → ℕ → ℤ) (singles : List Letter) (A : Letter) (i : ℕ) (hi : i < L)
    (k : Letter × List ℕ) (hk : k ∈ rowKeys L adj singles A i) :
    ValidSites L k.2 ∧ k.2.head? = some i ∧ (k.2.length = 2 → k.1 = A) ∧ (k.2.length = 1 → k.1 ∈ singles) := by
  simp only [rowKeys, List.mem_append, List.mem_map] at hk
  rcases hk with ⟨j, hj, rfl⟩ | ⟨B, hB, rfl⟩
  · have := (mem_rowJs L adj i j hi).mp hj
    exact ⟨Or.inr ⟨i, j, this.1, this.2.1, rfl⟩, rfl, fun _ => rfl, fun h => by simp at h⟩
  · exact ⟨Or.inl ⟨i, hi, rfl⟩, rfl, fun h => by simp at h, fun _ => hB⟩

theorem rowKeys_nodup (L : ℕ) (adj : ℕ → ℕ → ℤ) (singles : List Letter) (hs : singles.Nodup) (A : Letter) (i : ℕ) :
    (rowKeys L adj singles A i).Nodup := by
  unfold rowKeys
  rw [List.nodup_append]
  refine ⟨?_, ?_, ?_⟩
  · exact (rowJs_nodup L adj i).map (fun a b h => by simpa using h)
  · exact hs.map (fun a b h => by simpa using h)
  · intro a ha b hb
    simp only [List.mem_map] at ha hb
    obtain ⟨j, _, rfl⟩ := ha
    obtain ⟨B, _, rfl⟩ := hb
    simp

theorem keys_nodup (L : ℕ) (adj : ℕ → ℕ → ℤ) (singles : List Letter) (hs : singles.Nodup) (A : Letter) :
    ((List.range L).flatMap (rowKeys L adj singles A)).Nodup := by
  rw [List.nodup_flatMap]
  refine ⟨fun i _ => rowKeys_nodup L adj singles hs A i, ?_⟩
  refine List.Pairwise.imp_of_mem ?_ List.nodup_range
  intro i i' hi hi' hne
  simp only [Function.onFun]
  intro k hk hk'
  have h1 := (rowKeys_valid L adj singles A i (List.mem_range.mp hi) k hk).2.1
  have h2 := (rowKeys_valid L adj singles A i' (List.mem_range.mp hi') k hk').2.1
  rw [h1] at h2
  exact hne (by simpa using h2)


theorem keys_valid (L : ℕ) (adj : ℕ → ℕ → ℤ) (singles : List Letter) (A : Letter) (k : Letter × List ℕ)
    (hk : k ∈ (List.range L).flatMap (rowKeys L adj singles A)) : ValidSites L k.2 ∧ (k.1 = A ∨ k.1 ∈ singles) := by
  simp only [List.mem_flatMap, List.mem_range] at hk
  obtain ⟨i, hi, hk⟩ := hk
  have := rowKeys_valid L adj singles A i hi k hk
  refine ⟨this.1, ?_⟩
  rcases this.1 with ⟨j, _, e⟩ | ⟨a, b, _, _, e⟩
  · right; exact this.2.2.2 (by rw [e]; rfl)
  · left; exact this.2.2.1 (by rw [e]; rfl)

theorem strings_nodup_of_keys (L : ℕ) (keys : List (Letter × List ℕ)) (hn : keys.Nodup)
    (hv : ∀ k ∈ keys, ValidSites L k.2) : (keys.map fun k => sitePS L k.1 k.2).Nodup := by
  apply List.Nodup.map_on _ hn
  intro k hk k' hk' h
  obtain ⟨e1, e2⟩ := sitePS_inj L k.1 k'.1 k.2 k'.2 (hv k hk) (hv k' hk') h
  exact Prod.ext e1 e2

omit [Add α] in
theorem isingTerms_keys (L : ℕ) (adj : ℕ → ℕ → ℤ) (J h g : α) (A B : Letter) :
    (isingTerms L adj J h g A B).map Prod.fst =
      ((List.range L).flatMap (rowKeys L adj [A, B] A)).map fun k => sitePS L k.1 k.2 := by
  simp only [isingTerms, isingRow, rowKeys, List.map_flatMap, List.map_append, List.map_map, List.map_cons, List.map_nil]
  rfl

/-- the Ising scan never merges: the operator is the list of inserted terms -/
theorem isingOpAB_eq_terms (L : ℕ) (adj : ℕ → ℕ → ℤ) (J h g : α) (A B : Letter) (hAB : A ≠ B) :
    isingOpAB L adj J h g A B = isingTerms L adj J h g A B := by
  rw [isingOpAB_eq_fold, PauliOpAux.foldl_add_eq_append]
  · simp
  · rw [List.nil_append, isingTerms_keys]
    apply strings_nodup_of_keys L _ (keys_nodup L adj [A, B] (by simp [hAB]) A)
    intro k hk
    exact (keys_valid L adj [A, B] A k hk).1

omit [Add α] in
theorem heisTerms_keys (L : ℕ) (adj : ℕ → ℕ → ℤ) (J h : Letter → α) :
    (heisTerms L adj J h).map Prod.fst =
      ([Letter.X, Letter.Y, Letter.Z].flatMap fun A => (List.range L).flatMap (rowKeys L adj [A] A)).map
        fun k => sitePS L k.1 k.2 := by
  simp only [heisTerms, heisRow, rowKeys, List.map_flatMap, List.map_append, List.map_map, List.map_cons, List.map_nil]
  rfl

/-- the Heisenberg scan never merges either -/
theorem heisOp_eq_terms (L : ℕ) (adj : ℕ → ℕ → ℤ) (J h : Letter → α) : heisOp L adj J h = heisTerms L adj J h := by
  rw [heisOp_eq_fold, PauliOpAux.foldl_add_eq_append]
  · simp
  · rw [List.nil_append, heisTerms_keys]
    apply strings_nodup_of_keys
    · rw [List.nodup_flatMap]
      refine ⟨fun A _ => keys_nodup L adj [A] (by simp) A, ?_⟩
      have hl : ∀ A k, k ∈ (List.range L).flatMap (rowKeys L adj [A] A) → k.1 = A := by
        intro A k hk
        rcases (keys_valid L adj [A] A k hk).2 with h | h
        · exact h
        · simpa using h
      have hd : ∀ A B : Letter, A ≠ B → List.Disjoint ((List.range L).flatMap (rowKeys L adj [A] A))
          ((List.range L).flatMap (rowKeys L adj [B] B)) := by
        intro A B hne k hk hk'
        exact hne ((hl A k hk).symm.trans (hl B k hk'))
      simp only [List.pairwise_cons, List.mem_cons, List.not_mem_nil, or_false, forall_eq_or_imp, forall_eq,
        List.Pairwise.nil, and_true, Function.onFun]
      exact ⟨⟨hd _ _ (by decide), hd _ _ (by decide)⟩, hd _ _ (by decide), fun _ h => h.elim⟩
    · intro k hk
      simp only [List.mem_flatMap] at hk
      obtain ⟨A, _, i, hi, hk⟩ := hk
      exact (rowKeys_valid L adj [A] A i (List.mem_range.mp hi) k hk).1

end Qib.Ham
