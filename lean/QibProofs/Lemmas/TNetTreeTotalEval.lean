import QibProofs.Lemmas.TNetTreeTotalPrep
/-!
Helper lemmas for C07 totality, part 5: the root of the tree built from a scaffold with at least two leaves over all real
tensors is ready for the axes-map computation (`rootReady_node`), pairwise evaluation of a certified tree never refuses
(`treeEval_total`), and the whole pipeline `buildContractionTree` → `contractTreePrep` → `treeEval` returns
(`pipeline_total`), with the value of the existing soundness theorems (`pipeline_complete`) (no property statements).
-/
namespace Qib.TNet

/-- every open bond (every bond of the virtual tensor) refers to at least one real tensor – otherwise `contract_tree`
refuses with "cannot track open axis" -/
def openTouch (net : Net) : Bool :=
  match dget net.tensors (-1) with
  | none => true
  | some v => v.bids.all (fun bid => match dget net.bonds bid with
      | some B => B.tids.any (fun t => t != -1)
      | none => false)

theorem openTouch_legs {net : Net} (hwf : WF net) {v : STensor} (hv : dget net.tensors (-1) = some v)
    (h : openTouch net = true) : ∀ bid ∈ v.bids, ∃ ta ∈ bondLegs net bid, ta.1 ≠ -1 := by
  intro bid hb
  unfold openTouch at h
  rw [hv] at h
  simp only [List.all_eq_true] at h
  have := h bid hb
  cases hB : dget net.bonds bid with
  | none => rw [hB] at this; cases this
  | some B =>
    rw [hB] at this
    simp only [List.any_eq_true, bne_iff_ne, ne_eq] at this
    obtain ⟨t, ht, hne⟩ := this
    obtain ⟨axes, hs, he⟩ := bondLegs_spec hwf (mem_of_dget_eq_some _ hB)
    obtain ⟨i, hi, rfl⟩ := List.getElem_of_mem ht
    have hi' : i < axes.length := by rw [hs.1]; exact hi
    refine ⟨(B.tids[i], axes[i]), ?_, hne⟩
    rw [he, List.mem_iff_getElem?]
    exact ⟨i, by rw [List.getElem?_zip_eq_some, List.getElem?_eq_getElem hi, List.getElem?_eq_getElem hi']; exact ⟨rfl, rfl⟩⟩

theorem openTouch_false_legs {net : Net} (hwf : WF net) {v : STensor} (hv : dget net.tensors (-1) = some v)
    (h : openTouch net = false) : ∃ bid ∈ v.bids, ∀ ta ∈ bondLegs net bid, ta.1 = -1 := by
  unfold openTouch at h
  rw [hv] at h
  simp only [List.all_eq_false] at h
  obtain ⟨bid, hb, hn⟩ := h
  refine ⟨bid, hb, ?_⟩
  obtain ⟨B, hB⟩ := hwf.toWF0.bond_of_leg hv hb
  rw [hB] at hn
  simp only [Bool.not_eq_true, List.any_eq_false, bne_iff_ne, ne_eq, Decidable.not_not] at hn
  obtain ⟨axes, hs, he⟩ := bondLegs_spec hwf (mem_of_dget_eq_some _ hB)
  intro ta hta
  rw [he] at hta
  exact hn _ (List.of_mem_zip hta).1

/-- every id of a real tensor is a leaf of a tree over all real tensors -/
theorem mem_leaves_of_real {net : Net} (hwf : WF net) {tree : Tree}
    (hleaves : isort (treeLeaves tree) = (isort (dkeys net.tensors)).erase (-1)) {t : Int} (hne : t ≠ -1)
    (hk : t ∈ dkeys net.tensors) : t ∈ treeLeaves tree := by
  rw [← mem_isort, hleaves]
  have hns : (isort (dkeys net.tensors)).Nodup := (isort_perm _).nodup_iff.mpr hwf.tnodup
  rw [hns.mem_erase_iff]
  exact ⟨hne, mem_isort.mpr hk⟩

/-- **the root of a built tree with at least two leaves over all real tensors is ready** for the axes-map computation:
real legs of open bonds are still open at the root (an open bond is never contracted), and every bond left on a root leg
is open (a bond all of whose legs are real has been contracted at the latest at the root) -/
theorem rootReady_node {net : Net} (hwf : WF net) {v : STensor} (hv : dget net.tensors (-1) = some v)
    {i0 : NodeInfo} {tL tR : Tree} (hc : NodeCert net i0 tL.info tR.info)
    (hokL : ∀ x ∈ treeOKList net tL, x = true) (hokR : ∀ x ∈ treeOKList net tR, x = true)
    (hnd : (treeLeaves (Tree.node i0 tL tR)).Nodup)
    (hleaves : isort (treeLeaves (Tree.node i0 tL tR)) = (isort (dkeys net.tensors)).erase (-1))
    (htouch : ∀ bid ∈ v.bids, ∃ ta ∈ bondLegs net bid, ta.1 ≠ -1) : RootReady net v i0 := by
  have hok : ∀ x ∈ treeOKList net (Tree.node i0 tL tR), x = true := by
    intro x hx
    simp only [treeOKList, List.mem_cons, List.mem_append] at hx
    rcases hx with rfl | hx | hx
    · exact nodeOK_of_cert hc
    · exact hokL x hx
    · exact hokR x hx
  have hI := treeInv hwf _ hok hnd
  have hnd' := hnd
  simp only [treeLeaves] at hnd'
  have hndl := (List.nodup_append.mp hnd').1
  have hndr := (List.nodup_append.mp hnd').2.1
  have IL := treeInv hwf tL hokL hndl
  have IR := treeInv hwf tR hokR hndr
  -- an open bond is not contracted inside the tree
  have hopenNot : ∀ bid ∈ v.bids, bid ∉ treeElims net (Tree.node i0 tL tR) := by
    intro bid hb he
    obtain ⟨j, hj⟩ := List.mem_iff_getElem?.mp hb
    have := (hI.i3 bid he).2 (-1, j) ((mem_bondLegs_iff hwf).mpr ⟨v, hv, hj⟩)
    exact (hI.i5 _ this).1 rfl
  refine ⟨hc.iN, hc.legB_inj, ?_, ?_, htouch⟩
  · intro bid hb ta hta hne
    obtain ⟨t, a⟩ := ta
    obtain ⟨T, hT, hbT⟩ := (mem_bondLegs_iff hwf).mp hta
    have hk : t ∈ dkeys net.tensors := (dget_isSome_iff _ _).mp (by rw [hT]; rfl)
    have htl := mem_leaves_of_real hwf hleaves hne hk
    have hlb : legBond net (t, a) = some bid := legBond_eq_some_iff.mpr ⟨T, hT, hbT⟩
    exact (hI.i2 t htl a bid hlb).mpr (hopenNot bid hb)
  · intro k hk
    obtain ⟨oa, hm, hb⟩ := hc.iN.leg hk
    have hoa : oa ∈ i0.openaxes := (List.of_mem_zip hm).1
    obtain ⟨t, a⟩ := oa
    set b := legB net i0 k with hbdef
    have htl : t ∈ treeLeaves (Tree.node i0 tL tR) := hI.i1 _ hoa
    have hnotE : b ∉ treeElims net (Tree.node i0 tL tR) := (hI.i2 t htl a b hb).mp hoa
    have hleg0 : (t, a) ∈ bondLegs net b := (mem_bondLegs_iff_legBond hwf).mpr hb
    by_contra hnv
    -- all legs of `b` are real, hence on leaves, hence still open at the children
    have hreal : ∀ ta ∈ bondLegs net b, ta ∈ tL.info.openaxes ∨ ta ∈ tR.info.openaxes := by
      intro ta hta
      obtain ⟨t', a'⟩ := ta
      obtain ⟨T', hT', hbT'⟩ := (mem_bondLegs_iff hwf).mp hta
      have hne : t' ≠ -1 := by
        rintro rfl
        rw [hv] at hT'; cases hT'
        exact hnv (List.mem_of_getElem? hbT')
      have hk' : t' ∈ dkeys net.tensors := (dget_isSome_iff _ _).mp (by rw [hT']; rfl)
      have htl' := mem_leaves_of_real hwf hleaves hne hk'
      have hlb' : legBond net (t', a') = some b := legBond_eq_some_iff.mpr ⟨T', hT', hbT'⟩
      simp only [treeLeaves, List.mem_append] at htl'
      simp only [treeElims, List.mem_append, not_or] at hnotE
      rcases htl' with h | h
      · exact Or.inl ((IL.i2 t' h a' b hlb').mpr hnotE.2.1)
      · exact Or.inr ((IR.i2 t' h a' b hlb').mpr hnotE.2.2)
    have hcon : contractedAt net tL.info tR.info b = true :=
      contractedAt_iff.mpr ⟨fun h => (by rw [h] at hleg0; cases hleg0), hreal⟩
    have hpair : ∃ l, (b, l) ∈ pairsN net i0 tL.info tR.info := by
      rcases hreal _ hleg0 with h | h
      · obtain ⟨b', l, hb', hp⟩ := hc.pair_of_openL h
        rw [hb] at hb'; cases hb'; exact ⟨l, hp⟩
      · obtain ⟨b', l, hb', hp⟩ := hc.pair_of_openR h
        rw [hb] at hb'; cases hb'; exact ⟨l, hp⟩
    obtain ⟨l, hp⟩ := hpair
    apply hnotE
    simp only [treeElims, List.mem_append]
    exact Or.inl (hc.elim_of_contracted hp hcon)

end Qib.TNet

namespace Qib.TNet
variable {α : Type} [CommSemiring α]

omit [CommSemiring α] in
/-- the shape of a leaf produced by the builder is the shape of its tensor -/
theorem nodeShape_of_leafId {net : Net} (hwf : WF net) {i : NodeInfo} (hi : InfoCert net i) {T : STensor}
    (hT : dget net.tensors i.tid = some T) (hlen : i.idxout.length = T.shape.length)
    (hopen : i.openaxes = (List.range T.shape.length).map (fun a => (i.tid, a)))
    (htrack : i.trackaxes = List.range T.shape.length) : nodeShape net i = T.shape := by
  unfold nodeShape
  apply List.ext_getElem
  · simp [hlen]
  · intro k h1 h2
    obtain ⟨hkb, hlb⟩ := legB_of_leafId hwf hi hT hlen hopen htrack h2
    simp only [List.getElem_map, List.getElem_range, hlb]
    have := hwf.toWF0.shape_eq_bondDim (mem_of_dget_eq_some _ hT) (List.getElem?_eq_getElem hkb)
    simp only at this
    rw [List.getElem?_eq_getElem h2] at this
    exact (Option.some.inj this).symm

/-- **the pairwise einsum of a certified node returns** on operands of the shapes of its children: the label lists have
the operands' ranks, a label has one dimension (that of its bond), the output labels are distinct and occur in an
operand -/
theorem node_einsum_total {net : Net} {n cL cR : NodeInfo} (hc : NodeCert net n cL cR) {tL tR : DT α}
    (hsL : tL.shape = nodeShape net cL) (hsR : tR.shape = nodeShape net cR) :
    ∃ r, einsumEval [(tL, n.idxL), (tR, n.idxR)] n.idxout = .ok r := by
  set args : List (DT α × List Nat) := [(tL, n.idxL), (tR, n.idxR)] with hargs
  set pairs := pairsN net n cL cR with hpairs
  have hdims : einsumDims args = n.idxL.zip tL.shape ++ n.idxR.zip tR.shape := by
    simp [einsumDims, hargs]
  have hlab : (einsumDims args).map (·.1) = n.idxL ++ n.idxR := by
    rw [hdims, List.map_append, List.map_fst_zip, List.map_fst_zip]
    · rw [hsR, hc.lenR]; simp [nodeShape]
    · rw [hsL, hc.lenL]; simp [nodeShape]
  -- the dimension of a label is the dimension of its bond
  have hDIM : ∀ l d, (l, d) ∈ einsumDims args → ∃ b, (b, l) ∈ pairs ∧ d = bondDim net b := by
    intro l d hld
    rw [hdims, List.mem_append] at hld
    rcases hld with h | h
    · obtain ⟨k, hk⟩ := List.mem_iff_getElem?.mp h
      rw [List.getElem?_zip_eq_some] at hk
      have hkl : k < n.idxL.length := by
        by_contra hcon; rw [List.getElem?_eq_none (by omega)] at hk; cases hk.1
      have hkc : k < cL.idxout.length := by rw [← hc.lenL]; exact hkl
      have hp := hc.pairL hkc
      rw [List.getElem?_eq_getElem hkl] at hk
      have hl : n.idxL[k] = l := Option.some.inj hk.1
      rw [hl] at hp
      have := hk.2
      rw [hsL, nodeShape_getElem? net cL k hkc] at this
      exact ⟨_, hp, (Option.some.inj this).symm⟩
    · obtain ⟨k, hk⟩ := List.mem_iff_getElem?.mp h
      rw [List.getElem?_zip_eq_some] at hk
      have hkl : k < n.idxR.length := by
        by_contra hcon; rw [List.getElem?_eq_none (by omega)] at hk; cases hk.1
      have hkc : k < cR.idxout.length := by rw [← hc.lenR]; exact hkl
      have hp := hc.pairR hkc
      rw [List.getElem?_eq_getElem hkl] at hk
      have hl : n.idxR[k] = l := Option.some.inj hk.1
      rw [hl] at hp
      have := hk.2
      rw [hsR, nodeShape_getElem? net cR k hkc] at this
      exact ⟨_, hp, (Option.some.inj this).symm⟩
  refine ⟨_, einsumEval_ok_of ?_ ?_ hc.nodup ?_⟩
  · intro a ha
    simp only [hargs, List.mem_cons, List.not_mem_nil, or_false] at ha
    rcases ha with rfl | rfl
    · simp only; rw [hsL, hc.lenL]; simp [nodeShape]
    · simp only; rw [hsR, hc.lenR]; simp [nodeShape]
  · intro p hp q hq hpq
    obtain ⟨b, hb, hd⟩ := hDIM p.1 p.2 hp
    obtain ⟨b', hb', hd'⟩ := hDIM q.1 q.2 hq
    have : b = b' := (hc.bij _ hb _ hb').mpr hpq
    rw [hd, hd', this]
  · intro l hl
    rw [hlab]
    obtain ⟨p, hp, rfl⟩ := hc.outIn l hl
    exact hc.mem_labels.mpr ⟨p.1, hp⟩

/-- **pairwise evaluation of a certified tree returns** when the dictionary serves every leaf with a tensor of the
leaf's shape; the value has the shape of the root -/
theorem treeEval_total {net : Net} (dict : Int → Option (DT α)) : ∀ t : Tree, (∀ x ∈ treeOKList net t, x = true) →
    (∀ i ∈ leafInfos t, ∃ d, dict i.tid = some d ∧ d.shape = nodeShape net i) →
    ∃ r, treeEval dict t = .ok r ∧ r.shape = nodeShape net t.info := by
  intro t
  induction t with
  | leaf i =>
    intro _ hdata
    obtain ⟨d, hd, hs⟩ := hdata i (by simp [leafInfos])
    exact ⟨d, by simp only [treeEval, hd], hs⟩
  | node n l r ihl ihr =>
    intro hok hdata
    simp only [treeOKList, List.mem_cons, List.mem_append] at hok
    have hc : NodeCert net n l.info r.info := nodeOK_cert (hok (nodeOK net n l.info r.info) (Or.inl rfl))
    obtain ⟨tL, hL, hsL⟩ := ihl (fun x hx => hok x (Or.inr (Or.inl hx))) (fun i hi => hdata i (by simp [leafInfos, hi]))
    obtain ⟨tR, hR, hsR⟩ := ihr (fun x hx => hok x (Or.inr (Or.inr hx))) (fun i hi => hdata i (by simp [leafInfos, hi]))
    obtain ⟨res, hres⟩ := node_einsum_total hc hsL hsR
    refine ⟨res, by simp only [treeEval, hL, hR, bind, Except.bind, hres], ?_⟩
    exact (node_step hc hsL hsR hres).1

end Qib.TNet

namespace Qib.TNet
variable {α : Type} [CommSemiring α]

/-- the real tensor ids are exactly the leaves of a full scaffold -/
theorem scaffoldFull_leaves {net : Net} (hwf : WF net) {s : Scaffold} (hfull : ScaffoldFull net s) :
    ∀ t ∈ scaffoldLeaves s, t ≠ -1 ∧ t ∈ dkeys net.tensors := by
  intro t ht
  have hns : (isort (dkeys net.tensors)).Nodup := (isort_perm _).nodup_iff.mpr hwf.tnodup
  have : t ∈ (isort (dkeys net.tensors)).erase (-1) := by rw [← hfull.2]; exact mem_isort.mpr ht
  rw [hns.mem_erase_iff] at this
  exact ⟨this.1, mem_isort.mp this.2⟩

/-- **the whole tree pipeline returns** (`build_contraction_tree`, the axes map and root permutation of `contract_tree`,
`perform_tree_contraction`): consistent network, every open bond touching a real tensor, a scaffold with at least two
leaves and no malformed entry over all real tensors, a dictionary serving every real tensor with a tensor of its shape.
The evaluated tree is certified. -/
theorem pipeline_total {net : Net} (hwf : WF net) (htouch : openTouch net = true) {sl sr : Scaffold}
    (hnb : noBad (.node sl sr) = true) (hfull : ScaffoldFull net (.node sl sr)) (dict : Int → Option (DT α))
    (hdict : ∀ tid T, tid ≠ -1 → dget net.tensors tid = some T → ∃ d, dict tid = some d ∧ d.shape = T.shape) :
    ∃ tree0 t perm am r, buildContractionTree net (.node sl sr) = .ok tree0 ∧
      contractTreePrep net tree0 = .ok (t, perm, am) ∧ treeEval dict t = .ok r ∧
      (∀ x ∈ treeOKList net t, x = true) ∧ rootOK net t am = true ∧ RootInj net t.info ∧
      (∀ i ∈ leafInfos t, LeafId net i ∧ i.tid ≠ -1 ∧ InfoCert net i) := by
  obtain ⟨v, hvm⟩ := exists_mem_of_mem_dkeys hwf.virt
  have hv := dget_of_mem hwf.tnodup hvm
  simp only at hv
  obtain ⟨tree0, h0⟩ := buildTree_total hwf (.node sl sr) (maxKey (dkeys net.tensors) + 1) hnb hfull.1
    (scaffoldFull_leaves hwf hfull)
  have hok0 := (buildTree_ok hwf _ _ tree0 h0).1
  have hlv := buildTree_leaves _ _ tree0 h0
  obtain ⟨tL, tR, i0, k', hL, hR, rfl⟩ := buildTree_node_inv h0
  have hok0' := hok0
  simp only [treeOKList, List.mem_cons, List.mem_append] at hok0'
  have hc : NodeCert net i0 tL.info tR.info := nodeOK_cert (hok0' _ (Or.inl rfl))
  have hokL : ∀ x ∈ treeOKList net tL, x = true := fun x hx => hok0' x (Or.inr (Or.inl hx))
  have hokR : ∀ x ∈ treeOKList net tR, x = true := fun x hx => hok0' x (Or.inr (Or.inr hx))
  have hnd : (treeLeaves (Tree.node i0 tL tR)).Nodup := by rw [hlv]; exact hfull.1
  have hleaves : isort (treeLeaves (Tree.node i0 tL tR)) = (isort (dkeys net.tensors)).erase (-1) := by
    rw [hlv]; exact hfull.2
  have hready : RootReady net v (Tree.node i0 tL tR).info :=
    rootReady_node hwf hv hc hokL hokR hnd hleaves (openTouch_legs hwf hv htouch)
  obtain ⟨t, perm, am, hprep⟩ := prep_total_of hwf hv hready
  obtain ⟨hok, hroot⟩ := prep_cert hwf hv hc hokL hokR hprep hnd hleaves
  obtain ⟨i', rfl⟩ := contractTreePrep_node hprep
  have hleafs : ∀ i ∈ leafInfos (Tree.node i' tL tR), LeafId net i ∧ i.tid ≠ -1 ∧ InfoCert net i := by
    intro i hi
    have hlc := leafOK_cert (hok _ (leafOK_mem_treeOKList _ i hi))
    refine ⟨?_, hlc.ne, hlc.info⟩
    simp only [leafInfos, List.mem_append] at hi
    rcases hi with h | h
    · exact buildTree_leafId _ _ _ hL i h
    · exact buildTree_leafId _ _ _ hR i h
  obtain ⟨r, hr, _⟩ := treeEval_total (net := net) dict (Tree.node i' tL tR) hok (by
    intro i hi
    obtain ⟨⟨T, hT, hlen, hopen, htrack⟩, hne, hinfo⟩ := hleafs i hi
    obtain ⟨d, hd, hs⟩ := hdict i.tid T hne hT
    exact ⟨d, hd, by rw [hs, nodeShape_of_leafId hwf hinfo hT hlen hopen htrack]⟩)
  have hnc : NodeCert net i' tL.info tR.info := nodeOK_cert (hok _ (by simp [treeOKList]))
  exact ⟨_, _, perm, am, r, h0, hprep, hr, hok, hroot, hnc.legB_inj, hleafs⟩

/-- **the tree pipeline returns the dense defining sum**: on the domain of `pipeline_total`, with a dictionary carrying
the network's data, the three stages return and the expansion of the value along the axes map is `fullTensor` -/
theorem pipeline_complete {net : Net} (hwf : WF net) (htouch : openTouch net = true) {sl sr : Scaffold}
    (hnb : noBad (.node sl sr) = true) (hfull : ScaffoldFull net (.node sl sr)) (D : Option Int → List Nat → α)
    (dict : Int → Option (DT α))
    (hdict : ∀ tid T, tid ≠ -1 → dget net.tensors tid = some T →
      ∃ d, dict tid = some d ∧ d.shape = T.shape ∧ ∀ idx, d.get idx = D T.dataref idx) :
    ∃ tree0 t perm am r, buildContractionTree net (.node sl sr) = .ok tree0 ∧
      contractTreePrep net tree0 = .ok (t, perm, am) ∧ treeEval dict t = .ok r ∧
      toFullTensor r am = fullTensor net D := by
  obtain ⟨v, hvm⟩ := exists_mem_of_mem_dkeys hwf.virt
  have hv := dget_of_mem hwf.tnodup hvm
  simp only at hv
  have hvlen : v.shape.length = v.bids.length := hwf.tshape _ hvm
  obtain ⟨tree0, t, perm, am, r, h0, hprep, hr, hok, hroot, hinj, hleafs⟩ := pipeline_total hwf htouch hnb hfull dict
    (fun tid T hne hT => by obtain ⟨d, h1, h2, _⟩ := hdict tid T hne hT; exact ⟨d, h1, h2⟩)
  have hleaf : ∀ i ∈ leafInfos t, LeafDataOK net D dict i := by
    intro i hi
    obtain ⟨hid, hne, hinfo⟩ := hleafs i hi
    exact leafData_of_leafId hwf hinfo hid (fun T hT => hdict i.tid T hne hT)
  refine ⟨tree0, t, perm, am, r, h0, hprep, hr, ?_⟩
  exact toFullTensor_eq_fullTensor hv _ r _ (by rw [(rootOK_cert hv hroot).amlen, hvlen])
    (fun j hj => tree_shape hwf hv _ _ t am hok hroot hleaf hr j hj)
    (fun idx hidx => tree_sound hwf hv _ _ t am hok hroot hinj hleaf hr idx hidx)

end Qib.TNet
