import QibProofs.Lemmas.TNetBridgeRel
/-!
Helper lemmas for C07, part 4: declarative reading of the decidable tree certificates `infoOK`, `nodeOK`, `leafOK`
(no property statements).
-/
namespace Qib.TNet

/-- the bond carried by leg `k` of a node (0 when the leg is not tracked) -/
def legB (net : Net) (c : NodeInfo) (k : Nat) : Int := (nodeLegBond net c k).getD 0

/-- (bond, label) for every leg of the two children of a node -/
def pairsN (net : Net) (n cL cR : NodeInfo) : List (Int × Nat) :=
  (List.range cL.idxout.length).map (fun k => (legB net cL k, n.idxL[k]?.getD 0)) ++
  (List.range cR.idxout.length).map (fun k => (legB net cR k, n.idxR[k]?.getD 0))

/-- declarative reading of `infoOK` -/
structure InfoCert (net : Net) (c : NodeInfo) : Prop where
  len : c.trackaxes.length = c.openaxes.length
  nodup : c.openaxes.Nodup
  pairs : ∀ p ∈ c.openaxes.zip c.trackaxes, p.2 < c.idxout.length ∧ legBond net p.1 = some (legB net c p.2) ∧
    nodeLegBond net c p.2 = some (legB net c p.2)
  cover : ∀ k, k < c.idxout.length → k ∈ c.trackaxes

theorem infoOK_cert {net : Net} {c : NodeInfo} (h : infoOK net c = true) : InfoCert net c := by
  unfold infoOK at h
  simp only [Bool.and_eq_true, beq_iff_eq, nodupB_iff, List.all_eq_true, decide_eq_true_eq, List.mem_range] at h
  obtain ⟨⟨⟨h1, h2⟩, h3⟩, h4⟩ := h
  refine ⟨h1, h2, ?_, ?_⟩
  · intro p hp
    obtain ⟨⟨a, b⟩, c'⟩ := h3 p hp
    refine ⟨a, ?_⟩
    obtain ⟨bb, hbb⟩ := Option.isSome_iff_exists.mp b
    rw [hbb] at c' ⊢
    simp only [legB, c', Option.getD_some, and_self]
  · intro k hk
    have := h4 k hk
    exact List.contains_iff_mem.mp this

/-- every leg of a certified node is the track of an open axis lying on the leg's bond -/
theorem InfoCert.leg {net : Net} {c : NodeInfo} (h : InfoCert net c) {k : Nat} (hk : k < c.idxout.length) :
    ∃ oa, (oa, k) ∈ c.openaxes.zip c.trackaxes ∧ legBond net oa = some (legB net c k) := by
  obtain ⟨i, hi, hik⟩ := List.getElem_of_mem (h.cover k hk)
  have hi' : i < c.openaxes.length := by rw [← h.len]; exact hi
  have hm : (c.openaxes[i], k) ∈ c.openaxes.zip c.trackaxes := by
    rw [List.mem_iff_getElem?]
    exact ⟨i, by rw [List.getElem?_zip_eq_some, List.getElem?_eq_getElem hi', List.getElem?_eq_getElem hi, hik]; exact ⟨rfl, rfl⟩⟩
  exact ⟨_, hm, (h.pairs _ hm).2.1⟩

/-- every open axis of a certified node is tracked to a leg carrying its bond -/
theorem InfoCert.track {net : Net} {c : NodeInfo} (h : InfoCert net c) {oa : Int × Nat} (ho : oa ∈ c.openaxes) :
    ∃ k, k < c.idxout.length ∧ (oa, k) ∈ c.openaxes.zip c.trackaxes ∧ legBond net oa = some (legB net c k) := by
  obtain ⟨i, hi, hio⟩ := List.getElem_of_mem ho
  have hi' : i < c.trackaxes.length := by rw [h.len]; exact hi
  have hm : (oa, c.trackaxes[i]) ∈ c.openaxes.zip c.trackaxes := by
    rw [List.mem_iff_getElem?]
    exact ⟨i, by rw [List.getElem?_zip_eq_some, List.getElem?_eq_getElem hi', List.getElem?_eq_getElem hi, hio]; exact ⟨rfl, rfl⟩⟩
  exact ⟨_, (h.pairs _ hm).1, hm, (h.pairs _ hm).2.1⟩

/-- an open axis of a child stays open at the node: its bond is not contracted there -/
def keepAx (net : Net) (cL cR : NodeInfo) (ta : Int × Nat) : Bool :=
  match legBond net ta with
  | some b => !contractedAt net cL cR b
  | none => false

/-- declarative reading of `nodeOK` -/
structure NodeCert (net : Net) (n cL cR : NodeInfo) : Prop where
  iL : InfoCert net cL
  iR : InfoCert net cR
  iN : InfoCert net n
  disj : ∀ ta ∈ cL.openaxes, ta ∉ cR.openaxes
  lenL : n.idxL.length = cL.idxout.length
  lenR : n.idxR.length = cR.idxout.length
  bij : ∀ p ∈ pairsN net n cL cR, ∀ q ∈ pairsN net n cL cR, (p.1 = q.1 ↔ p.2 = q.2)
  nodup : n.idxout.Nodup
  outIn : ∀ l ∈ n.idxout, ∃ p ∈ pairsN net n cL cR, p.2 = l
  outIff : ∀ p ∈ pairsN net n cL cR, (p.2 ∈ n.idxout ↔ contractedAt net cL cR p.1 = false)
  opn : n.openaxes = (cL.openaxes ++ cR.openaxes).filter (keepAx net cL cR)
  track : ∀ p ∈ n.openaxes.zip n.trackaxes, ∃ b l, legBond net p.1 = some b ∧ (b, l) ∈ pairsN net n cL cR ∧
    n.idxout[p.2]? = some l

theorem legLabels_eq {net : Net} {n cL cR : NodeInfo} (hL : InfoCert net cL) (hR : InfoCert net cR)
    (lenL : n.idxL.length = cL.idxout.length) (lenR : n.idxR.length = cR.idxout.length) :
    legLabels net n cL cR = (pairsN net n cL cR).map (fun p => (some p.1, some p.2)) := by
  unfold legLabels pairsN
  rw [List.map_append, List.map_map, List.map_map]
  congr 1
  · apply List.map_congr_left
    intro k hk
    have hk' := List.mem_range.mp hk
    obtain ⟨oa, hm, hb⟩ := hL.leg hk'
    have h1 : nodeLegBond net cL k = some (legB net cL k) := (hL.pairs _ hm).2.2
    simp only [Function.comp, h1, List.getElem?_eq_getElem (show k < n.idxL.length by omega), Option.getD_some]
  · apply List.map_congr_left
    intro k hk
    have hk' := List.mem_range.mp hk
    obtain ⟨oa, hm, hb⟩ := hR.leg hk'
    have h1 : nodeLegBond net cR k = some (legB net cR k) := (hR.pairs _ hm).2.2
    simp only [Function.comp, h1, List.getElem?_eq_getElem (show k < n.idxR.length by omega), Option.getD_some]

theorem nodeOK_cert {net : Net} {n cL cR : NodeInfo} (h : nodeOK net n cL cR = true) : NodeCert net n cL cR := by
  unfold nodeOK at h
  simp only [Bool.and_eq_true] at h
  obtain ⟨⟨⟨⟨⟨⟨⟨⟨⟨⟨⟨h1, h2⟩, h3⟩, h4⟩, h5⟩, h6⟩, h7⟩, h8⟩, h9⟩, h10⟩, h11⟩, h12⟩ := h
  have iL := infoOK_cert h1
  have iR := infoOK_cert h2
  have iN := infoOK_cert h3
  have lenL : n.idxL.length = cL.idxout.length := by simpa using h5
  have lenR : n.idxR.length = cR.idxout.length := by simpa using h6
  have hleg := legLabels_eq iL iR lenL lenR
  rw [hleg] at h7 h9 h10 h12
  refine ⟨iL, iR, iN, ?_, lenL, lenR, ?_, (nodupB_iff _).mp h8, ?_, ?_, ?_, ?_⟩
  · intro ta hta hta'
    simp only [Bool.not_eq_true', List.any_eq_false] at h4
    exact h4 ta hta (List.contains_iff_mem.mpr hta')
  · intro p hp q hq
    rw [List.all_eq_true] at h7
    have := h7 _ (List.mem_map.mpr ⟨p, hp, rfl⟩)
    simp only [Bool.and_eq_true, List.all_eq_true] at this
    have := this.2 _ (List.mem_map.mpr ⟨q, hq, rfl⟩)
    by_cases ha : p.1 = q.1 <;> by_cases hb : p.2 = q.2 <;> simp_all
  · intro l hl
    rw [List.all_eq_true] at h9
    have := h9 l hl
    rw [List.any_eq_true] at this
    obtain ⟨x, hx, hxl⟩ := this
    obtain ⟨p, hp, rfl⟩ := List.mem_map.mp hx
    exact ⟨p, hp, by simpa using hxl⟩
  · intro p hp
    rw [List.all_eq_true] at h10
    have := h10 _ (List.mem_map.mpr ⟨p, hp, rfl⟩)
    simp only [beq_iff_eq] at this
    rw [← List.contains_iff_mem, this]
    simp
  · rw [eq_of_beq h11]
    apply List.filter_congr
    intro ta _
    unfold keepAx
    cases legBond net ta <;> rfl
  · intro p hp
    rw [List.all_eq_true] at h12
    have := h12 p hp
    split at this
    · rename_i q hq
      have hq1 := List.find?_some hq
      have hq2 := List.mem_of_find?_eq_some hq
      obtain ⟨q', hq', rfl⟩ := List.mem_map.mp hq2
      simp only at this hq1
      exact ⟨q'.1, q'.2, by simpa using (eq_of_beq hq1).symm, hq', by simpa using this⟩
    · cases this

/-- declarative reading of `leafOK` -/
structure LeafCert (net : Net) (i : NodeInfo) : Prop where
  T : ∃ T, dget net.tensors i.tid = some T ∧ i.openaxes = (List.range T.shape.length).map (fun a => (i.tid, a)) ∧
    i.idxout.length = T.shape.length
  ne : i.tid ≠ -1
  info : InfoCert net i
  tnodup : i.trackaxes.Nodup

theorem leafOK_cert {net : Net} {i : NodeInfo} (h : leafOK net i = true) : LeafCert net i := by
  unfold leafOK at h
  split at h
  · cases h
  · rename_i T hT
    simp only [Bool.and_eq_true, bne_iff_ne, ne_eq, beq_iff_eq, nodupB_iff] at h
    obtain ⟨⟨⟨⟨h1, h2⟩, h3⟩, h4⟩, h5⟩ := h
    exact ⟨⟨T, hT, h2, h3⟩, h1, infoOK_cert h4, h5⟩

/-! ### the legs of a bond in a consistent network -/

theorem bondLegs_spec {net : Net} (hwf : WF net) {b : Int} {B : SBond} (hB : (b, B) ∈ net.bonds) :
    ∃ axes, AxesSpec net b B axes ∧ bondLegs net b = B.tids.zip axes := by
  obtain ⟨axes, hs⟩ := hwf.toWF0.axesSpec_exists hB
  have hd : dget net.bonds b = some B := dget_of_mem hwf.bnodup hB
  have hg : getBondAxes net b = .ok axes := (getBondAxes_ok_iff net b axes).mpr ⟨B, hd, hwf.bkey _ hB, hs⟩
  refine ⟨axes, hs, ?_⟩
  simp [bondLegs, hd, hg]

theorem bondLegs_of_notMem {net : Net} {b : Int} (h : b ∉ dkeys net.bonds) : bondLegs net b = [] := by
  simp [bondLegs, dget_eq_none_of_notMem _ h]

theorem mem_bondLegs_iff {net : Net} (hwf : WF net) {b t : Int} {a : Nat} :
    (t, a) ∈ bondLegs net b ↔ ∃ T, dget net.tensors t = some T ∧ T.bids[a]? = some b := by
  constructor
  · intro h
    by_cases hk : b ∈ dkeys net.bonds
    · obtain ⟨B, hB⟩ := exists_mem_of_mem_dkeys hk
      obtain ⟨axes, hs, he⟩ := bondLegs_spec hwf hB
      rw [he] at h
      obtain ⟨i, hi1, hi2, hp, T, hT, hb, _⟩ := hs.entry h
      exact ⟨T, hT, hb⟩
    · rw [bondLegs_of_notMem hk] at h; cases h
  · rintro ⟨T, hT, hb⟩
    obtain ⟨B, hB⟩ := hwf.toWF0.bond_of_leg hT (List.mem_of_getElem? hb)
    have hBm := mem_of_dget_eq_some _ hB
    obtain ⟨axes, hs, he⟩ := bondLegs_spec hwf hBm
    rw [he]
    have hj : (T.bids.take a).count b < B.tids.count t := by
      rw [hwf.toWF0.mult hT hB]; exact count_take_lt_count hb
    obtain ⟨i, hi⟩ := Option.isSome_iff_exists.mp ((nthIdx_isSome t B.tids _).mpr hj)
    obtain ⟨hi1, hi2⟩ := (nthIdx_eq_some _ _ _ _).mp hi
    have hil : i < B.tids.length := by
      by_contra hc'; rw [List.getElem?_eq_none (by omega)] at hi1; cases hi1
    have hti : B.tids[i] = t := by
      rw [List.getElem?_eq_getElem hil] at hi1; exact Option.some.inj hi1
    obtain ⟨T', hT', hn⟩ := hs.2 i hil
    rw [hti, hT] at hT'
    cases hT'
    rw [hti, hi2, nthIdx_of_getElem? b T.bids a hb] at hn
    have hil' : i < axes.length := by rw [hs.1]; exact hil
    rw [List.getElem?_eq_getElem hil'] at hn
    have hax' : axes[i] = a := (Option.some.inj hn).symm
    rw [List.mem_iff_getElem?]
    refine ⟨i, ?_⟩
    rw [List.getElem?_zip_eq_some, List.getElem?_eq_getElem hil, List.getElem?_eq_getElem hil', hti, hax']
    exact ⟨rfl, rfl⟩

theorem bondLegs_ne_nil {net : Net} (hwf : WF net) {b : Int} (h : b ∈ dkeys net.bonds) : bondLegs net b ≠ [] := by
  obtain ⟨B, hB⟩ := exists_mem_of_mem_dkeys h
  obtain ⟨axes, hs, he⟩ := bondLegs_spec hwf hB
  rw [he]
  have := hwf.blen _ hB
  simp only at this
  intro hz
  have hl := congrArg List.length hz
  rw [List.length_zip, hs.1] at hl
  simp only [List.length_nil] at hl
  omega

theorem legBond_eq_some_iff {net : Net} {t : Int} {a : Nat} {b : Int} :
    legBond net (t, a) = some b ↔ ∃ T, dget net.tensors t = some T ∧ T.bids[a]? = some b := by
  unfold legBond
  cases dget net.tensors t with
  | none => simp
  | some T => simp

end Qib.TNet
