import Mathlib.Analysis.Complex.Norm
import Mathlib.LinearAlgebra.Matrix.ConjTranspose
import Mathlib.Tactic.FinCases
import Mathlib.Tactic.IntervalCases
import Mathlib.Algebra.BigOperators.Fin
import Mathlib.Algebra.Order.Ring.Rat
import Mathlib.Tactic.Linarith
import Mathlib.Tactic.Positivity
import Mathlib.Tactic.LinearCombination
import QibProofs.Lemmas.PauliOpSum
import QibProofs.Lemmas.HamFermi
/-!
C15 helper lemmas, molecular Hamiltonian: what the constructor accepts (`mkMolecular_ok`, `mkMolecular_complete`),
`closeTol` = NumPy's `isclose` formula over the reals (`closeTol_iff`), equality for zero tolerances, the embedding of
the driver's Gaussian rationals into ℂ, and the denotations of the Hubbard / molecular field operators in a
representation of the CAR. Helper lemmas only.
-/
open Complex
namespace Qib.Ham
open Qib.Pauli

theorem all2_iff (n : ℕ) (p : ℕ → ℕ → Bool) : all2 n p = true ↔ ∀ i j, i < n → j < n → p i j = true := by
  simp only [all2, List.all_eq_true, List.mem_range]
  exact ⟨fun h i j hi hj => h i hi j hj, fun h i hi j hj => h i j hi hj⟩

theorem all4_iff (n : ℕ) (p : ℕ → ℕ → ℕ → ℕ → Bool) :
    all4 n p = true ↔ ∀ i j k l, i < n → j < n → k < n → l < n → p i j k l = true := by
  simp only [all4, all2_iff]
  exact ⟨fun h i j k l hi hj hk hl => h i j hi hj k l hk hl, fun h i j hi hj k l hk hl => h i j k l hi hj hk hl⟩

/-- the three symmetry conditions checked by the constructor, as a proposition -/
def MolValid (atol rtol : Rat) (m : MolArgs) (n : ℕ) : Prop :=
  m.tshape = [n, n] ∧ m.vshape = [n, n, n, n] ∧ m.ptype = .fermion ∧ m.nsites = n ∧
  (m.symH = true → m.c.kind.isIntOrFloat = true ∧
    (∀ i j, i < n → j < n → closeTol atol rtol (m.t i j) (m.t j i).conj = true) ∧
    (∀ i j k l, i < n → j < n → k < n → l < n → closeTol atol rtol (m.v i j k l) (m.v k l i j).conj = true)) ∧
  (m.symV = true → ∀ i j k l, i < n → j < n → k < n → l < n → closeTol atol rtol (m.v i j k l) (m.v j i l k) = true)

theorem mkMolecular_ok (atol rtol : Rat) (m : MolArgs) (H : Molecular) (h : mkMolecular atol rtol m = .ok H) :
    MolValid atol rtol m H.norbs ∧ H = ⟨H.norbs, m.c.val, m.t, m.v, m.symH, m.symV⟩ := by
  unfold mkMolecular at h
  split at h
  · cases h
  · rename_i n rest hts
    split_ifs at h with h1 h2 h3 h4 h5 h6 h7 h8
    cases h
    simp only [ne_eq, not_not] at h1 h2 h3 h4
    simp only [Bool.and_eq_true, Bool.not_eq_true', not_and, ← Bool.not_eq_true, all2_iff, all4_iff, not_not] at h5 h6 h7 h8
    exact ⟨⟨h1, h2, h3, h4, fun hs => ⟨h5 hs, h6 hs, h7 hs⟩, fun hs => h8 hs⟩, rfl⟩

theorem mkMolecular_complete (atol rtol : Rat) (m : MolArgs) (n : ℕ) (hv : MolValid atol rtol m n) :
    mkMolecular atol rtol m = .ok ⟨n, m.c.val, m.t, m.v, m.symH, m.symV⟩ := by
  obtain ⟨e1, e2, e3, e4, e5, e6⟩ := hv
  unfold mkMolecular
  rw [e1]
  simp only [ne_eq, not_true_eq_false, if_false, e2, e3, e4]
  rw [if_neg, if_neg, if_neg, if_neg]
  · simp only [Bool.and_eq_true, Bool.not_eq_true', ← Bool.not_eq_true, all4_iff, not_and, not_not]; exact e6
  · simp only [Bool.and_eq_true, Bool.not_eq_true', ← Bool.not_eq_true, all4_iff, not_and, not_not]; exact fun hs => (e5 hs).2.2
  · simp only [Bool.and_eq_true, Bool.not_eq_true', ← Bool.not_eq_true, all2_iff, not_and, not_not]; exact fun hs => (e5 hs).2.1
  · simp only [Bool.and_eq_true, Bool.not_eq_true', ← Bool.not_eq_true, not_and, not_not]; exact fun hs => (e5 hs).1

theorem GQ.sub_re (a b : GQ) : (a - b).re = a.re - b.re := rfl
theorem GQ.sub_im (a b : GQ) : (a - b).im = a.im - b.im := rfl

theorem GQ.normSq_nonneg (a : GQ) : 0 ≤ a.normSq := by
  unfold GQ.normSq; exact add_nonneg (mul_self_nonneg _) (mul_self_nonneg _)

theorem GQ.normSq_eq_zero (a : GQ) (h : a.normSq = 0) : a.re = 0 ∧ a.im = 0 :=
  mul_self_add_mul_self_eq_zero.mp h

/-- with zero tolerances `allclose` is equality -/
theorem closeTol_zero (a b : GQ) : closeTol 0 0 a b = true ↔ a = b := by
  unfold closeTol
  simp only [mul_zero, zero_mul, sub_zero, Bool.or_eq_true, decide_eq_true_eq]
  constructor
  · intro h
    have hD : (a - b).normSq = 0 := by
      have h0 := GQ.normSq_nonneg (a - b)
      rcases h with h | h
      · exact le_antisymm h h0
      · exact mul_self_eq_zero.mp (le_antisymm h (mul_self_nonneg _))
    obtain ⟨h1, h2⟩ := GQ.normSq_eq_zero _ hD
    rw [GQ.sub_re] at h1; rw [GQ.sub_im] at h2
    cases a; cases b
    simp only [GQ.mk.injEq]
    exact ⟨by linarith, by linarith⟩
  · rintro rfl
    left
    have : (a - a).normSq = 0 := by simp [GQ.normSq, GQ.sub_re, GQ.sub_im]
    rw [this]

theorem GQ.toC_conj (a : GQ) : a.conj.toC = star a.toC := by
  simp [GQ.toC, GQ.conj]

theorem GQ.toC_mul (a b : GQ) : (a * b).toC = a.toC * b.toC := by
  have hre : (a * b).re = a.re * b.re - a.im * b.im := rfl
  have him : (a * b).im = a.re * b.im + a.im * b.re := rfl
  simp only [GQ.toC, hre, him, Rat.cast_sub, Rat.cast_add, Rat.cast_mul]
  linear_combination (-(a.im : ℂ) * (b.im : ℂ)) * Complex.I_sq

theorem GQ.toC_half : GQ.half.toC = 1 / 2 := by
  simp [GQ.toC, GQ.half]

theorem GQ.toC_real_star (a : GQ) (h : a.im = 0) : star a.toC = a.toC := by
  simp [GQ.toC, h]

theorem real_close_iff (A r d m : ℝ) (hA : 0 ≤ A) (hr : 0 ≤ r) (hd : 0 ≤ d) (hm : 0 ≤ m) :
    (d ^ 2 - A * A - r * r * m ^ 2 ≤ 0 ∨
      (d ^ 2 - A * A - r * r * m ^ 2) * (d ^ 2 - A * A - r * r * m ^ 2) ≤ 4 * A * A * r * r * m ^ 2) ↔
    d ≤ A + r * m := by
  have hrm : 0 ≤ r * m := mul_nonneg hr hm
  have hArm : 0 ≤ A * (r * m) := mul_nonneg hA hrm
  constructor
  · intro h
    have key : d ^ 2 ≤ (A + r * m) ^ 2 := by
      rcases h with h | h
      · nlinarith
      · by_contra hc
        have hc := not_le.mp hc
        have hX : 2 * (A * (r * m)) < d ^ 2 - A * A - r * r * m ^ 2 := by nlinarith
        nlinarith
    exact le_of_sq_le_sq key (by positivity)
  · intro h
    have key : d ^ 2 ≤ (A + r * m) ^ 2 := by nlinarith
    by_cases hX : d ^ 2 - A * A - r * r * m ^ 2 ≤ 0
    · exact Or.inl hX
    · right
      have hX := not_le.mp hX
      have h2 : d ^ 2 - A * A - r * r * m ^ 2 ≤ 2 * (A * (r * m)) := by nlinarith
      nlinarith

theorem GQ.toC_sub (a b : GQ) : (a - b).toC = a.toC - b.toC := by
  have hre : (a - b).re = a.re - b.re := rfl
  have him : (a - b).im = a.im - b.im := rfl
  simp only [GQ.toC, hre, him, Rat.cast_sub]; ring

theorem GQ.norm_sq_toC (a : GQ) : ‖a.toC‖ ^ 2 = ((a.normSq : ℚ) : ℝ) := by
  rw [Complex.sq_norm, Complex.normSq_apply]
  simp [GQ.toC, GQ.normSq]

/-- `closeTol` is NumPy's `isclose` formula `|a - b| ≤ atol + rtol·|b|` over the reals -/
theorem closeTol_iff (atol rtol : ℚ) (ha : 0 ≤ atol) (hr : 0 ≤ rtol) (a b : GQ) :
    closeTol atol rtol a b = true ↔ ‖a.toC - b.toC‖ ≤ (atol : ℝ) + (rtol : ℝ) * ‖b.toC‖ := by
  rw [← GQ.toC_sub, ← real_close_iff (atol : ℝ) (rtol : ℝ) ‖(a - b).toC‖ ‖b.toC‖ (by exact_mod_cast ha)
    (by exact_mod_cast hr) (norm_nonneg _) (norm_nonneg _), GQ.norm_sq_toC, GQ.norm_sq_toC]
  unfold closeTol
  simp only [Bool.or_eq_true, decide_eq_true_eq]
  constructor
  · rintro (h | h)
    · left; exact_mod_cast h
    · right; exact_mod_cast h
  · rintro (h | h)
    · left; exact_mod_cast h
    · right; exact_mod_cast h


/-! ### denotations in a CAR representation -/

section den
variable {R : Type} [Ring R] [StarRing R]

/-- `FermiHubbardHamiltonian.as_field_operator()` in a CAR representation on `nsites` modes -/
def Hubbard.den {K : Type} [CommRing K] [Algebra K R] (H : Hubbard K) (C : CAR R H.lat.nsites) : R :=
  C.termDen hubbardPatternT (coef2 H.kin) + C.termDen hubbardPatternV (coef4 H.int)

/-- `MolecularHamiltonian.as_field_operator()` in a CAR representation on `norbs` modes (coefficients in ℂ) -/
noncomputable def Molecular.den [Algebra ℂ R] (H : Molecular) (C : CAR R H.norbs) : R :=
  C.termDen molPatternC (coef0 H.coeffC.toC) + C.termDen molPatternT (coef2 fun i j => (H.coeffT i j).toC) +
    C.termDen molPatternV (coef4 fun i j k l => (H.coeffV i j k l).toC)

end den

/-! ### a concrete representation of the CAR (non-vacuity witness) -/

/-- Jordan-Wigner annihilators on two modes in the convention of `FieldOperator.as_matrix`
(`a†_0 = U ⊗ Z`, `a†_1 = 1 ⊗ U`, `U = |1⟩⟨0|`) -/
def jwA0 : Matrix (Fin 4) (Fin 4) ℂ := fun r c => if r = 0 ∧ c = 2 then 1 else if r = 1 ∧ c = 3 then -1 else 0
def jwA1 : Matrix (Fin 4) (Fin 4) ℂ := fun r c => if r = 0 ∧ c = 1 then 1 else if r = 2 ∧ c = 3 then 1 else 0

def jwCAR2 : CAR (Matrix (Fin 4) (Fin 4) ℂ) 2 where
  a := fun i => if i = 0 then jwA0 else jwA1
  anti := by
    intro i j hi hj
    interval_cases i <;> interval_cases j <;>
      (ext r c; fin_cases r <;> fin_cases c <;> simp [jwA0, jwA1, Matrix.mul_apply])
  antiStar := by
    intro i j hi hj
    interval_cases i <;> interval_cases j <;>
      (ext r c; fin_cases r <;> fin_cases c <;>
        simp [jwA0, jwA1, Matrix.mul_apply, Matrix.star_eq_conjTranspose, Matrix.conjTranspose_apply])

end Qib.Ham
