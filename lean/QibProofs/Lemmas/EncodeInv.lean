import QibProofs.Lemmas.EncodeSum
/-!
Encoders (C11, C12): invariants of the encoded operator – every string has length `L` (so `PauliOp.mat φ L` is the matrix
`as_matrix` computes) and phase `q ∈ {0, 1}` (the sign was moved into the weight); no string occurs twice
(merge-on-insert). Helper lemmas only.
-/
set_option linter.unusedVariables false
set_option linter.unusedSectionVars false
namespace Qib.Encode
open Qib.Pauli

variable {α : Type} [EncScalar α]

/-- what every string of an encoded operator satisfies -/
def GoodStr (L : ℕ) (P : PS) : Prop := P.HasLen L ∧ P.q.val < 2

/-- all strings good and pairwise different -/
def GoodOp (L : ℕ) (op : PauliOp α) : Prop := (∀ e ∈ op, GoodStr L e.1) ∧ (op.map (·.1)).Nodup

theorem refactorSign_good (L : ℕ) (P : PS) (h : P.HasLen L) : GoodStr L P.refactorSign.2 := by
  refine ⟨?_, (refactorSign_spec L P).2.1⟩
  unfold PS.refactorSign
  split
  · exact h
  · exact h

theorem add_keys (op : PauliOp α) (P : PS) (w : α) :
    (op.add P w).map (·.1) = if P ∈ op.map (·.1) then op.map (·.1) else op.map (·.1) ++ [P] := by
  induction op with
  | nil => simp [PauliOp.add]
  | cons e rest ih =>
    obtain ⟨Q, v⟩ := e
    by_cases h : Q = P
    · subst h; simp [PauliOp.add]
    · have h' : ¬ P = Q := fun e => h e.symm
      simp only [PauliOp.add, if_neg h, List.map_cons, ih, List.mem_cons, h', false_or]
      split <;> simp

theorem add_good (L : ℕ) (op : PauliOp α) (P : PS) (w : α) (hop : GoodOp L op) (hP : GoodStr L P) :
    GoodOp L (op.add P w) := by
  obtain ⟨h1, h2⟩ := hop
  constructor
  · intro e he
    have : e.1 ∈ (op.add P w).map (·.1) := List.mem_map_of_mem he
    rw [add_keys] at this
    split at this
    · obtain ⟨e', he', heq⟩ := List.mem_map.mp this
      rw [← heq]; exact h1 e' he'
    · rcases List.mem_append.mp this with h | h
      · obtain ⟨e', he', heq⟩ := List.mem_map.mp h
        rw [← heq]; exact h1 e' he'
      · simp only [List.mem_singleton] at h; rw [h]; exact hP
  · rw [add_keys]
    split
    · exact h2
    · rename_i hn
      rw [List.nodup_append]
      refine ⟨h2, List.nodup_singleton P, ?_⟩
      intro a ha b hb
      simp only [List.mem_singleton] at hb
      subst hb
      intro e; subst e; exact hn ha

theorem addStrings_good (L : ℕ) (op : PauliOp α) (strings : List PS) (w : α) (hop : GoodOp L op)
    (hs : ∀ p ∈ strings, p.HasLen L) : GoodOp L (addStrings op strings w) := by
  induction strings generalizing op with
  | nil => exact hop
  | cons p ps ih =>
    simp only [addStrings, List.foldl_cons]
    exact ih _ (add_good L op _ _ hop (refactorSign_good L p (hs p (List.mem_cons_self ..))))
      (fun q hq => hs q (List.mem_cons_of_mem _ hq))

theorem foldE_inv {β γ : Type} (f : β → γ → Except Err β) (I : β → Prop)
    (hstep : ∀ b c b', I b → f b c = .ok b' → I b') (b b' : β) (cs : List γ) (hb : I b)
    (h : foldE f b cs = .ok b') : I b' := by
  induction cs generalizing b with
  | nil => simp only [foldE, Except.ok.injEq] at h; subst h; exact hb
  | cons c cs ih =>
    simp only [foldE] at h
    cases hf : f b c with
    | error e => simp [hf] at h
    | ok b1 => simp only [hf] at h; exact ih b1 (hstep b c b1 hb hf) h

theorem encodeEntry_good (enc : Enc) (L : ℕ) (ops : List Desc) (op op' : PauliOp α) (e : List ℕ × α)
    (hop : GoodOp L op) (h : encodeEntry enc L ops op e = .ok op') : GoodOp L op' := by
  unfold encodeEntry at h
  by_cases hz : EncScalar.isZero e.2 = true
  · rw [if_pos hz] at h; simp only [Except.ok.injEq] at h; subst h; exact hop
  · rw [if_neg hz] at h
    cases hx : expand enc L ops e.1 [PS.identity L] with
    | error err => simp [hx] at h
    | ok strings =>
      simp only [hx, Except.ok.injEq] at h; subst h
      obtain ⟨_, h2, _⟩ := expand_sum enc L ops e.1 _ strings hx (by
        intro p hp; simp only [List.mem_singleton] at hp; subst hp; exact identity_hasLen L)
      exact addStrings_good L op strings _ hop h2

theorem encodeTerm_good (enc : Enc) (L : ℕ) (op op' : PauliOp α) (t : Term α) (hop : GoodOp L op)
    (h : encodeTerm enc L op t = .ok op') : GoodOp L op' := by
  unfold encodeTerm at h
  split at h
  · simp at h
  · exact foldE_inv _ (GoodOp L) (fun b c b' hb hf => encodeEntry_good enc L t.ops b b' c hb hf) op op' _ hop h

theorem encodeRaw_good (enc : Enc) (fop : FieldOp α) (op : PauliOp α) (L : ℕ) (hL : fieldCheck fop = .ok L)
    (h : encodeRaw enc fop = .ok op) : GoodOp L op := by
  unfold encodeRaw at h
  simp only [hL] at h
  exact foldE_inv _ (GoodOp L) (fun b c b' hb hf => encodeTerm_good enc L b b' c hb hf) [] op _
    ⟨by simp, by simp⟩ h

theorem removeZero_sublist (isZ : α → Bool) (op : PauliOp α) : (op.removeZero isZ).Sublist op := by
  cases op with
  | nil => simp [PauliOp.removeZero]
  | cons e rest =>
    simp only [PauliOp.removeZero]
    split
    · exact (List.filter_sublist).trans (List.sublist_cons_self _ _)
    · exact List.Sublist.cons_cons _ List.filter_sublist

theorem removeZero_good (L : ℕ) (isZ : α → Bool) (op : PauliOp α) (h : GoodOp L op) : GoodOp L (op.removeZero isZ) := by
  have hs := removeZero_sublist isZ op
  exact ⟨fun e he => h.1 e (hs.subset he), (hs.map _).nodup h.2⟩

/-- the encoded operator: every string has length `L` and phase `q ∈ {0,1}`, no string occurs twice -/
theorem encode_good (enc : Enc) (isZ : α → Bool) (fop : FieldOp α) (op : PauliOp α) (L : ℕ)
    (hL : fieldCheck fop = .ok L) (h : encode enc isZ fop = .ok op) : GoodOp L op := by
  unfold encode at h
  cases hr : encodeRaw enc fop with
  | error e => simp [hr] at h
  | ok raw =>
    simp only [hr, Except.ok.injEq] at h; subst h
    exact removeZero_good L isZ raw (encodeRaw_good enc fop raw L hL hr)

end Qib.Encode
