import QibProofs.Lemmas.CompactSpecStab2
import Mathlib.LinearAlgebra.Matrix.Trace
import Mathlib.Data.List.Sublists
/-!
C13, spectral part — helper lemmas, part 13: traces.  A Pauli-string matrix with a non-identity letter is traceless; the product of
the projectors `(1 + L_g)/2` over a duplicate-free list of plain faces expands into `2^{-|R|} Σ_{S ⊆ R} Π_{g∈S} L_g`, all of whose
terms except `S = ∅` are traceless: `trace = 2^N / 2^|R|`; multiplied by the fermion parity `Π_j V_j` every term is traceless.
-/
set_option linter.unusedSimpArgs false
set_option linter.unusedVariables false
open Complex Matrix
namespace Qib.Compact
open Qib.Pauli Qib.Lattice

theorem trace_tens {n : ℕ} (A : Fin n → Matrix Bool Bool ℂ) : (tens A).trace = ∏ k, (A k).trace := by
  simp only [Matrix.trace, Matrix.diag, tens]
  rw [Finset.prod_univ_sum]
  simp only [Fintype.piFinset_univ]

theorem trace_letter (z x : Bool) : (letter z x).trace = if (z || x) then 0 else 2 := by
  cases z <;> cases x <;> simp [Matrix.trace, letter, zx]

/-- a string with a non-identity letter has a traceless matrix -/
theorem trace_mat_zero (n : ℕ) (P : PS) (t : ℕ) (ht : t < n) (h : P.zf t = true ∨ P.xf t = true) : (P.mat n).trace = 0 := by
  simp only [PS.mat, Matrix.trace_smul, trace_tens, smul_eq_mul]
  rw [Finset.prod_eq_zero (Finset.mem_univ (⟨t, ht⟩ : Fin n)), mul_zero]
  rw [trace_letter]
  rcases h with h | h <;> simp [h]

theorem trace_one_bits (n : ℕ) : (1 : Matrix (Fin n → Bool) (Fin n → Bool) ℂ).trace = 2 ^ n := by
  rw [← tens_one, trace_tens]
  simp [Matrix.trace, Fintype.sum_bool]

/-- matrix of the product string = product of the matrices -/
theorem stabProd_mat (n0 n1 : ℕ) (R : List (ℕ × ℕ)) (hR : ∀ g ∈ R, FaceIn n0 n1 g.1 g.2) :
    (stabProd n0 n1 R).mat (ofcNsites n0 n1) = (R.map fun g => (loopStr n0 n1 g.1 g.2).mat (ofcNsites n0 n1)).prod := by
  induction R with
  | nil => simp [stabProd, identity_mat]
  | cons a l ih =>
    have hl := stabProd_hasLen n0 n1 l (fun g hg => hR g (by simp [hg]))
    have ha := loopStr_hasLen (hR a (by simp))
    simp only [List.map_cons, List.prod_cons, ← ih (fun g hg => hR g (by simp [hg]))]
    exact mat_mul _ _ _ ha hl

/-- `Π (1 + M)/2 = 2^{-k} Σ_{sublists} Π M` (ordered products) -/
theorem prod_half_one_add {k : Type} [Fintype k] [DecidableEq k] (l : List (Matrix k k ℂ)) :
    (l.map fun M => (1 / 2 : ℂ) • (1 + M)).prod = ((1 / 2 : ℂ) ^ l.length) • (l.sublists'.map List.prod).sum := by
  induction l with
  | nil => simp
  | cons a l ih =>
    rw [List.map_cons, List.prod_cons, ih, List.sublists'_cons, List.map_append, List.sum_append, List.map_map]
    have : (List.map (List.prod ∘ List.cons a) l.sublists').sum = a * (l.sublists'.map List.prod).sum := by
      rw [← List.sum_map_mul_left]
      congr 1
    rw [this, List.length_cons, pow_succ]
    simp only [Matrix.smul_mul, Matrix.mul_smul, smul_smul, Matrix.add_mul, Matrix.one_mul, mul_comm]

end Qib.Compact
