import QibProofs.Lemmas.TNetSurgerySum
import QibModel.TNetOps
/-!
Helper lemmas for C07 (executable model ↔ defining sum), part 1: generic facts used by both the einsum and the tree
soundness proofs – re-indexing a `sumOver` along a one-to-one correspondence of labels (`sumOver_rel`), what a
successful `einsumEval` returns, what `toFullSem` computes, `pin` on duplicate-free label lists, `nodupB`
(no property statements).
-/
namespace Qib.TNet
variable {α : Type} [CommSemiring α]

/-! ### re-indexing a sum over label assignments -/


theorem sumOver_rel {L L' : Type} [DecidableEq L] [DecidableEq L'] (dim : L → Nat) (dim' : L' → Nat)
    (pairs : List (L × L')) (f : (L → Nat) → α) (g : (L' → Nat) → α) (zs : List (L × L'))
    (hz : ∀ z ∈ zs, dim z.1 = dim' z.2 ∧ ∀ p ∈ pairs, p.1 = z.1 ↔ p.2 = z.2)
    (σ : L → Nat) (lam : L' → Nat)
    (hfg : ∀ σ' lam', (∀ p ∈ pairs, σ' p.1 = lam' p.2) → (∀ x, x ∉ zs.map (·.1) → σ' x = σ x) →
      (∀ x, x ∉ zs.map (·.2) → lam' x = lam x) → (∀ z ∈ zs, σ' z.1 < dim z.1) → f σ' = g lam')
    (h0 : ∀ p ∈ pairs, p.1 ∉ zs.map (·.1) → σ p.1 = lam p.2) :
    sumOver dim (zs.map (·.1)) f σ = sumOver dim' (zs.map (·.2)) g lam := by
  induction zs generalizing σ lam with
  | nil => exact hfg σ lam (fun p hp => h0 p hp (by simp)) (fun _ _ => rfl) (fun _ _ => rfl) (by simp)
  | cons z zs ih =>
    simp only [List.map_cons, sumOver_cons]
    rw [(hz z List.mem_cons_self).1]
    congr 1
    apply List.map_congr_left
    intro v hv
    have hv' : v < dim' z.2 := List.mem_range.mp hv
    apply ih (fun z' hz' => hz z' (List.mem_cons_of_mem _ hz'))
    · intro σ' lam' h1 h2 h3 h4
      apply hfg σ' lam' h1
      · intro x hx
        simp only [List.map_cons, List.mem_cons, not_or] at hx
        rw [h2 x hx.2, upd_other _ hx.1]
      · intro x hx
        simp only [List.map_cons, List.mem_cons, not_or] at hx
        rw [h3 x hx.2, upd_other _ hx.1]
      · intro z' hz'
        rcases List.mem_cons.mp hz' with rfl | hz'
        · by_cases hm : z'.1 ∈ zs.map (·.1)
          · obtain ⟨z'', hz'', he⟩ := List.mem_map.mp hm
            rw [← he]; exact h4 z'' hz''
          · rw [h2 _ hm, upd_same, (hz z' List.mem_cons_self).1]; exact hv'
        · exact h4 z' hz'
    · intro p hp hnot
      by_cases h1 : p.1 = z.1
      · have h2 := ((hz z List.mem_cons_self).2 p hp).mp h1
        rw [h1, h2, upd_same, upd_same]
      · have h2 : ¬ p.2 = z.2 := fun h => h1 (((hz z List.mem_cons_self).2 p hp).mpr h)
        rw [upd_other _ h1, upd_other _ h2]
        apply h0 p hp
        simp only [List.map_cons, List.mem_cons, not_or]
        exact ⟨h1, hnot⟩

/-! ### `einsumEval` -/


theorem einsumEval_ok {args : List (DT α × List Nat)} {out : List Nat} {r : DT α}
    (h : einsumEval args out = .ok r) :
    (∀ a ∈ args, a.2.length = a.1.shape.length) ∧
    (∀ p ∈ einsumDims args, ∀ q ∈ einsumDims args, p.1 = q.1 → p.2 = q.2) ∧
    out.Nodup ∧ (∀ l ∈ out, l ∈ (einsumDims args).map (·.1)) ∧
    r = DT.ofFn (out.map (fun l => ((einsumDims args).lookup l).getD 1)) (einsumSem args out) := by
  unfold einsumEval at h
  simp only [bind, Except.bind, pure, Except.pure] at h
  split at h
  · cases h
  · rename_i h1
    split at h
    · cases h
    · rename_i h2
      split at h
      · cases h
      · rename_i h3
        split at h
        · cases h
        · rename_i h4
          refine ⟨?_, ?_, ?_, ?_, ?_⟩
          · intro a ha
            simp at h1
            exact h1 a.1 a.2 ha
          · intro p hp q hq hpq
            simp at h2
            obtain ⟨p1, p2⟩ := p
            obtain ⟨q1, q2⟩ := q
            simp only at hpq; subst hpq
            exact h2 p1 p2 hp q2 hq
          · have : hasDup out = false := by simpa using h3
            exact (anyDup_eq_false_iff out).mp this
          · intro l hl
            simp at h4
            obtain ⟨d, hd⟩ := h4 l hl
            exact List.mem_map.mpr ⟨(l, d), hd, rfl⟩
          · cases h; rfl

/-! ### `toFullSem` -/


def slotOK (s : List Nat) : Bool := match s with | [] => true | v :: vs => vs.all (· == v)
def slotVal (p : List Nat × Nat) : Nat := match p.1 with | [] => p.2 - 1 | v :: _ => v

theorem toFullSem_def (t : DT α) (am idx : List Nat) : toFullSem t am idx =
    (let slots := (List.range t.shape.length).map (fun ax =>
      ((List.range am.length).filter (fun j => am[j]? == some ax)).map (fun j => idx[j]?.getD 0))
    if slots.all slotOK then t.get ((slots.zip t.shape).map slotVal) else 0) := rfl

theorem slot_const {s : List Nat} {c : Nat} (hs : ∀ x ∈ s, x = c) (hne : s ≠ []) (d : Nat) :
    slotOK s = true ∧ slotVal (s, d) = c := by
  unfold slotOK slotVal
  cases s with
  | nil => exact absurd rfl hne
  | cons v vs =>
    have hv : v = c := hs v List.mem_cons_self
    refine ⟨?_, hv⟩
    simp only [List.all_eq_true, beq_iff_eq]
    intro x hx
    rw [hs x (List.mem_cons_of_mem _ hx), hv]

theorem toFullSem_of_factor (t : DT α) (am idx o : List Nat) (hlen : o.length = t.shape.length)
    (hsurj : ∀ ax, ax < t.shape.length → ∃ j, j < am.length ∧ am[j]? = some ax)
    (hfac : ∀ j, j < am.length → ∀ ax, am[j]? = some ax → ax < t.shape.length → idx[j]?.getD 0 = o[ax]?.getD 0) :
    toFullSem t am idx = t.get o := by
  rw [toFullSem_def]
  simp only
  have key : ∀ ax, ax < t.shape.length →
      let s := ((List.range am.length).filter (fun j => am[j]? == some ax)).map (fun j => idx[j]?.getD 0)
      (∀ x ∈ s, x = o[ax]?.getD 0) ∧ s ≠ [] := by
    intro ax hax
    refine ⟨?_, ?_⟩
    · intro x hx
      obtain ⟨j, hj, rfl⟩ := List.mem_map.mp hx
      rw [List.mem_filter] at hj
      exact hfac j (List.mem_range.mp hj.1) ax (by simpa using hj.2) hax
    · obtain ⟨j, hj, hja⟩ := hsurj ax hax
      intro he
      have : j ∈ (List.range am.length).filter (fun j => am[j]? == some ax) :=
        List.mem_filter.mpr ⟨List.mem_range.mpr hj, by simp [hja]⟩
      rw [List.map_eq_nil_iff] at he
      rw [he] at this; cases this
  rw [if_pos]
  · congr 1
    apply List.ext_getElem
    · simp [hlen]
    · intro ax h1 h2
      simp only [List.length_map, List.length_zip, List.length_range, Nat.min_self] at h1
      simp only [List.getElem_map, List.getElem_zip, List.getElem_range]
      have := (slot_const (key ax h1).1 (key ax h1).2 (t.shape[ax])).2
      rw [this]
      simp [h2]
  · rw [List.all_eq_true]
    intro s hs
    obtain ⟨ax, hax, rfl⟩ := List.mem_map.mp hs
    exact (slot_const (key ax (List.mem_range.mp hax)).1 (key ax (List.mem_range.mp hax)).2 0).1

theorem toFullSem_zero (t : DT α) (am idx : List Nat) (j j' ax : Nat) (hj : j < am.length) (hj' : j' < am.length)
    (h1 : am[j]? = some ax) (h2 : am[j']? = some ax) (hax : ax < t.shape.length)
    (hne : idx[j]?.getD 0 ≠ idx[j']?.getD 0) : toFullSem t am idx = 0 := by
  rw [toFullSem_def]
  simp only
  rw [if_neg]
  intro hall
  rw [List.all_eq_true] at hall
  have := hall _ (List.mem_map.mpr ⟨ax, List.mem_range.mpr hax, rfl⟩)
  generalize hs : ((List.range am.length).filter (fun j => am[j]? == some ax)).map (fun j => idx[j]?.getD 0) = s at this
  have m1 : idx[j]?.getD 0 ∈ s := by
    rw [← hs]; exact List.mem_map.mpr ⟨j, List.mem_filter.mpr ⟨List.mem_range.mpr hj, by simp [h1]⟩, rfl⟩
  have m2 : idx[j']?.getD 0 ∈ s := by
    rw [← hs]; exact List.mem_map.mpr ⟨j', List.mem_filter.mpr ⟨List.mem_range.mpr hj', by simp [h2]⟩, rfl⟩
  cases s with
  | nil => cases m1
  | cons v vs =>
    simp only [slotOK, List.all_eq_true, beq_iff_eq] at this
    have e1 : idx[j]?.getD 0 = v := by
      rcases List.mem_cons.mp m1 with h | h
      · exact h
      · exact this _ h
    have e2 : idx[j']?.getD 0 = v := by
      rcases List.mem_cons.mp m2 with h | h
      · exact h
      · exact this _ h
    exact hne (e1.trans e2.symm)

/-! ### small list facts -/

theorem nodupB_iff {γ : Type} [BEq γ] [LawfulBEq γ] (l : List γ) : nodupB l = true ↔ l.Nodup := by
  induction l with
  | nil => simp [nodupB]
  | cons x xs ih =>
    simp only [nodupB, Bool.and_eq_true, Bool.not_eq_true', List.nodup_cons, ih]
    constructor
    · rintro ⟨h1, h2⟩
      refine ⟨?_, h2⟩
      intro hm
      rw [← List.contains_iff_mem] at hm
      rw [hm] at h1; cases h1
    · rintro ⟨h1, h2⟩
      refine ⟨?_, h2⟩
      cases hc : xs.contains x
      · rfl
      · exact absurd (List.contains_iff_mem.mp hc) h1

/-- on a duplicate-free label list every label reads its own value -/
theorem pin_getElem {L : Type} [DecidableEq L] (ls : List L) (vs : List Nat) (σ : L → Nat) (hn : ls.Nodup)
    (k : Nat) (hk : k < ls.length) (hk' : k < vs.length) : pin ls vs σ ls[k] = vs[k] := by
  induction ls generalizing vs k with
  | nil => simp at hk
  | cons l ls ih =>
    cases vs with
    | nil => simp at hk'
    | cons v vs =>
      rw [List.nodup_cons] at hn
      simp only [pin]
      cases k with
      | zero => simp [upd_same]
      | succ k =>
        simp only [List.getElem_cons_succ]
        have hne : ls[k]'(by simpa using hk) ≠ l := by
          intro he; apply hn.1; rw [← he]; exact List.getElem_mem _
        rw [upd_other _ hne]
        exact ih vs hn.2 k _ _

theorem pin_int_getElem (ls : List Int) (idx : List Nat) (σ : Int → Nat) (h : pinsOK ls idx = true) (k : Nat)
    (hk : k < ls.length) : pin ls idx σ ls[k] = idx[k]?.getD 0 := by
  have := pin_of_pinsOK ls idx σ h k hk
  rw [← this]; rfl

theorem prodL_ones (l : List α) (h : ∀ x ∈ l, x = 1) : prodL l = 1 := by
  induction l with
  | nil => rfl
  | cons x xs ih =>
    have : prodL (x :: xs) = x * prodL xs := rfl
    rw [this, h x List.mem_cons_self, ih (fun y hy => h y (List.mem_cons_of_mem _ hy)), one_mul]

theorem lookup_mem {κ ν : Type} [BEq κ] [LawfulBEq κ] {l : List (κ × ν)} {k : κ} (h : k ∈ l.map (·.1)) :
    ∃ d, l.lookup k = some d ∧ (k, d) ∈ l := by
  induction l with
  | nil => simp at h
  | cons e es ih =>
    obtain ⟨e1, e2⟩ := e
    by_cases hk : k = e1
    · subst hk; exact ⟨e2, by simp [List.lookup], List.mem_cons_self⟩
    · have hb : (k == e1) = false := by simpa using hk
      simp only [List.map_cons, List.mem_cons] at h
      rcases h with h | h
      · exact absurd h hk
      · obtain ⟨d, h1, h2⟩ := ih h
        exact ⟨d, by simp [List.lookup, hb, h1], List.mem_cons_of_mem _ h2⟩

end Qib.TNet
