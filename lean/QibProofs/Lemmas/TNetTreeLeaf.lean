import QibProofs.Lemmas.TNetTreePrep
/-!
Helper lemmas for C07, part 23: the single-leaf scaffold of `contractTree` – `permute_axes` on a record with certified
tracking (`permInfo_info`), every real leg of an open bond is tracked to the leg found by the axes-map loop
(`axisFold_all`), and `contractTree_leaf_total`: on a one-tensor network the transposed leaf expands to the dense
defining sum (no property statements).
-/
namespace Qib.TNet

/-- re-ordering the legs of a node with certified tracking: the tracking stays certified, leg `k` of the new record is
leg `sort[k]` of the old one, and a bijective tracking stays bijective -/
theorem permInfo_info {net : Net} {n : NodeInfo} (hi : InfoCert net n) {sort : List Nat}
    (hs : sort.Perm (List.range sort.length)) (hlen : sort.length = n.idxout.length) :
    InfoCert net (permInfo n sort) ∧
    (∀ k, k < n.idxout.length → legB net (permInfo n sort) k = legB net n (sort[k]?.getD 0)) ∧
    (n.trackaxes.Nodup → (permInfo n sort).trackaxes.Nodup) := by
  obtain ⟨ilen, ilt, isi, iis⟩ := argsort_inverse hs
  set inv := argsort sort with hinv
  set f : Nat → Nat := fun t => inv[t]?.getD 0 with hf
  set n' : NodeInfo := permInfo n sort with hn'
  have hN : n'.idxout.length = n.idxout.length := by simp [hn', permInfo, permL, hlen]
  have hzip : n'.openaxes.zip n'.trackaxes = (n.openaxes.zip n.trackaxes).map (fun p => (p.1, f p.2)) := by
    simp only [hn', permInfo]
    rw [List.zip_map_right]
    rfl
  have hfinj : ∀ a b, a < n.idxout.length → b < n.idxout.length → f a = f b → a = b := by
    intro a b ha hb hab
    have h1 := isi a (by omega)
    have h2 := isi b (by omega)
    simp only [hf] at hab
    rw [hab] at h1
    exact h1.symm.trans h2
  have hflt : ∀ a, a < n.idxout.length → f a < n.idxout.length := by
    intro a ha
    have ha' : a < inv.length := by omega
    simp only [hf, List.getElem?_eq_getElem ha', Option.getD_some]
    have := ilt a ha'
    omega
  have hleg : ∀ oa tr, (oa, tr) ∈ n.openaxes.zip n.trackaxes →
      nodeLegBond net n' (f tr) = some (legB net n tr) := by
    intro oa tr hm
    obtain ⟨htr, _, _⟩ := hi.pairs _ hm
    unfold nodeLegBond
    rw [hzip]
    cases hfind : ((n.openaxes.zip n.trackaxes).map fun p => (p.1, f p.2)).find? (fun q => q.2 == f tr) with
    | none =>
      have := List.find?_eq_none.mp hfind _ (List.mem_map.mpr ⟨(oa, tr), hm, rfl⟩)
      simp at this
    | some q =>
      have hq := List.mem_of_find?_eq_some hfind
      have hq2 : q.2 = f tr := by simpa using List.find?_some hfind
      obtain ⟨q0, hq0, rfl⟩ := List.mem_map.mp hq
      obtain ⟨hq0lt, hq0b, _⟩ := hi.pairs _ hq0
      have : q0.2 = tr := hfinj _ _ hq0lt htr hq2
      simp only
      rw [hq0b, this]
  refine ⟨⟨by simp [hn', permInfo, hi.len], hi.nodup, ?_, ?_⟩, ?_, ?_⟩
  · intro p hp
    rw [hzip] at hp
    obtain ⟨p0, hp0, rfl⟩ := List.mem_map.mp hp
    obtain ⟨h1, h2, _⟩ := hi.pairs _ hp0
    have hnl := hleg p0.1 p0.2 hp0
    refine ⟨by rw [hN]; exact hflt _ h1, ?_, ?_⟩
    · simp only [legB, hnl, Option.getD_some]; exact h2
    · simp only [legB, hnl, Option.getD_some]
  · intro k hk
    rw [hN] at hk
    have hks : k < sort.length := by omega
    have hsk : sort[k] < n.idxout.length := by
      have := List.mem_range.mp (hs.mem_iff.mp (List.getElem_mem hks)); omega
    have hcov := hi.cover _ hsk
    have : f sort[k] = k := by simp only [hf]; exact iis k hks
    show k ∈ n.trackaxes.map f
    rw [← this]
    exact List.mem_map.mpr ⟨_, hcov, rfl⟩
  · intro k hk
    have hks : k < sort.length := by omega
    have hsk : sort[k] < n.idxout.length := by
      have := List.mem_range.mp (hs.mem_iff.mp (List.getElem_mem hks)); omega
    obtain ⟨oa, hm, _⟩ := hi.leg hsk
    have := hleg oa sort[k] hm
    have hfk : f sort[k] = k := by simp only [hf]; exact iis k hks
    rw [hfk] at this
    simp only [legB, this, Option.getD_some, List.getElem?_eq_getElem hks]
  · intro hnd
    show (n.trackaxes.map f).Nodup
    apply List.Nodup.map_on _ hnd
    intro a ha b hb hab
    have hal : a < n.idxout.length := by
      obtain ⟨i, hi', rfl⟩ := List.getElem_of_mem ha
      have hio : i < n.openaxes.length := by rw [← hi.len]; exact hi'
      have hm : (n.openaxes[i], n.trackaxes[i]) ∈ n.openaxes.zip n.trackaxes := by
        rw [List.mem_iff_getElem?]
        exact ⟨i, by rw [List.getElem?_zip_eq_some, List.getElem?_eq_getElem hio, List.getElem?_eq_getElem hi']; exact ⟨rfl, rfl⟩⟩
      exact (hi.pairs _ hm).1
    have hbl : b < n.idxout.length := by
      obtain ⟨i, hi', rfl⟩ := List.getElem_of_mem hb
      have hio : i < n.openaxes.length := by rw [← hi.len]; exact hi'
      have hm : (n.openaxes[i], n.trackaxes[i]) ∈ n.openaxes.zip n.trackaxes := by
        rw [List.mem_iff_getElem?]
        exact ⟨i, by rw [List.getElem?_zip_eq_some, List.getElem?_eq_getElem hio, List.getElem?_eq_getElem hi']; exact ⟨rfl, rfl⟩⟩
      exact (hi.pairs _ hm).1
    exact hfinj a b hal hbl hab

/-- every real leg of the bond is tracked to the leg returned by the axes-map loop -/
theorem axisFold_all (root : NodeInfo) : ∀ (legs : List (Int × Nat)) (acc : Option Nat) (k : Nat),
    legs.foldlM (fun (acc : Option Nat) (ta : Int × Nat) => do
      if ta.1 == -1 then return acc
      match trackOf root ta with
      | none => throw Err.runtimeError
      | some r =>
        let k ← r
        match acc with
        | none => return some k
        | some k0 => if k0 != k then throw Err.runtimeError else return acc) acc = (Except.ok (some k) : Except Err _) →
    (∀ k0, acc = some k0 → k0 = k) ∧ ∀ ta ∈ legs, ta.1 ≠ -1 → trackOf root ta = some (.ok k) := by
  intro legs
  induction legs with
  | nil =>
    intro acc k h
    simp only [List.foldlM_nil, pure, Except.pure, Except.ok.injEq] at h
    exact ⟨fun k0 hk0 => (by rw [hk0] at h; exact Option.some.inj h), by simp⟩
  | cons ta rest ih =>
    intro acc k h
    rw [List.foldlM_cons] at h
    obtain ⟨acc', hstep, h⟩ := bind_ok h
    obtain ⟨ih1, ih2⟩ := ih acc' k h
    by_cases hm : (ta.1 == -1) = true
    · simp only [hm, if_true, pure, Except.pure, Except.ok.injEq] at hstep
      subst hstep
      refine ⟨ih1, fun ta' hta' hne => ?_⟩
      rcases List.mem_cons.mp hta' with rfl | hta'
      · exact absurd (by simpa using hm) hne
      · exact ih2 ta' hta' hne
    · simp only [hm, Bool.false_eq_true, if_false] at hstep
      cases htr : trackOf root ta with
      | none => rw [htr] at hstep; simp [throw, throwThe, MonadExceptOf.throw] at hstep
      | some r =>
        rw [htr] at hstep
        cases r with
        | error e => simp [bind, Except.bind] at hstep
        | ok k' =>
          simp only [bind, Except.bind] at hstep
          cases acc with
          | none =>
            simp only [pure, Except.pure, Except.ok.injEq] at hstep
            subst hstep
            have hk : k' = k := ih1 k' rfl
            subst hk
            refine ⟨fun k0 hk0 => (by cases hk0), fun ta' hta' hne => ?_⟩
            rcases List.mem_cons.mp hta' with rfl | hta'
            · exact htr
            · exact ih2 ta' hta' hne
          | some k0 =>
            simp only at hstep
            split at hstep
            · simp [throw, throwThe, MonadExceptOf.throw] at hstep
            · rename_i hne0
              simp only [pure, Except.pure, Except.ok.injEq] at hstep
              subst hstep
              have hk0 : k0 = k := ih1 k0 rfl
              have hk' : k0 = k' := by simpa using hne0
              refine ⟨fun k1 hk1 => (by cases hk1; exact hk0), fun ta' hta' hne => ?_⟩
              rcases List.mem_cons.mp hta' with rfl | hta'
              · rw [htr, ← hk', hk0]
              · exact ih2 ta' hta' hne

end Qib.TNet

namespace Qib.TNet

theorem axisFun_all {net : Net} {root : NodeInfo} {bid : Int} {k : Nat} (h : axisFun net root bid = .ok k) :
    ∀ ta ∈ bondLegs net bid, ta.1 ≠ -1 → trackOf root ta = some (.ok k) := by
  unfold axisFun at h
  try dsimp only at h
  split at h
  swap
  · simp [throw, throwThe, MonadExceptOf.throw] at h
  rename_i bond hbond
  obtain ⟨axes, haxes, h⟩ := bind_ok h
  obtain ⟨r, hr, h⟩ := bind_ok h
  have hlegs : bondLegs net bid = bond.tids.zip axes := by simp [bondLegs, hbond, haxes]
  cases r with
  | none => simp [throw, throwThe, MonadExceptOf.throw] at h
  | some k' =>
    simp only [pure, Except.pure, Except.ok.injEq] at h
    subst h
    rw [hlegs]
    exact (axisFold_all root _ none k' hr).2

theorem trk_leafInfo {net : Net} (hi : InfoCert net (leafInfo t n)) {a : Nat} (ha : a < n) :
    (t, a) ∈ (leafInfo t n).openaxes ∧ trk (leafInfo t n) (t, a) = a := by
  have hm : (t, a) ∈ (leafInfo t n).openaxes := List.mem_map.mpr ⟨a, List.mem_range.mpr ha, rfl⟩
  refine ⟨hm, ?_⟩
  have h1 := trk_mem_zip hi hm
  have h2 : ((t, a), a) ∈ (leafInfo t n).openaxes.zip (leafInfo t n).trackaxes := by
    rw [List.mem_iff_getElem?]
    refine ⟨a, ?_⟩
    simp [leafInfo, ha]
  exact zip_snd_unique hi.nodup h1 h2

end Qib.TNet

namespace Qib.TNet

/-- **single-leaf scaffold**: on a network with one real tensor, whatever `contractTree` returns for the leaf scaffold
expands to the dense defining sum -/
theorem contractTree_leaf_total {net : Net} {data : Data} (hrep : RepOK net)
    (hcd : isConsistentData net data = .ok true) {tid : Int} {r : DT Int} {am : List Nat} {t : Tree}
    (hct : contractTree net data (.leaf tid) = .ok (r, am, t)) (hfull : ScaffoldFull net (.leaf tid)) :
    toFullTensor r am = fullTensor net (dataAcc data) := by
  have hwf : WF net := wf_of_consistent hrep (isConsistentData_ok hcd).1
  obtain ⟨v, hvm⟩ := exists_mem_of_mem_dkeys hwf.virt
  have hv := dget_of_mem hwf.tnodup hvm
  simp only at hv
  have hvlen : v.shape.length = v.bids.length := hwf.tshape _ hvm
  unfold contractTree at hct
  simp only [bind, Except.bind] at hct
  split at hct
  · cases hct
  rename_i tree0 h0
  split at hct
  · cases hct
  rename_i prep hprep
  obtain ⟨t', perm, am'⟩ := prep
  simp only at hct
  split at hct
  · cases hct
  split at hct
  · cases hct
  rename_i r' hr'
  simp only [pure, Except.pure, Except.ok.injEq, Prod.mk.injEq] at hct
  obtain ⟨rfl, rfl, rfl⟩ := hct
  unfold buildContractionTree at h0
  obtain ⟨hne, T, hT, rfl⟩ := buildTree_leaf_inv h0
  set i0 := leafInfo tid T.shape.length with hi0
  have hI0 : InfoCert net i0 := leafInfo_cert hwf hT
  have hTsh : T.shape.length = T.bids.length := hwf.tshape _ (mem_of_dget_eq_some _ hT)
  -- the preparation
  obtain ⟨toa, am0, marks, c, htoa, ham0, hmc, hcN, rfl, hperm, hpick⟩ := contractTreePrep_full hprep
  rw [hv] at htoa
  cases htoa
  simp only [Tree.info] at ham0 hmc hcN
  subst hcN
  have hNdef : i0.idxout.length = T.shape.length := by simp [hi0, leafInfo]
  set N := i0.idxout.length with hN
  obtain ⟨hsp, hslen, hall⟩ := mark_final (mark_inv N am0 hmc)
  set sidx := marks.map (fun o => o.getD 0) with hsidx
  have hsp' : sidx.Perm (List.range sidx.length) := by rw [hslen]; exact hsp
  obtain ⟨hpp, _⟩ := argsort_spec hsp'
  obtain ⟨ilen, ilt, isi, iis⟩ := argsort_inverse hsp'
  set perm := argsort sidx with hpermdef
  have hplen : perm.length = N := by rw [ilen, hslen]
  have hpp' : perm.Perm (List.range perm.length) := by rw [ilen]; exact hpp
  simp only [permuteAt, bind, Except.bind] at hperm
  cases hpi : permuteInfo i0 perm with
  | error e => rw [hpi] at hperm; cases hperm
  | ok i' =>
  rw [hpi] at hperm
  simp only [pure, Except.pure, Except.ok.injEq] at hperm
  subst hperm
  obtain ⟨_, hi'eq⟩ := permuteInfo_full hpi
  obtain ⟨hI', hlegB, htrnd⟩ := permInfo_info hI0 hpp' (by rw [hplen])
  rw [← hi'eq] at hI' hlegB htrnd
  have hN' : i'.idxout.length = N := by rw [hi'eq]; simp [permInfo, permL, hplen]
  have htid' : i'.tid = tid := by rw [hi'eq]; rfl
  have hopen' : i'.openaxes = i0.openaxes := by rw [hi'eq]; rfl
  -- the bond on a leg of the unpermuted leaf
  have hleg0 : ∀ a (ha : a < N), ∃ (hb : a < T.bids.length), legB net i0 a = T.bids[a] := by
    intro a ha
    exact legB_of_leafId hwf hI0 hT (by simp [hi0, leafInfo]) rfl rfl (by omega)
  have hfam0 := mapM_ok_inv ham0
  have ham0len : am0.length = v.bids.length := hfam0.length_eq.symm
  have hax0 : ∀ i (hi : i < v.bids.length), ∃ (hi' : i < am0.length), am0[i] < N ∧
      nodeLegBond net i0 am0[i] = some v.bids[i] ∧
      ∀ ta ∈ bondLegs net v.bids[i], ta.1 ≠ -1 → trackOf i0 ta = some (.ok am0[i]) := by
    intro i hi
    have hi' : i < am0.length := by omega
    have := (List.forall₂_iff_get.mp hfam0).2 i hi hi'
    simp only [List.get_eq_getElem] at this
    exact ⟨hi', (axisFun_spec hwf hI0 this).1, (axisFun_spec hwf hI0 this).2, axisFun_all this⟩
  obtain ⟨ham, hamlt⟩ := pick_inv hpick
  have hlegB0 : ∀ a, a < N → legB net i' (sidx[a]?.getD 0) = legB net i0 a := by
    intro a ha
    have ha' : a < sidx.length := by omega
    have hs1 : sidx[a] < N := List.mem_range.mp (hsp.mem_iff.mp (List.getElem_mem ha'))
    rw [List.getElem?_eq_getElem ha', Option.getD_some, hlegB _ hs1]
    have := iis a ha'
    have h2 : sidx[a] < perm.length := by omega
    rw [List.getElem?_eq_getElem h2] at this ⊢
    simp only [Option.getD_some] at this ⊢
    rw [this]
  have hnlb : ∀ k, k < N → nodeLegBond net i' k = some (legB net i' k) := by
    intro k hk
    obtain ⟨oa, hm, _⟩ := hI'.leg (k := k) (by rw [hN']; exact hk)
    exact (hI'.pairs _ hm).2.2
  -- certificates
  have hleafOK : leafOK net i' = true := by
    unfold leafOK
    rw [htid', hT]
    simp only [Bool.and_eq_true, bne_iff_ne, ne_eq, beq_iff_eq, nodupB_iff]
    refine ⟨⟨⟨⟨hne, ?_⟩, ?_⟩, infoOK_of_cert hI'⟩, htrnd (by simp [hi0, leafInfo, List.nodup_range])⟩
    · rw [hopen']; rfl
    · rw [hN', hNdef]
  have hok : ∀ x ∈ treeOKList net (Tree.leaf i'), x = true := by
    intro x hx
    simp only [treeOKList, List.mem_singleton] at hx
    rw [hx]; exact hleafOK
  have hlv : treeLeaves (Tree.leaf i') = scaffoldLeaves (.leaf tid) := by simp [treeLeaves, scaffoldLeaves, htid']
  have hrootC : RootCert net v (Tree.leaf i') (permL sidx am0) := by
    refine ⟨by rw [hlv]; exact hfull.1, by rw [hlv]; exact hfull.2, by simp [permL, ham0len], ?_, ?_⟩
    · intro i hi
      obtain ⟨hi', h1, h2, _⟩ := hax0 i hi
      have hk : sidx[am0[i]]?.getD 0 < N := by
        have ha' : am0[i] < sidx.length := by omega
        rw [List.getElem?_eq_getElem ha', Option.getD_some]
        exact List.mem_range.mp (hsp.mem_iff.mp (List.getElem_mem ha'))
      refine ⟨sidx[am0[i]]?.getD 0, by simp [permL, hi'], ?_⟩
      simp only [Tree.info]
      rw [hnlb _ hk, hlegB0 _ h1]
      simp [legB, h2]
    · intro k hk
      simp only [Tree.info] at hk ⊢
      rw [hN'] at hk
      refine ⟨legB net i' k, hnlb k hk, ?_⟩
      rw [hlegB k hk]
      have hkp : k < perm.length := by omega
      rw [List.getElem?_eq_getElem hkp, Option.getD_some]
      have ha : perm[k] < N := by have := ilt k hkp; omega
      obtain ⟨i, hi, hie⟩ := List.getElem_of_mem (hall _ ha)
      obtain ⟨_, _, h2, _⟩ := hax0 i (by omega)
      rw [← hie]
      simp only [legB, h2, Option.getD_some]
      exact List.getElem_mem _
  have hroot : rootOK net (Tree.leaf i') (permL sidx am0) = true := rootOK_of_cert hv hrootC
  -- distinct legs carry distinct bonds
  have hinj0 : ∀ a a', a < N → a' < N → legB net i0 a = legB net i0 a' → a = a' := by
    intro a a' ha ha' he
    obtain ⟨i, hi, hie⟩ := List.getElem_of_mem (hall _ ha)
    obtain ⟨_, _, h2, h3⟩ := hax0 i (by omega)
    have hb : legB net i0 a = v.bids[i] := by rw [← hie]; simp [legB, h2]
    obtain ⟨hba, hla⟩ := hleg0 a ha
    obtain ⟨hba', hla'⟩ := hleg0 a' ha'
    have m1 : (tid, a) ∈ bondLegs net v.bids[i] :=
      (mem_bondLegs_iff hwf).mpr ⟨T, hT, by rw [List.getElem?_eq_getElem hba, ← hla, hb]⟩
    have m2 : (tid, a') ∈ bondLegs net v.bids[i] :=
      (mem_bondLegs_iff hwf).mpr ⟨T, hT, by rw [List.getElem?_eq_getElem hba', ← hla', ← he, hb]⟩
    have t1 := h3 _ m1 hne
    have t2 := h3 _ m2 hne
    rw [trackOf_spec hI0] at t1 t2
    obtain ⟨o1, k1⟩ := trk_leafInfo hI0 (show a < T.shape.length by omega)
    obtain ⟨o2, k2⟩ := trk_leafInfo hI0 (show a' < T.shape.length by omega)
    rw [if_pos o1, k1] at t1
    rw [if_pos o2, k2] at t2
    have e1 : a = am0[i] := by simpa using t1
    have e2 : a' = am0[i] := by simpa using t2
    rw [e1, e2]
  have hinj : RootInj net (Tree.leaf i').info := by
    intro k k' hk hk' he
    simp only [Tree.info] at hk hk' he
    rw [hN'] at hk hk'
    rw [hlegB k hk, hlegB k' hk'] at he
    have hkp : k < perm.length := by omega
    have hkp' : k' < perm.length := by omega
    rw [List.getElem?_eq_getElem hkp, List.getElem?_eq_getElem hkp'] at he
    simp only [Option.getD_some] at he
    have := hinj0 _ _ (by have := ilt k hkp; omega) (by have := ilt k' hkp'; omega) he
    have hnd : perm.Nodup := hpp.nodup_iff.mpr List.nodup_range
    exact (List.Nodup.getElem_inj_iff hnd).mp this
  -- the data of the transposed leaf
  obtain ⟨d, hd1, hd2, hd3⟩ := tensorDict_ok hwf.tkey hcd hne hT
  simp only at hr'
  set dict : Int → Option (DT Int) := fun t => if (t == i'.tid) = true then
    Option.map (fun d => d.transpose perm) (tensorDict net data t) else tensorDict net data t with hdict
  have hdicttid : dict i'.tid = some (d.transpose perm) := by simp [hdict, htid', hd1]
  have hleaf : ∀ i ∈ leafInfos (Tree.leaf i'), LeafDataOK net (dataAcc data) dict i := by
    intro i hi
    simp only [leafInfos, List.mem_singleton] at hi
    subst hi
    have hbid : ∀ k, k < N → ∃ (h1 : k < perm.length) (h2 : perm[k] < T.bids.length),
        legB net i k = T.bids[perm[k]] := by
      intro k hk
      have hkp : k < perm.length := by omega
      have hpk : perm[k] < N := by have := ilt k hkp; omega
      obtain ⟨hb, hl⟩ := hleg0 _ hpk
      refine ⟨hkp, hb, ?_⟩
      rw [hlegB k hk, List.getElem?_eq_getElem hkp, Option.getD_some, hl]
    have hshape : (d.transpose perm).shape = nodeShape net i := by
      unfold nodeShape
      show perm.map (fun p => d.shape[p]?.getD 0) = _
      apply List.ext_getElem
      · simp [hN', hplen]
      · intro k h1 h2
        have hk : k < N := by simpa [hplen] using h1
        obtain ⟨hkp, hpb, hlb⟩ := hbid k hk
        simp only [List.getElem_map, List.getElem_range, hlb]
        have := hwf.toWF0.shape_eq_bondDim (mem_of_dget_eq_some _ hT) (List.getElem?_eq_getElem hpb)
        simp only at this
        have hs : d.shape[perm[k]]?.getD 0 = T.shape[perm[k]]?.getD 0 := by rw [hd2]
        rw [hs, this]; rfl
    refine ⟨d.transpose perm, hdicttid, hshape, ?_⟩
    intro σ hσ
    have hin := get_nodeIdx_inrange net i σ hσ
    rw [← hshape] at hin
    rw [DT.transpose_get d perm _ hin]
    have hunperm : (List.range d.shape.length).map (fun m => (nodeIdx net i σ)[perm.idxOf m]?.getD 0) = T.bids.map σ := by
      apply List.ext_getElem
      · simp [hd2, hTsh]
      · intro m h1 h2
        have hm : m < N := by simpa [hd2, hNdef] using h1
        obtain ⟨hk, hkm⟩ := perm_range_idxOf hpp (show m < sidx.length by omega)
        have hkN : perm.idxOf m < N := by omega
        obtain ⟨_, hpb, hlb⟩ := hbid _ hkN
        simp only [List.getElem_map, List.getElem_range]
        rw [nodeIdx_getElem? net i σ _ (by rw [hN']; exact hkN), Option.getD_some, hlb]
        simp only [hkm]
    rw [hunperm, hd3]
    simp [leafTerm, htid', hT]
  rw [ham]
  exact toFullTensor_eq_fullTensor hv _ r' _ (by simp [permL, ham0len, hvlen])
    (fun j hj => tree_shape hwf hv _ dict (Tree.leaf i') _ hok hroot hleaf hr' j hj)
    (fun idx hidx => tree_sound hwf hv _ dict (Tree.leaf i') _ hok hroot hinj hleaf hr' idx hidx)

end Qib.TNet
