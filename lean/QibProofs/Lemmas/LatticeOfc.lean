import QibProofs.Lemmas.LatticeGrid
/-! Helper lemmas for C14: the counter numbering of the odd faces (`adjacency_matrix` loop) agrees with the
closed forms used by `index_to_coord` / `coord_to_index`. -/
namespace Qib.Lattice

theorem mul_mod_two (x w : Nat) : (x * w) % 2 = if x % 2 = 0 then 0 else w % 2 := by
  rw [Nat.mul_mod]
  rcases Nat.mod_two_eq_zero_or_one x with h | h <;> rcases Nat.mod_two_eq_zero_or_one w with h' | h' <;>
    simp [h, h']

theorem range_getElem?_eq_some {n i t : Nat} : (List.range n)[i]? = some t ↔ i < n ∧ t = i := by
  rw [List.getElem?_eq_some_iff]
  constructor
  · rintro ⟨h, e⟩; simp at h e; exact ⟨h, e.symm⟩
  · rintro ⟨h, e⟩; exact ⟨by simpa using h, by simp [e]⟩

/-- numbered faces of row `x` (inner loop) -/
def rowCells (w x : Nat) : List (Nat × Nat) :=
  (List.range w).filterMap fun y => if (x + y) % 2 == 1 then none else some (x, y)

/-- numbered faces of the first `h` rows -/
def cellsUpTo (w h : Nat) : List (Nat × Nat) := (List.range h).flatMap (rowCells w)

theorem faceCells_eq (n0 n1 : Nat) : faceCells n0 n1 = cellsUpTo (n1 - 1) (n0 - 1) := rfl

theorem rowCells_eq (w x : Nat) :
    rowCells w x = (List.range ((w + 1 - x % 2) / 2)).map fun t => (x, 2 * t + x % 2) := by
  induction w with
  | zero =>
    have : (0 + 1 - x % 2) / 2 = 0 := by omega
    simp [rowCells, this]
  | succ w ih =>
    unfold rowCells at *
    rw [List.range_succ, List.filterMap_append, ih]
    by_cases hp : (x + w) % 2 = 1
    · have : (w + 1 + 1 - x % 2) / 2 = (w + 1 - x % 2) / 2 := by omega
      simp [hp, this]
    · have : (w + 1 + 1 - x % 2) / 2 = (w + 1 - x % 2) / 2 + 1 := by omega
      rw [this, List.range_succ, List.map_append]
      simp [hp]
      omega

theorem half_succ (w h : Nat) : ((h + 1) * w + 1) / 2 = (h * w + 1) / 2 + (w + 1 - h % 2) / 2 := by
  have := mul_mod_two h w
  rw [Nat.succ_mul]
  generalize h * w = m at *
  split at this <;> omega

theorem half_mono (w : Nat) {a b : Nat} (h : a ≤ b) : (a * w + 1) / 2 ≤ (b * w + 1) / 2 := by
  have := Nat.mul_le_mul_right w h
  omega

theorem cellsUpTo_succ (w h : Nat) : cellsUpTo w (h + 1) = cellsUpTo w h ++ rowCells w h := by
  simp [cellsUpTo, List.range_succ, List.flatMap_append]

theorem cellsUpTo_length (w h : Nat) : (cellsUpTo w h).length = (h * w + 1) / 2 := by
  induction h with
  | zero => simp [cellsUpTo]
  | succ h ih =>
    rw [cellsUpTo_succ, List.length_append, ih, rowCells_eq, List.length_map, List.length_range, half_succ]

/-- which face carries number `k` -/
theorem cellsUpTo_getElem? (w h k x y : Nat) :
    (cellsUpTo w h)[k]? = some (x, y) ↔
      x < h ∧ y < w ∧ (x + y) % 2 = 0 ∧ k = (x * w + 1) / 2 + y / 2 := by
  induction h with
  | zero => simp [cellsUpTo]
  | succ h ih =>
    rw [cellsUpTo_succ]
    by_cases hk : k < (cellsUpTo w h).length
    · rw [List.getElem?_append_left hk, ih]
      rw [cellsUpTo_length] at hk
      constructor
      · rintro ⟨h1, h2, h3, h4⟩; exact ⟨by omega, h2, h3, h4⟩
      · rintro ⟨h1, h2, h3, h4⟩
        refine ⟨?_, h2, h3, h4⟩
        rcases Nat.lt_succ_iff_lt_or_eq.mp h1 with h1 | h1
        · exact h1
        · subst h1; omega
    · have hk' : (cellsUpTo w h).length ≤ k := by omega
      rw [List.getElem?_append_right hk', rowCells_eq, cellsUpTo_length]
      rw [cellsUpTo_length] at hk'
      simp only [List.getElem?_map, Option.map_eq_some_iff]
      constructor
      · rintro ⟨t, ht, he⟩
        obtain ⟨ht1, ht2⟩ := range_getElem?_eq_some.mp ht
        simp only [Prod.mk.injEq] at he
        obtain ⟨rfl, rfl⟩ := he
        subst ht2
        omega
      · rintro ⟨h1, h2, h3, h4⟩
        have hx : x = h := by
          rcases Nat.lt_succ_iff_lt_or_eq.mp h1 with h1 | h1
          · exfalso
            have hm := half_mono w (show x + 1 ≤ h by omega)
            have hs := half_succ w x
            omega
          · exact h1
        subst hx
        refine ⟨y / 2, ?_, ?_⟩
        · have : k - (x * w + 1) / 2 = y / 2 := by omega
          rw [this]
          exact range_getElem?_eq_some.mpr ⟨by omega, rfl⟩
        · simp only [Prod.mk.injEq, true_and]; omega

/-- number of odd faces = the count used in `nsites` -/
theorem faceCells_length (n0 n1 : Nat) : (faceCells n0 n1).length = ((n0 - 1) * (n1 - 1) + 1) / 2 := by
  rw [faceCells_eq, cellsUpTo_length]

/-- the closed form of `index_to_coord` gives a numbered face, and `coord_to_index` maps it back -/
theorem faceCoord_spec (w h k : Nat) (hk : k < (h * w + 1) / 2) :
    (faceCoord w k).1 < h ∧ (faceCoord w k).2 < w ∧ ((faceCoord w k).1 + (faceCoord w k).2) % 2 = 0 ∧
      faceIndex w (faceCoord w k).1 (faceCoord w k).2 = k := by
  have hw : 0 < w := by
    rcases Nat.eq_zero_or_pos w with h0 | h0
    · subst h0; simp at hk
    · exact h0
  simp only [faceCoord, faceIndex]
  have hpar := mul_mod_two h w
  have hparx := mul_mod_two (2 * k / w) w
  have h1 : 2 * k / w * w ≤ 2 * k := Nat.div_mul_le_self _ _
  have h2 : 2 * k < w * (2 * k / w + 1) := Nat.lt_mul_div_succ _ hw
  have h2' : w * (2 * k / w + 1) = 2 * k / w * w + w := by ring
  rw [h2'] at h2
  have h2k : 2 * k < h * w := by
    generalize h * w = m at *
    split at hpar <;> omega
  have hx : 2 * k / w < h := (Nat.div_lt_iff_lt_mul hw).mpr h2k
  generalize 2 * k / w = x at *
  generalize x * w = m at *
  refine ⟨hx, ?_, ?_, ?_⟩
  · split at hparx <;> omega
  · omega
  · omega

/-- face number `k` of the adjacency loop is the face returned by `index_to_coord` -/
theorem faceCells_getElem?_eq (n0 n1 k : Nat) (hk : k < ((n0 - 1) * (n1 - 1) + 1) / 2) :
    (faceCells n0 n1)[k]? = some (faceCoord (n1 - 1) k) := by
  obtain ⟨h1, h2, h3, h4⟩ := faceCoord_spec (n1 - 1) (n0 - 1) k hk
  rw [faceCells_eq]
  have := (cellsUpTo_getElem? (n1 - 1) (n0 - 1) k (faceCoord (n1 - 1) k).1 (faceCoord (n1 - 1) k).2).mpr
    ⟨h1, h2, h3, by simpa [faceIndex] using h4.symm⟩
  simpa using this

/-- distinct face numbers have distinct coordinates -/
theorem faceCoord_injective (w h k k' : Nat) (hk : k < (h * w + 1) / 2) (hk' : k' < (h * w + 1) / 2)
    (e : faceCoord w k = faceCoord w k') : k = k' := by
  have a := (faceCoord_spec w h k hk).2.2.2
  have b := (faceCoord_spec w h k' hk').2.2.2
  rw [← a, ← b, e]


/-- doubled coordinate of site `i`: vertex `(x, y) ↦ (2x, 2y)`, face centre `(x+½, y+½) ↦ (2x+1, 2y+1)` -/
def ofcCoord (n0 n1 i : Nat) : Nat × Nat :=
  if i < n0 * n1 then (2 * (i / n1), 2 * (i % n1))
  else (2 * (faceCoord (n1 - 1) (i - n0 * n1)).1 + 1, 2 * (faceCoord (n1 - 1) (i - n0 * n1)).2 + 1)

/-- nearest neighbours of the odd-face-centred lattice in doubled coordinates: two vertices that are grid
neighbours, or a face centre and one of its four corners (half a unit away in both directions) -/
def OfcNN (n0 n1 : Nat) (pbc : List Bool) (a b : Nat × Nat) : Prop :=
  (a.1 % 2 = 0 ∧ b.1 % 2 = 0 ∧ GridNN [n0, n1] pbc [a.1 / 2, a.2 / 2] [b.1 / 2, b.2 / 2]) ∨
  (a.1 % 2 ≠ b.1 % 2 ∧ (a.1 + 1 = b.1 ∨ b.1 + 1 = a.1) ∧ (a.2 + 1 = b.2 ∨ b.2 + 1 = a.2))

theorem OfcNN.symm {n0 n1 pbc a b} (h : OfcNN n0 n1 pbc a b) : OfcNN n0 n1 pbc b a := by
  rcases h with ⟨h1, h2, h3⟩ | ⟨h1, h2, h3⟩
  · exact Or.inl ⟨h2, h1, h3.symm⟩
  · exact Or.inr ⟨fun e => h1 e.symm, h2.symm, h3.symm⟩

theorem OfcNN.irrefl {n0 n1 pbc a} : ¬ OfcNN n0 n1 pbc a a := by
  rintro (⟨_, _, h3⟩ | ⟨h1, _, _⟩)
  · exact GridNN.irrefl h3
  · exact h1 rfl

theorem eq_mul_add_iff {n1 j a b : Nat} (hb : b < n1) : j = a * n1 + b ↔ j / n1 = a ∧ j % n1 = b := by
  constructor
  · rintro rfl
    have hn : 0 < n1 := by omega
    rw [Nat.mul_comm, Nat.mul_add_div hn, Nat.mul_add_mod, Nat.div_eq_of_lt hb, Nat.mod_eq_of_lt hb]
    simp
  · rintro ⟨rfl, rfl⟩; exact (Nat.div_add_mod' j n1).symm

/-- a face (number `i ≥ nverts`) against a vertex `j` -/
theorem faceAdj_iff (n0 n1 i j : Nat) (hi : n0 * n1 ≤ i) (hiN : i < ofcNsites n0 n1) (_hj : j < n0 * n1) :
    faceAdj n0 n1 i j = true ↔
      (j / n1 = (faceCoord (n1 - 1) (i - n0 * n1)).1 ∨ j / n1 = (faceCoord (n1 - 1) (i - n0 * n1)).1 + 1) ∧
      (j % n1 = (faceCoord (n1 - 1) (i - n0 * n1)).2 ∨ j % n1 = (faceCoord (n1 - 1) (i - n0 * n1)).2 + 1) := by
  have hk : i - n0 * n1 < ((n0 - 1) * (n1 - 1) + 1) / 2 := by unfold ofcNsites at hiN; omega
  obtain ⟨h1, h2, -, -⟩ := faceCoord_spec (n1 - 1) (n0 - 1) _ hk
  unfold faceAdj
  rw [faceCells_getElem?_eq n0 n1 _ hk]
  generalize faceCoord (n1 - 1) (i - n0 * n1) = f at *
  obtain ⟨x, y⟩ := f
  simp only at h1 h2 ⊢
  simp only [Bool.or_eq_true, beq_iff_eq]
  rw [eq_mul_add_iff (show y < n1 by omega), eq_mul_add_iff (show y + 1 < n1 by omega),
    eq_mul_add_iff (show y < n1 by omega), eq_mul_add_iff (show y + 1 < n1 by omega)]
  omega

theorem ofcAdj_iff (n0 n1 : Nat) (pbc : List Bool) (hw : NoTrivialWrap [n0, n1] pbc) (i j : Nat) :
    ofcAdj n0 n1 pbc i j = true ↔
      i < ofcNsites n0 n1 ∧ j < ofcNsites n0 n1 ∧ OfcNN n0 n1 pbc (ofcCoord n0 n1 i) (ofcCoord n0 n1 j) := by
  have hs : sprod [n0, n1] = n0 * n1 := by simp [sprod]
  simp only [ofcAdj, gridAdjRaw_eq _ _ _ _ hw, Bool.and_eq_true, decide_eq_true_eq, Bool.or_eq_true, gridAdj_iff, hs, unravel_two, and_assoc, or_assoc]
  refine and_congr_right fun hiN => and_congr_right fun hjN => ?_
  by_cases hi : i < n0 * n1 <;> by_cases hj : j < n0 * n1
  · -- two vertices
    have e1 : 2 * (i / n1) / 2 = i / n1 := by omega
    have e2 : 2 * (i % n1) / 2 = i % n1 := by omega
    have e3 : 2 * (j / n1) / 2 = j / n1 := by omega
    have e4 : 2 * (j % n1) / 2 = j % n1 := by omega
    simp only [OfcNN, ofcCoord, if_pos hi, if_pos hj, e1, e2, e3, e4]
    constructor
    · rintro (⟨_, _, h⟩ | ⟨h, _⟩ | ⟨h, _⟩)
      · exact Or.inl ⟨by omega, by omega, h⟩
      · omega
      · omega
    · rintro (⟨_, _, h⟩ | ⟨h, _⟩)
      · exact Or.inl ⟨hi, hj, h⟩
      · omega
  · -- vertex i, face j
    have hj' : n0 * n1 ≤ j := by omega
    have hf := faceAdj_iff n0 n1 j i hj' hjN hi
    simp only [OfcNN, ofcCoord, if_pos hi, if_neg hj]
    constructor
    · rintro (⟨_, h, _⟩ | ⟨h, _⟩ | ⟨_, _, h⟩)
      · omega
      · omega
      · have := hf.mp h; right; omega
    · rintro (⟨_, h, _⟩ | ⟨_, h⟩)
      · omega
      · right; right; exact ⟨hj', hi, hf.mpr (by omega)⟩
  · -- face i, vertex j
    have hi' : n0 * n1 ≤ i := by omega
    have hf := faceAdj_iff n0 n1 i j hi' hiN hj
    simp only [OfcNN, ofcCoord, if_neg hi, if_pos hj]
    constructor
    · rintro (⟨h, _⟩ | ⟨_, _, h⟩ | ⟨_, h, _⟩)
      · omega
      · have := hf.mp h; right; omega
      · omega
    · rintro (⟨h, _⟩ | ⟨_, h⟩)
      · omega
      · right; left; exact ⟨hi', hj, hf.mpr (by omega)⟩
  · -- two faces: never linked
    simp only [OfcNN, ofcCoord, if_neg hi, if_neg hj]
    constructor
    · rintro (⟨h, _⟩ | ⟨_, h, _⟩ | ⟨_, h, _⟩) <;> omega
    · rintro (⟨h, _⟩ | ⟨h, _⟩) <;> omega

/-- distinct sites have distinct (doubled) coordinates -/
theorem ofcCoord_injective (n0 n1 i j : Nat) (hi : i < ofcNsites n0 n1) (hj : j < ofcNsites n0 n1)
    (e : ofcCoord n0 n1 i = ofcCoord n0 n1 j) : i = j := by
  unfold ofcCoord at e
  by_cases hi' : i < n0 * n1 <;> by_cases hj' : j < n0 * n1
  · rw [if_pos hi', if_pos hj'] at e
    simp only [Prod.mk.injEq] at e
    rw [← Nat.div_add_mod' i n1, ← Nat.div_add_mod' j n1]
    have e1 : i / n1 = j / n1 := by omega
    have e2 : i % n1 = j % n1 := by omega
    rw [e1, e2]
  · rw [if_pos hi', if_neg hj'] at e; simp only [Prod.mk.injEq] at e; omega
  · rw [if_neg hi', if_pos hj'] at e; simp only [Prod.mk.injEq] at e; omega
  · rw [if_neg hi', if_neg hj'] at e
    simp only [Prod.mk.injEq] at e
    have hk : i - n0 * n1 < ((n0 - 1) * (n1 - 1) + 1) / 2 := by unfold ofcNsites at hi; omega
    have hk' : j - n0 * n1 < ((n0 - 1) * (n1 - 1) + 1) / 2 := by unfold ofcNsites at hj; omega
    have := faceCoord_injective (n1 - 1) (n0 - 1) _ _ hk hk' (Prod.ext (by omega) (by omega))
    omega

end Qib.Lattice
