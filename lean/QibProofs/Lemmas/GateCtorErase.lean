import QibProofs.Lemmas.GateCtor
/-!
The constructors never look at the numerical payload: helper lemmas for `C01_construct_payload_independent`
(`Properties/C01Ctor.lean`). `Expr.erase` removes every payload (closed-form / `expm` / `qr` / `sqrtm` results, Hermiticity flags, the
operator of a time evolution) from an expression; evaluation of the erased expression raises the same exception or yields an object
with the same `num_wires`, status and binding state (`Sim`). This is also what justifies the harness sending no payload for
expressions the implementation rejected. No property statements here.
-/
open Qib Qib.Gate

namespace Qib.GateCtor

def noMat : Mat := ⟨0, 0, #[]⟩

mutual
/-- the expression with every numerical payload removed -/
def Expr.erase : Expr → Expr
  | .leaf cls _ _ _ q => .leaf cls noMat noMat false q
  | .leaf2 cls _ _ _ q1 q2 => .leaf2 cls noMat noMat false q1 q2
  | .iswap q1 q2 _ _ => .iswap q1 q2 noMat noMat
  | .rotation shape q _ _ => .rotation shape q noMat noMat
  | .phase nw _ _ => .phase nw noMat noMat
  | .prepare v nq tr _ _ => .prepare v nq tr noMat []
  | .general a nw => .general a nw
  | .timeEvo w _ _ _ _ => .timeEvo w noMat 0 noMat noMat
  | .block ns meth _ _ => .block ns meth noMat noMat
  | .controlled tg nc ctrl => .controlled tg.erase nc ctrl
  | .multiplexed tgs nc => .multiplexed (eraseList tgs) nc
  | .call e c => .call e.erase c
termination_by structural e => e
def eraseList : List Expr → List Expr
  | [] => []
  | e :: es => e.erase :: eraseList es
termination_by structural es => es
end

/-- two objects agree in everything a later constructor or binding call can see -/
def Sim (o o' : Obj) : Prop := o.nw = o'.nw ∧ o.status = o'.status ∧ o.bind = o'.bind

/-- same exception, or objects that agree in `num_wires`, status and binding -/
def ResSim : Except ErrKind Obj → Except ErrKind Obj → Prop
  | .ok o, .ok o' => Sim o o'
  | .error k, .error k' => k = k'
  | _, _ => False

def ResSimList : Except ErrKind (List Obj) → Except ErrKind (List Obj) → Prop
  | .ok os, .ok os' => List.Forall₂ Sim os os'
  | .error k, .error k' => k = k'
  | _, _ => False

theorem Sim.refl (o : Obj) : Sim o o := ⟨rfl, rfl, rfl⟩

theorem ResSim.ok_iff {r r' : Except ErrKind Obj} (h : ResSim r r') {o : Obj} (ho : r = .ok o) : ∃ o', r' = .ok o' ∧ Sim o o' := by
  subst ho
  cases r' with
  | ok o' => exact ⟨o', rfl, h⟩
  | error k => exact absurd h id

theorem ResSim.error_iff {r r' : Except ErrKind Obj} (h : ResSim r r') (k : ErrKind) : r = .error k ↔ r' = .error k := by
  cases r <;> cases r' <;> simp_all [ResSim]

theorem ctorIswap_sim (q1 q2 : Slot) (m mi m' mi' : Mat) : ResSim (ctorIswap q1 q2 m mi) (ctorIswap q1 q2 m' mi') := by
  unfold ctorIswap
  split_ifs <;> simp [ResSim, Sim]

theorem ctorRotation_sim (shape : List ℕ) (q : Slot) (m mi m' mi' : Mat) :
    ResSim (ctorRotation shape q m mi) (ctorRotation shape q m' mi') := by
  unfold ctorRotation
  split_ifs <;> simp [ResSim, Sim]

theorem ctorPrepare_sim (v : NdArr) (nq : ℤ) (tr : Bool) (q q' : Mat) (x x' : List ℚ) :
    ResSim (ctorPrepare v nq tr q x) (ctorPrepare v nq tr q' x') := by
  classical
  rw [ctorPrepare_eq, ctorPrepare_eq]
  split_ifs <;> simp [ResSim, Sim]

theorem ctorControlled_sim {t t' : Obj} (h : Sim t t') (nc : ℤ) (ctrl : Option (List ℚ)) :
    ResSim (ctorControlled t nc ctrl) (ctorControlled t' nc ctrl) := by
  classical
  rw [ctorControlled_eq, ctorControlled_eq]
  obtain ⟨h1, h2, h3⟩ := h
  split_ifs
  · simp [ResSim, Sim, h1, h2, h3]
  · simp [ResSim]

theorem forall₂_sim_length {ts ts' : List Obj} (h : List.Forall₂ Sim ts ts') : ts.length = ts'.length := h.length_eq

theorem forall₂_sim_nw {ts ts' : List Obj} (h : List.Forall₂ Sim ts ts') : ts.map (·.nw) = ts'.map (·.nw) := by
  induction h with
  | nil => rfl
  | cons h _ ih => simp [h.1, ih]

theorem forall₂_sim_status {ts ts' : List Obj} (h : List.Forall₂ Sim ts ts') : ts.map (·.status) = ts'.map (·.status) := by
  induction h with
  | nil => rfl
  | cons h _ ih => simp [h.2.1, ih]

theorem forall₂_sim_bind {ts ts' : List Obj} (h : List.Forall₂ Sim ts ts') : ts.map (·.bind) = ts'.map (·.bind) := by
  induction h with
  | nil => rfl
  | cons h _ ih => simp [h.2.2, ih]

theorem mplxArgsOK_iff_map (ts : List Obj) (nc : ℤ) :
    MplxArgsOK ts nc ↔ 0 ≤ nc ∧ (ts.map (·.nw)).length = 2 ^ nc.toNat ∧ ∀ a ∈ ts.map (·.nw), ∀ b ∈ ts.map (·.nw), a = b := by
  unfold MplxArgsOK
  simp only [List.length_map, List.mem_map, forall_exists_index, and_imp, forall_apply_eq_imp_iff₂]

theorem headNw_eq_map (ts : List Obj) : headNw ts = (ts.map (·.nw)).headD 0 := by
  cases ts <;> rfl

theorem mplxStatus_eq_map (ts : List Obj) :
    mplxStatus ts = if (ts.map (·.status)).any (· = .raises) then .raises else if (ts.map (·.status)).any (· = .nan) then .nan else .ok := by
  unfold mplxStatus
  simp only [List.any_map]
  rfl

theorem ctorMultiplexed_sim {ts ts' : List Obj} (h : List.Forall₂ Sim ts ts') (nc : ℤ) :
    ResSim (ctorMultiplexed ts nc) (ctorMultiplexed ts' nc) := by
  classical
  rw [ctorMultiplexed_eq, ctorMultiplexed_eq]
  have hOK : MplxArgsOK ts nc ↔ MplxArgsOK ts' nc := by
    rw [mplxArgsOK_iff_map, mplxArgsOK_iff_map, forall₂_sim_nw h]
  by_cases h1 : MplxArgsOK ts nc
  · rw [if_pos h1, if_pos (hOK.mp h1)]
    refine ⟨?_, ?_, ?_⟩
    · show headNw ts + nc = headNw ts' + nc
      rw [headNw_eq_map, headNw_eq_map, forall₂_sim_nw h]
    · show mplxStatus ts = mplxStatus ts'
      rw [mplxStatus_eq_map, mplxStatus_eq_map, forall₂_sim_status h]
    · show Bind.mplx nc.toNat [] (ts.map (·.bind)) = Bind.mplx nc.toNat [] (ts'.map (·.bind))
      rw [forall₂_sim_bind h]
  · rw [if_neg h1, if_neg (fun h' => h1 (hOK.mpr h'))]
    rfl

theorem applyCall_sim {o o' : Obj} (h : Sim o o') (c : Call) : ResSim (applyCall o c) (applyCall o' c) := by
  rw [applyCall_eq, applyCall_eq]
  obtain ⟨h1, h2, h3⟩ := h
  have ha : passedArity o c = passedArity o' c := by unfold passedArity; rw [h3]
  have hr : requiredArity o = requiredArity o' := by unfold requiredArity; rw [h3, h1]
  rw [← h3, ← ha, ← hr]
  split_ifs
  · exact ⟨h1, h2, rfl⟩
  · rfl
  · rfl

theorem erase_controlled (tg nc ctrl) : (Expr.controlled tg nc ctrl).erase = .controlled tg.erase nc ctrl := by rw [Expr.erase]
theorem erase_multiplexed (tgs nc) : (Expr.multiplexed tgs nc).erase = .multiplexed (eraseList tgs) nc := by rw [Expr.erase]
theorem erase_call (e c) : (Expr.call e c).erase = .call e.erase c := by rw [Expr.erase]
theorem eraseList_nil : eraseList [] = [] := by rw [eraseList]
theorem eraseList_cons (e es) : eraseList (e :: es) = e.erase :: eraseList es := by rw [eraseList]

mutual
/-- evaluation does not depend on the payload -/
theorem eval_erase_sim : ∀ e : Expr, ResSim (eval e) (eval e.erase)
  | .leaf cls m mi f q => by rw [Expr.erase, eval_leaf, eval_leaf]; exact ⟨rfl, rfl, rfl⟩
  | .leaf2 cls m mi f q1 q2 => by rw [Expr.erase, eval_leaf2, eval_leaf2]; exact ⟨rfl, rfl, rfl⟩
  | .iswap q1 q2 m mi => by rw [Expr.erase, eval_iswap, eval_iswap]; exact ctorIswap_sim ..
  | .rotation shape q m mi => by rw [Expr.erase, eval_rotation, eval_rotation]; exact ctorRotation_sim ..
  | .phase nw m mi => by rw [Expr.erase, eval_phase, eval_phase]; exact ⟨rfl, rfl, rfl⟩
  | .prepare v nq tr q x => by rw [Expr.erase, eval_prepare, eval_prepare]; exact ctorPrepare_sim ..
  | .general a nw => by
    rw [Expr.erase]
    cases h : eval (.general a nw) with
    | ok o => exact Sim.refl o
    | error k => rfl
  | .timeEvo w hm t m mi => by rw [Expr.erase, eval_timeEvo, eval_timeEvo]; exact ⟨rfl, rfl, rfl⟩
  | .block ns meth hm s => by rw [Expr.erase, eval_block, eval_block]; exact ⟨rfl, rfl, rfl⟩
  | .controlled tg nc ctrl => by
    rw [erase_controlled, eval_controlled, eval_controlled]
    have ih := eval_erase_sim tg
    cases h1 : eval tg with
    | ok t =>
      obtain ⟨t', ht', hs⟩ := ih.ok_iff h1
      rw [ht']
      exact ctorControlled_sim hs nc ctrl
    | error k =>
      rw [(ih.error_iff k).mp h1]
      rfl
  | .multiplexed tgs nc => by
    rw [erase_multiplexed, eval_multiplexed, eval_multiplexed]
    have ih := evalList_erase_sim tgs
    cases h1 : evalList tgs with
    | ok ts =>
      rw [h1] at ih
      cases h2 : evalList (eraseList tgs) with
      | ok ts' => rw [h2] at ih; exact ctorMultiplexed_sim ih nc
      | error k => rw [h2] at ih; exact absurd ih id
    | error k =>
      rw [h1] at ih
      cases h2 : evalList (eraseList tgs) with
      | ok ts' => rw [h2] at ih; exact absurd ih id
      | error k' => rw [h2] at ih; exact ih
  | .call e c => by
    rw [erase_call, eval_call, eval_call]
    have ih := eval_erase_sim e
    cases h1 : eval e with
    | ok o =>
      obtain ⟨o', ho', hs⟩ := ih.ok_iff h1
      rw [ho']
      exact applyCall_sim hs c
    | error k =>
      rw [(ih.error_iff k).mp h1]
      rfl
theorem evalList_erase_sim : ∀ es : List Expr, ResSimList (evalList es) (evalList (eraseList es))
  | [] => by rw [eraseList_nil, evalList_nil]; exact .nil
  | e :: es => by
    rw [eraseList_cons, evalList_cons, evalList_cons]
    have ih := eval_erase_sim e
    have ihs := evalList_erase_sim es
    cases h1 : eval e with
    | ok o =>
      obtain ⟨o', ho', hs⟩ := ih.ok_iff h1
      rw [ho']
      cases h2 : evalList es with
      | ok os =>
        rw [h2] at ihs
        cases h3 : evalList (eraseList es) with
        | ok os' => rw [h3] at ihs; exact .cons hs ihs
        | error k => rw [h3] at ihs; exact absurd ihs id
      | error k =>
        rw [h2] at ihs
        cases h3 : evalList (eraseList es) with
        | ok os' => rw [h3] at ihs; exact absurd ihs id
        | error k' => rw [h3] at ihs; exact ihs
    | error k =>
      rw [(ih.error_iff k).mp h1]
      rfl
end

end Qib.GateCtor
