import QibProofs.Lemmas.TNetBridgeRel
/-!
Helper lemmas for C07, part 2: soundness of the certificate `einsumOK` – a certified einsum specification of a
consistent network evaluates (after `toFullSem`) to the defining sum `full` (no property statements).
-/
namespace Qib.TNet
variable {α : Type} [CommSemiring α]

/-- (bond, label) for every leg of the real operands of an einsum specification -/
def eLegs (net : Net) (e : EinsumSpec) : List (Int × Nat) :=
  (e.tids.zip e.tidx).flatMap (fun p => match dget net.tensors p.1 with
    | some t => t.bids.zip p.2
    | none => [])

/-- the labels of the logical axes -/
def eVLabels (e : EinsumSpec) : List Nat := e.axesMap.map (fun k => e.idxout[k]?.getD 0)

/-- all (bond, label) pairs -/
def eAll (net : Net) (v : STensor) (e : EinsumSpec) : List (Int × Nat) := eLegs net e ++ v.bids.zip (eVLabels e)

/-- declarative reading of the certificate `einsumOK` -/
structure EinsumCert (net : Net) (v : STensor) (e : EinsumSpec) : Prop where
  tids : e.tids = (isort (dkeys net.tensors)).erase (-1)
  len : e.tidx.length = e.tids.length
  rows : ∀ p ∈ e.tids.zip e.tidx, ∃ t, dget net.tensors p.1 = some t ∧ t.bids.length = p.2.length
  amlen : e.axesMap.length = v.bids.length
  amlt : ∀ k ∈ e.axesMap, k < e.idxout.length
  nodup : e.idxout.Nodup
  outv : ∀ l ∈ e.idxout, l ∈ eVLabels e
  bij : ∀ p ∈ eAll net v e, ∀ q ∈ eAll net v e, (p.1 = q.1 ↔ p.2 = q.2)

theorem einsumOK_iff {net : Net} {v : STensor} (hv : dget net.tensors (-1) = some v) (e : EinsumSpec) :
    einsumOK net e = true ↔ EinsumCert net v e := by
  unfold einsumOK
  rw [hv]
  simp only [Bool.and_eq_true, beq_iff_eq, List.all_eq_true, decide_eq_true_eq, nodupB_iff]
  constructor
  · rintro ⟨⟨⟨⟨⟨⟨⟨h1, h2⟩, h3⟩, h4⟩, h5⟩, h6⟩, h7⟩, h8⟩
    refine ⟨h1, h2, ?_, h4, h5, h6, ?_, ?_⟩
    · intro p hp
      have := h3 p hp
      split at this
      · rename_i t ht; exact ⟨t, ht, by simpa using this⟩
      · cases this
    · intro l hl
      have := h7 l hl
      simpa [eVLabels] using this
    · intro p hp q hq
      have := h8 p hp q hq
      by_cases ha : p.1 = q.1 <;> by_cases hb : p.2 = q.2 <;> simp_all
  · intro h
    refine ⟨⟨⟨⟨⟨⟨⟨h.tids, h.len⟩, ?_⟩, h.amlen⟩, h.amlt⟩, h.nodup⟩, ?_⟩, ?_⟩
    · intro p hp
      obtain ⟨t, ht, hl⟩ := h.rows p hp
      rw [ht]; simpa using hl
    · intro l hl
      have := h.outv l hl
      simpa [eVLabels] using this
    · intro p hp q hq
      have := h.bij p hp q hq
      by_cases ha : p.1 = q.1 <;> by_cases hb : p.2 = q.2 <;> simp_all
end Qib.TNet

namespace Qib.TNet
variable {α : Type} [CommSemiring α]

theorem mem_eLegs_iff {net : Net} {e : EinsumSpec} {p : Int × Nat} :
    p ∈ eLegs net e ↔ ∃ q ∈ e.tids.zip e.tidx, ∃ T, dget net.tensors q.1 = some T ∧ p ∈ T.bids.zip q.2 := by
  unfold eLegs
  rw [List.mem_flatMap]
  constructor
  · rintro ⟨q, hq, hp⟩
    split at hp
    · rename_i T hT; exact ⟨q, hq, T, hT, hp⟩
    · cases hp
  · rintro ⟨q, hq, T, hT, hp⟩
    exact ⟨q, hq, by rw [hT]; exact hp⟩

/-- the bond of a label: first component of the first pair carrying the label -/
def bondOf (all : List (Int × Nat)) (l : Nat) : Int := ((all.find? (fun p => p.2 == l)).map (·.1)).getD 0

theorem bondOf_eq {all : List (Int × Nat)} (hb : ∀ p ∈ all, ∀ q ∈ all, (p.1 = q.1 ↔ p.2 = q.2)) {b : Int} {l : Nat}
    (h : (b, l) ∈ all) : bondOf all l = b := by
  unfold bondOf
  cases hf : all.find? (fun p => p.2 == l) with
  | none =>
    have := List.find?_eq_none.mp hf (b, l) h
    simp at this
  | some p =>
    have h1 : p.2 = l := by simpa using List.find?_some hf
    have h2 : p ∈ all := List.mem_of_find?_eq_some hf
    simp only [Option.map_some, Option.getD_some]
    exact (hb p h2 (b, l) h).mpr h1

/-- the product over the real tensors in dictionary order = the product over the sorted real tensor ids -/
theorem prodL_realTensors {net : Net} (hn : (dkeys net.tensors).Nodup) (H : STensor → α) :
    prodL ((realTensors net).map H) = prodL (((isort (dkeys net.tensors)).erase (-1)).map (fun t =>
      match dget net.tensors t with
      | some T => H T
      | none => 1)) := by
  have h1 : (realTensors net).map H = (dkeys (dpop net.tensors (-1))).map (fun t =>
      match dget net.tensors t with
      | some T => H T
      | none => 1) := by
    simp only [realTensors, dkeys, dpop, List.map_map]
    apply List.map_congr_left
    intro x hx
    have hx' : x ∈ net.tensors := (List.mem_filter.mp hx).1
    simp only [Function.comp, dget_of_mem hn hx']
  rw [h1, dkeys_dpop]
  apply prodL_perm
  apply List.Perm.map
  have hns : (isort (dkeys net.tensors)).Nodup := (isort_perm _).nodup_iff.mpr hn
  rw [hns.erase_eq_filter]
  exact ((isort_perm _).filter _).symm

end Qib.TNet

namespace Qib.TNet
variable {α : Type} [CommSemiring α]

section Sound
variable {net : Net} {v : STensor} {e : EinsumSpec}

theorem EinsumCert.vlab_len (hc : EinsumCert net v e) : (eVLabels e).length = v.bids.length := by
  simp [eVLabels, hc.amlen]

theorem EinsumCert.vlab_get (hc : EinsumCert net v e) {j : Nat} (hj : j < v.bids.length) :
    ∃ (h1 : j < e.axesMap.length) (h2 : e.axesMap[j] < e.idxout.length),
      (eVLabels e)[j]? = some e.idxout[e.axesMap[j]] := by
  have h1 : j < e.axesMap.length := by rw [hc.amlen]; exact hj
  have h2 : e.axesMap[j] < e.idxout.length := hc.amlt _ (List.getElem_mem h1)
  refine ⟨h1, h2, ?_⟩
  simp [eVLabels, h1, h2]

theorem EinsumCert.vmem (hc : EinsumCert net v e) {j : Nat} (hj : j < v.bids.length) :
    ∃ (h1 : j < e.axesMap.length) (h2 : e.axesMap[j] < e.idxout.length),
      (v.bids[j], e.idxout[e.axesMap[j]]) ∈ eAll net v e := by
  obtain ⟨h1, h2, h3⟩ := hc.vlab_get hj
  refine ⟨h1, h2, ?_⟩
  unfold eAll
  apply List.mem_append_right
  rw [List.mem_iff_getElem?]
  exact ⟨j, by rw [List.getElem?_zip_eq_some]; exact ⟨List.getElem?_eq_getElem hj, h3⟩⟩

/-- two logical axes lie on the same bond iff they are mapped to the same output axis -/
theorem EinsumCert.bids_eq_iff (hc : EinsumCert net v e) {j j' : Nat} (hj : j < v.bids.length) (hj' : j' < v.bids.length) :
    v.bids[j] = v.bids[j'] ↔ e.axesMap[j]'(by rw [hc.amlen]; exact hj) = e.axesMap[j']'(by rw [hc.amlen]; exact hj') := by
  obtain ⟨h1, h2, h3⟩ := hc.vmem hj
  obtain ⟨h1', h2', h3'⟩ := hc.vmem hj'
  have := hc.bij _ h3 _ h3'
  simp only at this
  rw [this]
  exact ⟨fun h => (List.Nodup.getElem_inj_iff hc.nodup).mp h, fun h => by simp only [h]⟩

theorem EinsumCert.tid_ne (hc : EinsumCert net v e) (hn : (dkeys net.tensors).Nodup) {t : Int} (ht : t ∈ e.tids) :
    t ≠ -1 := by
  rw [hc.tids] at ht
  have hns : (isort (dkeys net.tensors)).Nodup := (isort_perm _).nodup_iff.mpr hn
  exact (hns.mem_erase_iff.mp ht).1

end Sound
end Qib.TNet

namespace Qib.TNet
variable {α : Type} [CommSemiring α]

/-- the real operands of the einsum call: data of tensor `tid` with its label row -/
def eArgs (dt : Int → DT α) (e : EinsumSpec) : List (DT α × List Nat) := (e.tids.zip e.tidx).map (fun p => (dt p.1, p.2))

/-- the ones-vectors appended for output labels that no real operand carries: label of a logical axis, with the
dimension of that axis -/
def OnesOK (v : STensor) (e : EinsumSpec) (ones : List (DT α × List Nat)) : Prop :=
  ∀ a ∈ ones, ∃ (j d p : Nat), a = (DT.ofFn [d] (fun _ => (1 : α)), [j]) ∧ (eVLabels e)[p]? = some j ∧ v.shape[p]? = some d

/-- the data handed to the einsum call agree with the network: shapes, and entries read through `D` -/
def DataOK (net : Net) (D : Option Int → List Nat → α) (dt : Int → DT α) : Prop :=
  ∀ tid T, tid ≠ -1 → dget net.tensors tid = some T → (dt tid).shape = T.shape ∧ ∀ i, (dt tid).get i = D T.dataref i

section Sound
variable {net : Net} {v : STensor} {e : EinsumSpec}

omit [CommSemiring α] in
theorem mem_einsumDims_eArgs {dt : Int → DT α} {ones : List (DT α × List Nat)} {p : Nat × Nat} :
    p ∈ einsumDims (eArgs dt e ++ ones) ↔
      (∃ q ∈ e.tids.zip e.tidx, p ∈ q.2.zip (dt q.1).shape) ∨ (∃ a ∈ ones, p ∈ a.2.zip a.1.shape) := by
  unfold einsumDims eArgs
  rw [List.flatMap_append, List.mem_append, List.mem_flatMap, List.mem_flatMap]
  constructor
  · rintro (⟨a, ha, hp⟩ | h)
    · obtain ⟨q, hq, rfl⟩ := List.mem_map.mp ha
      exact Or.inl ⟨q, hq, hp⟩
    · exact Or.inr h
  · rintro (⟨q, hq, hp⟩ | h)
    · exact Or.inl ⟨_, List.mem_map.mpr ⟨q, hq, rfl⟩, hp⟩
    · exact Or.inr h

/-- a real leg: position `a` of the row of operand `q` -/
theorem EinsumCert.leg (hc : EinsumCert net v e) {q : Int × List Nat} (hq : q ∈ e.tids.zip e.tidx) {a : Nat} {l : Nat}
    (hl : q.2[a]? = some l) : ∃ T b, dget net.tensors q.1 = some T ∧ T.bids[a]? = some b ∧ (b, l) ∈ eAll net v e := by
  obtain ⟨T, hT, hlen⟩ := hc.rows q hq
  have ha : a < q.2.length := by
    by_contra h; rw [List.getElem?_eq_none (by omega)] at hl; cases hl
  have ha' : a < T.bids.length := by omega
  refine ⟨T, T.bids[a], hT, List.getElem?_eq_getElem ha', ?_⟩
  unfold eAll
  apply List.mem_append_left
  rw [mem_eLegs_iff]
  refine ⟨q, hq, T, hT, ?_⟩
  rw [List.mem_iff_getElem?]
  exact ⟨a, by rw [List.getElem?_zip_eq_some]; exact ⟨List.getElem?_eq_getElem ha', hl⟩⟩

/-- every dimension seen by the einsum call is the dimension of the bond behind the label -/
theorem EinsumCert.dims (hc : EinsumCert net v e) (hwf : WF net) (hv : dget net.tensors (-1) = some v)
    {D : Option Int → List Nat → α} {dt : Int → DT α} (hdt : DataOK net D dt)
    {ones : List (DT α × List Nat)} (hones : OnesOK v e ones) {l d : Nat}
    (h : (l, d) ∈ einsumDims (eArgs dt e ++ ones)) {b : Int} (hb : (b, l) ∈ eAll net v e) : d = bondDim net b := by
  rcases mem_einsumDims_eArgs.mp h with ⟨q, hq, hp⟩ | ⟨a, ha, hp⟩
  · obtain ⟨a, hax⟩ := List.mem_iff_getElem?.mp hp
    rw [List.getElem?_zip_eq_some] at hax
    obtain ⟨T, b', hT, hb', hm⟩ := hc.leg hq hax.1
    have hne : q.1 ≠ -1 := hc.tid_ne hwf.tnodup (List.of_mem_zip hq).1
    rw [(hdt q.1 T hne hT).1] at hax
    have hbb : b' = b := (hc.bij _ hm _ hb).mpr rfl
    have := hwf.toWF0.shape_eq_bondDim (mem_of_dget_eq_some _ hT) hb'
    rw [hax.2] at this
    rw [← hbb]; exact Option.some.inj this
  · obtain ⟨j, d', p, rfl, hj, hd⟩ := hones a ha
    have hld : l = j ∧ d = d' := by
      have : (l, d) ∈ [j].zip [d'] := hp
      simpa using this
    obtain ⟨rfl, rfl⟩ := hld
    have hp' : p < v.bids.length := by
      rw [← hc.vlab_len]
      by_contra h; rw [List.getElem?_eq_none (by omega)] at hj; cases hj
    have hm : (v.bids[p], l) ∈ eAll net v e := by
      unfold eAll
      apply List.mem_append_right
      rw [List.mem_iff_getElem?]
      exact ⟨p, by rw [List.getElem?_zip_eq_some]; exact ⟨List.getElem?_eq_getElem hp', hj⟩⟩
    have hbb : v.bids[p] = b := (hc.bij _ hm _ hb).mpr rfl
    have := hwf.toWF0.shape_eq_bondDim (mem_of_dget_eq_some _ hv) (List.getElem?_eq_getElem hp')
    simp only at this
    rw [hd] at this
    rw [← hbb]; exact Option.some.inj this

end Sound
end Qib.TNet

namespace Qib.TNet
variable {α : Type} [CommSemiring α]
section Sound
variable {net : Net} {v : STensor} {e : EinsumSpec}

theorem EinsumCert.vmem' (hc : EinsumCert net v e) {j k l : Nat} {b : Int} (hb : v.bids[j]? = some b)
    (hk : e.axesMap[j]? = some k) (hl : e.idxout[k]? = some l) : (b, l) ∈ eAll net v e := by
  have hj : j < v.bids.length := by
    by_contra h; rw [List.getElem?_eq_none (by omega)] at hb; cases hb
  obtain ⟨h1, h2, h3⟩ := hc.vmem hj
  rw [List.getElem?_eq_getElem hj] at hb
  rw [List.getElem?_eq_getElem h1] at hk
  cases hb; cases hk
  rw [List.getElem?_eq_getElem h2] at hl
  cases hl
  exact h3

theorem mem_internalBids {net : Net} {v : STensor} {b : Int} :
    b ∈ internalBids net v ↔ b ∈ dkeys net.bonds ∧ b ∉ v.bids := by
  unfold internalBids
  rw [List.mem_filter]
  simp

omit [CommSemiring α] in
theorem mem_einsumSummed {args : List (DT α × List Nat)} {out : List Nat} {l : Nat} :
    l ∈ einsumSummed args out ↔ l ∈ (einsumDims args).map (·.1) ∧ l ∉ out := by
  unfold einsumSummed
  rw [List.mem_filter, List.mem_eraseDups]
  simp

/-- an output label is the label of a logical axis -/
theorem EinsumCert.out_axis (hc : EinsumCert net v e) {l : Nat} (hl : l ∈ e.idxout) :
    ∃ (j : Nat) (b : Int), v.bids[j]? = some b ∧ (b, l) ∈ eAll net v e := by
  obtain ⟨j, hj⟩ := List.mem_iff_getElem?.mp (hc.outv l hl)
  have hjl : j < v.bids.length := by
    rw [← hc.vlab_len]
    by_contra h; rw [List.getElem?_eq_none (by omega)] at hj; cases hj
  refine ⟨j, v.bids[j], List.getElem?_eq_getElem hjl, ?_⟩
  unfold eAll
  apply List.mem_append_right
  rw [List.mem_iff_getElem?]
  exact ⟨j, by rw [List.getElem?_zip_eq_some]; exact ⟨List.getElem?_eq_getElem hjl, hj⟩⟩

/-- the label of a logical axis is an output label -/
theorem EinsumCert.axis_out (hc : EinsumCert net v e) {j : Nat} {b : Int} (hb : v.bids[j]? = some b) :
    ∃ l, l ∈ e.idxout ∧ (b, l) ∈ eAll net v e := by
  have hj : j < v.bids.length := by
    by_contra h; rw [List.getElem?_eq_none (by omega)] at hb; cases hb
  obtain ⟨h1, h2, h3⟩ := hc.vmem hj
  rw [List.getElem?_eq_getElem hj] at hb
  cases hb
  exact ⟨_, List.getElem_mem h2, h3⟩

/-- a summed label belongs to a bond without open leg -/
theorem EinsumCert.summed_bond (hc : EinsumCert net v e) (hwf : WF net)
    {dt : Int → DT α} {ones : List (DT α × List Nat)} (hones : OnesOK v e ones) {l : Nat}
    (hl : l ∈ einsumSummed (eArgs dt e ++ ones) e.idxout) :
    ∃ b, (b, l) ∈ eAll net v e ∧ b ∈ internalBids net v := by
  rw [mem_einsumSummed] at hl
  obtain ⟨⟨l', d⟩, hld, rfl⟩ := List.mem_map.mp hl.1
  simp only at hl
  rcases mem_einsumDims_eArgs.mp hld with ⟨q, hq, hp⟩ | ⟨a, ha, hp⟩
  · obtain ⟨a, hax⟩ := List.mem_iff_getElem?.mp hp
    rw [List.getElem?_zip_eq_some] at hax
    obtain ⟨T, b, hT, hb, hm⟩ := hc.leg hq hax.1
    refine ⟨b, hm, ?_⟩
    rw [mem_internalBids]
    constructor
    · obtain ⟨B, hB⟩ := hwf.toWF0.bond_of_leg hT (List.mem_of_getElem? hb)
      exact (dget_isSome_iff _ _).mp (by rw [hB]; rfl)
    · intro hbv
      obtain ⟨j, hj⟩ := List.mem_iff_getElem?.mp hbv
      obtain ⟨l'', hl'', hm'⟩ := hc.axis_out hj
      have : l'' = l' := (hc.bij _ hm' _ hm).mp rfl
      exact hl.2 (this ▸ hl'')
  · exfalso
    obtain ⟨j, d', p, rfl, hj, hd⟩ := hones a ha
    have hld : l' = j ∧ d = d' := by
      have : (l', d) ∈ [j].zip [d'] := hp
      simpa using this
    obtain ⟨rfl, rfl⟩ := hld
    have hp' : p < v.bids.length := by
      rw [← hc.vlab_len]
      by_contra h; rw [List.getElem?_eq_none (by omega)] at hj; cases hj
    obtain ⟨h1, h2, h3⟩ := hc.vlab_get hp'
    rw [hj] at h3
    apply hl.2
    rw [Option.some.inj h3]
    exact List.getElem_mem h2

/-- a bond without open leg is carried by a real operand, under a summed label -/
theorem EinsumCert.internal_label (hc : EinsumCert net v e) (hwf : WF net) (hv : dget net.tensors (-1) = some v)
    {D : Option Int → List Nat → α} {dt : Int → DT α} (hdt : DataOK net D dt) {ones : List (DT α × List Nat)}
    {b : Int} (hb : b ∈ internalBids net v) :
    ∃ l, (b, l) ∈ eAll net v e ∧ l ∈ einsumSummed (eArgs dt e ++ ones) e.idxout := by
  rw [mem_internalBids] at hb
  obtain ⟨B, hBm⟩ := exists_mem_of_mem_dkeys hb.1
  have hB : dget net.bonds b = some B := dget_of_mem hwf.bnodup hBm
  have hlen := hwf.blen _ hBm
  simp only at hlen
  have ht : B.tids[0] ∈ B.tids := List.getElem_mem (by omega)
  obtain ⟨T, hT⟩ := hwf.toWF0.tensor_of_ref hB ht
  have hcnt := hwf.toWF0.mult hT hB
  have hbT : b ∈ T.bids := by
    rw [← List.count_pos_iff, ← hcnt]; exact List.count_pos_iff.mpr ht
  obtain ⟨a, ha⟩ := List.mem_iff_getElem?.mp hbT
  have hne : B.tids[0] ≠ -1 := by
    intro he
    rw [he, hv] at hT
    cases hT
    exact hb.2 hbT
  have htid : B.tids[0] ∈ e.tids := by
    rw [hc.tids]
    have hns : (isort (dkeys net.tensors)).Nodup := (isort_perm _).nodup_iff.mpr hwf.tnodup
    rw [hns.mem_erase_iff]
    exact ⟨hne, mem_isort.mpr ((dget_isSome_iff _ _).mp (by rw [hT]; rfl))⟩
  obtain ⟨i, hi, hie⟩ := List.getElem_of_mem htid
  have hi' : i < e.tidx.length := by rw [hc.len]; exact hi
  have hq : (B.tids[0], e.tidx[i]) ∈ e.tids.zip e.tidx := by
    rw [List.mem_iff_getElem?]
    exact ⟨i, by rw [List.getElem?_zip_eq_some, List.getElem?_eq_getElem hi, List.getElem?_eq_getElem hi', hie]; exact ⟨rfl, rfl⟩⟩
  obtain ⟨T', hT', hrow⟩ := hc.rows _ hq
  simp only at hT' hrow
  rw [hT] at hT'; cases hT'
  have haT : a < T.bids.length := by
    by_contra h; rw [List.getElem?_eq_none (by omega)] at ha; cases ha
  have hal : (e.tidx[i])[a]? = some (e.tidx[i])[a] := List.getElem?_eq_getElem (by omega)
  obtain ⟨T'', b', hT'', hb', hm⟩ := hc.leg hq hal
  simp only at hT''
  rw [hT] at hT''; cases hT''
  rw [ha] at hb'; cases hb'
  refine ⟨_, hm, ?_⟩
  rw [mem_einsumSummed]
  constructor
  · have hsh : a < (dt B.tids[0]).shape.length := by
      rw [(hdt _ T hne hT).1, hwf.tshape _ (mem_of_dget_eq_some _ hT)]; exact haT
    apply List.mem_map.mpr
    refine ⟨((e.tidx[i])[a], (dt B.tids[0]).shape[a]), ?_, rfl⟩
    rw [mem_einsumDims_eArgs]
    left
    refine ⟨_, hq, ?_⟩
    rw [List.mem_iff_getElem?]
    exact ⟨a, by rw [List.getElem?_zip_eq_some]; exact ⟨hal, List.getElem?_eq_getElem hsh⟩⟩
  · intro hout
    obtain ⟨j, b'', hj, hm'⟩ := hc.out_axis hout
    have : b'' = b := (hc.bij _ hm' _ hm).mpr rfl
    rw [this] at hj
    exact hb.2 (List.mem_of_getElem? hj)

end Sound
end Qib.TNet

namespace Qib.TNet
variable {α : Type} [CommSemiring α]
section Sound
variable {net : Net} {v : STensor} {e : EinsumSpec}

/-- **Soundness of `einsumOK`.** For a consistent network, a certified einsum specification, operands that carry the
network's data and ones-vectors for the dangling output labels: the expanded einsum value is the defining sum. -/
theorem einsumOK_sound (hwf : WF net) (hv : dget net.tensors (-1) = some v) (hc : EinsumCert net v e)
    {D : Option Int → List Nat → α} {dt : Int → DT α} (hdt : DataOK net D dt)
    {ones : List (DT α × List Nat)} (hones : OnesOK v e ones) {r : DT α}
    (hr : einsumEval (eArgs dt e ++ ones) e.idxout = .ok r) (idx : List Nat)
    (hidx : List.Forall₂ (fun i d => i < d) idx v.shape) :
    toFullSem r e.axesMap idx = full net D idx := by
  obtain ⟨hlenA, hdimsA, _, houtA, rfl⟩ := einsumEval_ok hr
  have hvmem := mem_of_dget_eq_some _ hv
  have hvlen : v.shape.length = v.bids.length := hwf.tshape _ hvmem
  have hidxlen : idx.length = v.bids.length := by rw [← hvlen]; exact hidx.length_eq
  have hamlen := hc.amlen
  have hidxlt : ∀ j (hj : j < v.bids.length), idx[j]?.getD 0 < bondDim net v.bids[j] := by
    intro j hj
    have h1 := (List.forall₂_iff_get.mp hidx).2 j (by omega) (by omega)
    have h2 := hwf.toWF0.shape_eq_bondDim hvmem (List.getElem?_eq_getElem hj)
    simp only at h2
    rw [List.getElem?_eq_getElem (by omega)] at h2
    simp only [List.get_eq_getElem] at h1
    rw [Option.some.inj h2] at h1
    rw [List.getElem?_eq_getElem (by omega)]
    exact h1
  by_cases hp : pinsOK v.bids idx = true
  swap
  · -- both sides vanish
    have hfull : full net D idx = 0 := by
      unfold full; rw [hv]; simp only; rw [if_neg hp]
    rw [hfull]
    rw [pinsOK_iff] at hp
    have : ∃ k k', k < v.bids.length ∧ k' < v.bids.length ∧ v.bids[k]? = v.bids[k']? ∧ idx[k]? ≠ idx[k']? := by
      by_contra hcon
      apply hp
      refine ⟨hidxlen.symm, fun k k' hk hk' he => ?_⟩
      by_contra hne
      exact hcon ⟨k, k', hk, hk', he, hne⟩
    obtain ⟨k, k', hk, hk', he, hne⟩ := this
    have hka : k < e.axesMap.length := by omega
    have hka' : k' < e.axesMap.length := by omega
    have heq : v.bids[k] = v.bids[k'] := by
      rw [List.getElem?_eq_getElem hk, List.getElem?_eq_getElem hk'] at he; exact Option.some.inj he
    have ham := (hc.bids_eq_iff hk hk').mp heq
    apply toFullSem_zero _ _ _ k k' e.axesMap[k] hka hka' (List.getElem?_eq_getElem hka)
      (by rw [List.getElem?_eq_getElem hka', ham])
    · simp only [DT.ofFn, List.length_map]; exact hc.amlt _ (List.getElem_mem hka)
    · rw [List.getElem?_eq_getElem (by omega), List.getElem?_eq_getElem (by omega)] at hne ⊢
      simpa using hne
  -- the pins are consistent
  have hsurj : ∀ ax, ax < e.idxout.length → ∃ j, j < e.axesMap.length ∧ e.axesMap[j]? = some ax := by
    intro ax hax
    obtain ⟨j, hj⟩ := List.mem_iff_getElem?.mp (hc.outv _ (List.getElem_mem hax))
    have hjl : j < v.bids.length := by
      rw [← hc.vlab_len]
      by_contra h; rw [List.getElem?_eq_none (by omega)] at hj; cases hj
    obtain ⟨h1, h2, h3⟩ := hc.vlab_get hjl
    rw [hj] at h3
    have := (List.Nodup.getElem_inj_iff hc.nodup).mp (Option.some.inj h3)
    exact ⟨j, h1, by rw [List.getElem?_eq_getElem h1, ← this]⟩
  have hfacG : ∀ j (hj : j < e.axesMap.length), idx[j]?.getD 0 = idx[e.axesMap.idxOf e.axesMap[j]]?.getD 0 := by
    intro j hj
    have hm : e.axesMap[j] ∈ e.axesMap := List.getElem_mem hj
    have h0 : e.axesMap.idxOf e.axesMap[j] < e.axesMap.length := List.idxOf_lt_length_of_mem hm
    have h1 : e.axesMap[e.axesMap.idxOf e.axesMap[j]] = e.axesMap[j] := List.getElem_idxOf h0
    have hb := (hc.bids_eq_iff (j := e.axesMap.idxOf e.axesMap[j]) (j' := j) (by omega) (by omega)).mpr h1
    have := ((pinsOK_iff _ _).mp hp).2 (e.axesMap.idxOf e.axesMap[j]) j (by omega) (by omega)
      (by rw [List.getElem?_eq_getElem (by omega), List.getElem?_eq_getElem (by omega), hb])
    rw [this]
  set o := (List.range e.idxout.length).map (fun k => idx[e.axesMap.idxOf k]?.getD 0) with ho
  have hoget : ∀ k (hk : k < e.idxout.length), o[k]?.getD 0 = idx[e.axesMap.idxOf k]?.getD 0 := by
    intro k hk; simp [ho, hk]
  rw [toFullSem_of_factor _ _ _ o (by simp [ho, DT.ofFn])
    (by intro ax hax; exact hsurj ax (by simpa [DT.ofFn] using hax))
    (by
      intro j hj ax hax haxl
      have haxl' : ax < e.idxout.length := by simpa [DT.ofFn] using haxl
      rw [List.getElem?_eq_getElem hj] at hax
      cases hax
      rw [hoget _ haxl']
      exact hfacG j hj)]
  -- value of `o` at an output position: the index of a logical axis on the bond of the label
  have hoval : ∀ k (hk : k < e.idxout.length), ∃ j, ∃ (hj : j < v.bids.length), (v.bids[j], e.idxout[k]) ∈ eAll net v e ∧
      o[k]?.getD 0 = idx[j]?.getD 0 := by
    intro k hk
    obtain ⟨j, hj, hjk⟩ := hsurj k hk
    rw [List.getElem?_eq_getElem hj] at hjk
    have hjk' : e.axesMap[j] = k := Option.some.inj hjk
    refine ⟨j, by omega, ?_, ?_⟩
    · exact hc.vmem' (List.getElem?_eq_getElem (by omega)) (List.getElem?_eq_getElem hj)
        (by rw [hjk']; exact List.getElem?_eq_getElem hk)
    · rw [hoget k hk, hfacG j hj, hjk']
  have hdimL : ∀ l b, (b, l) ∈ eAll net v e → l ∈ (einsumDims (eArgs dt e ++ ones)).map (·.1) →
      ((einsumDims (eArgs dt e ++ ones)).lookup l).getD 1 = bondDim net b := by
    intro l b hb hl
    obtain ⟨d, h1, h2⟩ := lookup_mem hl
    rw [h1, Option.getD_some]
    exact hc.dims hwf hv hdt hones h2 hb
  rw [DT.get_ofFn]
  swap
  · rw [List.forall₂_iff_get]
    refine ⟨by simp [ho], ?_⟩
    intro k h1 h2
    have hk : k < e.idxout.length := by simpa [ho] using h1
    obtain ⟨j, hj, hm, hov⟩ := hoval k hk
    simp only [List.get_eq_getElem, List.getElem_map]
    rw [hdimL _ _ hm (houtA _ (List.getElem_mem hk))]
    have := hidxlt j hj
    rw [← hov, List.getElem?_eq_getElem h1] at this
    simpa using this
  -- the two sums
  unfold full
  rw [hv]
  simp only
  rw [if_pos hp]
  unfold einsumSem
  set args := eArgs dt e ++ ones with hargs
  set all := eAll net v e with hall
  set zs := (einsumSummed args e.idxout).map (fun l => (bondOf all l, l)) with hzs
  have hz2 : zs.map (·.2) = einsumSummed args e.idxout := by
    simp [hzs, List.map_map, Function.comp_def]
  have hzmem : ∀ z ∈ zs, z ∈ all ∧ z.2 ∈ einsumSummed args e.idxout ∧ z.1 ∈ internalBids net v := by
    intro z hz
    obtain ⟨l, hl, rfl⟩ := List.mem_map.mp hz
    obtain ⟨b, hb1, hb2⟩ := hc.summed_bond hwf hones hl
    rw [bondOf_eq hc.bij hb1]
    exact ⟨hb1, hl, hb2⟩
  have hperm : (zs.map (·.1)).Perm (internalBids net v) := by
    apply (List.perm_ext_iff_of_nodup ?_ ?_).mpr
    · intro x
      constructor
      · intro hx
        obtain ⟨z, hz, rfl⟩ := List.mem_map.mp hx
        exact (hzmem z hz).2.2
      · intro hx
        obtain ⟨l, hl1, hl2⟩ := hc.internal_label hwf hv hdt (ones := ones) hx
        exact List.mem_map.mpr ⟨(bondOf all l, l), List.mem_map.mpr ⟨l, hl2, rfl⟩, bondOf_eq hc.bij hl1⟩
    · rw [hzs, List.map_map]
      apply List.Nodup.map_on
      · intro l hl l' hl' heq
        simp only [Function.comp] at heq
        obtain ⟨b, hb1, _⟩ := hc.summed_bond hwf hones hl
        obtain ⟨b', hb1', _⟩ := hc.summed_bond hwf hones hl'
        rw [bondOf_eq hc.bij hb1, bondOf_eq hc.bij hb1'] at heq
        exact (hc.bij _ hb1 _ hb1').mp heq
      · unfold einsumSummed
        exact (nodup_eraseDups' _).filter _
    · unfold internalBids
      exact hwf.bnodup.filter _
  rw [← hz2, ← sumOver_perm _ hperm]
  symm
  apply sumOver_rel (bondDim net) _ all _ _ zs
  · intro z hz
    obtain ⟨h1, h2, _⟩ := hzmem z hz
    refine ⟨(hdimL z.2 z.1 h1 (mem_einsumSummed.mp h2).1).symm, fun p hp' => hc.bij p hp' z h1⟩
  · -- the summands agree
    intro σ' lam' hR _ hlam _
    unfold einsumTerm
    rw [hargs, List.map_append, prodL_append, prodL_ones (List.map _ ones), mul_one]
    · rw [prodL_realTensors hwf.tnodup (fun t => D t.dataref (t.bids.map σ')), ← hc.tids]
      have : e.tids = (e.tids.zip e.tidx).map (·.1) := by
        rw [List.map_fst_zip]; rw [hc.len]
      rw [this, List.map_map, eArgs, List.map_map]
      congr 1
      apply List.map_congr_left
      intro q hq
      simp only [Function.comp]
      obtain ⟨T, hT, hrow⟩ := hc.rows q hq
      have hne : q.1 ≠ -1 := hc.tid_ne hwf.tnodup (List.of_mem_zip hq).1
      rw [hT]
      simp only
      rw [← (hdt q.1 T hne hT).2]
      congr 1
      apply List.ext_getElem?
      intro a
      simp only [List.getElem?_map]
      by_cases ha : a < q.2.length
      · obtain ⟨T', b, hT', hb, hm⟩ := hc.leg hq (List.getElem?_eq_getElem ha)
        rw [hT] at hT'; cases hT'
        rw [hb, List.getElem?_eq_getElem ha]
        simp only [Option.map_some]
        exact congrArg some (hR _ hm)
      · rw [List.getElem?_eq_none (by omega), List.getElem?_eq_none (by omega)]
        rfl
    · intro x hx
      obtain ⟨a, ha, rfl⟩ := List.mem_map.mp hx
      obtain ⟨j, d, p, rfl, hj, hd⟩ := hones a ha
      have hp' : p < v.bids.length := by
        rw [← hc.vlab_len]
        by_contra h; rw [List.getElem?_eq_none (by omega)] at hj; cases hj
      obtain ⟨h1, h2, h3⟩ := hc.vlab_get hp'
      rw [hj] at h3
      have hjout : j = e.idxout[e.axesMap[p]] := Option.some.inj h3
      have hjmem : j ∈ e.idxout := hjout ▸ List.getElem_mem h2
      have hjns : j ∉ zs.map (·.2) := by
        rw [hz2, mem_einsumSummed]; exact fun h => h.2 hjmem
      simp only [List.map_cons, List.map_nil]
      rw [DT.get_ofFn]
      refine List.Forall₂.cons ?_ List.Forall₂.nil
      rw [hlam j hjns, hjout, pin_getElem _ _ _ hc.nodup _ h2 (by simpa [ho] using h2)]
      have hov : o[e.axesMap[p]]?.getD 0 = idx[p]?.getD 0 := by
        rw [hoget _ h2]; exact (hfacG p h1).symm
      rw [List.getElem?_eq_getElem (by simpa [ho] using h2)] at hov
      simp only [Option.getD_some] at hov
      rw [hov]
      have hlt := hidxlt p hp'
      have hs := hwf.toWF0.shape_eq_bondDim hvmem (List.getElem?_eq_getElem hp')
      simp only at hs
      rw [hd] at hs
      rw [Option.some.inj hs]; exact hlt
  · -- the pinned labels agree
    intro p hp' hnot
    have hni : p.1 ∉ internalBids net v := fun h => hnot (hperm.mem_iff.mpr h)
    have hpv : p.1 ∈ v.bids := by
      rw [hall] at hp'
      unfold eAll at hp'
      rcases List.mem_append.mp hp' with h | h
      · rw [mem_eLegs_iff] at h
        obtain ⟨q, hq, T, hT, hpz⟩ := h
        have hbT : p.1 ∈ T.bids := (List.of_mem_zip hpz).1
        obtain ⟨B, hB⟩ := hwf.toWF0.bond_of_leg hT hbT
        have hk : p.1 ∈ dkeys net.bonds := (dget_isSome_iff _ _).mp (by rw [hB]; rfl)
        by_contra hcon
        exact hni (mem_internalBids.mpr ⟨hk, hcon⟩)
      · exact (List.of_mem_zip h).1
    obtain ⟨j, hj, hje⟩ := List.getElem_of_mem hpv
    have hja : j < e.axesMap.length := by omega
    have hk := hc.amlt _ (List.getElem_mem hja)
    have hm := hc.vmem' (List.getElem?_eq_getElem hj) (List.getElem?_eq_getElem hja) (List.getElem?_eq_getElem hk)
    have hl : p.2 = e.idxout[e.axesMap[j]] := (hc.bij p hp' _ hm).mp hje.symm
    rw [hl, ← hje, pin_int_getElem _ _ _ hp j hj, pin_getElem _ _ _ hc.nodup _ hk (by simpa [ho] using hk)]
    have hov : o[e.axesMap[j]]?.getD 0 = idx[j]?.getD 0 := by
      rw [hoget _ hk]; exact (hfacG j hja).symm
    rw [List.getElem?_eq_getElem (by simpa [ho] using hk)] at hov
    simpa using hov.symm

end Sound
end Qib.TNet
