import QibProofs.Lemmas.CircuitNetTotalHits
/-!
Helper lemmas for C05 (totality of `Circuit.as_tensornet`), part 2: the slack bookkeeping along the join loop of
`merge`. Bonds of the first operand (ids in `A`) start with slack `ka`, all others with slack 1; whenever a join pair
is processed the bond on its two axes ends up with slack `1 + ka`, and at the end every bond has slack 1 provided
every first-operand bond without slack 1 carried a joined axis. No property statements.
-/
namespace Qib.TNet

/-- the bookkeeping invariant of the join loop: `R` = join pairs still to be processed, `Pd` = processed ones -/
structure JS (A : List Int) (orig : Nat) (W : List Nat) (ka : Nat) (net : Net) (bids : List Int)
    (R Pd : List (Nat × Nat)) : Prop where
  g2 : ∀ p c, p < orig → bids[p]? = some c → c ∈ A
  g3 : ∀ q c, orig ≤ q → bids[q]? = some c → c ∈ A → Slk net bids W (1 + ka) c
  g5 : ∀ c ∈ A, Slk net bids W ka c
  g6 : ∀ c, c ∉ A → Slk net bids W 1 c
  g1 : ∀ c ∈ A, Slk net bids W 1 c ∨ ∃ ja ∈ R, bids[ja.1]? = some c
  g4 : ∀ ja ∈ Pd, ∃ c, bids[ja.1]? = some c ∧ bids[orig + ja.2]? = some c ∧ Slk net bids W (1 + ka) c

theorem getElem?_map_rep {l : List Int} {p : Nat} {c : Int} {b1 b2 : Int} (h : (l.map (rep b2 b1))[p]? = some c) :
    ∃ c0, l[p]? = some c0 ∧ c = rep b2 b1 c0 := by
  rw [List.getElem?_map] at h
  cases h0 : l[p]? with
  | none => rw [h0] at h; cases h
  | some c0 => rw [h0] at h; exact ⟨c0, rfl, (Option.some.inj h).symm⟩

theorem joinStep_js {A : List Int} {W : List Nat} {ka : Nat} {S : List Nat} {orig : Nat} {st st' : Net × List Nat}
    {ja : Nat × Nat} {R Pd : List (Nat × Nat)} {toa : STensor} (h : JInv S st.1)
    (hv : dget st.1.tensors (-1) = some toa) (hW : ∀ d ∈ W, d < toa.bids.length) (hja : ja.1 < orig)
    (hjs : JS A orig W ka st.1 toa.bids (ja :: R) Pd) (hok : joinStep orig st ja = .ok st') :
    ∃ toa', dget st'.1.tensors (-1) = some toa' ∧ toa'.bids.length = toa.bids.length ∧
      JS A orig W ka st'.1 toa'.bids R (ja :: Pd) := by
  obtain ⟨toa0, b1, b2, hv0, hb1, hb2, hm, _⟩ := joinStep_ok hok
  rw [hv] at hv0; cases hv0
  obtain ⟨hw, _⟩ := h
  have hb1A : b1 ∈ A := hjs.g2 _ _ hja hb1
  by_cases hb : b1 = b2
  · -- the two axes already sit on one bond: nothing changes
    subst hb
    rw [mergeBonds_eq] at hm
    simp only [beq_self_eq_true, if_true] at hm
    have hs1 : st'.1 = st.1 := (Except.ok.inj hm).symm
    rw [hs1]
    have hsl : Slk st.1 toa.bids W (1 + ka) b1 := hjs.g3 _ _ (Nat.le_add_right _ _) hb2 hb1A
    refine ⟨toa, hv, rfl, hjs.g2, hjs.g3, hjs.g5, hjs.g6, ?_, ?_⟩
    · intro c hc
      rcases hjs.g1 c hc with h1 | ⟨ja', hja', hc'⟩
      · exact Or.inl h1
      · rcases List.mem_cons.mp hja' with rfl | hja'
        · rw [hb1] at hc'; cases hc'
          exact Or.inl (hsl.mono (by omega))
        · exact Or.inr ⟨ja', hja', hc'⟩
    · intro ja' hja'
      rcases List.mem_cons.mp hja' with rfl | hja'
      · exact ⟨b1, hb1, hb2, hsl⟩
      · exact hjs.g4 ja' hja'
  · obtain ⟨B1, B2, hB1, hB2, heq⟩ := mergeBonds_spec hw.toWF0 hb hm
    have hv1 : dget st'.1.tensors (-1) = some { toa with bids := toa.bids.map (rep b2 b1) } := by
      rw [heq]; show dget (relTensors _ _) (-1) = _
      rw [dget_relTensors, hv]; rfl
    refine ⟨_, hv1, by simp, ?_⟩
    rw [heq]
    simp only
    -- slack of the second bond
    have hs2 : Slk st.1 toa.bids W 1 b2 := by
      by_cases h2A : b2 ∈ A
      · exact (hjs.g3 _ _ (Nat.le_add_right _ _) hb2 h2A).mono (by omega)
      · exact hjs.g6 _ h2A
    have hs1 : Slk st.1 toa.bids W ka b1 := hjs.g5 _ hb1A
    have hfuse := slk_fuse_b1 hW hb hB2 (relTensors (rep b2 b1) st.1.tensors) hs1 hs2
    have hfuse' : ∀ k, k ≤ ka + 1 →
        Slk ⟨relTensors (rep b2 b1) st.1.tensors, dmodify (dpop st.1.bonds b2) b1 (fun b => catBond b B2)⟩
          (toa.bids.map (rep b2 b1)) W k b1 := fun k hk => hfuse.mono hk
    have hother : ∀ c k, c ≠ b1 → Slk st.1 toa.bids W k c →
        Slk ⟨relTensors (rep b2 b1) st.1.tensors, dmodify (dpop st.1.bonds b2) b1 (fun b => catBond b B2)⟩
          (toa.bids.map (rep b2 b1)) W k c := by
      intro c k hc1 hc
      by_cases hc2 : c = b2
      · rw [hc2]; exact slk_fuse_b2 hb k _
      · exact slk_fuse_other hW hb _ hc1 hc2 hc
    refine ⟨?_, ?_, ?_, ?_, ?_, ?_⟩
    · intro p c hp hc
      obtain ⟨c0, hc0, rfl⟩ := getElem?_map_rep hc
      have := hjs.g2 p c0 hp hc0
      by_cases e : c0 = b2
      · rw [e, rep_self]; exact hb1A
      · rw [rep_of_ne e]; exact this
    · intro q c hq hc hcA
      obtain ⟨c0, hc0, rfl⟩ := getElem?_map_rep hc
      by_cases e : c0 = b2
      · rw [e, rep_self]; exact hfuse' _ (by omega)
      · rw [rep_of_ne e] at hcA ⊢
        by_cases e1 : c0 = b1
        · rw [e1]; exact hfuse' _ (by omega)
        · exact hother _ _ e1 (hjs.g3 q c0 hq hc0 hcA)
    · intro c hc
      by_cases e1 : c = b1
      · rw [e1]; exact hfuse' _ (by omega)
      · exact hother _ _ e1 (hjs.g5 c hc)
    · intro c hc
      have e1 : c ≠ b1 := fun e => hc (e ▸ hb1A)
      exact hother _ _ e1 (hjs.g6 c hc)
    · intro c hc
      by_cases e1 : c = b1
      · rw [e1]; exact Or.inl (hfuse' _ (by omega))
      · rcases hjs.g1 c hc with h1 | ⟨ja', hja', hc'⟩
        · exact Or.inl (hother _ _ e1 h1)
        · rcases List.mem_cons.mp hja' with rfl | hja'
          · rw [hb1] at hc'; exact absurd (Option.some.inj hc').symm e1
          · by_cases e2 : c = b2
            · rw [e2]; exact Or.inl (slk_fuse_b2 hb 1 _)
            · refine Or.inr ⟨ja', hja', ?_⟩
              rw [List.getElem?_map, hc']
              simp [rep_of_ne e2]
    · intro ja' hja'
      rcases List.mem_cons.mp hja' with rfl | hja'
      · refine ⟨b1, ?_, ?_, hfuse' _ (by omega)⟩
        · rw [List.getElem?_map, hb1]; simp [rep_of_ne hb]
        · rw [List.getElem?_map, hb2]; simp [rep_self]
      · obtain ⟨c0, h1, h2, h3⟩ := hjs.g4 ja' hja'
        refine ⟨rep b2 b1 c0, by rw [List.getElem?_map, h1]; rfl, by rw [List.getElem?_map, h2]; rfl, ?_⟩
        by_cases e : c0 = b2
        · rw [e, rep_self]; exact hfuse' _ (by omega)
        · rw [rep_of_ne e]
          by_cases e1 : c0 = b1
          · rw [e1]; exact hfuse' _ (by omega)
          · exact hother _ _ e1 h3

theorem join_fold_js {A : List Int} {W : List Nat} {ka : Nat} {S : List Nat} {orig : Nat} {joinN : List (Nat × Nat)}
    {st st' : Net × List Nat} {Pd : List (Nat × Nat)} {toa : STensor} (h : JInv S st.1)
    (hdim : ∀ ja ∈ joinN, S[ja.1]? = S[orig + ja.2]?)
    (hv : dget st.1.tensors (-1) = some toa) (hW : ∀ d ∈ W, d < toa.bids.length) (hja : ∀ ja ∈ joinN, ja.1 < orig)
    (hjs : JS A orig W ka st.1 toa.bids joinN Pd) (hf : joinN.foldlM (joinStep orig) st = .ok st') :
    ∃ toa', dget st'.1.tensors (-1) = some toa' ∧ toa'.bids.length = toa.bids.length ∧
      JS A orig W ka st'.1 toa'.bids [] (joinN.reverse ++ Pd) := by
  induction joinN generalizing st Pd toa with
  | nil =>
    have := foldlM_nil_ok _ _ _ hf
    subst this
    exact ⟨toa, hv, rfl, by simpa using hjs⟩
  | cons ja js ih =>
    obtain ⟨s1, hs, hrest⟩ := foldlM_cons_ok _ _ _ _ _ hf
    have h1 := joinStep_inv h (hdim ja List.mem_cons_self) hs
    obtain ⟨toa1, hv1, hl1, hjs1⟩ := joinStep_js h hv hW (hja ja List.mem_cons_self) hjs hs
    obtain ⟨toa', hv', hl', hjs'⟩ := ih h1 (fun x hx => hdim x (List.mem_cons_of_mem _ hx)) hv1
      (by rw [hl1]; exact hW) (fun x hx => hja x (List.mem_cons_of_mem _ hx)) hjs1 hrest
    refine ⟨toa', hv', by rw [hl', hl1], ?_⟩
    simpa using hjs'

end Qib.TNet
