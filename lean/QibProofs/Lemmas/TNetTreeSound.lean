import QibProofs.Lemmas.TNetTreeStruct
/-!
Helper lemmas for C07, part 6: the value of a certified contraction tree. `node_step`: the pairwise einsum of one
certified node sums the product of its children over the bonds contracted there; `treeEval_sound`: by induction, the
tree value is the sum over all bonds contracted inside of the product of the leaf tensors (no property statements).
-/
namespace Qib.TNet
variable {α : Type} [CommSemiring α]

/-- the multi-index of a node's tensor under the bond assignment `σ` -/
def nodeIdx (net : Net) (c : NodeInfo) (σ : Int → Nat) : List Nat :=
  (List.range c.idxout.length).map (fun k => σ (legB net c k))

/-- the shape a node's tensor must have -/
def nodeShape (net : Net) (c : NodeInfo) : List Nat :=
  (List.range c.idxout.length).map (fun k => bondDim net (legB net c k))

/-- `σ` is within the dimensions on the legs of the node -/
def InR (net : Net) (c : NodeInfo) (σ : Int → Nat) : Prop :=
  ∀ k, k < c.idxout.length → σ (legB net c k) < bondDim net (legB net c k)

section Node
variable {net : Net} {n cL cR : NodeInfo}

/-- every output leg of a node carries the label of its bond -/
theorem NodeCert.pairOut (hc : NodeCert net n cL cR) {k : Nat} (hk : k < n.idxout.length) :
    (legB net n k, n.idxout[k]) ∈ pairsN net n cL cR := by
  obtain ⟨oa, hm, hb⟩ := hc.iN.leg hk
  obtain ⟨b, l, hb', hp, hl⟩ := hc.track _ hm
  simp only at hb' hl
  rw [hb] at hb'
  cases hb'
  rw [List.getElem?_eq_getElem hk] at hl
  cases hl
  exact hp

theorem nodeShape_getElem? (net : Net) (c : NodeInfo) (k : Nat) (hk : k < c.idxout.length) :
    (nodeShape net c)[k]? = some (bondDim net (legB net c k)) := by
  simp [nodeShape, hk]

theorem nodeIdx_getElem? (net : Net) (c : NodeInfo) (σ : Int → Nat) (k : Nat) (hk : k < c.idxout.length) :
    (nodeIdx net c σ)[k]? = some (σ (legB net c k)) := by
  simp [nodeIdx, hk]

theorem get_nodeIdx_inrange (net : Net) (c : NodeInfo) (σ : Int → Nat) (h : InR net c σ) :
    List.Forall₂ (fun i d => i < d) (nodeIdx net c σ) (nodeShape net c) := by
  rw [List.forall₂_iff_get]
  refine ⟨by simp [nodeIdx, nodeShape], ?_⟩
  intro k h1 h2
  have hk : k < c.idxout.length := by simpa [nodeIdx] using h1
  simp only [List.get_eq_getElem, nodeIdx, nodeShape, List.getElem_map, List.getElem_range]
  exact h k hk

/-- **one node**: the pairwise einsum of a certified node sums the product of the children over the bonds contracted
there -/
theorem node_step (hc : NodeCert net n cL cR) {tL tR r : DT α} (hsL : tL.shape = nodeShape net cL)
    (hsR : tR.shape = nodeShape net cR) (hr : einsumEval [(tL, n.idxL), (tR, n.idxR)] n.idxout = .ok r) :
    r.shape = nodeShape net n ∧ ∀ σ, InR net n σ →
      r.get (nodeIdx net n σ) = sumOver (bondDim net) (elimAt net n cL cR)
        (fun τ => tL.get (nodeIdx net cL τ) * tR.get (nodeIdx net cR τ)) σ := by
  obtain ⟨_, _, _, _, rfl⟩ := einsumEval_ok hr
  set args : List (DT α × List Nat) := [(tL, n.idxL), (tR, n.idxR)] with hargs
  set pairs := pairsN net n cL cR with hpairs
  have hdims : einsumDims args = n.idxL.zip tL.shape ++ n.idxR.zip tR.shape := by
    simp [einsumDims, hargs]
  have hlab : (einsumDims args).map (·.1) = n.idxL ++ n.idxR := by
    rw [hdims, List.map_append, List.map_fst_zip, List.map_fst_zip]
    · rw [hsR, hc.lenR]; simp [nodeShape]
    · rw [hsL, hc.lenL]; simp [nodeShape]
  have hsummed : einsumSummed args n.idxout = summedAt n := by
    unfold einsumSummed summedAt
    rw [hlab]
  -- dimensions
  have hDIM : ∀ l d, (l, d) ∈ einsumDims args → ∀ b, (b, l) ∈ pairs → d = bondDim net b := by
    intro l d hld b hb
    rw [hdims, List.mem_append] at hld
    rcases hld with h | h
    · obtain ⟨k, hk⟩ := List.mem_iff_getElem?.mp h
      rw [List.getElem?_zip_eq_some] at hk
      have hkl : k < n.idxL.length := by
        by_contra hcon; rw [List.getElem?_eq_none (by omega)] at hk; cases hk.1
      have hkc : k < cL.idxout.length := by rw [← hc.lenL]; exact hkl
      have hp := hc.pairL hkc
      rw [List.getElem?_eq_getElem hkl] at hk
      have hl : n.idxL[k] = l := Option.some.inj hk.1
      rw [hl] at hp
      have hbb : legB net cL k = b := (hc.bij _ hp _ hb).mpr rfl
      have := hk.2
      rw [hsL, nodeShape_getElem? net cL k hkc] at this
      rw [← hbb]; exact (Option.some.inj this).symm
    · obtain ⟨k, hk⟩ := List.mem_iff_getElem?.mp h
      rw [List.getElem?_zip_eq_some] at hk
      have hkl : k < n.idxR.length := by
        by_contra hcon; rw [List.getElem?_eq_none (by omega)] at hk; cases hk.1
      have hkc : k < cR.idxout.length := by rw [← hc.lenR]; exact hkl
      have hp := hc.pairR hkc
      rw [List.getElem?_eq_getElem hkl] at hk
      have hl : n.idxR[k] = l := Option.some.inj hk.1
      rw [hl] at hp
      have hbb : legB net cR k = b := (hc.bij _ hp _ hb).mpr rfl
      have := hk.2
      rw [hsR, nodeShape_getElem? net cR k hkc] at this
      rw [← hbb]; exact (Option.some.inj this).symm
  have hdimL : ∀ l b, (b, l) ∈ pairs → ((einsumDims args).lookup l).getD 1 = bondDim net b := by
    intro l b hb
    have hl : l ∈ (einsumDims args).map (·.1) := by rw [hlab]; exact hc.mem_labels.mpr ⟨b, hb⟩
    obtain ⟨d, h1, h2⟩ := lookup_mem hl
    rw [h1, Option.getD_some]
    exact hDIM l d h2 b hb
  have hshape : (DT.ofFn (n.idxout.map fun l => ((einsumDims args).lookup l).getD 1) (einsumSem args n.idxout)).shape
      = nodeShape net n := by
    simp only [DT.ofFn, nodeShape]
    apply List.ext_getElem
    · simp
    · intro k h1 h2
      have hk : k < n.idxout.length := by simpa using h1
      simp only [List.getElem_map, List.getElem_range]
      exact hdimL _ _ (hc.pairOut hk)
  refine ⟨hshape, ?_⟩
  intro σ hσ
  rw [DT.get_ofFn]
  swap
  · have := get_nodeIdx_inrange net n σ hσ
    rw [← hshape] at this
    exact this
  unfold einsumSem
  rw [hsummed]
  set zs := (summedAt n).map (fun l => (bondOf pairs l, l)) with hzs
  have hz1 : zs.map (·.1) = elimAt net n cL cR := by
    simp [hzs, elimAt, List.map_map, Function.comp_def, hpairs]
  have hz2 : zs.map (·.2) = summedAt n := by
    simp [hzs, List.map_map, Function.comp_def]
  have hzmem : ∀ z ∈ zs, z ∈ pairs := by
    intro z hz
    obtain ⟨l, hl, rfl⟩ := List.mem_map.mp hz
    obtain ⟨b, hb⟩ := hc.mem_labels.mp (mem_summedAt.mp hl).1
    rw [bondOf_eq hc.bij hb]; exact hb
  rw [← hz1, ← hz2]
  symm
  apply sumOver_rel (bondDim net) _ pairs _ _ zs
  · intro z hz
    exact ⟨(hdimL z.2 z.1 (hzmem z hz)).symm, fun p hp => hc.bij p hp z (hzmem z hz)⟩
  · intro σ' lam' hR _ _ _
    have e1 : n.idxL.map lam' = nodeIdx net cL σ' := by
      apply List.ext_getElem
      · simp [nodeIdx, hc.lenL]
      · intro k h1 h2
        have hkl : k < n.idxL.length := by simpa using h1
        have hkc : k < cL.idxout.length := by rw [← hc.lenL]; exact hkl
        simp only [List.getElem_map, nodeIdx, List.getElem_range]
        exact (hR _ (hc.pairL hkc)).symm
    have e2 : n.idxR.map lam' = nodeIdx net cR σ' := by
      apply List.ext_getElem
      · simp [nodeIdx, hc.lenR]
      · intro k h1 h2
        have hkl : k < n.idxR.length := by simpa using h1
        have hkc : k < cR.idxout.length := by rw [← hc.lenR]; exact hkl
        simp only [List.getElem_map, nodeIdx, List.getElem_range]
        exact (hR _ (hc.pairR hkc)).symm
    simp only [einsumTerm, hargs, List.map_cons, List.map_nil, e1, e2]
    show _ = _ * (_ * 1)
    rw [mul_one]
  · intro p hp hnot
    have hin : p.2 ∈ n.idxout := by
      by_contra hcon
      apply hnot
      rw [hz1]
      exact hc.mem_elimAt.mpr ⟨p.2, hp, hcon⟩
    obtain ⟨k, hk, hke⟩ := List.getElem_of_mem hin
    have hpo := hc.pairOut hk
    have hbb : legB net n k = p.1 := (hc.bij _ hpo _ hp).mpr hke
    rw [← hke, pin_getElem _ _ _ hc.nodup k hk (by simpa [nodeIdx] using hk)]
    simp only [nodeIdx, List.getElem_map, List.getElem_range]
    rw [hbb]

end Node
end Qib.TNet

namespace Qib.TNet
variable {α : Type} [CommSemiring α]

/-- the factor contributed by the real tensor `tid` -/
def leafTerm (net : Net) (D : Option Int → List Nat → α) (tid : Int) (σ : Int → Nat) : α :=
  match dget net.tensors tid with
  | some T => D T.dataref (T.bids.map σ)
  | none => 1

/-- product of the entries of the tensors at the leaves of a subtree -/
def treeProd (net : Net) (D : Option Int → List Nat → α) : Tree → (Int → Nat) → α
  | .leaf i, σ => leafTerm net D i.tid σ
  | .node _ l r, σ => treeProd net D l σ * treeProd net D r σ

/-- the node records of the leaves -/
def leafInfos : Tree → List NodeInfo
  | .leaf i => [i]
  | .node _ l r => leafInfos l ++ leafInfos r

/-- the tensor stored in the dictionary for a leaf has its legs in the order recorded by the leaf (the stored tensor is
transposed by the caller whenever `permute_axes` re-orders a leaf) -/
def LeafDataOK (net : Net) (D : Option Int → List Nat → α) (dict : Int → Option (DT α)) (i : NodeInfo) : Prop :=
  ∃ d, dict i.tid = some d ∧ d.shape = nodeShape net i ∧
    ∀ σ, InR net i σ → d.get (nodeIdx net i σ) = leafTerm net D i.tid σ

theorem leafTerm_agree (net : Net) (D : Option Int → List Nat → α) (tid : Int) (σ τ : Int → Nat)
    (h : ∀ T, dget net.tensors tid = some T → ∀ b ∈ T.bids, σ b = τ b) : leafTerm net D tid σ = leafTerm net D tid τ := by
  unfold leafTerm
  cases hT : dget net.tensors tid with
  | none => rfl
  | some T =>
    simp only
    congr 1
    apply List.map_congr_left
    exact h T hT

theorem treeProd_agree (net : Net) (D : Option Int → List Nat → α) (t : Tree) (σ τ : Int → Nat)
    (h : ∀ tid ∈ treeLeaves t, ∀ T, dget net.tensors tid = some T → ∀ b ∈ T.bids, σ b = τ b) :
    treeProd net D t σ = treeProd net D t τ := by
  induction t with
  | leaf i => exact leafTerm_agree net D i.tid σ τ (h i.tid (by simp [treeLeaves]))
  | node n l r ihl ihr =>
    simp only [treeProd]
    rw [ihl (fun tid ht => h tid (by simp [treeLeaves, ht])), ihr (fun tid ht => h tid (by simp [treeLeaves, ht]))]

/-- the product over a subtree does not read a bond none of whose legs lies on a leaf of the subtree -/
theorem treeProd_indep {net : Net} (hwf : WF net) (D : Option Int → List Nat → α) (t : Tree) (b : Int)
    (h : ∀ ta ∈ bondLegs net b, ta.1 ∉ treeLeaves t) : Indep (treeProd net D t) b := by
  intro σ v
  apply treeProd_agree
  intro tid htid T hT b' hb'
  have hne : b' ≠ b := by
    rintro rfl
    obtain ⟨a, ha⟩ := List.mem_iff_getElem?.mp hb'
    exact h (tid, a) ((mem_bondLegs_iff hwf).mpr ⟨T, hT, ha⟩) htid
  exact upd_other _ hne v

theorem treeProd_eq_prodL (net : Net) (D : Option Int → List Nat → α) (t : Tree) (σ : Int → Nat) :
    treeProd net D t σ = prodL ((treeLeaves t).map (fun tid => leafTerm net D tid σ)) := by
  induction t with
  | leaf i => simp [treeProd, treeLeaves, prodL]
  | node n l r ihl ihr => simp only [treeProd, treeLeaves, List.map_append, prodL_append, ihl, ihr]

/-- **Pairwise contraction along a certified tree** sums the product of the leaf tensors over the bonds contracted inside
the tree (any bracketing, any admissible schedule recorded in the node lists). -/
theorem treeEval_sound {net : Net} (hwf : WF net) (D : Option Int → List Nat → α) (dict : Int → Option (DT α)) :
    ∀ t : Tree, (∀ x ∈ treeOKList net t, x = true) → (treeLeaves t).Nodup →
      (∀ i ∈ leafInfos t, LeafDataOK net D dict i) → ∀ r, treeEval dict t = .ok r →
      r.shape = nodeShape net t.info ∧ ∀ σ, InR net t.info σ →
        r.get (nodeIdx net t.info σ) = sumOver (bondDim net) (treeElims net t) (treeProd net D t) σ := by
  intro t
  induction t with
  | leaf i =>
    intro _ _ hdata r hr
    obtain ⟨d, hd, hs, hv⟩ := hdata i (by simp [leafInfos])
    simp only [treeEval, hd] at hr
    cases hr
    exact ⟨hs, fun σ hσ => by simpa [treeElims, treeProd, Tree.info] using hv σ hσ⟩
  | node n l r ihl ihr =>
    intro hok hnd hdata res hres
    simp only [treeOKList, List.mem_cons, List.mem_append] at hok
    have hc : NodeCert net n l.info r.info := nodeOK_cert (hok (nodeOK net n l.info r.info) (Or.inl rfl))
    simp only [treeLeaves] at hnd
    have hndl := (List.nodup_append.mp hnd).1
    have hndr := (List.nodup_append.mp hnd).2.1
    have hdisj : ∀ x, x ∈ treeLeaves l → x ∉ treeLeaves r := fun x hx hx' =>
      (List.nodup_append.mp hnd).2.2 x hx x hx' rfl
    have hokl : ∀ x ∈ treeOKList net l, x = true := fun x hx => hok x (Or.inr (Or.inl hx))
    have hokr : ∀ x ∈ treeOKList net r, x = true := fun x hx => hok x (Or.inr (Or.inr hx))
    have IL := treeInv hwf l hokl hndl
    have IR := treeInv hwf r hokr hndr
    simp only [treeEval, bind, Except.bind] at hres
    cases hL : treeEval dict l with
    | error e => rw [hL] at hres; cases hres
    | ok tL =>
      rw [hL] at hres
      cases hR : treeEval dict r with
      | error e => rw [hR] at hres; cases hres
      | ok tR =>
        rw [hR] at hres
        simp only at hres
        obtain ⟨hsL, hvL⟩ := ihl hokl hndl (fun i hi => hdata i (by simp [leafInfos, hi])) tL hL
        obtain ⟨hsR, hvR⟩ := ihr hokr hndr (fun i hi => hdata i (by simp [leafInfos, hi])) tR hR
        obtain ⟨hs, hv⟩ := node_step hc hsL hsR hres
        refine ⟨hs, ?_⟩
        intro σ hσ
        simp only [Tree.info] at hσ ⊢
        rw [hv σ hσ]
        simp only [treeElims, treeProd]
        rw [sumOver_append]
        apply sumOver_congr_inrange
        intro τ hτ1 hτ2
        rw [sumOver_append]
        -- the children are read within their dimensions
        have hin : ∀ b l', (b, l') ∈ pairsN net n l.info r.info → τ b < bondDim net b := by
          intro b l' hp
          by_cases hbe : b ∈ elimAt net n l.info r.info
          · exact hτ1 b hbe
          · have hlo : l' ∈ n.idxout := by
              by_contra hcon; exact hbe (hc.mem_elimAt.mpr ⟨l', hp, hcon⟩)
            obtain ⟨k, hk, hke⟩ := List.getElem_of_mem hlo
            have hbb : legB net n k = b := (hc.bij _ (hc.pairOut hk) _ hp).mpr hke
            rw [hτ2 b hbe, ← hbb]
            exact hσ k hk
        have hinL : InR net l.info τ := fun k hk => hin _ _ (hc.pairL hk)
        have hinR : InR net r.info τ := fun k hk => hin _ _ (hc.pairR hk)
        rw [hvL τ hinL, hvR τ hinR]
        -- independence
        have hindR : ∀ b ∈ treeElims net l, Indep (treeProd net D r) b := by
          intro b hb
          apply treeProd_indep hwf
          intro ta hta hr'
          exact hdisj _ ((IL.i3 b hb).2 ta hta) hr'
        have hindL : ∀ b ∈ treeElims net r, Indep (treeProd net D l) b := by
          intro b hb
          apply treeProd_indep hwf
          intro ta hta hl'
          exact hdisj _ hl' ((IR.i3 b hb).2 ta hta)
        rw [← sumOver_mul_right (bondDim net) (treeElims net l) (treeProd net D l)
          (sumOver (bondDim net) (treeElims net r) (treeProd net D r))
          (fun b hb => indep_sumOver _ _ _ _ (hindR b hb)) τ]
        apply sumOver_congr
        intro υ
        exact (sumOver_mul_left (bondDim net) (treeElims net r) (treeProd net D r) (treeProd net D l) hindL υ).symm

end Qib.TNet
