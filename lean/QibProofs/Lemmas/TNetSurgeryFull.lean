import QibProofs.Lemmas.TNetSurgeryCounts
import QibProofs.Lemmas.TNetSum
/-!
Helper lemmas for C08, part 7: the denotation `full` as an abstract labelled sum `sem`; congruence (order of
tensors / of summed labels does not matter), relabelling by an injective map, permutation of the open legs; the value
laws of `renameTensor`, `renameBond`, `transpose` (no property statements).
-/
namespace Qib.TNet
variable {α : Type} [CommSemiring α]

/-! ### the summand -/

theorem prodL_eq_prod (l : List α) : prodL l = l.prod := by
  induction l with
  | nil => rfl
  | cons x xs ih => simp only [prodL, List.foldr_cons, List.prod_cons] at ih ⊢; rw [ih]

theorem prodL_perm {l l' : List α} (h : l.Perm l') : prodL l = prodL l' := by
  rw [prodL_eq_prod, prodL_eq_prod]; exact h.prod_eq

theorem prodL_append (l l' : List α) : prodL (l ++ l') = prodL l * prodL l' := by
  rw [prodL_eq_prod, prodL_eq_prod, prodL_eq_prod, List.prod_append]

/-- product of the entries of the real tensors under the assignment `σ`; a tensor is `(dataref, bond ids)` -/
def tensorTerm (D : Option Int → List Nat → α) (ts : List (Option Int × List Int)) (σ : Int → Nat) : α :=
  prodL (ts.map (fun t => D t.1 (t.2.map σ)))

theorem tensorTerm_perm (D : Option Int → List Nat → α) {ts ts' : List (Option Int × List Int)} (h : ts.Perm ts')
    (σ : Int → Nat) : tensorTerm D ts σ = tensorTerm D ts' σ := prodL_perm (h.map _)

theorem tensorTerm_append (D : Option Int → List Nat → α) (ts ts' : List (Option Int × List Int)) (σ : Int → Nat) :
    tensorTerm D (ts ++ ts') σ = tensorTerm D ts σ * tensorTerm D ts' σ := by
  simp only [tensorTerm, List.map_append, prodL_append]

/-- the assignment is only read at the bond ids of the tensors -/
theorem tensorTerm_agree (D : Option Int → List Nat → α) (ts : List (Option Int × List Int)) (σ τ : Int → Nat)
    (h : ∀ t ∈ ts, ∀ b ∈ t.2, σ b = τ b) : tensorTerm D ts σ = tensorTerm D ts τ := by
  unfold tensorTerm
  congr 1
  apply List.map_congr_left
  intro t ht
  congr 1
  apply List.map_congr_left
  intro b hb
  exact h t ht b hb

/-- relabelled tensors -/
def relabelTs (ρ : Int → Int) (ts : List (Option Int × List Int)) : List (Option Int × List Int) :=
  ts.map (fun t => (t.1, t.2.map ρ))

theorem tensorTerm_relabel (D : Option Int → List Nat → α) (ρ : Int → Int) (ts : List (Option Int × List Int))
    (σ : Int → Nat) : tensorTerm D (relabelTs ρ ts) σ = tensorTerm D ts (σ ∘ ρ) := by
  simp only [tensorTerm, relabelTs, List.map_map]
  congr 1
  apply List.map_congr_left
  intro t _
  simp only [Function.comp, List.map_map]

/-! ### the abstract labelled sum -/

/-- `sem dim opn intl ts D idx`: the open legs `opn` pinned to `idx`, the labels `intl` summed -/
def sem (dim : Int → Nat) (opn intl : List Int) (ts : List (Option Int × List Int)) (D : Option Int → List Nat → α)
    (idx : List Nat) : α :=
  if pinsOK opn idx then sumOver dim intl (tensorTerm D ts) (pin opn idx (fun _ => 0)) else 0

/-- the real tensors as `(dataref, bond ids)` -/
def realTs (net : Net) : List (Option Int × List Int) := (realTensors net).map (fun t => (t.dataref, t.bids))

theorem full_eq_sem (net : Net) (D : Option Int → List Nat → α) (idx : List Nat) {v : STensor}
    (hv : dget net.tensors (-1) = some v) :
    full net D idx = sem (bondDim net) v.bids (internalBids net v) (realTs net) D idx := by
  unfold full sem
  rw [hv]
  simp only
  split
  · congr 1
    funext σ
    simp only [tensorTerm, realTs, List.map_map]
    congr 1
  · rfl

theorem sumOver_congr_dim {L : Type} [DecidableEq L] (dim dim' : L → Nat) (ls : List L) (f : (L → Nat) → α)
    (h : ∀ l ∈ ls, dim l = dim' l) (σ : L → Nat) : sumOver dim ls f σ = sumOver dim' ls f σ := by
  induction ls generalizing σ with
  | nil => rfl
  | cons l ls ih =>
    simp only [sumOver_cons]
    rw [h l List.mem_cons_self]
    congr 1
    apply List.map_congr_left
    intro v _
    exact ih (fun x hx => h x (List.mem_cons_of_mem _ hx)) _

/-- **congruence**: order of the tensors and of the summed labels is irrelevant, dimensions only matter on the summed
labels -/
theorem sem_congr {dim dim' : Int → Nat} {opn intl intl' : List Int} {ts ts' : List (Option Int × List Int)}
    (D : Option Int → List Nat → α) (idx : List Nat) (hi : intl.Perm intl') (ht : ts.Perm ts')
    (hd : ∀ l ∈ intl, dim l = dim' l) : sem dim opn intl ts D idx = sem dim' opn intl' ts' D idx := by
  unfold sem
  split
  · rw [sumOver_congr_dim dim dim' intl _ hd, sumOver_perm dim' hi]
    exact sumOver_congr dim' intl' (fun σ => tensorTerm_perm D ht σ) _
  · rfl

/-! ### relabelling by an injective map -/

theorem upd_comp_inj {ρ : Int → Int} (hρ : Function.Injective ρ) (σ : Int → Nat) (l : Int) (v : Nat) :
    (upd σ (ρ l) v) ∘ ρ = upd (σ ∘ ρ) l v := by
  funext x
  simp only [Function.comp, upd]
  by_cases hx : x = l
  · subst hx; simp
  · have : ρ x ≠ ρ l := fun e => hx (hρ e)
    simp [hx, this]

theorem sumOver_relabel {ρ : Int → Int} (hρ : Function.Injective ρ) (dim dim' : Int → Nat) (ls : List Int)
    (f : (Int → Nat) → α) (hd : ∀ l ∈ ls, dim' (ρ l) = dim l) (σ : Int → Nat) :
    sumOver dim' (ls.map ρ) (fun τ => f (τ ∘ ρ)) σ = sumOver dim ls f (σ ∘ ρ) := by
  induction ls generalizing σ with
  | nil => rfl
  | cons l ls ih =>
    simp only [List.map_cons, sumOver_cons]
    rw [hd l List.mem_cons_self]
    congr 1
    apply List.map_congr_left
    intro v _
    rw [ih (fun x hx => hd x (List.mem_cons_of_mem _ hx)), upd_comp_inj hρ]

theorem pin_relabel {ρ : Int → Int} (hρ : Function.Injective ρ) (ls : List Int) (vs : List Nat) (σ : Int → Nat) :
    (pin (ls.map ρ) vs σ) ∘ ρ = pin ls vs (σ ∘ ρ) := by
  induction ls generalizing vs with
  | nil => cases vs <;> rfl
  | cons l ls ih =>
    cases vs with
    | nil => rfl
    | cons v vs =>
      simp only [List.map_cons, pin]
      rw [upd_comp_inj hρ, ih]

theorem pinsOK_relabel {ρ : Int → Int} (hρ : Function.Injective ρ) (ls : List Int) (idx : List Nat) :
    pinsOK (ls.map ρ) idx = pinsOK ls idx := by
  unfold pinsOK
  simp only [List.length_map, List.getElem?_map]
  congr 1
  have key : ∀ k k' : Nat, (Option.map ρ ls[k]? == Option.map ρ ls[k']?) = (ls[k]? == ls[k']?) := by
    intro k k'
    cases h1 : ls[k]? <;> cases h2 : ls[k']? <;> simp [hρ.eq_iff]
  simp only [key]

/-- **relabelling**: an injective renaming of all bond labels does not change the value -/
theorem sem_relabel {ρ : Int → Int} (hρ : Function.Injective ρ) (dim dim' : Int → Nat) (opn intl : List Int)
    (ts : List (Option Int × List Int)) (D : Option Int → List Nat → α) (idx : List Nat)
    (hd : ∀ l ∈ intl, dim' (ρ l) = dim l) :
    sem dim' (opn.map ρ) (intl.map ρ) (relabelTs ρ ts) D idx = sem dim opn intl ts D idx := by
  unfold sem
  rw [pinsOK_relabel hρ]
  split
  · have h1 : (fun τ => tensorTerm D (relabelTs ρ ts) τ) = fun τ => tensorTerm D ts (τ ∘ ρ) := by
      funext τ; exact tensorTerm_relabel D ρ ts τ
    rw [show tensorTerm D (relabelTs ρ ts) = fun τ => tensorTerm D ts (τ ∘ ρ) from h1,
      sumOver_relabel hρ dim dim' intl (tensorTerm D ts) hd, pin_relabel hρ]
    rfl
  · rfl

/-! ### the denotation with the virtual tensor under an arbitrary id -/

/-- the real tensors when the virtual tensor is stored under `vid` -/
def realTsAt (vid : Int) (net : Net) : List (Option Int × List Int) :=
  (net.tensors.filter (fun e => e.1 != vid)).map (fun e => (e.2.dataref, e.2.bids))

/-- `full` with the virtual tensor looked up under `vid` (inside `merge` the copy of the second operand has its
virtual tensor renamed) -/
def fullAt (vid : Int) (net : Net) (D : Option Int → List Nat → α) (idx : List Nat) : α :=
  match dget net.tensors vid with
  | none => 0
  | some v => sem (bondDim net) v.bids (internalBids net v) (realTsAt vid net) D idx

theorem realTs_eq (net : Net) : realTs net = realTsAt (-1) net := by
  simp [realTs, realTsAt, realTensors, List.map_map, Function.comp_def]

theorem full_eq_fullAt (net : Net) (D : Option Int → List Nat → α) (idx : List Nat) :
    full net D idx = fullAt (-1) net D idx := by
  unfold fullAt
  cases hv : dget net.tensors (-1) with
  | none => unfold full; rw [hv]
  | some v => rw [full_eq_sem net D idx hv, realTs_eq]

theorem lookup_of_notMem {l : List (Int × Nat)} {b : Int} (h : ∀ d, (b, d) ∉ l) : l.lookup b = none := by
  induction l with
  | nil => rfl
  | cons e es ih =>
    obtain ⟨e1, e2⟩ := e
    have hb : (b == e1) = false := by
      have : b ≠ e1 := fun e => h e2 (by rw [e]; exact List.mem_cons_self)
      simpa using this
    simp only [List.lookup, hb]
    exact ih (fun d hd => h d (List.mem_cons_of_mem _ hd))

/-- `bondDim` only depends on the set of `(bond, dimension)` pairs when that set is functional -/
theorem bondDim_congr {net net' : Net} (hd : ∀ p ∈ legDims net, ∀ q ∈ legDims net, p.1 = q.1 → p.2 = q.2)
    (hm : ∀ p, p ∈ legDims net' ↔ p ∈ legDims net) (l : Int) : bondDim net' l = bondDim net l := by
  unfold bondDim
  by_cases h : ∃ d, (l, d) ∈ legDims net
  · obtain ⟨d, hd0⟩ := h
    obtain ⟨d1, h1, h1'⟩ := lookup_of_mem hd0
    obtain ⟨d2, h2, h2'⟩ := lookup_of_mem ((hm _).mpr hd0)
    rw [h1, h2]
    have := hd _ h1' _ ((hm _).mp h2') rfl
    simp only at this
    simp [this]
  · have h' : ∀ d, (l, d) ∉ legDims net := fun d hd0 => h ⟨d, hd0⟩
    rw [lookup_of_notMem h', lookup_of_notMem (fun d hd0 => h' d ((hm _).mp hd0))]

/-! ### `renameTensor` does not change the value -/

theorem filter_ne_append_singleton {β : Type} (d : List (Int × β)) (k vid : Int) (v : β) (h : k ≠ vid) :
    (d ++ [(k, v)]).filter (fun e => e.1 != vid) = d.filter (fun e => e.1 != vid) ++ [(k, v)] := by
  rw [List.filter_append]
  congr 1
  have : ((k, v).1 != vid) = true := by simpa using h
  simp [List.filter_cons, this]

theorem renameTensor_fullAt {net net' : Net} {cur new vid : Int} (h : WF0 net)
    (hok : renameTensor net cur new = .ok net') (hvid : vid ∈ dkeys net.tensors)
    (D : Option Int → List Nat → α) (idx : List Nat) :
    fullAt (rep cur new vid) net' D idx = fullAt vid net D idx := by
  have hw' := renameTensor_wf0 h hok
  obtain ⟨T, hT, hnew, rfl⟩ := renameTensor_spec h hok
  obtain ⟨v, hv⟩ := Option.isSome_iff_exists.mp ((dget_isSome_iff _ _).mpr hvid)
  have hperm := perm_cons_dpop net.tensors h.tnodup hT
  have hnewpop : new ∉ dkeys (dpop net.tensors cur) := by
    rw [dkeys_dpop]; exact fun hm => hnew (List.mem_filter.mp hm).1
  -- dimensions
  have hdim : ∀ l, bondDim ⟨dpop net.tensors cur ++ [(new, { T with tid := new })], relBonds (rep cur new) net.bonds⟩ l
      = bondDim net l := by
    apply bondDim_congr h.dims
    intro p
    have h1 : (legDims ⟨dpop net.tensors cur ++ [(new, { T with tid := new })], relBonds (rep cur new) net.bonds⟩).Perm
        (legDims ⟨(cur, T) :: dpop net.tensors cur, net.bonds⟩) := by
      rw [legDims_append, legDims_cons, legDims_cons]
      simp only [legDims, List.flatMap_nil, List.append_nil]
      exact List.perm_append_comm
    exact (h1.trans (legDims_perm (bs := net.bonds) (bs' := net.bonds) hperm).symm).mem_iff
  by_cases hvc : vid = cur
  · subst hvc
    rw [hT] at hv; cases hv
    rw [rep_self]
    unfold fullAt
    rw [hT, dget_append_right _ _ hnewpop]
    simp only [dget, List.lookup, beq_self_eq_true]
    apply sem_congr
    · simp only [internalBids, dkeys_relBonds]; exact List.Perm.refl _
    · apply List.Perm.of_eq
      simp only [realTsAt]
      congr 1
      rw [List.filter_append]
      have h1 : (dpop net.tensors vid).filter (fun e => e.1 != new) = dpop net.tensors vid := by
        apply List.filter_eq_self.mpr
        intro e he
        have : e.1 ≠ new := fun e' => hnewpop (e' ▸ mem_dkeys_of_mem he)
        simpa using this
      rw [h1]
      simp [dpop]
    · intro l _; exact hdim l
  · rw [rep_of_ne hvc]
    have hvn : new ≠ vid := fun e => hnew (e ▸ hvid)
    unfold fullAt
    rw [hv, dget_append_left _ _ (by rw [dget_dpop_ne _ hvc]; exact hv)]
    simp only
    apply sem_congr
    · simp only [internalBids, dkeys_relBonds]; exact List.Perm.refl _
    · simp only [realTsAt]
      rw [filter_ne_append_singleton _ _ _ _ hvn, List.map_append]
      have h2 := ((hperm.filter (fun e => e.1 != vid)).map (fun e => (e.2.dataref, e.2.bids)))
      refine List.Perm.trans ?_ h2.symm
      have : ((cur, T).1 != vid) = true := by simpa using (fun e => hvc e.symm)
      rw [List.filter_cons, this]
      simp only [if_true, List.map_cons, List.map_nil]
      exact List.perm_append_comm
    · intro l _; exact hdim l

/-! ### `renameBond` does not change the value -/

/-- the transposition of two labels (an injective stand-in for `rep x y` on lists that do not contain `y`) -/
def swp (x y : Int) : Int → Int := fun t => if t = x then y else if t = y then x else t

theorem swp_inj (x y : Int) : Function.Injective (swp x y) := by
  intro a b h
  unfold swp at h
  by_cases h1 : a = x <;> by_cases h2 : a = y <;> by_cases h3 : b = x <;> by_cases h4 : b = y <;> simp_all

theorem rep_eq_swp {x y t : Int} (h : t ≠ y) : rep x y t = swp x y t := by
  unfold rep swp
  by_cases h1 : t = x <;> simp [h1, h]

theorem map_rep_eq_map_swp (x y : Int) (l : List Int) (h : y ∉ l) : l.map (rep x y) = l.map (swp x y) := by
  apply List.map_congr_left
  intro t ht
  exact rep_eq_swp (fun e => h (e ▸ ht))

theorem lookup_map_inj {ρ : Int → Int} (hρ : Function.Injective ρ) (l : List (Int × Nat)) (x : Int) :
    (l.map (fun p => (ρ p.1, p.2))).lookup (ρ x) = l.lookup x := by
  induction l with
  | nil => rfl
  | cons e es ih =>
    obtain ⟨e1, e2⟩ := e
    simp only [List.map_cons, List.lookup]
    by_cases hx : x = e1
    · subst hx; simp
    · have h1 : (x == e1) = false := by simpa using hx
      have h2 : (ρ x == ρ e1) = false := by simpa using (fun e => hx (hρ e))
      simp only [h1, h2]; exact ih

theorem renameBond_fullAt {net net' : Net} {cur new vid : Int} (h : WF0 net)
    (hok : renameBond net cur new = .ok net') (D : Option Int → List Nat → α) (idx : List Nat) :
    fullAt vid net' D idx = fullAt vid net D idx := by
  obtain ⟨B, hB, hnew, rfl⟩ := renameBond_spec h hok
  unfold fullAt
  simp only [dget_relTensors]
  cases hv : dget net.tensors vid with
  | none => rfl
  | some v =>
    simp only [Option.map_some]
    have hmv := mem_of_dget_eq_some _ hv
    -- no bond id equals `new`
    have hnoT : ∀ e ∈ net.tensors, new ∉ e.2.bids := fun e he hm => hnew (h.mem_bond_keys he hm)
    have hρ := swp_inj cur new
    have hvb : v.bids.map (rep cur new) = v.bids.map (swp cur new) := map_rep_eq_map_swp _ _ _ (hnoT _ hmv)
    -- the real tensors
    have hts : realTsAt vid ⟨relTensors (rep cur new) net.tensors, dpop net.bonds cur ++ [(new, { B with bid := new })]⟩
        = relabelTs (swp cur new) (realTsAt vid net) := by
      simp only [realTsAt, relTensors, relabelTs, List.filter_map, List.map_map]
      have : ((fun e : Int × STensor => e.1 != vid) ∘ fun e : Int × STensor => (e.1, { e.2 with bids := e.2.bids.map (rep cur new) }))
          = fun e => e.1 != vid := by funext e; rfl
      rw [this]
      apply List.map_congr_left
      intro e he
      have he' := (List.mem_filter.mp he).1
      simp only [Function.comp]
      rw [map_rep_eq_map_swp _ _ _ (hnoT e he')]
    -- the internal labels
    have hkeys : (dkeys (dpop net.bonds cur ++ [(new, { B with bid := new })])).Perm ((dkeys net.bonds).map (swp cur new)) := by
      have h1 := (perm_dkeys (perm_cons_dpop net.bonds h.bnodup hB)).map (swp cur new)
      refine List.Perm.trans ?_ h1.symm
      simp only [dkeys_append, dkeys_cons, dkeys_nil, List.map_cons]
      have h2 : (dkeys (dpop net.bonds cur)).map (swp cur new) = dkeys (dpop net.bonds cur) := by
        conv_rhs => rw [← List.map_id (dkeys (dpop net.bonds cur))]
        apply List.map_congr_left
        intro k hk
        rw [dkeys_dpop] at hk
        have hk' := List.mem_filter.mp hk
        have h1 : k ≠ cur := by simpa using hk'.2
        have h2 : k ≠ new := fun e => hnew (e ▸ hk'.1)
        simp [swp, h1, h2]
      rw [h2]
      have : swp cur new cur = new := by simp [swp]
      rw [this]
      exact List.perm_append_comm
    have hint : (internalBids ⟨relTensors (rep cur new) net.tensors, dpop net.bonds cur ++ [(new, { B with bid := new })]⟩
        { v with bids := v.bids.map (swp cur new) }).Perm ((internalBids net v).map (swp cur new)) := by
      simp only [internalBids]
      refine (hkeys.filter _).trans ?_
      rw [List.filter_map]
      apply List.Perm.of_eq
      congr 1
      apply List.filter_congr
      intro k _
      simp only [Function.comp]
      congr 1
      rw [Bool.eq_iff_iff]
      simp only [List.contains_iff_mem, List.mem_map, hρ.eq_iff, exists_eq_right]
    -- dimensions
    have hdim : ∀ l ∈ internalBids net v,
        bondDim ⟨relTensors (rep cur new) net.tensors, dpop net.bonds cur ++ [(new, { B with bid := new })]⟩ (swp cur new l)
          = bondDim net l := by
      intro l _
      unfold bondDim
      have h1 : legDims ⟨relTensors (rep cur new) net.tensors, dpop net.bonds cur ++ [(new, { B with bid := new })]⟩
          = (legDims net).map (fun p => (swp cur new p.1, p.2)) := by
        have := legDims_relB (rep cur new) net.tensors net.bonds (dpop net.bonds cur ++ [(new, { B with bid := new })])
        rw [show relTensors (rep cur new) net.tensors = net.tensors.map (fun e => (e.1, { e.2 with bids := e.2.bids.map (rep cur new) })) from rfl, this]
        apply List.map_congr_left
        intro p hp
        have : p.1 ≠ new := fun e => hnew (e ▸ h.legDims_key hp)
        rw [rep_eq_swp this]
      rw [h1, lookup_map_inj hρ]
    rw [hts, hvb]
    rw [sem_congr D idx hint (List.Perm.refl _) (fun l _ => rfl)]
    exact sem_relabel hρ (bondDim net) _ v.bids (internalBids net v) (realTsAt vid net) D idx hdim

/-! ### pins -/

theorem pinsOK_iff (ls : List Int) (idx : List Nat) : pinsOK ls idx = true ↔
    ls.length = idx.length ∧ ∀ k k', k < ls.length → k' < ls.length → ls[k]? = ls[k']? → idx[k]? = idx[k']? := by
  unfold pinsOK
  simp only [Bool.and_eq_true, beq_iff_eq, List.all_eq_true, List.mem_range, Bool.or_eq_true, Bool.not_eq_true',
    beq_eq_false_iff_ne, ne_eq]
  constructor
  · rintro ⟨h1, h2⟩
    refine ⟨h1, fun k k' hk hk' he => ?_⟩
    rcases h2 k hk k' hk' with h | h
    · exact absurd he h
    · exact h
  · rintro ⟨h1, h2⟩
    refine ⟨h1, fun k hk k' hk' => ?_⟩
    by_cases he : ls[k]? = ls[k']?
    · exact Or.inr (h2 k k' hk hk' he)
    · exact Or.inl he

theorem pinsOK_tail {l : Int} {ls : List Int} {v : Nat} {vs : List Nat} (h : pinsOK (l :: ls) (v :: vs) = true) :
    pinsOK ls vs = true := by
  rw [pinsOK_iff] at h ⊢
  refine ⟨by simpa using h.1, fun k k' hk hk' he => ?_⟩
  have := h.2 (k + 1) (k' + 1) (by simp; omega) (by simp; omega) (by simpa using he)
  simpa using this

/-- under consistent pins every open leg reads its own index -/
theorem pin_of_pinsOK (ls : List Int) (idx : List Nat) (σ : Int → Nat) (h : pinsOK ls idx = true) (k : Nat)
    (hk : k < ls.length) : some (pin ls idx σ ls[k]) = idx[k]? := by
  induction ls generalizing idx k with
  | nil => simp at hk
  | cons l ls ih =>
    cases idx with
    | nil => rw [pinsOK_iff] at h; simp at h
    | cons v vs =>
      simp only [pin]
      by_cases hx : (l :: ls)[k] = l
      · rw [hx, upd_same]
        have := ((pinsOK_iff _ _).mp h).2 0 k (by simp) hk (by
          rw [List.getElem?_eq_getElem hk, hx]; rfl)
        simpa using this
      · rw [upd_other _ hx]
        cases k with
        | zero => simp at hx
        | succ k =>
          simp only [List.getElem_cons_succ, List.getElem?_cons_succ]
          exact ih vs (pinsOK_tail h) k (by simpa using hk)

theorem getElem?_pickD {γ : Type} (l : List γ) (d : γ) (ax : List Nat) (m : Nat) :
    (pickD l d ax)[m]? = ax[m]?.map (fun a => l[a]?.getD d) := by
  simp [pickD]

/-- **permuting the open legs** together with the index is the identity on values -/
theorem sem_perm_open (dim : Int → Nat) (opn intl : List Int) (ts : List (Option Int × List Int))
    (D : Option Int → List Nat → α) (ax : List Nat) (hax : ax.Perm (List.range opn.length)) (j : List Nat)
    (hj : j.length = opn.length) :
    sem dim (pickD opn 0 ax) intl ts D (pickD j 0 ax) = sem dim opn intl ts D j := by
  have hlen : ax.length = opn.length := by simpa using hax.length_eq
  have hlt : ∀ m (hm : m < ax.length), ax[m] < opn.length := fun m hm =>
    List.mem_range.mp (hax.mem_iff.mp (List.getElem_mem hm))
  have hsurj : ∀ k, k < opn.length → ∃ m, ∃ hm : m < ax.length, ax[m] = k := by
    intro k hk
    obtain ⟨m, hm, he⟩ := List.getElem_of_mem (hax.mem_iff.mpr (List.mem_range.mpr hk))
    exact ⟨m, hm, he⟩
  -- entries of the permuted lists
  have hO : ∀ m (hm : m < ax.length), (pickD opn 0 ax)[m]? = some (opn[ax[m]]'(hlt m hm)) := by
    intro m hm
    rw [getElem?_pickD, List.getElem?_eq_getElem hm]
    simp [hlt m hm]
  have hJ : ∀ m (hm : m < ax.length), (pickD j 0 ax)[m]? = j[ax[m]]? := by
    intro m hm
    rw [getElem?_pickD, List.getElem?_eq_getElem hm]
    have : ax[m] < j.length := by rw [hj]; exact hlt m hm
    simp [this]
  have hOK : pinsOK (pickD opn 0 ax) (pickD j 0 ax) = pinsOK opn j := by
    rw [Bool.eq_iff_iff, pinsOK_iff, pinsOK_iff]
    have hl1 : (pickD opn 0 ax).length = ax.length := by simp [pickD]
    have hl2 : (pickD j 0 ax).length = ax.length := by simp [pickD]
    constructor
    · rintro ⟨_, h2⟩
      refine ⟨hj.symm, fun k k' hk hk' he => ?_⟩
      obtain ⟨m, hm, rfl⟩ := hsurj k hk
      obtain ⟨m', hm', rfl⟩ := hsurj k' hk'
      have := h2 m m' (by omega) (by omega) (by
        rw [hO m hm, hO m' hm']
        rw [List.getElem?_eq_getElem (hlt m hm), List.getElem?_eq_getElem (hlt m' hm')] at he
        exact he)
      rw [hJ m hm, hJ m' hm'] at this
      exact this
    · rintro ⟨_, h2⟩
      refine ⟨by rw [hl1, hl2], fun m m' hm hm' he => ?_⟩
      rw [hl1] at hm hm'
      rw [hO m hm, hO m' hm'] at he
      rw [hJ m hm, hJ m' hm']
      apply h2 _ _ (hlt m hm) (hlt m' hm')
      rw [List.getElem?_eq_getElem (hlt m hm), List.getElem?_eq_getElem (hlt m' hm')]
      exact he
  unfold sem
  rw [hOK]
  split
  · rename_i hok
    congr 1
    funext x
    by_cases hx : x ∈ opn
    · obtain ⟨k, hk, rfl⟩ := List.getElem_of_mem hx
      obtain ⟨m, hm, hmk⟩ := hsurj k hk
      have h1 := pin_of_pinsOK opn j (fun _ => 0) hok k hk
      have hm' : m < (pickD opn 0 ax).length := by simp [pickD]; exact hm
      have h2 := pin_of_pinsOK (pickD opn 0 ax) (pickD j 0 ax) (fun _ => 0) (by rw [hOK]; exact hok) m hm'
      have h3 : (pickD opn 0 ax)[m] = opn[k] := by
        have := hO m hm
        rw [List.getElem?_eq_getElem hm'] at this
        simp only [hmk] at this
        exact Option.some.inj this
      rw [h3, hJ m hm] at h2
      simp only [hmk] at h2
      rw [← h1] at h2
      exact Option.some.inj h2
    · have hx' : x ∉ pickD opn 0 ax := by
        intro hm
        obtain ⟨a, ha, rfl⟩ := List.mem_map.mp hm
        have := List.mem_range.mp (hax.mem_iff.mp ha)
        apply hx
        rw [List.getElem?_eq_getElem this]
        exact List.getElem_mem _
      rw [pin_notMem _ _ _ _ hx, pin_notMem _ _ _ _ hx']
  · rfl

/-! ### the value laws of `renameTensor`, `renameBond`, `transpose` on networks -/

theorem renameTensor_full {net net' : Net} {cur new : Int} (h : WF net) (hc : cur ≠ -1)
    (hok : renameTensor net cur new = .ok net') (D : Option Int → List Nat → α) (idx : List Nat) :
    full net' D idx = full net D idx := by
  rw [full_eq_fullAt, full_eq_fullAt]
  have := renameTensor_fullAt h.toWF0 hok h.virt D idx
  rwa [rep_of_ne (fun e => hc e.symm)] at this

theorem renameBond_full {net net' : Net} {cur new : Int} (h : WF net)
    (hok : renameBond net cur new = .ok net') (D : Option Int → List Nat → α) (idx : List Nat) :
    full net' D idx = full net D idx := by
  rw [full_eq_fullAt, full_eq_fullAt]
  exact renameBond_fullAt h.toWF0 hok D idx

theorem filter_dmodify_ne {β : Type} (d : List (Int × β)) (k : Int) (f : β → β) :
    (dmodify d k f).filter (fun e => e.1 != k) = d.filter (fun e => e.1 != k) := by
  induction d with
  | nil => rfl
  | cons e es ih =>
    simp only [dmodify, List.map_cons] at ih ⊢
    by_cases hk : e.1 = k
    · have hb : (e.1 == k) = true := by simpa using hk
      have hn : (e.1 != k) = false := by simp [hk]
      simp only [hb, if_true, List.filter_cons, hn, Bool.false_eq_true, if_false]
      exact ih
    · have hb : (e.1 == k) = false := by simpa using hk
      have hn : (e.1 != k) = true := by simpa using hk
      simp only [hb, Bool.false_eq_true, if_false, List.filter_cons, hn, if_true]
      rw [ih]

/-- `transpose` obeys the defining law of `numpy.transpose`: `transpose(a, axes)[j[axes[0]], …, j[axes[n-1]]] = a[j]` -/
theorem transpose_full {net net' : Net} {axes : Option (List Int)} (h : WF net)
    (hok : transpose net axes = .ok net') (D : Option Int → List Nat → α) {v : STensor}
    (hv : dget net.tensors (-1) = some v) (j : List Nat) (hj : j.length = v.shape.length) :
    full net' D (pickD j 0 ((resolveAxes v.shape.length axes).map Int.toNat)) = full net D j := by
  obtain ⟨v0, hv0, hp, rfl⟩ := transpose_spec h hok
  rw [hv] at hv0; cases hv0
  have hm := mem_of_dget_eq_some _ hv
  have hsh := h.tshape _ hm
  simp only at hsh
  have hax := toNat_perm_of_isort hp
  generalize hAX : (resolveAxes v.shape.length axes).map Int.toNat = ax at hax
  have hv' : dget (dmodify net.tensors (-1) (fun _ => transposedVirt v axes)) (-1) = some (transposedVirt v axes) := by
    rw [dget_dmodify, hv]; simp
  rw [full_eq_sem _ D _ hv', full_eq_sem _ D _ hv]
  have hbids : (transposedVirt v axes).bids = pickD v.bids 0 ax := by simp only [transposedVirt, hAX]
  have hperm := perm_cons_dpop net.tensors h.tnodup hv
  have hpm := perm_dmodify net.tensors h.tnodup (fun _ => transposedVirt v axes) hv
  have hdim : ∀ l, bondDim ⟨dmodify net.tensors (-1) (fun _ => transposedVirt v axes), net.bonds⟩ l = bondDim net l := by
    apply bondDim_congr h.dims
    intro p
    have h1 : (legDims ⟨dmodify net.tensors (-1) (fun _ => transposedVirt v axes), net.bonds⟩).Perm
        (legDims ⟨(-1, transposedVirt v axes) :: dpop net.tensors (-1), net.bonds⟩) := legDims_perm hpm
    have h2 : (legDims ⟨(-1, transposedVirt v axes) :: dpop net.tensors (-1), net.bonds⟩).Perm
        (legDims ⟨(-1, v) :: dpop net.tensors (-1), net.bonds⟩) := by
      rw [legDims_cons, legDims_cons]
      apply List.Perm.append_right
      simp only [transposedVirt, hAX]
      exact zip_pickD_perm v.bids v.shape 0 0 hsh.symm (by rw [← hsh]; exact hax)
    exact ((h1.trans h2).trans (legDims_perm (bs := net.bonds) (bs' := net.bonds) hperm).symm).mem_iff
  have hreal : realTs ⟨dmodify net.tensors (-1) (fun _ => transposedVirt v axes), net.bonds⟩ = realTs net := by
    simp only [realTs, realTensors]
    rw [filter_dmodify_ne]
  have hint : internalBids ⟨dmodify net.tensors (-1) (fun _ => transposedVirt v axes), net.bonds⟩ (transposedVirt v axes)
      = internalBids net v := by
    simp only [internalBids, hbids]
    apply List.filter_congr
    intro b _
    congr 1
    rw [Bool.eq_iff_iff]
    simp only [List.contains_iff_mem]
    exact (pickD_perm v.bids 0 (by rw [← hsh]; exact hax)).mem_iff
  rw [hreal, hint, hbids]
  rw [sem_congr D _ (List.Perm.refl _) (List.Perm.refl _) (fun l _ => hdim l)]
  exact sem_perm_open (bondDim net) v.bids (internalBids net v) (realTs net) D ax (by rw [← hsh]; exact hax) j
    (by rw [hj, hsh])

end Qib.TNet
