import QibProofs.Lemmas.LatticeAll
/-! Helper lemmas for C14: the coordinate function of every lattice class (`Lat.coord`, what `index_to_coord`
returns for a valid site), the entries of `adjacency_matrix()` (`Lat.entry`), and the nearest-neighbour relation of
the coordinates per class (`Lat.NN`, recursive through layered lattices), with `adj ⇔ NN`. -/
namespace Qib.Lattice
open Lat

/-- the (exactly encoded) coordinate of site `i` -/
def Lat.coord : Lat → Nat → List Int
  | .integer shape _, i => (unravel shape i).map Int.ofNat
  | .triangular shape _, i => (unravel shape i).map Int.ofNat
  | .full shape, i => (unravel shape i).map Int.ofNat
  | .custom shape _, i => (unravel shape i).map Int.ofNat
  | .ofc n0 n1 _, i => [((ofcCoord n0 n1 i).1 : Int), ((ofcCoord n0 n1 i).2 : Int)]
  | .brick b, i => [(b.row i : Int), (b.col i : Int)]
  | .hex m n conv, i => hexCoord conv (Brick.row ⟨m, n, true, conv⟩ i) (Brick.col ⟨m, n, true, conv⟩ i)
  | .layered base _, i => ((i / base.nsites : Nat) : Int) :: base.coord (i % base.nsites)

theorem layered_base_pos {base : Lat} {nl i : Nat} (hi : i < (Lat.layered base nl).nsites) : 0 < base.nsites := by
  simp only [Lat.nsites] at hi
  rcases Nat.eq_zero_or_pos base.nsites with h0 | h0
  · rw [h0] at hi; simp at hi
  · exact h0

/-- `index_to_coord(i)` of a valid site succeeds and returns `coord i` -/
theorem i2c_coord (l : Lat) (h : l.WF) (i : Nat) (hi : i < l.nsites) : l.i2c (i : Int) = .ok (l.coord i) := by
  induction l generalizing i with
  | integer shape pbc => exact gridI2c_ok hi
  | triangular shape pbc => exact gridI2c_ok hi
  | full shape => exact gridI2c_ok hi
  | custom shape a => exact gridI2c_ok hi
  | ofc n0 n1 pbc =>
    by_cases hv : i < n0 * n1
    · simp only [Lat.i2c, Lat.coord, ofcCoord, if_pos hv]
      rw [if_pos (by exact_mod_cast hv), if_neg (by omega)]
      simp [unravel_two]
    · have hk : i - n0 * n1 < ((n0 - 1) * (n1 - 1) + 1) / 2 := by
        simp only [Lat.nsites, ofcNsites] at hi; omega
      have hw : n1 - 1 ≠ 0 := by
        intro h0; rw [h0] at hk; simp at hk
      have hk' : ((i : Int) - ((n0 : Int) * (n1 : Int))).toNat = i - n0 * n1 := by
        have : (n0 : Int) * (n1 : Int) = ((n0 * n1 : Nat) : Int) := by simp
        rw [this]; omega
      simp only [Lat.i2c, Lat.coord, ofcCoord, if_neg hv]
      rw [if_neg (by
        have : (n0 : Int) * (n1 : Int) = ((n0 * n1 : Nat) : Int) := by simp
        rw [this]; omega), if_neg hw, hk']
      simp
  | brick b =>
    simp only [Lat.i2c, Lat.coord, Brick.i2c_ok b h.1 h.2 i hi, bind, Except.bind, pure, Except.pure]
  | hex m n conv =>
    have hi' : i < (⟨m, n, true, conv⟩ : Brick).nsites := by simpa [Lat.nsites, Brick.nsites] using hi
    simp only [Lat.i2c, Lat.coord, Brick.i2c_ok ⟨m, n, true, conv⟩ h.1 h.2 i hi', bind, Except.bind, pure, Except.pure]
  | layered base nl ih =>
    have hnb := layered_base_pos hi
    simp only [Lat.nsites] at hi
    simp only [Lat.i2c, Lat.coord]
    rw [if_neg (by exact_mod_cast Nat.not_le.mpr hi)]
    rw [← Int.natCast_emod, ih h _ (Nat.mod_lt _ hnb)]
    simp [bind, Except.bind, pure, Except.pure]

/-- distinct sites have distinct coordinates -/
theorem coord_inj (l : Lat) (h : l.WF) (i j : Nat) (hi : i < l.nsites) (hj : j < l.nsites)
    (e : l.coord i = l.coord j) : i = j := by
  apply coord_injective l h i j hi hj
  rw [i2c_coord l h i hi, i2c_coord l h j hj, e]

/-- `coord_to_index(index_to_coord(i)) = i` in terms of `coord` -/
theorem c2i_coord (l : Lat) (h : l.WF) (i : Nat) (hi : i < l.nsites) :
    l.c2i (l.isFloat (l.coord i)) (l.coord i) = .ok (some (i : Int)) := by
  obtain ⟨c, h1, h2⟩ := roundtrip l h i hi
  rw [i2c_coord l h i hi] at h1
  have : l.coord i = c := Except.ok.inj h1
  rw [this]; exact h2

/-! ### entries of the adjacency matrix -/

/-- entry `(i, j)` of the matrix returned by `adjacency_matrix()` (0 outside the matrix) -/
def Lat.entry (l : Lat) (i j : Nat) : Nat := (l.adjMatrix.getD i []).getD j 0

theorem entry_eq (l : Lat) {i j : Nat} (hi : i < l.nsites) (hj : j < l.nsites) :
    l.entry i j = if l.adj i j = true then 1 else 0 := by
  simp [Lat.entry, Lat.adjMatrix, List.getD_eq_getElem?_getD, hi, hj]

theorem entry_eq_one (l : Lat) {i j : Nat} (hi : i < l.nsites) (hj : j < l.nsites) :
    l.entry i j = 1 ↔ l.adj i j = true := by
  rw [entry_eq l hi hj]; split <;> simp_all

theorem adjMatrix_length (l : Lat) : l.adjMatrix.length = l.nsites := by simp [Lat.adjMatrix]

theorem adjMatrix_row_length (l : Lat) (r : List Nat) (hr : r ∈ l.adjMatrix) : r.length = l.nsites := by
  simp only [Lat.adjMatrix, List.mem_map, List.mem_range] at hr
  obtain ⟨i, _, rfl⟩ := hr
  simp

theorem adjMatrix_binary (l : Lat) (r : List Nat) (hr : r ∈ l.adjMatrix) (v : Nat) (hv : v ∈ r) : v = 0 ∨ v = 1 := by
  simp only [Lat.adjMatrix, List.mem_map, List.mem_range] at hr
  obtain ⟨i, _, rfl⟩ := hr
  simp only [List.mem_map, List.mem_range] at hv
  obtain ⟨j, _, rfl⟩ := hv
  split <;> simp

/-! ### the surplus points of the brick grid -/

namespace Brick

/-- with `delete = True` no site sits on a surplus grid point -/
theorem not_isExtra_of_delete (b : Brick) (hm : 1 ≤ b.m) (hn : 1 ≤ b.n) (hd : b.delete = true) (i : Nat)
    (hi : i < b.nsites) : ¬ b.isExtra (b.row i) (b.col i) := by
  cases hx : b.hasExtra
  · intro h; simp [isExtra, hx] at h
  · have hns := b.nsites_eq hm hn
    simp only [hd, hx, Bool.and_self, if_true] at hns
    rw [hns] at hi
    obtain ⟨e1, -, n1, n2⟩ := b.undelete_facts hm hn hx hd i hi
    unfold row col
    rw [isExtra_iff b hm hn hx, e1]
    omega

/-- with `delete = False` the two surplus grid points are sites without any link -/
theorem extra_isolated (b : Brick) (hm : 1 ≤ b.m) (hn : 1 ≤ b.n) (i j : Nat)
    (hx : b.isExtra (b.row i) (b.col i)) : b.adj i j = false ∧ b.adj j i = false := by
  constructor <;> rw [Bool.eq_false_iff] <;> intro h
  · exact ((adj_iff b hm hn i j).mp h).2.2.2.1 hx
  · exact ((adj_iff b hm hn j i).mp h).2.2.2.2 hx

theorem dSquare_eq (b : Brick) : b.dSquare = match b.conv with | .cols => 0 | .rows => 1 := by
  unfold dSquare; cases b.conv <;> rfl

end Brick

/-! ### nearest neighbours of the coordinates, per class -/

/-- natural-number view of an encoded coordinate -/
def natCoord (a : List Int) : List Nat := a.map Int.toNat

theorem natCoord_map (c : List Nat) : natCoord (c.map Int.ofNat) = c := by
  simp [natCoord, List.map_map, Function.comp_def]

/-- The nearest-neighbour relation of two coordinates `a`, `b` (as returned by `index_to_coord`) of lattice `l`:
* integer: a `Step` in exactly one axis (unit step; wrap-around only on a periodic axis);
* triangular: the same, or the `(1,1)` / `(-1,-1)` diagonal;
* odd-face-centred (doubled coordinates): two vertices that are grid neighbours, or a face centre and a vertex half a
  unit away along both axes (= one of the four corners of the face);
* brick (grid coordinates): brick-wall neighbours, neither point being one of the two surplus grid points;
* hexagonal: Euclidean distance 1 (`4·dist² = 4` in the exact encoding);
* fully connected: any two different sites;
* customized: the entry of the matrix the lattice was built from;
* layered: same layer and neighbours in the base lattice, or different layers and the same base site. -/
def Lat.NN : Lat → List Int → List Int → Prop
  | .integer shape pbc, a, b => GridNN shape pbc (natCoord a) (natCoord b)
  | .triangular shape pbc, a, b =>
    GridNN shape pbc (natCoord a) (natCoord b) ∨ DiagNN shape pbc (natCoord a) (natCoord b)
  | .ofc n0 n1 pbc, a, b =>
    OfcNN n0 n1 pbc ((a.getD 0 0).toNat, (a.getD 1 0).toNat) ((b.getD 0 0).toNat, (b.getD 1 0).toNat)
  | .brick br, a, b =>
    BrickNN br.dSquare (a.getD 0 0).toNat (a.getD 1 0).toNat (b.getD 0 0).toNat (b.getD 1 0).toNat ∧
      ¬ br.isExtra (a.getD 0 0).toNat (a.getD 1 0).toNat ∧ ¬ br.isExtra (b.getD 0 0).toNat (b.getD 1 0).toNat
  | .hex _ _ conv, a, b => hexDist4 conv a b = 4
  | .full _, a, b => a ≠ b
  | .custom shape adj, a, b => (adj.getD (ravel shape (natCoord a)) []).getD (ravel shape (natCoord b)) false = true
  | .layered base _, a, b =>
    (a.getD 0 0 = b.getD 0 0 ∧ base.NN (a.drop 1) (b.drop 1)) ∨ (a.getD 0 0 ≠ b.getD 0 0 ∧ a.drop 1 = b.drop 1)

/-- the ones of the adjacency matrix are exactly the nearest-neighbour pairs of the coordinates -/
theorem adj_iff_NN (l : Lat) (h : l.WF) (i j : Nat) (hi : i < l.nsites) (hj : j < l.nsites) :
    l.adj i j = true ↔ l.NN (l.coord i) (l.coord j) := by
  induction l generalizing i j with
  | integer shape pbc =>
    simp only [Lat.adj, Lat.NN, Lat.coord, natCoord_map, gridAdj_iff]
    exact ⟨fun h => h.2.2, fun h => ⟨hi, hj, h⟩⟩
  | triangular shape pbc =>
    simp only [Lat.adj, Lat.NN, Lat.coord, natCoord_map, triAdj, Bool.or_eq_true, gridAdj_iff, triDiag_iff]
    constructor
    · rintro (h | h)
      · exact Or.inl h.2.2
      · exact Or.inr h.2.2
    · rintro (h | h)
      · exact Or.inl ⟨hi, hj, h⟩
      · exact Or.inr ⟨hi, hj, h⟩
  | ofc n0 n1 pbc =>
    simp only [Lat.adj, Lat.NN, Lat.coord, ofcAdj_iff n0 n1 pbc h, List.getD_cons_zero, List.getD_cons_succ, Int.toNat_natCast]
    exact ⟨fun h => h.2.2, fun h => ⟨hi, hj, h⟩⟩
  | brick b =>
    simp only [Lat.adj, Lat.NN, Lat.coord, Brick.adj_iff b h.1 h.2, List.getD_cons_zero, List.getD_cons_succ,
      Int.toNat_natCast]
    exact ⟨fun h => h.2.2, fun h => ⟨hi, hj, h⟩⟩
  | hex m n conv =>
    have hi' : i < (⟨m, n, true, conv⟩ : Brick).nsites := by simpa [Lat.nsites, Brick.nsites] using hi
    have hj' : j < (⟨m, n, true, conv⟩ : Brick).nsites := by simpa [Lat.nsites, Brick.nsites] using hj
    have n1 := Brick.not_isExtra_of_delete ⟨m, n, true, conv⟩ h.1 h.2 rfl i hi'
    have n2 := Brick.not_isExtra_of_delete ⟨m, n, true, conv⟩ h.1 h.2 rfl j hj'
    simp only [Lat.adj, Lat.NN, Lat.coord, Brick.adj_iff ⟨m, n, true, conv⟩ h.1 h.2]
    rw [← brickNN_iff_unit_distance, Brick.dSquare_eq]
    exact ⟨fun h => h.2.2.1, fun h => ⟨hi', hj', h, n1, n2⟩⟩
  | full shape =>
    simp only [Lat.nsites] at hi hj
    simp only [Lat.adj, Lat.NN, Lat.coord, hi, hj, decide_true, Bool.true_and, bne_iff_ne, ne_eq]
    constructor
    · intro hne e
      apply hne
      apply unravel_injective hi hj
      have := congrArg natCoord e
      simpa [natCoord_map] using this
    · intro hne e; apply hne; rw [e]
  | custom shape a =>
    simp only [Lat.nsites] at hi hj
    simp only [Lat.adj, Lat.NN, Lat.coord, natCoord_map, hi, hj, decide_true, Bool.true_and,
      ravel_unravel shape i hi, ravel_unravel shape j hj]
  | layered base nl ih =>
    have hnb := layered_base_pos hi
    have hi0 := hi
    have hj0 := hj
    simp only [Lat.nsites] at hi hj
    have hmi : i % base.nsites < base.nsites := Nat.mod_lt _ hnb
    have hmj : j % base.nsites < base.nsites := Nat.mod_lt _ hnb
    simp only [Lat.adj, Lat.NN, Lat.coord, hi, hj, decide_true, Bool.true_and, List.getD_cons_zero,
      List.drop_succ_cons, List.drop_zero, Int.natCast_inj]
    by_cases hl : i / base.nsites = j / base.nsites
    · simp only [hl, beq_self_eq_true, if_true, true_and, ne_eq, not_true_eq_false, false_and, or_false]
      exact ih h _ _ hmi hmj
    · have hl' : (i / base.nsites == j / base.nsites) = false := by simpa using hl
      have hz : ¬ ((i / base.nsites : Nat) : Int) = ((j / base.nsites : Nat) : Int) := by exact_mod_cast hl
      simp only [hl', Bool.false_eq_true, if_false, beq_iff_eq, hl, false_and, ne_eq, false_or]
      constructor
      · intro e; exact ⟨hz, by rw [e]⟩
      · intro e; exact coord_inj base h _ _ hmi hmj e.2

end Qib.Lattice
