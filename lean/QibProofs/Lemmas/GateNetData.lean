import QibProofs.Lemmas.GateNetCtrl
import QibProofs.Lemmas.GateFlat
import Mathlib.Tactic.IntervalCases
/-!
Helper lemmas for C06: multi-indices over bits (`bitsVal`), the data arrays of the gate networks, and flat-index
facts about the matrices of controlled / multiplexed gates. No property statements.
-/
set_option linter.unusedSimpArgs false
set_option linter.unnecessarySeqFocus false
set_option linter.unusedVariables false
namespace Qib.GateNet
open Qib.TNet

/-! ### multi-indices over bits -/

def Bits (bs : List Nat) : Prop := ∀ x ∈ bs, x < 2

theorem bitsVal_foldl (bs : List Nat) (a : Nat) :
    bs.foldl (fun a b => 2 * a + b) a = a * 2 ^ bs.length + bitsVal bs := by
  induction bs generalizing a with
  | nil => simp [bitsVal]
  | cons x xs ih =>
    simp only [List.foldl_cons, List.length_cons, bitsVal]
    rw [ih, ih (2 * 0 + x)]
    ring

theorem bitsVal_nil : bitsVal [] = 0 := rfl

theorem bitsVal_cons (x : Nat) (bs : List Nat) : bitsVal (x :: bs) = x * 2 ^ bs.length + bitsVal bs := by
  simp only [bitsVal, List.foldl_cons]
  rw [bitsVal_foldl]; simp [bitsVal]

theorem bitsVal_append (a b : List Nat) : bitsVal (a ++ b) = bitsVal a * 2 ^ b.length + bitsVal b := by
  simp only [bitsVal, List.foldl_append]
  rw [bitsVal_foldl]; rfl

theorem bitsVal_lt (bs : List Nat) (h : Bits bs) : bitsVal bs < 2 ^ bs.length := by
  induction bs with
  | nil => simp [bitsVal]
  | cons x xs ih =>
    rw [bitsVal_cons, List.length_cons, pow_succ]
    have hx : x < 2 := h x List.mem_cons_self
    have := ih (fun y hy => h y (List.mem_cons_of_mem _ hy))
    have : x * 2 ^ xs.length ≤ 1 * 2 ^ xs.length := Nat.mul_le_mul_right _ (by omega)
    omega

theorem bitsVal_inj (a b : List Nat) (hl : a.length = b.length) (ha : Bits a) (hb : Bits b)
    (h : bitsVal a = bitsVal b) : a = b := by
  induction a generalizing b with
  | nil => cases b with
    | nil => rfl
    | cons _ _ => simp at hl
  | cons x xs ih =>
    cases b with
    | nil => simp at hl
    | cons y ys =>
      have hl' : xs.length = ys.length := by simpa using hl
      rw [bitsVal_cons, bitsVal_cons, hl'] at h
      have h1 := bitsVal_lt xs (fun z hz => ha z (List.mem_cons_of_mem _ hz))
      have h2 := bitsVal_lt ys (fun z hz => hb z (List.mem_cons_of_mem _ hz))
      rw [hl'] at h1
      have hx : x < 2 := ha x List.mem_cons_self
      have hy : y < 2 := hb y List.mem_cons_self
      have hxy : x = y := by
        have hx2 : x = 0 ∨ x = 1 := by omega
        have hy2 : y = 0 ∨ y = 1 := by omega
        rcases hx2 with rfl | rfl <;> rcases hy2 with rfl | rfl <;> simp at h ⊢ <;> omega
      subst hxy
      have : bitsVal xs = bitsVal ys := by omega
      rw [ih ys hl' (fun z hz => ha z (List.mem_cons_of_mem _ hz)) (fun z hz => hb z (List.mem_cons_of_mem _ hz)) this]

theorem bits_map_bit (cs : List Bool) : Bits (cs.map bit) := by
  intro x hx
  simp only [List.mem_map] at hx
  obtain ⟨c, _, rfl⟩ := hx
  cases c <;> simp [bit]

theorem Bits.append {a b : List Nat} (ha : Bits a) (hb : Bits b) : Bits (a ++ b) := by
  intro x hx
  rcases List.mem_append.mp hx with h | h
  · exact ha x h
  · exact hb x h

theorem Bits.left {a b : List Nat} (h : Bits (a ++ b)) : Bits a := fun x hx => h x (List.mem_append_left _ hx)
theorem Bits.right {a b : List Nat} (h : Bits (a ++ b)) : Bits b := fun x hx => h x (List.mem_append_right _ hx)

/-- the control index of `ControlledGate.as_matrix` is the control pattern read as a multi-index, first control
most significant -/
theorem ctrlIndex_eq (cs : List Bool) : ctrlIndex cs = bitsVal (cs.map bit) := by
  have h : ctrlIndex cs = Qib.Gate.ctrlIndex cs := rfl
  rw [h, Qib.GateFlat.ctrlIndex_msb, Qib.GateFlat.ofBitsMSB, bitsVal, List.foldl_map]
  rfl

/-- a row-major multi-index over bits: quotient and remainder by the size of the trailing block -/
theorem bitsVal_append_div (a b : List Nat) (hb : Bits b) : bitsVal (a ++ b) / 2 ^ b.length = bitsVal a := by
  rw [bitsVal_append]
  have := bitsVal_lt b hb
  rw [Nat.mul_comm, Nat.mul_add_div (by positivity), Nat.div_eq_of_lt this]; simp

theorem bitsVal_append_mod (a b : List Nat) (hb : Bits b) : bitsVal (a ++ b) % 2 ^ b.length = bitsVal b := by
  rw [bitsVal_append]
  have := bitsVal_lt b hb
  rw [Nat.mul_comm, Nat.mul_add_mod, Nat.mod_eq_of_lt this]

end Qib.GateNet

namespace Qib.GateNet
open Qib.TNet
section
variable {α : Type} [CommSemiring α]

/-! ### data arrays -/

theorem forall2_rep2 (idx : List Nat) (h : Bits idx) : List.Forall₂ (fun i d => i < d) idx (rep2 idx.length) := by
  induction idx with
  | nil => exact List.Forall₂.nil
  | cons x xs ih =>
    exact List.Forall₂.cons (h x List.mem_cons_self) (ih (fun y hy => h y (List.mem_cons_of_mem _ hy)))

theorem forall2_rep2' (idx : List Nat) (k : Nat) (hk : idx.length = k) (h : Bits idx) :
    List.Forall₂ (fun i d => i < d) idx (rep2 k) := hk ▸ forall2_rep2 idx h

theorem TN.D_of_lookup (tn : TN α) (k : Int) (d : DT α) (h : tn.data.lookup k = some d) (idx : List Nat) :
    tn.D (some k) idx = d.get idx := by
  simp [TN.D, h]

theorem lookup_map_self {β : Type} (l : List Int) (f : Int → β) (r : Int) (h : r ∈ l) :
    (l.map (fun r => (r, f r))).lookup r = some (f r) := by
  induction l with
  | nil => simp at h
  | cons x xs ih =>
    simp only [List.map_cons, List.lookup]
    by_cases hx : r = x
    · subst hx; simp
    · have : (r == x) = false := by simpa using hx
      rw [this]
      exact ih (by simpa [hx] using h)

/-- the wire-crossing tables mean: diagonal in the physical wire; downward leg = upward leg ∧ wire matches polarity -/
theorem crossSem_spec (c : Bool) : CrossSpec (fun c p p' u d => (crossSem c [p, p', u, d] : α)) c := by
  intro p p' u d hp hp' hu hd
  interval_cases p <;> interval_cases p' <;> interval_cases u <;> interval_cases d <;> cases c <;>
    simp [crossSem, crossTab, bit]

theorem xSem_spec (p q : Nat) (hp : p < 2) (hq : q < 2) : (xSem [p, q] : α) = if p = q then 0 else 1 := by
  interval_cases p <;> interval_cases q <;> simp [xSem]

theorem ctrl_D0 (c0 : Bool) (rest : List Bool) (nt : Nat) (U : Nat → Nat → α) (idx : List Nat)
    (h : List.Forall₂ (fun i d => i < d) idx (2 :: rep2 (2 * nt))) :
    (ctrlTN c0 rest nt U).D (some 0) idx = ctgSem nt U idx := by
  rw [TN.D_of_lookup _ 0 (DT.ofFn (2 :: rep2 (2 * nt)) (ctrlSem nt U 0)) (by simp [ctrlTN, List.lookup])]
  rw [DT.get_ofFn _ _ _ h]
  simp [ctrlSem]

theorem ctrl_D1 (rest : List Bool) (nt : Nat) (U : Nat → Nat → α) (p q : Nat) (hp : p < 2) (hq : q < 2) :
    (ctrlTN false rest nt U).D (some 1) [p, q] = if p = q then 0 else 1 := by
  rw [TN.D_of_lookup _ 1 (DT.ofFn [2, 2] (ctrlSem nt U 1)) (by simp [ctrlTN, List.lookup])]
  rw [DT.get_ofFn _ _ _ (List.Forall₂.cons hp (List.Forall₂.cons hq List.Forall₂.nil))]
  simp only [ctrlSem]
  simp [xSem_spec p q hp hq]

theorem ctrl_Dcross (c0 : Bool) (rest : List Bool) (nt : Nat) (U : Nat → Nat → α) (c : Bool) (hc : c ∈ rest) :
    CrossSpec (Xf (ctrlTN c0 rest nt U).D) c := by
  intro p p' u d hp hp' hu hd
  have hmem : (if c then (3 : Int) else 2) ∈ crossRefs rest := by
    simp only [crossRefs, List.mem_eraseDups, List.mem_map]
    exact ⟨c, hc, rfl⟩
  have hl : (ctrlTN c0 rest nt U).data.lookup (if c then (3 : Int) else 2) =
      some (DT.ofFn [2, 2, 2, 2] (ctrlSem nt U (if c then 3 else 2))) := by
    simp only [ctrlTN, List.cons_append, List.nil_append, List.lookup]
    have h0 : ((if c then (3 : Int) else 2) == 0) = false := by cases c <;> decide
    have h1 : ((if c then (3 : Int) else 2) == 1) = false := by cases c <;> decide
    rw [h0]
    cases c0
    · simp only [Bool.not_false, if_true, List.cons_append, List.nil_append, List.lookup, h1]
      exact lookup_map_self _ _ _ hmem
    · simp only [Bool.not_true, Bool.false_eq_true, if_false, List.nil_append]
      exact lookup_map_self _ _ _ hmem
  simp only [Xf]
  rw [TN.D_of_lookup _ _ _ hl,
    DT.get_ofFn _ _ _ (List.Forall₂.cons hp (List.Forall₂.cons hp' (List.Forall₂.cons hu (List.Forall₂.cons hd List.Forall₂.nil))))]
  have := crossSem_spec (α := α) c p p' u d hp hp' hu hd
  cases c <;> simpa [ctrlSem] using this

end
end Qib.GateNet

namespace Qib.GateNet
open Qib.TNet
section
variable {α : Type} [CommSemiring α]

/-- nesting controlled gates = concatenating the control patterns (flat indices, outer controls most significant) -/
theorem ctrlMat_ctrlMat (cs cs2 : List Bool) (d : Nat) (hd : 0 < d) (U : Nat → Nat → α) (I1 I2 : Nat)
    (m : Nat) (hm : 0 < m) (hI2 : I2 < m) (i j : Nat) :
    (if i / (d * m) = j / (d * m) then
      (if i / (d * m) = I1 then
        (if i % (d * m) / d = j % (d * m) / d then
          (if i % (d * m) / d = I2 then U (i % (d * m) % d) (j % (d * m) % d)
           else (if i % (d * m) % d = j % (d * m) % d then 1 else 0))
         else 0)
       else (if i % (d * m) = j % (d * m) then 1 else 0))
     else (0 : α)) =
    (if i / d = j / d then
      (if i / d = I1 * m + I2 then U (i % d) (j % d) else (if i % d = j % d then 1 else 0))
     else 0) := by
  have e1 : ∀ x : Nat, x / (d * m) = x / d / m := fun x => (Nat.div_div_eq_div_mul x d m).symm
  have e2 : ∀ x : Nat, x % (d * m) / d = x / d % m := fun x => Nat.mod_mul_right_div_self x d m
  have e3 : ∀ x : Nat, x % (d * m) % d = x % d := fun x => Nat.mod_mul_right_mod x d m
  have e4 : ∀ x : Nat, x % (d * m) = d * (x / d % m) + x % d := fun x => by
    rw [← e2, ← e3]; exact (Nat.div_add_mod _ d).symm
  simp only [e1, e2, e3]
  simp only [e4]
  generalize hk : i / d = k
  generalize hl : j / d = l
  generalize hr : i % d = r
  generalize hs : j % d = s
  have hrd : r < d := by rw [← hr]; exact Nat.mod_lt _ hd
  have hsd : s < d := by rw [← hs]; exact Nat.mod_lt _ hd
  have hdm : ∀ x : Nat, x / m = I1 ∧ x % m = I2 ↔ x = I1 * m + I2 := by
    intro x
    rw [Nat.div_mod_unique hm]
    constructor
    · rintro ⟨h, _⟩; rw [← h]; ring
    · intro h; exact ⟨by rw [h]; ring, hI2⟩
  have hinj : ∀ x y : Nat, x / m = y / m → x % m = y % m → x = y := by
    intro x y h1 h2
    rw [← Nat.div_add_mod x m, ← Nat.div_add_mod y m, h1, h2]
  have hlin : ∀ x y : Nat, d * x + r = d * y + s ↔ x = y ∧ r = s := by
    intro x y
    constructor
    · intro h
      have h1 : (d * x + r) / d = (d * y + s) / d := by rw [h]
      rw [Nat.mul_add_div hd, Nat.mul_add_div hd, Nat.div_eq_of_lt hrd, Nat.div_eq_of_lt hsd] at h1
      have h1' : x = y := by omega
      subst h1'
      exact ⟨rfl, by omega⟩
    · rintro ⟨rfl, rfl⟩; rfl
  by_cases hkl : k = l
  · subst hkl
    simp only [if_true, hlin, true_and]
    by_cases h1 : k / m = I1
    · by_cases h2 : k % m = I2
      · have := (hdm k).mp ⟨h1, h2⟩
        rw [if_pos h1, if_pos h2, if_pos this]
      · have : ¬ k = I1 * m + I2 := fun h => h2 ((hdm k).mpr h).2
        rw [if_pos h1, if_neg h2, if_neg this]
    · have : ¬ k = I1 * m + I2 := fun h => h1 ((hdm k).mpr h).1
      rw [if_neg h1, if_neg this]
  · rw [if_neg hkl]
    by_cases h0 : k / m = l / m
    · have hmod : ¬ k % m = l % m := fun h => hkl (hinj k l h0 h)
      simp only [h0, if_true, hlin, hmod, false_and, if_false]
      split <;> rfl
    · rw [if_neg h0]

end
end Qib.GateNet
