import QibModel.Qasm
/-!
Helper lemmas for the object → Qobj-instruction part of C18 (`QibProofs/Properties/C18Qasm.lean`). Core Lean only.
Everything is generic in the table `T`; the hypotheses `T.WF` are discharged for the generated table by `decide`.
-/
namespace Qib.Qasm
open QibGen.Qasm (Exc Key QSrc Dflt LeafRow CtrlRow InstrRow)

theorem errOf_eq_none {α} (x : Except Exc α) : errOf x = none ↔ ∃ a, x = .ok a := by
  cases x <;> simp [errOf]

theorem valOf_ok {α} (a : α) : valOf (Except.ok a : Except Exc α) = some a := rfl

/-- a dictionary is returned iff no listed key raises; it then holds exactly the listed keys -/
theorem assemble_eq_ok (name : String) (keys : List Key) (v : Vals) (d : QDict) :
    assemble name keys v = .ok d ↔
      (∀ k ∈ keys, v.err k = none) ∧
      d = { name := name,
            params := if Key.params ∈ keys then valOf v.params else none,
            qubits := if Key.qubits ∈ keys then valOf v.qubits else none,
            memory := if Key.memory ∈ keys then valOf v.memory else none,
            duration := if Key.duration ∈ keys then valOf v.duration else none } := by
  unfold assemble
  cases h : keys.findSome? v.err with
  | none =>
    rw [List.findSome?_eq_none_iff] at h
    simp only [Except.ok.injEq]
    constructor
    · intro hd; exact ⟨h, hd.symm⟩
    · intro hd; exact hd.2.symm
  | some e =>
    simp only [reduceCtorEq, false_iff, not_and]
    intro hall
    rw [List.findSome?_eq_some_iff] at h
    obtain ⟨l1, a, l2, rfl, ha, _⟩ := h
    have := hall a (by simp)
    rw [this] at ha; cases ha

theorem assemble_eq_error (name : String) (keys : List Key) (v : Vals) (e : Exc) :
    assemble name keys v = .error e ↔ keys.findSome? v.err = some e := by
  unfold assemble
  cases h : keys.findSome? v.err <;> simp

theorem range_map_getElem? {α} (xs : List α) (n : Nat) (l : List α) :
    (List.range n).map (fun k => xs[k]?) = l.map some ↔ n ≤ xs.length ∧ l = xs.take n := by
  constructor
  · intro h
    have hlen : l.length = n := by simpa using (congrArg List.length h).symm
    have hget : ∀ i (hi : i < n), xs[i]? = some (l[i]'(by omega)) := by
      intro i hi
      have := congrArg (fun t => t[i]?) h
      simpa [hi, hlen] using this
    have hn : n ≤ xs.length := by
      rcases Nat.eq_zero_or_pos n with h0 | hpos
      · omega
      · have := hget (n - 1) (by omega)
        have := (List.getElem?_eq_some_iff.mp this).1
        omega
    refine ⟨hn, ?_⟩
    apply List.ext_getElem
    · simp [hlen]; omega
    · intro i h1 h2
      have := hget i (by omega)
      rw [List.getElem?_eq_some_iff] at this
      obtain ⟨hx, hv⟩ := this
      simp [← hv]
  · rintro ⟨hn, rfl⟩
    apply List.ext_getElem
    · simp; omega
    · intro i h1 h2
      simp at h1
      simp

theorem evalParams_map_some (ps : List Rat) (ks : List Nat) (l : List Rat) :
    evalParams ps (ks.map some) = .ok l ↔ ks.map (fun k => ps[k]?) = l.map some := by
  induction ks generalizing l with
  | nil => simp only [List.map_nil, evalParams, Except.ok.injEq]; constructor <;> intro h
           · subst h; rfl
           · cases l <;> simp_all
  | cons k ks ih =>
    simp only [List.map_cons, evalParams]
    cases hk : ps[k]? with
    | none => simp; intro h; cases l <;> simp_all
    | some p =>
      cases hr : evalParams ps (ks.map some) with
      | error e =>
        simp only [reduceCtorEq, false_iff]
        intro h
        cases l with
        | nil => simp at h
        | cons a l' =>
          simp only [List.map_cons, List.cons.injEq] at h
          have := (ih l').mpr h.2
          rw [hr] at this; cases this
      | ok l' =>
        have := (ih l').mp hr
        simp only [Except.ok.injEq]
        constructor
        · rintro rfl; simp [this]
        · intro h
          cases l with
          | nil => simp at h
          | cons a l'' =>
            simp only [List.map_cons, List.cons.injEq, Option.some.injEq] at h
            obtain ⟨rfl, h2⟩ := h
            rw [this] at h2
            have : l' = l'' := (List.map_inj_right (fun x y h => Option.some.inj h)).mp h2
            rw [this]

theorem evalParams_none_mem (ps : List Rat) (srcs : List (Option Nat)) (h : none ∈ srcs) (l : List Rat) :
    evalParams ps srcs ≠ .ok l := by
  induction srcs generalizing l with
  | nil => simp at h
  | cons s rest ih =>
    cases s with
    | none => simp [evalParams]
    | some k =>
      have hr : none ∈ rest := by simpa using h
      simp only [evalParams]
      cases ps[k]? with
      | none => simp
      | some p =>
        cases hr' : evalParams ps rest with
        | error e => simp
        | ok l' => exact absurd hr' (ih hr l')

theorem evalQubits_cons_ok (ctrls : List Int) (own : List (Option Int)) (s : QSrc) (rest : List QSrc) (l : List Int) :
    evalQubits ctrls own (s :: rest) = .ok l ↔
      ∃ q l', evalQubit ctrls own s = .ok q ∧ evalQubits ctrls own rest = .ok l' ∧ l = q :: l' := by
  simp only [evalQubits]
  cases evalQubit ctrls own s with
  | error e => simp
  | ok q =>
    cases evalQubits ctrls own rest with
    | error e => simp
    | ok l' => simp [eq_comm]

theorem evalQubits_append (ctrls : List Int) (own : List (Option Int)) (a b : List QSrc) (l : List Int) :
    evalQubits ctrls own (a ++ b) = .ok l ↔
      ∃ la lb, evalQubits ctrls own a = .ok la ∧ evalQubits ctrls own b = .ok lb ∧ l = la ++ lb := by
  induction a generalizing l with
  | nil => simp [evalQubits, eq_comm]
  | cons s rest ih =>
    rw [List.cons_append, evalQubits_cons_ok]
    constructor
    · rintro ⟨q, l', hq, hl', rfl⟩
      obtain ⟨la, lb, ha, hb, rfl⟩ := (ih l').mp hl'
      exact ⟨q :: la, lb, (evalQubits_cons_ok ..).mpr ⟨q, la, hq, ha, rfl⟩, hb, rfl⟩
    · rintro ⟨la, lb, ha, hb, rfl⟩
      obtain ⟨q, la', hq, ha', rfl⟩ := (evalQubits_cons_ok ..).mp ha
      exact ⟨q, la' ++ lb, hq, (ih _).mpr ⟨la', lb, ha', hb, rfl⟩, rfl⟩

theorem evalQubits_ctrl (ctrls : List Int) (own : List (Option Int)) (ks : List Nat) (l : List Int) :
    evalQubits ctrls own (ks.map QSrc.ctrl) = .ok l ↔ ks.map (fun k => ctrls[k]?) = l.map some := by
  induction ks generalizing l with
  | nil => simp only [List.map_nil, evalQubits, Except.ok.injEq]; constructor <;> intro h
           · subst h; rfl
           · cases l <;> simp_all
  | cons k ks ih =>
    rw [List.map_cons, evalQubits_cons_ok]
    constructor
    · rintro ⟨q, l', hq, hl', rfl⟩
      simp only [evalQubit] at hq
      cases hk : ctrls[k]? with
      | none => rw [hk] at hq; cases hq
      | some c => rw [hk] at hq; cases hq; simp [(ih l').mp hl', hk]
    · intro h
      cases l with
      | nil => simp at h
      | cons q l' =>
        simp only [List.map_cons, List.cons.injEq] at h
        exact ⟨q, l', by simp [evalQubit, h.1], (ih l').mpr h.2, rfl⟩

theorem evalQubits_own (ctrls : List Int) (own : List (Option Int)) (ks : List Nat) (l : List Int) :
    evalQubits ctrls own (ks.map QSrc.own) = .ok l ↔ ks.map (fun k => own[k]?) = (l.map some).map some := by
  induction ks generalizing l with
  | nil => simp only [List.map_nil, evalQubits, Except.ok.injEq]; constructor <;> intro h
           · subst h; rfl
           · cases l <;> simp_all
  | cons k ks ih =>
    rw [List.map_cons, evalQubits_cons_ok]
    constructor
    · rintro ⟨q, l', hq, hl', rfl⟩
      simp only [evalQubit] at hq
      cases hk : own[k]? with
      | none => rw [hk] at hq; cases hq
      | some c =>
        rw [hk] at hq
        cases c with
        | none => cases hq
        | some c => cases hq; simp [(ih l').mp hl', hk]
    · intro h
      cases l with
      | nil => simp at h
      | cons q l' =>
        simp only [List.map_cons, List.cons.injEq] at h
        exact ⟨q, l', by simp [evalQubit, h.1], (ih l').mpr h.2, rfl⟩


/-! ### Searching a table by name / by class -/

theorem find?_of_nodup_map {α β} [BEq β] [LawfulBEq β] (f : α → β) (l : List α) (h : (l.map f).Nodup) (r : α) (hr : r ∈ l) :
    l.find? (fun x => f x == f r) = some r := by
  induction l with
  | nil => simp at hr
  | cons a l ih =>
    simp only [List.map_cons, List.nodup_cons] at h
    rw [List.find?_cons]
    by_cases hfa : f a = f r
    · have : a = r := by
        rcases List.mem_cons.mp hr with rfl | hm
        · rfl
        · exact absurd (hfa ▸ List.mem_map_of_mem (f := f) hm) h.1
      simp [this]
    · have hne : (f a == f r) = false := by simpa using hfa
      rw [hne]
      rcases List.mem_cons.mp hr with rfl | hm
      · exact absurd rfl hfa
      · exact ih h.2 hm

theorem find?_none_of_not_mem_map {α β} [BEq β] [LawfulBEq β] (f : α → β) (l : List α) (b : β) (h : b ∉ l.map f) :
    l.find? (fun x => f x == b) = none := by
  rw [List.find?_eq_none]
  intro x hx
  simp only [beq_iff_eq]
  rintro rfl
  exact h (List.mem_map_of_mem hx)

theorem findLeaf_some {T : Table} {c : String} {r : LeafRow} (h : findLeaf T c = some r) : r ∈ T.leaf ∧ r.cls = c := by
  unfold findLeaf at h
  exact ⟨List.mem_of_find?_eq_some h, by simpa using List.find?_some h⟩

theorem findCtrl_some {T : Table} {n : Nat} {c : String} {r : CtrlRow} (h : findCtrl T n c = some r) :
    r ∈ T.ctrl ∧ r.ncontrols = n ∧ r.tcls = c := by
  unfold findCtrl at h
  have := List.find?_some h
  simp only [Bool.and_eq_true, beq_iff_eq] at this
  exact ⟨List.mem_of_find?_eq_some h, this.1, this.2⟩


/-! ### What a returned dictionary looks like -/

theorem params_identity (ps : List Rat) (n : Nat) (hn : ps.length = n) (l : List Rat) :
    evalParams ps ((List.range n).map some) = .ok l ↔ l = ps := by
  rw [evalParams_map_some, range_map_getElem?]
  subst hn
  simp

theorem own_identity (ctrls : List Int) (own : List (Option Int)) (n : Nat) (hn : own.length = n) (l : List Int) :
    evalQubits ctrls own ((List.range n).map QSrc.own) = .ok l ↔ own = l.map some := by
  rw [evalQubits_own, range_map_getElem?]
  subst hn
  simp [eq_comm]

theorem ctrl_identity (ctrls : List Int) (own : List (Option Int)) (n : Nat) (hn : ctrls = [] ∨ ctrls.length = n) (l : List Int) :
    evalQubits ctrls own ((List.range n).map QSrc.ctrl) = .ok l ↔ ctrls.length = n ∧ l = ctrls := by
  rw [evalQubits_ctrl, range_map_getElem?]
  rcases hn with rfl | hn
  · simp only [List.length_nil, Nat.le_zero_eq, List.take_nil]
    constructor
    · rintro ⟨h, rfl⟩; exact ⟨h.symm, rfl⟩
    · rintro ⟨h, rfl⟩; exact ⟨h.symm, rfl⟩
  · subst hn; simp

/-- the dictionary of a leaf gate -/
def leafDict (r : LeafRow) (ps : List Rat) (l : List Int) : QDict :=
  { name := r.name, params := if r.nparams ≠ 0 then some ps else none, qubits := some l }

theorem leaf_assemble_iff (r : LeafRow) (hr : LeafRowOK r) (ps : List Rat) (qs : List (Option Int))
    (hlen_p : ps.length = r.nparams) (hlen_q : qs.length = r.nqubits) (d : QDict) :
    assemble r.name r.keys (gateVals r.params r.qubits ps [] qs) = .ok d ↔ ∃ l, qs = l.map some ∧ d = leafDict r ps l := by
  obtain ⟨_, hq, hm, hdur, hp, hps, hqs⟩ := hr
  rw [assemble_eq_ok]
  simp only [gateVals, hps, hqs]
  have hpar := (params_identity ps r.nparams hlen_p ps).mpr rfl
  constructor
  · rintro ⟨herr, rfl⟩
    have h1 := herr _ hq
    simp only [Vals.err, errOf_eq_none] at h1
    obtain ⟨l, hl⟩ := h1
    refine ⟨l, (own_identity [] qs r.nqubits hlen_q l).mp hl, ?_⟩
    by_cases hn : r.nparams = 0
    · have : Key.params ∉ r.keys := fun h => (hp.mp h) hn
      simp [leafDict, hq, hm, hdur, hl, valOf, hn, this]
    · simp [leafDict, hq, hm, hdur, hl, valOf, hn, hp.mpr hn, hpar]
  · rintro ⟨l, rfl, rfl⟩
    have hl := (own_identity [] (l.map some) r.nqubits hlen_q l).mpr rfl
    constructor
    · intro k hk
      cases k with
      | params => simp [Vals.err, hpar, errOf]
      | qubits => simp [Vals.err, hl, errOf]
      | memory => exact absurd hk hm
      | duration => exact absurd hk hdur
    · by_cases hn : r.nparams = 0
      · have : Key.params ∉ r.keys := fun h => (hp.mp h) hn
        simp [leafDict, hq, hm, hdur, hl, valOf, hn, this]
      · simp [leafDict, hq, hm, hdur, hl, valOf, hn, hp.mpr hn, hpar]

/-- a leaf gate serialises iff its class defines `as_qasm` and all its qubits are bound; the dictionary then carries the class's name,
the object's own parameters (unchanged, in order; no `params` entry for a class without parameters) and its qubit indices in order -/
theorem leaf_asQasm_ok_iff (T : Table) (hT : T.WF) (c : String) (ps : List Rat) (qs : List (Option Int))
    (hg : (Gate.leaf c ps qs).WF T) (d : QDict) :
    (Gate.leaf c ps qs).asQasm T = .ok d ↔
      ∃ r l, findLeaf T c = some r ∧ qs = l.map some ∧ d = leafDict r ps l := by
  simp only [Gate.asQasm]
  cases hf : findLeaf T c with
  | none => simp
  | some r =>
    obtain ⟨hlen_p, hlen_q⟩ := hg r hf
    have key := leaf_assemble_iff r (hT.leafOK r (findLeaf_some hf).1) ps qs hlen_p hlen_q d
    constructor
    · intro h; obtain ⟨l, h1, h2⟩ := key.mp h; exact ⟨r, l, rfl, h1, h2⟩
    · rintro ⟨r', l, hr, h1, h2⟩; cases hr; exact key.mpr ⟨l, h1, h2⟩


/-- the dictionary of a controlled gate -/
def ctrlDict (r : CtrlRow) (ps : List Rat) (l : List Int) : QDict :=
  { name := r.name, params := if r.tnparams ≠ 0 then some ps else none, qubits := some l }

theorem ctrlRaises_never_ok (r : CtrlRow) (h : ctrlRaises r = true) (ps : List Rat) (ctrls : List Int) (own : List (Option Int)) (d : QDict) :
    assemble r.name r.keys (gateVals r.params r.qubits ps ctrls own) ≠ .ok d := by
  intro hd
  rw [assemble_eq_ok] at hd
  simp only [ctrlRaises, Bool.and_eq_true, List.contains_iff_mem] at h
  have := hd.1 _ h.1
  simp only [Vals.err, gateVals, errOf_eq_none] at this
  obtain ⟨l, hl⟩ := this
  exact evalParams_none_mem ps r.params h.2 l hl

theorem ctrl_assemble_iff (r : CtrlRow) (hr : CtrlRowOK r) (ps : List Rat) (ctrls : List Int) (own : List (Option Int))
    (hlen_p : ps.length = r.tnparams) (hlen_q : own.length = r.tnqubits) (hc : ctrls = [] ∨ ctrls.length = r.ncontrols) (d : QDict) :
    assemble r.name r.keys (gateVals r.params r.qubits ps ctrls own) = .ok d ↔
      ctrlRaises r = false ∧ ctrls.length = r.ncontrols ∧ ∃ tq, own = tq.map some ∧ d = ctrlDict r ps (ctrls ++ tq) := by
  by_cases hrz : ctrlRaises r = true
  · constructor
    · intro h; exact absurd h (ctrlRaises_never_ok r hrz ps ctrls own d)
    · rintro ⟨h, _⟩; rw [h] at hrz; cases hrz
  · obtain ⟨_, hq, hm, hdur, hor⟩ := hr
    rcases hor with h | ⟨hp, hps, hqs⟩
    · exact absurd h hrz
    · have hrz' : ctrlRaises r = false := by simpa using hrz
      rw [assemble_eq_ok]
      simp only [gateVals, hps, hqs, hrz', true_and]
      have hpar := (params_identity ps r.tnparams hlen_p ps).mpr rfl
      constructor
      · rintro ⟨herr, rfl⟩
        have h1 := herr _ hq
        simp only [Vals.err, errOf_eq_none] at h1
        obtain ⟨l, hl⟩ := h1
        obtain ⟨la, lb, ha, hb, rfl⟩ := (evalQubits_append ..).mp hl
        obtain ⟨hcl, rfl⟩ := (ctrl_identity ctrls own r.ncontrols hc la).mp ha
        refine ⟨hcl, lb, (own_identity _ own r.tnqubits hlen_q lb).mp hb, ?_⟩
        by_cases hn : r.tnparams = 0
        · have : Key.params ∉ r.keys := fun h => (hp.mp h) hn
          simp [ctrlDict, hq, hm, hdur, hl, valOf, hn, this]
        · simp [ctrlDict, hq, hm, hdur, hl, valOf, hn, hp.mpr hn, hpar]
      · rintro ⟨hcl, tq, rfl, rfl⟩
        have hb := (own_identity ctrls (tq.map some) r.tnqubits hlen_q tq).mpr rfl
        have ha := (ctrl_identity ctrls (tq.map some) r.ncontrols hc ctrls).mpr ⟨hcl, rfl⟩
        have hl := (evalQubits_append ctrls (tq.map some) _ _ (ctrls ++ tq)).mpr ⟨ctrls, tq, ha, hb, rfl⟩
        constructor
        · intro k hk
          cases k with
          | params => simp [Vals.err, hpar, errOf]
          | qubits => simp [Vals.err, hl, errOf]
          | memory => exact absurd hk hm
          | duration => exact absurd hk hdur
        · by_cases hn : r.tnparams = 0
          · have : Key.params ∉ r.keys := fun h => (hp.mp h) hn
            simp [ctrlDict, hq, hm, hdur, hl, valOf, hn, this]
          · simp [ctrlDict, hq, hm, hdur, hl, valOf, hn, hp.mpr hn, hpar]

/-- a target that matches a branch of the tree is a leaf object of the branch's class -/
theorem target_is_leaf (T : Table) (hT : T.WF) (tg : Gate) (n : Nat) (r : CtrlRow) (h : findCtrl T n (tg.cls T) = some r) :
    tg = .leaf r.tcls tg.ownParams tg.ownQubits := by
  obtain ⟨hmem, _, hcls⟩ := findCtrl_some h
  cases tg with
  | leaf c ps qs => simp only [Gate.cls] at hcls; simp [Gate.ownParams, Gate.ownQubits, hcls]
  | controlled t m cs ctrls => simp only [Gate.cls] at hcls; exact absurd hcls (hT.noNested r hmem)

/-- a controlled gate serialises iff `(ncontrols, type(target))` is a branch of the tree that can return, the control qubits are
set and the target's qubits are bound; the dictionary then carries the branch's name, the TARGET's own parameters unchanged, and the
control indices followed by the target's indices. The control state plays no role. -/
theorem ctrl_asQasm_ok_iff (T : Table) (hT : T.WF) (tg : Gate) (n : Nat) (cs : List Bool) (ctrls : List Int)
    (hg : (Gate.controlled tg n cs ctrls).WF T) (d : QDict) :
    (Gate.controlled tg n cs ctrls).asQasm T = .ok d ↔
      ∃ r tq, findCtrl T n (tg.cls T) = some r ∧ ctrlRaises r = false ∧ ctrls.length = n ∧
        tg = .leaf r.tcls tg.ownParams (tq.map some) ∧ d = ctrlDict r tg.ownParams (ctrls ++ tq) := by
  simp only [Gate.asQasm]
  cases hf : findCtrl T n (tg.cls T) with
  | none => simp
  | some r =>
    obtain ⟨_, hc, hlen⟩ := hg
    obtain ⟨hlen_p, hlen_q⟩ := hlen r hf
    obtain ⟨hmem, hn, _⟩ := findCtrl_some hf
    have key := ctrl_assemble_iff r (hT.ctrlOK r hmem) tg.ownParams ctrls tg.ownQubits hlen_p hlen_q (hn ▸ hc) d
    have hleaf := target_is_leaf T hT tg n r hf
    constructor
    · intro h
      obtain ⟨h1, h2, tq, h3, h4⟩ := key.mp h
      exact ⟨r, tq, rfl, h1, hn ▸ h2, h3 ▸ hleaf, h4⟩
    · rintro ⟨r', tq, hr, h1, h2, h3, h4⟩
      cases hr
      refine key.mpr ⟨h1, hn ▸ h2, tq, ?_, h4⟩
      rw [h3]; rfl


/-! ### The control instructions -/

theorem listVal_ok (o : Option (List Int)) (l : List Int) : listVal o = .ok l ↔ o = some l := by
  cases o <;> simp [listVal]

theorem measure_asQasm_ok_iff (T : Table) (hT : T.WF) (qs cs : Option (List Int)) (d : QDict) :
    (Obj.measure qs cs).asQasm T = .ok d ↔
      ∃ l m, qs = some l ∧ cs = some m ∧ d = { name := T.measure.name, qubits := some l, memory := some m } := by
  obtain ⟨_, hq, hm, hp, hd⟩ := hT.measureOK
  simp only [Obj.asQasm, assemble_eq_ok]
  constructor
  · rintro ⟨herr, rfl⟩
    have h1 := herr _ hq
    have h2 := herr _ hm
    simp only [Vals.err, errOf_eq_none, listVal_ok] at h1 h2
    obtain ⟨l, rfl⟩ := h1
    obtain ⟨m, rfl⟩ := h2
    exact ⟨l, m, rfl, rfl, by simp [hq, hm, hp, hd, listVal, valOf]⟩
  · rintro ⟨l, m, rfl, rfl, rfl⟩
    constructor
    · intro k hk
      cases k with
      | params => exact absurd hk hp
      | qubits => simp [Vals.err, listVal, errOf]
      | memory => simp [Vals.err, listVal, errOf]
      | duration => exact absurd hk hd
    · simp [hq, hm, hp, hd, listVal, valOf]

theorem barrier_asQasm_ok_iff (T : Table) (hT : T.WF) (qs : Option (List Int)) (d : QDict) :
    (Obj.barrier qs).asQasm T = .ok d ↔ ∃ l, qs = some l ∧ d = { name := T.barrier.name, qubits := some l } := by
  obtain ⟨_, hq, hm, hp, hd⟩ := hT.barrierOK
  simp only [Obj.asQasm, assemble_eq_ok]
  constructor
  · rintro ⟨herr, rfl⟩
    have h1 := herr _ hq
    simp only [Vals.err, errOf_eq_none, listVal_ok] at h1
    obtain ⟨l, rfl⟩ := h1
    exact ⟨l, rfl, by simp [hq, hm, hp, hd, listVal, valOf]⟩
  · rintro ⟨l, rfl, rfl⟩
    constructor
    · intro k hk
      cases k with
      | params => exact absurd hk hp
      | qubits => simp [Vals.err, listVal, errOf]
      | memory => exact absurd hk hm
      | duration => exact absurd hk hd
    · simp [hq, hm, hp, hd, listVal, valOf]

theorem delay_asQasm_ok_iff (T : Table) (hT : T.WF) (dur : Rat) (qs : Option (List Int)) (d : QDict) :
    (Obj.delay dur qs).asQasm T = .ok d ↔ ∃ l, qs = some l ∧ d = { name := T.delay.name, qubits := some l, duration := some dur } := by
  obtain ⟨_, hq, hd, hp, hm⟩ := hT.delayOK
  simp only [Obj.asQasm, assemble_eq_ok]
  constructor
  · rintro ⟨herr, rfl⟩
    have h1 := herr _ hq
    simp only [Vals.err, errOf_eq_none, listVal_ok] at h1
    obtain ⟨l, rfl⟩ := h1
    exact ⟨l, rfl, by simp [hq, hm, hp, hd, listVal, valOf]⟩
  · rintro ⟨l, rfl, rfl⟩
    constructor
    · intro k hk
      cases k with
      | params => exact absurd hk hp
      | qubits => simp [Vals.err, listVal, errOf]
      | memory => exact absurd hk hm
      | duration => simp [Vals.err, errOf]
    · simp [hq, hm, hp, hd, listVal, valOf]

/-! ### `decode` on the dictionaries that `as_qasm` can return -/

theorem names_facts (T : Table) (h : T.names.Nodup) :
    (T.leaf.map (·.name)).Nodup ∧ (T.ctrl.map (·.name)).Nodup ∧
    (∀ r ∈ T.ctrl, r.name ∉ T.leaf.map (·.name)) ∧
    (T.measure.name ∉ T.leaf.map (·.name) ∧ T.measure.name ∉ T.ctrl.map (·.name)) ∧
    (T.barrier.name ∉ T.leaf.map (·.name) ∧ T.barrier.name ∉ T.ctrl.map (·.name)) ∧
    (T.delay.name ∉ T.leaf.map (·.name) ∧ T.delay.name ∉ T.ctrl.map (·.name)) ∧
    T.measure.name ≠ T.barrier.name ∧ T.measure.name ≠ T.delay.name ∧ T.barrier.name ≠ T.delay.name := by
  unfold Table.names at h
  rw [List.nodup_append, List.nodup_append] at h
  obtain ⟨⟨hl, hc, hlc⟩, h3, hx⟩ := h
  have hmem : ∀ x ∈ [T.measure.name, T.barrier.name, T.delay.name],
      x ∉ T.leaf.map (·.name) ∧ x ∉ T.ctrl.map (·.name) := by
    intro x hx3
    exact ⟨fun hm => hx x (List.mem_append_left _ hm) x hx3 rfl, fun hm => hx x (List.mem_append_right _ hm) x hx3 rfl⟩
  simp only [List.nodup_cons, List.mem_cons, List.not_mem_nil, or_false, not_or, List.nodup_nil, and_true] at h3
  refine ⟨hl, hc, ?_, hmem _ (by simp), hmem _ (by simp), hmem _ (by simp), h3.1.1, h3.1.2, h3.2.1⟩
  intro r hr hm
  exact hlc r.name hm r.name (List.mem_map_of_mem hr) rfl

theorem shapeOK_leafDict (r : LeafRow) (hr : LeafRowOK r) (ps : List Rat) (l : List Int) : shapeOK r.keys (leafDict r ps l) = true := by
  obtain ⟨_, hq, hm, hdur, hp, _, _⟩ := hr
  by_cases hn : r.nparams = 0
  · have : Key.params ∉ r.keys := fun h => (hp.mp h) hn
    simp [shapeOK, leafDict, hq, hm, hdur, hn, this]
  · simp [shapeOK, leafDict, hq, hm, hdur, hn, hp.mpr hn]

theorem decode_leafDict (T : Table) (hT : T.WF) (r : LeafRow) (hr : r ∈ T.leaf) (ps : List Rat) (l : List Int)
    (hp : ps.length = r.nparams) (hl : l.length = r.nqubits) :
    decode T (leafDict r ps l) = some (.gate (.leaf r.cls ps (l.map some))) := by
  have hn := names_facts T hT.namesNodup
  have hfind : T.leaf.find? (fun r' => r'.name == (leafDict r ps l).name) = some r :=
    find?_of_nodup_map (·.name) T.leaf hn.1 r hr
  unfold decode
  rw [hfind]
  have hps : (leafDict r ps l).params.getD [] = ps := by
    by_cases h0 : r.nparams = 0
    · have : ps = [] := List.eq_nil_of_length_eq_zero (hp.trans h0)
      simp [leafDict, h0, this]
    · simp [leafDict, h0]
  simp only [decodeLeaf, shapeOK_leafDict r (hT.leafOK r hr), hps]
  simp [leafDict, hp, hl]

theorem shapeOK_ctrlDict (r : CtrlRow) (hr : CtrlRowOK r) (hz : ctrlRaises r = false) (ps : List Rat) (l : List Int) :
    shapeOK r.keys (ctrlDict r ps l) = true := by
  obtain ⟨_, hq, hm, hdur, hor⟩ := hr
  rcases hor with h | ⟨hp, _, _⟩
  · rw [hz] at h; cases h
  · by_cases hn : r.tnparams = 0
    · have : Key.params ∉ r.keys := fun h => (hp.mp h) hn
      simp [shapeOK, ctrlDict, hq, hm, hdur, hn, this]
    · simp [shapeOK, ctrlDict, hq, hm, hdur, hn, hp.mpr hn]

theorem decode_ctrlDict (T : Table) (hT : T.WF) (r : CtrlRow) (hr : r ∈ T.ctrl) (hz : ctrlRaises r = false) (ps : List Rat)
    (ctrls tq : List Int) (hp : ps.length = r.tnparams) (hc : ctrls.length = r.ncontrols) (hq : tq.length = r.tnqubits) :
    decode T (ctrlDict r ps (ctrls ++ tq)) =
      some (.gate (.controlled (.leaf r.tcls ps (tq.map some)) r.ncontrols (List.replicate r.ncontrols true) ctrls)) := by
  have hn := names_facts T hT.namesNodup
  have hnone : T.leaf.find? (fun r' => r'.name == (ctrlDict r ps (ctrls ++ tq)).name) = none :=
    find?_none_of_not_mem_map (·.name) T.leaf _ (hn.2.2.1 r hr)
  have hfind : T.ctrl.find? (fun r' => r'.name == (ctrlDict r ps (ctrls ++ tq)).name) = some r :=
    find?_of_nodup_map (·.name) T.ctrl hn.2.1 r hr
  unfold decode
  rw [hnone]
  simp only [hfind]
  have hps : (ctrlDict r ps (ctrls ++ tq)).params.getD [] = ps := by
    by_cases h0 : r.tnparams = 0
    · have : ps = [] := List.eq_nil_of_length_eq_zero (hp.trans h0)
      simp [ctrlDict, h0, this]
    · simp [ctrlDict, h0]
  simp only [decodeCtrl, shapeOK_ctrlDict r (hT.ctrlOK r hr) hz, hps, hz]
  rw [← hc]
  simp [ctrlDict, hp, hq]


theorem decode_measureDict (T : Table) (hT : T.WF) (l m : List Int) :
    decode T { name := T.measure.name, qubits := some l, memory := some m } = some (.measure (some l) (some m)) := by
  have hn := names_facts T hT.namesNodup
  obtain ⟨_, hq, hm, hp, hd⟩ := hT.measureOK
  unfold decode
  simp only [find?_none_of_not_mem_map (·.name) T.leaf _ hn.2.2.2.1.1, find?_none_of_not_mem_map (·.name) T.ctrl _ hn.2.2.2.1.2]
  simp [shapeOK, hq, hm, hp, hd]

theorem decode_barrierDict (T : Table) (hT : T.WF) (l : List Int) :
    decode T { name := T.barrier.name, qubits := some l } = some (.barrier (some l)) := by
  have hn := names_facts T hT.namesNodup
  obtain ⟨_, hq, hm, hp, hd⟩ := hT.barrierOK
  unfold decode
  simp only [find?_none_of_not_mem_map (·.name) T.leaf _ hn.2.2.2.2.1.1, find?_none_of_not_mem_map (·.name) T.ctrl _ hn.2.2.2.2.1.2]
  have : (T.barrier.name == T.measure.name) = false := by simpa using fun h => hn.2.2.2.2.2.2.1 h.symm
  simp [shapeOK, hq, hm, hp, hd, this]

theorem decode_delayDict (T : Table) (hT : T.WF) (dur : Rat) (l : List Int) :
    decode T { name := T.delay.name, qubits := some l, duration := some dur } = some (.delay dur (some l)) := by
  have hn := names_facts T hT.namesNodup
  obtain ⟨_, hq, hd, hp, hm⟩ := hT.delayOK
  unfold decode
  simp only [find?_none_of_not_mem_map (·.name) T.leaf _ hn.2.2.2.2.2.1.1, find?_none_of_not_mem_map (·.name) T.ctrl _ hn.2.2.2.2.2.1.2]
  have h1 : (T.delay.name == T.measure.name) = false := by simpa using fun h => hn.2.2.2.2.2.2.2.1 h.symm
  have h2 : (T.delay.name == T.barrier.name) = false := by simpa using fun h => hn.2.2.2.2.2.2.2.2 h.symm
  simp [shapeOK, hq, hm, hp, hd, h1, h2]


/-! ### Round trip, serialisability, names -/

/-- **round trip**: decoding what `as_qasm` returned gives the object back, up to the control state -/
theorem decode_asQasm (T : Table) (hT : T.WF) (o : Obj) (ho : o.WF T) (d : QDict) (h : o.asQasm T = .ok d) :
    decode T d = some o.norm := by
  cases o with
  | gate g =>
    cases g with
    | leaf c ps qs =>
      obtain ⟨r, l, hf, rfl, rfl⟩ := (leaf_asQasm_ok_iff T hT c ps _ ho d).mp h
      obtain ⟨hmem, rfl⟩ := findLeaf_some hf
      obtain ⟨hp, hq⟩ := ho r hf
      rw [decode_leafDict T hT r hmem ps l hp (by simpa using hq)]; rfl
    | controlled tg n cs ctrls =>
      obtain ⟨r, tq, hf, hz, hc, htg, rfl⟩ := (ctrl_asQasm_ok_iff T hT tg n cs ctrls ho d).mp h
      obtain ⟨hmem, hn, _⟩ := findCtrl_some hf
      obtain ⟨hp, hq⟩ := ho.2.2 r hf
      have hq' : tq.length = r.tnqubits := by
        have : tg.ownQubits = tq.map some := by rw [htg]; rfl
        rw [this] at hq; simpa using hq
      rw [decode_ctrlDict T hT r hmem hz tg.ownParams ctrls tq hp (hn ▸ hc) hq']
      simp only [Obj.norm, Gate.norm, hn, ← htg]
  | measure qs cs =>
    obtain ⟨l, m, rfl, rfl, rfl⟩ := (measure_asQasm_ok_iff T hT qs cs d).mp h
    exact decode_measureDict T hT l m
  | barrier qs =>
    obtain ⟨l, rfl, rfl⟩ := (barrier_asQasm_ok_iff T hT qs d).mp h
    exact decode_barrierDict T hT l
  | delay dur qs =>
    obtain ⟨l, rfl, rfl⟩ := (delay_asQasm_ok_iff T hT dur qs d).mp h
    exact decode_delayDict T hT dur l
  | other c => simp [Obj.asQasm] at h

theorem norm_of_std (o : Obj) (h : o.StdCtrl) : o.norm = o := by
  cases o with
  | gate g =>
    cases g with
    | leaf c ps qs => rfl
    | controlled tg n cs ctrls => simp only [Obj.StdCtrl, Gate.StdCtrl] at h; simp [Obj.norm, Gate.norm, h]
  | _ => rfl

theorem all_some_iff (qs : List (Option Int)) : (∀ q ∈ qs, q.isSome = true) ↔ ∃ l : List Int, qs = l.map some := by
  constructor
  · intro h
    induction qs with
    | nil => exact ⟨[], rfl⟩
    | cons q qs ih =>
      obtain ⟨l, rfl⟩ := ih (fun x hx => h x (List.mem_cons_of_mem _ hx))
      have := h q (by simp)
      cases q with
      | none => simp at this
      | some a => exact ⟨a :: l, rfl⟩
  · rintro ⟨l, rfl⟩ q hq
    simp only [List.mem_map] at hq
    obtain ⟨a, _, rfl⟩ := hq
    rfl

/-- **exactly which objects have a Qobj form** -/
theorem serialisable_iff (T : Table) (hT : T.WF) (o : Obj) (ho : o.WF T) :
    (∃ d, o.asQasm T = .ok d) ↔ o.Serialisable T := by
  cases o with
  | gate g =>
    cases g with
    | leaf c ps qs =>
      simp only [Obj.asQasm, Obj.Serialisable, leaf_asQasm_ok_iff T hT c ps qs ho, all_some_iff]
      constructor
      · rintro ⟨d, r, l, hf, hq, _⟩; exact ⟨by simp [hf], l, hq⟩
      · rintro ⟨hf, l, hq⟩
        obtain ⟨r, hr⟩ := Option.isSome_iff_exists.mp hf
        exact ⟨_, r, l, hr, hq, rfl⟩
    | controlled tg n cs ctrls =>
      simp only [Obj.asQasm, Obj.Serialisable, ctrl_asQasm_ok_iff T hT tg n cs ctrls ho, all_some_iff]
      constructor
      · rintro ⟨d, r, tq, hf, hz, hc, htg, _⟩
        exact ⟨⟨r, hf, hz⟩, hc, tq, by rw [htg]; rfl⟩
      · rintro ⟨⟨r, hf, hz⟩, hc, tq, hq⟩
        refine ⟨_, r, tq, hf, hz, hc, ?_, rfl⟩
        rw [← hq]; exact target_is_leaf T hT tg n r hf
  | measure qs cs =>
    simp only [Obj.Serialisable, measure_asQasm_ok_iff T hT qs cs, Option.isSome_iff_exists]
    constructor
    · rintro ⟨d, l, m, rfl, rfl, _⟩; exact ⟨⟨l, rfl⟩, ⟨m, rfl⟩⟩
    · rintro ⟨⟨l, rfl⟩, ⟨m, rfl⟩⟩; exact ⟨_, l, m, rfl, rfl, rfl⟩
  | barrier qs =>
    simp only [Obj.Serialisable, barrier_asQasm_ok_iff T hT qs, Option.isSome_iff_exists]
    constructor
    · rintro ⟨d, l, rfl, _⟩; exact ⟨l, rfl⟩
    · rintro ⟨l, rfl⟩; exact ⟨_, l, rfl, rfl⟩
  | delay dur qs =>
    simp only [Obj.Serialisable, delay_asQasm_ok_iff T hT dur qs, Option.isSome_iff_exists]
    constructor
    · rintro ⟨d, l, rfl, _⟩; exact ⟨l, rfl⟩
    · rintro ⟨l, rfl⟩; exact ⟨_, l, rfl, rfl⟩
  | other c => simp [Obj.asQasm, Obj.Serialisable]

/-- the name alone says which kind of object it came from -/
theorem nameTag_asQasm (T : Table) (hT : T.WF) (o : Obj) (ho : o.WF T) (d : QDict) (h : o.asQasm T = .ok d) :
    nameTag T d.name = some (o.tag T) := by
  have hn := names_facts T hT.namesNodup
  cases o with
  | gate g =>
    cases g with
    | leaf c ps qs =>
      obtain ⟨r, l, hf, rfl, rfl⟩ := (leaf_asQasm_ok_iff T hT c ps _ ho d).mp h
      obtain ⟨hmem, rfl⟩ := findLeaf_some hf
      have : T.leaf.find? (fun r' => r'.name == (leafDict r ps l).name) = some r := find?_of_nodup_map (·.name) T.leaf hn.1 r hmem
      simp [nameTag, this, Obj.tag]
    | controlled tg n cs ctrls =>
      obtain ⟨r, tq, hf, hz, hc, htg, rfl⟩ := (ctrl_asQasm_ok_iff T hT tg n cs ctrls ho d).mp h
      obtain ⟨hmem, hn', hcls⟩ := findCtrl_some hf
      have h1 : T.leaf.find? (fun r' => r'.name == (ctrlDict r tg.ownParams (ctrls ++ tq)).name) = none :=
        find?_none_of_not_mem_map (·.name) T.leaf _ (hn.2.2.1 r hmem)
      have h2 : T.ctrl.find? (fun r' => r'.name == (ctrlDict r tg.ownParams (ctrls ++ tq)).name) = some r :=
        find?_of_nodup_map (·.name) T.ctrl hn.2.1 r hmem
      simp [nameTag, h1, h2, Obj.tag, hn', hcls]
  | measure qs cs =>
    obtain ⟨l, m, rfl, rfl, rfl⟩ := (measure_asQasm_ok_iff T hT qs cs d).mp h
    simp [nameTag, find?_none_of_not_mem_map (·.name) T.leaf _ hn.2.2.2.1.1, find?_none_of_not_mem_map (·.name) T.ctrl _ hn.2.2.2.1.2, Obj.tag]
  | barrier qs =>
    obtain ⟨l, rfl, rfl⟩ := (barrier_asQasm_ok_iff T hT qs d).mp h
    have : (T.barrier.name == T.measure.name) = false := by simpa using fun h => hn.2.2.2.2.2.2.1 h.symm
    simp [nameTag, find?_none_of_not_mem_map (·.name) T.leaf _ hn.2.2.2.2.1.1, find?_none_of_not_mem_map (·.name) T.ctrl _ hn.2.2.2.2.1.2, Obj.tag, this]
  | delay dur qs =>
    obtain ⟨l, rfl, rfl⟩ := (delay_asQasm_ok_iff T hT dur qs d).mp h
    have h1 : (T.delay.name == T.measure.name) = false := by simpa using fun h => hn.2.2.2.2.2.2.2.1 h.symm
    have h2 : (T.delay.name == T.barrier.name) = false := by simpa using fun h => hn.2.2.2.2.2.2.2.2 h.symm
    simp [nameTag, find?_none_of_not_mem_map (·.name) T.leaf _ hn.2.2.2.2.2.1.1, find?_none_of_not_mem_map (·.name) T.ctrl _ hn.2.2.2.2.2.1.2, Obj.tag, h1, h2]
  | other c => simp [Obj.asQasm] at h

/-- the name is a function of the kind of object (never of parameters, qubits or control state) -/
theorem name_of_tag (T : Table) (o₁ o₂ : Obj) (d₁ d₂ : QDict) (h₁ : o₁.asQasm T = .ok d₁) (h₂ : o₂.asQasm T = .ok d₂)
    (ht : o₁.tag T = o₂.tag T) : d₁.name = d₂.name := by
  have nm : ∀ name keys v d, assemble name keys v = .ok d → d.name = name := by
    intro name keys v d h; rw [((assemble_eq_ok name keys v d).mp h).2]
  cases o₁ with
  | gate g₁ =>
    cases g₁ with
    | leaf c₁ ps₁ qs₁ =>
      cases o₂ with
      | gate g₂ =>
        cases g₂ with
        | leaf c₂ ps₂ qs₂ =>
          simp only [Obj.tag, Tag.leaf.injEq] at ht
          subst ht
          simp only [Obj.asQasm, Gate.asQasm] at h₁ h₂
          cases hf : findLeaf T c₁ with
          | none => rw [hf] at h₁; cases h₁
          | some r => rw [hf] at h₁ h₂; rw [nm _ _ _ _ h₁, nm _ _ _ _ h₂]
        | controlled => simp [Obj.tag] at ht
      | _ => simp [Obj.tag] at ht
    | controlled tg₁ n₁ cs₁ k₁ =>
      cases o₂ with
      | gate g₂ =>
        cases g₂ with
        | leaf => simp [Obj.tag] at ht
        | controlled tg₂ n₂ cs₂ k₂ =>
          simp only [Obj.tag, Tag.ctrl.injEq] at ht
          obtain ⟨rfl, hc⟩ := ht
          simp only [Obj.asQasm, Gate.asQasm, ← hc] at h₁ h₂
          cases hf : findCtrl T n₁ (tg₁.cls T) with
          | none => rw [hf] at h₁; cases h₁
          | some r => rw [hf] at h₁ h₂; rw [nm _ _ _ _ h₁, nm _ _ _ _ h₂]
      | _ => simp [Obj.tag] at ht
  | measure q₁ c₁ =>
    cases o₂ with
    | measure q₂ c₂ => simp only [Obj.asQasm] at h₁ h₂; rw [nm _ _ _ _ h₁, nm _ _ _ _ h₂]
    | gate g₂ => cases g₂ <;> simp [Obj.tag] at ht
    | _ => simp [Obj.tag] at ht
  | barrier q₁ =>
    cases o₂ with
    | barrier q₂ => simp only [Obj.asQasm] at h₁ h₂; rw [nm _ _ _ _ h₁, nm _ _ _ _ h₂]
    | gate g₂ => cases g₂ <;> simp [Obj.tag] at ht
    | _ => simp [Obj.tag] at ht
  | delay u₁ q₁ =>
    cases o₂ with
    | delay u₂ q₂ => simp only [Obj.asQasm] at h₁ h₂; rw [nm _ _ _ _ h₁, nm _ _ _ _ h₂]
    | gate g₂ => cases g₂ <;> simp [Obj.tag] at ht
    | _ => simp [Obj.tag] at ht
  | other c => simp [Obj.asQasm] at h₁


/-! ### Circuits -/

theorem circuitQasm_cons_ok (T : Table) (o : Obj) (os : List Obj) (ds : List QDict) :
    circuitQasm T (o :: os) = .ok ds ↔ ∃ d ds', o.asQasm T = .ok d ∧ circuitQasm T os = .ok ds' ∧ ds = d :: ds' := by
  simp only [circuitQasm]
  cases o.asQasm T with
  | error e => simp
  | ok d =>
    cases circuitQasm T os with
    | error e => simp
    | ok ds' => simp [eq_comm]

/-- the instruction list decodes, position by position, to the (normal forms of the) objects of the circuit -/
theorem circuit_decode (T : Table) (hT : T.WF) (os : List Obj) (hos : ∀ o ∈ os, o.WF T) (ds : List QDict)
    (h : circuitQasm T os = .ok ds) : ds.map (decode T) = os.map (fun o => some o.norm) := by
  induction os generalizing ds with
  | nil => simp only [circuitQasm, Except.ok.injEq] at h; subst h; rfl
  | cons o os ih =>
    obtain ⟨d, ds', h1, h2, rfl⟩ := (circuitQasm_cons_ok T o os ds).mp h
    simp only [List.map_cons, List.cons.injEq]
    exact ⟨decode_asQasm T hT o (hos o (by simp)) d h1, ih (fun x hx => hos x (List.mem_cons_of_mem _ hx)) ds' h2⟩

theorem circuit_length (T : Table) (os : List Obj) (ds : List QDict) (h : circuitQasm T os = .ok ds) : ds.length = os.length := by
  induction os generalizing ds with
  | nil => simp only [circuitQasm, Except.ok.injEq] at h; subst h; rfl
  | cons o os ih =>
    obtain ⟨d, ds', _, h2, rfl⟩ := (circuitQasm_cons_ok T o os ds).mp h
    simp [ih ds' h2]

/-- one instruction without Qobj form anywhere in the circuit: `Circuit.as_qasm` raises -/
theorem circuit_error_of_mem (T : Table) (pre post : List Obj) (o : Obj) (e : Exc) (h : o.asQasm T = .error e) :
    ∃ e', circuitQasm T (pre ++ o :: post) = .error e' := by
  induction pre with
  | nil => exact ⟨e, by simp [circuitQasm, h]⟩
  | cons p pre ih =>
    obtain ⟨e', he'⟩ := ih
    simp only [List.cons_append, circuitQasm]
    cases p.asQasm T with
    | error e'' => exact ⟨e'', rfl⟩
    | ok d => rw [he']; exact ⟨e', rfl⟩

theorem circuit_getElem (T : Table) (os : List Obj) (ds : List QDict) (h : circuitQasm T os = .ok ds) :
    ∀ (k : Nat) (hk : k < os.length) (hd : k < ds.length), os[k].asQasm T = .ok ds[k] := by
  induction os generalizing ds with
  | nil => intro k hk; simp at hk
  | cons o os ih =>
    obtain ⟨d, ds', h1, h2, rfl⟩ := (circuitQasm_cons_ok T o os ds).mp h
    intro k hk hd
    cases k with
    | zero => simpa using h1
    | succ k => simpa using ih ds' h2 k (by simpa using hk) (by simpa using hd)

/-! ### Arity: how many parameters and qubits the instructions of a name carry -/

theorem nameArity_asQasm (T : Table) (hT : T.WF) (g : Gate) (hg : g.WF T) (d : QDict) (h : g.asQasm T = .ok d) :
    nameArity T d.name = some ((d.params.getD []).length, (d.qubits.getD []).length) := by
  have hn := names_facts T hT.namesNodup
  cases g with
  | leaf c ps qs =>
    obtain ⟨r, l, hf, rfl, rfl⟩ := (leaf_asQasm_ok_iff T hT c ps _ hg d).mp h
    obtain ⟨hmem, rfl⟩ := findLeaf_some hf
    obtain ⟨hp, hq⟩ := hg r hf
    have : T.leaf.find? (fun r' => r'.name == r.name) = some r := find?_of_nodup_map (·.name) T.leaf hn.1 r hmem
    have hq' : l.length = r.nqubits := by simpa using hq
    by_cases h0 : r.nparams = 0
    · simp [nameArity, this, leafDict, h0, hq']
    · simp [nameArity, this, leafDict, h0, hq', hp]
  | controlled tg n cs ctrls =>
    obtain ⟨r, tq, hf, hz, hc, htg, rfl⟩ := (ctrl_asQasm_ok_iff T hT tg n cs ctrls hg d).mp h
    obtain ⟨hmem, hn', hcls⟩ := findCtrl_some hf
    obtain ⟨hp, hq⟩ := hg.2.2 r hf
    have hq' : tq.length = r.tnqubits := by
      have : tg.ownQubits = tq.map some := by rw [htg]; rfl
      rw [this] at hq; simpa using hq
    have h1 : T.leaf.find? (fun r' => r'.name == r.name) = none :=
      find?_none_of_not_mem_map (·.name) T.leaf _ (hn.2.2.1 r hmem)
    have h2 : T.ctrl.find? (fun r' => r'.name == r.name) = some r :=
      find?_of_nodup_map (·.name) T.ctrl hn.2.1 r hmem
    by_cases h0 : r.tnparams = 0
    · simp [nameArity, h1, h2, ctrlDict, h0, hq', hc, hn']
    · simp [nameArity, h1, h2, ctrlDict, h0, hq', hc, hn', hp]

/-! ### Constructors -/

theorem mkControlled_wf_parts (tg : Gate) (n : Nat) (cs : Option (List Int)) (g : Gate) (h : mkControlled tg n cs = .ok g) :
    ∃ st, g = .controlled tg n st [] ∧ st.length = n ∧
      (cs = none → st = List.replicate n true) ∧ (∀ l, cs = some l → st = l.map (· == 1) ∧ ∀ b ∈ l, b = 0 ∨ b = 1) := by
  unfold mkControlled at h
  cases cs with
  | none => simp only [Except.ok.injEq] at h; exact ⟨_, h.symm, by simp, fun _ => rfl, fun l hl => by cases hl⟩
  | some l =>
    simp only at h
    split at h
    · cases h
    · rename_i hlen
      split at h
      · rename_i hall
        simp only [Except.ok.injEq] at h
        refine ⟨_, h.symm, by simpa using hlen, (fun hn => by cases hn), ?_⟩
        intro l' hl'
        cases hl'
        refine ⟨rfl, ?_⟩
        intro b hb
        have := List.all_eq_true.mp hall b hb
        simpa using this
      · cases h

theorem mkControlled_rejects (tg : Gate) (n : Nat) (l : List Int) :
    (∃ e, mkControlled tg n (some l) = .error e) ↔ (l.length ≠ n ∨ ∃ b ∈ l, b ≠ 0 ∧ b ≠ 1) := by
  unfold mkControlled
  by_cases hlen : l.length = n
  · by_cases hall : (l.all fun b => b == 0 || b == 1) = true
    · simp only [hlen, ne_eq, not_true_eq_false, ↓reduceIte, hall, reduceCtorEq, exists_false, false_or, false_iff, not_exists, not_and]
      intro b hb
      have := List.all_eq_true.mp hall b hb
      simp only [Bool.or_eq_true, beq_iff_eq] at this
      omega
    · simp only [hlen, ne_eq, not_true_eq_false, ↓reduceIte, hall, Bool.false_eq_true, Except.error.injEq, exists_eq', false_or, true_iff]
      have hall' : (l.all fun b => b == 0 || b == 1) = false := by simpa using hall
      obtain ⟨b, hb, hne⟩ := List.all_eq_false.mp hall'
      simp only [Bool.or_eq_true, beq_iff_eq, not_or] at hne
      exact ⟨b, hb, hne.1, hne.2⟩
  · simp [hlen]


/-! ### `decode` is sound: what it returns serialises to the dictionary it was given -/

theorem isSome_eq_decide_mem {α} (o : Option α) (p : Prop) [Decidable p] (h : (o.isSome == decide p) = true) :
    (p → ∃ a, o = some a) ∧ (¬ p → o = none) := by
  cases o with
  | none => by_cases hp : p <;> simp_all
  | some a => by_cases hp : p <;> simp_all

theorem shapeOK_parts (keys : List Key) (d : QDict) (h : shapeOK keys d = true) :
    ((d.params.isSome == decide (Key.params ∈ keys)) = true) ∧ ((d.qubits.isSome == decide (Key.qubits ∈ keys)) = true) ∧
    ((d.memory.isSome == decide (Key.memory ∈ keys)) = true) ∧ ((d.duration.isSome == decide (Key.duration ∈ keys)) = true) := by
  simp only [shapeOK, Bool.and_eq_true] at h
  exact ⟨h.1.1.1, h.1.1.2, h.1.2, h.2⟩

theorem eq_leafDict_of_shape (r : LeafRow) (hr : LeafRowOK r) (d : QDict) (hs : shapeOK r.keys d = true) (hname : d.name = r.name) :
    d = leafDict r (d.params.getD []) (d.qubits.getD []) := by
  obtain ⟨_, hq, hm, hdur, hp, _, _⟩ := hr
  obtain ⟨s1, s2, s3, s4⟩ := shapeOK_parts _ _ hs
  obtain ⟨qs, hqs⟩ := (isSome_eq_decide_mem _ _ s2).1 hq
  have hmem := (isSome_eq_decide_mem _ _ s3).2 hm
  have hdu := (isSome_eq_decide_mem _ _ s4).2 hdur
  cases d with
  | mk name params qubits memory duration =>
    simp only at hqs hmem hdu hname
    subst hqs hmem hdu hname
    by_cases h0 : r.nparams = 0
    · have : Key.params ∉ r.keys := fun h => (hp.mp h) h0
      have := (isSome_eq_decide_mem _ _ s1).2 this
      simp only at this
      subst this
      simp [leafDict, h0]
    · obtain ⟨ps, hps⟩ := (isSome_eq_decide_mem _ _ s1).1 (hp.mpr h0)
      simp only at hps
      subst hps
      simp [leafDict, h0]

theorem eq_ctrlDict_of_shape (r : CtrlRow) (hr : CtrlRowOK r) (hz : ctrlRaises r = false) (d : QDict) (hs : shapeOK r.keys d = true)
    (hname : d.name = r.name) : d = ctrlDict r (d.params.getD []) (d.qubits.getD []) := by
  obtain ⟨_, hq, hm, hdur, hor⟩ := hr
  rcases hor with h | ⟨hp, _, _⟩
  · rw [hz] at h; cases h
  obtain ⟨s1, s2, s3, s4⟩ := shapeOK_parts _ _ hs
  obtain ⟨qs, hqs⟩ := (isSome_eq_decide_mem _ _ s2).1 hq
  have hmem := (isSome_eq_decide_mem _ _ s3).2 hm
  have hdu := (isSome_eq_decide_mem _ _ s4).2 hdur
  cases d with
  | mk name params qubits memory duration =>
    simp only at hqs hmem hdu hname
    subst hqs hmem hdu hname
    by_cases h0 : r.tnparams = 0
    · have : Key.params ∉ r.keys := fun h => (hp.mp h) h0
      have := (isSome_eq_decide_mem _ _ s1).2 this
      simp only at this
      subst this
      simp [ctrlDict, h0]
    · obtain ⟨ps, hps⟩ := (isSome_eq_decide_mem _ _ s1).1 (hp.mpr h0)
      simp only at hps
      subst hps
      simp [ctrlDict, h0]

theorem findLeaf_of_mem (T : Table) (hT : T.WF) (r : LeafRow) (hr : r ∈ T.leaf) : findLeaf T r.cls = some r :=
  find?_of_nodup_map (fun r : LeafRow => r.cls) T.leaf hT.leafClsNodup r hr

theorem findCtrl_of_mem (T : Table) (hT : T.WF) (r : CtrlRow) (hr : r ∈ T.ctrl) : findCtrl T r.ncontrols r.tcls = some r := by
  have := find?_of_nodup_map (fun r : CtrlRow => (r.ncontrols, r.tcls)) T.ctrl hT.ctrlKeyNodup r hr
  unfold findCtrl
  rw [← this]
  congr 1

/-- what `decode` returns is a well-formed object with the standard control state, and serialises to exactly the dictionary decoded -/
theorem decode_sound (T : Table) (hT : T.WF) (d : QDict) (o : Obj) (h : decode T d = some o) :
    o.asQasm T = .ok d ∧ o.StdCtrl ∧ o.WF T := by
  unfold decode at h
  split at h
  · rename_i r hfind
    have hmem := List.mem_of_find?_eq_some hfind
    have hname : d.name = r.name := by have h0 := List.find?_some hfind; simp only [beq_iff_eq] at h0; exact h0.symm
    simp only [decodeLeaf] at h
    split at h
    · rename_i hc
      simp only [Bool.and_eq_true, beq_iff_eq] at hc
      obtain ⟨⟨hs, hp⟩, hq⟩ := hc
      simp only [Option.some.injEq] at h
      subst h
      have hf := findLeaf_of_mem T hT r hmem
      have hwf : (Gate.leaf r.cls (d.params.getD []) ((d.qubits.getD []).map some)).WF T := by
        intro r' hr'
        rw [hf] at hr'; cases hr'
        exact ⟨hp, by simpa using hq⟩
      refine ⟨?_, trivial, hwf⟩
      exact (leaf_asQasm_ok_iff T hT r.cls _ _ hwf d).mpr ⟨r, _, hf, rfl, eq_leafDict_of_shape r (hT.leafOK r hmem) d hs hname⟩
    · cases h
  · split at h
    · rename_i r hfind
      have hmem := List.mem_of_find?_eq_some hfind
      have hname : d.name = r.name := by have h0 := List.find?_some hfind; simp only [beq_iff_eq] at h0; exact h0.symm
      simp only [decodeCtrl] at h
      split at h
      · rename_i hc
        simp only [Bool.and_eq_true, beq_iff_eq, Bool.not_eq_true'] at hc
        obtain ⟨⟨⟨hs, hz⟩, hp⟩, hq⟩ := hc
        simp only [Option.some.injEq] at h
        subst h
        have hf := findCtrl_of_mem T hT r hmem
        have htake : ((d.qubits.getD []).take r.ncontrols).length = r.ncontrols := by simp; omega
        have hdrop : ((d.qubits.getD []).drop r.ncontrols).length = r.tnqubits := by simp; omega
        have hwf : (Gate.controlled (.leaf r.tcls (d.params.getD []) (((d.qubits.getD []).drop r.ncontrols).map some)) r.ncontrols
            (List.replicate r.ncontrols true) ((d.qubits.getD []).take r.ncontrols)).WF T := by
          refine ⟨by simp, Or.inr htake, ?_⟩
          intro r' hr'
          simp only [Gate.cls] at hr'
          rw [hf] at hr'; cases hr'
          exact ⟨hp, by simpa [Gate.ownQubits] using hdrop⟩
        refine ⟨?_, rfl, hwf⟩
        refine (ctrl_asQasm_ok_iff T hT _ _ _ _ hwf d).mpr ⟨r, (d.qubits.getD []).drop r.ncontrols, hf, hz, htake, rfl, ?_⟩
        have := eq_ctrlDict_of_shape r (hT.ctrlOK r hmem) hz d hs hname
        simpa [Gate.ownParams, List.take_append_drop] using this
      · cases h
    · obtain ⟨_, mq, mm, mp, md⟩ := hT.measureOK
      obtain ⟨_, bq, bm, bp, bd⟩ := hT.barrierOK
      obtain ⟨_, dq, dd, dp, dm⟩ := hT.delayOK
      split at h
      · rename_i hname
        have hname : d.name = T.measure.name := by simpa using hname
        split at h
        · rename_i hs
          obtain ⟨s1, s2, s3, s4⟩ := shapeOK_parts _ _ hs
          simp only [Option.some.injEq] at h
          subst h
          obtain ⟨l, hl⟩ := (isSome_eq_decide_mem _ _ s2).1 mq
          obtain ⟨m, hm⟩ := (isSome_eq_decide_mem _ _ s3).1 mm
          have h1 := (isSome_eq_decide_mem _ _ s1).2 mp
          have h4 := (isSome_eq_decide_mem _ _ s4).2 md
          refine ⟨?_, trivial, trivial⟩
          refine (measure_asQasm_ok_iff T hT _ _ d).mpr ⟨l, m, hl, hm, ?_⟩
          cases d; simp_all
        · cases h
      · split at h
        · rename_i hname
          have hname : d.name = T.barrier.name := by simpa using hname
          split at h
          · rename_i hs
            obtain ⟨s1, s2, s3, s4⟩ := shapeOK_parts _ _ hs
            simp only [Option.some.injEq] at h
            subst h
            obtain ⟨l, hl⟩ := (isSome_eq_decide_mem _ _ s2).1 bq
            have h3 := (isSome_eq_decide_mem _ _ s3).2 bm
            have h1 := (isSome_eq_decide_mem _ _ s1).2 bp
            have h4 := (isSome_eq_decide_mem _ _ s4).2 bd
            refine ⟨?_, trivial, trivial⟩
            refine (barrier_asQasm_ok_iff T hT _ d).mpr ⟨l, hl, ?_⟩
            cases d; simp_all
          · cases h
        · split at h
          · rename_i hname
            have hname : d.name = T.delay.name := by simpa using hname
            split at h
            · rename_i hs
              obtain ⟨s1, s2, s3, s4⟩ := shapeOK_parts _ _ hs
              obtain ⟨l, hl⟩ := (isSome_eq_decide_mem _ _ s2).1 dq
              obtain ⟨u, hu⟩ := (isSome_eq_decide_mem _ _ s4).1 dd
              have h3 := (isSome_eq_decide_mem _ _ s3).2 dm
              have h1 := (isSome_eq_decide_mem _ _ s1).2 dp
              rw [hu] at h
              simp only [Option.map_some, Option.some.injEq] at h
              subst h
              refine ⟨?_, trivial, trivial⟩
              refine (delay_asQasm_ok_iff T hT _ _ d).mpr ⟨l, hl, ?_⟩
              cases d; simp_all
            · cases h
          · cases h


/-! ### Which exception -/

theorem errOf_eq_some {α} (x : Except Exc α) (e : Exc) : errOf x = some e ↔ x = .error e := by
  cases x <;> simp [errOf]

theorem evalQubits_cons_error (ctrls : List Int) (own : List (Option Int)) (s : QSrc) (rest : List QSrc) (e : Exc) :
    evalQubits ctrls own (s :: rest) = .error e ↔
      evalQubit ctrls own s = .error e ∨ ∃ q, evalQubit ctrls own s = .ok q ∧ evalQubits ctrls own rest = .error e := by
  simp only [evalQubits]
  cases evalQubit ctrls own s with
  | error e' => simp
  | ok q =>
    cases evalQubits ctrls own rest with
    | error e' => simp
    | ok l' => simp

theorem evalQubits_own_error (ctrls : List Int) (own : List (Option Int)) (ks : List Nat) (e : Exc)
    (h : evalQubits ctrls own (ks.map QSrc.own) = .error e) : e = .AttributeError := by
  induction ks with
  | nil => simp [evalQubits] at h
  | cons k ks ih =>
    rw [List.map_cons, evalQubits_cons_error] at h
    rcases h with h | ⟨q, _, h⟩
    · simp only [evalQubit] at h
      split at h <;> simp_all
    · exact ih h

theorem evalQubits_ctrl_error (ctrls : List Int) (own : List (Option Int)) (ks : List Nat) (e : Exc)
    (h : evalQubits ctrls own (ks.map QSrc.ctrl) = .error e) : e = .IndexError := by
  induction ks with
  | nil => simp [evalQubits] at h
  | cons k ks ih =>
    rw [List.map_cons, evalQubits_cons_error] at h
    rcases h with h | ⟨q, _, h⟩
    · simp only [evalQubit] at h
      split at h <;> simp_all
    · exact ih h

theorem evalQubits_append_error (ctrls : List Int) (own : List (Option Int)) (a b : List QSrc) (e : Exc) :
    evalQubits ctrls own (a ++ b) = .error e ↔
      evalQubits ctrls own a = .error e ∨ ∃ la, evalQubits ctrls own a = .ok la ∧ evalQubits ctrls own b = .error e := by
  induction a with
  | nil => simp [evalQubits]
  | cons s rest ih =>
    rw [List.cons_append, evalQubits_cons_error, evalQubits_cons_error, ih]
    constructor
    · rintro (h | ⟨q, hq, h | ⟨la, hla, hb⟩⟩)
      · exact Or.inl (Or.inl h)
      · exact Or.inl (Or.inr ⟨q, hq, h⟩)
      · exact Or.inr ⟨q :: la, (evalQubits_cons_ok ..).mpr ⟨q, la, hq, hla, rfl⟩, hb⟩
    · rintro ((h | ⟨q, hq, h⟩) | ⟨la, hla, hb⟩)
      · exact Or.inl h
      · exact Or.inr ⟨q, hq, Or.inl h⟩
      · obtain ⟨q, la', hq, hla', rfl⟩ := (evalQubits_cons_ok ..).mp hla
        exact Or.inr ⟨q, hq, Or.inr ⟨la', hla', hb⟩⟩

theorem except_cases {α} (x : Except Exc α) : (∃ a, x = .ok a) ∨ ∃ e, x = .error e := by
  cases x with
  | ok a => exact Or.inl ⟨a, rfl⟩
  | error e => exact Or.inr ⟨e, rfl⟩

/-- a leaf gate that does not serialise: its class has no `as_qasm` (the default exception), or one of its qubits is not bound
(AttributeError: 'NoneType' object has no attribute 'index') -/
theorem leaf_asQasm_error (T : Table) (hT : T.WF) (c : String) (ps : List Rat) (qs : List (Option Int))
    (hg : (Gate.leaf c ps qs).WF T) (e : Exc) (h : (Gate.leaf c ps qs).asQasm T = .error e) :
    (findLeaf T c = none ∧ e = T.gateDefault) ∨ ((findLeaf T c).isSome = true ∧ e = .AttributeError ∧ none ∈ qs) := by
  simp only [Gate.asQasm] at h
  cases hf : findLeaf T c with
  | none => rw [hf] at h; simp only [Except.error.injEq] at h; exact Or.inl ⟨rfl, h.symm⟩
  | some r =>
    rw [hf] at h
    simp only at h
    right
    obtain ⟨hlen_p, hlen_q⟩ := hg r hf
    obtain ⟨_, hq, hm, hdur, hp, hps, hqs⟩ := hT.leafOK r (findLeaf_some hf).1
    rw [assemble_eq_error] at h
    obtain ⟨k, hk, hke⟩ := List.exists_of_findSome?_eq_some h
    have hpar := (params_identity ps r.nparams hlen_p ps).mpr rfl
    cases k with
    | params => simp [Vals.err, gateVals, hps, hpar, errOf] at hke
    | memory => exact absurd hk hm
    | duration => exact absurd hk hdur
    | qubits =>
      simp only [Vals.err, gateVals, hqs, errOf_eq_some] at hke
      refine ⟨rfl, evalQubits_own_error _ _ _ _ hke, ?_⟩
      apply Classical.byContradiction
      intro hnone
      have hall : ∀ q ∈ qs, q.isSome = true := by
        intro q hq'
        cases q with
        | none => exact absurd hq' hnone
        | some a => rfl
      obtain ⟨l, hl⟩ := (all_some_iff qs).mp hall
      have := (own_identity [] qs r.nqubits hlen_q l).mpr hl
      rw [this] at hke; cases hke

/-- a controlled gate on a branch that can return, which nevertheless does not serialise: `set_control` has not been called
(IndexError), or - with the controls set - a qubit of the target is not bound (AttributeError) -/
theorem ctrl_asQasm_error (T : Table) (hT : T.WF) (tg : Gate) (n : Nat) (cs : List Bool) (ctrls : List Int)
    (hg : (Gate.controlled tg n cs ctrls).WF T) (e : Exc) (h : (Gate.controlled tg n cs ctrls).asQasm T = .error e) :
    (findCtrl T n (tg.cls T) = none ∧ e = T.gateDefault) ∨
    (∃ r, findCtrl T n (tg.cls T) = some r ∧
      (ctrlRaises r = true ∨ (ctrls.length ≠ n ∧ e = .IndexError) ∨ (ctrls.length = n ∧ e = .AttributeError ∧ none ∈ tg.ownQubits))) := by
  simp only [Gate.asQasm] at h
  cases hf : findCtrl T n (tg.cls T) with
  | none => rw [hf] at h; simp only [Except.error.injEq] at h; exact Or.inl ⟨rfl, h.symm⟩
  | some r =>
    rw [hf] at h
    simp only at h
    right
    refine ⟨r, rfl, ?_⟩
    obtain ⟨_, hc, hlen⟩ := hg
    obtain ⟨hlen_p, hlen_q⟩ := hlen r hf
    obtain ⟨hmem, hn, _⟩ := findCtrl_some hf
    obtain ⟨_, hq, hm, hdur, hor⟩ := hT.ctrlOK r hmem
    rcases hor with hz | ⟨hp, hps, hqs⟩
    · exact Or.inl hz
    · right
      rw [assemble_eq_error] at h
      obtain ⟨k, hk, hke⟩ := List.exists_of_findSome?_eq_some h
      have hpar := (params_identity tg.ownParams r.tnparams hlen_p tg.ownParams).mpr rfl
      cases k with
      | params => simp [Vals.err, gateVals, hps, hpar, errOf] at hke
      | memory => exact absurd hk hm
      | duration => exact absurd hk hdur
      | qubits =>
        simp only [Vals.err, gateVals, hqs, errOf_eq_some] at hke
        rw [evalQubits_append_error] at hke
        rcases hke with hke | ⟨la, hla, hke⟩
        · left
          refine ⟨?_, evalQubits_ctrl_error _ _ _ _ hke⟩
          intro hcl
          have := (ctrl_identity ctrls tg.ownQubits r.ncontrols (hn ▸ hc) ctrls).mpr ⟨hn ▸ hcl, rfl⟩
          rw [this] at hke; cases hke
        · right
          have hcl := ((ctrl_identity ctrls tg.ownQubits r.ncontrols (hn ▸ hc) la).mp hla).1
          refine ⟨hn ▸ hcl, evalQubits_own_error _ _ _ _ hke, ?_⟩
          apply Classical.byContradiction
          intro hnone
          have hall : ∀ q ∈ tg.ownQubits, q.isSome = true := by
            intro q hq'
            cases q with
            | none => exact absurd hq' hnone
            | some a => rfl
          obtain ⟨l, hl⟩ := (all_some_iff _).mp hall
          have := (own_identity ctrls tg.ownQubits r.tnqubits hlen_q l).mpr hl
          rw [this] at hke; cases hke

/-- an instruction raises only when its qubit list (or, for a measurement, its memory list) is `None`: TypeError -/
theorem instr_asQasm_error (T : Table) (hT : T.WF) (o : Obj) (e : Exc) (h : o.asQasm T = .error e) :
    match o with
    | .gate _ => True
    | .measure qs cs => e = .TypeError ∧ (qs = none ∨ cs = none)
    | .barrier qs => e = .TypeError ∧ qs = none
    | .delay _ qs => e = .TypeError ∧ qs = none
    | .other _ => e = T.instrDefault := by
  have lv : ∀ (x : Option (List Int)) e, listVal x = .error e → e = .TypeError ∧ x = none := by
    intro x e hx; cases x <;> simp_all [listVal]
  cases o with
  | gate g => trivial
  | other c => simp only [Obj.asQasm, Except.error.injEq] at h; exact h.symm
  | measure qs cs =>
    obtain ⟨_, mq, mm, mp, md⟩ := hT.measureOK
    simp only [Obj.asQasm, assemble_eq_error] at h
    obtain ⟨k, hk, hke⟩ := List.exists_of_findSome?_eq_some h
    cases k with
    | params => exact absurd hk mp
    | duration => exact absurd hk md
    | qubits => simp only [Vals.err, errOf_eq_some] at hke; exact ⟨(lv _ _ hke).1, Or.inl (lv _ _ hke).2⟩
    | memory => simp only [Vals.err, errOf_eq_some] at hke; exact ⟨(lv _ _ hke).1, Or.inr (lv _ _ hke).2⟩
  | barrier qs =>
    obtain ⟨_, bq, bm, bp, bd⟩ := hT.barrierOK
    simp only [Obj.asQasm, assemble_eq_error] at h
    obtain ⟨k, hk, hke⟩ := List.exists_of_findSome?_eq_some h
    cases k with
    | params => exact absurd hk bp
    | duration => exact absurd hk bd
    | memory => exact absurd hk bm
    | qubits => simp only [Vals.err, errOf_eq_some] at hke; exact lv _ _ hke
  | delay u qs =>
    obtain ⟨_, dq, dd, dp, dm⟩ := hT.delayOK
    simp only [Obj.asQasm, assemble_eq_error] at h
    obtain ⟨k, hk, hke⟩ := List.exists_of_findSome?_eq_some h
    cases k with
    | params => exact absurd hk dp
    | memory => exact absurd hk dm
    | duration => simp [Vals.err, errOf] at hke
    | qubits => simp only [Vals.err, errOf_eq_some] at hke; exact lv _ _ hke


/-! ### The qubits of the dictionary are the particles of the object -/

theorem filterMap_id_map_some (l : List Int) : (l.map some).filterMap id = l := by
  induction l with
  | nil => rfl
  | cons a l ih => simp [ih]

theorem all_isSome_map_some (l : List Int) : (l.map some).all Option.isSome = true := by
  simp [List.all_eq_true]

theorem leaf_particles (c : String) (ps : List Rat) (l : List Int) : (Gate.leaf c ps (l.map some)).particles = l := by
  simp [Gate.particles]

/-- the `qubits` entry is `[p.index for p in obj.particles()]`: what the Qobj header labels and the range check of `_validate` are
computed from is what the instruction says -/
theorem qubits_eq_particles (T : Table) (hT : T.WF) (o : Obj) (ho : o.WF T) (d : QDict) (h : o.asQasm T = .ok d) :
    d.qubits = some o.particles := by
  cases o with
  | gate g =>
    cases g with
    | leaf c ps qs =>
      obtain ⟨r, l, hf, rfl, rfl⟩ := (leaf_asQasm_ok_iff T hT c ps _ ho d).mp h
      simp [leafDict, Obj.particles, leaf_particles]
    | controlled tg n cs ctrls =>
      obtain ⟨r, tq, hf, hz, hc, htg, rfl⟩ := (ctrl_asQasm_ok_iff T hT tg n cs ctrls ho d).mp h
      have : tg.particles = tq := by rw [htg]; exact leaf_particles _ _ _
      simp [ctrlDict, Obj.particles, Gate.particles, this]
  | measure qs cs =>
    obtain ⟨l, m, rfl, rfl, rfl⟩ := (measure_asQasm_ok_iff T hT qs cs d).mp h
    rfl
  | barrier qs =>
    obtain ⟨l, rfl, rfl⟩ := (barrier_asQasm_ok_iff T hT qs d).mp h
    rfl
  | delay dur qs =>
    obtain ⟨l, rfl, rfl⟩ := (delay_asQasm_ok_iff T hT dur qs d).mp h
    rfl
  | other c => simp [Obj.asQasm] at h

theorem circuit_particles (T : Table) (hT : T.WF) (os : List Obj) (hos : ∀ o ∈ os, o.WF T) (ds : List QDict)
    (h : circuitQasm T os = .ok ds) : (ds.map QDict.toInstr).flatMap (·.qubits) = os.flatMap Obj.particles := by
  induction os generalizing ds with
  | nil => simp only [circuitQasm, Except.ok.injEq] at h; subst h; rfl
  | cons o os ih =>
    obtain ⟨d, ds', h1, h2, rfl⟩ := (circuitQasm_cons_ok T o os ds).mp h
    have := qubits_eq_particles T hT o (hos o (by simp)) d h1
    simp only [List.map_cons, List.flatMap_cons, ih (fun x hx => hos x (List.mem_cons_of_mem _ hx)) ds' h2]
    simp [QDict.toInstr, this]

/-! ### Objects built through the constructors are well formed (control part) -/

/-- the leaves of a recipe carry as many values as their classes have attributes -/
def GRecipe.LeavesOK (T : Table) : GRecipe → Prop
  | .leaf c ps qs => (Gate.leaf c ps qs).WF T
  | .controlled t n _ _ => t.LeavesOK T ∧
      ∀ tg, t.build = .ok tg → ∀ r, findCtrl T n (tg.cls T) = some r → tg.ownParams.length = r.tnparams ∧ tg.ownQubits.length = r.tnqubits

theorem build_wf (T : Table) (r : GRecipe) (hr : r.LeavesOK T) (g : Gate) (h : r.build = .ok g) : g.WF T := by
  cases r with
  | leaf c ps qs => simp only [GRecipe.build, Except.ok.injEq] at h; subst h; exact hr
  | controlled t n cs ctrls =>
    simp only [GRecipe.build] at h
    cases ht : t.build with
    | error e => rw [ht] at h; cases h
    | ok tg =>
      rw [ht] at h
      simp only at h
      cases hm : mkControlled tg n cs with
      | error e => rw [hm] at h; cases h
      | ok g0 =>
        rw [hm] at h
        simp only at h
        obtain ⟨st, rfl, hlen, _, _⟩ := mkControlled_wf_parts tg n cs g0 hm
        cases ctrls with
        | none =>
          simp only [Except.ok.injEq] at h
          subst h
          exact ⟨hlen, Or.inl rfl, hr.2 tg ht⟩
        | some qs =>
          simp only [setControl] at h
          split at h
          · cases h
          · rename_i hq
            simp only [Except.ok.injEq] at h
            subst h
            exact ⟨hlen, Or.inr (by simpa using hq), hr.2 tg ht⟩

end Qib.Qasm
