import QibModel.Embed
import Mathlib.Algebra.BigOperators.Group.List.Basic
import Mathlib.Data.List.Perm.Basic
import Mathlib.Data.List.Nodup
import Mathlib.Data.List.ProdSigma
import Mathlib.Data.List.Flatten
import Mathlib.Tactic.Ring

/-!
Flat-index facts about the algorithmic mirror of `_distribute_to_wires` (helper lemmas for C04, C05):
the bit-scatter loops in recursive form, the scatter/gather bijection along a bit permutation, the block
structure of the output, `denote ∘ distributeToWires = embedEntry`, duplicate-freeness, the rejection branch.
No property statements here.
-/
namespace Qib.Embed

/-! ### recursive forms of the bit loops -/

def scatterRec : List Nat → Nat → Nat
  | [], _ => 0
  | p :: ps, x => (if x % 2 = 1 then 2 ^ p else 0) + scatterRec ps (x / 2)

theorem scatter_foldl_aux (ps : List Nat) (x k acc : Nat) :
    (ps.zipIdx k).foldl (fun r pb => if x.testBit pb.2 then r + (1 <<< pb.1) else r) acc
      = acc + scatterRec ps (x / 2 ^ k) := by
  induction ps generalizing k acc with
  | nil => simp [scatterRec]
  | cons p ps ih =>
    simp only [List.zipIdx_cons, List.foldl_cons, scatterRec]
    rw [ih]
    have h1 : x / 2 ^ (k + 1) = x / 2 ^ k / 2 := by
      rw [Nat.pow_succ, Nat.div_div_eq_div_mul]
    rw [h1, Nat.testBit_eq_decide_div_mod_eq, Nat.one_shiftLeft]
    by_cases h : x / 2 ^ k % 2 = 1 <;> simp [h]; omega

theorem scatter_eq_rec (ps : List Nat) (x : Nat) : scatter ps x = scatterRec ps x := by
  unfold scatter
  rw [scatter_foldl_aux]; simp

theorem succ_testBit_of_even {a : Nat} (h : a % 2 = 0) (j : Nat) :
    (a + 1).testBit j = (decide (j = 0) || a.testBit j) := by
  cases j with
  | zero => simp [Nat.testBit_zero]; omega
  | succ j =>
    simp only [Nat.testBit_add_one]
    have : (a + 1) / 2 = a / 2 := by omega
    simp [this]

theorem testBit_two_pow_add_of_not {s p : Nat} (h : s.testBit p = false) (q : Nat) :
    (2 ^ p + s).testBit q = (decide (p = q) || s.testBit q) := by
  have hs : 2 ^ p * (s / 2 ^ p) + s % 2 ^ p = s := Nat.div_add_mod s (2 ^ p)
  have hb : s % 2 ^ p < 2 ^ p := Nat.mod_lt _ (Nat.two_pow_pos p)
  have ha : (s / 2 ^ p) % 2 = 0 := by
    rw [Nat.testBit_eq_decide_div_mod_eq] at h
    simp at h; omega
  have e1 : 2 ^ p + s = 2 ^ p * (s / 2 ^ p + 1) + s % 2 ^ p := by
    rw [Nat.mul_add, Nat.mul_one]; omega
  rw [e1, Nat.testBit_two_pow_mul_add _ hb]
  conv_rhs => rw [← hs, Nat.testBit_two_pow_mul_add _ hb]
  by_cases hq : q < p
  · have : p ≠ q := by omega
    simp [hq, this]
  · simp only [hq, if_false]
    rw [succ_testBit_of_even ha]
    congr 1
    have : (q - p = 0) ↔ (p = q) := by omega
    simp [this]

theorem scatterRec_testBit (ps : List Nat) (hnd : ps.Nodup) (x q : Nat) :
    (scatterRec ps x).testBit q = (decide (q ∈ ps) && x.testBit (ps.idxOf q)) := by
  induction ps generalizing x q with
  | nil => simp [scatterRec]
  | cons p ps ih =>
    have hp : p ∉ ps := (List.nodup_cons.mp hnd).1
    have hnd' : ps.Nodup := (List.nodup_cons.mp hnd).2
    have hsp : (scatterRec ps (x / 2)).testBit p = false := by
      rw [ih hnd']; simp [hp]
    simp only [scatterRec]
    by_cases hpq : p = q
    · subst hpq
      simp only [List.mem_cons, true_or, decide_true, List.idxOf_cons_self, Bool.true_and]
      by_cases hx : x % 2 = 1
      · simp only [hx, if_true]
        rw [testBit_two_pow_add_of_not hsp]; simp [Nat.testBit_zero, hx]
      · simp only [hx, if_false, Nat.zero_add, hsp]
        simp [Nat.testBit_zero, hx]
    · have hqp : q ≠ p := fun h => hpq h.symm
      have hidx : (p :: ps).idxOf q = ps.idxOf q + 1 := by
        rw [List.idxOf_cons_ne _ hpq]
      rw [hidx, Nat.testBit_add_one]
      have hmem : (q ∈ p :: ps) ↔ q ∈ ps := by simp [hqp]
      simp only [hmem]
      by_cases hx : x % 2 = 1
      · simp only [hx, if_true]
        rw [testBit_two_pow_add_of_not hsp, ih hnd']; simp [hpq]
      · simp only [hx, if_false, Nat.zero_add]
        rw [ih hnd']


theorem scatterRec_zero (ps : List Nat) : scatterRec ps 0 = 0 := by
  induction ps with
  | nil => rfl
  | cons p ps ih => simp [scatterRec, ih]

/-- row bits on `P`, replication offset on `Q`: one scatter along `P ++ Q` -/
theorem scatterRec_append (P Q : List Nat) (x k : Nat) (hx : x < 2 ^ P.length) :
    scatterRec (P ++ Q) (x + 2 ^ P.length * k) = scatterRec P x + scatterRec Q k := by
  induction P generalizing x with
  | nil =>
    have : x = 0 := by simpa using hx
    subst this; simp [scatterRec]
  | cons p P ih =>
    simp only [List.cons_append, scatterRec, List.length_cons]
    have e : (2 : Nat) ^ (P.length + 1) * k = 2 * (2 ^ P.length * k) := by
      rw [Nat.pow_succ]; ring
    have h1 : (x + 2 ^ (P.length + 1) * k) % 2 = x % 2 := by rw [e]; omega
    have h2 : (x + 2 ^ (P.length + 1) * k) / 2 = x / 2 + 2 ^ P.length * k := by rw [e]; omega
    have hx2 : x / 2 < 2 ^ P.length := by
      simp only [List.length_cons, Nat.pow_succ] at hx; omega
    rw [h1, h2, ih _ hx2]; omega

def gatherRec : List Nat → Nat → Nat
  | [], _ => 0
  | p :: ps, R => (R.testBit p).toNat + 2 * gatherRec ps R

theorem gatherRec_lt (ps : List Nat) (R : Nat) : gatherRec ps R < 2 ^ ps.length := by
  induction ps with
  | nil => simp [gatherRec]
  | cons p ps ih =>
    simp only [gatherRec, List.length_cons, Nat.pow_succ]
    have : (R.testBit p).toNat ≤ 1 := Bool.toNat_le _
    omega

theorem gatherRec_testBit (ps : List Nat) (R b : Nat) (hb : b < ps.length) :
    (gatherRec ps R).testBit b = R.testBit ps[b] := by
  induction ps generalizing b with
  | nil => simp at hb
  | cons p ps ih =>
    simp only [gatherRec]
    cases b with
    | zero =>
      simp only [Nat.testBit_zero, List.getElem_cons_zero]
      cases R.testBit p <;> simp
    | succ b =>
      simp only [Nat.testBit_add_one, List.getElem_cons_succ]
      have hle : (R.testBit p).toNat ≤ 1 := Bool.toNat_le _
      have : ((R.testBit p).toNat + 2 * gatherRec ps R) / 2 = gatherRec ps R := by omega
      rw [this]; exact ih b (by simpa using hb)

theorem gatherRec_append (P Q : List Nat) (R : Nat) :
    gatherRec (P ++ Q) R = gatherRec P R + 2 ^ P.length * gatherRec Q R := by
  induction P with
  | nil => simp [gatherRec]
  | cons p P ih =>
    simp only [List.cons_append, gatherRec, ih, List.length_cons, Nat.pow_succ]; ring

/-- `σ` lists every bit position below `n` exactly once -/
structure IsBitPerm (n : Nat) (σ : List Nat) : Prop where
  nodup : σ.Nodup
  mem : ∀ p, p ∈ σ ↔ p < n

theorem IsBitPerm.length {n σ} (h : IsBitPerm n σ) : σ.length = n := by
  have : σ.Perm (List.range n) := by
    rw [List.perm_ext_iff_of_nodup h.nodup List.nodup_range]
    intro a; simp [h.mem]
  simpa using this.length_eq

theorem gather_scatter {n σ} (h : IsBitPerm n σ) (y : Nat) (hy : y < 2 ^ σ.length) :
    gatherRec σ (scatterRec σ y) = y := by
  apply Nat.eq_of_testBit_eq
  intro b
  by_cases hb : b < σ.length
  · rw [gatherRec_testBit _ _ _ hb, scatterRec_testBit _ h.nodup]
    simp [h.nodup.idxOf_getElem]
  · have hle : 2 ^ σ.length ≤ 2 ^ b := Nat.pow_le_pow_right (by decide) (by omega)
    rw [Nat.testBit_lt_two_pow (Nat.lt_of_lt_of_le (gatherRec_lt _ _) hle),
      Nat.testBit_lt_two_pow (Nat.lt_of_lt_of_le hy hle)]

theorem scatter_gather {n σ} (h : IsBitPerm n σ) (R : Nat) (hR : R < 2 ^ n) :
    scatterRec σ (gatherRec σ R) = R := by
  apply Nat.eq_of_testBit_eq
  intro q
  rw [scatterRec_testBit _ h.nodup]
  by_cases hq : q ∈ σ
  · have hi : σ.idxOf q < σ.length := List.idxOf_lt_length_of_mem hq
    rw [gatherRec_testBit _ _ _ hi]; simp [hq]
  · have hn : n ≤ q := by
      have := (h.mem q).not.mp hq; omega
    have hle : 2 ^ n ≤ 2 ^ q := Nat.pow_le_pow_right (by decide) hn
    rw [Nat.testBit_lt_two_pow (Nat.lt_of_lt_of_le hR hle)]; simp [hq]

theorem scatter_eq_iff {n σ} (h : IsBitPerm n σ) (y R : Nat) (hy : y < 2 ^ σ.length) (hR : R < 2 ^ n) :
    scatterRec σ y = R ↔ y = gatherRec σ R := by
  constructor
  · intro e; rw [← e, gather_scatter h y hy]
  · intro e; rw [e, scatter_gather h R hR]

theorem scatterRec_lt {n σ} (h : IsBitPerm n σ) (y : Nat) : scatterRec σ y < 2 ^ n := by
  apply Nat.lt_pow_two_of_testBit
  intro q hq
  rw [scatterRec_testBit _ h.nodup]
  have : q ∉ σ := by rw [h.mem]; omega
  simp [this]


/-! ### the positions used by `_distribute_to_wires` form a bit permutation -/

theorem mem_complWires {n : Nat} {iw : List Nat} {w : Nat} : w ∈ complWires n iw ↔ w < n ∧ w ∉ iw := by
  simp [complWires]

theorem complWires_nodup (n : Nat) (iw : List Nat) : (complWires n iw).Nodup :=
  List.Nodup.filter _ List.nodup_range

theorem mem_revPos {n : Nat} {ws : List Nat} {p : Nat} : p ∈ revPos n ws ↔ ∃ w ∈ ws, n - 1 - w = p := by
  simp [revPos]

theorem revPos_nodup {n : Nat} {ws : List Nat} (hnd : ws.Nodup) (hr : ∀ w ∈ ws, w < n) : (revPos n ws).Nodup := by
  unfold revPos
  apply List.Nodup.map_on
  · intro a ha b hb hab
    have := hr a (List.mem_reverse.mp ha); have := hr b (List.mem_reverse.mp hb); omega
  · exact List.nodup_reverse.mpr hnd

theorem revPos_length (n : Nat) (ws : List Nat) : (revPos n ws).length = ws.length := by simp [revPos]

theorem isBitPerm_positions {n : Nat} {iw : List Nat} (hnd : iw.Nodup) (hr : ∀ w ∈ iw, w < n) :
    IsBitPerm n (revPos n iw ++ revPos n (complWires n iw)) := by
  constructor
  · rw [List.nodup_append]
    refine ⟨revPos_nodup hnd hr, revPos_nodup (complWires_nodup n iw) (fun w hw => (mem_complWires.mp hw).1), ?_⟩
    intro a ha b hb hab
    obtain ⟨w, hw, rfl⟩ := mem_revPos.mp ha
    obtain ⟨v, hv, rfl⟩ := mem_revPos.mp hb
    have hv' := mem_complWires.mp hv
    have := hr w hw
    have : w = v := by omega
    subst this; exact hv'.2 hw
  · intro p
    rw [List.mem_append, mem_revPos, mem_revPos]
    constructor
    · rintro (⟨w, hw, rfl⟩ | ⟨w, hw, rfl⟩)
      · have := hr w hw; omega
      · have := (mem_complWires.mp hw).1; omega
    · intro hp
      by_cases h : n - 1 - p ∈ iw
      · left; exact ⟨n - 1 - p, h, by omega⟩
      · right; exact ⟨n - 1 - p, mem_complWires.mpr ⟨by omega, h⟩, by omega⟩

/-- the length assertion of the code holds for duplicate-free in-range wire lists -/
theorem length_add_complWires {n : Nat} {iw : List Nat} (hnd : iw.Nodup) (hr : ∀ w ∈ iw, w < n) :
    iw.length + (complWires n iw).length = n := by
  have := (isBitPerm_positions hnd hr).length
  simpa [revPos_length] using this


/-! ### `denote` as a sum, and over the block structure of the output -/

section denote
variable {α : Type} [AddMonoid α]

theorem denote_eq_sum (coo : Coo α) (R C : Nat) :
    denote coo R C = (coo.map fun e => if e.1 = R ∧ e.2.1 = C then e.2.2 else 0).sum := by
  unfold denote
  induction coo with
  | nil => simp
  | cons e es ih =>
    by_cases h : e.1 = R ∧ e.2.1 = C
    · have : (e.1 == R && e.2.1 == C) = true := by simp [h.1, h.2]
      simp only [List.filter_cons]
      rw [if_pos this]
      simp only [List.map_cons, List.sum_cons, h, and_self, if_true]
      rw [ih]
    · have : (e.1 == R && e.2.1 == C) = false := by
        simp only [Bool.and_eq_false_iff, beq_eq_false_iff_ne]
        by_cases h1 : e.1 = R
        · right; exact fun h2 => h ⟨h1, h2⟩
        · left; exact h1
      simp only [List.filter_cons]
      rw [if_neg (by simp [this])]
      simp only [List.map_cons, List.sum_cons, h, if_false, zero_add]
      rw [ih]

theorem denote_nil (R C : Nat) : denote ([] : Coo α) R C = 0 := by simp [denote]

theorem denote_append (a b : Coo α) (R C : Nat) : denote (a ++ b) R C = denote a R C + denote b R C := by
  simp [denote_eq_sum]

theorem denote_flatMap {ι : Type} (ks : List ι) (f : ι → Coo α) (R C : Nat) :
    denote (ks.flatMap f) R C = (ks.map fun k => denote (f k) R C).sum := by
  induction ks with
  | nil => simp [denote_nil]
  | cons k ks ih => simp [List.flatMap_cons, denote_append, ih]

theorem sum_range_ite_eq (K a b : Nat) (D : α) :
    ((List.range K).map fun k => if k = a ∧ k = b then D else 0).sum = if a = b ∧ a < K then D else 0 := by
  induction K with
  | zero => simp
  | succ K ih =>
    rw [List.range_succ, List.map_append, List.sum_append, ih]
    simp only [List.map_cons, List.map_nil, List.sum_cons, List.sum_nil, add_zero]
    by_cases hab : a = b
    · subst hab
      by_cases h1 : a < K
      · have : ¬ K = a := by omega
        simp [h1, this]; omega
      · by_cases h2 : K = a
        · subst h2; simp
        · have : ¬ a < K + 1 := by omega
          simp [h1, h2, this]
    · have : ¬ (K = a ∧ K = b) := by omega
      simp [hab, this]

end denote


/-! ### the output of `distributeToWires` -/

section main
variable {α : Type} [AddMonoid α]

/-- the list the code builds, block by block (block `k` = offset of the `k`-th complementary pattern) -/
def blocks (n : Nat) (iw : List Nat) (coo : Coo α) : Coo α :=
  (List.range (2 ^ (n - iw.length))).flatMap fun k =>
    coo.map fun e => (scatterRec (revPos n iw) e.1 + scatterRec (revPos n (complWires n iw)) k,
      scatterRec (revPos n iw) e.2.1 + scatterRec (revPos n (complWires n iw)) k, e.2.2)

theorem distribute_eq_blocks {n : Nat} {iw : List Nat} (hnd : iw.Nodup) (hr : ∀ w ∈ iw, w < n) (coo : Coo α) :
    distributeToWires n iw (2 ^ iw.length) (2 ^ iw.length) coo = .ok (blocks n iw coo) := by
  have hlen := length_add_complWires hnd hr
  have hm : iw.length ≤ n := by omega
  unfold distributeToWires
  simp only [hlen, ne_eq, not_true_eq_false, if_false, hm, and_self]
  congr 1
  unfold blocks
  have hK : 2 ^ (n - iw.length) = (2 ^ (n - iw.length) - 1) + 1 := by
    have := Nat.two_pow_pos (n - iw.length); omega
  conv_rhs => rw [hK, List.range_eq_range', List.range'_succ]
  simp only [List.flatMap_cons, scatter_eq_rec, scatterRec_zero, Nat.add_zero, List.map_map, Nat.zero_add]
  rfl


theorem add_mul_eq_iff {c x g1 k g2 : Nat} (hx : x < c) (hg : g1 < c) :
    x + c * k = g1 + c * g2 ↔ x = g1 ∧ k = g2 := by
  constructor
  · intro h
    have h1 : x = g1 := by
      have := congrArg (· % c) h
      simpa [Nat.add_mul_mod_self_left, Nat.mod_eq_of_lt hx, Nat.mod_eq_of_lt hg] using this
    subst h1
    have h2 : c * k = c * g2 := by omega
    exact ⟨rfl, Nat.eq_of_mul_eq_mul_left (by omega) h2⟩
  · rintro ⟨rfl, rfl⟩; rfl

/-- where an entry of block `k` lands -/
theorem block_pos_eq_iff {n : Nat} {iw : List Nat} (hnd : iw.Nodup) (hr : ∀ w ∈ iw, w < n)
    (x k R : Nat) (hx : x < 2 ^ iw.length) (hk : k < 2 ^ (n - iw.length)) (hR : R < 2 ^ n) :
    scatterRec (revPos n iw) x + scatterRec (revPos n (complWires n iw)) k = R ↔
      x = gatherRec (revPos n iw) R ∧ k = gatherRec (revPos n (complWires n iw)) R := by
  have hσ := isBitPerm_positions hnd hr
  have hlen := length_add_complWires hnd hr
  have hP : (revPos n iw).length = iw.length := revPos_length _ _
  have hQ : (revPos n (complWires n iw)).length = n - iw.length := by rw [revPos_length]; omega
  rw [← hP] at hx
  rw [← scatterRec_append _ _ _ _ hx]
  have hy : x + 2 ^ (revPos n iw).length * k < 2 ^ (revPos n iw ++ revPos n (complWires n iw)).length := by
    rw [List.length_append, Nat.pow_add, hQ]
    calc x + 2 ^ (revPos n iw).length * k < 2 ^ (revPos n iw).length + 2 ^ (revPos n iw).length * k := by omega
      _ = 2 ^ (revPos n iw).length * (k + 1) := by ring
      _ ≤ 2 ^ (revPos n iw).length * 2 ^ (n - iw.length) := Nat.mul_le_mul_left _ hk
  rw [scatter_eq_iff hσ _ _ hy hR, gatherRec_append]
  exact add_mul_eq_iff hx (gatherRec_lt _ _)

theorem denote_blocks {n : Nat} {iw : List Nat} (hnd : iw.Nodup) (hr : ∀ w ∈ iw, w < n) (coo : Coo α)
    (hcoo : ∀ e ∈ coo, e.1 < 2 ^ iw.length ∧ e.2.1 < 2 ^ iw.length) (R C : Nat) (hR : R < 2 ^ n) (hC : C < 2 ^ n) :
    denote (blocks n iw coo) R C =
      if gatherRec (revPos n (complWires n iw)) R = gatherRec (revPos n (complWires n iw)) C then
        denote coo (gatherRec (revPos n iw) R) (gatherRec (revPos n iw) C) else 0 := by
  have hlen := length_add_complWires hnd hr
  have hQ : (revPos n (complWires n iw)).length = n - iw.length := by rw [revPos_length]; omega
  unfold blocks
  rw [denote_flatMap]
  have hblock : ∀ k ∈ List.range (2 ^ (n - iw.length)),
      denote (coo.map fun e => (scatterRec (revPos n iw) e.1 + scatterRec (revPos n (complWires n iw)) k,
        scatterRec (revPos n iw) e.2.1 + scatterRec (revPos n (complWires n iw)) k, e.2.2)) R C =
      if k = gatherRec (revPos n (complWires n iw)) R ∧ k = gatherRec (revPos n (complWires n iw)) C then
        denote coo (gatherRec (revPos n iw) R) (gatherRec (revPos n iw) C) else 0 := by
    intro k hk
    have hk' : k < 2 ^ (n - iw.length) := List.mem_range.mp hk
    rw [denote_eq_sum, denote_eq_sum, List.map_map]
    by_cases hkk : k = gatherRec (revPos n (complWires n iw)) R ∧ k = gatherRec (revPos n (complWires n iw)) C
    · rw [if_pos hkk]
      congr 1
      apply List.map_congr_left
      intro e he
      simp only [Function.comp]
      have e1 := block_pos_eq_iff hnd hr _ _ _ (hcoo e he).1 hk' hR
      have e2 := block_pos_eq_iff hnd hr _ _ _ (hcoo e he).2 hk' hC
      simp only [e1, e2, ← hkk.1, ← hkk.2, and_true]
    · rw [if_neg hkk]
      apply List.sum_eq_zero
      intro x hx
      obtain ⟨e, he, rfl⟩ := List.mem_map.mp hx
      simp only [Function.comp]
      have e1 := block_pos_eq_iff hnd hr _ _ _ (hcoo e he).1 hk' hR
      have e2 := block_pos_eq_iff hnd hr _ _ _ (hcoo e he).2 hk' hC
      simp only [e1, e2]
      rw [if_neg]
      rintro ⟨⟨_, h1⟩, ⟨_, h2⟩⟩
      exact hkk ⟨h1, h2⟩
  rw [List.map_congr_left hblock, sum_range_ite_eq]
  have hlt : gatherRec (revPos n (complWires n iw)) R < 2 ^ (n - iw.length) := by
    rw [← hQ]; exact gatherRec_lt _ _
  simp [hlt]

end main


/-! ### the gathered bits are the reference's gate index and agreement test -/

theorem foldl_eq_gatherRec (f : Nat → Nat) (ws : List Nat) (R a : Nat) :
    ws.foldl (fun a w => 2 * a + (R.testBit (f w)).toNat) a
      = a * 2 ^ ws.length + gatherRec (ws.reverse.map f) R := by
  induction ws generalizing a with
  | nil => simp [gatherRec]
  | cons w ws ih =>
    simp only [List.foldl_cons, ih, List.reverse_cons, List.map_append, List.map_cons, List.map_nil,
      gatherRec_append, gatherRec, List.length_map, List.length_reverse, List.length_cons, Nat.pow_succ]
    ring

theorem gatherRec_revPos_eq_gateIdx (n : Nat) (iw : List Nat) (R : Nat) :
    gatherRec (revPos n iw) R = gateIdx n iw R := by
  unfold gateIdx revPos wireBit
  rw [foldl_eq_gatherRec (fun w => n - 1 - w)]; simp

theorem gatherRec_eq_iff (ps : List Nat) (R C : Nat) :
    gatherRec ps R = gatherRec ps C ↔ ∀ p ∈ ps, R.testBit p = C.testBit p := by
  induction ps with
  | nil => simp [gatherRec]
  | cons p ps ih =>
    simp only [gatherRec, List.mem_cons, forall_eq_or_imp, ← ih]
    have h1 : (R.testBit p).toNat ≤ 1 := Bool.toNat_le _
    have h2 : (C.testBit p).toNat ≤ 1 := Bool.toNat_le _
    constructor
    · intro h
      have ht : (R.testBit p).toNat = (C.testBit p).toNat := by omega
      refine ⟨?_, by omega⟩
      cases hR : R.testBit p <;> cases hC : C.testBit p <;> simp [hR, hC] at ht ⊢
    · rintro ⟨h, h'⟩; rw [h, h']

theorem agreeOff_iff (n : Nat) (iw : List Nat) (R C : Nat) :
    agreeOff n iw R C = true ↔ ∀ w, w < n → w ∉ iw → wireBit n R w = wireBit n C w := by
  simp only [agreeOff, List.all_eq_true, List.mem_range, Bool.or_eq_true, List.contains_iff_mem, beq_iff_eq]
  constructor
  · intro h w hw hni
    rcases h w hw with h | h
    · exact absurd h hni
    · exact h
  · intro h w hw
    by_cases hm : w ∈ iw
    · exact Or.inl hm
    · exact Or.inr (h w hw hm)

theorem gatherRec_compl_eq_iff (n : Nat) (iw : List Nat) (R C : Nat) :
    gatherRec (revPos n (complWires n iw)) R = gatherRec (revPos n (complWires n iw)) C ↔
      agreeOff n iw R C = true := by
  rw [gatherRec_eq_iff, agreeOff_iff]
  constructor
  · intro h w hw hni
    exact h (n - 1 - w) (mem_revPos.mpr ⟨w, mem_complWires.mpr ⟨hw, hni⟩, rfl⟩)
  · intro h p hp
    obtain ⟨w, hw, rfl⟩ := mem_revPos.mp hp
    exact h w (mem_complWires.mp hw).1 (mem_complWires.mp hw).2

/-- **the mirror of `_distribute_to_wires` denotes the embedding** (any stored entries, any scalars) -/
theorem distribute_denote {α : Type} [AddMonoid α] {n : Nat} {iw : List Nat} (hnd : iw.Nodup)
    (hr : ∀ w ∈ iw, w < n) (coo : Coo α) (hcoo : ∀ e ∈ coo, e.1 < 2 ^ iw.length ∧ e.2.1 < 2 ^ iw.length) :
    ∃ out, distributeToWires n iw (2 ^ iw.length) (2 ^ iw.length) coo = .ok out ∧
      ∀ R C, R < 2 ^ n → C < 2 ^ n → denote out R C = embedEntry n iw (denote coo) R C := by
  refine ⟨_, distribute_eq_blocks hnd hr coo, ?_⟩
  intro R C hR hC
  rw [denote_blocks hnd hr coo hcoo R C hR hC]
  unfold embedEntry
  simp only [gatherRec_compl_eq_iff]
  simp only [gatherRec_revPos_eq_gateIdx]


/-! ### no two output entries share a position -/

theorem block_pos_inj {n : Nat} {iw : List Nat} (hnd : iw.Nodup) (hr : ∀ w ∈ iw, w < n)
    {x x' k k' : Nat} (hx : x < 2 ^ iw.length) (hx' : x' < 2 ^ iw.length)
    (hk : k < 2 ^ (n - iw.length)) (hk' : k' < 2 ^ (n - iw.length))
    (h : scatterRec (revPos n iw) x + scatterRec (revPos n (complWires n iw)) k =
      scatterRec (revPos n iw) x' + scatterRec (revPos n (complWires n iw)) k') : x = x' ∧ k = k' := by
  have hlt : scatterRec (revPos n iw) x' + scatterRec (revPos n (complWires n iw)) k' < 2 ^ n := by
    have hP : (revPos n iw).length = iw.length := revPos_length _ _
    rw [← hP] at hx'
    rw [← scatterRec_append _ _ _ _ hx']
    exact scatterRec_lt (isBitPerm_positions hnd hr) _
  have h1 := (block_pos_eq_iff hnd hr x k _ hx hk hlt).mp h
  have h2 := (block_pos_eq_iff hnd hr x' k' _ hx' hk' hlt).mp rfl
  exact ⟨h1.1.trans h2.1.symm, h1.2.trans h2.2.symm⟩

theorem blocks_nodup {α : Type} [AddMonoid α] {n : Nat} {iw : List Nat} (hnd : iw.Nodup) (hr : ∀ w ∈ iw, w < n)
    (coo : Coo α) (hcoo : ∀ e ∈ coo, e.1 < 2 ^ iw.length ∧ e.2.1 < 2 ^ iw.length)
    (hpos : (coo.map fun e => (e.1, e.2.1)).Nodup) :
    ((blocks n iw coo).map fun e => (e.1, e.2.1)).Nodup := by
  have e : (blocks n iw coo).map (fun e => (e.1, e.2.1)) =
      (List.product (List.range (2 ^ (n - iw.length))) (coo.map fun e => (e.1, e.2.1))).map fun kp =>
        (scatterRec (revPos n iw) kp.2.1 + scatterRec (revPos n (complWires n iw)) kp.1,
         scatterRec (revPos n iw) kp.2.2 + scatterRec (revPos n (complWires n iw)) kp.1) := by
    simp only [blocks, List.product, List.map_flatMap, List.map_map]
    rfl
  rw [e]
  apply List.Nodup.map_on
  · rintro ⟨k, r, c⟩ h1 ⟨k', r', c'⟩ h2 heq
    have h1' := List.pair_mem_product.mp h1
    have h2' := List.pair_mem_product.mp h2
    obtain ⟨e1, he1, hp1⟩ := List.mem_map.mp h1'.2
    obtain ⟨e2, he2, hp2⟩ := List.mem_map.mp h2'.2
    have hk := List.mem_range.mp h1'.1
    have hk' := List.mem_range.mp h2'.1
    have q1 : e1.1 = r ∧ e1.2.1 = c := by simpa using hp1
    have q2 : e2.1 = r' ∧ e2.2.1 = c' := by simpa using hp2
    have b1 := hcoo e1 he1
    have b2 := hcoo e2 he2
    rw [q1.1, q1.2] at b1
    rw [q2.1, q2.2] at b2
    have heq' := Prod.mk.inj heq
    have a1 := block_pos_inj hnd hr b1.1 b2.1 hk hk' heq'.1
    have a2 := block_pos_inj hnd hr b1.2 b2.2 hk hk' heq'.2
    rw [a1.1, a1.2, a2.1]
  · exact List.Nodup.product List.nodup_range hpos

/-! ### dense gate matrices -/

section dense
variable {α : Type} [AddMonoid α] [DecidableEq α]

theorem mem_cooOfDense {d : Nat} {g : Nat → Nat → α} {e : Nat × Nat × α} (he : e ∈ cooOfDense d g) :
    e.1 < d ∧ e.2.1 < d ∧ e.2.2 = g e.1 e.2.1 := by
  simp only [cooOfDense, List.mem_flatMap, List.mem_range, List.mem_filterMap] at he
  obtain ⟨j, hj, c, hc, h⟩ := he
  by_cases h0 : g j c = 0
  · simp [h0] at h
  · simp only [h0, if_false, Option.some.injEq] at h
    subst h; exact ⟨hj, hc, rfl⟩

theorem denote_row (d : Nat) (g : Nat → Nat → α) (j R C : Nat) :
    denote ((List.range d).filterMap fun c => if g j c = 0 then none else some (j, c, g j c)) R C =
      if j = R ∧ C < d then g j C else 0 := by
  induction d with
  | zero => simp [denote_nil]
  | succ d ih =>
    rw [List.range_succ, List.filterMap_append, denote_append, ih]
    by_cases hj : j = R
    · subst hj
      by_cases h0 : g j d = 0
      · simp only [List.filterMap_cons, h0, if_true, List.filterMap_nil, denote_nil, add_zero, true_and]
        by_cases hC : C < d
        · have : C < d + 1 := by omega
          simp [hC, this]
        · by_cases hCd : C = d
          · subst hCd; simp [h0]
          · have : ¬ C < d + 1 := by omega
            simp [hC, this]
      · simp only [List.filterMap_cons, h0, if_false, List.filterMap_nil, denote_eq_sum, List.map_cons,
          List.map_nil, List.sum_cons, List.sum_nil, add_zero, true_and]
        by_cases hC : C < d
        · have h1 : C < d + 1 := by omega
          have h2 : ¬ d = C := by omega
          simp [hC, h1, h2]
        · by_cases hCd : C = d
          · subst hCd; simp
          · have h1 : ¬ C < d + 1 := by omega
            have h2 : ¬ d = C := fun h => hCd h.symm
            simp [hC, h1, h2]
    · by_cases h0 : g j d = 0
      · simp [h0, hj, denote_nil]
      · simp [h0, hj, denote_eq_sum]

theorem denote_cooOfDense (d : Nat) (g : Nat → Nat → α) (R C : Nat) (hR : R < d) (hC : C < d) :
    denote (cooOfDense d g) R C = g R C := by
  unfold cooOfDense
  rw [denote_flatMap]
  have : ∀ j ∈ List.range d, denote ((List.range d).filterMap fun c => if g j c = 0 then none else some (j, c, g j c)) R C
      = if j = R ∧ j = R then g R C else 0 := by
    intro j _
    rw [denote_row]
    by_cases hj : j = R
    · subst hj; simp [hC]
    · simp [hj]
  rw [List.map_congr_left this, sum_range_ite_eq]; simp [hR]

theorem row_pos_sublist (g : Nat → Nat → α) (j : Nat) (l : List Nat) :
    ((l.filterMap fun c => if g j c = 0 then none else some (j, c, g j c)).map fun e => (e.1, e.2.1)).Sublist
      (l.map (Prod.mk j)) := by
  induction l with
  | nil => simp
  | cons c l ih =>
    by_cases h0 : g j c = 0
    · simp only [List.filterMap_cons, h0, if_true, List.map_cons]
      exact List.Sublist.cons _ ih
    · simp only [List.filterMap_cons, h0, if_false, List.map_cons]
      exact List.Sublist.cons_cons _ ih

theorem cooOfDense_pos_nodup (d : Nat) (g : Nat → Nat → α) :
    ((cooOfDense d g).map fun e => (e.1, e.2.1)).Nodup := by
  have hsub : ((cooOfDense d g).map fun e => (e.1, e.2.1)).Sublist (List.product (List.range d) (List.range d)) := by
    unfold cooOfDense List.product
    rw [List.map_flatMap]
    exact List.Sublist.flatMap_right _ fun j _ => row_pos_sublist g j _
  exact hsub.nodup (List.Nodup.product List.nodup_range List.nodup_range)

end dense


/-! ### bounds, and the rejection branch -/

theorem gateIdx_lt (n : Nat) (iw : List Nat) (R : Nat) : gateIdx n iw R < 2 ^ iw.length := by
  rw [← gatherRec_revPos_eq_gateIdx, ← revPos_length n iw]; exact gatherRec_lt _ _

/-- the length assertion of the code is *exactly* "duplicate-free and in range" -/
theorem length_add_complWires_iff (n : Nat) (iw : List Nat) :
    iw.length + (complWires n iw).length = n ↔ (iw.Nodup ∧ ∀ w ∈ iw, w < n) := by
  constructor
  · intro h
    let S := (List.range n).filter fun w => iw.contains w
    have hS : S.length + (complWires n iw).length = n := by
      have := List.length_eq_countP_add_countP (fun w => iw.contains w) (l := List.range n)
      simp only [List.length_range, List.countP_eq_length_filter] at this
      have e : (List.filter (fun a => decide ¬(iw.contains a) = true) (List.range n)) = complWires n iw := by
        unfold complWires; congr 1; funext w; simp
      rw [e] at this; exact this.symm
    have hSnd : S.Nodup := List.Nodup.filter _ List.nodup_range
    have hsub : S ⊆ iw := by
      intro w hw
      have := (List.mem_filter.mp hw).2
      simpa using this
    have hsp : S.Subperm iw := List.subperm_of_subset hSnd hsub
    have hperm : S.Perm iw := hsp.perm_of_length_le (by omega)
    refine ⟨hperm.nodup_iff.mp hSnd, fun w hw => ?_⟩
    have := hperm.mem_iff.mpr hw
    exact List.mem_range.mp (List.mem_filter.mp this).1
  · rintro ⟨hnd, hr⟩; exact length_add_complWires hnd hr

theorem distribute_reject {α : Type} [Add α] (n : Nat) (iw : List Nat) (r c : Nat) (coo : Coo α)
    (h : ¬ (iw.Nodup ∧ ∀ w ∈ iw, w < n)) : distributeToWires n iw r c coo = .error .assertion := by
  have := (length_add_complWires_iff n iw).not.mpr h
  simp [distributeToWires, this]

theorem distribute_reject_shape {α : Type} [Add α] (n : Nat) (iw : List Nat) (r c : Nat) (coo : Coo α)
    (h : ¬ (r = 2 ^ iw.length ∧ c = 2 ^ iw.length)) : distributeToWires n iw r c coo = .error .assertion := by
  unfold distributeToWires
  by_cases h1 : iw.length + (complWires n iw).length = n
  · by_cases h2 : iw.length ≤ n
    · simp [h1, h2, h]
    · simp [h1, h2]
  · simp [h1]

end Qib.Embed
