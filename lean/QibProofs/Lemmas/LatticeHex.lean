import QibProofs.Lemmas.LatticeBrick
import Mathlib.Tactic.Linarith
import Mathlib.Tactic.IntervalCases
/-! Helper lemmas for C14: the hexagonal coordinates (exact: `[row, 2y]` resp. `[2x, col]`) of two grid points are
at Euclidean distance 1 iff the points are brick-wall neighbours. -/
namespace Qib.Lattice

/-- four times the squared Euclidean distance of two encoded hexagonal coordinates
(`cols`: `x = a₀·√3/2, y = a₁/2`; `rows`: `x = a₀/2, y = a₁·√3/2`) -/
def hexDist4 (conv : Conv) (a b : List Int) : Int :=
  match conv with
  | .cols => 3 * (a.getD 0 0 - b.getD 0 0) ^ 2 + (a.getD 1 0 - b.getD 1 0) ^ 2
  | .rows => (a.getD 0 0 - b.getD 0 0) ^ 2 + 3 * (a.getD 1 0 - b.getD 1 0) ^ 2

theorem three_sq_add_sq (a b : Int) :
    3 * a ^ 2 + b ^ 2 = 4 ↔ (a = 0 ∧ (b = 2 ∨ b = -2)) ∨ ((a = 1 ∨ a = -1) ∧ (b = 1 ∨ b = -1)) := by
  constructor
  · intro h
    have h1 : a ≤ 1 := by nlinarith [sq_nonneg b, sq_nonneg (a - 1)]
    have h2 : -1 ≤ a := by nlinarith [sq_nonneg b, sq_nonneg (a + 1)]
    have h3 : b ≤ 2 := by nlinarith [sq_nonneg a, sq_nonneg (b - 2)]
    have h4 : -2 ≤ b := by nlinarith [sq_nonneg a, sq_nonneg (b + 2)]
    interval_cases a <;> interval_cases b <;> simp_all
  · rintro (⟨rfl, rfl | rfl⟩ | ⟨rfl | rfl, rfl | rfl⟩) <;> norm_num

theorem hexLong_even {p k : Nat} (h : p % 2 = 0) : hexLong p k = 1 + 2 * ((k + 1) / 2) + 4 * (k / 2) := by
  simp [hexLong, h]

theorem hexLong_odd {p k : Nat} (h : p % 2 = 1) : hexLong p k = 2 * (k / 2) + 4 * ((k + 1) / 2) := by
  simp [hexLong, h]

/-- brick-wall neighbours (all links between lines, parity-selected links inside a line) ⇔ unit distance -/
theorem brickNN_cols_iff (r c r' c' : Nat) :
    BrickNN 0 r c r' c' ↔
      3 * ((r : Int) - r') ^ 2 + ((hexLong r c : Int) - hexLong r' c') ^ 2 = 4 := by
  rw [three_sq_add_sq]
  unfold BrickNN
  simp only [if_true]
  rcases Nat.mod_two_eq_zero_or_one r with h | h <;> rcases Nat.mod_two_eq_zero_or_one r' with h' | h' <;>
    first
    | rw [hexLong_even h, hexLong_even h']
    | rw [hexLong_even h, hexLong_odd h']
    | rw [hexLong_odd h, hexLong_even h']
    | rw [hexLong_odd h, hexLong_odd h']
  all_goals
    constructor
    · rintro (⟨h1, h2 | h2⟩ | ⟨h1, ⟨h2, h3⟩ | ⟨h2, h3⟩⟩) <;> omega
    · rintro (⟨h1, h2 | h2⟩ | ⟨h1 | h1, h2 | h2⟩) <;> omega

theorem brickNN_transpose (r c r' c' : Nat) : BrickNN 1 r c r' c' ↔ BrickNN 0 c r c' r' := by
  unfold BrickNN
  simp only [if_true, Nat.one_ne_zero, if_false]
  constructor
  · rintro (⟨h1, h2 | h2⟩ | ⟨h1, ⟨h2, h3⟩ | ⟨h2, h3⟩⟩) <;> omega
  · rintro (⟨h1, h2 | h2⟩ | ⟨h1, ⟨h2, h3⟩ | ⟨h2, h3⟩⟩) <;> omega

theorem brickNN_iff_unit_distance (conv : Conv) (r c r' c' : Nat) :
    BrickNN (match conv with | .cols => 0 | .rows => 1) r c r' c' ↔
      hexDist4 conv (hexCoord conv r c) (hexCoord conv r' c') = 4 := by
  cases conv
  · simp only [hexDist4, hexCoord, List.getD_cons_zero, List.getD_cons_succ]
    exact brickNN_cols_iff r c r' c'
  · simp only [hexDist4, hexCoord, List.getD_cons_zero, List.getD_cons_succ]
    rw [brickNN_transpose, brickNN_cols_iff]
    constructor <;> intro h <;> linarith

/-- hexagonal coordinates determine the grid point -/
theorem hexLong_injective (p k k' : Nat) (h : hexLong p k = hexLong p k') : k = k' := by
  rcases Nat.mod_two_eq_zero_or_one p with hp | hp
  · rw [hexLong_even hp, hexLong_even hp] at h; omega
  · rw [hexLong_odd hp, hexLong_odd hp] at h; omega

theorem hexCoord_injective (conv : Conv) (r c r' c' : Nat) (h : hexCoord conv r c = hexCoord conv r' c') :
    r = r' ∧ c = c' := by
  cases conv <;> simp only [hexCoord, List.cons.injEq, and_true] at h
  · obtain ⟨h1, h2⟩ := h
    have : r = r' := by exact_mod_cast h1
    subst this
    exact ⟨rfl, hexLong_injective r c c' (by exact_mod_cast h2)⟩
  · obtain ⟨h1, h2⟩ := h
    have : c = c' := by exact_mod_cast h2
    subst this
    exact ⟨hexLong_injective c r r' (by exact_mod_cast h1), rfl⟩

end Qib.Lattice
