import QibProofs.Lemmas.TNetSurgeryProduct
/-!
Helper lemmas for C08, part 12: the value of the result of `merge` (no property statements).
-/
namespace Qib.TNet
variable {α : Type} [CommSemiring α]

theorem allIdx_append (S1 S2 : List Nat) :
    allIdx (S1 ++ S2) = (allIdx S1).flatMap (fun x => (allIdx S2).map (fun y => x ++ y)) := by
  induction S1 with
  | nil => simp [allIdx]
  | cons d ds ih =>
    simp only [List.cons_append, allIdx, ih, List.flatMap_assoc, List.map_flatMap, List.flatMap_map, List.map_map]
    rfl

theorem sum_flatMap_map {X Y Z : Type} (l1 : List X) (l2 : List Y) (f : X → Y → Z) (g : Z → α) :
    ((l1.flatMap (fun x => l2.map (f x))).map g).sum = (l1.map (fun x => (l2.map (fun y => g (f x y))).sum)).sum := by
  induction l1 with
  | nil => rfl
  | cons x xs ih =>
    simp only [List.flatMap_cons, List.map_append, List.sum_append, List.map_cons, List.sum_cons, ih, List.map_map]
    rfl

theorem length_of_mem_allIdx {S z : List Nat} (h : z ∈ allIdx S) : z.length = S.length :=
  (mem_allIdx.mp h).length_eq

/-- the axes of the fused virtual tensor that survive a join list: all axes of both operands but the joined ones,
in order (first operand first) -/
def keptAxes (na nb : Nat) (j : List (Int × Int)) : List Nat :=
  (List.range (na + nb)).filter (fun k => !(delAxesOf na (joinNat j)).contains k)

/-- the value of the result of `merge` -/
theorem merge_full_raw {a b net' : Net} {j : List (Int × Int)} {tor bor : List Int} (ha : WF a) (hb : WF b)
    (htor : tor.Perm (sharedTids a b)) (hbor : bor.Perm (sharedBids a b))
    (hdim : ∀ va vb, dget a.tensors (-1) = some va → dget b.tensors (-1) = some vb →
      ∀ ja ∈ j, va.shape[ja.1.toNat]? = vb.shape[ja.2.toNat]?)
    (h : merge a b j tor bor = .ok net') (D : Option Int → List Nat → α)
    {va vb : STensor} (hva : dget a.tensors (-1) = some va) (hvb : dget b.tensors (-1) = some vb) :
    ∃ v', dget net'.tensors (-1) = some v' ∧
      v'.shape = pickD (va.shape ++ vb.shape) 0 (keptAxes va.shape.length vb.shape.length j) ∧
      ∀ idx ∈ allIdx v'.shape, full net' D idx =
        ((allIdx va.shape).map (fun x => ((allIdx vb.shape).map (fun y =>
          if pickD (x ++ y) 0 (keptAxes va.shape.length vb.shape.length j) == idx then
            (if ((joinNat j).all fun ja => (x ++ y)[ja.1]? == (x ++ y)[va.shape.length + ja.2]?) then
              full a D x * full b D y else 0)
          else 0)).sum)).sum := by
  obtain ⟨orig, nb, o1, tmpOpen, n1, o2, n2, m1, toa1, m2, axesMap, m3, toa3, horig, hnb, hrange, hf1, hf2, hm1,
    htoa1, hf3, hf4, htoa3, _, hnet⟩ := merge_ok_inv h
  have pre := merge_prejoin ha hb htor hbor hf1 hf2 hm1 htoa1
  have pd := merge_predata ha hb htor hbor hf1 hf2 hm1
  have hwf' := merge_wf ha hb htor hbor hdim h
  have horig' : orig = va.shape.length := by
    rw [numOpenAxes_eq hva] at horig; exact (Except.ok.inj horig).symm
  subst horig'
  have hrange' : ∀ ja ∈ j, 0 ≤ ja.1 ∧ ja.1 < va.shape.length ∧ 0 ≤ ja.2 ∧ ja.2 < vb.shape.length := by
    intro ja hja
    have hne : j ≠ [] := List.ne_nil_of_mem hja
    have := hnb hne
    rw [numOpenAxes_eq hvb] at this
    have hnb' : nb = vb.shape.length := (Except.ok.inj this).symm
    have := hrange ja hja
    rw [hnb'] at this; exact this
  have hS := pre.shape va vb hva hvb
  have hdimS : ∀ ja ∈ joinNat j, toa1.shape[ja.1]? = toa1.shape[va.shape.length + ja.2]? := by
    intro ja hja
    obtain ⟨jz, hjz, rfl⟩ := List.mem_map.mp hja
    obtain ⟨h1, h2, h3, h4⟩ := hrange' jz hjz
    have hp : jz.1.toNat < va.shape.length := by omega
    rw [hS, List.getElem?_append_left hp, List.getElem?_append_right (by omega)]
    simp only [Nat.add_sub_cancel_left]
    exact hdim va vb hva hvb jz hjz
  have hj1 : JInv toa1.shape m1 := ⟨pre.wf, toa1, pre.virt, rfl⟩
  obtain ⟨⟨wf2, toa2, hv2, hS2⟩, ham, _⟩ := join_fold_inv (st := (m1, _)) hj1 hdimS hf3
  have hjoin := join_fold_full (st := (m1, _)) hj1 hdimS hf3 D
  simp only at wf2 hv2 ham hjoin
  obtain ⟨hDlt, ht3, hb3, hl3⟩ := del_fold wf2.bnodup hv2 wf2.blen hf4
  have hsh2 : toa2.shape.length = toa2.bids.length := wf2.tshape _ (mem_of_dget_eq_some _ hv2)
  have hN : toa2.bids.length = va.shape.length + vb.shape.length := by
    rw [← hsh2, hS2, hS, List.length_append]
  have hK : axesMap = keptAxes va.shape.length vb.shape.length j := by
    rw [ham, foldl_erase_eq_filter _ _ _ List.nodup_range, hS, List.length_append]
    apply List.filter_congr
    intro x _
    congr 1
    rw [Bool.eq_iff_iff]
    simp only [delAxesOf, List.contains_iff_mem, List.mem_eraseDups]
  have htoa3' : toa3 = toa2 := by
    rw [ht3, hv2] at htoa3; exact (Option.some.inj htoa3).symm
  have hKlt : ∀ x ∈ keptAxes va.shape.length vb.shape.length j, x < toa2.bids.length := by
    intro x hx
    rw [hN]
    exact List.mem_range.mp (List.mem_filter.mp hx).1
  have hts : net'.tensors = dmodify m2.tensors (-1) (fun t => { t with
      shape := pickD toa2.shape 0 (keptAxes va.shape.length vb.shape.length j),
      bids := pickD toa2.bids 0 (keptAxes va.shape.length vb.shape.length j) }) := by
    rw [hnet, ht3, htoa3', hK]
  have hkeys : dkeys net'.bonds = dkeys m2.bonds := by
    rw [hnet]; simp only; rw [hb3]; simp [dkeys, Function.comp_def]
  refine ⟨{ toa2 with shape := pickD toa2.shape 0 (keptAxes va.shape.length vb.shape.length j),
                       bids := pickD toa2.bids 0 (keptAxes va.shape.length vb.shape.length j) }, ?_, ?_, ?_⟩
  · rw [hts, dget_dmodify, hv2]; simp
  · simp only; rw [hS2, hS]
  · intro idx hidx
    simp only at hidx
    rw [restrict_full wf2 hv2 hwf' _ hKlt hts hkeys D idx hidx, hS2, hS, allIdx_append, sum_flatMap_map]
    apply congrArg
    apply List.map_congr_left
    intro x hx
    apply congrArg
    apply List.map_congr_left
    intro y _
    rw [hjoin (x ++ y)]
    have hxl : x.length = va.shape.length := length_of_mem_allIdx hx
    rw [prejoin_product ha pd hva D x y hxl, merge_track_value ha hb htor hf1 hf2 D y]

/-! ### the statement in terms of the join list itself -/

/-- the remaining open axes of the merged network: axis `k < na` of the first operand survives unless it is the first
component of a join pair, axis `na + q` (axis `q` of the second) unless `q` is a second component -/
def remainingAxes (na nb : Nat) (j : List (Int × Int)) : List Nat :=
  (List.range (na + nb)).filter (fun k => !(j.any fun ja => k == ja.1.toNat || k == na + ja.2.toNat))

theorem keptAxes_eq (na nb : Nat) (j : List (Int × Int)) : keptAxes na nb j = remainingAxes na nb j := by
  unfold keptAxes remainingAxes
  apply List.filter_congr
  intro k _
  congr 1
  rw [Bool.eq_iff_iff]
  simp only [delAxesOf, joinNat, List.contains_iff_mem, List.mem_eraseDups, List.mem_flatMap, List.mem_map,
    List.mem_cons, List.not_mem_nil, or_false, List.any_eq_true, Bool.or_eq_true, beq_iff_eq]
  constructor
  · rintro ⟨ja, ⟨jz, hjz, rfl⟩, h⟩
    exact ⟨jz, hjz, h⟩
  · rintro ⟨jz, hjz, h⟩
    exact ⟨_, ⟨jz, hjz, rfl⟩, h⟩

/-- the joined axes carry equal indices -/
def joinsAgree (j : List (Int × Int)) (x y : List Nat) : Bool := j.all fun ja => x[ja.1.toNat]? == y[ja.2.toNat]?

theorem joinsAgree_eq (j : List (Int × Int)) (x y : List Nat) (na : Nat) (hx : x.length = na)
    (hr : ∀ ja ∈ j, 0 ≤ ja.1 ∧ ja.1 < na) :
    ((joinNat j).all fun ja => (x ++ y)[ja.1]? == (x ++ y)[na + ja.2]?) = joinsAgree j x y := by
  unfold joinsAgree joinNat
  rw [List.all_map, Bool.eq_iff_iff, List.all_eq_true, List.all_eq_true]
  have key : ∀ ja ∈ j, ((x ++ y)[ja.1.toNat]? == (x ++ y)[na + ja.2.toNat]?) = (x[ja.1.toNat]? == y[ja.2.toNat]?) := by
    intro ja hja
    have := hr ja hja
    rw [List.getElem?_append_left (by omega), List.getElem?_append_right (by omega)]
    simp [hx]
  constructor
  · intro h ja hja; rw [← key ja hja]; exact h ja hja
  · intro h ja hja; simp only [Function.comp]; rw [key ja hja]; exact h ja hja

/-! ### the range check of `merge` -/

theorem forIn_unit_err {γ : Type} (l : List γ) (f : γ → PUnit → Except Err (ForInStep PUnit)) (e : Err)
    (hf : ∀ x, f x PUnit.unit = .ok (.yield PUnit.unit) ∨ f x PUnit.unit = .error e)
    (hx : ∃ x ∈ l, f x PUnit.unit = .error e) : forIn l PUnit.unit f = .error e := by
  induction l with
  | nil => obtain ⟨x, hx, _⟩ := hx; simp at hx
  | cons y ys ih =>
    rw [List.forIn_cons]
    rcases hf y with hy | hy
    · rw [hy]
      obtain ⟨x, hxm, hxe⟩ := hx
      rcases List.mem_cons.mp hxm with rfl | hxm
      · rw [hy] at hxe; cases hxe
      · exact ih ⟨x, hxm, hxe⟩
    · rw [hy]; rfl

/-- a join pair outside the open axes of either operand is refused with `ValueError`, before anything is touched -/
theorem merge_out_of_range {a b : Net} {j : List (Int × Int)} {tor bor : List Int} {oa ob : Nat}
    (hoa : numOpenAxes a = .ok oa) (hob : numOpenAxes b = .ok ob)
    (h : ∃ ja ∈ j, ¬ (0 ≤ ja.1 ∧ ja.1 < oa ∧ 0 ≤ ja.2 ∧ ja.2 < ob)) : merge a b j tor bor = .error .valueError := by
  unfold merge
  simp only [bind, Except.bind]
  rw [forIn_unit_err j _ .valueError]
  · intro x
    rw [hoa, hob]
    simp only
    split
    · right; rfl
    · split
      · right; rfl
      · left; rfl
  · obtain ⟨ja, hja, hbad⟩ := h
    refine ⟨ja, hja, ?_⟩
    rw [hoa, hob]
    simp only
    split
    · rfl
    · rename_i h1
      split
      · rfl
      · rename_i h2
        exfalso
        apply hbad
        simp only [Bool.or_eq_true, decide_eq_true_eq, not_or, not_lt, ge_iff_le, not_le] at h1 h2
        exact ⟨h1.1, h1.2, h2.1, h2.2⟩

end Qib.TNet
