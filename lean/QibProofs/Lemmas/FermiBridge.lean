import Mathlib.Data.Fintype.Pi
import Mathlib.Data.Fintype.BigOperators
import QibProofs.Lemmas.FermiTerm
/-!
Core D / C10: bridge from the executable `FieldOp.asMatrix` (array-backed integer / Gaussian-rational matrices at flat
indices, site 0 most significant) to the Mathlib-level denotation `FieldOp.mat` (bit-function indexing).

* `IMat.get_ofFn`, `Mat_get_ofFn`   : tabulated matrices return the tabulated function inside their bounds.
* `sum_range_two_pow`               : `Σ_{k < 2^L} f k = Σ_{m : Fin L → Bool} f (natOfBits m)`.
* `IMat.toM`, `IMat.mul_toM`, `IMat.one_toM`, `IMat.transpose_toM`.
* `kronFold_get`                    : the left-nested Kronecker loop `c = kron(c, F j)` has the entries
                                      `∏ₖ (F k)[bit k of row, bit k of column]`, bits taken most significant first.
* `createMat_toM`                   : `clist[i]` is `ladderM L i true`; `alist[i]` is `ladderM L i false`.
* `stringMat_ok`, `coeffLoop_ok`, `termLoop_ok`, `asMatrix_spec`.
Helper lemmas only; the property statements are in `Properties/C10.lean`.
-/

open Complex Matrix
namespace Qib.Fermi

/-! ### tabulated matrices -/

theorem div_mod_flat {n i j : ℕ} (hj : j < n) : (i * n + j) / n = i ∧ (i * n + j) % n = j := by
  have hn : 0 < n := by omega
  constructor
  · rw [Nat.add_comm, Nat.add_mul_div_right _ _ hn, Nat.div_eq_of_lt hj, Nat.zero_add]
  · rw [Nat.add_comm, Nat.add_mul_mod_self_right, Nat.mod_eq_of_lt hj]

theorem flat_lt {n m i j : ℕ} (hi : i < n) (hj : j < m) : i * m + j < n * m := by
  calc i * m + j < i * m + m := by omega
    _ = (i + 1) * m := by ring
    _ ≤ n * m := Nat.mul_le_mul_right _ hi

theorem IMat.get_ofFn (n : ℕ) (f : ℕ → ℕ → ℤ) {i j : ℕ} (hi : i < n) (hj : j < n) :
    (IMat.ofFn n f).get i j = f i j := by
  simp only [IMat.get, IMat.ofFn]
  rw [getD_ofFn _ _ (flat_lt hi hj)]
  simp only [(div_mod_flat hj).1, (div_mod_flat hj).2]

theorem Mat_get_ofFn (n m : ℕ) (f : ℕ → ℕ → Qib.GQ) {i j : ℕ} (hi : i < n) (hj : j < m) :
    (Qib.Mat.ofFn n m f).get i j = f i j := by
  simp only [Qib.Mat.get, Qib.Mat.ofFn]
  rw [getD_ofFn _ _ (flat_lt hi hj)]
  simp only [(div_mod_flat hj).1, (div_mod_flat hj).2]

/-! ### flat indices ↔ bit functions -/

theorem natOfBits_injective (L : ℕ) : Function.Injective (natOfBits L) := fun a b h => by
  rw [← bitsOfIdx_natOfBits L a, h, bitsOfIdx_natOfBits]

theorem sum_range_two_pow {M : Type*} [AddCommMonoid M] (L : ℕ) (f : ℕ → M) :
    ∑ k ∈ Finset.range (2 ^ L), f k = ∑ m : Fin L → Bool, f (natOfBits L m) := by
  have himg : Finset.image (natOfBits L) Finset.univ = Finset.range (2 ^ L) := by
    apply Finset.eq_of_subset_of_card_le
    · intro k hk
      obtain ⟨m, _, rfl⟩ := Finset.mem_image.mp hk
      exact Finset.mem_range.mpr (natOfBits_lt L m)
    · rw [Finset.card_image_of_injective _ (natOfBits_injective L)]
      simp
  rw [← himg, Finset.sum_image (fun a _ b _ h => natOfBits_injective L h)]

/-- every flat index below `2^L` is the index of exactly one bit function -/
theorem natOfBits_surjective (L k : ℕ) (hk : k < 2 ^ L) : ∃ r : Fin L → Bool, natOfBits L r = k := by
  have himg : Finset.image (natOfBits L) Finset.univ = Finset.range (2 ^ L) := by
    apply Finset.eq_of_subset_of_card_le
    · intro k hk
      obtain ⟨m, _, rfl⟩ := Finset.mem_image.mp hk
      exact Finset.mem_range.mpr (natOfBits_lt L m)
    · rw [Finset.card_image_of_injective _ (natOfBits_injective L)]
      simp
  have : k ∈ Finset.image (natOfBits L) Finset.univ := by rw [himg]; exact Finset.mem_range.mpr hk
  obtain ⟨r, _, hr⟩ := Finset.mem_image.mp this
  exact ⟨r, hr⟩

theorem foldl_add_eq_sum (n : ℕ) (g : ℕ → ℤ) :
    (List.range n).foldl (fun acc k => acc + g k) 0 = ∑ k ∈ Finset.range n, g k := by
  induction n with
  | zero => simp
  | succ n ih => simp [List.range_succ, List.foldl_append, ih, Finset.sum_range_succ]

/-! ### integer matrices as complex matrices in bit-function indexing -/

noncomputable def IMat.toM (L : ℕ) (A : IMat) : Matrix (Fin L → Bool) (Fin L → Bool) ℂ :=
  fun r c => ((A.get (natOfBits L r) (natOfBits L c) : ℤ) : ℂ)

theorem IMat.mul_n (A B : IMat) : (A.mul B).n = A.n := rfl

theorem IMat.mul_toM (L : ℕ) (A B : IMat) (hA : A.n = 2 ^ L) : (A.mul B).toM L = A.toM L * B.toM L := by
  ext r c
  have hr : natOfBits L r < A.n := hA ▸ natOfBits_lt L r
  have hc : natOfBits L c < A.n := hA ▸ natOfBits_lt L c
  simp only [IMat.toM, IMat.mul, Matrix.mul_apply]
  rw [IMat.get_ofFn _ _ hr hc, foldl_add_eq_sum, hA]
  push_cast
  exact sum_range_two_pow L fun k => ((A.get (natOfBits L r) k : ℤ) : ℂ) * ((B.get k (natOfBits L c) : ℤ) : ℂ)

theorem IMat.one_toM (L : ℕ) : (IMat.one (2 ^ L)).toM L = 1 := by
  ext r c
  simp only [IMat.toM, IMat.one, IMat.get_ofFn _ _ (natOfBits_lt L r) (natOfBits_lt L c), Matrix.one_apply]
  by_cases h : r = c
  · simp [h]
  · have : natOfBits L r ≠ natOfBits L c := fun e => h (natOfBits_injective L e)
    simp [h, this]

theorem IMat.transpose_n (A : IMat) : A.transpose.n = A.n := rfl

theorem IMat.transpose_toM (L : ℕ) (A : IMat) (hA : A.n = 2 ^ L) : A.transpose.toM L = (A.toM L)ᴴ := by
  ext r c
  have hr : natOfBits L r < A.n := hA ▸ natOfBits_lt L r
  have hc : natOfBits L c < A.n := hA ▸ natOfBits_lt L c
  simp only [IMat.toM, IMat.transpose, IMat.get_ofFn _ _ hr hc, Matrix.conjTranspose_apply]
  simp

/-! ### the Kronecker loop -/

/-- `c = identity(1); for j in range(m): c = kron(c, F j)` -/
def kronFold (F : ℕ → IMat) (m : ℕ) : IMat := (List.range m).foldl (fun c j => c.kron (F j)) (IMat.one 1)

theorem kronFold_succ (F : ℕ → IMat) (m : ℕ) : kronFold F (m + 1) = (kronFold F m).kron (F m) := by
  simp [kronFold, List.range_succ, List.foldl_append]

theorem IMat.kron_n (A B : IMat) : (A.kron B).n = A.n * B.n := rfl

theorem kronFold_n (F : ℕ → IMat) (hF : ∀ j, (F j).n = 2) (m : ℕ) : (kronFold F m).n = 2 ^ m := by
  induction m with
  | zero => rfl
  | succ m ih => rw [kronFold_succ, IMat.kron_n, ih, hF, pow_succ]

theorem bitAt_succ_of_lt (m k r : ℕ) (hk : k < m) : bitAt (m + 1) k r = bitAt m k (r / 2) := by
  simp only [bitAt]
  have : m + 1 - 1 - k = (m - 1 - k) + 1 := by omega
  rw [this, Nat.testBit_succ]

theorem bitAt_succ_last (m r : ℕ) : (bitAt (m + 1) m r).toNat = r % 2 := by
  simp only [bitAt]
  have : m + 1 - 1 - m = 0 := by omega
  rw [this, Nat.testBit_zero]
  rcases Nat.mod_two_eq_zero_or_one r with h | h <;> simp [h]

theorem kronFold_get (F : ℕ → IMat) (hF : ∀ j, (F j).n = 2) (m : ℕ) :
    ∀ r c, r < 2 ^ m → c < 2 ^ m →
      (kronFold F m).get r c = ∏ k ∈ Finset.range m, (F k).get (bitAt m k r).toNat (bitAt m k c).toNat := by
  induction m with
  | zero =>
    intro r c hr hc
    have hr0 : r = 0 := by simpa using hr
    have hc0 : c = 0 := by simpa using hc
    subst hr0; subst hc0
    simp only [kronFold, List.range_zero, List.foldl_nil, IMat.one, Finset.range_zero, Finset.prod_empty]
    rw [IMat.get_ofFn 1 _ (by omega) (by omega)]
    simp
  | succ m ih =>
    intro r c hr hc
    have hn := kronFold_n F hF m
    have hr' : r < (kronFold F m).n * (F m).n := by rw [hn, hF, ← pow_succ]; exact hr
    have hc' : c < (kronFold F m).n * (F m).n := by rw [hn, hF, ← pow_succ]; exact hc
    rw [kronFold_succ]
    simp only [IMat.kron]
    rw [IMat.get_ofFn _ _ hr' hc', hF]
    rw [ih (r / 2) (c / 2) (by rw [pow_succ] at hr; omega) (by rw [pow_succ] at hc; omega)]
    rw [Finset.prod_range_succ, bitAt_succ_last, bitAt_succ_last]
    congr 1
    apply Finset.prod_congr rfl
    intro k hk
    have hk' := Finset.mem_range.mp hk
    rw [bitAt_succ_of_lt m k r hk', bitAt_succ_of_lt m k c hk']

theorem siteFactor_n (i j : ℕ) : (siteFactor i j).n = 2 := by
  simp only [siteFactor]; split_ifs <;> rfl

theorem createMat_eq (L i : ℕ) : createMat L i = kronFold (siteFactor i) L := rfl

theorem createMat_n (L i : ℕ) : (createMat L i).n = 2 ^ L := kronFold_n _ (siteFactor_n i) L

theorem siteI_get (a b : Bool) : ((siteI.get a.toNat b.toNat : ℤ) : ℂ) = (1 : Matrix Bool Bool ℂ) a b := by
  cases a <;> cases b <;> simp [siteI, IMat.get_ofFn]
theorem siteZ_get (a b : Bool) : ((siteZ.get a.toNat b.toNat : ℤ) : ℂ) = pauliZ a b := by
  cases a <;> cases b <;> simp [siteZ, IMat.get_ofFn, pauliZ]
theorem siteU_get (a b : Bool) : ((siteU.get a.toNat b.toNat : ℤ) : ℂ) = siteUm a b := by
  cases a <;> cases b <;> simp [siteU, IMat.get_ofFn, siteUm]

theorem siteFactor_get {L : ℕ} (i : Fin L) (k : Fin L) (a b : Bool) :
    (((siteFactor i k).get a.toNat b.toNat : ℤ) : ℂ) = ladFam i siteUm k a b := by
  simp only [siteFactor, ladFam, Fin.lt_def, Fin.ext_iff]
  split_ifs
  · exact siteI_get a b
  · exact siteU_get a b
  · exact siteZ_get a b

/-- `clist[i]` is the creation operator of site `i` -/
theorem createMat_toM (L : ℕ) (i : Fin L) : (createMat L i).toM L = ladderM L i true := by
  ext r c
  simp only [IMat.toM, createMat_eq]
  rw [kronFold_get _ (siteFactor_n i) L _ _ (natOfBits_lt L r) (natOfBits_lt L c)]
  push_cast
  rw [Finset.prod_range fun k => (((siteFactor i k).get (bitAt L k (natOfBits L r)).toNat
    (bitAt L k (natOfBits L c)).toNat : ℤ) : ℂ)]
  simp only [ladderM, tens, ladSite, if_true]
  apply Finset.prod_congr rfl
  intro k _
  rw [bitAt_natOfBits, bitAt_natOfBits]
  exact siteFactor_get i k (r k) (c k)

theorem clist_getElem? (L j : ℕ) : (clist L)[j]? = if j < L then some (createMat L j) else none := by
  simp only [clist, List.getElem?_toArray, List.getElem?_map]
  split_ifs with h <;> simp [h]

theorem alist_getElem? (L j : ℕ) : (alist L)[j]? = if j < L then some (createMat L j).transpose else none := by
  simp only [alist, Array.getElem?_map, clist_getElem?]
  split_ifs <;> rfl

/-! ### ladder strings, the coefficient loop, the term loop -/

theorem stringMat_ok (L : ℕ) (ds : List IFODesc) (hk : ∀ d ∈ ds, (opKind d.otype).isSome) :
    ∀ (js : List ℕ) (acc : IMat), acc.n = 2 ^ L → (∀ j ∈ js, j < L) →
      ∃ fs, stringMat (clist L) (alist L) ds js acc = .ok fs ∧ fs.n = 2 ^ L ∧
        fs.toM L = acc.toM L * stringM L ds js := by
  induction ds with
  | nil => intro js acc hacc _; exact ⟨acc, by simp [stringMat], hacc, by simp⟩
  | cons d ds ih =>
    intro js acc hacc hj
    cases js with
    | nil => exact ⟨acc, by simp [stringMat], hacc, by simp⟩
    | cons j js =>
      have hjL : j < L := hj j (List.mem_cons_self ..)
      have hk' : ∀ d ∈ ds, (opKind d.otype).isSome := fun e he => hk e (List.mem_cons_of_mem _ he)
      have hj' : ∀ j ∈ js, j < L := fun e he => hj e (List.mem_cons_of_mem _ he)
      have hd := hk d (List.mem_cons_self ..)
      cases ho : d.otype <;> simp only [ho, opKind, Option.isSome_none, Bool.false_eq_true] at hd
      · -- creation
        obtain ⟨fs, h1, h2, h3⟩ := ih hk' js (acc.mul (createMat L j)) hacc hj'
        refine ⟨fs, ?_, h2, ?_⟩
        · simp only [stringMat, ho, clist_getElem?, hjL, if_true]; exact h1
        · rw [h3, IMat.mul_toM L _ _ hacc, createMat_toM L ⟨j, hjL⟩, stringM_cons, Matrix.mul_assoc]
          simp only [ladderN, ho, opKind, hjL, dif_pos]
      · -- annihilation
        obtain ⟨fs, h1, h2, h3⟩ := ih hk' js (acc.mul (createMat L j).transpose) hacc hj'
        refine ⟨fs, ?_, h2, ?_⟩
        · simp only [stringMat, ho, alist_getElem?, hjL, if_true]; exact h1
        · rw [h3, IMat.mul_toM L _ _ hacc, IMat.transpose_toM L _ (createMat_n L j), createMat_toM L ⟨j, hjL⟩,
            ladderM_conjTranspose, stringM_cons, Matrix.mul_assoc]
          simp only [ladderN, ho, opKind, hjL, dif_pos, Bool.not_true]

/-- Gaussian-rational matrices as complex matrices in bit-function indexing -/
noncomputable def MtoM (L : ℕ) (M : Qib.Mat) : Matrix (Fin L → Bool) (Fin L → Bool) ℂ :=
  fun r c => gqC (M.get (natOfBits L r) (natOfBits L c))

theorem zeroMat_toM (L : ℕ) : MtoM L (zeroMat (2 ^ L)) = 0 := by
  ext r c
  simp [MtoM, zeroMat, Mat_get_ofFn _ _ _ (natOfBits_lt L r) (natOfBits_lt L c)]

theorem addScaled_toM (L : ℕ) (op : Qib.Mat) (c : Qib.GQ) (fs : IMat) (h1 : op.n = 2 ^ L) (h2 : op.m = 2 ^ L) :
    MtoM L (addScaled op c fs) = MtoM L op + gqC c • fs.toM L := by
  ext r s
  have hr : natOfBits L r < op.n := h1 ▸ natOfBits_lt L r
  have hs : natOfBits L s < op.m := h2 ▸ natOfBits_lt L s
  simp only [MtoM, addScaled, Mat_get_ofFn _ _ _ hr hs, gqC_add, gqC_mul, gqC_ofInt, Matrix.add_apply,
    Matrix.smul_apply, IMat.toM, smul_eq_mul]

/-- the conditions under which `as_matrix` processes a term without raising -/
structure Term.Good (L : ℕ) (t : Term) : Prop where
  fermi : ∀ d ∈ t.opdesc, (opKind d.otype).isSome
  nonempty : prodL t.coeffs.shape ≠ 0
  inRange : ∀ idx, InShape idx t.coeffs.shape → t.coeffs.get idx ≠ 0 → ∀ j ∈ idx, j < L

theorem coeffLoop_ok (L : ℕ) (t : Term) (hk : ∀ d ∈ t.opdesc, (opKind d.otype).isSome) :
    ∀ (idxs : List (List ℕ)) (op : Qib.Mat), op.n = 2 ^ L → op.m = 2 ^ L →
      (∀ idx ∈ idxs, t.coeffs.get idx ≠ 0 → ∀ j ∈ idx, j < L) →
      ∃ M, coeffLoop L (clist L) (alist L) t idxs op = .ok M ∧ M.n = 2 ^ L ∧ M.m = 2 ^ L ∧
        MtoM L M = MtoM L op + (idxs.map fun idx => gqC (t.coeffs.get idx) • stringM L t.opdesc idx).sum := by
  intro idxs
  induction idxs with
  | nil => intro op h1 h2 _; exact ⟨op, rfl, h1, h2, by simp⟩
  | cons idx rest ih =>
    intro op h1 h2 hin
    have hin' : ∀ i ∈ rest, t.coeffs.get i ≠ 0 → ∀ j ∈ i, j < L := fun i hi => hin i (List.mem_cons_of_mem _ hi)
    by_cases hc : t.coeffs.get idx = 0
    · obtain ⟨M, e, m1, m2, m3⟩ := ih op h1 h2 hin'
      refine ⟨M, ?_, m1, m2, ?_⟩
      · simp only [coeffLoop, coeffStep, hc, if_true]; exact e
      · rw [m3]; simp [hc]
    · obtain ⟨fs, f1, f2, f3⟩ := stringMat_ok L t.opdesc hk idx (IMat.one (2 ^ L)) rfl
        (hin idx (List.mem_cons_self ..) hc)
      obtain ⟨M, e, m1, m2, m3⟩ := ih (addScaled op (t.coeffs.get idx) fs) h1 h2 hin'
      refine ⟨M, ?_, m1, m2, ?_⟩
      · simp only [coeffLoop, coeffStep, hc, if_false, f1]; exact e
      · rw [m3, addScaled_toM L op _ fs h1 h2, f3, IMat.one_toM, Matrix.one_mul]
        simp [add_assoc]

theorem termLoop_ok (L : ℕ) :
    ∀ (ts : List Term) (op : Qib.Mat), op.n = 2 ^ L → op.m = 2 ^ L → (∀ t ∈ ts, t.Good L) →
      ∃ M, termLoop L (clist L) (alist L) ts op = .ok M ∧ M.n = 2 ^ L ∧ M.m = 2 ^ L ∧
        MtoM L M = MtoM L op + (ts.map (Term.mat L)).sum := by
  intro ts
  induction ts with
  | nil => intro op h1 h2 _; exact ⟨op, rfl, h1, h2, by simp⟩
  | cons t rest ih =>
    intro op h1 h2 hg
    have g := hg t (List.mem_cons_self ..)
    obtain ⟨M1, e1, a1, a2, a3⟩ := coeffLoop_ok L t g.fermi (multiIndices t.coeffs.shape) op h1 h2
      (fun idx hidx => g.inRange idx (mem_multiIndices.mp hidx))
    obtain ⟨M, e, m1, m2, m3⟩ := ih M1 a1 a2 (fun u hu => hg u (List.mem_cons_of_mem _ hu))
    refine ⟨M, ?_, m1, m2, ?_⟩
    · simp only [termLoop, termStep, g.nonempty, if_false, e1]; exact e
    · rw [m3, a3]; simp [Term.mat, add_assoc]

/-- `as_matrix()` of an operator on one fermionic field whose terms are all processable returns the matrix
`FieldOp.mat` (entries read at flat indices, site 0 most significant) -/
theorem asMatrix_spec (op : FieldOp) (f : FieldD) (hf : op.fields = [f]) (hp : f.ptype = .fermion)
    (hg : ∀ t ∈ op.terms, t.Good f.nsites) :
    ∃ M, op.asMatrix = .ok M ∧ M.n = 2 ^ f.nsites ∧ M.m = 2 ^ f.nsites ∧ MtoM f.nsites M = op.mat f.nsites := by
  obtain ⟨M, e, m1, m2, m3⟩ := termLoop_ok f.nsites op.terms (zeroMat (2 ^ f.nsites)) rfl rfl hg
  refine ⟨M, ?_, m1, m2, ?_⟩
  · simp only [FieldOp.asMatrix, hf, hp, ne_eq, not_true_eq_false, if_false, asMatrixL]; exact e
  · rw [m3, zeroMat_toM, zero_add]; rfl

end Qib.Fermi
