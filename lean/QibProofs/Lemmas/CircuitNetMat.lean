import QibProofs.Lemmas.CircuitNetStep
import QibProofs.Lemmas.CircuitMat
/-!
Helper lemmas for C05 (tensor-network part), part 6: the bridge between multi-indices (lists of bits, first wire
first) and flat register indices (`bitsVal`, wire 0 most significant): enumeration of the register, bits of a flat index,
and left multiplication by an embedded gate written as a sum over the gate's input index. No property statements.
-/
set_option linter.unusedSimpArgs false
namespace Qib.CircuitNet
open Qib.TNet Qib.GateNet Qib.Embed

/-! ### enumeration of the register -/

theorem map_bitsVal_allIdx (n : Nat) : (allIdx (rep2 n)).map bitsVal = List.range (2 ^ n) := by
  induction n with
  | zero => simp [rep2, allIdx, bitsVal]
  | succ k ih =>
    have h1 : rep2 (k + 1) = 2 :: rep2 k := by simp [rep2, List.replicate_succ]
    rw [h1, allIdx]
    have hlen : ∀ z ∈ allIdx (rep2 k), z.length = k := fun z hz => (mem_allIdx_rep2.mp hz).1
    have hmap : ∀ i : Nat, ((allIdx (rep2 k)).map (fun z => i :: z)).map bitsVal =
        (List.range (2 ^ k)).map (fun v => i * 2 ^ k + v) := by
      intro i
      rw [← ih, List.map_map, List.map_map]
      apply List.map_congr_left
      intro z hz
      simp only [Function.comp, bitsVal_cons, hlen z hz]
    have : List.range 2 = [0, 1] := by decide
    rw [this]
    simp only [List.flatMap_cons, List.flatMap_nil, List.append_nil, List.map_append, hmap]
    have e : 2 ^ (k + 1) = 2 ^ k + 2 ^ k := by rw [Nat.pow_succ]; omega
    rw [e, List.range_add]
    congr 1
    · simp
    · apply List.map_congr_left; intro v _; omega

section Sum
variable {α : Type} [AddCommMonoid α]

/-- a sum over the flat register indices is a sum over the bit lists -/
theorem sum_range_pow (n : Nat) (F : Nat → α) :
    ((List.range (2 ^ n)).map F).sum = ((allIdx (rep2 n)).map (fun κ => F (bitsVal κ))).sum := by
  rw [← map_bitsVal_allIdx, List.map_map]
  rfl

end Sum

/-! ### bits of a flat index -/

theorem bitsVal_eq_undigits (bs : List Bool) : bitsVal (bs.map Bool.toNat) = undigits bs := by
  unfold bitsVal undigits
  rw [List.foldl_map]

theorem bits_eq_map {o : List Nat} (ho : Bits o) : o = (o.map (fun x => decide (x = 1))).map Bool.toNat := by
  rw [List.map_map]
  apply List.ext_getElem
  · simp
  · intro i h1 h2
    have := ho o[i] (List.getElem_mem h1)
    simp only [List.getElem_map, Function.comp]
    by_cases h : o[i] = 1
    · simp [h]
    · have : o[i] = 0 := by omega
      simp [this]

/-- the bit of wire `w` of the flat index of a bit list is its `w`-th entry -/
theorem wireBit_bitsVal {n : Nat} {o : List Nat} (ho : Bits o) (hl : o.length = n) {w : Nat} (hw : w < n) :
    wireBit n (bitsVal o) w = decide (o[w]?.getD 0 = 1) := by
  unfold wireBit
  rw [bits_eq_map ho, bitsVal_eq_undigits, undigits_testBit]
  rw [List.getElem?_reverse (by simp [hl]; omega)]
  simp only [List.length_map, hl]
  have e : n - 1 - (n - 1 - w) = w := by omega
  rw [e, List.getElem?_map]
  have hw' : w < o.length := by omega
  rw [List.getElem?_eq_getElem hw']
  simp only [Option.map_some, Option.getD_some]
  rw [List.getElem?_map, List.getElem?_map, List.getElem?_eq_getElem hw']
  simp

theorem gateIdx_bitsVal {n : Nat} {o : List Nat} (ho : Bits o) (hl : o.length = n) (iw : List Nat)
    (hiw : ∀ w ∈ iw, w < n) : gateIdx n iw (bitsVal o) = bitsVal (pickD o 0 iw) := by
  unfold gateIdx bitsVal pickD
  rw [List.foldl_map]
  have : ∀ (l : List Nat) (a : Nat), (∀ w ∈ l, w < n) →
      l.foldl (fun a w => 2 * a + (wireBit n (List.foldl (fun a b => 2 * a + b) 0 o) w).toNat) a =
      l.foldl (fun a w => 2 * a + o[w]?.getD 0) a := by
    intro l
    induction l with
    | nil => intro a _; rfl
    | cons w l ih =>
      intro a hl'
      simp only [List.foldl_cons]
      have hw := hl' w List.mem_cons_self
      have hb := wireBit_bitsVal ho hl hw
      unfold bitsVal at hb
      rw [hb]
      have hbit : (decide (o[w]?.getD 0 = 1)).toNat = o[w]?.getD 0 := by
        have hw' : w < o.length := by omega
        rw [List.getElem?_eq_getElem hw']
        simp only [Option.getD_some]
        have := ho o[w] (List.getElem_mem hw')
        by_cases h : o[w] = 1
        · simp [h]
        · have : o[w] = 0 := by omega
          simp [this]
      rw [hbit]
      exact ih _ (fun x hx => hl' x (List.mem_cons_of_mem _ hx))
  exact this iw 0 hiw

theorem pickD_setW (o iw t : List Nat) (hn : iw.Nodup) (hlt : ∀ w ∈ iw, w < o.length) (ht : t.length = iw.length) :
    pickD (setW o iw t) 0 iw = t := by
  apply List.ext_getElem
  · simp [pickD, ht]
  · intro q h1 h2
    have hq : q < iw.length := by simpa [pickD] using h1
    simp only [pickD, List.getElem_map]
    rw [getD_setW_wire o iw t hn q hq (hlt _ (List.getElem_mem hq)), List.getElem?_eq_getElem h2]
    rfl

/-- two bit lists agree off the wires iff the second is the first overwritten on the wires -/
theorem agreeOff_bitsVal {n : Nat} {o κ : List Nat} (ho : Bits o) (hl : o.length = n) (hκ : Bits κ)
    (hlκ : κ.length = n) (iw : List Nat) :
    agreeOff n iw (bitsVal o) (bitsVal κ) = true ↔ κ = setW o iw (pickD κ 0 iw) := by
  rw [agreeOff_iff]
  constructor
  · intro h
    apply List.ext_getElem
    · rw [setW_length, hl, hlκ]
    · intro p h1 h2
      have hp : p < n := by omega
      have hgoal : κ[p]?.getD 0 = (setW o iw (pickD κ 0 iw))[p]?.getD 0 := by
        rw [getD_setW _ _ _ _ (by omega)]
        by_cases hpw : p ∈ iw
        · rw [if_pos hpw]
          have hidx : iw.idxOf p < iw.length := List.idxOf_lt_length_of_mem hpw
          simp only [pickD]
          rw [List.getElem?_map, List.getElem?_eq_getElem hidx]
          simp only [Option.map_some, Option.getD_some]
          rw [List.getElem_idxOf hidx]
        · rw [if_neg hpw]
          have := h p hp hpw
          rw [wireBit_bitsVal ho hl hp, wireBit_bitsVal hκ hlκ hp] at this
          have h1' : p < o.length := by omega
          have b1 := ho o[p] (List.getElem_mem h1')
          have b2 := hκ κ[p] (List.getElem_mem h1)
          rw [List.getElem?_eq_getElem h1', List.getElem?_eq_getElem h1] at this ⊢
          simp only [Option.getD_some, decide_eq_decide] at this ⊢
          omega
      rw [List.getElem?_eq_getElem h1, List.getElem?_eq_getElem h2] at hgoal
      simpa using hgoal
  · intro h w hw hni
    rw [wireBit_bitsVal ho hl hw, wireBit_bitsVal hκ hlκ hw]
    have : κ[w]?.getD 0 = o[w]?.getD 0 := by
      conv_lhs => rw [h]
      rw [getD_setW _ _ _ _ (by omega), if_neg hni]
    rw [this]

/-! ### left multiplication by an embedded gate -/
section Mul
variable {α : Type} [CommSemiring α]

/-- `(embedded gate · P)[R, C]` with `R` the flat index of the bit list `o`: the sum over the gate's input index `t` of
`g[o restricted to the wires, t] · P[o with the wires overwritten by t, C]` -/
theorem embed_mul_bits {n : Nat} (iw : List Nat) (hn : iw.Nodup) (hlt : ∀ w ∈ iw, w < n) (g : Nat → Nat → α)
    (f : Nat → α) {o : List Nat} (ho : Bits o) (hl : o.length = n) :
    ((List.range (2 ^ n)).map (fun K => embedEntry n iw g (bitsVal o) K * f K)).sum =
      ((allIdx (rep2 iw.length)).map (fun t =>
        g (bitsVal (pickD o 0 iw)) (bitsVal t) * f (bitsVal (setW o iw t)))).sum := by
  rw [sum_range_pow]
  -- every summand as a sum over the gate's input index
  have hterm : ∀ κ ∈ allIdx (rep2 n),
      embedEntry n iw g (bitsVal o) (bitsVal κ) * f (bitsVal κ) =
      ((allIdx (rep2 iw.length)).map (fun t =>
        if pickD κ 0 iw = t then (if setW o iw t = κ then g (bitsVal (pickD o 0 iw)) (bitsVal t) * f (bitsVal κ) else 0)
        else 0)).sum := by
    intro κ hκ
    obtain ⟨hlκ, hbκ⟩ := mem_allIdx_rep2.mp hκ
    have hmem : pickD κ 0 iw ∈ allIdx (rep2 iw.length) := by
      rw [mem_allIdx_rep2]; exact ⟨by simp [pickD], bits_pickD hbκ _⟩
    rw [sum_delta_nodup _ (nodup_allIdx _), if_pos hmem]
    unfold embedEntry
    by_cases ha : agreeOff n iw (bitsVal o) (bitsVal κ) = true
    · have hκe := (agreeOff_bitsVal ho hl hbκ hlκ iw).mp ha
      rw [if_pos ha, if_pos hκe.symm, gateIdx_bitsVal ho hl iw hlt, gateIdx_bitsVal hbκ hlκ iw hlt]
    · have hκe : ¬ setW o iw (pickD κ 0 iw) = κ := fun h => ha ((agreeOff_bitsVal ho hl hbκ hlκ iw).mpr h.symm)
      rw [if_neg ha, if_neg hκe, zero_mul]
  rw [List.map_congr_left hterm, sum_swap]
  apply congrArg
  apply List.map_congr_left
  intro t ht
  obtain ⟨htl, htb⟩ := mem_allIdx_rep2.mp ht
  have hX : setW o iw t ∈ allIdx (rep2 n) := by
    rw [mem_allIdx_rep2]; exact ⟨by rw [setW_length, hl], bits_setW ho htb⟩
  have hcond : ∀ κ ∈ allIdx (rep2 n),
      (if pickD κ 0 iw = t then (if setW o iw t = κ then g (bitsVal (pickD o 0 iw)) (bitsVal t) * f (bitsVal κ) else 0)
        else 0) =
      if setW o iw t = κ then g (bitsVal (pickD o 0 iw)) (bitsVal t) * f (bitsVal κ) else 0 := by
    intro κ _
    by_cases h : setW o iw t = κ
    · have : pickD κ 0 iw = t := by rw [← h]; exact pickD_setW o iw t hn (by rw [hl]; exact hlt) htl
      rw [if_pos this]
    · rw [if_neg h]; split <;> rfl
  rw [List.map_congr_left hcond, sum_delta_nodup _ (nodup_allIdx _) (setW o iw t)
    (fun κ => g (bitsVal (pickD o 0 iw)) (bitsVal t) * f (bitsVal κ)), if_pos hX]

end Mul

end Qib.CircuitNet
